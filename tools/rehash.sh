#!/bin/bash
# rehash.sh old new [old new …] — rewrite fix-commit hashes recorded on an agent branch to the hashes on /repo main
cd /verif
while [ $# -ge 2 ]; do
  grep -rl "$1" known_findings.d known_findings.json checks DESIGN.md replays/known 2>/dev/null | xargs -r sed -i "s/$1/$2/g"
  shift 2
done
