#!/bin/bash
# merge_agents.sh <agent>...  — cherry-pick each agent's repo commits onto /repo main, merge its verif branch,
# rewrite fix hashes, refresh the hook-commit list, rebuild, regenerate the manifest.
cd /verif || exit 1
git add -A; git commit -qm "work tree before merge" >/dev/null 2>&1
[ -n "$(git -C /repo status --porcelain --untracked-files=no)" ] && { echo "/repo not clean"; exit 1; }
MAP=""
for a in "$@"; do
  echo "--- repo: $a"
  for c in $(git -C /repo log --reverse --format=%h --no-merges main..ag-$a); do
    if git -C /repo cherry-pick $c >/dev/null 2>&1; then
      n=$(git -C /repo log --format=%h -1); echo "picked $c -> $n $(git -C /repo log --format=%s -1 | cut -c1-80)"; MAP="$MAP $c $n"
    else
      echo "CONFLICT $c ($(git -C /repo log --format=%s -1 $c | cut -c1-60)): $(git -C /repo diff --name-only --diff-filter=U | tr '\n' ' ')"; git -C /repo cherry-pick --abort
    fi
  done
done
(cd /repo && GOPROXY=off go build ./... && GOPROXY=off go build -tags verif ./... && cd sdk/go/hydraidego && GOPROXY=off go build ./... && GOPROXY=off go build -tags verif ./...) && echo REPO-BUILD-OK || echo REPO-BUILD-FAILED
for a in "$@"; do
  echo "--- verif: $a"
  git merge --no-edit ag-$a 2>&1 | tail -1
  for f in $(git diff --name-only --diff-filter=U); do
    case $f in evidence/*) git checkout --theirs $f;; hooks_commits.txt|checks/pending.json|MANIFEST.json) git checkout --ours $f;; *) echo "REAL CONFLICT $f";; esac
  done
  git add -A; git commit -qm "merge ag-$a" 2>/dev/null
done
[ -n "$MAP" ] && tools/rehash.sh $MAP
(cd /repo && git log --reverse --format='%h %s' | grep "verif hooks" | awk '{print $1}') > hooks_commits.txt
bash setup.sh 2>&1 | grep -E '^error|Build completed|setup\] done'
python3 tools/mkmanifest.py
git add -A; git commit -qm "merge $* : hashes, hooks list, manifest" -q
