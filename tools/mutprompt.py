#!/usr/bin/env python3
"""Prints the prompt for an independent seeded-defect sub-agent (property text only; nothing from /verif)."""
import json, sys
pid = sys.argv[1]
p = next(json.loads(l) for l in open("/verif/properties.jsonl") if json.loads(l)["id"] == pid)
wt = "/tmp/mut/%s" % pid
print(f"""You are testing how robust a Go codebase's quality gates are. The repository is hydraide/hydraide (HydrAIDE: a Go gRPC data engine with per-swamp in-memory indexes, an append-only single-file storage engine with compaction, TTL locks and subscriptions). Work ONLY in your own scratch git worktree; create it first:

    mkdir -p /tmp/mut && git -C /repo worktree add --detach {wt} HEAD && cd {wt}

Never edit /repo itself and never read or write anything under /verif (it is off limits for this task). Go environment for every shell call: `export GOPROXY=off` (do not set GOSUMDB; do not try to download anything — there is no network). NEVER use `git stash` (the stash is shared between all worktrees of this repository and other people are working in theirs) — use `git diff > file`, `git checkout -- .` and `git apply file` instead. Notes on the existing tests: the test binary of ./app/core/hydra/swamp does not compile even at pristine HEAD (ignore that package); the gateway tests leave git-ignored app/server/gateway/data and settings directories behind — delete them before re-running; app/core/hydra/lock TestLockBusyWaitDetection is load-sensitive (re-run it alone if it fails). Build with `go build ./...`; run tests of a package with `go test -vet=off -count=1 ./path/...` (the SDK module is in sdk/go/hydraidego — cd there to test it).

Here is a semantic property the system is supposed to satisfy:

  ID: {p['id']} — {p['title']}
  Statement: {p['statement']}
  It must hold for: {p['quantifier']['text']}
  Code it is anchored in: {', '.join(p['anchors']['files'])}
  Mechanisms meant to make it hold: {'; '.join(m.get('name','')+' ('+m.get('where','')+')' for m in p['anchors'].get('mechanism', []))}

YOUR JOB: produce TWO different, independent, realistic changes to the repository's non-test Go source (each a small patch, as a developer might plausibly write during a refactor, optimisation or "simplification") such that, for each change separately: (1) the repository still compiles (`go build ./...`, and `go vet` is not required); (2) the existing tests of every package you touched, plus ./app/server/gateway/ and ./app/core/hydra/... , still pass UNEDITED (run them; if a test fails, your change is not acceptable — pick another); (3) the property above is now violated; (4) the violation needs something specific to manifest — a particular interleaving, a crash or fault at a particular point, a multi-step sequence of operations, an unusual input, or two cooperating sites that each look fine alone — NOT something ordinary use would expose at once. Do not touch test files, build tags, or anything under app/verifhook; do not add `//go:build` constraints; do not make the change conditional on magic values, environment variables or time of day — it must be an honest logic change.

For each change write a DEMONSTRATION: a Go test file (put it next to the code, named zz_seeded_{pid.lower()}_a_test.go / …_b_test.go, package-internal if needed) or a small main program, that FAILS (or prints a clear violation) with the change applied and PASSES without it. Make the demonstration deterministic (force the interleaving with channels/sleeps/hooks inside the test if needed; loop enough times if it is probabilistic and say so). Verify both directions yourself: `git stash` / `git checkout` the source change while keeping the demo file, run, then re-apply.

Deliverables, written under {wt}/_seeded/ (create it):
  a/patch.diff   — `git diff` of the SOURCE change only (no demo file), applicable with `git apply` at the worktree's HEAD
  a/demo_test.go (or demo/main.go) — the demonstration, plus a/RUN.txt with the exact command to run it from the repo root and where the file must be placed
  a/meta.json    — {{"property": "{pid}", "summary": "...", "needs_to_manifest": "...", "files_changed": [...], "tests_run": ["..."], "demo_fails_with_patch": true, "demo_passes_without_patch": true}}
  b/…            — the same for the second change
Leave the worktree's tracked files CLEAN at the end (git checkout -- . ; remove the demo files from the source tree after copying them into _seeded/), so that each patch applies to a pristine HEAD.

Final answer (≤ 15 lines): for a and b — one-line summary of the change, what it needs to manifest, which test packages you ran and their result, and confirmation that the demo fails with / passes without the patch. If you could only produce one acceptable change, say so.""")
