#!/usr/bin/env python3
"""Self-test of the C26 and C23 checks: realistic, compiling, baseline-passing single-purpose defects that need a
specific input to show.  Each one is applied to the repository worktree named by VERIF_REPO, the property's check is
run, the worktree is restored, and the outcome is written to selftest/req_results.json.

    VERIF_REPO=/var/tmp/ag/req/repo python3 tools/selftest_req.py [name ...]
"""
import glob, json, os, shutil, subprocess, sys, time

V = os.path.dirname(os.path.dirname(os.path.abspath(__file__)))
REPO = os.environ.get("VERIF_REPO", "/repo")
GW = "app/server/gateway/gateway.go"
MIG = "app/core/hydra/swamp/chronicler/v2/migrator/migrator.go"


def rep(old, new):
    def f(s):
        assert s.count(old) == 1, "pattern not found exactly once"
        return s.replace(old, new)
    return f


def within(func_sig, old, new):
    def f(s):
        i = s.index(func_sig)
        j = s.index(old, i)
        return s[:j] + new + s[j + len(old):]
    return f


def move_block(start_marker, end_marker, before_marker):
    def f(s):
        i = s.index(start_marker); j = s.index(end_marker, i)
        blk = s[i:j]; s = s[:i] + s[j:]
        k = s.index(before_marker)
        return s[:k] + blk + s[k:]
    return f


MUTANTS = [
 # ---- C26
 ("C26", "S1-subscribe-info-parses-name-directly", GW,
  "SubscribeToInfo (rarely used stream RPC) replaces checkSwampName by its own empty test + name.Load; needs a name with fewer than three parts",
  within("func (g Gateway) SubscribeToInfo(",
         "\tswampName, err := checkSwampName(g.ZeusInterface, in.GetIslandID(), in.SwampName, false)\n\tif err != nil {\n\t\treturn status.Error(codes.InvalidArgument, err.Error())\n\t}\n",
         "\tif in.SwampName == \"\" {\n\t\treturn status.Error(codes.InvalidArgument, \"SwampName cannot be empty\")\n\t}\n\tswampName := name.Load(in.SwampName)\n")),
 ("C26", "S2-first-key-read-before-length-check", GW,
  "AreKeysExist logs keys[0] before the `len(keys) == 0` check; needs an absent / empty key list",
  rep("\t// validate that we have at least one key\n\tif len(in.GetKeys()) == 0 {",
      "\tslog.Debug(\"AreKeysExist\", \"first\", in.GetKeys()[0])\n\n\t// validate that we have at least one key\n\tif len(in.GetKeys()) == 0 {")),
 ("C26", "S3-many-batch-aborts-on-entry-error", GW,
  "ShiftExpiredTreasuresMany returns the entry's error instead of recording it; needs a batch whose valid first entry shifts treasures and whose second entry is malformed: an error reply after the store changed",
  rep("\t\ttreasures, err := shiftExpiredOneSwamp(ctx, g, req)\n\t\tif err != nil {\n\t\t\ts := err.Error()\n\t\t\tentry.Error = &s\n\t\t} else {",
      "\t\ttreasures, err := shiftExpiredOneSwamp(ctx, g, req)\n\t\tif err != nil {\n\t\t\treturn nil, err\n\t\t} else {")),
 ("C26", "S4-one-handler-loses-unlock-defer", GW,
  "CompactSwamp calls UnlockSystem at the end instead of deferring it; shows on the early-return paths (missing swamp): the system lock stays held",
  within("func (g Gateway) CompactSwamp(", "\tdefer g.ZeusInterface.GetSafeops().UnlockSystem()\n", "")),
 # ---- C23
 ("C23", "T1-close-error-ignored", MIG,
  "writeV2File ignores the error of writer.Close(); needs a write failure at the final flush with Verify off and DeleteOld on: truncated .hyd, V1 files deleted",
  rep("\tif err := writer.Close(); err != nil {\n\t\tos.Remove(filePath)\n\t\treturn err\n\t}", "\t_ = writer.Close()")),
 ("C23", "T2-unreadable-chunk-skipped", MIG,
  "loadV1Swamp skips a chunk file it cannot read instead of failing; needs a read error on one chunk: records silently missing, and gone for good with DeleteOld",
  rep("\t\tfileEntries, err := m.loadV1File(filePath)\n\t\tif err != nil {\n\t\t\treturn nil, 0, 0, fmt.Errorf(\"load %s: %w\", filePath, err)\n\t\t}",
      "\t\tfileEntries, err := m.loadV1File(filePath)\n\t\tif err != nil {\n\t\t\tslog.Warn(\"skipping unreadable chunk\", \"file\", filePath, \"error\", err)\n\t\t\tcontinue\n\t\t}")),
 ("C23", "T3-dry-run-checked-after-write", MIG,
  "the DryRun early return is moved behind the write step; needs DryRun=true",
  move_block("\t// If dry-run, we're done after successful load", "\t// Step 2: Write V2 file", "\t// Step 3: Verify (if enabled)")),
 ("C23", "T4-delete-before-verify", MIG,
  "the DeleteOld step is moved before verification; needs Verify + DeleteOld and a verification failure",
  move_block("\t// Step 4: Delete old files (if enabled)", "\tatomic.AddInt64(&m.result.SuccessfulSwamps, 1)\n}", "\t// Step 3: Verify (if enabled)")),
 ("C23", "T6-name-lowercased", MIG,
  "loadSwampNameFromMeta returns strings.ToLower(name); needs a swamp name with an upper-case letter, compared byte for byte",
  rep("\treturn meta.SwampName, nil\n", "\treturn strings.ToLower(meta.SwampName), nil\n")),
 ("C23", "T7-verify-skips-missing-key", MIG,
  "verifyMigration logs a missing key instead of failing; needs a new file that really lacks a key (swapped in between write and verify)",
  rep("\t\t\treturn fmt.Errorf(\"missing key after migration: %s\", key)\n", "\t\t\tslog.Warn(\"missing key after migration\", \"key\", key)\n")),
 ("C23", "T8-refused-record-skipped", MIG,
  "writeV2File skips a record the V2 writer refuses instead of failing the swamp; needs a V1 record with a key longer than 65535 bytes: dropped silently, gone for good with DeleteOld",
  rep("\t\tif err := writer.WriteEntry(entry); err != nil {\n\t\t\twriter.Close()\n\t\t\tos.Remove(filePath)\n\t\t\treturn err\n\t\t}",
      "\t\tif err := writer.WriteEntry(entry); err != nil {\n\t\t\tif errors.Is(err, v2.ErrKeyTooLong) || errors.Is(err, v2.ErrEmptyKey) {\n\t\t\t\tcontinue\n\t\t\t}\n\t\t\twriter.Close()\n\t\t\tos.Remove(filePath)\n\t\t\treturn err\n\t\t}")),
 ("C23", "T9-existing-target-only-when-verifying", MIG,
  "the target-exists refusal is skipped when Verify is off; needs a file at the target path and Verify=false",
  rep("\tif _, statErr := os.Stat(hydFilePath); !errors.Is(statErr, os.ErrNotExist) {", "\tif _, statErr := os.Stat(hydFilePath); m.config.Verify && !errors.Is(statErr, os.ErrNotExist) {")),
 ("C23", "T10-close-error-left-to-verification", MIG,
  "audit5 P6: writeV2File ignores the error of writer.Close() when Verify is on; needs a failing fsync at Close with Verify on: the file reads back fine, the migration succeeds and deletes the V1 folder although the new file was never made durable",
  rep("\tif err := writer.Close(); err != nil {\n\t\tos.Remove(filePath)", "\tif err := writer.Close(); err != nil && !m.config.Verify {\n\t\tos.Remove(filePath)")),
 ("C23", "T11-equal-target-compares-keys-only", MIG,
  "targetEqualsLegacy compares the keys but not the values; needs a target file that has the same keys with a newer value (the V2 engine wrote to it since): the re-run deletes the V1 folder although the two differ",
  rep(" || !bytes.Equal(data, entry.Data) {", " || !bytes.Equal(data[:0], entry.Data[:0]) {")),
 ("C23", "T12-close-does-not-fsync", "app/core/hydra/swamp/chronicler/v2/writer.go",
  "FileWriter.Close skips the fsync; needs the order of system calls: V1 files unlinked before the new file is durable",
  within("func (fw *FileWriter) Close() error {", "\tif err := fw.file.Sync(); err != nil {\n\t\tfw.file.Close()\n\t\treturn err\n\t}\n", "")),
 ("C23", "T5-dedupe-keeps-first", MIG,
  "loadV1Swamp keeps the first value of a key; needs a chunk that holds a key twice",
  rep("\t\t\tentryMap[entry.Key] = entry\n", "\t\t\tif _, ok := entryMap[entry.Key]; !ok {\n\t\t\t\tentryMap[entry.Key] = entry\n\t\t\t}\n")),
]


def sh(cmd, cwd=None, env=None):
    p = subprocess.run(cmd, cwd=cwd, env=env, stdout=subprocess.PIPE, stderr=subprocess.STDOUT, text=True, errors="replace")
    return p.returncode, p.stdout


T0 = time.time()


def main():
    want = set(sys.argv[1:])
    out = {}
    rp = os.path.join(V, "selftest", "req_results.json")
    if os.path.exists(rp):
        out = json.load(open(rp))
    for pid, name, path, why, edit in MUTANTS:
        if want and name not in want:
            continue
        fp = os.path.join(REPO, path)
        src = open(fp).read()
        res = {"property": pid, "file": path, "needs": why}
        try:
            open(fp, "w").write(edit(src))
            rc, diff = sh(["git", "diff", "--", path], cwd=REPO)
            open(os.path.join(V, "selftest", name + ".diff"), "w").write(diff)
            env = dict(os.environ, GOFLAGS="", GOPROXY="off")
            rc, o = sh(["go", "build", "./app/..."], cwd=REPO, env=env)
            if rc != 0:
                res["result"] = "does not build: " + o[-300:]
            else:
                env = dict(os.environ, VERIF_REPO=REPO, GOFLAGS="-mod=mod", GOPROXY="off")
                rc, o = sh(["./check", pid], cwd=V, env=env)
                viol = [l for l in o.splitlines() if l.startswith("VIOLATION")]
                res["exit"] = rc
                res["violations"] = len(viol)
                res["with_failing_input"] = sum(1 for l in viol if "no-failing-input-found" not in l)
                res["caught"] = rc == 1 and res["with_failing_input"] > 0
                inputs = []
                for l in viol:
                    if "no-failing-input-found" in l:
                        continue
                    try:
                        d = json.load(open(l.split("replay=")[1].split()[0]))
                        inputs.append({"what": d.get("what", "")[:200], "op": (d.get("ops") or [""])[-1].split(" | folder=")[0][:260], "impl": (d.get("impl") or [""])[-1]})
                    except Exception:
                        pass
                res["failing_inputs"] = inputs[:3]
                for l in viol:     # replays of a self-test are not findings of the tree
                    try:
                        os.remove(l.split("replay=")[1].split()[0])
                    except OSError:
                        pass
        finally:
            open(fp, "w").write(src)
            for dpath in glob.glob("/tmp/hv-c23-*"):       # scratch folders a failing C23 run keeps for its replay
                if os.path.getmtime(dpath) >= T0:
                    shutil.rmtree(dpath, ignore_errors=True)
        out[name] = res
        print(name, json.dumps({k: res.get(k) for k in ("exit", "violations", "with_failing_input", "caught", "result")}))
        json.dump(out, open(rp, "w"), indent=1, sort_keys=True)


if __name__ == "__main__":
    main()
