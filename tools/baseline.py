#!/usr/bin/env python3
"""Runs the repository's pinned baseline suite (guard tag OFF) and compares with /root/.vp/BASELINE.json.
Exit 0 iff every stable_pass test passes."""
import json, subprocess, sys, collections
B = json.load(open("/root/.vp/BASELINE.json"))
# optional: --repo DIR runs the same command against a scratch worktree
if len(sys.argv) > 2 and sys.argv[1] == "--repo":
    B["cmd"] = B["cmd"].replace("/repo/", sys.argv[2].rstrip("/") + "/")
# git-ignored residue of earlier test runs (gateway tests persist data/ and settings/ next to the package and
# fail on a stale copy) is removed first: a fresh checkout has none
_repo = sys.argv[2].rstrip("/") if len(sys.argv) > 2 and sys.argv[1] == "--repo" else "/repo"
subprocess.run(["git", "-C", _repo, "clean", "-fdXq", "app", "sdk"], stdout=subprocess.DEVNULL, stderr=subprocess.DEVNULL)
p = subprocess.run(["bash", "-c", B["cmd"]], stdout=subprocess.PIPE, stderr=subprocess.DEVNULL, text=True, errors="replace")
res = {}
for line in p.stdout.splitlines():
    if not line.startswith("{"):
        continue
    try:
        e = json.loads(line)
    except ValueError:
        continue
    if e.get("Test") and e.get("Action") in ("pass", "fail", "skip"):
        res[e["Package"] + "::" + e["Test"]] = e["Action"]
bad = [t for t in B["stable_pass"] if res.get(t) != "pass"]
# load-sensitive tests (timing assertions) are retried once, alone
repo = sys.argv[2].rstrip("/") if len(sys.argv) > 2 and sys.argv[1] == "--repo" else "/repo"
still = []
for t in bad[:20]:
    pkg, name = t.split("::")
    top = name.split("/")[0]
    if pkg.startswith("github.com/hydraide/hydraide/sdk/go/hydraidego/v3"):
        d, rel = repo + "/sdk/go/hydraidego", "." + pkg[len("github.com/hydraide/hydraide/sdk/go/hydraidego/v3"):]
    else:
        d, rel = repo, "." + pkg[len("github.com/hydraide/hydraide"):]
    for attempt in range(3):
        r = subprocess.run(["go", "test", "-vet=off", "-count=1", "-run", "^%s$" % top, rel], cwd=d, stdout=subprocess.PIPE,
                           stderr=subprocess.STDOUT, text=True, env=dict(__import__("os").environ, GOPROXY="off", GOFLAGS="-mod=mod"))
        if r.returncode == 0:
            break
    if r.returncode != 0:
        still.append(t)
    else:
        print("  retried alone and passed (load-sensitive):", t)
bad = still + bad[20:]
print("baseline: %d stable tests, %d passing now, %d not passing" % (len(B["stable_pass"]), len(B["stable_pass"]) - len(bad), len(bad)))
for t in bad[:50]:
    print("  NOT PASSING:", t, res.get(t, "missing"))
sys.exit(1 if bad else 0)
