#!/usr/bin/env python3
"""Prints the markdown status tables of DESIGN.md §12 from evidence/, known_findings*, seeded/ and MANIFEST.json."""
import json, os, glob, sys
V = "/verif"
sys.path.insert(0, V)
from checks import common as K
props = [json.loads(l) for l in open(os.path.join(V, "properties.jsonl"))]
known = K.load_known()
man = json.load(open(os.path.join(V, "MANIFEST.json")))
claimed = {c["property_id"] for c in man["checks"]}
print("| id | verdict | theorems audited | open findings (recorded) | repaired (`fix:` commit) | corr. ops (quick) |")
print("|---|---|---|---|---|---|")
for p in props:
    pid = p["id"]
    ev = {}
    try:
        ev = json.load(open(os.path.join(V, "evidence", pid + ".json")))
    except Exception:
        pass
    cov = ev.get("coverage", {})
    verdict = (cov.get("verdict") or {}).get("kind", "?")
    opens = [e["id"] for e in known if e.get("property") == pid and e.get("kind") == "finding"]
    fixed = ["%s (%s)" % (e["id"], e.get("commit", "?")) for e in known if e.get("property") == pid and e.get("kind") == "fixed"]
    print("| %s%s | %s | %s | %s | %s | %s |" % (pid, "" if pid in claimed else " (pending)", verdict, cov.get("obligations", "?"),
          "; ".join(opens) or "—", "; ".join(fixed) or "—", cov.get("evaluations", "?")))
print()
print("| seeded change | property | what it needs to manifest | still a violation at final /repo HEAD | caught | concrete failing input |")
print("|---|---|---|---|---|---|")
for d in sorted(glob.glob(os.path.join(V, "seeded", "C*"))):
    sid = os.path.basename(d)
    try:
        meta = json.load(open(os.path.join(d, "meta.json")))
    except Exception:
        continue
    res = {}
    for t in ("quick", "thorough"):
        rp = os.path.join(d, "result_%s.json" % t)
        if os.path.exists(rp):
            res = json.load(open(rp))
            break
    need = (meta.get("needs_to_manifest") or "")[:160].replace("|", "/").replace("\n", " ")
    st = (meta.get("status_at_head") or {}).get("status", "?")
    print("| %s | %s | %s | %s | %s | %s |" % (sid, meta.get("property"), need, st, res.get("caught", "not run"), res.get("found_failing_input", "")))
