#!/usr/bin/env python3
"""Folds known_findings.d/*.json into the single committed known_findings.json (and empties the directory)."""
import json, os, glob
V = "/verif"
main = json.load(open(os.path.join(V, "known_findings.json")))
seen = {(e.get("property"), e.get("id"), e.get("kind")) for e in main["entries"]}
for p in sorted(glob.glob(os.path.join(V, "known_findings.d", "*.json"))):
    for e in json.load(open(p)).get("entries", []):
        k = (e.get("property"), e.get("id"), e.get("kind"))
        if k not in seen:
            main["entries"].append(e); seen.add(k)
    os.remove(p)
main["entries"].sort(key=lambda e: (e.get("property", ""), e.get("kind", ""), e.get("id", "")))
json.dump(main, open(os.path.join(V, "known_findings.json"), "w"), indent=1)
print(len(main["entries"]), "entries")
