#!/bin/bash
# confirm every delivered seeded defect that is not yet under /verif/seeded (one line per result)
cd /verif
for d in /tmp/mut/C*/_seeded/[ab]; do
  [ -f "$d/patch.diff" ] || continue
  id=$(echo $d | sed -E 's#/tmp/mut/(C[0-9]+)/_seeded/([ab])#\1-\2#'); pid=${id%%-*}
  [ -d seeded/$id ] && continue
  out=$(python3 tools/seeded.py confirm $d $id $pid 2>&1)
  echo "$id $(echo "$out" | grep -E '"confirmed"|NOT PASSING|must contain|does not' | tr -d '\n' | cut -c1-300)"
done
