#!/usr/bin/env python3
"""Run every registered check (quick by default) on the current /repo and summarise.
usage: runall.py [--tier quick|thorough] [--seed N] [--jobs J] [ids…]"""
import json, subprocess, sys, time, os
from concurrent.futures import ThreadPoolExecutor
V = "/verif"
a = sys.argv[1:]
tier, seed, jobs, ids = "quick", "1", 3, []
i = 0
while i < len(a):
    if a[i] == "--tier": tier = a[i+1]; i += 2
    elif a[i] == "--seed": seed = a[i+1]; i += 2
    elif a[i] == "--jobs": jobs = int(a[i+1]); i += 2
    else: ids.append(a[i]); i += 1
man = json.load(open(os.path.join(V, "MANIFEST.json")))
ids = ids or [c["property_id"] for c in man["checks"]]
def one(pid):
    t0 = time.time()
    p = subprocess.run(["./check", pid, "--tier", tier, "--seed", seed], cwd=V, stdout=subprocess.PIPE, stderr=subprocess.PIPE, text=True)
    kn = [l for l in p.stdout.splitlines() if l.startswith("KNOWN-FINDING")]
    vi = [l for l in p.stdout.splitlines() if l.startswith("VIOLATION")]
    return pid, p.returncode, len(kn), vi, time.time() - t0
bad = 0
with ThreadPoolExecutor(jobs) as ex:
    for pid, rc, kn, vi, dt in ex.map(one, ids):
        print("%s rc=%d known=%d violations=%d %.0fs %s" % (pid, rc, kn, len(vi), dt, " | ".join(v[:140] for v in vi)))
        bad += rc != 0
print("TOTAL %d checks, %d failing (tier=%s seed=%s)" % (len(ids), bad, tier, seed))
sys.exit(1 if bad else 0)
