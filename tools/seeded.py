#!/usr/bin/env python3
"""Seeded-defect bookkeeping.

  seeded.py confirm <src_dir> <seeded_id> <property>   # src_dir has patch.diff, demo file(s), RUN.txt, meta.json
      confirms in a scratch worktree that the patch applies, builds, passes the pinned baseline,
      and that the demo fails with / passes without it; on success stores /verif/seeded/<seeded_id>/
  seeded.py run <seeded_id> [--tier quick]             # apply to /repo, run the property's check, undo
  seeded.py runall [--tier quick]
"""
import json, os, shutil, subprocess, sys, time
V = "/verif"
SD = os.path.join(V, "seeded")


def sh(cmd, cwd=None, timeout=3600, env=None):
    p = subprocess.run(cmd, cwd=cwd, shell=isinstance(cmd, str), stdout=subprocess.PIPE, stderr=subprocess.STDOUT,
                       text=True, errors="replace", timeout=timeout, env=env)
    return p.returncode, p.stdout


def run_one(sid, tier="quick"):
    d = os.path.join(SD, sid)
    meta = json.load(open(os.path.join(d, "meta.json")))
    pid = meta["property"]
    rc, out = sh(["git", "-C", "/repo", "status", "--porcelain", "--untracked-files=no"])
    if out.strip():
        print("refusing: /repo has local modifications"); return None
    rc, out = sh(["git", "-C", "/repo", "apply", os.path.join(d, "patch.diff")])
    if rc != 0:
        # hooks / fixes moved the context: 3-way apply (the base blobs are in this repository), then
        # refresh the stored patch so that it applies to the current HEAD
        rc, out = sh(["git", "-C", "/repo", "apply", "-3", os.path.join(d, "patch.diff")])
        rc2, conflicts = sh(["git", "-C", "/repo", "diff", "--name-only", "--diff-filter=U"])
        if rc != 0 or conflicts.strip():
            sh("git -C /repo reset -q --hard HEAD")
            print(sid, "patch does not apply (3-way failed):", out[-300:]); return None
        sh("git -C /repo reset -q")          # unstage, keep working tree
        rc, diff = sh(["git", "-C", "/repo", "diff"])
        if not os.path.exists(os.path.join(d, "patch.orig.diff")):
            os.rename(os.path.join(d, "patch.diff"), os.path.join(d, "patch.orig.diff"))
        open(os.path.join(d, "patch.diff"), "w").write(diff)
        print(sid, "patch rebased onto", sh(["git", "-C", "/repo", "rev-parse", "--short", "HEAD"])[1].strip())
    t0 = time.time()
    evp = os.path.join(V, "evidence", pid + ".json")
    saved = open(evp).read() if os.path.exists(evp) else None
    try:
        rc, out = sh(["./check", pid, "--tier", tier], cwd=V, timeout=3600)
    finally:
        sh(["git", "-C", "/repo", "checkout", "--", "."])
        # the evidence file must describe the unchanged tree, not this seeded run
        if saved is not None:
            open(evp, "w").write(saved)
    viol = [l for l in out.splitlines() if l.startswith("VIOLATION")]
    res = {"seeded": sid, "property": pid, "tier": tier, "exit": rc, "caught": rc == 1 and bool(viol),
           "violation_lines": viol, "found_failing_input": any("no-failing-input-found" not in l for l in viol),
           "wall_s": round(time.time() - t0, 1)}
    json.dump(res, open(os.path.join(d, "result_%s.json" % tier), "w"), indent=1)
    print(json.dumps(res))
    return res


def confirm(src, sid, pid):
    wt = "/var/tmp/sd-" + sid
    sh(["git", "-C", "/repo", "worktree", "remove", "--force", wt])
    rc, out = sh(["git", "-C", "/repo", "worktree", "add", "--detach", wt, "HEAD"])
    if rc != 0:
        print(out); return 1
    env = dict(os.environ, GOPROXY="off")
    report = {"seeded": sid, "property": pid, "repo_head": sh(["git", "-C", "/repo", "rev-parse", "--short", "HEAD"])[1].strip()}
    try:
        run_txt = open(os.path.join(src, "RUN.txt")).read()
        report["run_txt"] = run_txt
        # demo placement: every non-patch, non-meta file; RUN.txt's first line `PLACE <file> <relative path>` (one per file)
        places = [l.split()[1:] for l in run_txt.splitlines() if l.startswith("PLACE ")]
        cmds = [l[4:].strip() for l in run_txt.splitlines() if l.startswith("CMD ")]
        if not places or not cmds:
            # derive from the agent's free-form RUN.txt: `cp _seeded/x/<file> <dest>` and `go test …` / `go run …` lines
            import re
            for l in run_txt.splitlines():
                l = l.strip()
                m = re.match(r"cp\s+_seeded/\w+/(\S+)\s+(\S+)", l)
                if m and [m.group(1), m.group(2)] not in places:
                    places.append([m.group(1), m.group(2)])
                m = re.search(r"(demo\w*\.go|demo/main\.go)\s+(?:to|at|->|as)\s+(\S+\.go)", l)
                if m and not places:
                    places.append([m.group(1), m.group(2)])
                if re.match(r"(\(cd \S+ && )?((\w+=\S+ )*go (test|run) |rm -rf app/)", l) and l not in cmds:
                    cmds.append(l)
        if not places or not cmds:
            print("RUN.txt must contain `PLACE <file> <relpath>` and `CMD <shell command>` lines"); return 1
        def place():
            for f, rel in places:
                os.makedirs(os.path.dirname(os.path.join(wt, rel)), exist_ok=True)
                shutil.copy(os.path.join(src, f), os.path.join(wt, rel))
        def unplace():
            for f, rel in places:
                try: os.remove(os.path.join(wt, rel))
                except OSError: pass
        # without the patch: demo passes
        place()
        rc0, out0 = sh(" && ".join(cmds), cwd=wt, env=env, timeout=1800)
        report["demo_without_patch_rc"] = rc0
        unplace()
        rc, out = sh(["git", "apply", os.path.join(src, "patch.diff")], cwd=wt)
        if rc != 0:
            print("patch does not apply:", out); return 1
        rc, out = sh("go build ./... && (cd sdk/go/hydraidego && go build ./...)", cwd=wt, env=env)
        report["builds"] = rc == 0
        if rc != 0:
            print("does not build:", out[-800:]); return 1
        rc, out = sh(["python3", os.path.join(V, "tools", "baseline.py"), "--repo", wt], timeout=3600)
        report["baseline"] = out.strip().splitlines()[:6]
        report["baseline_ok"] = rc == 0
        if rc != 0:
            # differential: a stable test that fails with the patch counts only if it passes WITHOUT the patch
            # under the same machine load (timing-sensitive tests fail on a busy machine either way)
            import re as _re
            failing = _re.findall(r"NOT PASSING: (\S+)::(\S+)", out)
            sh(["git", "checkout", "--", "."], cwd=wt)
            really = []
            for pkg, name in failing:
                top = name.split("/")[0]
                if pkg.startswith("github.com/hydraide/hydraide/sdk/go/hydraidego/v3"):
                    d2, rel = wt + "/sdk/go/hydraidego", "." + pkg[len("github.com/hydraide/hydraide/sdk/go/hydraidego/v3"):]
                else:
                    d2, rel = wt, "." + pkg[len("github.com/hydraide/hydraide"):]
                r0, _ = sh(["go", "test", "-vet=off", "-count=1", "-run", "^%s$" % top, rel], cwd=d2, env=dict(env, GOFLAGS="-mod=mod"))
                sh(["git", "apply", os.path.join(src, "patch.diff")], cwd=wt)
                r1, _ = sh(["go", "test", "-vet=off", "-count=1", "-run", "^%s$" % top, rel], cwd=d2, env=dict(env, GOFLAGS="-mod=mod"))
                sh(["git", "checkout", "--", "."], cwd=wt)
                if r0 == 0 and r1 != 0:
                    really.append(pkg + "::" + name)
            sh(["git", "apply", os.path.join(src, "patch.diff")], cwd=wt)
            report["baseline_failures_attributable_to_patch"] = really
            report["baseline_ok"] = not really
        place()
        rc1, out1 = sh(" && ".join(cmds), cwd=wt, env=env, timeout=1800)
        report["demo_with_patch_rc"] = rc1
        report["demo_with_patch_tail"] = out1[-600:]
        ok = report["baseline_ok"] and rc0 == 0 and rc1 != 0
        report["confirmed"] = ok
        print(json.dumps(report, indent=1))
        if ok:
            d = os.path.join(SD, sid)
            os.makedirs(d, exist_ok=True)
            for n in os.listdir(src):
                shutil.copy(os.path.join(src, n), os.path.join(d, n))
            meta = json.load(open(os.path.join(src, "meta.json")))
            meta.update({"property": pid, "confirmed_by": "tools/seeded.py confirm", "confirmation": report})
            json.dump(meta, open(os.path.join(d, "meta.json"), "w"), indent=1)
        return 0 if ok else 1
    finally:
        sh(["git", "-C", "/repo", "worktree", "remove", "--force", wt])
        sh(["git", "-C", "/repo", "worktree", "prune"])


def parse_run(run_txt):
    import re
    places = [l.split()[1:] for l in run_txt.splitlines() if l.startswith("PLACE ")]
    cmds = [l[4:].strip() for l in run_txt.splitlines() if l.startswith("CMD ")]
    if not places or not cmds:
        for l in run_txt.splitlines():
            l = l.strip()
            m = re.match(r"cp\s+_seeded/\w+/(\S+)\s+(\S+)", l)
            if m and [m.group(1), m.group(2)] not in places:
                places.append([m.group(1), m.group(2)])
            m = re.search(r"(demo\w*\.go|demo/main\.go)\s+(?:to|at|->|as)\s+(\S+\.go)", l)
            if m and not places:
                places.append([m.group(1), m.group(2)])
            if re.match(r"(\(cd \S+ && )?((\w+=\S+ )*go (test|run) |rm -rf app/)", l) and l not in cmds:
                cmds.append(l)
    return places, cmds


def reconfirm(sid):
    """Does the seeded change still violate its property at the CURRENT /repo HEAD (later fix: commits may have
    neutralised it)?  Runs only the demonstration, with and without the (rebased) patch."""
    d = os.path.join(SD, sid)
    meta = json.load(open(os.path.join(d, "meta.json")))
    wt = "/var/tmp/sd-re-" + sid
    sh(["git", "-C", "/repo", "worktree", "remove", "--force", wt])
    rc, out = sh(["git", "-C", "/repo", "worktree", "add", "--detach", wt, "HEAD"])
    env = dict(os.environ, GOPROXY="off")
    status = "error"
    try:
        places, cmds = parse_run(open(os.path.join(d, "RUN.txt")).read())
        if not places or not cmds:
            status = "no-run-recipe"
        else:
            def place():
                for f, rel in places:
                    os.makedirs(os.path.dirname(os.path.join(wt, rel)), exist_ok=True)
                    shutil.copy(os.path.join(d, f), os.path.join(wt, rel))
            place()
            rc0, out0 = sh(" && ".join(cmds), cwd=wt, env=env, timeout=1800)
            rc, out = sh(["git", "apply", "-3", os.path.join(d, "patch.diff")], cwd=wt)
            conflicts = sh(["git", "diff", "--name-only", "--diff-filter=U"], cwd=wt)[1].strip()
            if rc != 0 or conflicts:
                status = "patch-no-longer-applies"
            else:
                rb, _ = sh("go build ./...", cwd=wt, env=env)
                rc1, out1 = sh(" && ".join(cmds), cwd=wt, env=env, timeout=1800)
                if rb != 0:
                    status = "does-not-build-at-head"
                elif rc0 != 0:
                    status = "demo-fails-without-patch-at-head"
                elif rc1 != 0:
                    status = "still-violates"
                else:
                    status = "neutralised-by-later-fix"
    finally:
        sh(["git", "-C", "/repo", "worktree", "remove", "--force", wt])
        sh(["git", "-C", "/repo", "worktree", "prune"])
    meta["status_at_head"] = {"head": sh(["git", "-C", "/repo", "rev-parse", "--short", "HEAD"])[1].strip(), "status": status}
    json.dump(meta, open(os.path.join(d, "meta.json"), "w"), indent=1)
    print(sid, status)


if __name__ == "__main__":
    a = sys.argv[1:]
    tier = "quick"
    if "--tier" in a:
        tier = a[a.index("--tier") + 1]
    if a[0] == "confirm":
        sys.exit(confirm(a[1], a[2], a[3]))
    if a[0] == "run":
        run_one(a[1], tier)
    if a[0] == "reconfirm":
        for sid in (a[1:] if len(a) > 1 and not a[1].startswith("--") else sorted(os.listdir(SD))):
            if os.path.exists(os.path.join(SD, sid, "patch.diff")):
                reconfirm(sid)
    if a[0] == "runall":
        for sid in sorted(os.listdir(SD)):
            if os.path.exists(os.path.join(SD, sid, "patch.diff")):
                run_one(sid, tier)
