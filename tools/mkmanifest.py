#!/usr/bin/env python3
"""Regenerates /verif/MANIFEST.json from the META records of checks/Cxx.py."""
import importlib, json, os, sys
V = os.path.dirname(os.path.dirname(os.path.abspath(__file__)))
sys.path.insert(0, V)
props = [json.loads(l) for l in open(os.path.join(V, "properties.jsonl"))]
NA = {}
na_path = os.path.join(V, "checks", "not_applicable.json")
if os.path.exists(na_path):
    NA = json.load(open(na_path))
checks, na, engines = [], [], {}
PENDING = {}
pp = os.path.join(V, "checks", "pending.json")
if os.path.exists(pp):
    PENDING = json.load(open(pp))
for p in props:
    pid = p["id"]
    if pid in PENDING:
        na.append({"property_id": pid, "reason": "check temporarily unregistered: " + PENDING[pid]})
        continue
    if not os.path.exists(os.path.join(V, "checks", pid + ".py")):
        na.append({"property_id": pid, "reason": NA.get(pid, "no check registered yet: the Lean model and its tie for this property are not built in this revision")})
        continue
    m = importlib.import_module("checks." + pid).META
    assert m["level"] in ("exploration", "fault_enumeration", "model_checking", "proof", "translation_validation", "other"), (pid, m["level"])
    checks.append({
        "property_id": pid,
        "quick_cmd": "./check %s --tier quick" % pid,
        "thorough_cmd": "./check %s --tier thorough" % pid,
        "evidence_file": "/verif/evidence/%s.json" % pid,
        "replay_cmd_template": "./check %s --replay {path}" % pid,
        "engine": "lean4+" + m.get("engine", "hx"),
        "level_claimed": {"category": m["level"], "text": m["text"], "design_ref": m.get("design_ref", "")},
        "level_note": m["note"],
        "technique": m["technique"],
    })
man = {
    "version": 1,
    "setup_cmd": "bash /verif/setup.sh",
    "hooks": {
        "guard": "verif",
        "enable": "go build -tags verif (the harness module /verif/harness replaces github.com/hydraide/hydraide => /repo)",
        "baseline_off_cmd": "python3 /verif/tools/baseline.py",
        "source_commits": [l.strip() for l in open(os.path.join(V, "hooks_commits.txt")) if l.strip()] if os.path.exists(os.path.join(V, "hooks_commits.txt")) else [],
        "add_only": True,
    },
    "engines": [
        {"name": "lean4", "path": "/verif/lean", "serves_properties": [c["property_id"] for c in checks],
         "kind_free_text": "Lean 4.33 models (Hv/*), property theorems (Hv/Props), fact-parametrised verdicts (Hv/Verdict), compiled line-protocol driver (drv)"},
        {"name": "extract", "path": "/verif/extract", "serves_properties": [c["property_id"] for c in checks],
         "kind_free_text": "go/ast fact translator: regenerates Hv/Generated/Facts<id>.lean from /repo on every run"},
        {"name": "hx", "path": "/verif/harness", "serves_properties": [c["property_id"] for c in checks],
         "kind_free_text": "Go correspondence harness built from /repo's working tree with -tags verif; runs the real code on generated op lines"},
    ],
    "checks": checks,
    "not_applicable": na,
    "notes": "Technique family: machine-checked proof in Lean 4. Every check = kernel-checked theorems over a fact-parametrised model + two checked ties to /repo (regenerated facts, differential correspondence). See DESIGN.md.",
}
json.dump(man, open(os.path.join(V, "MANIFEST.json"), "w"), indent=1)
print("MANIFEST: %d checks, %d not_applicable" % (len(checks), len(na)))
