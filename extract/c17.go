package main

import (
	"go/ast"
	"os"
	"path/filepath"
	"sort"
	"strconv"
	"strings"
)

// C17: shape of vigil.go (where the decrement happens relative to the condition variable's mutex),
// of the drain/cancel order in swamp.go, of the polling wait in safeops.go, and the counter
// statements of every gateway handler in source order.

const (
	c17VigilPath   = "app/core/hydra/swamp/vigil/vigil.go"
	c17SwampPath   = "app/core/hydra/swamp/swamp.go"
	c17SafeopsPath = "app/core/safeops/safeops.go"
	c17GatewayDir  = "app/server/gateway"
)

// c17Plain returns the statements of a block without the verification hook blocks.
func c17Plain(f *File, list []ast.Stmt) []ast.Stmt {
	var out []ast.Stmt
	for _, st := range list {
		if is, ok := st.(*ast.IfStmt); ok && f.Str(is.Cond) == "verifhook.Enabled" {
			continue
		}
		// `defer func() { if verifhook.Enabled { … } }()`: a hook that fires on the way out
		if ds, ok := st.(*ast.DeferStmt); ok {
			if fl, ok := ds.Call.Fun.(*ast.FuncLit); ok && len(ds.Call.Args) == 0 && len(fl.Body.List) == 1 {
				if is, ok := fl.Body.List[0].(*ast.IfStmt); ok && f.Str(is.Cond) == "verifhook.Enabled" && is.Else == nil {
					continue
				}
			}
		}
		out = append(out, st)
	}
	return out
}

func c17Index(f *File, list []ast.Stmt, text string) int {
	for i, st := range list {
		if f.Str(st) == text {
			return i
		}
	}
	return -1
}

func init() {
	Register("C17", Extractor{Import: "Hv.Props.C17", Type: "Hv.C17.Facts", Run: func(fs *Facts) {
		c17Vigil(fs)
		c17Swamp(fs)
		c17Safeops(fs)
		c17Handlers(fs)
	}})
}

func c17Vigil(fs *Facts) {
	names := []string{"condOnMu", "waitLoopUnderLock", "checkStrict", "decrementUnderCondLock", "broadcastAfterDec"}
	f, err := Load(c17VigilPath)
	if err != nil {
		fs.Err("%v", err)
		for _, n := range names {
			fs.Tri(n, Unknown, c17VigilPath)
		}
		return
	}
	nw, wait, has, cease := f.Func("", "New"), f.Func("vigil", "WaitForActiveVigilsClosed"), f.Func("vigil", "HasActiveVigils"), f.Func("vigil", "CeaseVigil")
	if nw == nil || wait == nil || has == nil || cease == nil {
		for _, n := range names {
			fs.Tri(n, Unknown, c17VigilPath)
		}
		return
	}
	fs.Tri("condOnMu", TriOf(f.Contains(nw, "v.cond = sync.NewCond(&v.mu)")), c14Where(f, nw))

	wl := Unknown
	{
		b := c17Plain(f, wait.Body.List)
		ok := len(b) == 3 && f.Str(b[0]) == "v.cond.L.Lock()" && f.Str(b[1]) == "defer v.cond.L.Unlock()"
		if ok {
			fl, isFor := b[2].(*ast.ForStmt)
			ok = isFor && fl.Init == nil && fl.Post == nil && f.Str(fl.Cond) == "v.HasActiveVigils()"
			if ok {
				inner := c17Plain(f, fl.Body.List)
				ok = len(inner) == 1 && f.Str(inner[0]) == "v.cond.Wait()"
			}
		}
		wl = TriOf(ok)
	}
	fs.Tri("waitLoopUnderLock", wl, c14Where(f, wait))

	cs := Unknown
	if b := c17Plain(f, has.Body.List); len(b) == 1 {
		switch f.Str(b[0]) {
		case "return atomic.LoadInt64(&v.vigils) > 0":
			cs = Yes
		case "return atomic.LoadInt64(&v.vigils) >= 0":
			cs = No
		}
	}
	fs.Tri("checkStrict", cs, c14Where(f, has))

	b := c17Plain(f, cease.Body.List)
	dec := c17Index(f, b, "atomic.AddInt64(&v.vigils, -1)")
	bc := c17Index(f, b, "v.cond.Broadcast()")
	under := Unknown
	if dec >= 0 {
		lock, unlock := -1, -1
		for _, l := range []string{"v.mu.Lock()", "v.cond.L.Lock()"} {
			if i := c17Index(f, b, l); i >= 0 {
				lock = i
			}
		}
		for _, l := range []string{"v.mu.Unlock()", "v.cond.L.Unlock()"} {
			if i := c17Index(f, b, l); i >= 0 {
				unlock = i
			}
		}
		deferred := c17Index(f, b, "defer v.mu.Unlock()") >= 0 || c17Index(f, b, "defer v.cond.L.Unlock()") >= 0
		switch {
		case lock >= 0 && lock < dec && (unlock > dec || (deferred && unlock < 0)):
			under = Yes
		case lock < 0 && unlock < 0 && !deferred && len(f.CallsSuffix(cease, ".Lock")) == 0:
			under = No
		}
	}
	fs.Tri("decrementUnderCondLock", under, c14Where(f, cease))
	fs.Tri("broadcastAfterDec", TriOf(dec >= 0 && bc > dec), c14Where(f, cease))
}

func c17Swamp(fs *Facts) {
	f, err := Load(c17SwampPath)
	if err != nil {
		fs.Err("%v", err)
		for _, n := range []string{"destroyDrainsThenCancels", "drainBeforeSwampMu", "closeCancels", "gracefulWaitsOnContext", "ceasePrecedesDestroy", "autoDestroyRetakesVigil"} {
			fs.Tri(n, Unknown, c17SwampPath)
		}
		return
	}
	d, c, g := f.Func("swamp", "Destroy"), f.Func("swamp", "Close"), f.Func("swamp", "WaitForGracefulClose")
	// The facts are stated over the code with the swamp's own helper methods inlined: a statement
	// `s.helper(…)` stands for the helper's body whenever that body (transitively) contains the call of
	// interest.  `reaches[m]`: method m of *swamp contains `call`, directly or through such helpers.
	methods := map[string]*ast.FuncDecl{}
	for _, dcl := range f.AST.Decls {
		if fd, ok := dcl.(*ast.FuncDecl); ok && fd.Body != nil && fd.Recv != nil && len(fd.Recv.List) == 1 &&
			strings.TrimPrefix(f.Str(fd.Recv.List[0].Type), "*") == "swamp" {
			methods[fd.Name.Name] = fd
		}
	}
	helperOf := func(st ast.Stmt) string {
		es, ok := st.(*ast.ExprStmt)
		if !ok {
			return ""
		}
		call, ok := es.X.(*ast.CallExpr)
		if !ok {
			return ""
		}
		recv, m := c17Method(f, call)
		if recv != "s" || methods[m] == nil {
			return ""
		}
		return m
	}
	reachesOf := func(call string) map[string]bool {
		r := map[string]bool{}
		for changed := true; changed; {
			changed = false
			for name, fd := range methods {
				if r[name] {
					continue
				}
				hit := false
				ast.Inspect(fd.Body, func(n ast.Node) bool {
					if _, isFn := n.(*ast.FuncLit); isFn {
						return false
					}
					if st, ok := n.(ast.Stmt); ok {
						if f.Str(st) == call {
							hit = true
						}
						if h := helperOf(st); h != "" && r[h] {
							hit = true
						}
					}
					return true
				})
				if hit {
					r[name] = true
					changed = true
				}
			}
		}
		return r
	}
	const cancelCall, drainCall = "s.goRoutineCancelFunction()", "s.Vigil.WaitForActiveVigilsClosed()"
	cancels, drains := reachesOf(cancelCall), reachesOf(drainCall)
	// does the statement (deep, helpers inlined) perform the cancel?
	var doesCancel func(st ast.Stmt) bool
	doesCancel = func(st ast.Stmt) bool {
		hit := false
		ast.Inspect(st, func(n ast.Node) bool {
			if _, isFn := n.(*ast.FuncLit); isFn {
				return false
			}
			if x, ok := n.(ast.Stmt); ok {
				if f.Str(x) == cancelCall {
					hit = true
				}
				if h := helperOf(x); h != "" && cancels[h] {
					hit = true
				}
			}
			return true
		})
		return hit
	}
	hasReturn := func(st ast.Stmt) bool {
		ret := false
		ast.Inspect(st, func(n ast.Node) bool {
			if _, isFn := n.(*ast.FuncLit); isFn {
				return false
			}
			if _, isRet := n.(*ast.ReturnStmt); isRet {
				ret = true
			}
			return true
		})
		return ret
	}
	// inline: top-level statements of fn, with top-level helper calls that reach `call` replaced by their bodies
	var inline func(fd *ast.FuncDecl, reach map[string]bool, depth int) []ast.Stmt
	inline = func(fd *ast.FuncDecl, reach map[string]bool, depth int) []ast.Stmt {
		var out []ast.Stmt
		for _, st := range c17Plain(f, fd.Body.List) {
			if h := helperOf(st); h != "" && reach[h] && depth < 4 {
				out = append(out, inline(methods[h], reach, depth+1)...)
				continue
			}
			out = append(out, st)
		}
		return out
	}
	dd := Unknown
	if d != nil {
		// every cancel of the Destroy family (also the one of the close-instead branch) comes after the drain
		list := inline(d, drains, 0)
		drain := c17Index(f, list, drainCall)
		early := false
		if drain >= 0 {
			for _, st := range list[:drain] {
				if doesCancel(st) {
					early = true
				}
			}
		}
		late := false
		if drain >= 0 {
			for _, st := range list[drain+1:] {
				if doesCancel(st) {
					late = true
				}
			}
		}
		dd = TriOf(drain >= 0 && !early && late)
		fs.Tri("destroyDrainsThenCancels", dd, c14Where(f, d))
		// the swamp mutex: the write path read-locks s.mu while it holds its vigil, so the drain must come before
		// `s.mu.Lock()` (nothing write-locks s.mu before the drain without releasing it again)
		mu := Unknown
		if drain >= 0 {
			held := false
			for _, st := range list[:drain] {
				switch f.Str(st) {
				case "s.mu.Lock()":
					held = true
				case "s.mu.Unlock()":
					held = false
				}
				// a lock taken inside a nested block before the drain: not the modelled shape
				if f.Str(st) != "s.mu.Lock()" && f.Str(st) != "s.mu.Unlock()" && f.Str(st) != "defer s.mu.Unlock()" && f.Contains(st, "s.mu.Lock()") {
					mu = Unknown
					held = false
					drain = -2
					break
				}
			}
			if drain >= 0 {
				mu = TriOf(!held)
			}
		}
		fs.Tri("drainBeforeSwampMu", mu, c14Where(f, d))
	} else {
		fs.Tri("destroyDrainsThenCancels", Unknown, c17SwampPath)
		fs.Tri("drainBeforeSwampMu", Unknown, c17SwampPath)
	}
	if c != nil {
		// after `closing = 1` every path must reach the cancel (helpers inlined): no return in between
		list := inline(c, cancels, 0)
		cancelIdx := c17Index(f, list, cancelCall)
		closingIdx := c17Index(f, list, "atomic.StoreInt32(&s.closing, 1)")
		ok := cancelIdx >= 0 && closingIdx >= 0 && closingIdx < cancelIdx
		if ok {
			for _, st := range list[closingIdx+1 : cancelIdx] {
				if hasReturn(st) {
					ok = false
				}
			}
		}
		fs.Tri("closeCancels", TriOf(ok), c14Where(f, c))
	} else {
		fs.Tri("closeCancels", Unknown, c17SwampPath)
	}
	// auto-destroy sites: every call of a draining method (Destroy and its variants) from outside that family is
	// immediately preceded by `s.CeaseVigil()`
	sites, okSites, retakes := 0, 0, 0
	// (family = the methods that drain at their own top level once helpers are inlined; a method that reaches the
	//  drain only through an auto-destroy site inside a branch is a caller)
	family := map[string]bool{}
	for name, fd := range methods {
		for _, st := range inline(fd, drains, 0) {
			if f.Str(st) == drainCall {
				family[name] = true
			}
		}
	}
	for name, fd := range methods {
		if family[name] {
			continue
		}
		ast.Inspect(fd, func(n ast.Node) bool {
			blk, ok := n.(*ast.BlockStmt)
			if !ok {
				return true
			}
			list := c17Plain(f, blk.List)
			for i, st := range list {
				if h := helperOf(st); h != "" && family[h] {
					sites++
					if i > 0 && f.Str(list[i-1]) == "s.CeaseVigil()" {
						okSites++
					}
					if i+1 < len(list) && f.Str(list[i+1]) == "s.BeginVigil()" {
						retakes++
					}
				}
			}
			return true
		})
	}
	// the caller's deferred CeaseVigil runs after the site: does the site take the vigil again?
	rt := Unknown
	switch {
	case sites > 0 && retakes == sites:
		rt = Yes
	case sites > 0 && retakes == 0:
		rt = No
	}
	fs.Tri("autoDestroyRetakesVigil", rt, c17SwampPath+" ("+strconv.Itoa(retakes)+" of "+strconv.Itoa(sites)+" sites)")
	cp := Unknown
	if sites > 0 {
		cp = TriOf(sites == okSites)
	}
	fs.Tri("ceasePrecedesDestroy", cp, c17SwampPath+" ("+strconv.Itoa(sites)+" sites)")
	gw := Unknown
	if g != nil {
		gw = No
		ast.Inspect(g, func(n ast.Node) bool {
			if cc, ok := n.(*ast.CommClause); ok && cc.Comm != nil && f.Str(cc.Comm) == "<-s.goRoutineContext.Done()" {
				for _, st := range cc.Body {
					if f.Str(st) == "return nil" {
						gw = Yes
					}
				}
			}
			return true
		})
		fs.Tri("gracefulWaitsOnContext", gw, c14Where(f, g))
	} else {
		fs.Tri("gracefulWaitsOnContext", Unknown, c17SwampPath)
	}
}

func c17Safeops(fs *Facts) {
	f, err := Load(c17SafeopsPath)
	if err != nil {
		fs.Err("%v", err)
		fs.Tri("safeopsWaitPolls", Unknown, c17SafeopsPath)
		return
	}
	w := f.Func("safeops", "WaitForUnlock")
	p := Unknown
	if w != nil {
		p = No
		for _, st := range w.Body.List {
			if fl, ok := st.(*ast.ForStmt); ok && fl.Cond == nil {
				if f.Contains(fl, "if !s.SystemLocked() { break }") && f.Contains(fl, "time.Sleep(") {
					p = Yes
				}
			}
		}
		fs.Tri("safeopsWaitPolls", p, c14Where(f, w))
	} else {
		fs.Tri("safeopsWaitPolls", Unknown, c17SafeopsPath)
	}
}

// ---- handler shapes ------------------------------------------------------------------------

type c17Shape struct {
	name string
	toks []string
	pos  int
}

func c17Method(f *File, call *ast.CallExpr) (recv, method string) {
	sel, ok := call.Fun.(*ast.SelectorExpr)
	if !ok {
		return "", ""
	}
	return f.Str(sel.X), sel.Sel.Name
}

var c17AutoDestroys = map[string]bool{"DeleteTreasure": true, "CloneAndDeleteExpiredTreasures": true,
	"CloneAndDeleteMatchingTreasures": true, "CloneAndDeleteTreasuresByKeys": true}

func c17IsCounter(m string) bool {
	return m == "LockSystem" || m == "UnlockSystem" || m == "BeginVigil" || m == "CeaseVigil"
}

// c17Body extracts the tokens of one function body (nested function literals are separate shapes,
// appended to *lits).
func c17Body(f *File, body *ast.BlockStmt, name string, lits *[]c17Shape) []string {
	var toks []string
	consumed := map[*ast.CallExpr]bool{}
	nlit := 0
	var walkBlock func(list []ast.Stmt)
	var walkNode func(n ast.Node)
	stmtCall := func(st ast.Stmt) (*ast.CallExpr, bool, bool) { // call, isDefer, ok
		switch x := st.(type) {
		case *ast.ExprStmt:
			if c, ok := x.X.(*ast.CallExpr); ok {
				return c, false, true
			}
		case *ast.DeferStmt:
			return x.Call, true, true
		}
		return nil, false, false
	}
	walkBlock = func(list []ast.Stmt) {
		for i := 0; i < len(list); i++ {
			st := list[i]
			if c, isDefer, ok := stmtCall(st); ok {
				recv, m := c17Method(f, c)
				if c17IsCounter(m) {
					consumed[c] = true
					switch {
					case m == "LockSystem" || m == "BeginVigil":
						want := map[string]string{"LockSystem": "UnlockSystem", "BeginVigil": "CeaseVigil"}[m]
						paired := false
						if !isDefer && i+1 < len(list) {
							if c2, d2, ok2 := stmtCall(list[i+1]); ok2 && d2 {
								r2, m2 := c17Method(f, c2)
								if m2 == want && r2 == recv {
									paired = true
									consumed[c2] = true
									i++
								}
							}
						}
						switch {
						case paired && m == "LockSystem":
							toks = append(toks, "sysPair")
						case paired:
							toks = append(toks, "vigPair")
						case m == "LockSystem":
							toks = append(toks, "sysLock")
						default:
							toks = append(toks, "vigBegin")
						}
					case m == "UnlockSystem" && isDefer:
						toks = append(toks, "sysUnlockDefer")
					case m == "UnlockSystem":
						toks = append(toks, "sysUnlockNow")
					case m == "CeaseVigil" && isDefer:
						toks = append(toks, "vigCeaseDefer")
					default:
						toks = append(toks, "vigCeaseNow")
					}
					continue
				}
				if isDefer && f.Str(c.Fun) == "handlePanic" {
					toks = append(toks, "recover")
					continue
				}
				if isDefer {
					// defer func() { … }(): counter calls inside run at unwind time
					if fl, ok := c.Fun.(*ast.FuncLit); ok {
						ast.Inspect(fl.Body, func(n ast.Node) bool {
							if cc, ok := n.(*ast.CallExpr); ok {
								if _, m := c17Method(f, cc); m == "UnlockSystem" {
									toks = append(toks, "sysUnlockDefer")
									consumed[cc] = true
								} else if m == "CeaseVigil" {
									toks = append(toks, "vigCeaseDefer")
									consumed[cc] = true
								} else if m == "LockSystem" {
									toks = append(toks, "sysLock")
									consumed[cc] = true
								} else if m == "BeginVigil" {
									toks = append(toks, "vigBegin")
									consumed[cc] = true
								}
							}
							return true
						})
						continue
					}
				}
			}
			walkNode(st)
		}
	}
	walkNode = func(n ast.Node) {
		ast.Inspect(n, func(x ast.Node) bool {
			switch y := x.(type) {
			case *ast.FuncLit:
				nlit++
				ln := name + "$" + strconv.Itoa(nlit)
				sub := c17Body(f, y.Body, ln, lits)
				if len(sub) > 0 {
					*lits = append(*lits, c17Shape{name: ln, toks: sub, pos: int(y.Pos())})
				}
				return false
			case *ast.BlockStmt:
				if x != n {
					walkBlock(y.List)
					return false
				}
			case *ast.CaseClause:
				walkBlock(y.Body)
				return false
			case *ast.CommClause:
				walkBlock(y.Body)
				return false
			case *ast.CallExpr:
				if _, m := c17Method(f, y); c17AutoDestroys[m] && !consumed[y] {
					// swamp methods that run `s.CeaseVigil(); s.Destroy()` themselves when the swamp becomes empty
					consumed[y] = true
					toks = append(toks, "autoDestroy")
				}
				if _, m := c17Method(f, y); c17IsCounter(m) && !consumed[y] {
					// a counter call that is not a statement of its own
					consumed[y] = true
					toks = append(toks, map[string]string{"LockSystem": "sysLock", "UnlockSystem": "sysUnlockNow",
						"BeginVigil": "vigBegin", "CeaseVigil": "vigCeaseNow"}[m])
				}
			}
			return true
		})
	}
	walkBlock(body.List)
	return toks
}

func c17Handlers(fs *Facts) {
	dir := filepath.Join(repoRoot, c17GatewayDir)
	ents, err := os.ReadDir(dir)
	if err != nil {
		fs.Err("%v", err)
		fs.Raw("handlers", "[]", "unknown", c17GatewayDir)
		return
	}
	var shapes []c17Shape
	var files []string
	for _, e := range ents {
		if strings.HasSuffix(e.Name(), ".go") && !strings.HasSuffix(e.Name(), "_test.go") {
			files = append(files, e.Name())
		}
	}
	sort.Strings(files)
	for _, fn := range files {
		f, err := Load(filepath.Join(c17GatewayDir, fn))
		if err != nil {
			fs.Err("%v", err)
			continue
		}
		for _, d := range f.AST.Decls {
			fd, ok := d.(*ast.FuncDecl)
			if !ok || fd.Body == nil {
				continue
			}
			var lits []c17Shape
			toks := c17Body(f, fd.Body, fd.Name.Name, &lits)
			if len(toks) > 0 {
				shapes = append(shapes, c17Shape{name: fd.Name.Name, toks: toks})
			}
			sort.Slice(lits, func(i, j int) bool { return lits[i].pos < lits[j].pos })
			shapes = append(shapes, lits...)
		}
	}
	var b strings.Builder
	b.WriteString("[")
	paired := 0
	for i, s := range shapes {
		if i > 0 {
			b.WriteString(",\n    ")
		}
		ok := true
		for _, t := range s.toks {
			if t != "sysPair" && t != "vigPair" && t != "recover" && t != "autoDestroy" {
				ok = false
			}
		}
		if ok {
			paired++
		}
		b.WriteString("(" + strconv.Quote(s.name) + ", [." + strings.Join(s.toks, ", .") + "])")
	}
	b.WriteString("]")
	if len(shapes) == 0 {
		fs.Err("no handler shapes found under %s", c17GatewayDir)
	}
	fs.Raw("handlers", b.String(), strconv.Itoa(len(shapes))+" shapes, "+strconv.Itoa(paired)+" paired", c17GatewayDir)
}
