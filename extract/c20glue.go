package main

import (
	"go/ast"
	"os"
	"path/filepath"
	"strings"
)

// C20 glue facts — what sits between the two name packages.
//
//	rpcIslandFromName     yes: in the non-test files of sdk/go/hydraidego every `IslandID:` of a composite literal is
//	                           `<E>.GetIslandID(h.client.GetAllIslands())` (or `…(allIslands)` with allIslands assigned from
//	                           h.client.GetAllIslands() / passed as the parameter of that name), and a `SwampName:` in the same
//	                           literal is `<E>.Get()`; one indirection through a struct field `islandID:` of the same form
//	                      no : some IslandID is a GetIslandID call with another argument, or of another name than the literal's
//	serverPathPerRequest  yes: app/core/hydra/hydra.go calls GetFullHashPath exactly in IsExistSwamp and createNewSwamp, as
//	                           `swampDataFolderPath := swampName.GetFullHashPath(h.settingsInterface.GetHydraAbsDataFolderPath(),
//	                           islandID, h.settingsInterface.GetHashFolderDepth(), h.settingsInterface.GetMaxFoldersPerLevel())`
//	                           with islandID / swampName the parameters of the function
//	gatewayThreeParts     yes: isValidSwampName is [leading `if … { return false }` guards, which only refuse more names] + Split on "/" +
//	                           `len(parts) == 3 && parts[0] != "" && parts[1] != "" && parts[2] != ""`, and checkSwampName calls it
//	                      no : the same shape with another comparison of len(parts);  anything else: unknown
//	serverChecksIsland    no : no non-test file under app/ calls GetFolderNumber or GetIslandID(<arg>) on a name, and every
//	                           SummonSwamp / IsExistSwamp call of the gateway package passes <request>.GetIslandID() / .IslandID
//	                           (or an identifier assigned from one)
func c20Glue(fs *Facts) {
	for _, n := range []string{"rpcIslandFromName", "serverPathPerRequest", "gatewayThreeParts", "serverChecksIsland"} {
		fs.Tri(n, Unknown, "")
	}
	c20GlueSDK(fs)
	c20GlueHydra(fs)
	c20GlueGateway(fs)
}

func c20GoFiles(dir string, recursive bool) []string {
	var out []string
	root := filepath.Join(repoRoot, dir)
	_ = filepath.Walk(root, func(p string, info os.FileInfo, err error) error {
		if err != nil {
			return nil
		}
		if info.IsDir() {
			if p != root && !recursive {
				return filepath.SkipDir
			}
			return nil
		}
		if strings.HasSuffix(p, ".go") && !strings.HasSuffix(p, "_test.go") {
			if rel, e := filepath.Rel(repoRoot, p); e == nil {
				out = append(out, rel)
			}
		}
		return nil
	})
	return out
}

func c20GlueSDK(fs *Facts) {
	const dir = "sdk/go/hydraidego"
	good, bad, odd := 0, 0, 0
	where := dir
	for _, path := range c20GoFiles(dir, false) {
		f, err := Load(path)
		if err != nil {
			fs.Err("%v", err)
			return
		}
		for _, d := range f.AST.Decls {
			fd, ok := d.(*ast.FuncDecl)
			if !ok || fd.Body == nil {
				continue
			}
			// `allIslands` is fine when it is h.client.GetAllIslands() here, or a parameter (the callers are checked below)
			allOK := f.Contains(fd, "allIslands := h.client.GetAllIslands()")
			if fd.Type.Params != nil {
				for _, p := range fd.Type.Params.List {
					for _, nm := range p.Names {
						if nm.Name == "allIslands" && f.Str(p.Type) == "uint64" {
							allOK = true
							for _, c := range c20CallsOf(f, fd.Name.Name) {
								if !strings.Contains(f.Str(c), "h.client.GetAllIslands()") {
									allOK = false
								}
							}
						}
					}
				}
			}
			ast.Inspect(fd, func(n ast.Node) bool {
				cl, ok := n.(*ast.CompositeLit)
				if !ok {
					return true
				}
				var island, swamp ast.Expr
				for _, el := range cl.Elts {
					if kv, ok := el.(*ast.KeyValueExpr); ok {
						switch strings.ToLower(f.Str(kv.Key)) {
						case "islandid":
							island = kv.Value
						case "swampname":
							swamp = kv.Value
						}
					}
				}
				if island == nil {
					return true
				}
				v := f.Str(island)
				if strings.HasSuffix(v, ".islandID") { // a field filled by another literal, which is checked itself
					good++
					return true
				}
				call, ok := island.(*ast.CallExpr)
				sel, ok2 := (ast.Expr)(nil), false
				if ok {
					if se, isSel := call.Fun.(*ast.SelectorExpr); isSel && se.Sel.Name == "GetIslandID" && len(call.Args) == 1 {
						sel, ok2 = se.X, true
					}
				}
				if !ok2 {
					odd++
					where = path + ":" + itoa(f.Line(island))
					return true
				}
				arg := f.Str(call.Args[0])
				argOK := arg == "h.client.GetAllIslands()" || (arg == "allIslands" && allOK)
				nameOK := swamp == nil || f.Str(swamp) == f.Str(sel)+".Get()" || f.Str(swamp) == f.Str(sel)
				if id, isID := swamp.(*ast.Ident); isID && !nameOK { // `x := <E>.Get()` earlier in the function
					nameOK = f.Contains(fd, id.Name+" := "+f.Str(sel)+".Get()")
				}
				switch {
				case argOK && nameOK:
					good++
				case !argOK && arg != "allIslands": // an island count that is not the client's
					bad++
					where = path + ":" + itoa(f.Line(island))
				default:
					odd++
					where = path + ":" + itoa(f.Line(island))
				}
				return true
			})
		}
	}
	switch {
	case bad > 0:
		fs.Tri("rpcIslandFromName", No, where)
	case odd == 0 && good >= 20:
		fs.Tri("rpcIslandFromName", Yes, dir+" ("+itoa(good)+" literals)")
	default:
		fs.Tri("rpcIslandFromName", Unknown, where)
	}
}

func c20CallsOf(f *File, fn string) []*ast.CallExpr {
	var out []*ast.CallExpr
	ast.Inspect(f.AST, func(n ast.Node) bool {
		if c, ok := n.(*ast.CallExpr); ok {
			if id, ok := c.Fun.(*ast.Ident); ok && id.Name == fn {
				out = append(out, c)
			}
		}
		return true
	})
	return out
}

func c20GlueHydra(fs *Facts) {
	const path = "app/core/hydra/hydra.go"
	f, err := Load(path)
	if err != nil {
		fs.Err("%v", err)
		return
	}
	const want = "swampDataFolderPath := swampName.GetFullHashPath(h.settingsInterface.GetHydraAbsDataFolderPath(), islandID, h.settingsInterface.GetHashFolderDepth(), h.settingsInterface.GetMaxFoldersPerLevel())"
	in := map[string]int{}
	other := 0
	for _, d := range f.AST.Decls {
		fd, ok := d.(*ast.FuncDecl)
		if !ok || fd.Body == nil {
			continue
		}
		calls := f.CallsSuffix(fd, ".GetFullHashPath")
		if len(calls) == 0 {
			continue
		}
		params := f.Str(fd.Type)
		direct := 0
		for _, st := range fd.Body.List {
			if f.Str(st) == want {
				direct++
			}
		}
		if direct == len(calls) && strings.Contains(params, "islandID uint64, swampName name.Name") {
			in[fd.Name.Name] += direct
		} else {
			other++
		}
	}
	if other == 0 && len(in) == 2 && in["IsExistSwamp"] == 1 && in["createNewSwamp"] == 1 {
		fs.Tri("serverPathPerRequest", Yes, path+":"+itoa(f.Line(f.Func("hydra", "createNewSwamp"))))
	} else {
		fs.Tri("serverPathPerRequest", Unknown, path)
	}
}

func c20GlueGateway(fs *Facts) {
	const path = "app/server/gateway/gateway.go"
	f, err := Load(path)
	if err != nil {
		fs.Err("%v", err)
		return
	}
	// ---- gatewayThreeParts
	if fd := f.Func("", "isValidSwampName"); fd != nil && fd.Body != nil && fd.Type.Params != nil && len(fd.Type.Params.List) == 1 && len(fd.Type.Params.List[0].Names) == 1 {
		arg := fd.Type.Params.List[0].Names[0].Name
		// leading guards `if <cond> { return false }` only refuse MORE names (e.g. a length bound): accepted structurally
		body := fd.Body.List
		for len(body) > 2 {
			is, ok := body[0].(*ast.IfStmt)
			if !ok || is.Init != nil || is.Else != nil || len(is.Body.List) != 1 || f.Str(is.Body.List[0]) != "return false" {
				break
			}
			body = body[1:]
		}
		var parts string
		if len(body) == 2 {
			if as, ok := body[0].(*ast.AssignStmt); ok && len(as.Lhs) == 1 && len(as.Rhs) == 1 && f.Str(as.Rhs[0]) == `strings.Split(`+arg+`, "/")` {
				parts = f.Str(as.Lhs[0])
			}
		}
		called := false
		if chk := f.Func("", "checkSwampName"); chk != nil {
			called = len(f.Calls(chk, "isValidSwampName")) > 0
		}
		if parts != "" {
			if rs, ok := body[1].(*ast.ReturnStmt); ok && len(rs.Results) == 1 {
				got := strings.ReplaceAll(f.Str(rs.Results[0]), parts, "parts")
				switch {
				case got == `len(parts) == 3 && parts[0] != "" && parts[1] != "" && parts[2] != ""` && called:
					fs.Tri("gatewayThreeParts", Yes, path+":"+itoa(f.Line(fd)))
				case strings.HasPrefix(got, "len(parts) ") && strings.HasSuffix(got, ` && parts[0] != "" && parts[1] != "" && parts[2] != ""`) && called:
					fs.Tri("gatewayThreeParts", No, path+":"+itoa(f.Line(fd)))
				}
			}
		}
	}
	// ---- serverChecksIsland
	derives := 0
	whereD := ""
	for _, p := range c20GoFiles("app", true) {
		if p == "app/name/name.go" {
			continue
		}
		g, err := Load(p)
		if err != nil {
			fs.Err("%v", err)
			return
		}
		for _, c := range append(g.CallsSuffix(g.AST, ".GetFolderNumber"), g.CallsSuffix(g.AST, ".GetIslandID")...) {
			if len(c.Args) == 1 { // the protobuf getter GetIslandID() has no argument
				derives++
				whereD = p + ":" + itoa(g.Line(c))
			}
		}
	}
	handed, strange := 0, 0
	for _, p := range c20GoFiles("app/server/gateway", false) {
		g, err := Load(p)
		if err != nil {
			fs.Err("%v", err)
			return
		}
		for _, d := range g.AST.Decls {
			fd, ok := d.(*ast.FuncDecl)
			if !ok || fd.Body == nil {
				continue
			}
			for _, c := range append(g.CallsSuffix(fd, ".SummonSwamp"), g.CallsSuffix(fd, ".IsExistSwamp")...) {
				idx := 0
				if strings.HasSuffix(g.Str(c.Fun), ".SummonSwamp") {
					idx = 1
				}
				if len(c.Args) <= idx {
					strange++
					continue
				}
				a := g.Str(c.Args[idx])
				switch {
				case strings.HasSuffix(a, ".GetIslandID()") || strings.HasSuffix(a, ".IslandID"):
					handed++
				case a == "islandID" && strings.Contains(g.Str(fd.Type), "islandID uint64"):
					// a helper that receives the island: its callers pass the request's
					okAll := true
					for _, cc := range c20CallsOf(g, fd.Name.Name) {
						s := g.Str(cc)
						if !strings.Contains(s, ".GetIslandID()") && !strings.Contains(s, ".IslandID") {
							okAll = false
						}
					}
					if okAll {
						handed++
					} else {
						strange++
					}
				default:
					strange++
				}
			}
		}
	}
	switch {
	case derives == 0 && strange == 0 && handed >= 10:
		fs.Tri("serverChecksIsland", No, "app/server/gateway ("+itoa(handed)+" calls hand request.IslandID to hydra; no caller of GetFolderNumber under app/)")
	default:
		w := whereD
		if w == "" {
			w = "app/server/gateway"
		}
		fs.Tri("serverChecksIsland", Unknown, w)
	}
}
