package main

import (
	"go/ast"
	"strings"
)

// C16 facts.
//
//	destroyRechecksAfterDrain     swamp.Destroy looks at beaconKey.Count()/CountTreasures() after WaitForActiveVigilsClosed()
//	listenerReadsTouchUnderLock   startCloseListener loads lastInteractionTime after closeWriteMutex.Lock()
//	summonTakesVigil              hydra.SummonSwamp calls BeginVigil on the instance it hands out
func init() {
	Register("C16", Extractor{Import: "Hv.Props.C16", Type: "Hv.C16.Facts", Run: c16Run})
}

func c16Run(fs *Facts) {
	const swampPath = "app/core/hydra/swamp/swamp.go"
	const hydraPath = "app/core/hydra/hydra.go"
	sw, err := Load(swampPath)
	if err != nil {
		fs.Err("%v", err)
		fs.Tri("destroyRechecksAfterDrain", Unknown, swampPath)
		fs.Tri("listenerReadsTouchUnderLock", Unknown, swampPath)
	} else {
		// Destroy: the body that drains and deletes is either Destroy itself or the helper destroy(onlyIfEmpty)
		// that Destroy / destroyIfEmpty call; the fact is about the AUTO-destroy after the last delete, so every
		// method that destroys the swamp on its own (after looking at the count) must go through the re-checking entry.
		fs.Tri(c16DestroyFact(sw, swampPath))
		// listener
		if l := sw.Func("swamp", "startCloseListener"); l == nil {
			fs.Tri("listenerReadsTouchUnderLock", Unknown, swampPath)
		} else {
			locks := sw.Calls(l, "s.closeWriteMutex.Lock")
			var loads []*ast.CallExpr
			for _, c := range sw.Calls(l, "atomic.LoadInt64") {
				if strings.Contains(sw.Str(c), "lastInteractionTime") {
					loads = append(loads, c)
				}
			}
			switch {
			case len(locks) != 1 || len(loads) == 0:
				fs.Tri("listenerReadsTouchUnderLock", Unknown, swampPath+":"+itoa(sw.Line(l)))
			default:
				res := Yes
				where := swampPath + ":" + itoa(sw.Line(loads[0]))
				for _, c := range loads {
					if c.Pos() < locks[0].Pos() {
						res, where = No, swampPath+":"+itoa(sw.Line(c))
					}
				}
				fs.Tri("listenerReadsTouchUnderLock", res, where)
			}
		}
	}
	// delete marker bookkeeping
	if sw != nil {
		save, dh := sw.Func("swamp", "SaveFunction"), sw.Func("swamp", ccDeleteHandlerName(sw))
		if save == nil || dh == nil {
			fs.Tri("recreateDropsDeleteMarker", Unknown, swampPath)
		} else {
			drops := len(sw.Calls(save, "s.treasuresWaitingForWriter.Delete")) > 0
			skips := false
			ast.Inspect(dh, func(x ast.Node) bool {
				if ifs, ok := x.(*ast.IfStmt); ok && strings.Contains(sw.Str(ifs.Cond), "GetFileName() == nil") &&
					strings.Contains(sw.Str(ifs.Body), "treasuresWaitingForWriter.Delete") {
					skips = true
				}
				return true
			})
			// repaired form: before the marker is dropped the re-created record inherits the file pointer of the
			// pending (deleted) object, so a later delete still reaches the file
			inherits := false
			for _, d := range sw.Calls(save, "s.treasuresWaitingForWriter.Delete") {
				ast.Inspect(save, func(x ast.Node) bool {
					ifs, ok := x.(*ast.IfStmt)
					if !ok || ifs.End() > d.Pos() {
						return true
					}
					if ifs.Init != nil && strings.Contains(sw.Str(ifs.Init), "treasuresWaitingForWriter.Get") &&
						strings.Contains(sw.Str(ifs.Cond), "GetFileName() != nil") &&
						len(sw.CallsSuffix(ifs.Body, ".BodySetFileName")) > 0 {
						inherits = true
					}
					return true
				})
			}
			fs.Tri("recreateDropsDeleteMarker", TriOf(drops && skips && !inherits), swampPath+":"+itoa(sw.Line(dh)))
		}
	} else {
		fs.Tri("recreateDropsDeleteMarker", Unknown, swampPath)
	}
	// ceasesVigilOnce: a swamp method that gives the caller's vigil up for a drain (s.CeaseVigil()) takes it again
	// (s.BeginVigil()) afterwards in the same block, so that the handler's deferred CeaseVigil stays the only net cease
	if sw != nil {
		res, where := Yes, swampPath
		for _, d := range sw.AST.Decls {
			fd, ok := d.(*ast.FuncDecl)
			if !ok || fd.Body == nil || fd.Recv == nil {
				continue
			}
			ast.Inspect(fd.Body, func(x ast.Node) bool {
				blk, ok := x.(*ast.BlockStmt)
				if !ok {
					return true
				}
				open := 0
				for _, st := range blk.List {
					es, ok := st.(*ast.ExprStmt)
					if !ok {
						continue
					}
					switch sw.Str(es.X) {
					case "s.CeaseVigil()":
						open++
						where = swampPath + ":" + itoa(sw.Line(es)) + " (" + fd.Name.Name + ")"
					case "s.BeginVigil()":
						if open > 0 {
							open--
						}
					}
				}
				if open > 0 {
					res = No
				}
				return true
			})
			if res == No {
				break
			}
		}
		fs.Tri("ceasesVigilOnce", res, where)
	} else {
		fs.Tri("ceasesVigilOnce", Unknown, swampPath)
	}
	// deleteRefusesClosedInstance: DeleteTreasure returns an error when the instance's routines have been cancelled
	// (closed / destroyed), and the gateway's Delete goes on with the instance that is mapped then
	if sw != nil {
		res, where := Unknown, swampPath
		if dt := ccDelegate(sw, sw.Func("swamp", "DeleteTreasure"), "swamp"); dt != nil {
			where = swampPath + ":" + itoa(sw.Line(dt))
			res = No
			ast.Inspect(dt, func(x ast.Node) bool {
				if ifs, ok := x.(*ast.IfStmt); ok && strings.Contains(sw.Str(ifs.Cond), "goRoutineContext.Err()") {
					if n := len(ifs.Body.List); n > 0 {
						if _, isRet := ifs.Body.List[n-1].(*ast.ReturnStmt); isRet {
							res = Yes
						}
					}
				}
				return true
			})
			if res == Yes {
				if gw, err := Load("app/server/gateway/gateway.go"); err != nil {
					res = Unknown
				} else if del := gw.Func("Gateway", "Delete"); del == nil || !strings.Contains(gw.Str(del), "ErrorSwampIsClosed") || len(gw.CallsSuffix(del, ".SummonSwamp")) < 2 {
					res = No
					where = "app/server/gateway/gateway.go"
				}
			}
		}
		fs.Tri("deleteRefusesClosedInstance", res, where)
	} else {
		fs.Tri("deleteRefusesClosedInstance", Unknown, swampPath)
	}
	hy, err := Load(hydraPath)
	if err != nil {
		fs.Err("%v", err)
		fs.Tri("summonTakesVigil", Unknown, hydraPath)
		fs.Tri("summonWaitsForUnmap", Unknown, hydraPath)
		fs.Tri("stopWaitsUntilClosed", Unknown, hydraPath)
		return
	}
	// summonWaitsForUnmap: the branch that waits for a closing instance ends with `continue` (back to the map lookup)
	if sm := hy.Func("hydra", "SummonSwamp"); sm == nil {
		fs.Tri("summonWaitsForUnmap", Unknown, hydraPath)
	} else {
		res, where := Unknown, hydraPath+":"+itoa(hy.Line(sm))
		ast.Inspect(sm, func(x ast.Node) bool {
			ifs, ok := x.(*ast.IfStmt)
			if !ok || !strings.Contains(hy.Str(ifs.Cond), ".IsClosing()") || len(hy.CallsSuffix(ifs.Body, ".WaitForGracefulClose")) == 0 {
				return true
			}
			where = hydraPath + ":" + itoa(hy.Line(ifs))
			res = No
			if n := len(ifs.Body.List); n > 0 {
				if br, ok := ifs.Body.List[n-1].(*ast.BranchStmt); ok && br.Tok.String() == "continue" {
					res = Yes
				}
			}
			return true
		})
		fs.Tri("summonWaitsForUnmap", res, where)
	}
	// stopWaitsUntilClosed: every return inside GracefulStop's wait loop is guarded by `<count> == 0`, or follows the
	// forced close and its 30 s wait
	if gs := hy.Func("hydra", "GracefulStop"); gs == nil {
		fs.Tri("stopWaitsUntilClosed", Unknown, hydraPath)
	} else {
		res, where := Unknown, hydraPath+":"+itoa(hy.Line(gs))
		var loop *ast.ForStmt
		for _, stt := range gs.Body.List {
			if fl, ok := stt.(*ast.ForStmt); ok {
				loop = fl
			}
		}
		// the count of mapped swamps: CountActiveSwamps() itself or any variable it is assigned to
		countVars := map[string]bool{"h.CountActiveSwamps()": true}
		unsure := false
		ast.Inspect(gs, func(x ast.Node) bool {
			if as, ok := x.(*ast.AssignStmt); ok && len(as.Lhs) == 1 && len(as.Rhs) == 1 && strings.HasSuffix(hy.Str(as.Rhs[0]), ".CountActiveSwamps()") {
				countVars[hy.Str(as.Lhs[0])] = true
			}
			return true
		})
		if loop != nil && loop.Cond == nil {
			res = Yes
			var visit func(n ast.Node, guarded bool)
			visit = func(n ast.Node, guarded bool) {
				switch x := n.(type) {
				case *ast.FuncLit:
					return
				case *ast.IfStmt:
					cond := strings.ReplaceAll(hy.Str(x.Cond), " ", "")
					zero := false
					for v := range countVars {
						for _, pat := range []string{v + "==0", v + "<1", v + "<=0", "0==" + v, "1>" + v, "0>=" + v} {
							if strings.Contains(cond, pat) {
								zero = true
							}
						}
						if !zero && strings.Contains(cond, v) {
							unsure = true // compares the count in a way this extractor does not know
						}
					}
					g := guarded || zero
					forced := false
					for _, st := range x.Body.List {
						if es, ok := st.(*ast.ExprStmt); ok && strings.Contains(hy.Str(es.X), "time.Sleep(30") {
							forced = true
						}
						if _, ok := st.(*ast.ReturnStmt); ok && !(g || forced) {
							res, where = No, hydraPath+":"+itoa(hy.Line(st))
						}
						if _, ok := st.(*ast.ReturnStmt); !ok {
							visit(st, g)
						}
					}
					if x.Else != nil {
						visit(x.Else, guarded)
					}
					return
				case *ast.BlockStmt:
					for _, st := range x.List {
						if _, ok := st.(*ast.ReturnStmt); ok && !guarded {
							res, where = No, hydraPath+":"+itoa(hy.Line(st))
						} else {
							visit(st, guarded)
						}
					}
					return
				case *ast.BranchStmt:
					if x.Tok.String() == "break" && !guarded {
						res, where = No, hydraPath+":"+itoa(hy.Line(x))
					}
				}
			}
			visit(loop.Body, false)
			if res == No && unsure {
				res = Unknown
			}
		}
		fs.Tri("stopWaitsUntilClosed", res, where)
	}
	if s := hy.Func("hydra", "SummonSwamp"); s == nil {
		fs.Tri("summonTakesVigil", Unknown, hydraPath)
	} else if len(hy.CallsSuffix(s, ".BeginVigil")) > 0 {
		fs.Tri("summonTakesVigil", Yes, hydraPath+":"+itoa(hy.Line(s)))
	} else {
		fs.Tri("summonTakesVigil", No, hydraPath+":"+itoa(hy.Line(s)))
	}
}

// c16DestroyFact decides destroyRechecksAfterDrain.
func c16DestroyFact(sw *File, swampPath string) (string, Tri, string) {
	const name = "destroyRechecksAfterDrain"
	var body *ast.FuncDecl
	for _, n := range []string{"destroy", "Destroy"} {
		if d := sw.Func("swamp", n); d != nil && len(sw.CallsSuffix(d, ".chroniclerInterface.Destroy")) > 0 {
			body = d
			break
		}
	}
	if body == nil {
		return name, Unknown, swampPath
	}
	waits := sw.CallsSuffix(body, ".WaitForActiveVigilsClosed")
	dels := sw.CallsSuffix(body, ".chroniclerInterface.Destroy")
	if len(waits) != 1 || len(dels) != 1 {
		return name, Unknown, swampPath + ":" + itoa(sw.Line(body))
	}
	// an if between the drain and the file removal that looks at the count and returns
	var check *ast.IfStmt
	ast.Inspect(body, func(x ast.Node) bool {
		ifs, ok := x.(*ast.IfStmt)
		if !ok || ifs.Pos() < waits[0].End() || ifs.End() > dels[0].Pos() {
			return true
		}
		cond := sw.Str(ifs.Cond)
		if !(strings.Contains(cond, "beaconKey.Count()") || strings.Contains(cond, "CountTreasures()")) {
			return true
		}
		if n := len(ifs.Body.List); n > 0 {
			if _, ok := ifs.Body.List[n-1].(*ast.ReturnStmt); ok {
				check = ifs
			}
		}
		return true
	})
	if check != nil {
		// the re-check must depend on nothing but the count (and the only-if-empty parameter): every conjunct is either an
		// identifier or a "count is positive" test; anything else makes the re-check conditional on something unknown
		for _, cj := range strings.Split(strings.ReplaceAll(sw.Str(check.Cond), " ", ""), "&&") {
			isIdent := cj != "" && !strings.ContainsAny(cj, "()<>=!|.")
			isCount := false
			for _, c := range []string{"s.beaconKey.Count()", "s.CountTreasures()"} {
				for _, t := range []string{c + ">0", c + "!=0", c + ">=1", "0<" + c} {
					if cj == t {
						isCount = true
					}
				}
			}
			if !isIdent && !isCount {
				return name, Unknown, swampPath + ":" + itoa(sw.Line(check)) + " (re-check under an extra condition: " + cj + ")"
			}
		}
	}
	if check == nil {
		return name, No, swampPath + ":" + itoa(sw.Line(waits[0]))
	}
	where := swampPath + ":" + itoa(sw.Line(check))
	// the non-empty branch must still flush: it has to call the close body
	if len(sw.Calls(check.Body, "s.closeClosing", "s.Close")) == 0 {
		return name, Unknown, where
	}
	guardParam := ""
	if body.Name.Name == "destroy" && body.Type.Params != nil && len(body.Type.Params.List) == 1 && len(body.Type.Params.List[0].Names) == 1 {
		guardParam = body.Type.Params.List[0].Names[0].Name
	}
	if guardParam == "" || !strings.Contains(sw.Str(check.Cond), guardParam) {
		// unconditional re-check in the one body
		if body.Name.Name == "Destroy" {
			return name, Yes, where
		}
		return name, Unknown, where
	}
	// conditional on the parameter: find the entry that passes true, and require that every other method that
	// destroys the swamp by itself uses that entry
	entry := ""
	for _, d := range sw.AST.Decls {
		fd, ok := d.(*ast.FuncDecl)
		if !ok || fd.Body == nil || fd.Recv == nil || fd == body {
			continue
		}
		for _, c := range sw.Calls(fd, "s.destroy") {
			// the entry that asks for the re-check: its only call of destroy is destroy(true) (logging around it is fine)
			if len(c.Args) == 1 && sw.Str(c.Args[0]) == "true" && len(sw.Calls(fd, "s.destroy")) == 1 {
				entry = fd.Name.Name
			}
		}
	}
	if entry == "" {
		return name, No, where
	}
	sites := 0
	for _, d := range sw.AST.Decls {
		fd, ok := d.(*ast.FuncDecl)
		if !ok || fd.Body == nil || fd.Recv == nil || fd == body || fd.Name.Name == entry || fd.Name.Name == "Destroy" {
			continue
		}
		if bad := sw.Calls(fd, "s.Destroy", "s.destroy"); len(bad) > 0 {
			return name, No, swampPath + ":" + itoa(sw.Line(bad[0]))
		}
		sites += len(sw.Calls(fd, "s."+entry))
	}
	if sites == 0 {
		return name, Unknown, where
	}
	return name, Yes, where
}
