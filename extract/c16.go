package main

import (
	"go/ast"
	"strings"
)

// C16 facts.
//
//	destroyRechecksAfterDrain     swamp.Destroy looks at beaconKey.Count()/CountTreasures() after WaitForActiveVigilsClosed()
//	listenerReadsTouchUnderLock   startCloseListener loads lastInteractionTime after closeWriteMutex.Lock()
//	summonTakesVigil              hydra.SummonSwamp calls BeginVigil on the instance it hands out
func init() {
	Register("C16", Extractor{Import: "Hv.Props.C16", Type: "Hv.C16.Facts", Run: c16Run})
}

func c16Run(fs *Facts) {
	const swampPath = "app/core/hydra/swamp/swamp.go"
	const hydraPath = "app/core/hydra/hydra.go"
	sw, err := Load(swampPath)
	if err != nil {
		fs.Err("%v", err)
		fs.Tri("destroyRechecksAfterDrain", Unknown, swampPath)
		fs.Tri("listenerReadsTouchUnderLock", Unknown, swampPath)
	} else {
		// Destroy
		if d := sw.Func("swamp", "Destroy"); d == nil {
			fs.Tri("destroyRechecksAfterDrain", Unknown, swampPath)
		} else {
			waits := sw.CallsSuffix(d, ".WaitForActiveVigilsClosed")
			dels := sw.CallsSuffix(d, ".chroniclerInterface.Destroy")
			if len(waits) != 1 || len(dels) != 1 {
				fs.Tri("destroyRechecksAfterDrain", Unknown, swampPath+":"+itoa(sw.Line(d)))
			} else {
				res, where := No, swampPath+":"+itoa(sw.Line(waits[0]))
				for _, c := range append(sw.CallsSuffix(d, ".beaconKey.Count"), sw.CallsSuffix(d, ".CountTreasures")...) {
					if c.Pos() > waits[0].End() && c.Pos() < dels[0].Pos() {
						res, where = Yes, swampPath+":"+itoa(sw.Line(c))
					}
				}
				fs.Tri("destroyRechecksAfterDrain", res, where)
			}
		}
		// listener
		if l := sw.Func("swamp", "startCloseListener"); l == nil {
			fs.Tri("listenerReadsTouchUnderLock", Unknown, swampPath)
		} else {
			locks := sw.Calls(l, "s.closeWriteMutex.Lock")
			var loads []*ast.CallExpr
			for _, c := range sw.Calls(l, "atomic.LoadInt64") {
				if strings.Contains(sw.Str(c), "lastInteractionTime") {
					loads = append(loads, c)
				}
			}
			switch {
			case len(locks) != 1 || len(loads) == 0:
				fs.Tri("listenerReadsTouchUnderLock", Unknown, swampPath+":"+itoa(sw.Line(l)))
			default:
				res := Yes
				where := swampPath + ":" + itoa(sw.Line(loads[0]))
				for _, c := range loads {
					if c.Pos() < locks[0].Pos() {
						res, where = No, swampPath+":"+itoa(sw.Line(c))
					}
				}
				fs.Tri("listenerReadsTouchUnderLock", res, where)
			}
		}
	}
	// delete marker bookkeeping
	if sw != nil {
		save, dh := sw.Func("swamp", "SaveFunction"), sw.Func("swamp", "deleteHandler")
		if save == nil || dh == nil {
			fs.Tri("recreateDropsDeleteMarker", Unknown, swampPath)
		} else {
			drops := len(sw.Calls(save, "s.treasuresWaitingForWriter.Delete")) > 0
			skips := false
			ast.Inspect(dh, func(x ast.Node) bool {
				if ifs, ok := x.(*ast.IfStmt); ok && strings.Contains(sw.Str(ifs.Cond), "GetFileName() == nil") &&
					strings.Contains(sw.Str(ifs.Body), "treasuresWaitingForWriter.Delete") {
					skips = true
				}
				return true
			})
			fs.Tri("recreateDropsDeleteMarker", TriOf(drops && skips), swampPath+":"+itoa(sw.Line(dh)))
		}
	} else {
		fs.Tri("recreateDropsDeleteMarker", Unknown, swampPath)
	}
	hy, err := Load(hydraPath)
	if err != nil {
		fs.Err("%v", err)
		fs.Tri("summonTakesVigil", Unknown, hydraPath)
		return
	}
	if s := hy.Func("hydra", "SummonSwamp"); s == nil {
		fs.Tri("summonTakesVigil", Unknown, hydraPath)
	} else if len(hy.CallsSuffix(s, ".BeginVigil")) > 0 {
		fs.Tri("summonTakesVigil", Yes, hydraPath+":"+itoa(hy.Line(s)))
	} else {
		fs.Tri("summonTakesVigil", No, hydraPath+":"+itoa(hy.Line(s)))
	}
}
