package main

import (
	"go/ast"
	"regexp"
	"strconv"
	"strings"
)

// C28: is anything ever deleted from lock.queues, and if so in the shape the pruning theorem covers?
func init() {
	Register("C28", Extractor{Import: "Hv.Props.C28", Type: "Hv.C28.Facts", Run: func(fs *Facts) {
		f, err := Load(c14LockPath)
		if err != nil {
			fs.Err("%v", err)
			for _, n := range []string{"queuesIsSyncMap", "getQueueLoadOrStore"} {
				fs.Tri(n, Unknown, c14LockPath)
			}
			fs.Raw("deleteCalls", "none", "unknown", c14LockPath)
			fs.Tri("pruneVariant", Unknown, c14LockPath)
			fs.Raw("wake", "none", "unknown", c14LockPath)
			fs.Tri("wakeOnlyIfHead", Unknown, c14LockPath)
			return
		}
		// type lock struct { queues sync.Map }
		isMap, whereMap := Unknown, c14LockPath
		ast.Inspect(f.AST, func(n ast.Node) bool {
			ts, ok := n.(*ast.TypeSpec)
			if !ok || ts.Name.Name != "lock" {
				return true
			}
			if st, ok := ts.Type.(*ast.StructType); ok {
				isMap = No
				for _, fld := range st.Fields.List {
					for _, nm := range fld.Names {
						if nm.Name == "queues" {
							isMap = TriOf(f.Str(fld.Type) == "sync.Map")
							whereMap = c14Where(f, fld)
						}
					}
				}
			}
			return false
		})
		fs.Tri("queuesIsSyncMap", isMap, whereMap)

		gq := f.Func("lock", "getQueue")
		los := Unknown
		if gq != nil {
			load := len(f.Calls(gq, "l.queues.Load")) == 1
			lo := f.Calls(gq, "l.queues.LoadOrStore")
			okLo := len(lo) == 1 && len(lo[0].Args) == 2 && f.Str(lo[0].Args[0]) == "key" && strings.HasPrefix(f.Str(lo[0].Args[1]), "newQueue(")
			los = TriOf(load && okLo && len(f.Calls(f.AST, "l.queues.Store")) == 0)
			fs.Tri("getQueueLoadOrStore", los, c14Where(f, gq))
		} else {
			fs.Tri("getQueueLoadOrStore", Unknown, c14LockPath)
		}

		re := regexp.MustCompile(`\.queues\.(Delete|LoadAndDelete|CompareAndDelete|Clear|Swap|CompareAndSwap)$`)
		del, whereDel := 0, c14LockPath
		ast.Inspect(f.AST, func(n ast.Node) bool {
			if c, ok := n.(*ast.CallExpr); ok && re.MatchString(f.Str(c.Fun)) {
				del++
				whereDel = c14Where(f, c)
			}
			return true
		})
		fs.Raw("deleteCalls", "(some "+strconv.Itoa(del)+")", strconv.Itoa(del), whereDel)

		// the pruning variant of the model, recognised by shape (names are free):
		//  (a) the queue struct has a bool field F;
		//  (b) enqueue returns bool and starts (after taking mu) with `if q.F { return false }`;
		//  (c) remove, under mu, has `if len(q.callers) == 0 { q.F = true; <statement that reaches CompareAndDelete> }`;
		//  (d) Lock loops on enqueue's result, fetching the queue again with getQueue;
		//  (e) the only deleting call on the map is CompareAndDelete(key, q).
		enq, rem, lk := f.Func("queue", "enqueue"), f.Func("queue", "remove"), f.Func("lock", "Lock")
		flag := ""
		ast.Inspect(f.AST, func(n ast.Node) bool {
			ts, ok := n.(*ast.TypeSpec)
			if !ok || ts.Name.Name != "queue" {
				return true
			}
			if st, ok := ts.Type.(*ast.StructType); ok {
				for _, fld := range st.Fields.List {
					if f.Str(fld.Type) == "bool" && len(fld.Names) == 1 {
						flag = fld.Names[0].Name
					}
				}
			}
			return false
		})
		marks := 0
		if flag != "" {
			marks++
		}
		if enq != nil && flag != "" && enq.Type.Results != nil && len(enq.Type.Results.List) == 1 && f.Str(enq.Type.Results.List[0].Type) == "bool" {
			b := c17Plain(f, enq.Body.List)
			if len(b) > 2 {
				if is, ok := b[2].(*ast.IfStmt); ok && f.Str(is.Cond) == "q."+flag && is.Else == nil && is.Init == nil {
					if in := c17Plain(f, is.Body.List); len(in) == 1 && f.Str(in[0]) == "return false" {
						marks++
					}
				}
			}
		}
		if rem != nil && flag != "" {
			ast.Inspect(rem, func(n ast.Node) bool {
				is, ok := n.(*ast.IfStmt)
				if !ok || f.Str(is.Cond) != "len(q.callers) == 0" || is.Else != nil {
					return true
				}
				b := c17Plain(f, is.Body.List)
				if len(b) == 2 && f.Str(b[0]) == "q."+flag+" = true" {
					// the second statement must lead to the map deletion: directly, or through a func field set in getQueue
					direct := len(f.CallsSuffix(b[1], ".CompareAndDelete")) == 1
					viaField := false
					if es, ok := b[1].(*ast.ExprStmt); ok {
						if c, ok := es.X.(*ast.CallExpr); ok && strings.HasPrefix(f.Str(c.Fun), "q.") && len(c.Args) == 1 && f.Str(c.Args[0]) == "q" {
							if gq := f.Func("lock", "getQueue"); gq != nil && len(f.CallsSuffix(gq, "l.queues.CompareAndDelete")) == 1 {
								viaField = true
							}
						}
					}
					if direct || viaField {
						marks++
					}
				}
				return true
			})
		}
		if lk != nil {
			ast.Inspect(lk, func(n ast.Node) bool {
				if fl, ok := n.(*ast.ForStmt); ok && strings.Contains(f.Str(fl.Cond)+f.Str(fl.Body), ".enqueue(c)") &&
					len(f.Calls(fl, "l.getQueue")) == 1 {
					marks++
				}
				return true
			})
		}
		cad := 0
		for _, c := range f.CallsSuffix(f.AST, "l.queues.CompareAndDelete") {
			if len(c.Args) == 2 && f.Str(c.Args[0]) == "key" && f.Str(c.Args[1]) == "q" {
				cad++
			}
		}
		pv := Unknown
		switch {
		case marks == 4 && del == 1 && cad == 1:
			pv = Yes
		case marks == 0 && flag == "":
			pv = No
		}
		fs.Tri("pruneVariant", pv, c14LockPath)

		// queue-level shape: same patterns as C14
		tmp := NewFacts("C14")
		c14Lock(tmp, f, func(string) {})
		if v, ok := tmp.Lean["wake"]; ok {
			fs.Raw("wake", v, tmp.Show["wake"], tmp.Where["wake"])
		} else {
			fs.Raw("wake", "none", "unknown", c14LockPath)
		}
		if v, ok := tmp.Lean["wakeOnlyIfHead"]; ok {
			fs.Raw("wakeOnlyIfHead", v, tmp.Show["wakeOnlyIfHead"], tmp.Where["wakeOnlyIfHead"])
		} else {
			fs.Tri("wakeOnlyIfHead", Unknown, c14LockPath)
		}
	}})
}
