package main

import (
	"go/ast"
	"regexp"
	"strconv"
	"strings"
)

// C28: is anything ever deleted from lock.queues, and if so in the shape the pruning theorem covers?
func init() {
	Register("C28", Extractor{Import: "Hv.Props.C28", Type: "Hv.C28.Facts", Run: func(fs *Facts) {
		f, err := Load(c14LockPath)
		if err != nil {
			fs.Err("%v", err)
			for _, n := range []string{"queuesIsSyncMap", "getQueueLoadOrStore"} {
				fs.Tri(n, Unknown, c14LockPath)
			}
			fs.Raw("deleteCalls", "none", "unknown", c14LockPath)
			fs.Tri("pruneVariant", Unknown, c14LockPath)
			fs.Raw("wake", "none", "unknown", c14LockPath)
			fs.Tri("wakeOnlyIfHead", Unknown, c14LockPath)
			return
		}
		// type lock struct { queues sync.Map }
		isMap, whereMap := Unknown, c14LockPath
		ast.Inspect(f.AST, func(n ast.Node) bool {
			ts, ok := n.(*ast.TypeSpec)
			if !ok || ts.Name.Name != "lock" {
				return true
			}
			if st, ok := ts.Type.(*ast.StructType); ok {
				isMap = No
				for _, fld := range st.Fields.List {
					for _, nm := range fld.Names {
						if nm.Name == "queues" {
							isMap = TriOf(f.Str(fld.Type) == "sync.Map")
							whereMap = c14Where(f, fld)
						}
					}
				}
			}
			return false
		})
		fs.Tri("queuesIsSyncMap", isMap, whereMap)

		gq := f.Func("lock", "getQueue")
		los := Unknown
		if gq != nil {
			load := len(f.Calls(gq, "l.queues.Load")) == 1
			lo := f.Calls(gq, "l.queues.LoadOrStore")
			okLo := len(lo) == 1 && len(lo[0].Args) == 2 && f.Str(lo[0].Args[0]) == "key" && strings.HasPrefix(f.Str(lo[0].Args[1]), "newQueue(")
			los = TriOf(load && okLo && len(f.Calls(f.AST, "l.queues.Store")) == 0)
			fs.Tri("getQueueLoadOrStore", los, c14Where(f, gq))
		} else {
			fs.Tri("getQueueLoadOrStore", Unknown, c14LockPath)
		}

		re := regexp.MustCompile(`\.queues\.(Delete|LoadAndDelete|CompareAndDelete|Clear|Swap|CompareAndSwap)$`)
		del, whereDel := 0, c14LockPath
		ast.Inspect(f.AST, func(n ast.Node) bool {
			if c, ok := n.(*ast.CallExpr); ok && re.MatchString(f.Str(c.Fun)) {
				del++
				whereDel = c14Where(f, c)
			}
			return true
		})
		fs.Raw("deleteCalls", "(some "+strconv.Itoa(del)+")", strconv.Itoa(del), whereDel)

		// the pruning variant of the model, syntactically
		src := string(f.Src)
		enq, rem, lk := f.Func("queue", "enqueue"), f.Func("queue", "remove"), f.Func("lock", "Lock")
		marks := 0
		if strings.Contains(src, "dead bool") || regexp.MustCompile(`\bdead\s+bool\b`).MatchString(src) {
			marks++
		}
		if enq != nil && f.Contains(enq, "if q.dead { return false }") {
			marks++
		}
		if rem != nil && f.Contains(rem, "q.dead = true") && f.Contains(rem, "if len(q.callers) == 0 {") && f.Contains(rem, "CompareAndDelete(") {
			marks++
		}
		if lk != nil {
			hasLoop := false
			ast.Inspect(lk, func(n ast.Node) bool {
				if fl, ok := n.(*ast.ForStmt); ok && f.Contains(fl, "l.getQueue(key)") && f.Contains(fl, ".enqueue(c)") {
					hasLoop = true
				}
				return true
			})
			if hasLoop {
				marks++
			}
		}
		pv := Unknown
		switch {
		case marks == 4 && del == 1:
			pv = Yes
		case marks == 0:
			pv = No
		}
		fs.Tri("pruneVariant", pv, c14LockPath)

		// queue-level shape: same patterns as C14
		tmp := NewFacts("C14")
		c14Lock(tmp, f, func(string) {})
		if v, ok := tmp.Lean["wake"]; ok {
			fs.Raw("wake", v, tmp.Show["wake"], tmp.Where["wake"])
		} else {
			fs.Raw("wake", "none", "unknown", c14LockPath)
		}
		if v, ok := tmp.Lean["wakeOnlyIfHead"]; ok {
			fs.Raw("wakeOnlyIfHead", v, tmp.Show["wakeOnlyIfHead"], tmp.Where["wakeOnlyIfHead"])
		} else {
			fs.Tri("wakeOnlyIfHead", Unknown, c14LockPath)
		}
	}})
}
