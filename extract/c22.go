package main

import (
	"go/ast"
	"go/token"
	"sort"
	"strconv"
	"strings"
)

// C22 facts — sdk/go/hydraidego/{conversions.go, conversions_mapbody.go, hydraidego.go}.
//
// For each `if key, ok := <field>.Tag.Lookup(tagHydrAIDE); ok && <pred>` directly in the field loop of
// the encoder (convertCatalogModelToKeyValuePair) and the decoder (convertProtoTreasureToCatalogModel):
//
//	<pred> = key == tagX                         → eq
//	         strings.Contains(key, tagX)         → contains
//	         hydraideTagHead(key) == tagX        → headEq   (hydraideTagHead must cut the tag at the first ',')
//
// loopOrder: both loops test key, value, expireAt, createdBy, createdAt, updatedBy, updatedAt in this order, each once;
// every branch ends in continue/return except the encoder's value branch (it falls through).
// shapeUsesHead: inspectCatalogModel takes strings.Split(raw, ",")[0] and compares it with tagValue and with the
// keys of reservedHydraideTagNames, which are exactly the seven tag constants.
func init() {
	Register("C22", Extractor{Import: "Hv.Props.C22", Type: "Hv.C22.Facts", Run: func(fs *Facts) {
		const conv = "sdk/go/hydraidego/conversions.go"
		const mapb = "sdk/go/hydraidego/conversions_mapbody.go"
		const main = "sdk/go/hydraidego/hydraidego.go"
		slots := []string{"Key", "Value", "ExpireAt", "CreatedBy", "CreatedAt", "UpdatedBy", "UpdatedAt"}
		for _, side := range []string{"enc", "dec"} {
			for _, s := range slots {
				fs.Enum(side+s, "unknown", conv)
			}
		}
		fs.Tri("loopOrder", Unknown, conv)
		fs.Tri("shapeUsesHead", Unknown, mapb)
		c22ValueDefaults(fs)
		fc, err1 := Load(conv)
		fm, err2 := Load(mapb)
		fh, err3 := Load(main)
		if err1 != nil || err2 != nil || err3 != nil {
			fs.Err("%v %v %v", err1, err2, err3)
			return
		}
		// tag constants must carry the modelled names
		want := map[string]string{"tagKey": "key", "tagValue": "value", "tagExpireAt": "expireAt", "tagCreatedBy": "createdBy",
			"tagCreatedAt": "createdAt", "tagUpdatedBy": "updatedBy", "tagUpdatedAt": "updatedAt", "tagHydrAIDE": "hydraide"}
		got := map[string]string{}
		ast.Inspect(fh.AST, func(n ast.Node) bool {
			if vs, ok := n.(*ast.ValueSpec); ok && len(vs.Names) == len(vs.Values) {
				for i, nm := range vs.Names {
					if s, err := strconv.Unquote(fh.Str(vs.Values[i])); err == nil {
						got[nm.Name] = s
					}
				}
			}
			return true
		})
		for k, v := range want {
			if got[k] != v {
				fs.Err("constant %s = %q, expected %q", k, got[k], v)
				return
			}
		}
		headHelperOK := c22HeadHelper(fc) || c22HeadHelper(fm) || c22HeadHelper(fh)
		canon := []string{"tagKey", "tagValue", "tagExpireAt", "tagCreatedBy", "tagCreatedAt", "tagUpdatedBy", "tagUpdatedAt"}
		orderOK := true
		for _, side := range []struct{ pre, fn string }{{"enc", "convertCatalogModelToKeyValuePair"}, {"dec", "convertProtoTreasureToCatalogModel"}} {
			fd := fc.Func("", side.fn)
			if fd == nil || fd.Body == nil {
				orderOK = false
				continue
			}
			var loop *ast.ForStmt
			for _, st := range fd.Body.List {
				if l, ok := st.(*ast.ForStmt); ok && strings.Contains(fc.Str(l.Cond), "NumField()") {
					loop = l
				}
			}
			if loop == nil {
				orderOK = false
				continue
			}
			var seen []string
			for _, st := range loop.Body.List {
				is, ok := st.(*ast.IfStmt)
				if !ok || is.Init == nil {
					continue
				}
				as, ok := is.Init.(*ast.AssignStmt)
				if !ok || len(as.Lhs) != 2 || len(as.Rhs) != 1 || !strings.HasSuffix(fc.Str(as.Rhs[0]), ".Tag.Lookup(tagHydrAIDE)") {
					orderOK = false
					continue
				}
				tagVar, okVar := fc.Str(as.Lhs[0]), fc.Str(as.Lhs[1])
				be, ok := is.Cond.(*ast.BinaryExpr)
				if !ok || be.Op != token.LAND || fc.Str(be.X) != okVar {
					orderOK = false
					continue
				}
				kind, cst := c22Pred(fc, be.Y, tagVar, headHelperOK)
				idx := -1
				for i, c := range canon {
					if c == cst {
						idx = i
					}
				}
				if idx < 0 {
					orderOK = false
					continue
				}
				seen = append(seen, cst)
				fs.Enum(side.pre+slots[idx], kind, conv+":"+itoa(fc.Line(is)))
				// branch ending
				last := is.Body.List[len(is.Body.List)-1]
				terminal := false
				switch x := last.(type) {
				case *ast.BranchStmt:
					terminal = x.Tok == token.CONTINUE
				case *ast.ReturnStmt:
					terminal = true
				}
				fallsThrough := side.pre == "enc" && cst == "tagValue"
				if terminal == fallsThrough {
					orderOK = false
				}
			}
			// the model tests the slots in the canonical order; the order only matters while some predicate is a substring
			// test (two of them can fire on one tag) — and for the encoder's value branch, which falls through to the metadata ones
			sortedSeen := append([]string(nil), seen...)
			sort.Strings(sortedSeen)
			sortedCanon := append([]string(nil), canon...)
			sort.Strings(sortedCanon)
			if strings.Join(sortedSeen, ",") != strings.Join(sortedCanon, ",") {
				orderOK = false
			} else if strings.Join(seen, ",") != strings.Join(canon, ",") {
				anyContains := false
				for _, sl := range slots {
					if fs.Show[side.pre+sl] == "contains" {
						anyContains = true
					}
				}
				valueBeforeMeta := side.pre != "enc" || (len(seen) > 0 && (seen[0] == "tagValue" || (len(seen) > 1 && seen[0] == "tagKey" && seen[1] == "tagValue")))
				if anyContains || !valueBeforeMeta {
					orderOK = false
				}
			}
		}
		fs.Tri("loopOrder", TriOf(orderOK), conv)
		// shape detector
		fd := miscFunc(fm, "", "inspectCatalogModel")
		if fd != nil {
			src := fm.Str(fd)
			keys := map[string]bool{}
			ast.Inspect(fm.AST, func(n ast.Node) bool {
				if vs, ok := n.(*ast.ValueSpec); ok && len(vs.Names) == 1 && vs.Names[0].Name == "reservedHydraideTagNames" && len(vs.Values) == 1 {
					if cl, ok := vs.Values[0].(*ast.CompositeLit); ok {
						for _, el := range cl.Elts {
							if kv, ok := el.(*ast.KeyValueExpr); ok {
								keys[fm.Str(kv.Key)] = true
							}
						}
					}
				}
				return true
			})
			all := len(keys) == len(canon)
			for _, c := range canon {
				all = all && keys[c]
			}
			ok := all && strings.Contains(src, `parts := strings.Split(raw, ",")`) && strings.Contains(src, "head := parts[0]") &&
				strings.Contains(src, "head == tagValue") && strings.Contains(src, "reservedHydraideTagNames[head]") &&
				(strings.Contains(src, `if head == "" { continue }`) || strings.Contains(src, `if head == "" || head == "-" {`)) && !strings.Contains(src, "strings.Contains(")
			fs.Tri("shapeUsesHead", TriOf(ok), mapb+":"+itoa(fm.Line(fd)))
		}
		c22Values(fs)
	}})
}

// c22Pred classifies the tag predicate of one branch; returns (kind, tag constant).
func c22Pred(f *File, e ast.Expr, tagVar string, headHelperOK bool) (string, string) {
	switch x := e.(type) {
	case *ast.BinaryExpr:
		if x.Op != token.EQL {
			return "unknown", ""
		}
		l, r := f.Str(x.X), f.Str(x.Y)
		if !strings.HasPrefix(r, "tag") {
			l, r = r, l
		}
		switch {
		case l == tagVar:
			return "eq", r
		case l == "hydraideTagHead("+tagVar+")" && headHelperOK:
			return "headEq", r
		}
		return "unknown", r
	case *ast.CallExpr:
		if f.Str(x.Fun) == "strings.Contains" && len(x.Args) == 2 && f.Str(x.Args[0]) == tagVar {
			return "contains", f.Str(x.Args[1])
		}
	}
	return "unknown", ""
}

// c22HeadHelper: `func hydraideTagHead(tag string) string` that returns tag[:i] for i = strings.IndexByte(tag, ',') and tag otherwise.
func c22HeadHelper(f *File) bool {
	fd := f.Func("", "hydraideTagHead")
	if fd == nil || fd.Body == nil || len(fd.Body.List) != 2 {
		return false
	}
	src := f.Str(fd.Body)
	return strings.Contains(src, "if i := strings.IndexByte(tag, ','); i >= 0 { return tag[:i] }") && strings.HasSuffix(src, "return tag }")
}
