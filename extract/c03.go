package main

// C03: per compaction entry point, is the temp file removed before NewFileWriterWithName opens
// it (which appends to an existing file)?  Is the rename the last step, after an fsyncing Close?
// Do the triggers and the CLI go through the bodies the model describes?

import (
	"go/ast"
	"strings"
)

func c03RenameAfterClose(s *c02Src) (Tri, string) {
	if s.c == nil {
		return Unknown, ""
	}
	res := Yes
	where := ""
	for _, fn := range [][2]string{{"Compactor", "Compact"}, {"", "CompactFromIndex"}} {
		fd := s.c.Func(fn[0], fn[1])
		if fd == nil || fd.Body == nil {
			return Unknown, c02Compact
		}
		ci, cc := c02UncondIdx(s.c, fd, c02Named("writer.Close"))
		ri, rc := c02UncondIdx(s.c, fd, c02Named("os.Rename"))
		if ci < 0 || ri < 0 {
			return Unknown, c02Where(s.c, fd)
		}
		// the rename must move the temp over the file
		if len(rc.Args) != 2 || !strings.Contains(strings.ToLower(s.c.Str(rc.Args[0])), "temp") {
			return Unknown, c02Where(s.c, rc)
		}
		lastWrite := c02LastAnyIdx(s.c, fd, func(fn string, c *ast.CallExpr) bool {
			return strings.HasPrefix(fn, "writer.") && fn != "writer.Close"
		})
		where = c02Where(s.c, rc)
		if !(ci < ri && lastWrite < ci) {
			res = No
			where = c02Where(s.c, cc)
			break
		}
	}
	return res, where
}

// the only compaction bodies reachable from the chronicler: runCompactionLocked (through
// maybeCompactInline from Write/Close, and ForceCompaction) and CompactFromIndex from Load
func c03Triggers(s *c02Src) (locked Tri, fromIndex Tri, where string) {
	if s.ch == nil {
		return Unknown, Unknown, ""
	}
	get := func(n string) *ast.FuncDecl { return s.ch.Func("chroniclerV2", n) }
	rcl, mci, fc, wr, cl, ld := get("runCompactionLocked"), get("maybeCompactInline"), get("ForceCompaction"), get("Write"), get("Close"), get("Load")
	if rcl == nil || mci == nil || fc == nil || wr == nil || cl == nil || ld == nil {
		return Unknown, Unknown, c02Chron
	}
	// who constructs compactors / calls CompactFromIndex in this file
	locked, fromIndex = Yes, Yes
	for _, d := range s.ch.AST.Decls {
		fd, ok := d.(*ast.FuncDecl)
		if !ok || fd.Body == nil {
			continue
		}
		if len(s.ch.Calls(fd, "v2.NewCompactor")) > 0 && fd != rcl {
			locked = No
			where = c02Where(s.ch, fd)
		}
		if len(s.ch.Calls(fd, "v2.CompactFromIndex")) > 0 && fd != ld {
			fromIndex = No
			where = c02Where(s.ch, fd)
		}
		if len(s.ch.Calls(fd, "v2.CompactDirectory")) > 0 {
			locked = No
			where = c02Where(s.ch, fd)
		}
	}
	cs := s.ch.Calls(rcl, "v2.NewCompactor")
	if len(cs) != 1 || len(s.ch.CallsSuffix(rcl, ".Compact")) != 1 {
		locked = Unknown
	}
	if len(s.ch.Calls(mci, "c.runCompactionLocked")) != 1 || len(s.ch.Calls(fc, "c.runCompactionLocked")) != 1 ||
		len(s.ch.Calls(wr, "c.maybeCompactInline")) != 1 || len(s.ch.Calls(cl, "c.maybeCompactInline")) != 1 {
		locked = Unknown
	}
	if len(s.ch.Calls(ld, "v2.CompactFromIndex")) != 1 {
		fromIndex = Unknown
	}
	if where == "" {
		where = c02Where(s.ch, rcl)
	}
	return
}

func c03CliOnlyCompactor(s *c02Src) (Tri, string) {
	if s.cli == nil {
		return Unknown, ""
	}
	fd := s.cli.Func("", "compactSwamp")
	if fd == nil {
		return Unknown, c02CliCompt
	}
	ok := true
	n := 0
	ast.Inspect(fd.Body, func(x ast.Node) bool {
		c, isCall := x.(*ast.CallExpr)
		if !isCall {
			return true
		}
		fn := s.cli.Str(c.Fun)
		switch {
		case fn == "v2.NewCompactor":
			n++
		case fn == "compactor.Compact", fn == "compactor.ShouldCompact":
		case strings.HasPrefix(fn, "v2.") || strings.HasPrefix(fn, "os."):
			ok = false
		}
		return true
	})
	if n != 1 {
		return Unknown, c02Where(s.cli, fd)
	}
	return TriOf(ok), c02Where(s.cli, fd)
}

// in both compaction bodies a failing writer.Close() (its flush or fsync failed) must abort before the rename
func c03CloseErrorAborts(s *c02Src) (Tri, string) {
	if s.c == nil {
		return Unknown, ""
	}
	where := ""
	for _, fn := range [][2]string{{"Compactor", "Compact"}, {"", "CompactFromIndex"}} {
		fd := s.c.Func(fn[0], fn[1])
		if fd == nil || fd.Body == nil {
			return Unknown, c02Compact
		}
		found := false
		for _, st := range fd.Body.List {
			ifs, ok := st.(*ast.IfStmt)
			if !ok || ifs.Init == nil || s.c.Str(ifs.Init) != "err := writer.Close()" || s.c.Str(ifs.Cond) != "err != nil" {
				continue
			}
			found = true
			where = c02Where(s.c, ifs)
			n := len(ifs.Body.List)
			if n == 0 {
				return No, where
			}
			if _, isRet := ifs.Body.List[n-1].(*ast.ReturnStmt); !isRet {
				return No, where
			}
		}
		if !found {
			return Unknown, c02Where(s.c, fd)
		}
	}
	return Yes, where
}

func c03Facts(fs *Facts, s *c02Src) {
	var fdL, fdI, fdC *ast.FuncDecl
	if s.ch != nil {
		fdL = s.ch.Func("chroniclerV2", "runCompactionLocked")
	}
	if s.c != nil {
		fdI = s.c.Func("", "CompactFromIndex")
		fdC = s.c.Func("Compactor", "Compact")
	}
	t, w := c02RemovesTempBefore(s.ch, fdL, c02Named("v2.NewCompactor"))
	fs.Tri("rmTempLocked", t, w)
	t, w = c02RemovesTempBefore(s.c, fdI, c02Named("NewFileWriterWithName"))
	fs.Tri("rmTempFromIndex", t, w)
	t, w = c02RemovesTempBefore(s.c, fdC, c02Named("NewFileWriterWithName"))
	fs.Tri("rmTempCompactor", t, w)
	t, w = c02LoadCleansTemp(s)
	fs.Tri("loadCleansTemp", t, w)
	ap, _, w := c02OpensExistingForAppend(s)
	fs.Tri("opensExistingForAppend", ap, w)
	t, w = c02WriterFsyncs(s, "Close")
	fs.Tri("closeFsyncs", t, w)
	t, w = c03RenameAfterClose(s)
	fs.Tri("renameAfterClose", t, w)
	t, w = c03CloseErrorAborts(s)
	fs.Tri("closeErrorAborts", t, w)
	t, w = c02FlushOrderCanonical(s)
	fs.Tri("flushOrderCanonical", t, w)
	t, w = c03CliOnlyCompactor(s)
	fs.Tri("cliUsesCompactorOnly", t, w)
	l, i, w := c03Triggers(s)
	fs.Tri("triggersUseLocked", l, w)
	fs.Tri("loadUsesFromIndex", i, w)
	sh, td, w := c02ReaderFacts(s)
	fs.Tri("shortHeaderIsEOF", sh, w)
	fs.Tri("tornDataIsEOF", td, w)
	_, tr, w := c02OpensExistingForAppend(s)
	fs.Tri("truncatesTornTail", tr, w)
	t, w = c25FlushesAtCountBound(s)
	fs.Tri("flushesAtCountBound", t, w)
	t, w = c03LockedClosesWriterFirst(s)
	fs.Tri("lockedClosesWriterFirst", t, w)
	t, w = c03CliAbortsWhenStopFails(s)
	fs.Tri("cliAbortsWhenStopFails", t, w)
	t, w = c03WrappersDelegate(s)
	fs.Tri("wrappersDelegate", t, w)
	t, w = c02ZeroTailIsEOF(s)
	fs.Tri("zeroTailIsEOF", t, w)
	c25ReaderAssumptions(fs, s)
}

// runCompactionLocked closes the chronicler's writer first, whenever one is open (whatever its buffer holds):
//   `if c.writer != nil && !c.writerClosed { if err := c.writer.Close(); err != nil { return err } c.writerClosed = true c.writer = nil }`
// as the first statement, in front of NewCompactor.
func c03LockedClosesWriterFirst(s *c02Src) (Tri, string) {
	if s.ch == nil {
		return Unknown, ""
	}
	fd := s.ch.Func("chroniclerV2", "runCompactionLocked")
	if fd == nil || len(fd.Body.List) == 0 {
		return Unknown, c02Chron
	}
	where := c02Where(s.ch, fd)
	ifs, ok := fd.Body.List[0].(*ast.IfStmt)
	if !ok || !strings.Contains(s.ch.Str(ifs.Body), "c.writer.Close()") {
		return Unknown, where
	}
	body := s.ch.Str(ifs.Body)
	if s.ch.Str(ifs.Cond) == "c.writer != nil && !c.writerClosed" && strings.Contains(body, "c.writer = nil") &&
		strings.Contains(body, "c.writerClosed = true") {
		return Yes, c02Where(s.ch, ifs)
	}
	return Unknown, c02Where(s.ch, ifs)
}

// hydraidectl compact goes on only when the instance is known not to run: a StopInstance error other than
// ErrServiceNotRunning / ErrServiceNotFound ends the command (the model's offline compaction needs no writer open).
func c03CliAbortsWhenStopFails(s *c02Src) (Tri, string) {
	if s.cli == nil {
		return Unknown, ""
	}
	var stop *ast.IfStmt
	ast.Inspect(s.cli.AST, func(n ast.Node) bool {
		if ifs, ok := n.(*ast.IfStmt); ok && ifs.Init != nil && strings.Contains(s.cli.Str(ifs.Init), "runner.StopInstance(ctx, compactInstanceName)") {
			stop = ifs
		}
		return true
	})
	if stop == nil {
		return Unknown, c02CliCompt
	}
	where := c02Where(s.cli, stop)
	body := s.cli.Str(stop.Body)
	if !strings.Contains(body, "os.Exit(") && !strings.Contains(body, "return") {
		return No, where // every error is taken for "was not running"
	}
	for _, st := range stop.Body.List {
		g, ok := st.(*ast.IfStmt)
		if !ok {
			continue
		}
		c := s.cli.Str(g.Cond)
		if strings.Contains(c, "!errors.Is(err, instancerunner.ErrServiceNotRunning)") && !strings.Contains(c, "||") &&
			strings.HasSuffix(s.cli.Str(g.Body), "os.Exit(1) }") {
			return Yes, where
		}
	}
	return Unknown, where
}

// The other entries of the compactor are Compactor.Compact on one file, or nothing:
//   CompactIfNeeded: ShouldCompact, then `return c.Compact()`;  ForceCompact: `return c.Compact()`;
//   CompactDirectory: for every *.hyd of the directory NewCompactor(...).CompactIfNeeded(), no file operation of its own.
func c03WrappersDelegate(s *c02Src) (Tri, string) {
	if s.c == nil {
		return Unknown, ""
	}
	cin, fc, cd := s.c.Func("Compactor", "CompactIfNeeded"), s.c.Func("Compactor", "ForceCompact"), s.c.Func("", "CompactDirectory")
	if cin == nil || fc == nil || cd == nil {
		return Unknown, c02Compact
	}
	where := c02Where(s.c, cd)
	effect := func(fd *ast.FuncDecl) bool {
		for _, bad := range []string{"os.Remove", "os.Rename", "os.WriteFile", "os.Create", "os.OpenFile", "os.Truncate", "NewFileWriter", "CompactFromIndex"} {
			if s.c.Contains(fd, bad+"(") {
				return true
			}
		}
		return false
	}
	last := func(fd *ast.FuncDecl) string { return s.c.Str(fd.Body.List[len(fd.Body.List)-1]) }
	okIf := len(s.c.Calls(cin, "c.Compact")) == 1 && last(cin) == "return c.Compact()" && len(s.c.Calls(cin, "c.ShouldCompact")) == 1 && !effect(cin)
	okForce := len(s.c.Calls(fc, "c.Compact")) == 1 && last(fc) == "return c.Compact()" && !effect(fc)
	okDir := len(s.c.Calls(cd, "NewCompactor")) == 1 && len(s.c.Calls(cd, "compactor.CompactIfNeeded")) == 1 && !effect(cd) &&
		s.c.Contains(cd, `filepath.Ext(entry.Name()) != ".hyd"`)
	if okIf && okForce && okDir {
		return Yes, where
	}
	return Unknown, where
}

func init() {
	Register("C03", Extractor{Import: "Hv.Props.C03", Type: "Hv.C03.Facts", Run: func(fs *Facts) {
		c03Facts(fs, c02Load(fs))
	}})
}
