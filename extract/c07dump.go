package main

import (
	"fmt"
	"os"
	"strings"
)

// EXTRACT_DUMP_LOCALS=file:recv:func,... prints the declared locals of functions (maintenance aid
// for the reference name lists).
func init() {
	spec := os.Getenv("EXTRACT_DUMP_LOCALS")
	if spec == "" {
		return
	}
	Register("DUMP", Extractor{Import: "", Type: "", Run: func(fs *Facts) {
		for _, it := range strings.Split(spec, ",") {
			p := strings.Split(it, ":")
			f, err := Load(p[0])
			if err != nil {
				continue
			}
			fd := f.Func(p[1], p[2])
			if fd == nil {
				fmt.Fprintln(os.Stderr, "nofunc", it)
				continue
			}
			fmt.Fprintf(os.Stderr, "%q: {\"%s\"},\n", p[2], strings.Join(c07LocalNames(fd), "\", \""))
		}
	}})
}
