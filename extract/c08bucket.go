package main

import (
	"go/ast"
	"os"
	"path/filepath"
	"strings"
)

// C08, the field bucket as state: which mutation paths tell the buckets, and the shape of the
// bucket's life cycle.
//
//	SaveFunction, new key:       … s.beaconKey.Add(t) … s.notifyBucketsInsert(t)            (top level of the branch)
//	SaveFunction, modified key:  … s.notifyBucketsUpdate(t)                                  (top level of the branch)
//	deleteHandler:               … s.beaconKey.Delete(key) … s.notifyBucketsDelete(key)      (top level)
//	DrainPending:                replays PendingInsert / PendingUpdate / PendingDelete, then clears buildInFlight
//	GetOrBuildBucket:            publish with SetBuildInFlight(true) → CloneUnorderedTreasures → BuildEquality → DrainPending
const c08SwampBucket = "app/core/hydra/swamp/swamp_bucket.go"

// topLevelCall: is `call` a statement of block b itself (Yes), only somewhere deeper (Unknown), nowhere (No)?
func c08TopLevel(f *File, b *ast.BlockStmt, call string) Tri {
	if b == nil {
		return Unknown
	}
	for _, st := range b.List {
		if f.Str(st) == call {
			return Yes
		}
	}
	if f.Contains(b, call) {
		return Unknown
	}
	// "no" needs a closed world: the notification is called nowhere in the package (else it may have moved into a helper)
	if c08CalledInPackage(filepath.Dir(f.Path), call[:strings.Index(call, "(")+1]) {
		return Unknown
	}
	return No
}

// is `prefix` (e.g. "s.notifyBucketsDelete(") written anywhere in the non-test files of dir?
func c08CalledInPackage(dir, prefix string) bool {
	ents, err := os.ReadDir(filepath.Join(repoRoot, dir))
	if err != nil {
		return true
	}
	for _, e := range ents {
		nm := e.Name()
		if e.IsDir() || !strings.HasSuffix(nm, ".go") || strings.HasSuffix(nm, "_test.go") {
			continue
		}
		src, err := os.ReadFile(filepath.Join(repoRoot, dir, nm))
		if err != nil || strings.Contains(string(src), prefix) {
			return true
		}
	}
	return false
}

func c08Track(fs *Facts) {
	const swampGo = "app/core/hydra/swamp/swamp.go"
	if f, err := Load(swampGo); err != nil {
		fs.Err("%v", err)
	} else {
		if f, fd := c07Inlined(f, "swamp", "SaveFunction", c07SaveVocabulary...); fd != nil {
			c07Canon(fd, []string{"s", "t", "guardID", "existedTreasureObj", "wi", "inMem", "wi", "inMem"})
			for _, st := range fd.Body.List {
				ifs, ok := st.(*ast.IfStmt)
				if !ok {
					continue
				}
				switch {
				case f.Str(ifs.Cond) == "existedTreasureObj == nil":
					fs.Tri("bucketNotifyInsert", c08TopLevel(f, ifs.Body, "s.notifyBucketsInsert(t)"), c08At(swampGo, f, ifs))
					// the order of the two statements inside the branch: beaconKey.Add, then the notification
					add, told := -1, -1
					for n, st := range ifs.Body.List {
						switch f.Str(st) {
						case "s.beaconKey.Add(t)":
							add = n
						case "s.notifyBucketsInsert(t)":
							told = n
						}
					}
					if add >= 0 && told >= 0 {
						fs.Tri("bucketNotifyAfterAdd", TriOf(told > add), c08At(swampGo, f, ifs))
					}
				case strings.HasPrefix(f.Str(ifs.Cond), "t.IsContentChanged() || t.IsContentTypeChanged() || t.IsExpirationTimeChanged()"):
					fs.Tri("bucketNotifyUpdate", c08TopLevel(f, ifs.Body, "s.notifyBucketsUpdate(t)"), c08At(swampGo, f, ifs))
				}
			}
		}
		// every function that takes a record out of beaconKey tells the buckets afterwards, at the same block level
		// (deleteHandler itself, or the function it delegates to)
		verdict, at := Unknown, ""
		for _, d := range f.AST.Decls {
			fd, ok := d.(*ast.FuncDecl)
			if !ok || fd.Body == nil || !f.Contains(fd.Body, "s.beaconKey.Delete(") {
				continue
			}
			del, told, keyArg := -1, -1, ""
			for n, st := range fd.Body.List {
				src := f.Str(st)
				if strings.HasPrefix(src, "s.beaconKey.Delete(") && strings.HasSuffix(src, ")") && del < 0 {
					del, keyArg = n, src[len("s.beaconKey.Delete("):len(src)-1]
				}
				if del >= 0 && src == "s.notifyBucketsDelete("+keyArg+")" {
					told = n
				}
			}
			one := Unknown
			switch {
			case del >= 0 && told > del:
				one = Yes
			case del >= 0 && !c08CalledInPackage(filepath.Dir(swampGo), "s.notifyBucketsDelete("):
				one = No // (called nowhere in the package; anything else that is not the known shape is "unknown")
			}
			if at == "" || one != Yes {
				at = c08At(swampGo, f, fd)
			}
			if verdict == Unknown && at != "" && one == Yes && told >= 0 {
				verdict = Yes
			}
			if one != Yes {
				verdict = one
				break
			}
		}
		// deleteHandler must be (or reach) such a function
		if dh := f.Func("swamp", "deleteHandler"); dh == nil || !(f.Contains(dh.Body, "s.beaconKey.Delete(") || f.Contains(dh.Body, "s.deleteHandlerIf(key, shadowDelete, nil)")) {
			verdict = Unknown
		}
		// …and swamp.go is the only file of the package that takes records out of beaconKey
		if ents, err := os.ReadDir(filepath.Join(repoRoot, "app/core/hydra/swamp")); err != nil {
			verdict = Unknown
		} else {
			for _, e := range ents {
				nm := e.Name()
				if e.IsDir() || !strings.HasSuffix(nm, ".go") || strings.HasSuffix(nm, "_test.go") || nm == "swamp.go" {
					continue
				}
				if src, err := os.ReadFile(filepath.Join(repoRoot, "app/core/hydra/swamp", nm)); err != nil || strings.Contains(string(src), "beaconKey.Delete(") {
					verdict = Unknown
				}
			}
		}
		fs.Tri("bucketNotifyDelete", verdict, at)
	}
	std := true
	fb, err := Load(c08Bucket)
	if err != nil {
		fs.Err("%v", err)
		return
	}
	drain := c07Body(fb, "bucket", "DrainPending")
	enq := c07Body(fb, "bucket", "tryEnqueue")
	buffers := c07InOrder(enq, "if b.buildInFlight.Load() != 1 { return false }", "b.pending = append(b.pending, op)", "return true")
	loop := c07InOrder(drain, "for {", "if len(b.pending) == 0 { b.buildInFlight.Store(0)", "return nil }", "ops := b.pending", "b.pending = nil",
		"for _, op := range ops { switch op.Kind {")
	replays := c07InOrder(drain, "case PendingInsert, PendingUpdate:", "insertOrUpdateLocked(b, op.T.GetKey(), k, op.T)", "case PendingDelete: deleteLocked(b, op.Key)")
	if fd := fb.Func("bucket", "DrainPending"); fd != nil {
		switch {
		case buffers && loop && replays:
			fs.Tri("bucketPendingReplayed", Yes, c08At(c08Bucket, fb, fd))
		case buffers && !strings.Contains(drain, "range ops") && !strings.Contains(drain, "range b.pending") && !strings.Contains(drain, "insertOrUpdateLocked") && !strings.Contains(drain, "deleteLocked"):
			// the buffer is emptied without anything walking over it
			fs.Tri("bucketPendingReplayed", No, c08At(c08Bucket, fb, fd))
		}
	}
	for _, nm := range []string{"OnInsert", "OnUpdate"} {
		kind := map[string]string{"OnInsert": "PendingInsert", "OnUpdate": "PendingUpdate"}[nm]
		std = std && c07InOrder(c07Body(fb, "bucket", nm),
			"if b.tryEnqueue(PendingOp{Kind: "+kind+", T: t}) { return nil }", "if !b.EqualityInitialized() { return nil }",
			"k, ok := extractKey(t, b.fieldPath) if !ok { k = valuecanon.NullKey } insertOrUpdateLocked(b, t.GetKey(), k, t)")
	}
	std = std && c07InOrder(c07Body(fb, "bucket", "OnDelete"),
		"if b.tryEnqueue(PendingOp{Kind: PendingDelete, Key: key}) { return }", "if !b.EqualityInitialized() { return }", "deleteLocked(b, key)")
	std = std && c07InOrder(c07Body(fb, "bucket", "BuildEquality"),
		"for key, t := range snapshot { k, ok := extractKey(t, b.fieldPath) if !ok { k = valuecanon.NullKey } insertLocked(b, key, k, t) }", "b.equalityInit.Store(1)")
	std = std && c07InOrder(c07Body(fb, "", "insertOrUpdateLocked"),
		"if oldKey, exists := b.byKey[treasureKey]; exists { if oldKey == newKey { b.byValue[oldKey][treasureKey] = t return } removeFromSlotLocked(b, oldKey, treasureKey) }",
		"insertLocked(b, treasureKey, newKey, t)")
	std = std && c07InOrder(c07Body(fb, "", "deleteLocked"),
		"oldKey, exists := b.byKey[treasureKey] if !exists { return } removeFromSlotLocked(b, oldKey, treasureKey) delete(b.byKey, treasureKey)")
	std = std && c07InOrder(c07Body(fb, "", "insertLocked"), "slot[treasureKey] = t b.byKey[treasureKey] = valueKey")
	std = std && c07InOrder(c07Body(fb, "", "extractKey"), "body, err := t.GetContentByteArray()")
	where := c08Bucket
	if fsb, err := Load(c08SwampBucket); err != nil {
		std = false
	} else {
		gob := c07Body(fsb, "swamp", "GetOrBuildBucket")
		const publish = "b, exists := s.buckets[fieldPath] if !exists { b = bucket.New(fieldPath) b.SetBuildInFlight(true) s.buckets[fieldPath] = b }"
		// a reader takes a bucket that is EqualityInitialized as it is …
		asIs := c07InOrder(gob, "if b, ok := s.buckets[fieldPath]; ok && b.EqualityInitialized() { s.bucketsMu.RUnlock() return b }", publish,
			"if !b.EqualityInitialized() { snapshot := s.beaconKey.CloneUnorderedTreasures(false) _ = b.BuildEquality(snapshot) _ = b.DrainPending() } return b")
		// … or only once no build is in flight, draining the buffer itself otherwise (drains are serialised)
		drains := c07InOrder(gob, "if b, ok := s.buckets[fieldPath]; ok && b.EqualityInitialized() && !b.BuildInFlight() { s.bucketsMu.RUnlock() return b }", publish,
			"if !b.EqualityInitialized() { snapshot := s.beaconKey.CloneUnorderedTreasures(false) _ = b.BuildEquality(snapshot) } if b.BuildInFlight() { _ = b.DrainPending() } return b") &&
			strings.HasPrefix(drain, "{ b.drainMu.Lock() defer b.drainMu.Unlock() for {")
		if fd := fsb.Func("swamp", "GetOrBuildBucket"); fd != nil {
			if asIs {
				fs.Tri("readerDrainsInFlight", No, c08At(c08SwampBucket, fsb, fd))
			} else if drains {
				fs.Tri("readerDrainsInFlight", Yes, c08At(c08SwampBucket, fsb, fd))
			}
		}
		std = std && (asIs || drains)
		for nm, call := range map[string]string{"notifyBucketsInsert": "_ = b.OnInsert(t)", "notifyBucketsUpdate": "_ = b.OnUpdate(t)", "notifyBucketsDelete": "b.OnDelete(key)"} {
			std = std && c07InOrder(c07Body(fsb, "swamp", nm), "for _, b := range s.buckets { bs = append(bs, b) }", "for _, b := range bs { "+call+" }")
		}
		if fd := fsb.Func("swamp", "GetOrBuildBucket"); fd != nil {
			where = c08At(c08SwampBucket, fsb, fd)
		}
	}
	if std { // (a shape that is not found is "unknown", never "no")
		fs.Tri("bucketLifecycleStandard", Yes, where)
	}
}
