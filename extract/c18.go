package main

import (
	"go/ast"
	"strings"
)

// C18: shape of SummonSwamp's wait-slot bookkeeping in app/core/hydra/hydra.go.

const c18HydraPath = "app/core/hydra/hydra.go"

func init() {
	Register("C18", Extractor{Import: "Hv.Props.C18", Type: "Hv.C18.Facts", Run: func(fs *Facts) {
		names := []string{"lookupLoadOrStore", "enterUnderCondLock", "everyEntrantCounts", "leaveShape", "decDeleteAtomic", "exitRechecksClosing", "createInsideOnly", "callbackCompares"}
		f, err := Load(c18HydraPath)
		if err != nil {
			fs.Err("%v", err)
			for _, n := range names {
				fs.Tri(n, Unknown, c18HydraPath)
			}
			return
		}
		fn := f.Func("hydra", "SummonSwamp")
		cb := f.Func("hydra", "closeEventCallbackFunction")
		if fn == nil {
			for _, n := range names {
				fs.Tri(n, Unknown, c18HydraPath)
			}
			return
		}
		where := c14Where(f, fn)
		top := c17Plain(f, fn.Body.List)
		idx := func(text string) int { return c17Index(f, top, text) }

		look := idx("result, _ := h.summoningSwamps.LoadOrStore(swampName.Get(), newSwampWaiter())")
		cast := idx("waiter, _ := result.(*SwampWaiter)")
		fs.Tri("lookupLoadOrStore", TriOf(look >= 0 && cast == look+1 && len(f.CallsSuffix(fn, "summoningSwamps.LoadOrStore")) == 1 &&
			len(f.CallsSuffix(f.AST, "summoningSwamps.Store")) == 0), where)

		isInc := func(st ast.Stmt) bool {
			s := f.Str(st)
			return s == "atomic.AddInt32(&waiter.count, 1)" || s == "waiter.count++"
		}
		isDec := func(st ast.Stmt) bool {
			s := f.Str(st)
			return s == "atomic.AddInt32(&waiter.count, -1)" || s == "waiter.count--"
		}
		isZeroDelete := func(st ast.Stmt) bool {
			is, ok := st.(*ast.IfStmt)
			if !ok || is.Else != nil {
				return false
			}
			c := f.Str(is.Cond)
			if c != "atomic.LoadInt32(&waiter.count) == 0" && c != "waiter.count == 0" {
				return false
			}
			ib := c17Plain(f, is.Body.List)
			return len(ib) == 1 && f.Str(ib[0]) == "h.summoningSwamps.Delete(swampName.Get())"
		}
		// counted lookup: <mu>.Lock(); LoadOrStore; cast; count++; <mu>.Unlock()   (one mutex of the hydra)
		countedLookup, lookupMu := false, ""
		if look >= 1 && cast+2 < len(top) {
			l := f.Str(top[look-1])
			if strings.HasPrefix(l, "h.") && strings.HasSuffix(l, ".Lock()") && isInc(top[cast+1]) &&
				f.Str(top[cast+2]) == strings.TrimSuffix(l, ".Lock()")+".Unlock()" {
				countedLookup, lookupMu = true, strings.TrimSuffix(l, ".Lock()")
			}
		}
		// the release closure: <mu>.Lock(); count--; if count == 0 { Delete }; <mu>.Unlock()  under the same mutex
		releaseName := ""
		for _, st := range top {
			as, ok := st.(*ast.AssignStmt)
			if !ok || len(as.Lhs) != 1 || len(as.Rhs) != 1 {
				continue
			}
			fl, ok := as.Rhs[0].(*ast.FuncLit)
			if !ok {
				continue
			}
			b := c17Plain(f, fl.Body.List)
			if len(b) == 4 && lookupMu != "" && f.Str(b[0]) == lookupMu+".Lock()" && isDec(b[1]) && isZeroDelete(b[2]) && f.Str(b[3]) == lookupMu+".Unlock()" {
				releaseName = f.Str(as.Lhs[0])
			}
		}
		isRelease := func(st ast.Stmt) bool { return releaseName != "" && f.Str(st) == releaseName+"()" }

		// enter: Lock; for waiter.ready { select { ctx.Done: Broadcast; Unlock; [release();] return | default: [count++;] Wait } }; ready = true; Unlock
		lock := idx("waiter.cond.L.Lock()")
		enterOK, loopCounts, giveUpReleases := false, false, false
		incTotal := 0
		ast.Inspect(fn, func(n ast.Node) bool {
			if st, ok := n.(ast.Stmt); ok && (isInc(st)) {
				if _, isExpr := st.(*ast.ExprStmt); isExpr {
					incTotal++
				} else if _, isIncDec := st.(*ast.IncDecStmt); isIncDec {
					incTotal++
				}
			}
			return true
		})
		if lock >= 0 && lock+3 < len(top) {
			if loop, ok := top[lock+1].(*ast.ForStmt); ok && loop.Init == nil && loop.Post == nil && f.Str(loop.Cond) == "waiter.ready" {
				body := c17Plain(f, loop.Body.List)
				if len(body) == 1 {
					if sel, ok := body[0].(*ast.SelectStmt); ok {
						okDone, okDefault := false, false
						for _, cl := range sel.Body.List {
							cc := cl.(*ast.CommClause)
							b := c17Plain(f, cc.Body)
							if cc.Comm != nil && f.Str(cc.Comm) == "<-ctx.Done()" {
								if len(b) == 3 && f.Str(b[0]) == "waiter.cond.Broadcast()" && f.Str(b[1]) == "waiter.cond.L.Unlock()" &&
									strings.HasPrefix(f.Str(b[2]), "return nil, ctx.Err()") {
									okDone = true
								}
								if len(b) == 4 && f.Str(b[0]) == "waiter.cond.Broadcast()" && f.Str(b[1]) == "waiter.cond.L.Unlock()" &&
									isRelease(b[2]) && strings.HasPrefix(f.Str(b[3]), "return nil, ctx.Err()") {
									okDone, giveUpReleases = true, true
								}
							}
							if cc.Comm == nil {
								if len(b) == 2 && isInc(b[0]) && f.Str(b[1]) == "waiter.cond.Wait()" {
									okDefault, loopCounts = true, true
								}
								if len(b) == 1 && f.Str(b[0]) == "waiter.cond.Wait()" {
									okDefault = true
								}
							}
						}
						enterOK = okDone && okDefault && f.Str(top[lock+2]) == "waiter.ready = true" && f.Str(top[lock+3]) == "waiter.cond.L.Unlock()"
					}
				}
			}
		}
		fs.Tri("enterUnderCondLock", TriOf(enterOK), where)
		counts := Unknown
		switch {
		case enterOK && incTotal == 1 && loopCounts && !countedLookup:
			counts = No // only waiters count themselves
		case enterOK && incTotal == 1 && !loopCounts && countedLookup && giveUpReleases:
			counts = Yes // every entrant counts itself atomically with the lookup, every exit gives it back
		}
		fs.Tri("everyEntrantCounts", counts, where)

		// deferred block: Lock; ready = false; Broadcast; Unlock; then (AddInt32(-1); if == 0 { Delete }) | release()
		leave, atomicDel, recheck := Unknown, Unknown, Unknown
		// the optional last statement of the deferred exit: an instance that is closing is not handed out
		isRecheck := func(st ast.Stmt) bool {
			is, ok := st.(*ast.IfStmt)
			if !ok || is.Else != nil || !strings.Contains(f.Str(is.Cond), "swampObj.IsClosing()") || !strings.Contains(f.Str(is.Cond), "err == nil") {
				return false
			}
			again := false
			ast.Inspect(is.Body, func(n ast.Node) bool {
				if as, ok := n.(*ast.AssignStmt); ok && f.Str(as) == "swampObj, err = h.SummonSwamp(ctx, islandID, swampName)" {
					again = true
				}
				return true
			})
			return again
		}
		for _, st := range top {
			d, ok := st.(*ast.DeferStmt)
			if !ok {
				continue
			}
			fl, ok := d.Call.Fun.(*ast.FuncLit)
			if !ok {
				continue
			}
			b := c17Plain(f, fl.Body.List)
			head := len(b) >= 5 &&
				f.Str(b[0]) == "waiter.cond.L.Lock()" && f.Str(b[1]) == "waiter.ready = false" &&
				f.Str(b[2]) == "waiter.cond.Broadcast()" && f.Str(b[3]) == "waiter.cond.L.Unlock()"
			switch {
			case head && len(b) == 6 && isDec(b[4]) && isZeroDelete(b[5]):
				leave, atomicDel, recheck = Yes, No, No // two separate atomic operations, no lock shared with the lookup
			case head && len(b) == 5 && isRelease(b[4]):
				leave, atomicDel, recheck = Yes, Yes, No
			case head && len(b) == 6 && isRelease(b[4]) && isRecheck(b[5]):
				leave, atomicDel, recheck = Yes, Yes, Yes
			default:
				leave = No
			}
		}
		fs.Tri("leaveShape", leave, where)
		fs.Tri("decDeleteAtomic", atomicDel, where)
		fs.Tri("exitRechecksClosing", recheck, where)

		// create/store only inside, after ready = true
		creates := f.Calls(f.AST, "h.createNewSwamp")
		stores := f.CallsSuffix(f.AST, "h.swamps.Store")
		inside := len(creates) == 1 && len(stores) == 1 && lock >= 0 && lock+3 < len(top) &&
			creates[0].Pos() > top[lock+3].End() && creates[0].End() < fn.End() &&
			stores[0].Pos() > creates[0].End() && stores[0].End() < fn.End()
		fs.Tri("createInsideOnly", TriOf(inside), where)

		// close callback: swamps.Delete(name) (by name) or a per-instance closure with CompareAndDelete(name, inst)
		cmp, whereCb := Unknown, where
		byName := false
		if cb != nil {
			whereCb = c14Where(f, cb)
			cbb := c17Plain(f, cb.Body.List)
			byName = len(cbb) == 1 && f.Str(cbb[0]) == "h.swamps.Delete(swampName.Get())"
		}
		cn := f.Func("hydra", "createNewSwamp")
		usesNamed, usesCompare := false, false
		if cn != nil {
			for _, c := range f.Calls(cn, "swamp.New") {
				for _, a := range c.Args {
					if f.Str(a) == "h.closeEventCallbackFunction" {
						usesNamed = true
					}
				}
			}
			ast.Inspect(cn, func(n ast.Node) bool {
				if fl, ok := n.(*ast.FuncLit); ok {
					for _, c := range f.CallsSuffix(fl, "h.swamps.CompareAndDelete") {
						if len(c.Args) == 2 {
							usesCompare = true
							whereCb = c14Where(f, c)
						}
					}
				}
				return true
			})
		}
		switch {
		case usesNamed && byName && !usesCompare:
			cmp = No
		case usesCompare && !usesNamed && len(f.CallsSuffix(f.AST, "h.swamps.Delete")) == 0:
			cmp = Yes
		}
		fs.Tri("callbackCompares", cmp, whereCb)
	}})
}
