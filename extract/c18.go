package main

import (
	"go/ast"
	"strings"
)

// C18: shape of SummonSwamp's wait-slot bookkeeping in app/core/hydra/hydra.go.

const c18HydraPath = "app/core/hydra/hydra.go"

func init() {
	Register("C18", Extractor{Import: "Hv.Props.C18", Type: "Hv.C18.Facts", Run: func(fs *Facts) {
		names := []string{"lookupLoadOrStore", "enterUnderCondLock", "everyEntrantCounts", "leaveShape", "decDeleteAtomic", "createInsideOnly", "callbackDeletes"}
		f, err := Load(c18HydraPath)
		if err != nil {
			fs.Err("%v", err)
			for _, n := range names {
				fs.Tri(n, Unknown, c18HydraPath)
			}
			return
		}
		fn := f.Func("hydra", "SummonSwamp")
		cb := f.Func("hydra", "closeEventCallbackFunction")
		if fn == nil || cb == nil {
			for _, n := range names {
				fs.Tri(n, Unknown, c18HydraPath)
			}
			return
		}
		where := c14Where(f, fn)
		top := c17Plain(f, fn.Body.List)
		idx := func(text string) int { return c17Index(f, top, text) }

		look := idx("result, _ := h.summoningSwamps.LoadOrStore(swampName.Get(), newSwampWaiter())")
		cast := idx("waiter, _ := result.(*SwampWaiter)")
		fs.Tri("lookupLoadOrStore", TriOf(look >= 0 && cast == look+1 && len(f.CallsSuffix(fn, "summoningSwamps.LoadOrStore")) == 1 &&
			len(f.CallsSuffix(f.AST, "summoningSwamps.Store")) == 0), where)

		// enter: Lock; for waiter.ready { select { ctx.Done: Broadcast; Unlock; return | default: count++; Wait } }; ready = true; Unlock
		lock := idx("waiter.cond.L.Lock()")
		enterOK := false
		incInLoop, incTotal := 0, 0
		ast.Inspect(fn, func(n ast.Node) bool {
			if c, ok := n.(*ast.CallExpr); ok && f.Str(c) == "atomic.AddInt32(&waiter.count, 1)" {
				incTotal++
			}
			return true
		})
		if lock >= 0 && lock+3 < len(top) {
			if loop, ok := top[lock+1].(*ast.ForStmt); ok && loop.Init == nil && loop.Post == nil && f.Str(loop.Cond) == "waiter.ready" {
				body := c17Plain(f, loop.Body.List)
				if len(body) == 1 {
					if sel, ok := body[0].(*ast.SelectStmt); ok {
						okDone, okDefault := false, false
						for _, cl := range sel.Body.List {
							cc := cl.(*ast.CommClause)
							b := c17Plain(f, cc.Body)
							if cc.Comm != nil && f.Str(cc.Comm) == "<-ctx.Done()" {
								okDone = len(b) == 3 && f.Str(b[0]) == "waiter.cond.Broadcast()" && f.Str(b[1]) == "waiter.cond.L.Unlock()" &&
									strings.HasPrefix(f.Str(b[2]), "return nil, ctx.Err()")
							}
							if cc.Comm == nil {
								okDefault = len(b) == 2 && f.Str(b[0]) == "atomic.AddInt32(&waiter.count, 1)" && f.Str(b[1]) == "waiter.cond.Wait()"
								if okDefault {
									incInLoop++
								}
							}
						}
						enterOK = okDone && okDefault && f.Str(top[lock+2]) == "waiter.ready = true" && f.Str(top[lock+3]) == "waiter.cond.L.Unlock()"
					}
				}
			}
		}
		fs.Tri("enterUnderCondLock", TriOf(enterOK && lock == cast+1), where)
		counts := Unknown
		if enterOK && incTotal == 1 && incInLoop == 1 {
			counts = No // only waiters count themselves
		}
		fs.Tri("everyEntrantCounts", counts, where)

		// deferred block
		leave := Unknown
		for _, st := range top {
			d, ok := st.(*ast.DeferStmt)
			if !ok {
				continue
			}
			fl, ok := d.Call.Fun.(*ast.FuncLit)
			if !ok {
				continue
			}
			b := c17Plain(f, fl.Body.List)
			ok = len(b) == 6 &&
				f.Str(b[0]) == "waiter.cond.L.Lock()" && f.Str(b[1]) == "waiter.ready = false" &&
				f.Str(b[2]) == "waiter.cond.Broadcast()" && f.Str(b[3]) == "waiter.cond.L.Unlock()" &&
				f.Str(b[4]) == "atomic.AddInt32(&waiter.count, -1)"
			if ok {
				is, isIf := b[5].(*ast.IfStmt)
				ok = isIf && f.Str(is.Cond) == "atomic.LoadInt32(&waiter.count) == 0" && is.Else == nil
				if ok {
					ib := c17Plain(f, is.Body.List)
					ok = len(ib) == 1 && f.Str(ib[0]) == "h.summoningSwamps.Delete(swampName.Get())"
				}
			}
			leave = TriOf(ok)
		}
		fs.Tri("leaveShape", leave, where)
		atomicDel := Unknown
		if leave == Yes {
			atomicDel = No // two separate atomic operations, no lock shared with the lookup
		}
		fs.Tri("decDeleteAtomic", atomicDel, where)

		// create/store only inside, after ready = true
		creates := f.Calls(f.AST, "h.createNewSwamp")
		stores := f.CallsSuffix(f.AST, "h.swamps.Store")
		inside := len(creates) == 1 && len(stores) == 1 && lock >= 0 && lock+3 < len(top) &&
			creates[0].Pos() > top[lock+3].End() && creates[0].End() < fn.End() &&
			stores[0].Pos() > creates[0].End() && stores[0].End() < fn.End()
		fs.Tri("createInsideOnly", TriOf(inside), where)

		cbb := c17Plain(f, cb.Body.List)
		fs.Tri("callbackDeletes", TriOf(len(cbb) == 1 && f.Str(cbb[0]) == "h.swamps.Delete(swampName.Get())"), c14Where(f, cb))
	}})
}
