package main

import (
	"go/ast"
	"go/token"
	"sort"
	"strconv"
	"strings"
)

// C13 wire facts:
//
//	opOrder, condOrder    the Go const blocks of msgpackpatch.OpKind / CondOp in iota order (first spec
//	                      `Name Type = iota`, the others bare names), as lists of model operators
//	protoOps, protoConds  PatchOp_Kind_name / PatchCondition_Op_name of hydraide.pb.go by number (0‥n-1)
//	wireConv              cast: gateway_patch.go converts by `msgpackpatch.OpKind(op.GetOp())` /
//	                      `msgpackpatch.CondOp(in.GetOperator())`;  castChecked: the same through a helper
//	                      that maps numbers outside 0‥255 to a value beyond both const blocks;  both RPC
//	                      handlers must go through the two converters and cast the status back.
const c13GatewayDir = "app/server/gateway/"
const c13PbGo = "sdk/go/hydraidego/hydraidepbgo/hydraide.pb.go"

var c13OpNames = map[string]string{"OpSet": ".set", "OpDelete": ".delete", "OpInc": ".inc", "OpAppend": ".append", "OpPrepend": ".prepend",
	"OpRemoveAt": ".removeAt", "OpRemoveVal": ".removeVal", "OpMerge": ".merge"}
var c13CondNames = map[string]string{"CondEqual": ".eq", "CondNotEqual": ".ne", "CondGreaterThan": ".gt", "CondGreaterThanOrEqual": ".ge",
	"CondLessThan": ".lt", "CondLessThanOrEqual": ".le", "CondExists": ".exists_", "CondNotExists": ".notExists"}
var c13ProtoOpNames = map[string]string{"SET": ".set", "DELETE": ".delete", "INC": ".inc", "APPEND": ".append", "PREPEND": ".prepend",
	"REMOVE_AT": ".removeAt", "REMOVE_VAL": ".removeVal", "MERGE": ".merge"}
var c13ProtoCondNames = map[string]string{"EQUAL": ".eq", "NOT_EQUAL": ".ne", "GREATER_THAN": ".gt", "GREATER_THAN_OR_EQUAL": ".ge",
	"LESS_THAN": ".lt", "LESS_THAN_OR_EQUAL": ".le", "EXISTS": ".exists_", "NOT_EXISTS": ".notExists"}

func c13List(fs *Facts, name string, items []string, ok bool, where string) {
	if !ok {
		fs.Raw(name, "none", "unknown", where)
		return
	}
	show := make([]string, len(items))
	for i, it := range items {
		show[i] = strings.TrimPrefix(it, ".")
	}
	fs.Raw(name, "(some ["+strings.Join(items, ", ")+"])", strings.Join(show, ","), where)
}

// the const block `Name Type = iota; Name; Name; …` of type typ
func c13IotaBlock(f *File, typ string, names map[string]string) ([]string, bool, int) {
	for _, d := range f.AST.Decls {
		gd, ok := d.(*ast.GenDecl)
		if !ok || gd.Tok != token.CONST || len(gd.Specs) == 0 {
			continue
		}
		first, ok := gd.Specs[0].(*ast.ValueSpec)
		if !ok || first.Type == nil || f.Str(first.Type) != typ {
			continue
		}
		if len(first.Values) != 1 || f.Str(first.Values[0]) != "iota" || len(first.Names) != 1 {
			return nil, false, f.Line(gd)
		}
		var out []string
		for _, sp := range gd.Specs {
			vs, ok := sp.(*ast.ValueSpec)
			if !ok || len(vs.Names) != 1 || (sp != gd.Specs[0] && (vs.Type != nil || len(vs.Values) != 0)) {
				return nil, false, f.Line(gd)
			}
			if m, ok := names[vs.Names[0].Name]; ok {
				out = append(out, m)
			} else {
				out = append(out, ".unknown")
			}
		}
		return out, true, f.Line(gd)
	}
	return nil, false, 0
}

// `var NAME = map[int32]string{0: "A", 1: "B", …}` with keys 0‥n-1
func c13NameTable(f *File, varName string, names map[string]string) ([]string, bool, int) {
	var lit *ast.CompositeLit
	line := 0
	ast.Inspect(f.AST, func(n ast.Node) bool {
		vs, ok := n.(*ast.ValueSpec)
		if !ok || len(vs.Names) != 1 || vs.Names[0].Name != varName || len(vs.Values) != 1 {
			return true
		}
		if cl, ok := vs.Values[0].(*ast.CompositeLit); ok {
			lit, line = cl, f.Line(vs)
		}
		return false
	})
	if lit == nil {
		return nil, false, 0
	}
	byNum := map[int]string{}
	for _, e := range lit.Elts {
		kv, ok := e.(*ast.KeyValueExpr)
		if !ok {
			return nil, false, line
		}
		k, ok1 := kv.Key.(*ast.BasicLit)
		v, ok2 := kv.Value.(*ast.BasicLit)
		if !ok1 || !ok2 || k.Kind != token.INT || v.Kind != token.STRING {
			return nil, false, line
		}
		n, err := strconv.Atoi(k.Value)
		s, err2 := strconv.Unquote(v.Value)
		if err != nil || err2 != nil {
			return nil, false, line
		}
		byNum[n] = s
	}
	var keys []int
	for k := range byNum {
		keys = append(keys, k)
	}
	sort.Ints(keys)
	var out []string
	for i, k := range keys {
		if k != i {
			return nil, false, line
		}
		if m, ok := names[byNum[k]]; ok {
			out = append(out, m)
		} else {
			out = append(out, ".unknown")
		}
	}
	return out, true, line
}

// is e `pkgType(inner)`; returns inner
func c13Conv(f *File, e ast.Expr, fun string) (ast.Expr, bool) {
	c, ok := e.(*ast.CallExpr)
	if !ok || len(c.Args) != 1 || f.Str(c.Fun) != fun {
		return nil, false
	}
	return c.Args[0], true
}

// the value of field `field` in the composite literal of type `typ` inside fd
func c13FieldValue(f *File, fd *ast.FuncDecl, typ, field string) ast.Expr {
	var out ast.Expr
	ast.Inspect(fd.Body, func(n ast.Node) bool {
		cl, ok := n.(*ast.CompositeLit)
		if !ok || cl.Type == nil || f.Str(cl.Type) != typ {
			return true
		}
		for _, e := range cl.Elts {
			if kv, ok := e.(*ast.KeyValueExpr); ok && f.Str(kv.Key) == field {
				out = kv.Value
			}
		}
		return true
	})
	return out
}

// helper `func name(v int32) uint8 { if v < 0 || v > 255 { return L }; return uint8(v) }` with 16 ≤ L ≤ 255
func c13RangeHelper(f *File, name string) bool {
	fd := f.Func("", name)
	if fd == nil || fd.Body == nil || len(fd.Body.List) != 2 || fd.Type.Params == nil || len(fd.Type.Params.List) != 1 ||
		len(fd.Type.Params.List[0].Names) != 1 || f.Str(fd.Type.Params.List[0].Type) != "int32" ||
		fd.Type.Results == nil || len(fd.Type.Results.List) != 1 || f.Str(fd.Type.Results.List[0].Type) != "uint8" {
		return false
	}
	v := fd.Type.Params.List[0].Names[0].Name
	is, ok1 := fd.Body.List[0].(*ast.IfStmt)
	ret, ok2 := fd.Body.List[1].(*ast.ReturnStmt)
	if !ok1 || !ok2 || is.Init != nil || is.Else != nil || len(is.Body.List) != 1 || len(ret.Results) != 1 {
		return false
	}
	or, ok := is.Cond.(*ast.BinaryExpr)
	if !ok || or.Op != token.LOR {
		return false
	}
	low, high := false, false
	for _, side := range []ast.Expr{or.X, or.Y} {
		b, ok := side.(*ast.BinaryExpr)
		if !ok {
			return false
		}
		id, ok1 := b.X.(*ast.Ident)
		lit, ok2 := b.Y.(*ast.BasicLit)
		if !ok1 || !ok2 || id.Name != v || lit.Kind != token.INT {
			return false
		}
		if b.Op == token.LSS && lit.Value == "0" {
			low = true
		}
		if b.Op == token.GTR && lit.Value == "255" {
			high = true
		}
	}
	r, ok := is.Body.List[0].(*ast.ReturnStmt)
	if !ok || len(r.Results) != 1 {
		return false
	}
	lit, ok := r.Results[0].(*ast.BasicLit)
	if !ok || lit.Kind != token.INT {
		return false
	}
	l, err := strconv.Atoi(lit.Value)
	if err != nil || l < 16 || l > 255 {
		return false
	}
	inner, ok := c13Conv(f, ret.Results[0], "uint8")
	if !ok {
		return false
	}
	id, ok := inner.(*ast.Ident)
	return low && high && ok && id.Name == v
}

func c13Wire(fs *Facts) {
	fa, err := Load(c13Dir + "apply.go")
	if err != nil {
		fs.Err("%v", err)
		c13List(fs, "opOrder", nil, false, c13Dir+"apply.go")
	} else {
		l, ok, line := c13IotaBlock(fa, "OpKind", c13OpNames)
		c13List(fs, "opOrder", l, ok, c13Dir+"apply.go:"+itoa(line))
	}
	fc, err := Load(c13Dir + "condition.go")
	if err != nil {
		fs.Err("%v", err)
		c13List(fs, "condOrder", nil, false, c13Dir+"condition.go")
	} else {
		l, ok, line := c13IotaBlock(fc, "CondOp", c13CondNames)
		c13List(fs, "condOrder", l, ok, c13Dir+"condition.go:"+itoa(line))
	}
	fp, err := Load(c13PbGo)
	if err != nil {
		fs.Err("%v", err)
		c13List(fs, "protoOps", nil, false, c13PbGo)
		c13List(fs, "protoConds", nil, false, c13PbGo)
	} else {
		l, ok, line := c13NameTable(fp, "PatchOp_Kind_name", c13ProtoOpNames)
		c13List(fs, "protoOps", l, ok, c13PbGo+":"+itoa(line))
		l, ok, line = c13NameTable(fp, "PatchCondition_Op_name", c13ProtoCondNames)
		c13List(fs, "protoConds", l, ok, c13PbGo+":"+itoa(line))
	}
	// the conversions
	const gp = c13GatewayDir + "gateway_patch.go"
	const gx = c13GatewayDir + "gateway_patch_expired.go"
	fg, err1 := Load(gp)
	fx, err2 := Load(gx)
	if err1 != nil || err2 != nil {
		fs.Err("%v %v", err1, err2)
		fs.Enum("wireConv", "unknown", gp)
		return
	}
	ops, cond := fg.Func("", "protoOpsToMsgpackpatchOps"), fg.Func("", "protoCondToMsgpackpatchCond")
	one, exp := fg.Func("", "patchTreasuresOneSwamp"), fx.Func("", "patchExpiredOneSwamp")
	if ops == nil || cond == nil || one == nil || exp == nil || ops.Body == nil || cond.Body == nil || one.Body == nil || exp.Body == nil {
		fs.Enum("wireConv", "unknown", gp)
		return
	}
	where := gp + ":" + itoa(fg.Line(cond))
	kind := c13FieldValue(fg, ops, "msgpackpatch.Op", "Kind")
	cop := c13FieldValue(fg, cond, "msgpackpatch.Condition", "Op")
	if kind == nil || cop == nil {
		fs.Enum("wireConv", "unknown", where)
		return
	}
	// every use of the two converters and of the status cast in the handlers
	used := len(fg.Calls(one.Body, "protoOpsToMsgpackpatchOps")) == 1 && len(fg.Calls(one.Body, "protoCondToMsgpackpatchCond")) == 1 &&
		len(fx.Calls(exp.Body, "protoOpsToMsgpackpatchOps")) == 1 && len(fx.Calls(exp.Body, "protoCondToMsgpackpatchCond")) == 1 &&
		fg.Contains(one.Body, "protoOpsToMsgpackpatchOps(patch.GetOps())") && fg.Contains(one.Body, "protoCondToMsgpackpatchCond(patch.GetCondition())") &&
		fx.Contains(exp.Body, "protoOpsToMsgpackpatchOps(in.GetOps())") && fx.Contains(exp.Body, "protoCondToMsgpackpatchCond(in.GetCondition())") &&
		fg.Contains(one.Body, "hydrapb.PatchResult_StatusCode(res.Status)") && fx.Contains(exp.Body, "hydrapb.PatchResult_StatusCode(e.Status)")
	ki, ok1 := c13Conv(fg, kind, "msgpackpatch.OpKind")
	ci, ok2 := c13Conv(fg, cop, "msgpackpatch.CondOp")
	if !used || !ok1 || !ok2 {
		fs.Enum("wireConv", "unknown", where)
		return
	}
	if fg.Str(ki) == "op.GetOp()" && fg.Str(ci) == "in.GetOperator()" {
		fs.Enum("wireConv", "cast", where)
		return
	}
	// msgpackpatch.OpKind(helper(int32(op.GetOp())))
	hk, okk := ki.(*ast.CallExpr)
	hc, okc := ci.(*ast.CallExpr)
	if okk && okc && len(hk.Args) == 1 && len(hc.Args) == 1 && fg.Str(hk.Fun) == fg.Str(hc.Fun) {
		a1, o1 := c13Conv(fg, hk.Args[0], "int32")
		a2, o2 := c13Conv(fg, hc.Args[0], "int32")
		if id, isId := hk.Fun.(*ast.Ident); isId && o1 && o2 && fg.Str(a1) == "op.GetOp()" && fg.Str(a2) == "in.GetOperator()" &&
			c13RangeHelper(fg, id.Name) {
			fs.Enum("wireConv", "castChecked", where)
			return
		}
	}
	fs.Enum("wireConv", "unknown", where)
}

// seedMapCheck   yes: inside `if opts.CreateIfNotExist { … }` PatchFields parses the seed into a variable and returns
//                PatchStatusTypeMismatch when `<var>.Kind != msgpackpatch.KindMap`;  no: the parse result is discarded
//                (`_, err := msgpackpatch.Parse(seed)`) and the block has no other statement;  unknown otherwise.
func c13SeedMap(fs *Facts) {
	const name = "seedMapCheck"
	const path = "app/core/hydra/swamp/swamp_patch.go"
	f, err := Load(path)
	if err != nil {
		fs.Err("%v", err)
		fs.Tri(name, Unknown, path)
		return
	}
	fd := f.Func("swamp", "PatchFields")
	if fd == nil || fd.Body == nil {
		fs.Tri(name, Unknown, path)
		return
	}
	var block *ast.IfStmt
	for _, st := range fd.Body.List {
		if is, ok := st.(*ast.IfStmt); ok && is.Init == nil && is.Else == nil && f.Str(is.Cond) == "opts.CreateIfNotExist" {
			block = is
		}
	}
	if block == nil {
		fs.Tri(name, Unknown, path+":"+itoa(f.Line(fd)))
		return
	}
	where := path + ":" + itoa(f.Line(block))
	typeMismatch := func(b *ast.BlockStmt) bool {
		if len(b.List) != 1 {
			return false
		}
		r, ok := b.List[0].(*ast.ReturnStmt)
		if !ok || len(r.Results) != 2 || f.Str(r.Results[1]) != "nil" {
			return false
		}
		cl, ok := r.Results[0].(*ast.CompositeLit)
		if !ok || f.Str(cl.Type) != "PatchFieldsResult" {
			return false
		}
		for _, e := range cl.Elts {
			if kv, ok := e.(*ast.KeyValueExpr); ok && f.Str(kv.Key) == "Status" {
				return f.Str(kv.Value) == "PatchStatusTypeMismatch"
			}
		}
		return false
	}
	// first statement: `if X, err := msgpackpatch.Parse(seed); err != nil { return TypeMismatch }`  or the two-statement form
	var parsed string
	rest := block.Body.List
	if len(rest) == 0 {
		fs.Tri(name, Unknown, where)
		return
	}
	readParse := func(st ast.Stmt) (string, bool) {
		as, ok := st.(*ast.AssignStmt)
		if !ok || as.Tok != token.DEFINE || len(as.Lhs) != 2 || len(as.Rhs) != 1 || f.Str(as.Rhs[0]) != "msgpackpatch.Parse(seed)" ||
			f.Str(as.Lhs[1]) != "err" {
			return "", false
		}
		return f.Str(as.Lhs[0]), true
	}
	if is, ok := rest[0].(*ast.IfStmt); ok && is.Init != nil && is.Else == nil && f.Str(is.Cond) == "err != nil" && typeMismatch(is.Body) {
		v, ok := readParse(is.Init)
		if !ok {
			fs.Tri(name, Unknown, where)
			return
		}
		parsed, rest = v, rest[1:]
	} else if v, ok := readParse(rest[0]); ok && len(rest) >= 2 {
		is, ok := rest[1].(*ast.IfStmt)
		if !ok || is.Init != nil || is.Else != nil || f.Str(is.Cond) != "err != nil" || !typeMismatch(is.Body) {
			fs.Tri(name, Unknown, where)
			return
		}
		parsed, rest = v, rest[2:]
	} else {
		fs.Tri(name, Unknown, where)
		return
	}
	switch {
	case len(rest) == 0:
		fs.Tri(name, No, where)
	case len(rest) == 1 && parsed != "_":
		is, ok := rest[0].(*ast.IfStmt)
		if ok && is.Init == nil && is.Else == nil && typeMismatch(is.Body) {
			if b, ok := is.Cond.(*ast.BinaryExpr); ok && b.Op == token.NEQ && f.Str(b.X) == parsed+".Kind" && f.Str(b.Y) == "msgpackpatch.KindMap" {
				fs.Tri(name, Yes, path+":"+itoa(f.Line(is)))
				return
			}
		}
		fs.Tri(name, Unknown, where)
	default:
		fs.Tri(name, Unknown, where)
	}
}
