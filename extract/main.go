package main

import (
	"fmt"
	"os"
	"path/filepath"
	"sort"
)

// usage: extract [-repo DIR] [-out LEANDIR] Cxx...   (no ids = all)
func main() {
	out := "/verif/lean/Hv/Generated"
	args := os.Args[1:]
	var ids []string
	for i := 0; i < len(args); i++ {
		switch args[i] {
		case "-repo":
			repoRoot = args[i+1]
			i++
		case "-out":
			out = args[i+1]
			i++
		default:
			ids = append(ids, args[i])
		}
	}
	if len(ids) == 0 {
		for k := range registry {
			ids = append(ids, k)
		}
		sort.Strings(ids)
	}
	rc := 0
	for _, id := range ids {
		e, ok := registry[id]
		if !ok {
			fmt.Fprintf(os.Stderr, "extract: no extractor for %s\n", id)
			rc = 2
			continue
		}
		fs := NewFacts(id)
		func() {
			defer func() {
				if r := recover(); r != nil {
					fs.Err("extractor panicked: %v", r)
				}
			}()
			e.Run(fs)
		}()
		lean := fs.RenderLean(e.Import, e.Type)
		p := filepath.Join(out, "Facts"+id+".lean")
		old, _ := os.ReadFile(p)
		if string(old) != lean { // keep mtime when unchanged so lake does not rebuild
			if err := os.WriteFile(p, []byte(lean), 0o644); err != nil {
				fmt.Fprintln(os.Stderr, err)
				rc = 2
			}
		}
		fmt.Printf("FACTS %s %s\n", id, fs.JSON())
		for _, e := range fs.Errors {
			fmt.Printf("FACTERR %s %s\n", id, e)
		}
	}
	os.Exit(rc)
}
