package main

import (
	"go/ast"
	"strings"
)

// C12: order of count and lock in capPreCount, deferred release for the whole loop, budget
// arithmetic, the four-cell rule of PatchFields, and the lock-then-count shape of the two other
// cap-bearing flows.

const (
	c12GwPatch      = "app/server/gateway/gateway_patch.go"
	c12SwampPatch   = "app/core/hydra/swamp/swamp_patch.go"
	c12SwampExpired = "app/core/hydra/swamp/swamp_patch_expired.go"
	c12Beacon       = "app/core/hydra/swamp/beacon/beacon.go"
)

func init() {
	Register("C12", Extractor{Import: "Hv.Props.C12", Type: "Hv.C12.Facts", Run: func(fs *Facts) {
		c12Gateway(fs)
		c12PatchFields(fs)
		c12Others(fs)
	}})
}

func c12Gateway(fs *Facts) {
	f, err := Load(c12GwPatch)
	if err != nil {
		fs.Err("%v", err)
		for _, n := range []string{"countAfterLock", "unlockDeferred", "budgetFromCount"} {
			fs.Tri(n, Unknown, c12GwPatch)
		}
		return
	}
	// capPreCount: top-level statements (hooks ignored)
	order := Unknown
	where := c12GwPatch
	if pc := f.Func("", "capPreCount"); pc != nil {
		where = c14Where(f, pc)
		b := c17Plain(f, pc.Body.List)
		count, lock := -1, -1
		for i, st := range b {
			if len(f.CallsSuffix(st, ".CountMatchingTreasures")) == 1 {
				count = i
			}
			if es, ok := st.(*ast.ExprStmt); ok && len(f.CallsSuffix(es, ".LockCapMu")) == 1 {
				lock = i
			}
		}
		locks := len(f.CallsSuffix(pc, ".LockCapMu"))
		counts := len(f.CallsSuffix(pc, ".CountMatchingTreasures"))
		retOK := false
		if len(b) > 0 {
			if r, ok := b[len(b)-1].(*ast.ReturnStmt); ok && len(r.Results) == 2 {
				retOK = strings.HasSuffix(f.Str(r.Results[1]), ".UnlockCapMu") && len(f.CallsSuffix(pc, ".UnlockCapMu")) == 0
			}
		}
		if count >= 0 && lock >= 0 && locks == 1 && counts == 1 && retOK {
			order = TriOf(lock < count)
		}
	}
	fs.Tri("countAfterLock", order, where)

	one := f.Func("", "patchTreasuresOneSwamp")
	deferred, budget := Unknown, Unknown
	if one != nil {
		// find the if-block that calls capPreCount
		ast.Inspect(one, func(n ast.Node) bool {
			blk, ok := n.(*ast.BlockStmt)
			if !ok {
				return true
			}
			list := c17Plain(f, blk.List)
			for i, st := range list {
				if f.Str(st) == "currentMatching, lockHolder := capPreCount(swampObj, treasurePredicate)" {
					deferred = TriOf(i+1 < len(list) && f.Str(list[i+1]) == "defer lockHolder()")
					okB := false
					if i+3 < len(list) {
						okB = f.Str(list[i+2]) == "budgetLeft = bodyCapMax - currentMatching" &&
							f.Str(list[i+3]) == "if budgetLeft < 0 { budgetLeft = 0 }"
					}
					budget = TriOf(okB)
				}
			}
			return true
		})
		// the release must not also be called directly
		for _, c := range f.Calls(one, "lockHolder") {
			_ = c
		}
		direct := 0
		ast.Inspect(one, func(n ast.Node) bool {
			if es, ok := n.(*ast.ExprStmt); ok && f.Str(es.X) == "lockHolder()" {
				direct++
			}
			return true
		})
		if direct > 0 {
			deferred = No
		}
		fs.Tri("unlockDeferred", deferred, c14Where(f, one))
		fs.Tri("budgetFromCount", budget, c14Where(f, one))
	} else {
		fs.Tri("unlockDeferred", Unknown, c12GwPatch)
		fs.Tri("budgetFromCount", Unknown, c12GwPatch)
	}
}

func c12PatchFields(fs *Facts) {
	f, err := Load(c12SwampPatch)
	if err != nil {
		fs.Err("%v", err)
		fs.Tri("fourCellNoYes", Unknown, c12SwampPatch)
		return
	}
	pf := f.Func("swamp", "PatchFields")
	res, where := Unknown, c12SwampPatch
	if pf != nil {
		where = c14Where(f, pf)
		var capIf *ast.IfStmt
		for _, st := range pf.Body.List {
			if is, ok := st.(*ast.IfStmt); ok && f.Str(is.Cond) == "opts.CapPredicate != nil" {
				capIf = is
			}
		}
		decs := 0
		ast.Inspect(pf, func(n ast.Node) bool {
			if id, ok := n.(*ast.IncDecStmt); ok && strings.Contains(f.Str(id.X), "CapBudgetLeft") {
				decs++
			}
			if as, ok := n.(*ast.AssignStmt); ok {
				for _, l := range as.Lhs {
					if strings.Contains(f.Str(l), "CapBudgetLeft") {
						decs += 10
					}
				}
			}
			return true
		})
		create := Unknown
		if capIf != nil {
			where = c14Where(f, capIf)
			b := capIf.Body.List
			// the nested `if !pre && post { if budget <= 0 { return CapExceeded }; budget-- }`
			var cell *ast.IfStmt
			preInit, preGuarded, preDirect := false, false, false
			for _, st := range b {
				switch x := st.(type) {
				case *ast.AssignStmt:
					if len(x.Lhs) == 1 && f.Str(x.Lhs[0]) == "preMatched" && len(x.Rhs) == 1 {
						switch {
						case f.Str(x.Rhs[0]) == "false":
							preInit = true
						case len(f.CallsSuffix(x.Rhs[0], "CapPredicate")) == 1:
							preDirect = true
						}
					}
				case *ast.IfStmt:
					if f.Str(x.Cond) == "!isCreate" && x.Else == nil && len(x.Body.List) == 1 {
						if as, ok := x.Body.List[0].(*ast.AssignStmt); ok && len(as.Lhs) == 1 && f.Str(as.Lhs[0]) == "preMatched" &&
							len(f.CallsSuffix(as.Rhs[0], "CapPredicate")) == 1 {
							preGuarded = true
						}
					}
					if f.Str(x.Cond) == "!preMatched && postMatched" {
						cell = x
					}
				}
			}
			switch {
			case preInit && preGuarded && !preDirect:
				create = Yes
			case preDirect && !preGuarded:
				create = No
			}
			ok := cell != nil && cell.Else == nil && len(cell.Body.List) == 2
			if ok {
				guard, isIf := cell.Body.List[0].(*ast.IfStmt)
				ok = isIf && strings.Contains(f.Str(guard.Cond), "*opts.CapBudgetLeft <= 0") && len(guard.Body.List) == 1 &&
					strings.Contains(f.Str(guard.Body.List[0]), "PatchStatusCapExceeded")
				if ok {
					_, isDec := cell.Body.List[1].(*ast.IncDecStmt)
					ok = isDec && strings.Contains(f.Str(cell.Body.List[1]), "CapBudgetLeft")
				}
			}
			// the write happens after the cap block
			writeAfter := false
			for _, st := range pf.Body.List {
				if st.Pos() > capIf.End() && len(f.CallsSuffix(st, ".SetContentByteArray")) > 0 {
					writeAfter = true
				}
				if st.Pos() < capIf.Pos() && len(f.CallsSuffix(st, ".SetContentByteArray")) > 0 {
					ok = false
				}
			}
			res = TriOf(ok && writeAfter && decs == 1)
		}
		fs.Tri("createPreFalse", create, where)
	}
	fs.Tri("fourCellNoYes", res, where)
}

// c12CapMuGuard looks for `if capPredicate != nil { s.capMu.Lock(); [defer s.capMu.Unlock()] }` at the top level of fn.
func c12CapMuGuard(f *File, fn *ast.FuncDecl) (lockIdx int, deferred bool) {
	lockIdx = -1
	for i, st := range fn.Body.List {
		is, ok := st.(*ast.IfStmt)
		if !ok || f.Str(is.Cond) != "capPredicate != nil" {
			continue
		}
		hasLock, hasDefer := false, false
		for _, b := range is.Body.List {
			if es, ok := b.(*ast.ExprStmt); ok && f.Str(es.X) == "s.capMu.Lock()" {
				hasLock = true
			}
			if d, ok := b.(*ast.DeferStmt); ok && f.Str(d.Call) == "s.capMu.Unlock()" {
				hasDefer = true
			}
		}
		if hasLock && lockIdx < 0 {
			lockIdx, deferred = i, hasDefer
		}
	}
	return
}

func c12Others(fs *Facts) {
	f, err := Load(c12SwampExpired)
	pe, holds := Unknown, Unknown
	where := c12SwampExpired
	if err == nil {
		if fn := f.Func("swamp", "PatchExpired"); fn != nil {
			where = c14Where(f, fn)
			lockPos, deferred := c12CapMuGuard(f, fn)
			selPos := -1
			for i, st := range fn.Body.List {
				if len(f.CallsSuffix(st, ".SelectExpiredForPatchWithCap")) > 0 && selPos < 0 {
					selPos = i
				}
			}
			if lockPos >= 0 && selPos >= 0 {
				pe = TriOf(lockPos < selPos)
			}
			explicit := 0
			ast.Inspect(fn, func(n ast.Node) bool {
				if es, ok := n.(*ast.ExprStmt); ok && f.Str(es.X) == "s.capMu.Unlock()" {
					explicit++
				}
				return true
			})
			switch {
			case lockPos >= 0 && deferred && explicit == 0:
				holds = Yes
			case lockPos >= 0 && !deferred && explicit > 0:
				holds = No
			}
		}
	} else {
		fs.Err("%v", err)
	}
	fs.Tri("patchExpiredLocksFirst", pe, where)
	fs.Tri("expiredHoldsCapMu", holds, where)
	// the cap handed to SelectExpiredForPatchWithCap: that function counts over the index it is called
	// on (the expiration-time index: records with an ExpiredAt only)
	all, whereAll := Unknown, where
	if err == nil {
		if fn := f.Func("swamp", "PatchExpired"); fn != nil {
			calls := f.CallsSuffix(fn, ".SelectExpiredForPatchWithCap")
			if len(calls) == 1 && len(calls[0].Args) == 4 && f.Str(calls[0].Fun) == "s.expirationTimeBeaconASC.SelectExpiredForPatchWithCap" {
				whereAll = c14Where(f, calls[0])
				arg := f.Str(calls[0].Args[3])
				const diff = "s.beaconKey.CountMatching(capPredicate) - s.expirationTimeBeaconASC.CountMatching(capPredicate)"
				switch {
				case arg == "int(capMax)" && !f.Contains(fn, "s.beaconKey.CountMatching"):
					all = No
				case arg != "int(capMax)" && c12Ident(arg):
					// V := int(capMax); outside := <all> - <indexed>; V -= outside   — in this order, before the call
					init, out, sub := -1, -1, -1
					outName := ""
					for i, st := range f.Stmts(fn) {
						t := f.Str(st)
						switch {
						case t == arg+" := int(capMax)" && init < 0:
							init = i
						case strings.HasSuffix(t, " := "+diff) && out < 0:
							out, outName = i, strings.TrimSuffix(t, " := "+diff)
						case outName != "" && t == arg+" -= "+outName && sub < 0:
							sub = i
						}
					}
					assigns := 0
					for _, st := range f.Stmts(fn) {
						if as, ok := st.(*ast.AssignStmt); ok {
							for _, l := range as.Lhs {
								if f.Str(l) == arg {
									assigns++
								}
							}
						}
					}
					if init >= 0 && out > init && sub > out && assigns == 2 {
						all = Yes
					}
				}
			}
		}
	}
	fs.Tri("expiredCountsAll", all, whereAll)
	// gateway ShiftMatching: is the filter narrowed to the planner's residual for bucket candidates?
	re, whereRe := Unknown, "app/server/gateway/gateway_shift_matching.go"
	if g, err := Load("app/server/gateway/gateway_shift_matching.go"); err == nil {
		if fn := g.Func("", "buildShiftMatchingPredicate"); fn != nil {
			whereRe = c14Where(g, fn)
			full, narrowed := false, false
			for _, st := range g.Stmts(fn) {
				switch g.Str(st) {
				case "filterEval := filters":
					full = true
				case "filterEval = plan.Residual":
					narrowed = true
				}
			}
			if full && g.Contains(fn, "evaluateNativeFilterGroup(t, filterEval)") {
				re = TriOf(!narrowed)
			}
		}
	}
	fs.Tri("shiftReevaluatesFilter", re, whereRe)

	g, err := Load(c12Beacon)
	sel, sm := Unknown, Unknown
	where = c12Beacon
	// count + budget + bounded selection under one b.mu.Lock()
	bounded := func(fn *ast.FuncDecl, bound string) bool {
		lock, budget, use := -1, -1, -1
		for i, st := range fn.Body.List {
			s := g.Str(st)
			if s == "b.mu.Lock()" && lock < 0 {
				lock = i
			}
			if s == "b.mu.Unlock()" && use < 0 {
				return false
			}
			if strings.Contains(s, "budget := capMax - currentMatching") && budget < 0 {
				budget = i
			}
			if strings.Contains(s, bound) && use < 0 && budget >= 0 {
				use = i
			}
		}
		return lock >= 0 && budget > lock && use > budget
	}
	if err == nil {
		if fn := g.Func("beacon", "SelectExpiredForPatchWithCap"); fn != nil {
			where = c14Where(g, fn)
			sel = TriOf(bounded(fn, "counter < effectiveHowMany") && g.Contains(fn, "if budget < effectiveHowMany { effectiveHowMany = budget"))
		}
		fs.Tri("expiredSelectWithinBudget", sel, where)
		if fn := g.Func("beacon", "ShiftMatching"); fn != nil {
			where = c14Where(g, fn)
			sm = TriOf(bounded(fn, "counter < effectiveHowMany") && g.Contains(fn, "if budget < effectiveHowMany { effectiveHowMany = budget"))
		}
	} else {
		fs.Err("%v", err)
		fs.Tri("expiredSelectWithinBudget", Unknown, where)
	}
	// the swamp-level shift holds capMu for the whole call
	if sw, err := Load("app/core/hydra/swamp/swamp.go"); err == nil {
		if fn := sw.Func("swamp", "CloneAndDeleteMatchingTreasures"); fn != nil {
			lockPos, deferred := c12CapMuGuard(sw, fn)
			if !(lockPos >= 0 && deferred) && sm == Yes {
				sm = No
			}
		} else {
			sm = Unknown
		}
	}
	fs.Tri("shiftCountsUnderLock", sm, where)
}

func c12Ident(s string) bool {
	if s == "" {
		return false
	}
	for i, r := range s {
		if !(r == '_' || (r >= 'a' && r <= 'z') || (r >= 'A' && r <= 'Z') || (i > 0 && r >= '0' && r <= '9')) {
			return false
		}
	}
	return true
}
