package main

import (
	"go/ast"
	"strings"
)

// C12: order of count and lock in capPreCount, deferred release for the whole loop, budget
// arithmetic, the four-cell rule of PatchFields, and the lock-then-count shape of the two other
// cap-bearing flows.

const (
	c12GwPatch      = "app/server/gateway/gateway_patch.go"
	c12SwampPatch   = "app/core/hydra/swamp/swamp_patch.go"
	c12SwampExpired = "app/core/hydra/swamp/swamp_patch_expired.go"
	c12Beacon       = "app/core/hydra/swamp/beacon/beacon.go"
)

func init() {
	Register("C12", Extractor{Import: "Hv.Props.C12", Type: "Hv.C12.Facts", Run: func(fs *Facts) {
		c12Gateway(fs)
		c12PatchFields(fs)
		c12Others(fs)
	}})
}

func c12Gateway(fs *Facts) {
	f, err := Load(c12GwPatch)
	if err != nil {
		fs.Err("%v", err)
		for _, n := range []string{"countAfterLock", "unlockDeferred", "budgetFromCount"} {
			fs.Tri(n, Unknown, c12GwPatch)
		}
		return
	}
	// capPreCount: top-level statements (hooks ignored)
	order := Unknown
	where := c12GwPatch
	if pc := f.Func("", "capPreCount"); pc != nil {
		where = c14Where(f, pc)
		b := c17Plain(f, pc.Body.List)
		count, lock := -1, -1
		for i, st := range b {
			s := f.Str(st)
			if strings.HasPrefix(s, "count := swampObj.CountMatchingTreasures(") {
				count = i
			}
			if s == "swampObj.LockCapMu()" {
				lock = i
			}
		}
		locks := len(f.Calls(pc, "swampObj.LockCapMu"))
		counts := len(f.Calls(pc, "swampObj.CountMatchingTreasures"))
		retOK := false
		if len(b) > 0 {
			retOK = f.Str(b[len(b)-1]) == "return count, swampObj.UnlockCapMu"
		}
		if count >= 0 && lock >= 0 && locks == 1 && counts == 1 && retOK {
			order = TriOf(lock < count)
		}
	}
	fs.Tri("countAfterLock", order, where)

	one := f.Func("", "patchTreasuresOneSwamp")
	deferred, budget := Unknown, Unknown
	if one != nil {
		// find the if-block that calls capPreCount
		ast.Inspect(one, func(n ast.Node) bool {
			blk, ok := n.(*ast.BlockStmt)
			if !ok {
				return true
			}
			list := c17Plain(f, blk.List)
			for i, st := range list {
				if f.Str(st) == "currentMatching, lockHolder := capPreCount(swampObj, treasurePredicate)" {
					deferred = TriOf(i+1 < len(list) && f.Str(list[i+1]) == "defer lockHolder()")
					okB := false
					if i+3 < len(list) {
						okB = f.Str(list[i+2]) == "budgetLeft = bodyCapMax - currentMatching" &&
							f.Str(list[i+3]) == "if budgetLeft < 0 { budgetLeft = 0 }"
					}
					budget = TriOf(okB)
				}
			}
			return true
		})
		// the release must not also be called directly
		for _, c := range f.Calls(one, "lockHolder") {
			_ = c
		}
		direct := 0
		ast.Inspect(one, func(n ast.Node) bool {
			if es, ok := n.(*ast.ExprStmt); ok && f.Str(es.X) == "lockHolder()" {
				direct++
			}
			return true
		})
		if direct > 0 {
			deferred = No
		}
		fs.Tri("unlockDeferred", deferred, c14Where(f, one))
		fs.Tri("budgetFromCount", budget, c14Where(f, one))
	} else {
		fs.Tri("unlockDeferred", Unknown, c12GwPatch)
		fs.Tri("budgetFromCount", Unknown, c12GwPatch)
	}
}

func c12PatchFields(fs *Facts) {
	f, err := Load(c12SwampPatch)
	if err != nil {
		fs.Err("%v", err)
		fs.Tri("fourCellNoYes", Unknown, c12SwampPatch)
		return
	}
	pf := f.Func("swamp", "PatchFields")
	res, where := Unknown, c12SwampPatch
	if pf != nil {
		where = c14Where(f, pf)
		var capIf *ast.IfStmt
		for _, st := range pf.Body.List {
			if is, ok := st.(*ast.IfStmt); ok && f.Str(is.Cond) == "opts.CapPredicate != nil" {
				capIf = is
			}
		}
		decs := 0
		ast.Inspect(pf, func(n ast.Node) bool {
			if id, ok := n.(*ast.IncDecStmt); ok && strings.Contains(f.Str(id.X), "CapBudgetLeft") {
				decs++
			}
			if as, ok := n.(*ast.AssignStmt); ok {
				for _, l := range as.Lhs {
					if strings.Contains(f.Str(l), "CapBudgetLeft") {
						decs += 10
					}
				}
			}
			return true
		})
		if capIf != nil {
			where = c14Where(f, capIf)
			b := capIf.Body.List
			ok := len(b) == 4 &&
				f.Str(b[0]) == "preMatched := false" &&
				f.Str(b[1]) == "if !isCreate { preMatched = opts.CapPredicate(inputBody) }" &&
				f.Str(b[2]) == "postMatched := opts.CapPredicate(out)"
			if ok {
				inner, isIf := b[3].(*ast.IfStmt)
				ok = isIf && f.Str(inner.Cond) == "!preMatched && postMatched" && inner.Else == nil && len(inner.Body.List) == 2 &&
					f.Str(inner.Body.List[0]) == "if opts.CapBudgetLeft == nil || *opts.CapBudgetLeft <= 0 { return PatchFieldsResult{Status: PatchStatusCapExceeded}, nil }" &&
					f.Str(inner.Body.List[1]) == "*opts.CapBudgetLeft--"
			}
			// the write happens after the cap block
			writeAfter := false
			for _, st := range pf.Body.List {
				if st.Pos() > capIf.End() && strings.HasPrefix(f.Str(st), "treasureObj.SetContentByteArray(") {
					writeAfter = true
				}
				if st.Pos() < capIf.Pos() && strings.HasPrefix(f.Str(st), "treasureObj.SetContentByteArray(") {
					ok = false
				}
			}
			res = TriOf(ok && writeAfter && decs == 1)
		}
	}
	fs.Tri("fourCellNoYes", res, where)
}

func c12Others(fs *Facts) {
	f, err := Load(c12SwampExpired)
	pe := Unknown
	where := c12SwampExpired
	if err == nil {
		if fn := f.Func("swamp", "PatchExpired"); fn != nil {
			where = c14Where(f, fn)
			lockPos, selPos := -1, -1
			for i, st := range fn.Body.List {
				s := f.Str(st)
				if s == "if capPredicate != nil { s.capMu.Lock() defer s.capMu.Unlock() }" {
					lockPos = i
				}
				if strings.Contains(s, "SelectExpiredForPatchWithCap(") && selPos < 0 {
					selPos = i
				}
			}
			if lockPos >= 0 && selPos >= 0 {
				pe = TriOf(lockPos < selPos)
			}
		}
	} else {
		fs.Err("%v", err)
	}
	fs.Tri("patchExpiredLocksFirst", pe, where)

	g, err := Load(c12Beacon)
	sm := Unknown
	where = c12Beacon
	if err == nil {
		if fn := g.Func("beacon", "ShiftMatching"); fn != nil {
			where = c14Where(g, fn)
			lock, unlockEarly, capUse := -1, false, -1
			for i, st := range fn.Body.List {
				s := g.Str(st)
				if s == "b.mu.Lock()" && lock < 0 {
					lock = i
				}
				if strings.Contains(s, "capPredicate(t)") && capUse < 0 {
					capUse = i
				}
				if s == "b.mu.Unlock()" && capUse < 0 && lock >= 0 {
					unlockEarly = true
				}
			}
			if lock >= 0 && capUse >= 0 {
				sm = TriOf(lock < capUse && !unlockEarly)
			}
		}
	} else {
		fs.Err("%v", err)
	}
	fs.Tri("shiftCountsUnderLock", sm, where)
}
