package main

// C25: what the writer does (and does not do) after a failed file operation.

import (
	"go/ast"
	"go/token"
	"strings"
)

// WriteBuffer.Flush resets wb.entries before returning, and flushLocked calls it before the first file write
func c25ClearsBuffer(s *c02Src) (Tri, string) {
	if s.b == nil || s.w == nil {
		return Unknown, ""
	}
	fl := s.b.Func("WriteBuffer", "Flush")
	fd := s.w.Func("FileWriter", "flushLocked")
	if fl == nil || fd == nil {
		return Unknown, c02Block
	}
	resets := false
	var where ast.Node = fl
	ast.Inspect(fl.Body, func(n ast.Node) bool {
		if as, ok := n.(*ast.AssignStmt); ok && len(as.Lhs) == 1 && s.b.Str(as.Lhs[0]) == "wb.entries" {
			r := s.b.Str(as.Rhs[0])
			if r == "wb.entries[:0]" || r == "nil" || strings.HasPrefix(r, "make(") {
				resets = true
				where = as
			}
		}
		return true
	})
	// flushLocked takes the entries out of the buffer (Flush, or GetEntriesAndClear) before the first write
	fi, _ := c02AnyIdx(s.w, fd, c02Named("fw.buffer.Flush", "fw.buffer.GetEntriesAndClear"))
	wi, _ := c02AnyIdx(s.w, fd, c02Named("fw.file.Write"))
	if fi < 0 || wi < 0 {
		return Unknown, c02Where(s.w, fd)
	}
	if len(s.w.Calls(fd, "fw.buffer.GetEntriesAndClear")) > 0 {
		return TriOf(fi < wi), c02Where(s.w, fd) // GetEntriesAndClear always empties
	}
	return TriOf(resets && fi < wi), c02Where(s.b, where)
}

// error branches of the writes in flushLocked: plain `return err` (no rollback, no offset restore)?
func c25FlushFailure(s *c02Src) (rollsBack, restores Tri, where string) {
	if s.w == nil {
		return Unknown, Unknown, ""
	}
	fd := s.w.Func("FileWriter", "flushLocked")
	if fd == nil {
		return Unknown, Unknown, c02Writer
	}
	n := 0
	rollsBack, restores = No, No
	// the repaired shape: a `rollback` closure that truncates to the start offset, seeks back and
	// restores the buffer, called from the error branch of both block writes, plus a dirtyTail retry
	rbDef := ""
	ast.Inspect(fd.Body, func(x ast.Node) bool {
		if as, ok := x.(*ast.AssignStmt); ok && len(as.Lhs) == 1 && s.w.Str(as.Lhs[0]) == "rollback" {
			rbDef = s.w.Str(as.Rhs[0])
		}
		return true
	})
	rbOK := strings.Contains(rbDef, "fw.file.Truncate(start)") && strings.Contains(rbDef, "fw.file.Seek(start, io.SeekStart)") &&
		strings.Contains(rbDef, "fw.buffer.Restore(entries)") && strings.Contains(rbDef, "fw.dirtyTail =") &&
		s.w.Contains(fd, "if fw.dirtyTail {")
	blockWrites, rolled := 0, 0
	for _, st := range fd.Body.List {
		ifs, ok := st.(*ast.IfStmt)
		if !ok || ifs.Init == nil || !strings.Contains(s.w.Str(ifs.Init), "fw.file.Write(") {
			continue
		}
		n++
		body := s.w.Str(ifs.Body)
		where = c02Where(s.w, ifs)
		isHeader := strings.Contains(s.w.Str(ifs.Init), "fw.header.Serialize()")
		if !isHeader {
			blockWrites++
			if len(ifs.Body.List) == 1 && s.w.Str(ifs.Body.List[0]) == "return rollback(err)" {
				rolled++
			}
		}
		if isHeader && strings.Contains(body, "fw.file.Seek(currentPos, io.SeekStart)") {
			restores = Yes
		}
	}
	if n != 3 || blockWrites != 2 {
		return Unknown, Unknown, c02Where(s.w, fd)
	}
	switch {
	case rolled == 2 && rbOK:
		rollsBack = Yes
	case rolled == 0 && rbDef == "":
		rollsBack = No
	default:
		rollsBack = Unknown
	}
	// Sync must not leave the descriptor inside the header either
	if restores == Yes {
		ok := false
		if sy := s.w.Func("FileWriter", "Sync"); sy != nil {
			for _, st := range sy.Body.List {
				if ifs, isIf := st.(*ast.IfStmt); isIf && ifs.Init != nil && strings.Contains(s.w.Str(ifs.Init), "fw.header.Serialize()") &&
					strings.Contains(s.w.Str(ifs.Body), "fw.file.Seek(0, io.SeekEnd)") {
					ok = true
				}
			}
		}
		if !ok {
			restores = Unknown
		}
	}
	return
}

// chronicler.Write: `if err := c.writer.WriteEntry(entry); err != nil { …; continue }`
func c25WriteErrorsSkipped(s *c02Src) (Tri, string) {
	if s.ch == nil {
		return Unknown, ""
	}
	fd := s.ch.Func("chroniclerV2", "Write")
	if fd == nil {
		return Unknown, c02Chron
	}
	res, where := Unknown, c02Where(s.ch, fd)
	ast.Inspect(fd.Body, func(n ast.Node) bool {
		ifs, ok := n.(*ast.IfStmt)
		if !ok || ifs.Init == nil || !strings.Contains(s.ch.Str(ifs.Init), "c.writer.WriteEntry(") {
			return true
		}
		where = c02Where(s.ch, ifs)
		if len(ifs.Body.List) > 0 {
			if br, ok := ifs.Body.List[len(ifs.Body.List)-1].(*ast.BranchStmt); ok && br.Tok.String() == "continue" {
				res = Yes
				return true
			}
		}
		res = No
		return true
	})
	return res, where
}

// fileWriterHandler: `if err := s.chroniclerInterface.Sync(); err != nil { slog.Error(...) }` and nothing else
func c25SyncErrorLogged(s *c02Src) (Tri, string) {
	if s.sw == nil {
		return Unknown, ""
	}
	fd := s.sw.Func("swamp", "fileWriterHandler")
	if fd == nil {
		return Unknown, c02Swamp
	}
	for _, st := range fd.Body.List {
		ifs, ok := st.(*ast.IfStmt)
		if !ok || ifs.Init == nil || !strings.Contains(s.sw.Str(ifs.Init), "s.chroniclerInterface.Sync()") {
			continue
		}
		if len(ifs.Body.List) == 1 && strings.HasPrefix(s.sw.Str(ifs.Body.List[0]), "slog.") {
			return Yes, c02Where(s.sw, ifs)
		}
		return No, c02Where(s.sw, ifs)
	}
	return Unknown, c02Where(s.sw, fd)
}

// flushLocked hands at most math.MaxUint16 entries to CompressEntries: right after taking the
// entries out of the buffer it puts everything beyond that back (Restore) and keeps the prefix,
// and after the block (and its header rewrite) it goes on with the rest.
func c25SplitsOversized(s *c02Src) (Tri, string) {
	if s.w == nil {
		return Unknown, ""
	}
	fd := s.w.Func("FileWriter", "flushLocked")
	if fd == nil {
		return Unknown, c02Writer
	}
	where := c02Where(s.w, fd)
	mentions := s.w.Contains(fd, "MaxUint16") || s.w.Contains(fd, "65535") || s.w.Contains(fd, "entries[")
	if !mentions {
		return No, where
	}
	// statement order inside the function body: take, (guarded) restore+cut, compress, ..., continue
	take, cut, comp, cont := -1, -1, -1, -1
	for i, st := range fd.Body.List {
		txt := s.w.Str(st)
		switch {
		case strings.HasPrefix(txt, "entries := fw.buffer.GetEntriesAndClear()"):
			take = i
		case strings.HasPrefix(txt, "if more {") && strings.Contains(txt, "fw.buffer.Restore(entries[math.MaxUint16:])") &&
			strings.Contains(txt, "entries = entries[:math.MaxUint16]") && cut < 0:
			cut = i
		case strings.Contains(txt, "CompressEntries(entries)") && comp < 0:
			comp = i
		case strings.HasPrefix(txt, "if more {") && strings.Contains(txt, "return fw.flushLocked()"):
			cont = i
		}
	}
	moreDef := s.w.Contains(fd, "more := len(entries) > math.MaxUint16")
	last := len(fd.Body.List) - 1
	if moreDef && take >= 0 && take < cut && cut < comp && cont > comp && cont == last-1 &&
		s.w.Str(fd.Body.List[last]) == "return nil" {
		return Yes, c02Where(s.w, fd.Body.List[cut])
	}
	return Unknown, where
}

// WriteBuffer.Add and ShouldFlush report full at math.MaxUint16 entries (whatever the block size)
func c25FlushesAtCountBound(s *c02Src) (Tri, string) {
	if s.b == nil {
		return Unknown, ""
	}
	add, sf := s.b.Func("WriteBuffer", "Add"), s.b.Func("WriteBuffer", "ShouldFlush")
	if add == nil || sf == nil {
		return Unknown, c02Block
	}
	const ret = "return wb.currentSize >= wb.maxSize || len(wb.entries) >= math.MaxUint16"
	okAdd := len(add.Body.List) > 0 && s.b.Str(add.Body.List[len(add.Body.List)-1]) == ret
	okSf := len(sf.Body.List) > 0 && s.b.Str(sf.Body.List[len(sf.Body.List)-1]) == ret
	if okAdd && okSf {
		return Yes, c02Where(s.b, add)
	}
	if !s.b.Contains(add, "MaxUint16") && !s.b.Contains(add, "65535") && !s.b.Contains(add, "len(wb.entries)") {
		return No, c02Where(s.b, add)
	}
	return Unknown, c02Where(s.b, add)
}

// the block-reader facts the model's reader relies on.  Same questions as C04 asks of ParseBlock, answered
// with `unknown` (never `no`) for a shape this extractor does not know: `no` only when the check is absent.
func c25ReaderAssumptions(fs *Facts, s *c02Src) {
	names := []string{"validatesCrc", "crcBeforeDecompress", "validatesULen", "boundsDecodedLen", "parseConsumesAll"}
	res := map[string]Tri{}
	for _, n := range names {
		res[n] = Unknown
	}
	where := c02Block
	defer func() {
		for _, n := range names {
			fs.Tri(n, res[n], where)
		}
	}()
	ty, err := Load(c01Types)
	if err != nil || s.b == nil {
		return
	}
	fd := s.b.Func("", "ParseBlock")
	if fd == nil {
		return
	}
	where = c02Where(s.b, fd)
	vc, cc := ty.Func("", "ValidateChecksum"), ty.Func("", "CalculateChecksum")
	crcFn := vc != nil && cc != nil && ty.Contains(vc.Body, "CalculateChecksum(data) == expected") && ty.Contains(cc.Body, "crc32.ChecksumIEEE(data)")
	dec := s.b.Calls(fd.Body, "snappyCompressor.Decompress")
	if len(dec) != 1 {
		return
	}
	decPos := dec[0].Pos()
	// the entry loop: a `for` or a `for range` whose body calls Deserialize
	var loopEnd token.Pos
	ast.Inspect(fd.Body, func(x ast.Node) bool {
		switch l := x.(type) {
		case *ast.ForStmt:
			if loopEnd == token.NoPos && s.b.Contains(l.Body, ".Deserialize(") {
				loopEnd = l.End()
			}
		case *ast.RangeStmt:
			if loopEnd == token.NoPos && s.b.Contains(l.Body, ".Deserialize(") {
				loopEnd = l.End()
			}
		}
		return true
	})
	body := s.b.Str(fd.Body)
	// absent checks are `no`; present in a shape not recognised below stay `unknown`
	if !strings.Contains(body, "ValidateChecksum") && !strings.Contains(body, "Checksum") {
		res["validatesCrc"], res["crcBeforeDecompress"] = No, No
	}
	if !strings.Contains(body, "UncompressedSize") {
		res["validatesULen"] = No
	}
	if !strings.Contains(body, "DecodedLen") {
		res["boundsDecodedLen"] = No
	}
	if !strings.Contains(body, "len(uncompressed)") || strings.Count(body, "offset") < 2 {
		res["parseConsumesAll"] = No
	}
	for _, is := range c04Ifs(s.b, fd.Body) {
		c := c04Cond(s.b, is)
		bad := c04RetMentions(s.b, is, "ErrCorruptedBlock")
		switch {
		case c == "!ValidateChecksum(compressedData,header.Checksum)" && bad:
			if crcFn {
				res["validatesCrc"] = Yes
			}
			res["crcBeforeDecompress"] = TriOf(is.Pos() < decPos)
		case c == "uint32(len(uncompressed))!=header.UncompressedSize" && bad && is.Pos() > decPos:
			res["validatesULen"] = Yes
		case bad && is.Pos() < decPos && strings.Contains(c, "32*len(compressedData)+64") && (strings.Contains(c, "DecodedLen") || strings.Contains(c, "dLen") || strings.Contains(c, "declared")):
			res["boundsDecodedLen"] = Yes
		case bad && (c == "offset!=len(uncompressed)" || c == "len(uncompressed)!=offset"):
			if loopEnd != token.NoPos && is.Pos() > loopEnd {
				res["parseConsumesAll"] = Yes
			} else {
				res["parseConsumesAll"] = Unknown
			}
		}
	}
}

// FileWriter.WriteEntry: does it return the error of the flush it triggers?
//   yes: `if shouldFlush { return fw.flushLocked() }`;  no: the flush result is discarded and the function ends with `return nil`
func c25WriteEntryReports(s *c02Src) (Tri, string) {
	if s.w == nil {
		return Unknown, ""
	}
	fd := s.w.Func("FileWriter", "WriteEntry")
	if fd == nil {
		return Unknown, c02Writer
	}
	where := c02Where(s.w, fd)
	calls := s.w.Calls(fd, "fw.flushLocked")
	if len(calls) != 1 {
		return Unknown, where
	}
	returned, discarded := false, false
	ast.Inspect(fd.Body, func(n ast.Node) bool {
		switch x := n.(type) {
		case *ast.ReturnStmt:
			if len(x.Results) == 1 && s.w.Str(x.Results[0]) == "fw.flushLocked()" {
				returned = true
			}
		case *ast.AssignStmt:
			if len(x.Lhs) == 1 && len(x.Rhs) == 1 && s.w.Str(x.Lhs[0]) == "_" && s.w.Str(x.Rhs[0]) == "fw.flushLocked()" {
				discarded = true
			}
		case *ast.IfStmt:
			// `if err := fw.flushLocked(); err != nil { return err }`
			if x.Init != nil && strings.Contains(s.w.Str(x.Init), "fw.flushLocked()") && strings.Contains(s.w.Str(x.Body), "return err") {
				returned = true
			}
		}
		return true
	})
	last := fd.Body.List[len(fd.Body.List)-1]
	switch {
	case returned && !discarded:
		return Yes, where
	case discarded && !returned && s.w.Str(last) == "return nil":
		return No, where
	}
	return Unknown, where
}

// FileWriter.Close: is the file closed on an error path (the writer would be dead), or only at the very end?
func c25CloseKeepsFile(s *c02Src) (Tri, string) {
	if s.w == nil {
		return Unknown, ""
	}
	fd := s.w.Func("FileWriter", "Close")
	if fd == nil {
		return Unknown, c02Writer
	}
	where := c02Where(s.w, fd)
	total := len(s.w.Calls(fd, "fw.file.Close"))
	inErr := 0
	for _, st := range fd.Body.List {
		if ifs, ok := st.(*ast.IfStmt); ok && strings.Contains(s.w.Str(ifs.Cond), "err != nil") {
			inErr += len(s.w.Calls(ifs.Body, "fw.file.Close"))
		}
	}
	last := s.w.Str(fd.Body.List[len(fd.Body.List)-1])
	switch {
	case total == 1 && inErr == 0 && last == "return fw.file.Close()" && s.w.Contains(fd, "fw.closed = true"):
		return Yes, where
	case inErr > 0 && inErr == total-1:
		return No, where
	}
	return Unknown, where
}

// chroniclerV2.Close and runCompactionLocked: `if err := c.writer.Close(); err != nil { …; return err }` in front of `c.writer = nil`
func c25ChronKeepsWriter(s *c02Src) (Tri, string) {
	if s.ch == nil {
		return Unknown, ""
	}
	where := c02Chron
	for _, fn := range []string{"Close", "runCompactionLocked"} {
		fd := s.ch.Func("chroniclerV2", fn)
		if fd == nil {
			return Unknown, c02Chron
		}
		where = c02Where(s.ch, fd)
		ok := false
		ast.Inspect(fd.Body, func(n ast.Node) bool {
			ifs, isIf := n.(*ast.IfStmt)
			if !isIf || ifs.Init == nil || s.ch.Str(ifs.Init) != "err := c.writer.Close()" {
				return true
			}
			body := s.ch.Str(ifs.Body)
			if strings.HasSuffix(body, "return err }") && !strings.Contains(body, "c.writer = nil") && !strings.Contains(body, "c.writerClosed = true") {
				ok = true
			}
			return true
		})
		if !ok {
			return Unknown, where
		}
	}
	return Yes, where
}

// WriteBuffer.Restore puts the entries back IN FRONT of what is buffered (the order of the entries is the order of the writes)
func c25RestorePrepends(s *c02Src) (Tri, string) {
	if s.b == nil {
		return Unknown, ""
	}
	fd := s.b.Func("WriteBuffer", "Restore")
	if fd == nil {
		if s.w != nil && len(s.w.Calls(s.w.Func("FileWriter", "flushLocked"), "fw.buffer.Restore")) == 0 {
			return Yes, c02Block // nothing is ever restored
		}
		return Unknown, c02Block
	}
	where := c02Where(s.b, fd)
	n, front := 0, false
	ast.Inspect(fd.Body, func(x ast.Node) bool {
		if as, ok := x.(*ast.AssignStmt); ok && len(as.Lhs) == 1 && s.b.Str(as.Lhs[0]) == "wb.entries" {
			n++
			front = s.b.Str(as.Rhs[0]) == "append(entries, wb.entries...)"
		}
		return true
	})
	if n == 1 && front {
		return Yes, where
	}
	return Unknown, where
}

func init() {
	Register("C25", Extractor{Import: "Hv.Props.C25", Type: "Hv.C25.Facts", Run: func(fs *Facts) {
		s := c02Load(fs)
		t, w := c25ClearsBuffer(s)
		fs.Tri("clearsBufferBeforeWrite", t, w)
		rb, ro, w := c25FlushFailure(s)
		fs.Tri("rollsBackFailedBlock", rb, w)
		fs.Tri("restoresOffsetAfterHeader", ro, w)
		t, w = c25SplitsOversized(s)
		fs.Tri("splitsOversizedBuffer", t, w)
		t, w = c25FlushesAtCountBound(s)
		fs.Tri("flushesAtCountBound", t, w)
		t, w = c25RestorePrepends(s)
		fs.Tri("restorePrepends", t, w)
		t, w = c02ZeroTailIsEOF(s)
		fs.Tri("zeroTailIsEOF", t, w)
		t, w = c25WriteErrorsSkipped(s)
		fs.Tri("writeErrorsSkipped", t, w)
		t, w = c25SyncErrorLogged(s)
		fs.Tri("syncErrorLogged", t, w)
		t, w = c02FlushOrderCanonical(s)
		fs.Tri("flushOrderCanonical", t, w)
		t, w = c02WriterFsyncs(s, "Sync")
		fs.Tri("syncFsyncs", t, w)
		t, w = c02WriterFsyncs(s, "Close")
		fs.Tri("closeFsyncs", t, w)
		ap, tr, w := c02OpensExistingForAppend(s)
		fs.Tri("opensExistingForAppend", ap, w)
		fs.Tri("truncatesTornTail", tr, w)
		sh, td, w := c02ReaderFacts(s)
		fs.Tri("shortHeaderIsEOF", sh, w)
		fs.Tri("tornDataIsEOF", td, w)
		t, w = c03CloseErrorAborts(s)
		fs.Tri("closeErrorAborts", t, w)
		t, w = c25WriteEntryReports(s)
		fs.Tri("writeEntryReportsFlushError", t, w)
		t, w = c25CloseKeepsFile(s)
		fs.Tri("closeKeepsFileOnError", t, w)
		t, w = c25ChronKeepsWriter(s)
		fs.Tri("chronKeepsWriterOnCloseError", t, w)
		c25ReaderAssumptions(fs, s)
	}})
}
