package main

import (
	"go/ast"
	"go/token"
	"strings"
)

// C19 facts.
//
//	timeConv            argument shape of the time.Unix call that converts event.EventTime in
//	                    gateway.SubscribeToEvents
//	sendUnderMutex      the event callback locks a mutex declared outside the callback around SendMsg
//	emittedUnderGuard   in SaveFunction every sendEventToHydra precedes every ReleaseTreasureGuard of its
//	                    branch; deleteHandler defers its release and emits in the body
//	fanoutSynchronous   no `go` statement in sendEventToHydra / sendDeletedEventToClient /
//	                    hydra.eventCallbackFunction, and the subscriber function is called directly
//	resetsChangedFlags  a function reachable from treasure.Save / swamp.SaveFunction stores false into
//	                    every `…Changed` flag of the treasure struct
//	oldIsLive           OldTreasure of the StatusModified event is the object returned by beaconKey.Get
func init() {
	Register("C19", Extractor{Import: "Hv.Props.C19", Type: "Hv.C19.Facts", Run: c19Run})
}

const (
	c19Gateway  = "app/server/gateway/gateway.go"
	c19Swamp    = "app/core/hydra/swamp/swamp.go"
	c19Hydra    = "app/core/hydra/hydra.go"
	c19Treasure = "app/core/hydra/swamp/treasure/treasure.go"
)

func c19Run(fs *Facts) {
	c19Gw(fs)
	c19Emit(fs)
	c19Flags(fs)
}

func c19IsGiga(s string) bool {
	switch strings.ReplaceAll(s, "_", "") {
	case "1e9", "1000000000", "int64(time.Second)", "int64(1e9)":
		return true
	}
	return false
}

func c19Gw(fs *Facts) {
	f, err := Load(c19Gateway)
	if err != nil {
		fs.Err("%v", err)
		fs.Enum("timeConv", "unknown", c19Gateway)
		fs.Tri("sendUnderMutex", Unknown, c19Gateway)
		return
	}
	fn := f.Func("Gateway", "SubscribeToEvents")
	if fn == nil {
		fs.Enum("timeConv", "unknown", c19Gateway)
		fs.Tri("sendUnderMutex", Unknown, c19Gateway)
		return
	}
	// ---- timeConv
	conv, where, n := "unknown", c19Gateway+":"+itoa(f.Line(fn)), 0
	for _, c := range f.Calls(fn, "time.Unix") {
		if len(c.Args) != 2 || !strings.Contains(f.Str(c), ".EventTime") {
			continue
		}
		n++
		a, b := f.Str(c.Args[0]), f.Str(c.Args[1])
		where = c19Gateway + ":" + itoa(f.Line(c))
		isET := func(s string) bool { return strings.HasSuffix(s, ".EventTime") && !strings.ContainsAny(s, " /%*+-(") }
		switch {
		case isET(a) && b == "0":
			conv = "unixSec"
		case a == "0" && isET(b):
			conv = "unixNano"
		default:
			ad, bd := strings.Split(a, " / "), strings.Split(b, " % ")
			if len(ad) == 2 && len(bd) == 2 && isET(ad[0]) && isET(bd[0]) && c19IsGiga(ad[1]) && c19IsGiga(bd[1]) {
				conv = "unixSplit"
			} else {
				conv = "unknown"
			}
		}
	}
	if n != 1 {
		conv = "unknown"
	}
	fs.Enum("timeConv", conv, where)

	// ---- sendUnderMutex
	var cb *ast.FuncLit
	ast.Inspect(fn, func(x ast.Node) bool {
		if as, ok := x.(*ast.AssignStmt); ok && len(as.Lhs) == 1 && len(as.Rhs) == 1 && f.Str(as.Lhs[0]) == "eventCallbackFunction" {
			if fl, ok := as.Rhs[0].(*ast.FuncLit); ok {
				cb = fl
			}
		}
		return true
	})
	if cb == nil {
		fs.Tri("sendUnderMutex", Unknown, where)
		return
	}
	sends := append(f.CallsSuffix(cb, ".SendMsg"), f.CallsSuffix(cb, ".Send")...)
	if len(sends) != 1 {
		fs.Tri("sendUnderMutex", Unknown, c19Gateway+":"+itoa(f.Line(cb)))
		return
	}
	send := sends[0]
	sw := c19Gateway + ":" + itoa(f.Line(send))
	locks := f.CallsSuffix(cb, ".Lock")
	if len(locks) == 0 && len(f.CallsSuffix(cb, ".RLock")) == 0 {
		// no locking at all inside the callback; a `go`/channel hand-off would be another design
		hasGo := false
		ast.Inspect(cb, func(x ast.Node) bool {
			switch x.(type) {
			case *ast.GoStmt, *ast.SendStmt:
				hasGo = true
			}
			return true
		})
		if hasGo {
			fs.Tri("sendUnderMutex", Unknown, sw)
		} else {
			fs.Tri("sendUnderMutex", No, sw)
		}
		return
	}
	res := Unknown
	for _, l := range locks {
		if l.Pos() > send.Pos() {
			continue
		}
		recv := strings.TrimSuffix(f.Str(l.Fun), ".Lock")
		// matching unlock: deferred anywhere after the lock, or a plain call after the send
		unlocked := false
		ast.Inspect(cb, func(x ast.Node) bool {
			switch s := x.(type) {
			case *ast.DeferStmt:
				if f.Str(s.Call.Fun) == recv+".Unlock" && s.Pos() > l.Pos() && s.Pos() < send.Pos() {
					unlocked = true
				}
			case *ast.CallExpr:
				if f.Str(s.Fun) == recv+".Unlock" && s.Pos() > send.End() {
					unlocked = true
				}
			}
			return true
		})
		// the mutex must be shared by all invocations of the callback: declared outside it
		declaredInside := false
		ast.Inspect(cb, func(x ast.Node) bool {
			switch s := x.(type) {
			case *ast.AssignStmt:
				if s.Tok == token.DEFINE {
					for _, lh := range s.Lhs {
						if f.Str(lh) == recv {
							declaredInside = true
						}
					}
				}
			case *ast.ValueSpec:
				for _, nm := range s.Names {
					if nm.Name == recv {
						declaredInside = true
					}
				}
			}
			return true
		})
		if unlocked && !declaredInside {
			res = Yes
			sw = c19Gateway + ":" + itoa(f.Line(l))
		}
	}
	fs.Tri("sendUnderMutex", res, sw)
}

func c19HasGo(n ast.Node) bool {
	has := false
	ast.Inspect(n, func(x ast.Node) bool {
		if _, ok := x.(*ast.GoStmt); ok {
			has = true
		}
		return true
	})
	return has
}

func c19Emit(fs *Facts) {
	f, err := Load(c19Swamp)
	if err != nil {
		fs.Err("%v", err)
		fs.Tri("emittedUnderGuard", Unknown, c19Swamp)
		fs.Tri("fanoutSynchronous", Unknown, c19Swamp)
		fs.Tri("oldIsLive", Unknown, c19Swamp)
		fs.Tri("eventTimeFromClock", Unknown, c19Swamp)
		c19SubscribersAfterStore(fs)
		fs.Tri("stopsSendingAfterDrain", Unknown, c19Swamp)
		return
	}
	save := f.Func("swamp", "SaveFunction")
	del := f.Func("swamp", ccDeleteHandlerName(f))
	sendE := f.Func("swamp", "sendEventToHydra")
	sendD := f.Func("swamp", "sendDeletedEventToClient")
	if save == nil || del == nil || sendE == nil || sendD == nil {
		fs.Tri("emittedUnderGuard", Unknown, c19Swamp)
		fs.Tri("fanoutSynchronous", Unknown, c19Swamp)
		fs.Tri("oldIsLive", Unknown, c19Swamp)
		fs.Tri("eventTimeFromClock", Unknown, c19Swamp)
		c19SubscribersAfterStore(fs)
		fs.Tri("stopsSendingAfterDrain", Unknown, c19Swamp)
		return
	}
	// ---- emittedUnderGuard: per top-level branch of SaveFunction
	res, where := Yes, c19Swamp+":"+itoa(f.Line(save))
	total := 0
	for _, st := range save.Body.List {
		ifs, ok := st.(*ast.IfStmt)
		if !ok {
			continue
		}
		sends := f.Calls(ifs.Body, "s.sendEventToHydra")
		rels := f.CallsSuffix(ifs.Body, ".ReleaseTreasureGuard")
		total += len(sends)
		for _, s := range sends {
			for _, r := range rels {
				if r.Pos() < s.Pos() {
					res = No
					where = c19Swamp + ":" + itoa(f.Line(r))
				}
			}
		}
	}
	if total == 0 {
		res = Unknown
	}
	// deleteHandler: guard taken, release deferred, event sent in the body, no early release
	starts := f.CallsSuffix(del, ".StartTreasureGuard")
	evs := f.Calls(del, "s.sendDeletedEventToClient")
	deferred := false
	early := false
	ast.Inspect(del, func(x ast.Node) bool {
		switch s := x.(type) {
		case *ast.DeferStmt:
			if strings.HasSuffix(f.Str(s.Call.Fun), ".ReleaseTreasureGuard") {
				deferred = true
				return false
			}
		case *ast.CallExpr:
			if strings.HasSuffix(f.Str(s.Fun), ".ReleaseTreasureGuard") && len(evs) == 1 && s.Pos() < evs[0].Pos() {
				early = true
			}
		}
		return true
	})
	switch {
	case len(starts) != 1 || len(evs) != 1:
		res = Unknown
	case early || !deferred:
		if res == Yes {
			res = No
			where = c19Swamp + ":" + itoa(f.Line(del))
		}
	}
	fs.Tri("emittedUnderGuard", res, where)

	// ---- fanoutSynchronous
	fan := Yes
	fw := c19Hydra
	if c19HasGo(sendE) || c19HasGo(sendD) {
		fan = No
		fw = c19Swamp + ":" + itoa(f.Line(sendE))
	}
	if len(f.Calls(sendE, "s.swampEventCallback")) != 1 || len(f.Calls(sendD, "s.swampEventCallback")) != 1 {
		fan = Unknown
	}
	if h, err := Load(c19Hydra); err != nil {
		fan = Unknown
	} else if cbf := h.Func("hydra", "eventCallbackFunction"); cbf == nil {
		fan = Unknown
	} else {
		fw = c19Hydra + ":" + itoa(h.Line(cbf))
		if c19HasGo(cbf) {
			fan = No
		} else if len(h.Calls(cbf, "function")) != 1 {
			fan = Unknown
		}
	}
	fs.Tri("fanoutSynchronous", fan, fw)

	// ---- oldIsLive
	old, ow := Unknown, c19Swamp+":"+itoa(f.Line(save))
	for _, c := range f.Calls(save, "s.sendEventToHydra") {
		if len(c.Args) != 3 || !strings.Contains(f.Str(c.Args[2]), "StatusModified") {
			continue
		}
		id, ok := c.Args[1].(*ast.Ident)
		if !ok {
			continue
		}
		ast.Inspect(save, func(x ast.Node) bool {
			as, ok := x.(*ast.AssignStmt)
			if !ok || len(as.Lhs) != 1 || len(as.Rhs) != 1 || f.Str(as.Lhs[0]) != id.Name {
				return true
			}
			rhs := f.Str(as.Rhs[0])
			if strings.HasPrefix(rhs, "s.beaconKey.Get(") {
				old = Yes
				ow = c19Swamp + ":" + itoa(f.Line(as))
			} else {
				old = Unknown
			}
			return true
		})
	}
	fs.Tri("oldIsLive", old, ow)

	// ---- eventTimeFromClock: every Event{…} literal takes EventTime from time.Now()
	et, etWhere, seen := Yes, c19Swamp, 0
	// simple local definitions (name := expr / name = expr); a name that is assigned from the record's metadata
	// anywhere counts as such
	localDefs := map[string]string{}
	ast.Inspect(f.AST, func(x ast.Node) bool {
		if as, ok := x.(*ast.AssignStmt); ok && len(as.Lhs) == 1 && len(as.Rhs) == 1 {
			if id, ok := as.Lhs[0].(*ast.Ident); ok {
				src := f.Str(as.Rhs[0])
				if prev, had := localDefs[id.Name]; had && (strings.Contains(prev, "GetCreatedAt()") || strings.Contains(prev, "GetModifiedAt()")) {
					return true
				}
				localDefs[id.Name] = src
			}
		}
		return true
	})
	ast.Inspect(f.AST, func(x ast.Node) bool {
		cl, ok := x.(*ast.CompositeLit)
		if !ok || f.Str(cl.Type) != "Event" {
			return true
		}
		for _, el := range cl.Elts {
			kv, ok := el.(*ast.KeyValueExpr)
			if !ok || f.Str(kv.Key) != "EventTime" {
				continue
			}
			seen++
			val := f.Str(kv.Value)
			if id, isId := kv.Value.(*ast.Ident); isId {
				// one level of local assignment: `now := time.Now()…; EventTime: now`
				if src, ok := localDefs[id.Name]; ok {
					val = src
				}
			}
			switch {
			case strings.Contains(val, "time.Now()"):
			case strings.Contains(val, "GetCreatedAt()") || strings.Contains(val, "GetModifiedAt()") || strings.Contains(val, "GetExpirationTime()"):
				et, etWhere = No, c19Swamp+":"+itoa(f.Line(kv))
			default:
				if et == Yes {
					et, etWhere = Unknown, c19Swamp+":"+itoa(f.Line(kv))
				}
			}
		}
		return true
	})
	if seen == 0 {
		et = Unknown
	}
	fs.Tri("eventTimeFromClock", et, etWhere)
	c19SubscribersAfterStore(fs)
	c19StopAfterDrain(fs, f)
}

func c19Flags(fs *Facts) {
	f, err := Load(c19Treasure)
	if err != nil {
		fs.Err("%v", err)
		fs.Tri("resetsChangedFlags", Unknown, c19Treasure)
		return
	}
	// the flags: bool fields of struct `treasure` whose name ends in "Changed"
	var flags []string
	ast.Inspect(f.AST, func(x ast.Node) bool {
		ts, ok := x.(*ast.TypeSpec)
		if !ok || ts.Name.Name != "treasure" {
			return true
		}
		if st, ok := ts.Type.(*ast.StructType); ok {
			for _, fl := range st.Fields.List {
				if f.Str(fl.Type) != "bool" {
					continue
				}
				for _, nm := range fl.Names {
					if strings.HasSuffix(nm.Name, "Changed") {
						flags = append(flags, nm.Name)
					}
				}
			}
		}
		return false
	})
	save := f.Func("treasure", "Save")
	if len(flags) == 0 || save == nil {
		fs.Tri("resetsChangedFlags", Unknown, c19Treasure)
		return
	}
	// per function of treasure.go: which flags does it set to false?
	clears := map[string]map[string]bool{}
	for _, d := range f.AST.Decls {
		fd, ok := d.(*ast.FuncDecl)
		if !ok || fd.Body == nil {
			continue
		}
		ast.Inspect(fd.Body, func(x ast.Node) bool {
			as, ok := x.(*ast.AssignStmt)
			if !ok || len(as.Lhs) != len(as.Rhs) {
				return true
			}
			for i, l := range as.Lhs {
				ls := f.Str(l)
				for _, fl := range flags {
					if ls == "t."+fl && f.Str(as.Rhs[i]) == "false" {
						if clears[fd.Name.Name] == nil {
							clears[fd.Name.Name] = map[string]bool{}
						}
						clears[fd.Name.Name][fl] = true
					}
				}
			}
			return true
		})
	}
	// callers: treasure.Save and swamp.SaveFunction
	called := map[string]bool{"Save": true}
	collect := func(file *File, fn *ast.FuncDecl) {
		if fn == nil {
			return
		}
		ast.Inspect(fn, func(x ast.Node) bool {
			if c, ok := x.(*ast.CallExpr); ok {
				if se, ok := c.Fun.(*ast.SelectorExpr); ok {
					called[se.Sel.Name] = true
				}
			}
			return true
		})
	}
	collect(f, save)
	if sw, err := Load(c19Swamp); err == nil {
		collect(sw, sw.Func("swamp", "SaveFunction"))
	}
	best, bestFn := 0, ""
	for fn, set := range clears {
		if called[fn] && len(set) > best {
			best, bestFn = len(set), fn
		}
	}
	where := c19Treasure + ":" + itoa(f.Line(save))
	switch {
	case best == len(flags):
		fs.Tri("resetsChangedFlags", Yes, c19Treasure+":"+bestFn)
	case best == 0:
		fs.Tri("resetsChangedFlags", No, where)
	default:
		fs.Tri("resetsChangedFlags", Unknown, c19Treasure+":"+bestFn)
	}
}

// checksSubscribersAfterStore: hydra.SummonSwamp consults hasEventSubscriber only after h.swamps.Store (and nothing
// on the creation path switches event sending on before that)
func c19SubscribersAfterStore(fs *Facts) {
	const name, path = "checksSubscribersAfterStore", "app/core/hydra/hydra.go"
	if _, done := fs.Lean[name]; done {
		return
	}
	h, err := Load(path)
	if err != nil {
		fs.Err("%v", err)
		fs.Tri(name, Unknown, path)
		return
	}
	sm := h.Func("hydra", "SummonSwamp")
	if sm == nil {
		fs.Tri(name, Unknown, path)
		return
	}
	stores := h.Calls(sm, "h.swamps.Store")
	looks := h.Calls(sm, "h.hasEventSubscriber")
	if len(stores) != 1 {
		fs.Tri(name, Unknown, path+":"+itoa(h.Line(sm)))
		return
	}
	if cr := h.Func("hydra", "createNewSwamp"); cr != nil && len(h.CallsSuffix(cr, ".StartSendingEvents")) > 0 {
		fs.Tri(name, No, path+":"+itoa(h.Line(cr)))
		return
	}
	if len(looks) == 0 {
		fs.Tri(name, Unknown, path+":"+itoa(h.Line(stores[0])))
		return
	}
	for _, l := range looks {
		if l.Pos() < stores[0].Pos() {
			fs.Tri(name, No, path+":"+itoa(h.Line(l)))
			return
		}
	}
	for _, st := range h.CallsSuffix(sm, ".StartSendingEvents") {
		if st.Pos() < stores[0].Pos() {
			fs.Tri(name, No, path+":"+itoa(h.Line(st)))
			return
		}
	}
	fs.Tri(name, Yes, path+":"+itoa(h.Line(looks[0])))
}

// stopsSendingAfterDrain: in the function that drains the vigils and destroys the swamp, StopSendingEvents comes
// after WaitForActiveVigilsClosed (and after the branch that closes a non-empty swamp instead)
func c19StopAfterDrain(fs *Facts, f *File) {
	const name = "stopsSendingAfterDrain"
	if _, done := fs.Lean[name]; done {
		return
	}
	var body *ast.FuncDecl
	for _, d := range f.AST.Decls {
		if fd, ok := d.(*ast.FuncDecl); ok && fd.Body != nil && len(f.CallsSuffix(fd, ".WaitForActiveVigilsClosed")) == 1 &&
			len(f.CallsSuffix(fd, ".chroniclerInterface.Destroy")) == 1 {
			body = fd
		}
	}
	if body == nil {
		fs.Tri(name, Unknown, c19Swamp)
		return
	}
	wait := f.CallsSuffix(body, ".WaitForActiveVigilsClosed")[0]
	stops := f.CallsSuffix(body, ".StopSendingEvents")
	if len(stops) == 0 {
		fs.Tri(name, Unknown, c19Swamp+":"+itoa(f.Line(body)))
		return
	}
	for _, st := range stops {
		if st.Pos() < wait.Pos() {
			fs.Tri(name, No, c19Swamp+":"+itoa(f.Line(st)))
			return
		}
	}
	fs.Tri(name, Yes, c19Swamp+":"+itoa(f.Line(stops[0])))
}
