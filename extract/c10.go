package main

import (
	"fmt"
	"go/ast"
	"go/token"
	"sort"
	"strings"
)

// C10: lockset access table for the `beacon` and `treasure` structs.
//
// For every method of the struct and every access `recv.<field>`: is it a write, and in which mode is the
// struct's own `mu` held at that point (source-order scan of recv.mu.Lock/RLock/Unlock/RUnlock; deferred unlocks
// hold to the end of the method).  Accesses through sync/atomic are not rows of the mutex tables (label swampAtomic: c10Atomics).  Unexported methods that
// never touch `mu` inherit the weakest mode of their call sites inside the file.  A method that returns a
// map/slice field directly adds a row "<method> (escapes to caller)" with no lock: the caller reads it unlocked.
func init() {
	Register("C10", Extractor{Import: "Hv.Props.C10", Type: "Hv.C10.Facts", Run: c10Run})
}

type c10Row struct {
	strct, field, method string
	write                bool
	held                 int // 0 none, 1 read, 2 write
}

type c10Acc struct {
	pos   token.Pos
	field string
	write bool
}

func c10Run(fs *Facts) {
	var rows []c10Row
	complete := true
	swampFiles := []string{"app/core/hydra/swamp/swamp.go", "app/core/hydra/swamp/swamp_bucket.go", "app/core/hydra/swamp/swamp_patch.go",
		"app/core/hydra/swamp/swamp_patch_expired.go"}
	for _, spec := range []struct {
		paths              []string
		strct, lock, label string
		only               []string // nil: every field but the lock
	}{
		{[]string{"app/core/hydra/swamp/beacon/beacon.go"}, "beacon", "mu", "beacon", nil},
		{[]string{"app/core/hydra/swamp/treasure/treasure.go"}, "treasure", "mu", "treasure", nil},
		// bucket: the equality index under mu, the pending queue under pendingMu
		{[]string{"app/core/hydra/swamp/bucket/bucket.go"}, "bucket", "mu", "bucket", []string{"byValue", "byKey"}},
		{[]string{"app/core/hydra/swamp/bucket/bucket.go"}, "bucket", "pendingMu", "bucketPending", []string{"pending"}},
		// swamp: the plain (non-atomic, non-interface) fields, each with the mutex that is documented / used for it
		{swampFiles, "swamp", "mu", "swamp", []string{"writeInterval", "closeAfterIdle"}},
		{swampFiles, "swamp", "bucketsMu", "swampBuckets", []string{"buckets"}},
		{swampFiles, "swamp", "closeMutex", "swampClose", []string{"destroyed"}},
	} {
		var files []*File
		bad := false
		for _, pth := range spec.paths {
			f, err := Load(pth)
			if err != nil {
				fs.Err("%v", err)
				bad = true
				continue
			}
			files = append(files, f)
		}
		if bad || len(files) == 0 {
			complete = false
			continue
		}
		r, ok := c10Struct(files, spec.strct, spec.lock, spec.label, spec.only)
		if !ok {
			complete = false
		}
		rows = append(rows, r...)
	}
	// atomic discipline of the swamp's counters / timestamps: a field that is accessed through sync/atomic anywhere
	// must be accessed that way everywhere (audit7 mutant 10a: a plain store to lastInteractionTime)
	{
		var files []*File
		for _, pth := range swampFiles {
			if f, err := Load(pth); err == nil {
				files = append(files, f)
			}
		}
		rows = append(rows, c10Atomics(files, "swamp", "swampAtomic")...)
	}
	// canonical order, duplicates removed
	sort.Slice(rows, func(i, j int) bool {
		a, b := rows[i], rows[j]
		if a.strct != b.strct {
			return a.strct < b.strct
		}
		if a.field != b.field {
			return a.field < b.field
		}
		if a.method != b.method {
			return a.method < b.method
		}
		if a.write != b.write {
			return !a.write
		}
		return a.held < b.held
	})
	var lean []string
	seen := map[string]bool{}
	for _, r := range rows {
		k := fmt.Sprintf("⟨%q, %q, %q, %v, .%s⟩", r.strct, r.field, r.method, r.write, []string{"none", "read", "write"}[r.held])
		if !seen[k] {
			seen[k] = true
			lean = append(lean, k)
		}
	}
	fs.Tri("complete", TriOf(complete && len(lean) > 0), "beacon.go, treasure.go, bucket.go, swamp*.go")
	fs.Raw("table", "[\n    "+strings.Join(lean, ",\n    ")+"]", fmt.Sprintf("%d rows", len(lean)), "")
}

// c10Atomics: the fields of strct that some method hands to a sync/atomic function as &recv.F, and every access to them in
// the methods of strct.  An access through sync/atomic is a row with mode write (two of them never race); a plain
// access is a row with mode none, which pairs up with every atomic store.
func c10Atomics(files []*File, strct, label string) []c10Row {
	type acc struct {
		field, method string
		write, atomic bool
	}
	var accs []acc
	isAtomic := map[string]bool{}
	for _, f := range files {
		for _, d := range f.AST.Decls {
			fd, ok := d.(*ast.FuncDecl)
			if !ok || fd.Recv == nil || len(fd.Recv.List) != 1 || len(fd.Recv.List[0].Names) != 1 || fd.Body == nil {
				continue
			}
			if t := strings.TrimPrefix(f.Str(fd.Recv.List[0].Type), "*"); t != strct {
				continue
			}
			recv := fd.Recv.List[0].Names[0].Name
			inAtomic := map[*ast.SelectorExpr]bool{}
			writes := map[*ast.SelectorExpr]bool{}
			ast.Inspect(fd.Body, func(x ast.Node) bool {
				switch v := x.(type) {
				case *ast.CallExpr:
					fn := f.Str(v.Fun)
					if strings.HasPrefix(fn, "atomic.") && len(v.Args) > 0 {
						if u, ok := v.Args[0].(*ast.UnaryExpr); ok && u.Op == token.AND {
							if se, ok := u.X.(*ast.SelectorExpr); ok {
								if id, ok := se.X.(*ast.Ident); ok && id.Name == recv {
									inAtomic[se] = true
									isAtomic[se.Sel.Name] = true
									accs = append(accs, acc{se.Sel.Name, fd.Name.Name, !strings.HasPrefix(fn, "atomic.Load"), true})
								}
							}
						}
					}
				case *ast.AssignStmt:
					for _, l := range v.Lhs {
						if se, ok := l.(*ast.SelectorExpr); ok {
							writes[se] = true
						}
					}
				case *ast.IncDecStmt:
					if se, ok := v.X.(*ast.SelectorExpr); ok {
						writes[se] = true
					}
				}
				return true
			})
			ast.Inspect(fd.Body, func(x ast.Node) bool {
				if se, ok := x.(*ast.SelectorExpr); ok && !inAtomic[se] {
					if id, ok := se.X.(*ast.Ident); ok && id.Name == recv {
						accs = append(accs, acc{se.Sel.Name, fd.Name.Name, writes[se], false})
					}
				}
				return true
			})
		}
	}
	// a field that no method writes (set by the constructor only) cannot race
	written := map[string]bool{}
	for _, a := range accs {
		if a.write {
			written[a.field] = true
		}
	}
	var rows []c10Row
	for _, a := range accs {
		if !isAtomic[a.field] || !written[a.field] {
			continue
		}
		held := 0
		if a.atomic {
			held = 2
		}
		rows = append(rows, c10Row{label, a.field, a.method, a.write, held})
	}
	return rows
}

func c10Struct(files []*File, strct, lock, label string, only []string) ([]c10Row, bool) {
	// fields
	fields := map[string]string{}
	keep := map[string]bool{}
	for _, n := range only {
		keep[n] = true
	}
	for _, f := range files {
		ast.Inspect(f.AST, func(x ast.Node) bool {
			ts, ok := x.(*ast.TypeSpec)
			if !ok || ts.Name.Name != strct {
				return true
			}
			if st, ok := ts.Type.(*ast.StructType); ok {
				for _, fl := range st.Fields.List {
					for _, nm := range fl.Names {
						if nm.Name != lock && (only == nil || keep[nm.Name]) {
							fields[nm.Name] = f.Str(fl.Type)
						}
					}
				}
			}
			return false
		})
	}
	if len(fields) == 0 {
		return nil, false
	}
	type meth struct {
		file    *File
		fd      *ast.FuncDecl
		recv    string
		accs    []c10Acc
		lockEvs []struct {
			pos  token.Pos
			mode int
		} // mode after the event
		usesLock bool
		escapes  []string
		calls    []struct {
			pos  token.Pos
			name string
		}
	}
	var meths []*meth
	byName := map[string]*meth{}
	ok := true
	for _, f := range files {
		for _, d := range f.AST.Decls {
			fd, isFn := d.(*ast.FuncDecl)
			if !isFn || fd.Body == nil {
				continue
			}
			// a method of the struct, or a free helper whose first parameter is the struct (insertLocked(b *bucket, …))
			var recvField *ast.Field
			if fd.Recv != nil && len(fd.Recv.List) == 1 {
				recvField = fd.Recv.List[0]
			} else if fd.Recv == nil && fd.Type.Params != nil && len(fd.Type.Params.List) > 0 {
				recvField = fd.Type.Params.List[0]
			}
			if recvField == nil {
				continue
			}
			t := recvField.Type
			if s, isStar := t.(*ast.StarExpr); isStar {
				t = s.X
			}
			id, isId := t.(*ast.Ident)
			if !isId || id.Name != strct || len(recvField.Names) != 1 {
				continue
			}
			m := &meth{file: f, fd: fd, recv: recvField.Names[0].Name}
			meths = append(meths, m)
			byName[fd.Name.Name] = m
			deferred := map[ast.Node]bool{}
			ast.Inspect(fd.Body, func(x ast.Node) bool {
				if ds, isDefer := x.(*ast.DeferStmt); isDefer {
					ast.Inspect(ds, func(y ast.Node) bool { deferred[y] = true; return true })
				}
				return true
			})
			// writes: selectors that are (the base of) an assignment target, inc/dec operand or the first argument of delete
			writes := map[*ast.SelectorExpr]bool{}
			atomics := map[*ast.SelectorExpr]bool{}
			base := func(e ast.Expr) *ast.SelectorExpr {
				for {
					switch v := e.(type) {
					case *ast.IndexExpr:
						e = v.X
					case *ast.StarExpr:
						e = v.X
					case *ast.ParenExpr:
						e = v.X
					case *ast.SelectorExpr:
						// recv.field or recv.field.sub…: the innermost selector on the receiver
						if id, isId := v.X.(*ast.Ident); isId && id.Name == m.recv {
							return v
						}
						e = v.X
					default:
						return nil
					}
				}
			}
			// a reference to a map / slice field that leaves the method shares its storage with the struct: the field itself,
			// a slice expression of it, or a local variable that was assigned one of those
			isRefField := func(name string) bool {
				ty := fields[name]
				return strings.HasPrefix(ty, "map[") || strings.HasPrefix(ty, "[]")
			}
			alias := map[string]string{}
			var refOf func(e ast.Expr) string
			refOf = func(e ast.Expr) string {
				switch v := e.(type) {
				case *ast.ParenExpr:
					return refOf(v.X)
				case *ast.SliceExpr:
					return refOf(v.X)
				case *ast.Ident:
					return alias[v.Name]
				case *ast.SelectorExpr:
					if id, isId := v.X.(*ast.Ident); isId && id.Name == m.recv && isRefField(v.Sel.Name) {
						return v.Sel.Name
					}
				}
				return ""
			}
			for round := 0; round < 3; round++ {
				ast.Inspect(fd.Body, func(x ast.Node) bool {
					switch s := x.(type) {
					case *ast.AssignStmt:
						if len(s.Lhs) == len(s.Rhs) {
							for i, l := range s.Lhs {
								if id, isId := l.(*ast.Ident); isId && id.Name != "_" {
									if fld := refOf(s.Rhs[i]); fld != "" {
										alias[id.Name] = fld
									}
								}
							}
						}
					case *ast.ValueSpec:
						if len(s.Names) == len(s.Values) {
							for i, n := range s.Names {
								if fld := refOf(s.Values[i]); fld != "" {
									alias[n.Name] = fld
								}
							}
						}
					}
					return true
				})
			}
			ast.Inspect(fd.Body, func(x ast.Node) bool {
				switch s := x.(type) {
				case *ast.AssignStmt:
					for _, l := range s.Lhs {
						if b := base(l); b != nil {
							writes[b] = true
						}
					}
				case *ast.IncDecStmt:
					if b := base(s.X); b != nil {
						writes[b] = true
					}
				case *ast.CallExpr:
					fn := f.Str(s.Fun)
					if fn == "delete" && len(s.Args) > 0 {
						if b := base(s.Args[0]); b != nil {
							writes[b] = true
						}
					}
					if strings.HasPrefix(fn, "atomic.") {
						for _, a := range s.Args {
							ast.Inspect(a, func(y ast.Node) bool {
								if se, isSel := y.(*ast.SelectorExpr); isSel {
									atomics[se] = true
								}
								return true
							})
						}
					}
					// lock events
					switch fn {
					case m.recv + "." + lock + ".Lock", m.recv + "." + lock + ".RLock", m.recv + "." + lock + ".Unlock", m.recv + "." + lock + ".RUnlock":
						m.usesLock = true
						if deferred[s] {
							return true
						}
						mode := map[string]int{"Lock": 2, "RLock": 1, "Unlock": 0, "RUnlock": 0}[fn[strings.LastIndex(fn, ".")+1:]]
						m.lockEvs = append(m.lockEvs, struct {
							pos  token.Pos
							mode int
						}{s.Pos(), mode})
					}
					if se, isSel := s.Fun.(*ast.SelectorExpr); isSel {
						if id, isId := se.X.(*ast.Ident); isId && id.Name == m.recv {
							m.calls = append(m.calls, struct {
								pos  token.Pos
								name string
							}{s.Pos(), se.Sel.Name})
						}
					}
					if fid, isFid := s.Fun.(*ast.Ident); isFid && len(s.Args) > 0 {
						if a0, isA := s.Args[0].(*ast.Ident); isA && a0.Name == m.recv {
							m.calls = append(m.calls, struct {
								pos  token.Pos
								name string
							}{s.Pos(), fid.Name})
						}
					}
				case *ast.ReturnStmt:
					for _, r := range s.Results {
						if fld := refOf(r); fld != "" {
							m.escapes = append(m.escapes, fld)
						}
					}
				}
				return true
			})
			ast.Inspect(fd.Body, func(x ast.Node) bool {
				se, isSel := x.(*ast.SelectorExpr)
				if !isSel {
					return true
				}
				id, isId := se.X.(*ast.Ident)
				if !isId || id.Name != m.recv {
					return true
				}
				if _, isField := fields[se.Sel.Name]; !isField || atomics[se] {
					return true
				}
				m.accs = append(m.accs, c10Acc{pos: se.Pos(), field: se.Sel.Name, write: writes[se]})
				return true
			})
		}
	}
	// lock mode at a position: a walk over the statement structure.  A branch that ends in return / continue / break /
	// panic does not pass its lock state on; merging branches keep the weaker mode; a function literal that is not
	// called on the spot (go, stored callback) runs at an unknown time: mode 0; a deferred literal runs at the end.
	modeMaps := map[*meth]map[token.Pos]int{}
	for _, m := range meths {
		mm := map[token.Pos]int{}
		modeMaps[m] = mm
		recvMu := m.recv + "." + lock + "."
		f := m.file
		var walkStmts func(list []ast.Stmt, mode int) (int, bool)
		var walkStmt func(st ast.Stmt, mode int) (int, bool)
		var markExpr func(n ast.Node, mode int)
		markExpr = func(n ast.Node, mode int) {
			if n == nil {
				return
			}
			ast.Inspect(n, func(x ast.Node) bool {
				switch v := x.(type) {
				case *ast.FuncLit:
					walkStmts(v.Body.List, 0)
					return false
				case *ast.CallExpr:
					if fl, isLit := v.Fun.(*ast.FuncLit); isLit {
						for _, a := range v.Args {
							markExpr(a, mode)
						}
						walkStmts(fl.Body.List, mode) // called on the spot
						return false
					}
					mm[v.Pos()] = mode
					// a literal handed to a call as an argument (sort.Slice comparator, Range callback) is taken to run
					// during that call; literals that are stored, or started with `go`, are not
					hasLit := false
					for _, a := range v.Args {
						if _, isLit := a.(*ast.FuncLit); isLit {
							hasLit = true
						}
					}
					if hasLit {
						markExpr(v.Fun, mode)
						for _, a := range v.Args {
							if fl, isLit := a.(*ast.FuncLit); isLit {
								walkStmts(fl.Body.List, mode)
							} else {
								markExpr(a, mode)
							}
						}
						return false
					}
				case *ast.SelectorExpr:
					mm[v.Pos()] = mode
				}
				return true
			})
		}
		terminates := func(list []ast.Stmt) bool {
			if len(list) == 0 {
				return false
			}
			switch l := list[len(list)-1].(type) {
			case *ast.ReturnStmt, *ast.BranchStmt:
				return true
			case *ast.ExprStmt:
				if c, isCall := l.X.(*ast.CallExpr); isCall && f.Str(c.Fun) == "panic" {
					return true
				}
			}
			return false
		}
		min := func(a, b int) int {
			if a < b {
				return a
			}
			return b
		}
		walkStmt = func(st ast.Stmt, mode int) (int, bool) {
			switch v := st.(type) {
			case nil:
				return mode, false
			case *ast.BlockStmt:
				return walkStmts(v.List, mode)
			case *ast.ExprStmt:
				if c, isCall := v.X.(*ast.CallExpr); isCall {
					fn := f.Str(c.Fun)
					if strings.HasPrefix(fn, recvMu) {
						mm[c.Pos()] = mode
						switch fn[len(recvMu):] {
						case "Lock":
							return 2, false
						case "RLock":
							return 1, false
						case "Unlock", "RUnlock":
							return 0, false
						}
					}
				}
				markExpr(v.X, mode)
				return mode, false
			case *ast.DeferStmt:
				if fl, isLit := v.Call.Fun.(*ast.FuncLit); isLit {
					walkStmts(fl.Body.List, mode) // approximates "at return": the mode of the defer site
				} else if !strings.HasPrefix(f.Str(v.Call.Fun), recvMu) {
					markExpr(v.Call, mode)
				}
				return mode, false
			case *ast.GoStmt:
				if fl, isLit := v.Call.Fun.(*ast.FuncLit); isLit {
					for _, a := range v.Call.Args {
						markExpr(a, mode)
					}
					walkStmts(fl.Body.List, 0)
				} else {
					markExpr(v.Call, 0)
				}
				return mode, false
			case *ast.IfStmt:
				if v.Init != nil {
					mode, _ = walkStmt(v.Init, mode)
				}
				markExpr(v.Cond, mode)
				m1, _ := walkStmts(v.Body.List, mode)
				t1 := terminates(v.Body.List)
				m2, t2 := mode, false
				if v.Else != nil {
					m2, _ = walkStmt(v.Else, mode)
					if b, isBlock := v.Else.(*ast.BlockStmt); isBlock {
						t2 = terminates(b.List)
					}
				}
				switch {
				case t1 && t2:
					return mode, true
				case t1:
					return m2, false
				case t2:
					return m1, false
				}
				return min(m1, m2), false
			case *ast.ForStmt:
				if v.Init != nil {
					mode, _ = walkStmt(v.Init, mode)
				}
				markExpr(v.Cond, mode)
				mb, _ := walkStmts(v.Body.List, mode)
				if v.Post != nil {
					walkStmt(v.Post, mb)
				}
				return min(mode, mb), false
			case *ast.RangeStmt:
				markExpr(v.X, mode)
				mb, _ := walkStmts(v.Body.List, mode)
				return min(mode, mb), false
			case *ast.SwitchStmt, *ast.TypeSwitchStmt, *ast.SelectStmt:
				var body *ast.BlockStmt
				switch sw := v.(type) {
				case *ast.SwitchStmt:
					if sw.Init != nil {
						mode, _ = walkStmt(sw.Init, mode)
					}
					markExpr(sw.Tag, mode)
					body = sw.Body
				case *ast.TypeSwitchStmt:
					body = sw.Body
				case *ast.SelectStmt:
					body = sw.Body
				}
				res := mode
				for _, cl := range body.List {
					var list []ast.Stmt
					switch c := cl.(type) {
					case *ast.CaseClause:
						for _, e := range c.List {
							markExpr(e, mode)
						}
						list = c.Body
					case *ast.CommClause:
						if c.Comm != nil {
							walkStmt(c.Comm, mode)
						}
						list = c.Body
					}
					mc, _ := walkStmts(list, mode)
					if !terminates(list) {
						res = min(res, mc)
					}
				}
				return res, false
			case *ast.LabeledStmt:
				return walkStmt(v.Stmt, mode)
			default:
				markExpr(st, mode)
				return mode, false
			}
		}
		walkStmts = func(list []ast.Stmt, mode int) (int, bool) {
			for _, st := range list {
				var t bool
				mode, t = walkStmt(st, mode)
				if t {
					return mode, true
				}
			}
			return mode, false
		}
		walkStmts(m.fd.Body.List, 0)
	}
	modeAt := func(m *meth, pos token.Pos) int {
		if md, known := modeMaps[m][pos]; known {
			return md
		}
		// not reached by the walk (should not happen): fall back to the source-order scan
		cur := 0
		for _, e := range m.lockEvs {
			if e.pos < pos {
				cur = e.mode
			}
		}
		return cur
	}
	// unexported helpers that never touch mu inherit the weakest mode of their call sites (transitively)
	inherited := map[string]int{}
	isHelper := func(m *meth) bool { return !m.usesLock && !ast.IsExported(m.fd.Name.Name) }
	for round := 0; round < 6; round++ {
		for _, m := range meths {
			n := m.fd.Name.Name
			if !isHelper(m) {
				continue
			}
			best, seen := 2, false
			for _, c := range meths {
				if c == m {
					continue
				}
				for _, call := range c.calls {
					if call.name != n {
						continue
					}
					md := modeAt(c, call.pos)
					if isHelper(c) {
						h, known := inherited[c.fd.Name.Name]
						if !known {
							continue // caller not resolved yet (or never called)
						}
						md = h
					}
					seen = true
					if md < best {
						best = md
					}
				}
			}
			if seen {
				inherited[n] = best
			}
		}
	}
	var rows []c10Row
	for _, m := range meths {
		n := m.fd.Name.Name
		for _, a := range m.accs {
			held := modeAt(m, a.pos)
			if h, isInh := inherited[n]; isInh && !m.usesLock {
				held = h
			}
			rows = append(rows, c10Row{label, a.field, n, a.write, held})
		}
		for _, e := range m.escapes {
			rows = append(rows, c10Row{label, e, n + " (escapes to caller)", false, 0})
		}
	}
	return rows, ok && len(meths) > 0
}
