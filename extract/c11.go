package main

import (
	"go/ast"
	"go/token"
	"strings"
)

// C11 facts (beacon.go selection passes, the two predicate builders, PatchExpired's tail).
func init() {
	Register("C11", Extractor{Import: "Hv.Props.C11", Type: "Hv.C11.Facts", Run: c11Run})
}

const (
	c11Beacon  = "app/core/hydra/swamp/beacon/beacon.go"
	c11Swamp   = "app/core/hydra/swamp/swamp.go"
	c11PExp    = "app/core/hydra/swamp/swamp_patch_expired.go"
	c11GwShift = "app/server/gateway/gateway_shift_matching.go"
	c11GwPExp  = "app/server/gateway/gateway_patch_expired.go"
	c11Bucket  = "app/server/gateway/bucket_exec.go"
)

var c11Passes = []string{"ShiftExpired", "ShiftMatching", "SelectExpiredForPatchWithCap", "SelectExpiredForPatch"}

func c11Run(fs *Facts) {
	names := []string{"selectUnderLock", "checksExpNonZero", "rechecksIndexedLeg", "reindexChecksExists", "patchChecksExists",
		"emptyCandMeansAll", "guardUnderBeaconLock", "beaconUnderGuard", "shiftDeleteRevalidates"}
	unknownAll := func(where string) {
		for _, n := range names {
			if _, ok := fs.Lean[n]; !ok {
				fs.Tri(n, Unknown, where)
			}
		}
		if _, ok := fs.Lean["counterCmp"]; !ok {
			fs.Enum("counterCmp", "unknown", where)
		}
	}
	b, err := Load(c11Beacon)
	if err != nil {
		fs.Err("%v", err)
		unknownAll(c11Beacon)
		return
	}
	// ---- selectUnderLock / counterCmp / checksExpNonZero / guardUnderBeaconLock
	lockRes, lockWhere := Yes, c11Beacon
	cmp, cmpWhere, cmpSeen := "lt", c11Beacon, 0
	expRes, expWhere := Yes, c11Beacon
	gub, gubWhere := No, c11Beacon
	for _, n := range append(append([]string{}, c11Passes...), "ReindexExpiration") {
		fn := b.Func("beacon", n)
		if fn == nil {
			unknownAll(c11Beacon + " (" + n + " not found)")
			return
		}
		w := c11Beacon + ":" + itoa(b.Line(fn)) + " (" + n + ")"
		locks := b.Calls(fn, "b.mu.Lock")
		deferred := false
		ast.Inspect(fn, func(x ast.Node) bool {
			if d, ok := x.(*ast.DeferStmt); ok && b.Str(d.Call.Fun) == "b.mu.Unlock" {
				deferred = true
			}
			return true
		})
		if len(b.Calls(fn, "b.mu.RLock")) > 0 || len(locks) != 1 || !deferred {
			lockRes, lockWhere = No, w
		}
		if n == "ReindexExpiration" {
			continue
		}
		ast.Inspect(fn, func(x ast.Node) bool {
			be, ok := x.(*ast.BinaryExpr)
			if !ok {
				return true
			}
			l, r := b.Str(be.X), b.Str(be.Y)
			if l == "counter" && (r == "howMany" || r == "effectiveHowMany") {
				cmpSeen++
				switch be.Op.String() {
				case "<":
				case "<=":
					cmp, cmpWhere = "le", w
				default:
					cmp, cmpWhere = "unknown", w
				}
			}
			return true
		})
		if n != "ShiftMatching" {
			has := false
			ast.Inspect(fn, func(x ast.Node) bool {
				if be, ok := x.(*ast.BinaryExpr); ok && b.Str(be) == "exp != 0" {
					has = true
				}
				return true
			})
			if !has {
				expRes, expWhere = No, w
			}
		}
	}
	// guardUnderBeaconLock: any beacon method that WAITS for a record guard (StartTreasureGuard with a first argument
	// other than the literal false) between taking b.mu and releasing it
	for _, d := range b.AST.Decls {
		fn, ok := d.(*ast.FuncDecl)
		if !ok || fn.Body == nil || fn.Recv == nil {
			continue
		}
		deferredPos := map[token.Pos]bool{}
		ast.Inspect(fn, func(x ast.Node) bool {
			if ds, ok := x.(*ast.DeferStmt); ok {
				deferredPos[ds.Call.Pos()] = true
			}
			return true
		})
		var unlocks []token.Pos
		for _, u := range b.Calls(fn, "b.mu.Unlock", "b.mu.RUnlock") {
			if !deferredPos[u.Pos()] {
				unlocks = append(unlocks, u.Pos())
			}
		}
		for _, c := range b.CallsSuffix(fn, ".StartTreasureGuard") {
			if len(c.Args) > 0 && b.Str(c.Args[0]) == "false" {
				continue
			}
			for _, l := range b.Calls(fn, "b.mu.Lock", "b.mu.RLock") {
				if l.Pos() > c.Pos() {
					continue
				}
				released := false
				for _, u := range unlocks {
					if u > l.Pos() && u < c.Pos() {
						released = true
					}
				}
				if !released {
					gub, gubWhere = Yes, c11Beacon+":"+itoa(b.Line(c))+" ("+fn.Name.Name+")"
				}
			}
		}
	}
	if cmpSeen < len(c11Passes) && cmp == "lt" {
		cmp = "unknown"
	}
	fs.Tri("selectUnderLock", lockRes, lockWhere)
	fs.Enum("counterCmp", cmp, cmpWhere)
	fs.Tri("checksExpNonZero", expRes, expWhere)
	fs.Tri("guardUnderBeaconLock", gub, gubWhere)

	// ---- rechecksIndexedLeg / emptyCandMeansAll
	gs, e1 := Load(c11GwShift)
	gp, e2 := Load(c11GwPExp)
	bk, e3 := Load(c11Bucket)
	if e1 != nil || e2 != nil || e3 != nil {
		unknownAll(c11GwShift)
		return
	}
	bs := gs.Func("", "buildShiftMatchingPredicate")
	bp := gp.Func("", "buildPatchExpiredSelectionPredicate")
	ck := bk.Func("", "candidateKeySet")
	if bs == nil || bp == nil || ck == nil {
		unknownAll(c11GwShift)
		return
	}
	usesResidual := func(f *File, fn *ast.FuncDecl) (bool, int) {
		found, line := false, f.Line(fn)
		ast.Inspect(fn, func(x ast.Node) bool {
			if as, ok := x.(*ast.AssignStmt); ok && len(as.Rhs) == 1 && f.Str(as.Rhs[0]) == "plan.Residual" {
				found, line = true, f.Line(as)
			}
			return true
		})
		return found, line
	}
	r1, l1 := usesResidual(gs, bs)
	r2, l2 := usesResidual(gp, bp)
	switch {
	case r1 && r2:
		fs.Tri("rechecksIndexedLeg", No, c11GwShift+":"+itoa(l1))
	case !r1 && !r2 && len(gs.Calls(bs, "evaluateNativeFilterGroup")) > 0 && len(gp.Calls(bp, "evaluateNativeFilterGroup")) > 0:
		fs.Tri("rechecksIndexedLeg", Yes, c11GwShift+":"+itoa(l1))
	default:
		fs.Tri("rechecksIndexedLeg", Unknown, c11GwPExp+":"+itoa(l2))
	}
	nilGuard, nilLine := 0, gs.Line(bs)
	ast.Inspect(bs, func(x ast.Node) bool {
		if be, ok := x.(*ast.BinaryExpr); ok && gs.Str(be) == "keySet != nil" {
			nilGuard++
			nilLine = gs.Line(be)
		}
		return true
	})
	returnsNil := false
	ast.Inspect(ck, func(x ast.Node) bool {
		if ifs, ok := x.(*ast.IfStmt); ok && strings.Contains(bk.Str(ifs.Cond), "len(candidates) == 0") && strings.Contains(bk.Str(ifs.Body), "return nil") {
			returnsNil = true
		}
		return true
	})
	// repaired shape: `if keySet == nil { keySet = map[string]struct{}{} }` right after the snapshot
	normalised := false
	ast.Inspect(bs, func(x ast.Node) bool {
		if ifs, ok := x.(*ast.IfStmt); ok && gs.Str(ifs.Cond) == "keySet == nil" {
			body := gs.Str(ifs.Body)
			if strings.Contains(body, "keySet = map[string]struct{}{}") || strings.Contains(body, "keySet = make(map[string]struct{}") {
				normalised = true
			}
		}
		return true
	})
	switch {
	case normalised:
		fs.Tri("emptyCandMeansAll", No, c11GwShift+":"+itoa(nilLine))
	case nilGuard > 0 && returnsNil:
		fs.Tri("emptyCandMeansAll", Yes, c11GwShift+":"+itoa(nilLine))
	case nilGuard == 0:
		fs.Tri("emptyCandMeansAll", No, c11GwShift+":"+itoa(nilLine))
	default:
		fs.Tri("emptyCandMeansAll", No, c11Bucket+":"+itoa(bk.Line(ck)))
	}

	// ---- PatchExpired tail
	pe, e4 := Load(c11PExp)
	if e4 != nil {
		unknownAll(c11PExp)
		return
	}
	pfn := pe.Func("swamp", "PatchExpired")
	one := pe.Func("swamp", "applyPatchExpiredOne")
	if pfn == nil || one == nil {
		unknownAll(c11PExp)
		return
	}
	existsCall := func(f *File, n ast.Node, after, before int) (bool, int) {
		ok, line := false, 0
		ast.Inspect(n, func(x ast.Node) bool {
			if c, isCall := x.(*ast.CallExpr); isCall {
				fn := f.Str(c.Fun)
				if (fn == "s.beaconKey.Get" || fn == "s.beaconKey.IsExists" || fn == "s.TreasureExists") && int(c.Pos()) > after && (before == 0 || int(c.Pos()) < before) {
					ok, line = true, f.Line(c)
				}
			}
			return true
		})
		return ok, line
	}
	re := pe.CallsSuffix(pfn, ".ReindexExpiration")
	if len(re) != 1 {
		fs.Tri("reindexChecksExists", Unknown, c11PExp+":"+itoa(pe.Line(pfn)))
	} else {
		sel := pe.CallsSuffix(pfn, ".SelectExpiredForPatchWithCap")
		after := int(pfn.Pos())
		if len(sel) == 1 {
			after = int(sel[0].End())
		}
		if ok, line := existsCall(pe, pfn, after, int(re[0].Pos())); ok {
			fs.Tri("reindexChecksExists", Yes, c11PExp+":"+itoa(line))
		} else {
			fs.Tri("reindexChecksExists", No, c11PExp+":"+itoa(pe.Line(re[0])))
		}
	}
	st := pe.CallsSuffix(one, ".StartTreasureGuard")
	if len(st) != 1 {
		fs.Tri("patchChecksExists", Unknown, c11PExp+":"+itoa(pe.Line(one)))
	} else if ok, line := existsCall(pe, one, int(st[0].End()), 0); ok {
		fs.Tri("patchChecksExists", Yes, c11PExp+":"+itoa(line))
	} else {
		fs.Tri("patchChecksExists", No, c11PExp+":"+itoa(pe.Line(st[0])))
	}

	// ---- beaconUnderGuard: deleteHandler
	sw, e5 := Load(c11Swamp)
	if e5 != nil {
		unknownAll(c11Swamp)
		return
	}
	dh := sw.Func("swamp", ccDeleteHandlerName(sw))
	if dh == nil {
		unknownAll(c11Swamp)
		return
	}
	deferredRel := false
	ast.Inspect(dh, func(x ast.Node) bool {
		if d, ok := x.(*ast.DeferStmt); ok && strings.HasSuffix(sw.Str(d.Call.Fun), ".ReleaseTreasureGuard") {
			deferredRel = true
		}
		return true
	})
	starts := sw.CallsSuffix(dh, ".StartTreasureGuard")
	bug := No
	where := c11Swamp + ":" + itoa(sw.Line(dh))
	if deferredRel && len(starts) == 1 {
		for _, c := range append(sw.Calls(dh, "s.deleteTreasureFromBeacons"), sw.Calls(dh, "s.beaconKey.Delete")...) {
			if c.Pos() > starts[0].Pos() {
				bug, where = Yes, c11Swamp+":"+itoa(sw.Line(c))
			}
		}
	} else if len(starts) != 1 {
		bug = Unknown
	}
	fs.Tri("beaconUnderGuard", bug, where)

	// ---- shiftDeleteRevalidates: the loop over the selected records in CloneAndDelete{Expired,Matching}Treasures
	// goes through deleteHandlerIf with a predicate (re-checked under the record guard before anything is removed)
	// and hands out the copies that call returns, not the ones of the selection pass
	rv, rvWhere := Yes, c11Swamp
	for _, n := range []string{"CloneAndDeleteExpiredTreasures", "CloneAndDeleteMatchingTreasures"} {
		fn := sw.Func("swamp", n)
		if fn == nil {
			rv, rvWhere = Unknown, c11Swamp+" ("+n+" not found)"
			break
		}
		w := c11Swamp + ":" + itoa(sw.Line(fn)) + " (" + n + ")"
		// the selection pass's result: whatever variable receives ShiftExpired / ShiftMatching (names do not matter)
		selVar, selPred := "", ""
		ast.Inspect(fn, func(x ast.Node) bool {
			if as, ok := x.(*ast.AssignStmt); ok && len(as.Rhs) == 1 && len(as.Lhs) >= 1 {
				if c, ok := as.Rhs[0].(*ast.CallExpr); ok {
					cf := sw.Str(c.Fun)
					if strings.HasSuffix(cf, ".ShiftExpired") || strings.HasSuffix(cf, ".ShiftMatching") {
						if id, ok := as.Lhs[0].(*ast.Ident); ok {
							selVar = id.Name
						}
						if strings.HasSuffix(cf, ".ShiftMatching") && len(c.Args) >= 2 {
							selPred = sw.Str(c.Args[1])
						}
					}
				}
			}
			return true
		})
		var loop *ast.RangeStmt
		ast.Inspect(fn, func(x ast.Node) bool {
			if r, ok := x.(*ast.RangeStmt); ok && selVar != "" && sw.Str(r.X) == selVar {
				loop = r
			}
			return true
		})
		if loop == nil {
			rv, rvWhere = Unknown, w
			break
		}
		plain := sw.Calls(loop, "s.deleteHandler")
		checked := sw.Calls(loop, "s.deleteHandlerIf")
		okShape := len(plain) == 0 && len(checked) == 1 && len(checked[0].Args) == 3
		if okShape {
			// what is re-checked has to be the selection criterion itself: the very predicate that was handed to
			// ShiftMatching, or (ShiftExpired) a literal that tests the expiration time
			arg := checked[0].Args[2]
			switch {
			case sw.Str(arg) == "nil":
				okShape = false
			case selPred != "":
				if sw.Str(arg) != selPred {
					rv, rvWhere = Unknown, c11Swamp+":"+itoa(sw.Line(arg))+" ("+n+": re-checks something else than the selection predicate)"
				}
			default:
				if fl, isLit := arg.(*ast.FuncLit); !isLit || !strings.Contains(sw.Str(fl), "GetExpirationTime()") {
					rv, rvWhere = Unknown, c11Swamp+":"+itoa(sw.Line(arg))+" ("+n+": the re-check does not look at the expiration time)"
				}
			}
			if rv == Unknown {
				break
			}
		}
		// the function must not return the selection pass's copies
		returnsSel := false
		ast.Inspect(fn, func(x ast.Node) bool {
			if r, ok := x.(*ast.ReturnStmt); ok && len(r.Results) > 0 && sw.Str(r.Results[0]) == selVar {
				returnsSel = true
			}
			return true
		})
		if !okShape || returnsSel {
			rv, rvWhere = No, w
			break
		}
		rvWhere = w
	}
	if rv == Yes {
		// deleteHandlerIf itself: the predicate is consulted after the guard is taken and before the key index is touched
		h := sw.Func("swamp", "deleteHandlerIf")
		if h == nil || h.Type.Params == nil || len(h.Type.Params.List) != 3 || len(h.Type.Params.List[2].Names) != 1 {
			rv, rvWhere = Unknown, c11Swamp+" (deleteHandlerIf)"
		} else {
			pn := h.Type.Params.List[2].Names[0].Name
			gs := sw.CallsSuffix(h, ".StartTreasureGuard")
			ds := sw.Calls(h, "s.beaconKey.Delete")
			ps := sw.Calls(h, pn)
			if len(gs) != 1 || len(ds) != 1 || len(ps) != 1 {
				rv, rvWhere = Unknown, c11Swamp+":"+itoa(sw.Line(h))
			} else if !(ps[0].Pos() > gs[0].Pos() && ps[0].Pos() < ds[0].Pos()) {
				rv, rvWhere = No, c11Swamp+":"+itoa(sw.Line(ps[0]))
			}
		}
	}
	fs.Tri("shiftDeleteRevalidates", rv, rvWhere)
	unknownAll(c11Beacon)
}

// ccDeleteHandlerName: the function that holds deleteHandler's body (deleteHandler itself, or deleteHandlerIf when
// deleteHandler is the one-line wrapper around it)
func ccDeleteHandlerName(sw *File) string {
	if h := sw.Func("swamp", "deleteHandlerIf"); h != nil {
		if d := sw.Func("swamp", "deleteHandler"); d != nil && len(sw.Calls(d, "s.deleteHandlerIf")) == 1 && len(d.Body.List) <= 2 {
			return "deleteHandlerIf"
		}
	}
	return "deleteHandler"
}
