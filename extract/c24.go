package main

import (
	"go/ast"
	"strings"
)

// C24: for each error site of the decompress wrappers, does the `return` inside the
// `if <errvar> != nil` block return that same error variable (propagates), or something else
// (swallows: e.g. the still-nil named result)?
func init() {
	Register("C24", Extractor{Import: "Hv.Props.C24", Type: "Hv.C24.Facts", Run: func(fs *Facts) {
		const path = "app/core/compressor/compressor.go"
		names := []string{"gzipNewReader", "gzipRead", "lz4Read", "snappyDecode", "zstdDecode"}
		f, err := Load(path)
		if err != nil {
			fs.Err("%v", err)
			for _, n := range names {
				fs.Enum(n, "unknown", path)
			}
			return
		}
		// site: (function, callee whose error is checked)
		type site struct{ name, fn, callee string }
		sites := []site{
			{"gzipNewReader", "decompressGzip", "gzip.NewReader"},
			{"gzipRead", "decompressGzip", "io.ReadAll"},
			{"lz4Read", "decompressLZ4", "io.ReadAll"},
			{"snappyDecode", "decompressSnappy", "snappy.Decode"},
			{"zstdDecode", "decompressZstd", "zstdDecoder.DecodeAll"},
		}
		for _, s := range sites {
			fd := f.Func("compressor", s.fn)
			if fd == nil || fd.Body == nil {
				fs.Enum(s.name, "unknown", path)
				continue
			}
			val, where := siteFact(f, fd, s.callee)
			fs.Enum(s.name, val, path+":"+itoa(where))
		}
	}})
}

// siteFact finds `x, e := callee(...)` (or `=`), then how e reaches the caller.
func siteFact(f *File, fd *ast.FuncDecl, callee string) (string, int) {
	stmts := fd.Body.List
	for i, st := range stmts {
		as, ok := st.(*ast.AssignStmt)
		if !ok || len(as.Rhs) != 1 {
			continue
		}
		call, ok := as.Rhs[0].(*ast.CallExpr)
		// the callee is matched by its selector (method / function name), not by the receiver's local name
		fn := f.Str(call.Fun)
		want := callee
		if i := strings.LastIndex(callee, "."); i >= 0 && !strings.HasPrefix(callee, "gzip.") && !strings.HasPrefix(callee, "io.") && !strings.HasPrefix(callee, "snappy.") {
			want = callee[i:] // ".DecodeAll"
		}
		if !ok || len(as.Lhs) != 2 || !(fn == callee || (strings.HasPrefix(want, ".") && strings.HasSuffix(fn, want))) {
			continue
		}
		errVar := f.Str(as.Lhs[1])
		line := f.Line(as)
		// following statement: `if errVar != nil { return nil, X }`  or  `return d, errVar`
		if i+1 >= len(stmts) {
			return "unknown", line
		}
		switch nx := stmts[i+1].(type) {
		case *ast.IfStmt:
			if f.Str(nx.Cond) != errVar+" != nil" || len(nx.Body.List) == 0 {
				return "unknown", line
			}
			// statements before the return may only be plain calls (logging); anything that could
			// change the error variable makes the site unknown
			for _, st := range nx.Body.List[:len(nx.Body.List)-1] {
				if _, isCall := st.(*ast.ExprStmt); !isCall {
					return "unknown", line
				}
			}
			ret, ok := nx.Body.List[len(nx.Body.List)-1].(*ast.ReturnStmt)
			if !ok || len(ret.Results) != 2 {
				return "unknown", line
			}
			if f.Str(ret.Results[1]) == errVar {
				return "propagates", f.Line(ret)
			}
			// any other identifier: is it ever assigned a non-nil value before? we only
			// recognise the named result `err` that has not been assigned in this function
			if f.Str(ret.Results[1]) == "err" && !assignsBefore(f, fd, "err", ret.Pos()) {
				return "swallows", f.Line(ret)
			}
			return "unknown", f.Line(ret)
		case *ast.ReturnStmt:
			if len(nx.Results) == 2 && f.Str(nx.Results[1]) == errVar {
				return "propagates", f.Line(nx)
			}
			return "unknown", f.Line(nx)
		}
		return "unknown", line
	}
	return "unknown", f.Line(fd)
}

func assignsBefore(f *File, fd *ast.FuncDecl, name string, pos interface{ IsValid() bool }) bool {
	found := false
	ast.Inspect(fd.Body, func(n ast.Node) bool {
		if as, ok := n.(*ast.AssignStmt); ok {
			for _, l := range as.Lhs {
				if f.Str(l) == name {
					found = true
				}
			}
		}
		return true
	})
	return found
}
