package main

import (
	"go/ast"
	"go/token"
	"strconv"
	"strings"
)

// C20 facts — app/name/name.go (server), sdk/go/hydraidego/name/name.go (SDK), app/server/server/server.go.
//
//	sdkPlusOne / srvPlusOne     the island assignment is `<mod expr> + 1`
//	sdkModHashByN / srvModHashByN  the modulus is `hash % allIslands` / `hash % uint64(allFolders)`, hash = xxhash.Sum64(...)
//	srvBits                     the server wraps the modulus in uintK(...) and takes a uintK parameter
//	islandHashConcat            both hash []byte(n.SanctuaryID + n.RealmName + n.SwampName)
//	hexVerb                     yes: hashHex and the per-level width use "%x"; no: "%016x"
//	folderVerb                  yes: generateSwampFolderName is "%x" of xxhash of its argument, called with n.Path,
//	                            and generateHashedDirectoryPath hashes its `input` which is n.Path too
//	cplMin                      K of `if charsPerLevel < K { charsPerLevel = K }`
//	sliceClampsEnd / sliceClampsStart   `if end > len(hashHex) { end = len(hashHex) }` (same for start) before hashHex[start:end]
//	loadFixedIndices            both Load functions: strings.Split(path, "/") then [0], [1], [2], no len() test
//	ctorsRejectSlash            no: Sanctuary/Realm/Swamp of both packages are a single `return &name{…}`
//	defDepth / defPer           constants maxDepth / foldersPerLevel passed to settings.New in server.go
func init() {
	Register("C20", Extractor{Import: "Hv.Props.C20", Type: "Hv.C20.Facts", Run: func(fs *Facts) {
		const srvPath = "app/name/name.go"
		const sdkPath = "sdk/go/hydraidego/name/name.go"
		const serverPath = "app/server/server/server.go"
		for _, n := range []string{"sdkPlusOne", "srvPlusOne", "sdkModHashByN", "srvModHashByN"} {
			fs.Tri(n, Unknown, "")
		}
		fs.OptNat("srvBits", 0, false, srvPath)
		for _, n := range []string{"islandHashConcat", "hexVerb", "folderVerb"} {
			fs.Tri(n, Unknown, "")
		}
		fs.OptNat("cplMin", 0, false, srvPath)
		for _, n := range []string{"sliceClampsEnd", "sliceClampsStart", "loadFixedIndices", "ctorsRejectSlash"} {
			fs.Tri(n, Unknown, "")
		}
		fs.OptNat("defDepth", 0, false, serverPath)
		fs.OptNat("defPer", 0, false, serverPath)
		fs.Tri("islandCacheKeyedByN", Unknown, "")
		fs.Tri("unroutedReturnsError", Unknown, "")
		fs.Tri("pathCacheKeyedByArgs", Unknown, "")
		for _, n := range []string{"routeLastWins", "routeLookupByIsland", "routeValidatesRanges"} {
			fs.Tri(n, Unknown, "sdk/go/hydraidego/client/client.go")
		}
		c20Routing(fs)
		c20Glue(fs)

		srv, err1 := Load(srvPath)
		sdk, err2 := Load(sdkPath)
		if err1 != nil || err2 != nil {
			fs.Err("%v %v", err1, err2)
			return
		}
		// ---- island
		sp, sm, sbits, sconc, sw := c20Island(sdk, "GetIslandID", "IslandNumber")
		vp, vm, vbits, vconc, vw := c20Island(srv, "GetFolderNumber", "FolderNumber")
		fs.Tri("sdkPlusOne", sp, sdkPath+":"+itoa(sw))
		fs.Tri("srvPlusOne", vp, srvPath+":"+itoa(vw))
		fs.Tri("sdkModHashByN", TriOf(sm == Yes && sbits == 64), sdkPath+":"+itoa(sw))
		fs.Tri("srvModHashByN", vm, srvPath+":"+itoa(vw))
		if vbits > 0 {
			fs.OptNat("srvBits", vbits, true, srvPath+":"+itoa(vw))
		}
		if sconc != Unknown && vconc != Unknown {
			fs.Tri("islandHashConcat", TriOf(sconc == Yes && vconc == Yes), srvPath+":"+itoa(vw))
		}
		// ---- per-object island cache: `if n.<field> != 0 { return n.<field> }` ignores the argument
		cacheOf := func(f *File, method, field string) Tri {
			fd := miscFunc(f, "name", method)
			if fd == nil || fd.Body == nil {
				return Unknown
			}
			for _, st := range fd.Body.List {
				if is, ok := st.(*ast.IfStmt); ok && strings.Contains(f.Str(is.Cond), "n."+field+" != 0") {
					if f.Str(is.Cond) == "n."+field+" != 0" && len(is.Body.List) == 1 && f.Str(is.Body.List[0]) == "return n."+field {
						return No
					}
					// keyed by the count: `n.X != 0 && n.<for> == <param>` and `n.<for> = <param>` next to the store
					param := fd.Type.Params.List[0].Names[0].Name
					if be, ok := is.Cond.(*ast.BinaryExpr); ok && f.Str(be.X) == "n."+field+" != 0" && len(is.Body.List) == 1 && f.Str(is.Body.List[0]) == "return n."+field {
						if eq, ok := be.Y.(*ast.BinaryExpr); ok && f.Str(eq.Y) == param && strings.HasPrefix(f.Str(eq.X), "n.") && f.Contains(fd, f.Str(eq.X)+" = "+param) {
							return Yes
						}
					}
					return Unknown
				}
			}
			return Unknown
		}
		if a, b := cacheOf(sdk, "GetIslandID", "IslandNumber"), cacheOf(srv, "GetFolderNumber", "FolderNumber"); a == No && b == No {
			fs.Tri("islandCacheKeyedByN", No, srvPath)
		} else if a == Yes && b == Yes {
			fs.Tri("islandCacheKeyedByN", Yes, srvPath)
		}
		// ---- memoised path: `if n.HashPath != "" { return n.HashPath }` ignores the arguments
		if fd := miscFunc(srv, "name", "GetFullHashPath"); fd != nil && fd.Body != nil {
			for _, st := range fd.Body.List {
				if is, ok := st.(*ast.IfStmt); ok && strings.Contains(srv.Str(is.Cond), `n.HashPath != ""`) && len(is.Body.List) == 1 && srv.Str(is.Body.List[0]) == "return n.HashPath" {
					switch {
					case srv.Str(is.Cond) == `n.HashPath != ""`:
						fs.Tri("pathCacheKeyedByArgs", No, srvPath+":"+itoa(srv.Line(is)))
					case srv.Str(is.Cond) == `n.HashPath != "" && n.hashPathFor == key` && srv.Contains(fd, `key := fmt.Sprintf("%s|%d|%d|%d", rootPath, islandID, depth, maxFoldersPerLevel)`) && srv.Contains(fd, "n.hashPathFor = key"):
						fs.Tri("pathCacheKeyedByArgs", Yes, srvPath+":"+itoa(srv.Line(is)))
					case srv.Str(is.Cond) == `n.HashPath != "" && n.hashPathRoot == rootPath && n.hashPathIsland == islandID && n.hashPathDepth == depth && n.hashPathPer == maxFoldersPerLevel` &&
						srv.Contains(fd, "n.hashPathRoot, n.hashPathIsland, n.hashPathDepth, n.hashPathPer = rootPath, islandID, depth, maxFoldersPerLevel"):
						fs.Tri("pathCacheKeyedByArgs", Yes, srvPath+":"+itoa(srv.Line(is)))
					}
				}
			}
		}
		// ---- hashed path
		c20Path(fs, srv, srvPath)
		// ---- Load and constructors, both packages
		l1, l2 := c20Load(srv), c20Load(sdk)
		if l1 != Unknown && l2 != Unknown {
			fs.Tri("loadFixedIndices", TriOf(l1 == Yes && l2 == Yes), srvPath)
		}
		c1, c2 := c20Ctors(srv), c20Ctors(sdk)
		if c1 == No && c2 == No {
			fs.Tri("ctorsRejectSlash", No, srvPath)
		}
		// ---- shipped configuration
		if server, err := Load(serverPath); err == nil {
			consts := map[string]int{}
			ast.Inspect(server.AST, func(n ast.Node) bool {
				if vs, ok := n.(*ast.ValueSpec); ok && len(vs.Names) == len(vs.Values) {
					for i, nm := range vs.Names {
						if k, err := strconv.Atoi(server.Str(vs.Values[i])); err == nil {
							consts[nm.Name] = k
						}
					}
				}
				return true
			})
			for _, c := range server.Calls(server.AST, "settings.New") {
				if len(c.Args) == 2 {
					d, ok1 := consts[server.Str(c.Args[0])]
					p, ok2 := consts[server.Str(c.Args[1])]
					if k, err := strconv.Atoi(server.Str(c.Args[0])); err == nil {
						d, ok1 = k, true
					}
					if k, err := strconv.Atoi(server.Str(c.Args[1])); err == nil {
						p, ok2 = k, true
					}
					w := serverPath + ":" + itoa(server.Line(c))
					if ok1 && d >= 0 {
						fs.OptNat("defDepth", d, true, w)
					}
					if ok2 && p >= 0 {
						fs.OptNat("defPer", p, true, w)
					}
				}
			}
		}
	}})
}

// c20Routing: the SDK client's routing table.
//
//	routeLastWins        Connect: `for _, server := range c.servers` … `for island := server.FromIsland; island <= server.ToIsland; island++
//	                     { c.serviceClients[island] = &ServiceClient{…} }` — a map filled range by range, later entries overwrite
//	routeLookupByIsland  GetServiceClient / GetServiceClientAndHost: `folderNumber := swampName.GetIslandID(c.allIslands)`, then
//	                     `c.serviceClients[folderNumber]` with the comma-ok form and `return nil` otherwise
//	routeValidatesRanges no: FromIsland / ToIsland are mentioned nowhere in client.go outside that loop (and log lines)
func c20Routing(fs *Facts) {
	const path = "sdk/go/hydraidego/client/client.go"
	f, err := Load(path)
	if err != nil {
		fs.Err("%v", err)
		return
	}
	conn := miscFunc(f, "client", "Connect")
	if conn == nil || conn.Body == nil {
		return
	}
	var loops []*ast.ForStmt
	ast.Inspect(conn.Body, func(n ast.Node) bool {
		if l, ok := n.(*ast.ForStmt); ok && l.Init != nil && strings.HasPrefix(f.Str(l.Init), "island :=") {
			loops = append(loops, l)
		}
		return true
	})
	if len(loops) == 1 {
		l := loops[0]
		ok := f.Str(l.Init) == "island := server.FromIsland" && f.Str(l.Cond) == "island <= server.ToIsland" && f.Str(l.Post) == "island++" &&
			len(l.Body.List) == 1 && strings.HasPrefix(f.Str(l.Body.List[0]), "c.serviceClients[island] = &ServiceClient{") &&
			f.Contains(conn, "for _, server := range c.servers")
		if ok {
			fs.Tri("routeLastWins", Yes, path+":"+itoa(f.Line(l)))
		}
	}
	look := true
	for _, m := range []string{"GetServiceClient", "GetServiceClientAndHost"} {
		fd := miscFunc(f, "client", m)
		if fd == nil || !f.Contains(fd, "folderNumber := swampName.GetIslandID(c.allIslands)") ||
			!f.Contains(fd, "if serviceClient, ok := c.serviceClients[folderNumber]; ok {") ||
			!(f.Contains(fd, "return nil") || f.Contains(fd, "unroutable{") || f.Contains(fd, "return unrouted")) {
			look = false
		}
	}
	fs.Tri("routeLookupByIsland", TriOf(look), path)
	// the not-found branch: `return nil` (no) or an error-returning client built on `unroutable{…}` (yes)
	if look {
		nils, errs := 0, 0
		for _, m := range []string{"GetServiceClient", "GetServiceClientAndHost"} {
			fd := miscFunc(f, "client", m)
			last := fd.Body.List[len(fd.Body.List)-1]
			switch {
			case f.Str(last) == "return nil":
				nils++
			case (strings.Contains(f.Str(last), "unroutable{") || f.Str(last) == "return unrouted" || f.Str(last) == "return unrouted.GrpcClient") &&
				f.Func("unroutable", "Invoke") != nil && f.Contains(f.Func("unroutable", "Invoke"), "status.Errorf(codes.Unavailable"):
				errs++
			}
		}
		if nils == 2 {
			fs.Tri("unroutedReturnsError", No, path)
		} else if errs == 2 {
			fs.Tri("unroutedReturnsError", Yes, path)
		}
	}
	// any other use of the range bounds (a validation would have to read them)
	uses := 0
	ast.Inspect(f.AST, func(n ast.Node) bool {
		if se, ok := n.(*ast.SelectorExpr); ok && (se.Sel.Name == "FromIsland" || se.Sel.Name == "ToIsland") {
			uses++
		}
		return true
	})
	logUses := strings.Count(string(f.Src), `"fromIsland", server.FromIsland`) + strings.Count(string(f.Src), `"toIsland", server.ToIsland`)
	if uses-logUses == 2 {
		fs.Tri("routeValidatesRanges", No, path)
	}
}

// c20Island inspects `n.<field> = <expr>` in the island method.
// returns plusOne, modHashByN, width (0 unknown), hashConcat, line
func c20Island(f *File, method, field string) (Tri, Tri, int, Tri, int) {
	fd := miscFunc(f, "name", method)
	if fd == nil || fd.Body == nil || fd.Type.Params == nil || len(fd.Type.Params.List) != 1 || len(fd.Type.Params.List[0].Names) != 1 {
		return Unknown, Unknown, 0, Unknown, 0
	}
	param := fd.Type.Params.List[0].Names[0].Name
	ptype := f.Str(fd.Type.Params.List[0].Type)
	width := map[string]int{"uint8": 8, "uint16": 16, "uint32": 32, "uint64": 64}[ptype]
	// hash := xxhash.Sum64([]byte(n.SanctuaryID + n.RealmName + n.SwampName))
	hashVar, conc := "", Unknown
	var assign *ast.AssignStmt
	for _, st := range fd.Body.List {
		as, ok := st.(*ast.AssignStmt)
		if !ok || len(as.Lhs) != 1 || len(as.Rhs) != 1 {
			continue
		}
		if c, ok := as.Rhs[0].(*ast.CallExpr); ok && f.Str(c.Fun) == "xxhash.Sum64" && len(c.Args) == 1 {
			hashVar = f.Str(as.Lhs[0])
			conc = TriOf(f.Str(c.Args[0]) == "[]byte(n.SanctuaryID + n.RealmName + n.SwampName)")
		}
		if f.Str(as.Lhs[0]) == "n."+field && as.Tok == token.ASSIGN {
			assign = as
		}
	}
	if assign == nil || hashVar == "" {
		return Unknown, Unknown, width, conc, f.Line(fd)
	}
	line := f.Line(assign)
	e := assign.Rhs[0]
	plus := No
	if be, ok := e.(*ast.BinaryExpr); ok && be.Op == token.ADD {
		if f.Str(be.Y) == "1" {
			plus = Yes
			e = be.X
		} else {
			return Unknown, Unknown, width, conc, line
		}
	}
	// optional narrowing conversion uintK(...)
	if c, ok := e.(*ast.CallExpr); ok && len(c.Args) == 1 {
		k := map[string]int{"uint8": 8, "uint16": 16, "uint32": 32, "uint64": 64}[f.Str(c.Fun)]
		if k == 0 || k != width {
			return plus, Unknown, 0, conc, line
		}
		e = c.Args[0]
	} else if width != 64 {
		// no conversion: the arithmetic happens on the hash's 64 bits; only uint64 parameters compile
		return plus, Unknown, 0, conc, line
	}
	if pe, ok := e.(*ast.ParenExpr); ok {
		e = pe.X
	}
	be, ok := e.(*ast.BinaryExpr)
	if !ok || be.Op != token.REM || f.Str(be.X) != hashVar {
		return plus, No, width, conc, line
	}
	y := f.Str(be.Y)
	if y != param && y != "uint64("+param+")" {
		return plus, No, width, conc, line
	}
	return plus, Yes, width, conc, line
}

func c20Path(fs *Facts, f *File, path string) {
	fd := miscFunc(f, "", "generateHashedDirectoryPath")
	fn := f.Func("", "generateSwampFolderName")
	full := miscFunc(f, "name", "GetFullHashPath")
	if fd == nil || fn == nil || full == nil || fd.Body == nil {
		return
	}
	// verbs
	verbOf := func(c *ast.CallExpr) string {
		if len(c.Args) >= 1 {
			if s, err := strconv.Unquote(f.Str(c.Args[0])); err == nil {
				return s
			}
		}
		return "?"
	}
	var verbs []string
	for _, c := range f.Calls(fd, "fmt.Sprintf") {
		verbs = append(verbs, verbOf(c))
	}
	where := path + ":" + itoa(f.Line(fd))
	hashesInput := len(f.Calls(fd, "xxhash.Sum64String")) == 1 && f.Str(f.Calls(fd, "xxhash.Sum64String")[0].Args[0]) == "input"
	if len(verbs) == 2 && hashesInput && f.Contains(fd, "hashHex := fmt.Sprintf(") && f.Contains(fd, "charsPerLevel := len(fmt.Sprintf(\"%x\", maxFoldersPerLevel-1))") {
		switch verbs[0] {
		case "%x":
			fs.Tri("hexVerb", Yes, where)
		case "%016x":
			fs.Tri("hexVerb", No, where)
		}
	}
	// folder name: "%x" of xxhash.Sum64([]byte(arg)), and both called with n.Path
	fv := No
	if cs := f.Calls(fn, "fmt.Sprintf"); len(cs) == 1 && verbOf(cs[0]) == "%x" && len(f.Calls(fn, "xxhash.Sum64")) == 1 &&
		len(f.Calls(full, "generateSwampFolderName")) == 1 && f.Str(f.Calls(full, "generateSwampFolderName")[0].Args[0]) == "n.Path" &&
		len(f.Calls(full, "generateHashedDirectoryPath")) == 1 && f.Str(f.Calls(full, "generateHashedDirectoryPath")[0].Args[0]) == "n.Path" &&
		len(f.Calls(full, "filepath.Join")) == 1 {
		fv = Yes
	}
	fs.Tri("folderVerb", fv, path+":"+itoa(f.Line(fn)))
	// cplMin, clamps, slice expression
	var loop *ast.ForStmt
	ast.Inspect(fd.Body, func(n ast.Node) bool {
		if l, ok := n.(*ast.ForStmt); ok && loop == nil {
			loop = l
		}
		return true
	})
	for _, st := range fd.Body.List {
		if is, ok := st.(*ast.IfStmt); ok {
			if be, ok := is.Cond.(*ast.BinaryExpr); ok && be.Op == token.LSS && f.Str(be.X) == "charsPerLevel" && len(is.Body.List) == 1 {
				if k, err := strconv.Atoi(f.Str(be.Y)); err == nil && f.Str(is.Body.List[0]) == "charsPerLevel = "+f.Str(be.Y) {
					fs.OptNat("cplMin", k, true, path+":"+itoa(f.Line(is)))
				}
			}
		}
	}
	if loop == nil || f.Str(loop.Init) != "i := 0" || f.Str(loop.Cond) != "i < depth" || f.Str(loop.Post) != "i++" {
		return
	}
	hasSlice, startDef, endDef := false, false, false
	clampEnd, clampStart, other := false, false, false
	for _, st := range loop.Body.List {
		s := f.Str(st)
		switch {
		case s == "start := i * charsPerLevel":
			startDef = true
		case s == "end := start + charsPerLevel":
			endDef = true
		case s == "parts[i] = hashHex[start:end]":
			hasSlice = true
		case s == "if end > len(hashHex) { end = len(hashHex) }":
			clampEnd = !hasSlice
		case s == "if start > len(hashHex) { start = len(hashHex) }":
			clampStart = !hasSlice
		default:
			other = true
		}
	}
	if !hasSlice || !startDef || !endDef || other {
		return
	}
	w := path + ":" + itoa(f.Line(loop))
	fs.Tri("sliceClampsEnd", TriOf(clampEnd), w)
	fs.Tri("sliceClampsStart", TriOf(clampStart), w)
}

func c20Load(f *File) Tri {
	fd := miscFunc(f, "", "Load")
	if fd == nil || fd.Body == nil {
		return Unknown
	}
	if len(f.Calls(fd, "strings.Split")) != 1 || f.Str(f.Calls(fd, "strings.Split")[0].Args[1]) != `"/"` {
		return Unknown
	}
	if len(f.Calls(fd, "len")) > 0 {
		return No
	}
	idx := map[string]bool{}
	ast.Inspect(fd.Body, func(n ast.Node) bool {
		if ix, ok := n.(*ast.IndexExpr); ok {
			idx[f.Str(ix.Index)] = true
		}
		return true
	})
	return TriOf(idx["0"] && idx["1"] && idx["2"] && len(idx) == 3)
}

// c20Ctors: No when Sanctuary, Realm and Swamp consist of a single return of a composite literal.
func c20Ctors(f *File) Tri {
	for _, m := range []string{"Sanctuary", "Realm", "Swamp"} {
		fd := f.Func("name", m)
		if fd == nil || fd.Body == nil {
			return Unknown
		}
		if len(fd.Body.List) != 1 {
			return Unknown
		}
		ret, ok := fd.Body.List[0].(*ast.ReturnStmt)
		if !ok || len(ret.Results) != 1 || !strings.HasPrefix(f.Str(ret.Results[0]), "&name{") {
			return Unknown
		}
		if len(f.CallsSuffix(ret, "")) > 0 && strings.Contains(f.Str(ret), "(") {
			return Unknown
		}
	}
	return No
}
