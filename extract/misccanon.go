package main

import (
	"go/ast"
	"go/token"
)

// Reference local-variable lists (receiver, parameters, results, locals in order of declaration) of the functions
// whose bodies the C20/C21/C22/C27 extractors match as text.  miscFunc renames the locals of the function found in
// /repo to the reference names when one of the lists has the same length, so a mere renaming of a variable,
// parameter or receiver does not change any fact (c07Canon does the renaming).
var miscRefs = map[string][][]string{
	"client.GetServiceClient":             {{"c", "swampName", "folderNumber", "serviceClient", "ok"}},
	"client.GetServiceClientAndHost":      {{"c", "swampName", "folderNumber", "serviceClient", "ok"}},
	"client.Connect":                      {{"c", "connectionLog", "errorMessages", "server", "serviceConfigJSON", "hostOnly", "cliPair", "certErr", "caPEM", "readErr", "roots", "err", "tlsCfg", "creds", "opts", "conn", "err", "serviceClient", "ctx", "cancel", "pong", "island"}},
	"name.GetFullHashPath":                {{"n", "rootPath", "islandID", "depth", "maxFoldersPerLevel", "hashedDirectoryPath"}, {"n", "rootPath", "islandID", "depth", "maxFoldersPerLevel", "key", "hashedDirectoryPath"}},
	"name.GetFolderNumber":                {{"n", "allFolders", "hash"}},
	"name.GetIslandID":                    {{"n", "allIslands", "hash"}},
	".generateHashedDirectoryPath":        {{"input", "depth", "maxFoldersPerLevel", "hash", "hashHex", "charsPerLevel", "parts", "i", "start", "end"}},
	".Load":                               {{"path", "splitPath", "sanctuaryID", "realmName", "swampName"}},
	"settings.GetBySwampName":             {{"s", "swampName", "best", "bestRank", "pi", "rank"}, {"s", "swampName", "pi"}},
	".patternSpecificity":                 {{"pattern", "rank"}},
	"settings.RegisterPattern":            {{"s", "pattern", "inMemorySwamp", "closeAfterIdleSec", "filesystemSettings", "swampSetting", "ok", "pm", "err"}},
	"settings.loadSettingsFromFilesystem": {{"s", "filePath", "data", "err", "err", "formattedSettings", "pattern", "patternNameObj"}},
	"settings.SaveSettingsToFilesystem":   {{"s", "err", "data", "filePath", "tmpPath", "err", "err"}, {"s", "data", "err", "filePath", "tmpPath", "err", "err"}, {"s", "data", "err", "filePath", "err", "err"}},
	"hydrex.Save": {{"h", "ctx", "indexName", "domain", "items", "key", "existingCoreData", "coreDataName", "model", "m", "itemsForDelete", "itemsForSave", "deleteManyFromManyReq", "saveManyToManyReq", "key", "ok", "key", "data", "existing", "ok", "err", "err"},
		{"h", "ctx", "indexName", "domain", "items", "existingCoreData", "coreDataName", "model", "m", "itemsForDelete", "itemsForSave", "deleteManyFromManyReq", "saveManyToManyReq", "key", "ok", "key", "data", "existing", "ok", "err", "err"},
		{"h", "ctx", "indexName", "domain", "items", "existingCoreData", "coreDataName", "model", "m", "itemsForDelete", "itemsForSave", "deleteManyFromManyReq", "saveManyToManyReq", "key", "ok", "key", "data", "ok", "err", "err"}},
	"hydrex.Destroy":       {{"h", "ctx", "indexName", "domain", "coreDataName", "deleteManyFromManyReq", "model", "m"}},
	".inspectCatalogModel": {{"t", "hasValue", "bodyFields", "i", "raw", "ok", "parts", "head", "reserved", "omitempty", "p"}},
	".decodeMapBodyInto":   {{"blob", "v", "fields", "body", "raws", "err", "f", "raw", "ok", "fv", "err"}},
	".hydraideTagHead":     {{"tag", "i"}},
}

var miscDone = map[*ast.FuncDecl]bool{}

// miscFunc = File.Func + canonical local names.
func miscFunc(f *File, recv, name string) *ast.FuncDecl {
	fd := f.Func(recv, name)
	if fd == nil {
		return nil
	}
	if miscDone[fd] {
		return fd
	}
	miscDone[fd] = true
	objs := c07Locals(fd)
	for _, ref := range miscRefs[recv+"."+name] {
		if len(ref) == len(objs) {
			c07Canon(fd, ref)
			for i, o := range objs { // keep ast.Object.Pos (which looks the declaring identifier up by name) working
				o.Name = ref[i]
			}
			break
		}
	}
	return fd
}

// miscUnContinue rewrites, inside a block,  `if C { continue }; REST…`  into  `if !C { REST… }`  (recursively), so that a
// loop written with early `continue`s has the same shape as one written with nested ifs.
func miscUnContinue(b *ast.BlockStmt) {
	if b == nil {
		return
	}
	for i, st := range b.List {
		is, ok := st.(*ast.IfStmt)
		if !ok || is.Else != nil || is.Init != nil || len(is.Body.List) != 1 {
			continue
		}
		br, ok := is.Body.List[0].(*ast.BranchStmt)
		if !ok || br.Tok != token.CONTINUE || br.Label != nil {
			continue
		}
		rest := &ast.BlockStmt{List: append([]ast.Stmt(nil), b.List[i+1:]...)}
		miscUnContinue(rest)
		b.List = append(b.List[:i:i], &ast.IfStmt{Cond: miscNegate(is.Cond), Body: rest})
		return
	}
	for _, st := range b.List {
		if is, ok := st.(*ast.IfStmt); ok {
			miscUnContinue(is.Body)
		}
	}
}

func miscNegate(e ast.Expr) ast.Expr {
	switch x := e.(type) {
	case *ast.UnaryExpr:
		if x.Op == token.NOT {
			if p, ok := x.X.(*ast.ParenExpr); ok {
				return p.X
			}
			return x.X
		}
	case *ast.BinaryExpr:
		flip := map[token.Token]token.Token{token.LSS: token.GEQ, token.LEQ: token.GTR, token.GTR: token.LEQ, token.GEQ: token.LSS, token.EQL: token.NEQ, token.NEQ: token.EQL}
		if op, ok := flip[x.Op]; ok {
			return &ast.BinaryExpr{X: x.X, Op: op, Y: x.Y}
		}
	}
	return &ast.UnaryExpr{Op: token.NOT, X: &ast.ParenExpr{X: e}}
}
