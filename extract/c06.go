package main

import (
	"go/ast"
	"regexp"
	"go/token"
	"strings"
)

// C06: facts about the request handlers (gateway.go), SaveFunction / IncrementXxx (swamp.go) and
// the treasure setters (treasure.go).  Each is a local syntactic pattern; anything else ⇒ unknown.

const (
	c06Gateway  = "app/server/gateway/gateway.go"
	c06Swamp    = "app/core/hydra/swamp/swamp.go"
	c06Treasure = "app/core/hydra/swamp/treasure/treasure.go"
)

var c06Names = []string{"resetsFlags", "metaCompare", "tsPositive", "voidClears", "pushChecksType", "setSliceReplaces",
	"u32delReleases", "u32delChecksType", "incFailClean", "noEmptyLive", "arekAllFalse", "countMissingOk",
	"setErrSingle", "fltCondDirect", "keyChecked", "recreateKeepsPointer", "patchAsksFirst", "fltSetBitwise", "saveReleasesImmediate", "wireExpNe0"}

func init() {
	Register("C06", Extractor{Import: "Hv.Props.C06", Type: "Hv.C06.Facts", Run: func(fs *Facts) {
		c06Run(fs, c06Names)
	}})
}

type c06Fact struct {
	t     Tri
	where string
}

func c06Run(fs *Facts, names []string) {
	gw, e1 := Load(c06Gateway)
	sw, e2 := Load(c06Swamp)
	tr, e3 := Load(c06Treasure)
	if e1 != nil || e2 != nil || e3 != nil {
		fs.Err("cannot load anchors: %v %v %v", e1, e2, e3)
		for _, n := range names {
			fs.Tri(n, Unknown, "")
		}
		return
	}
	all := c06All(gw, sw, tr)
	for _, n := range names {
		f := all[n]
		fs.Tri(n, f.t, f.where)
	}
}

func c06At(f *File, n ast.Node) string { return f.Path + ":" + itoa(f.Line(n)) }

// c06Inline renders e with every local of fd that is defined exactly once (`a, b := x, y`) and never
// assigned again replaced by the text of its defining expression (one level), so that a pattern does
// not depend on whether a sub-expression was given a name.
func c06Inline(f *File, fd *ast.FuncDecl, e ast.Node) string {
	defs, count := map[string]string{}, map[string]int{}
	ast.Inspect(fd.Body, func(n ast.Node) bool {
		switch x := n.(type) {
		case *ast.AssignStmt:
			for i, l := range x.Lhs {
				id, ok := l.(*ast.Ident)
				if !ok {
					continue
				}
				count[id.Name]++
				if x.Tok.String() == ":=" && len(x.Lhs) == len(x.Rhs) {
					defs[id.Name] = f.Str(x.Rhs[i])
				}
			}
		case *ast.IncDecStmt:
			if id, ok := x.X.(*ast.Ident); ok {
				count[id.Name] += 2
			}
		case *ast.RangeStmt:
			for _, l := range []ast.Expr{x.Key, x.Value} {
				if id, ok := l.(*ast.Ident); ok {
					count[id.Name] += 2
				}
			}
		}
		return true
	})
	out := f.Str(e)
	for name, rhs := range defs {
		if count[name] != 1 {
			continue
		}
		if strings.ContainsAny(rhs, " ") {
			rhs = "(" + rhs + ")"
		}
		re := regexp.MustCompile(`(^|[^.\w])` + regexp.QuoteMeta(name) + `\b`)
		out = re.ReplaceAllString(out, "${1}"+strings.ReplaceAll(rhs, "$", "$$"))
	}
	return out
}

// assignments `<x>.<field> = <rhs>` under n
func c06Assigns(f *File, n ast.Node, pred func(lhs, rhs string) bool) []*ast.AssignStmt {
	var out []*ast.AssignStmt
	if n == nil {
		return out
	}
	ast.Inspect(n, func(x ast.Node) bool {
		if as, ok := x.(*ast.AssignStmt); ok && len(as.Lhs) == 1 && len(as.Rhs) == 1 {
			if pred(f.Str(as.Lhs[0]), f.Str(as.Rhs[0])) {
				out = append(out, as)
			}
		}
		return true
	})
	return out
}

// is node x (by position) inside some IfStmt of body?
func c06InsideIf(body ast.Node, x ast.Node) *ast.IfStmt {
	var found *ast.IfStmt
	ast.Inspect(body, func(n ast.Node) bool {
		if is, ok := n.(*ast.IfStmt); ok && is.Body.Pos() <= x.Pos() && x.End() <= is.Body.End() {
			found = is
		}
		return true
	})
	return found
}

func c06FuncLits(n ast.Node) []*ast.FuncLit {
	var out []*ast.FuncLit
	ast.Inspect(n, func(x ast.Node) bool {
		if fl, ok := x.(*ast.FuncLit); ok {
			out = append(out, fl)
		}
		return true
	})
	return out
}

func c06All(gw, sw, tr *File) map[string]c06Fact {
	out := map[string]c06Fact{}
	unk := func(f *File) c06Fact { return c06Fact{Unknown, f.Path} }

	// ---- resetsFlags: does anything clear the *Changed flags after a save? -------------------
	{
		fact := unk(tr)
		save := sw.Func("swamp", "SaveFunction")
		tsave := tr.Func("treasure", "Save")
		if save != nil && tsave != nil {
			// the flags exist
			flags := 0
			ast.Inspect(tr.AST, func(n ast.Node) bool {
				if fd, ok := n.(*ast.Field); ok {
					for _, nm := range fd.Names {
						if strings.HasSuffix(nm.Name, "Changed") && nm.Name != "CreatedByChanged" {
							flags++
						}
					}
				}
				return true
			})
			clears := 0
			for _, fn := range []*ast.FuncDecl{tsave} {
				clears += len(c06Assigns(tr, fn.Body, func(l, r string) bool { return strings.HasSuffix(l, "Changed") && r == "false" }))
			}
			resetCall := false
			for _, c := range sw.CallsSuffix(save.Body, "") {
				fn := sw.Str(c.Fun)
				if strings.Contains(fn, "Reset") && strings.Contains(fn, "Changed") || strings.Contains(fn, "ClearChanged") {
					resetCall = true
				}
			}
			for _, c := range tr.CallsSuffix(tsave.Body, "") {
				fn := tr.Str(c.Fun)
				if strings.Contains(fn, "Reset") && strings.Contains(fn, "Changed") || strings.Contains(fn, "ClearChanged") {
					resetCall = true
				}
			}
			switch {
			case flags < 8:
				fact = unk(tr)
			case resetCall || clears >= 8:
				fact = c06Fact{Yes, c06At(tr, tsave)}
			case clears == 0:
				fact = c06Fact{No, c06At(sw, save)}
			}
		}
		out["resetsFlags"] = fact
	}

	// ---- metaCompare: metadata setters raise their flag unconditionally? -----------------------
	{
		fact := unk(tr)
		uncond, cond, missing := 0, 0, 0
		where := tr.Path
		for _, nm := range []string{"SetCreatedBy", "SetModifiedBy", "SetCreatedAt", "SetModifiedAt", "SetExpirationTime"} {
			fd := tr.Func("treasure", nm)
			if fd == nil {
				missing++
				continue
			}
			as := c06Assigns(tr, fd.Body, func(l, r string) bool { return strings.HasSuffix(l, "Changed") && r == "true" })
			if len(as) != 1 {
				missing++
				continue
			}
			if c06InsideIf(fd.Body, as[0]) != nil {
				cond++
			} else {
				uncond++
				where = c06At(tr, as[0])
			}
		}
		switch {
		case missing > 0:
		case uncond == 5:
			fact = c06Fact{No, where}
		case cond == 5:
			fact = c06Fact{Yes, where}
		}
		out["metaCompare"] = fact
	}

	// ---- tsPositive: isValidTimestamp --------------------------------------------------------------
	{
		fact := unk(gw)
		if fd := gw.Func("", "isValidTimestamp"); fd != nil {
			for _, st := range gw.Stmts(fd.Body) {
				if r, ok := st.(*ast.ReturnStmt); ok && len(r.Results) == 1 {
					switch c06Inline(gw, fd, r.Results[0]) {
					case "ts.GetSeconds() > 0 || ts.GetNanos() > 0":
						fact = c06Fact{No, c06At(gw, r)}
					case "ts.AsTime().UnixNano() > 0", "ts.GetSeconds() > 0 || (ts.GetSeconds() == 0 && ts.GetNanos() > 0)":
						fact = c06Fact{Yes, c06At(gw, r)}
					}
				}
			}
		}
		out["tsPositive"] = fact
	}

	// ---- voidClears: SetContentVoid ------------------------------------------------------------------
	{
		fact := unk(tr)
		if fd := tr.Func("treasure", "SetContentVoid"); fd != nil {
			as := c06Assigns(tr, fd.Body, func(l, r string) bool {
				return l == "t.treasure.Content" && strings.HasPrefix(r, "&Content{") && strings.Contains(r, "Void: true")
			})
			guardedOnly := len(as) > 0
			for _, a := range as {
				is := c06InsideIf(fd.Body, a)
				if is == nil || tr.Str(is.Cond) != "t.treasure.Content == nil" {
					guardedOnly = false
				}
			}
			noop := tr.Contains(fd.Body, "if t.treasure.Content.Void != false { t.treasure.Content.Void = true }")
			switch {
			case len(as) > 0 && !guardedOnly:
				fact = c06Fact{Yes, c06At(tr, as[0])}
			case guardedOnly && noop:
				fact = c06Fact{No, c06At(tr, fd)}
			}
		}
		out["voidClears"] = fact
	}

	// ---- pushChecksType: can Uint32SlicePush fail? ---------------------------------------------------
	{
		fact := unk(tr)
		if fd := tr.Func("treasure", "Uint32SlicePush"); fd != nil {
			nilRet, errRet := 0, 0
			for _, st := range tr.Stmts(fd.Body) {
				if r, ok := st.(*ast.ReturnStmt); ok && len(r.Results) == 1 {
					if tr.Str(r.Results[0]) == "nil" {
						nilRet++
					} else {
						errRet++
					}
				}
			}
			switch {
			case errRet > 0:
				fact = c06Fact{Yes, c06At(tr, fd)}
			case nilRet > 0:
				fact = c06Fact{No, c06At(tr, fd)}
			}
		}
		out["pushChecksType"] = fact
	}

	// ---- setSliceReplaces: keyValuesToTreasure, case Uint32Slice ----------------------------------------
	{
		fact := unk(gw)
		if fd := gw.Func("", "keyValuesToTreasure"); fd != nil {
			ast.Inspect(fd.Body, func(n ast.Node) bool {
				cc, ok := n.(*ast.CaseClause)
				if !ok || len(cc.List) != 1 || gw.Str(cc.List[0]) != "keyValuePair.Uint32Slice != nil" {
					return true
				}
				push, reset := false, false
				for _, st := range cc.Body {
					if gw.Contains(st, ".Uint32SlicePush(") {
						push = true
					}
					if gw.Contains(st, ".ResetContent") || gw.Contains(st, ".SetContentVoid(") || gw.Contains(st, ".SetContentUint32Slice(") {
						reset = true
					}
				}
				switch {
				case push && !reset:
					fact = c06Fact{No, c06At(gw, cc)}
				case reset:
					fact = c06Fact{Yes, c06At(gw, cc)}
				}
				return false
			})
		}
		out["setSliceReplaces"] = fact
	}

	// ---- u32delReleases / u32delChecksType: Uint32SliceDelete handler ------------------------------
	{
		rel, chk := unk(gw), unk(gw)
		if fd := gw.Func("Gateway", "Uint32SliceDelete"); fd != nil {
			for _, fl := range c06FuncLits(fd.Body) {
				dels := gw.CallsSuffix(fl.Body, ".DeleteTreasure")
				if len(dels) != 1 {
					continue
				}
				del := dels[0]
				// guard release: a non-deferred ReleaseTreasureGuard call before DeleteTreasure?
				deferred, direct := false, false
				ast.Inspect(fl.Body, func(n ast.Node) bool {
					switch x := n.(type) {
					case *ast.DeferStmt:
						if strings.HasSuffix(gw.Str(x.Call.Fun), ".ReleaseTreasureGuard") {
							deferred = true
						}
						return false
					case *ast.CallExpr:
						if strings.HasSuffix(gw.Str(x.Fun), ".ReleaseTreasureGuard") && x.End() < del.Pos() {
							direct = true
						}
					}
					return true
				})
				switch {
				case direct:
					rel = c06Fact{Yes, c06At(gw, del)}
				case deferred:
					rel = c06Fact{No, c06At(gw, del)}
				}
				// an explicit type check before the slice is touched: `if _, e := …Uint32SliceSize(); e != nil { …; return }`
				early := false
				for _, st := range fl.Body.List {
					if is, ok := st.(*ast.IfStmt); ok && is.Init != nil && gw.Contains(is.Init, ".Uint32SliceSize()") &&
						strings.HasSuffix(gw.Str(is.Cond), "!= nil") && gw.Contains(is.Body, "return") && is.End() < del.Pos() {
						if ds := gw.CallsSuffix(fl.Body, ".Uint32SliceDelete"); len(ds) == 1 && is.End() < ds[0].Pos() {
							early = true
							chk = c06Fact{Yes, c06At(gw, is)}
						}
					}
				}
				if is := c06InsideIf(fl.Body, del); is != nil && !early {
					// innermost if around DeleteTreasure is `if err := …DeleteTreasure…`; take the enclosing one
					var outer *ast.IfStmt
					ast.Inspect(fl.Body, func(n ast.Node) bool {
						if x, ok := n.(*ast.IfStmt); ok && x.Body.Pos() <= del.Pos() && del.End() <= x.Body.End() && x.Init == nil {
							if outer == nil {
								outer = x
							}
						}
						return true
					})
					if outer != nil {
						switch gw.Str(outer.Cond) {
						case "err != nil || size == 0":
							chk = c06Fact{No, c06At(gw, outer)}
						case "err == nil && size == 0":
							chk = c06Fact{Yes, c06At(gw, outer)}
						}
					}
				}
			}
		}
		out["u32delReleases"], out["u32delChecksType"] = rel, chk
	}

	// ---- incFailClean: IncrementXxx applies metadata before the condition check? -----------------
	{
		fact := unk(sw)
		before, after, bad := 0, 0, 0
		where := sw.Path
		for _, nm := range []string{"IncrementUint8", "IncrementUint16", "IncrementUint32", "IncrementUint64", "IncrementInt8",
			"IncrementInt16", "IncrementInt32", "IncrementInt64", "IncrementFloat32", "IncrementFloat64"} {
			fd := sw.Func("swamp", nm)
			if fd == nil {
				bad++
				continue
			}
			var condIf *ast.IfStmt
			for _, st := range fd.Body.List {
				if is, ok := st.(*ast.IfStmt); ok && sw.Str(is.Cond) == "condition != nil" {
					condIf = is
				}
			}
			metas := sw.Calls(fd.Body, "s.setMetaForIncrement")
			if condIf == nil || len(metas) == 0 {
				bad++
				continue
			}
			b := false
			for _, m := range metas {
				if m.Pos() < condIf.Pos() {
					b = true
					where = c06At(sw, m)
				}
			}
			cleans := len(sw.Calls(fd.Body, "s.creatingTreasures.Delete")) > 0
			switch {
			case b:
				before++
			case cleans:
				after++
			default:
				bad++
			}
		}
		switch {
		case bad > 0:
		case before == 10:
			fact = c06Fact{No, where}
		case after == 10:
			fact = c06Fact{Yes, where}
		}
		out["incFailClean"] = fact
	}

	// ---- noEmptyLive: readers summon without an existence check? ----------------------------------
	checkArg := func(name string) (string, ast.Node) {
		fd := gw.Func("Gateway", name)
		if fd == nil {
			return "", nil
		}
		cs := gw.Calls(fd.Body, "checkSwampName")
		if len(cs) == 0 || len(cs[0].Args) != 4 {
			return "", nil
		}
		return gw.Str(cs[0].Args[3]), cs[0]
	}
	{
		fact := unk(gw)
		f, t := 0, 0
		var at ast.Node
		for _, nm := range []string{"Uint32SliceSize", "Uint32SliceIsValueExist", "Uint32SliceDelete"} {
			a, n := checkArg(nm)
			// an `IsExistSwamp` test that returns before `SummonSwamp` is as good as checkExist=true
			guarded := false
			if fd := gw.Func("Gateway", nm); fd != nil {
				sums := gw.CallsSuffix(fd.Body, ".SummonSwamp")
				for _, st := range fd.Body.List {
					if is, ok := st.(*ast.IfStmt); ok && is.Init != nil && gw.Contains(is.Init, ".IsExistSwamp(") &&
						gw.Contains(is.Body, "return") && len(sums) == 1 && is.End() < sums[0].Pos() {
						guarded = true
					}
				}
			}
			switch {
			case a == "true" || (a == "false" && guarded):
				t++
			case a == "false":
				f++
				at = n
			}
		}
		// (a failed increment on a missing swamp is covered by incFailClean: it parks an in-flight treasure)
		switch {
		case f+t != 3:
		case f > 0:
			fact = c06Fact{No, c06At(gw, at)}
		default:
			fact = c06Fact{Yes, gw.Path}
		}
		out["noEmptyLive"] = fact
	}

	// ---- arekAllFalse ---------------------------------------------------------------------------------
	{
		fact := unk(gw)
		a, n := checkArg("AreKeysExist")
		switch a {
		case "true":
			fact = c06Fact{No, c06At(gw, n)}
		case "false":
			fact = c06Fact{Yes, c06At(gw, n)}
		}
		out["arekAllFalse"] = fact
	}

	// ---- countMissingOk: the code Count tolerates vs the code checkSwampName returns ------------------
	{
		fact := unk(gw)
		ret := ""
		if fd := gw.Func("", "checkSwampName"); fd != nil {
			ast.Inspect(fd.Body, func(n ast.Node) bool {
				if is, ok := n.(*ast.IfStmt); ok && gw.Str(is.Cond) == "checkExist" {
					for _, c := range gw.Calls(is.Body, "status.Error") {
						if len(c.Args) == 2 {
							ret = gw.Str(c.Args[0])
						}
					}
					return false
				}
				return true
			})
		}
		if fd := gw.Func("Gateway", "Count"); fd != nil && ret != "" {
			ast.Inspect(fd.Body, func(n ast.Node) bool {
				if be, ok := n.(*ast.BinaryExpr); ok && be.Op == token.EQL && gw.Str(be.X) == "st.Code()" {
					if gw.Str(be.Y) == ret {
						fact = c06Fact{Yes, c06At(gw, be)}
					} else {
						fact = c06Fact{No, c06At(gw, be)}
					}
				}
				return true
			})
		}
		out["countMissingOk"] = fact
	}

	// ---- setErrSingle: Set appends an error entry inside the closure AND the entry after it ------------
	{
		fact := unk(gw)
		if fd := gw.Func("Gateway", "Set"); fd != nil {
			isAppend := func(as *ast.AssignStmt) bool {
				return len(as.Lhs) == 1 && gw.Str(as.Lhs[0]) == "swampResponses" && len(as.Rhs) == 1 && strings.HasPrefix(gw.Str(as.Rhs[0]), "append(swampResponses,")
			}
			inner, outer := 0, 0
			var at ast.Node
			lits := c06FuncLits(fd.Body)
			ast.Inspect(fd.Body, func(n ast.Node) bool {
				as, ok := n.(*ast.AssignStmt)
				if !ok || !isAppend(as) {
					return true
				}
				in := false
				for _, fl := range lits {
					if fl.Pos() <= as.Pos() && as.End() <= fl.End() {
						in = true
					}
				}
				if in && strings.Contains(gw.Str(as.Rhs[0]), "ErrorCode") {
					inner++
					at = as
				}
				if !in && c06InsideIf(fd.Body, as) == nil {
					outer++
				}
				return true
			})
			switch {
			case inner > 0 && outer > 0:
				fact = c06Fact{No, c06At(gw, at)}
			case inner == 0 && outer == 1:
				fact = c06Fact{Yes, c06At(gw, fd)}
			case inner > 0 && outer == 0:
				fact = c06Fact{Yes, c06At(gw, at)}
			}
		}
		out["setErrSingle"] = fact
	}

	// ---- fltCondDirect: the ordering conditions of IncrementFloat32/64 ------------------------------
	// yes: `if !(contentFloat > condition.Value) { fail }` (the stated comparison decides);
	// no:  `if contentFloat <= condition.Value { fail }` (the complement decides: never fails on NaN)
	{
		fact := unk(sw)
		direct := map[string]string{"RelationalOperatorGreaterThan": ">", "RelationalOperatorGreaterThanOrEqual": ">=",
			"RelationalOperatorLessThan": "<", "RelationalOperatorLessThanOrEqual": "<="}
		compl := map[string]string{"RelationalOperatorGreaterThan": "<=", "RelationalOperatorGreaterThanOrEqual": "<",
			"RelationalOperatorLessThan": ">=", "RelationalOperatorLessThanOrEqual": ">"}
		yes, no, other := 0, 0, 0
		var at ast.Node
		for _, fn := range []string{"IncrementFloat32", "IncrementFloat64"} {
			fd := sw.Func("swamp", fn)
			if fd == nil {
				other++
				continue
			}
			ast.Inspect(fd.Body, func(n ast.Node) bool {
				cc, ok := n.(*ast.CaseClause)
				if !ok || len(cc.List) != 1 {
					return true
				}
				op := sw.Str(cc.List[0])
				if _, ok := direct[op]; !ok {
					return true
				}
				if len(cc.Body) != 1 {
					other++
					return true
				}
				is, ok := cc.Body[0].(*ast.IfStmt)
				if !ok {
					other++
					return true
				}
				switch sw.Str(is.Cond) {
				case "!(contentFloat " + direct[op] + " condition.Value)":
					yes++
				case "contentFloat " + compl[op] + " condition.Value":
					no++
					if at == nil {
						at = is
					}
				default:
					other++
				}
				return true
			})
		}
		switch {
		case other == 0 && yes == 8 && no == 0:
			fact = c06Fact{Yes, sw.Path}
		case other == 0 && no > 0 && yes+no == 8:
			fact = c06Fact{No, c06At(sw, at)}
		}
		out["fltCondDirect"] = fact
	}

	// ---- keyChecked: Set, Uint32SlicePush and the ten Increment handlers refuse a key the file cannot hold ---
	// yes: `isValidKey` is `key != "" && len(key) <= maxKeyLength` with maxKeyLength = 65535, and each of the
	// twelve handlers returns InvalidArgument under `!isValidKey(<its key>)` before it summons anything
	{
		fact := unk(gw)
		defOK := false
		if fd := gw.Func("", "isValidKey"); fd != nil && fd.Body != nil && len(fd.Body.List) == 1 {
			if r, ok := fd.Body.List[0].(*ast.ReturnStmt); ok && len(r.Results) == 1 &&
				gw.Str(r.Results[0]) == `key != "" && len(key) <= maxKeyLength` {
				defOK = true
			}
		}
		maxOK := false
		ast.Inspect(gw.AST, func(n ast.Node) bool {
			if vs, ok := n.(*ast.ValueSpec); ok && len(vs.Names) == 1 && vs.Names[0].Name == "maxKeyLength" &&
				len(vs.Values) == 1 && gw.Str(vs.Values[0]) == "65535" {
				maxOK = true
			}
			return true
		})
		guarded := func(fn, arg string) (bool, bool) { // (has the guard before SummonSwamp, mentions isValidKey at all)
			fd := gw.Func("Gateway", fn)
			if fd == nil {
				return false, false
			}
			found, any := false, false
			summon := token.Pos(0)
			for _, c := range gw.CallsSuffix(fd.Body, "SummonSwamp") {
				if summon == 0 || c.Pos() < summon {
					summon = c.Pos()
				}
			}
			ast.Inspect(fd.Body, func(n ast.Node) bool {
				is, ok := n.(*ast.IfStmt)
				if !ok {
					return true
				}
				if strings.Contains(gw.Str(is.Cond), "isValidKey") {
					any = true
				}
				if gw.Str(is.Cond) == "!isValidKey("+arg+")" && gw.Contains(is.Body, "codes.InvalidArgument") &&
					gw.Contains(is.Body, "return nil") && (summon == 0 || is.Pos() < summon) {
					found = true
				}
				return true
			})
			return found, any
		}
		handlers := [][2]string{{"Set", "item.GetKey()"}, {"Uint32SlicePush", "pair.GetKey()"}}
		for _, t := range []string{"Int8", "Int16", "Int32", "Int64", "Uint8", "Uint16", "Uint32", "Uint64", "Float32", "Float64"} {
			handlers = append(handlers, [2]string{"Increment" + t, "in.Key"})
		}
		with, mention := 0, 0
		for _, h := range handlers {
			f, a := guarded(h[0], h[1])
			if f {
				with++
			}
			if a {
				mention++
			}
		}
		switch {
		case with == len(handlers) && defOK && maxOK:
			fact = c06Fact{Yes, gw.Path}
		case mention == 0 && gw.Func("", "isValidKey") == nil:
			fact = c06Fact{No, gw.Path}
		}
		out["keyChecked"] = fact
	}

	// ---- recreateKeepsPointer: SaveFunction, new-key branch: the queued delete's file pointer is inherited ----
	// yes: inside `if existedTreasureObj == nil`, before `treasuresWaitingForWriter.Delete(t.GetKey())`:
	//      `if pending := s.treasuresWaitingForWriter.Get(t.GetKey()); pending != nil && pending.GetFileName() != nil {
	//           t.BodySetFileName(guardID, *pending.GetFileName()) }`
	// no:  the branch deletes the queued entry without looking at it
	{
		fact := unk(sw)
		if fd := sw.Func("swamp", "SaveFunction"); fd != nil {
			ast.Inspect(fd.Body, func(n ast.Node) bool {
				is, ok := n.(*ast.IfStmt)
				if !ok || sw.Str(is.Cond) != "existedTreasureObj == nil" {
					return true
				}
				del := token.Pos(0)
				for _, c := range sw.Calls(is.Body, "s.treasuresWaitingForWriter.Delete") {
					if del == 0 {
						del = c.Pos()
					}
				}
				if del == 0 {
					return false
				}
				fact = c06Fact{No, c06At(sw, is)}
				mentions := false
				for _, st := range is.Body.List {
					inner, ok := st.(*ast.IfStmt)
					if !ok {
						continue
					}
					if strings.Contains(sw.Str(inner), "GetFileName") || strings.Contains(sw.Str(inner), "BodySetFileName") {
						mentions = true
					}
					if inner.Init != nil && sw.Str(inner.Init) == "pending := s.treasuresWaitingForWriter.Get(t.GetKey())" &&
						sw.Str(inner.Cond) == "pending != nil && pending.GetFileName() != nil" &&
						len(inner.Body.List) == 1 && sw.Str(inner.Body.List[0]) == "t.BodySetFileName(guardID, *pending.GetFileName())" &&
						inner.Else == nil && inner.Pos() < del {
						fact = c06Fact{Yes, c06At(sw, inner)}
						return false
					}
				}
				if mentions {
					fact = unk(sw)
				}
				return false
			})
		}
		out["recreateKeepsPointer"] = fact
	}

	// ---- patchAsksFirst: patchTreasuresOneSwamp asks IsExistSwamp before SummonSwamp when it may not create -----
	// yes: `if !in.GetCreateIfNotExist() { if isExist, existErr := hydraInterface.IsExistSwamp(...); existErr != nil || !isExist { …return… } }`
	//      placed before the SummonSwamp call;  no: no IsExistSwamp call in the function
	{
		fact := unk(gw)
		if gp, err := Load("app/server/gateway/gateway_patch.go"); err == nil {
			fact = unk(gp)
			if fd := gp.Func("", "patchTreasuresOneSwamp"); fd != nil {
				summon := token.Pos(0)
				for _, c := range gp.CallsSuffix(fd.Body, "SummonSwamp") {
					if summon == 0 || c.Pos() < summon {
						summon = c.Pos()
					}
				}
				asks := gp.CallsSuffix(fd.Body, "IsExistSwamp")
				switch {
				case summon != 0 && len(asks) == 0:
					fact = c06Fact{No, c06At(gp, fd)}
				case summon != 0 && len(asks) == 1 && asks[0].Pos() < summon:
					if outer := c06InsideIf(fd.Body, asks[0]); outer != nil {
						ok := false
						ast.Inspect(fd.Body, func(n ast.Node) bool {
							is, isIf := n.(*ast.IfStmt)
							if isIf && gp.Str(is.Cond) == "!in.GetCreateIfNotExist()" && is.Pos() <= asks[0].Pos() && asks[0].End() <= is.End() &&
								gp.Contains(is.Body, "!isExist") && gp.Contains(is.Body, "return ") {
								ok = true
							}
							return true
						})
						if ok {
							fact = c06Fact{Yes, c06At(gp, asks[0])}
						}
					}
				}
			}
		}
		out["patchAsksFirst"] = fact
	}

	// ---- fltSetBitwise: SetContentFloat32/64 decide "not changed" on the bits (yes) or with == (no) ------------
	{
		fact := unk(tr)
		yes, no, other := 0, 0, 0
		for _, w := range []string{"32", "64"} {
			fd := tr.Func("treasure", "SetContentFloat"+w)
			if fd == nil {
				other++
				continue
			}
			found := false
			ast.Inspect(fd.Body, func(n ast.Node) bool {
				is, ok := n.(*ast.IfStmt)
				if !ok || !tr.Contains(is.Body, "return") || !strings.Contains(tr.Str(is.Cond), "Content.Float"+w) {
					return true
				}
				found = true
				c := tr.Str(is.Cond)
				switch {
				case strings.HasSuffix(c, "*t.treasure.Content.Float"+w+" == content"):
					no++
				case strings.HasSuffix(c, "math.Float"+w+"bits(*t.treasure.Content.Float"+w+") == math.Float"+w+"bits(content)"):
					yes++
				default:
					other++
				}
				return true
			})
			if !found {
				other++
			}
		}
		switch {
		case other == 0 && yes == 2:
			fact = c06Fact{Yes, tr.Path}
		case other == 0 && no == 2:
			fact = c06Fact{No, tr.Path}
		}
		out["fltSetBitwise"] = fact
	}

	// ---- wireExpNe0: treasureToKeyValuePair shows ExpiredAt when `!= 0` (yes) / `> 0` (no) ---------------
	{
		fact := unk(gw)
		if fd := gw.Func("", "treasureToKeyValuePair"); fd != nil {
			ast.Inspect(fd.Body, func(n ast.Node) bool {
				if is, ok := n.(*ast.IfStmt); ok && gw.Contains(is.Body, "t.ExpiredAt =") {
					switch gw.Str(is.Cond) {
					case "treasureInterface.GetExpirationTime() > 0":
						fact = c06Fact{No, c06At(gw, is)}
					case "treasureInterface.GetExpirationTime() != 0":
						fact = c06Fact{Yes, c06At(gw, is)}
					}
				}
				return true
			})
		}
		out["wireExpNe0"] = fact
	}

	// ---- saveReleasesImmediate: SaveFunction lets go of the guard when the write interval is 0 --------
	{
		fact := unk(sw)
		if fd := sw.Func("swamp", "SaveFunction"); fd != nil {
			n, in := 0, 0
			var at ast.Node
			for _, c := range sw.Calls(fd.Body, "t.ReleaseTreasureGuard") {
				n++
				if is := c06InsideIf(fd.Body, c); is != nil && strings.Contains(sw.Str(is.Cond), "wi == 0") {
					in++
					at = c
				}
			}
			switch {
			case n == 0:
				fact = c06Fact{No, c06At(sw, fd)}
			case n == in:
				fact = c06Fact{Yes, c06At(sw, at)}
			}
		}
		out["saveReleasesImmediate"] = fact
	}
	return out
}
