package main

import (
	"go/ast"
	"strings"
)

// C08 facts: which operators indexableHint turns into bucket hints and whether it refuses
// wildcard / #len paths, planOr's bypass on sub-groups (this is also what lets the harness force
// the scan route), the shape of PlanFilter/planAnd, where each branch of GetByIndexStream applies
// offset/limit and which group it takes labels from, whether the scan route's equality is the
// canonical one, candidate de-duplication, and the shapes of valuecanon / both path extractors.
func init() {
	Register("C08", Extractor{Import: "Hv.Props.C08", Type: "Hv.C08.Facts", Run: c08Run})
}

const (
	c08Planner  = "app/server/gateway/bucket_planner.go"
	c08Exec     = "app/server/gateway/bucket_exec.go"
	c08Gateway  = "app/server/gateway/gateway.go"
	c08Native   = "app/server/gateway/filter_native.go"
	c08Filter   = "app/server/gateway/filter.go"
	c08Bucket   = "app/core/hydra/swamp/bucket/bucket.go"
	c08Canon    = "app/core/hydra/swamp/bucket/valuecanon/valuecanon.go"
	c08BeaconGo = "app/core/hydra/swamp/beacon/beacon.go"
)

var c08Tris = []string{"excludesSpecialPaths", "planOrBypassOnSubGroups", "planShape", "scanEqCanonical",
	"bucketPagingAfterFilter", "scanPagingAfterFilter", "labelReattach", "pagedQueriesBypass", "bucketChecksAttr",
	"lookupInDedupes", "unionDedupes", "bucketWindowTimeOnly", "execPreconditions", "extractorsStandard", "canonStandard", "scanLeafStandard",
	"bucketNotifyInsert", "bucketNotifyUpdate", "bucketNotifyDelete", "bucketPendingReplayed", "readerDrainsInFlight", "bucketNotifyAfterAdd", "bucketLifecycleStandard", "windowConversionAlike"}

var c08OpNames = map[string][2]string{ // proto name → (Lean constructor, show)
	"hydrapb.Relational_EQUAL": {".eq", "eq"}, "hydrapb.Relational_NOT_EQUAL": {".ne", "ne"},
	"hydrapb.Relational_GREATER_THAN": {".gt", "gt"}, "hydrapb.Relational_GREATER_THAN_OR_EQUAL": {".ge", "ge"},
	"hydrapb.Relational_LESS_THAN": {".lt", "lt"}, "hydrapb.Relational_LESS_THAN_OR_EQUAL": {".le", "le"},
	"hydrapb.Relational_STRING_IN": {".strIn", "sin"}, "hydrapb.Relational_INT32_IN": {".i32In", "i32in"},
	"hydrapb.Relational_INT64_IN": {".i64In", "i64in"},
	"hydrapb.Relational_IS_EMPTY": {".isEmpty", "empty"}, "hydrapb.Relational_IS_NOT_EMPTY": {".isNotEmpty", "nempty"},
}

func c08Run(fs *Facts) {
	fs.Raw("indexableOps", "none", "unknown", "")
	for _, n := range c08Tris {
		fs.Tri(n, Unknown, "")
	}
	if f, err := Load(c08Planner); err != nil {
		fs.Err("%v", err)
	} else {
		c08Hint(fs, f)
		c08Plan(fs, f)
	}
	if f, err := Load(c08Gateway); err != nil {
		fs.Err("%v", err)
	} else {
		c08Stream(fs, f)
	}
	if f, err := Load(c08Exec); err != nil {
		fs.Err("%v", err)
	} else {
		c08ExecFacts(fs, f)
	}
	if f, err := Load(c08Native); err != nil {
		fs.Err("%v", err)
	} else {
		c08Scan(fs, f)
	}
	if f, err := Load(c08Bucket); err != nil {
		fs.Err("%v", err)
	} else {
		c08BucketFacts(fs, f)
	}
	c08Shapes(fs)
	c08Track(fs)
}

func c08At(path string, f *File, n ast.Node) string { return path + ":" + itoa(f.Line(n)) }

func c08Hint(fs *Facts, f *File) {
	fd := f.Func("", "indexableHint")
	if fd == nil {
		return
	}
	c07Canon(fd, []string{"f", "path", "v", "ok", "vals", "i", "s", "vals", "i", "n", "vals", "i", "n"})
	where := c08At(c08Planner, f, fd)
	var sw *ast.SwitchStmt
	for _, st := range fd.Body.List {
		if s, ok := st.(*ast.SwitchStmt); ok && f.Str(s.Tag) == "f.GetOperator()" {
			sw = s
		}
	}
	if sw == nil || !f.Contains(fd.Body, "path := f.GetBytesFieldPath() if path == \"\" { return BucketHint{}, false }") ||
		f.Str(fd.Body.List[len(fd.Body.List)-1]) != "return BucketHint{}, false" {
		return
	}
	var lean, show []string
	ok := true
	for _, st := range sw.Body.List {
		cc := st.(*ast.CaseClause)
		if cc.List == nil {
			ok = false // a default clause: not a shape we know
			continue
		}
		body := f.Str(&ast.BlockStmt{List: cc.Body})
		// every case must end by returning a hint built from `path`
		kind := ""
		switch {
		case strings.Contains(body, "v, ok := compareValueToAny(f) if !ok { return BucketHint{}, false } return BucketHint{FieldPath: path, Op: HintEqual, Values: []any{v}}, true"):
			kind = "equal"
		case strings.Contains(body, "Op: HintIn, Values: vals}, true") && strings.Contains(body, "return BucketHint{}, false"):
			kind = "in"
		default:
			ok = false
		}
		for _, e := range cc.List {
			nm, known := c08OpNames[f.Str(e)]
			if !known {
				ok = false
				continue
			}
			isIn := strings.HasSuffix(nm[1], "in")
			if (kind == "in") != isIn && kind != "" {
				// an IN operator served as equality or the reverse: not modelled
				if kind == "in" {
					ok = false
				}
			}
			lean = append(lean, nm[0])
			show = append(show, nm[1])
		}
	}
	if ok && len(lean) > 0 {
		fs.Raw("indexableOps", "(some ["+strings.Join(lean, ", ")+"])", strings.Join(show, ","), c08At(c08Planner, f, sw))
	}
	// special-path exclusion: any mention of the two pseudo-segments before the switch
	src := f.Str(fd.Body)
	mentions := strings.Contains(src, "\"[*]\"") || strings.Contains(src, "\"#len\"")
	if !mentions {
		fs.Tri("excludesSpecialPaths", No, where)
	} else if strings.Contains(src, "\"[*]\"") && strings.Contains(src, "\"#len\"") && strings.Contains(src, "strings.Contains(path,") {
		fs.Tri("excludesSpecialPaths", Yes, where)
	}
}

func c08Plan(fs *Facts, f *File) {
	or := f.Func("", "planOr")
	and := f.Func("", "planAnd")
	pf := f.Func("", "PlanFilter")
	if or == nil || and == nil || pf == nil {
		return
	}
	c07Canon(or, []string{"group", "hints", "leg", "hint", "ok"})
	c07Canon(and, []string{"group", "i", "leg", "hint", "ok", "i", "sub", "subPlan"})
	c07Canon(pf, []string{"group", "logic"})
	if first, ok := or.Body.List[0].(*ast.IfStmt); ok {
		cond := f.Str(first.Cond)
		ret := f.Str(first.Body) == "{ return Plan{Mode: PlanModeBypass} }"
		switch {
		case ret && strings.HasPrefix(cond, "len(group.GetSubGroups()) > 0 ||"):
			fs.Tri("planOrBypassOnSubGroups", Yes, c08At(c08Planner, f, first))
		case ret && !strings.Contains(cond, "GetSubGroups"):
			fs.Tri("planOrBypassOnSubGroups", No, c08At(c08Planner, f, first))
		}
	}
	shape := f.Contains(pf.Body, "if isEmptyGroup(group) { return Plan{Mode: PlanModeBypass} }") &&
		f.Contains(pf.Body, "if logic == hydrapb.FilterLogic_AND { return planAnd(group) } return planOr(group)") &&
		f.Contains(and.Body, "for i, leg := range group.GetFilters() { hint, ok := indexableHint(leg) if !ok { continue } return Plan{ Mode: PlanModeAnd, Hints: []BucketHint{hint}, Residual: removeFilterAt(group, i), } }") &&
		f.Contains(and.Body, "for i, sub := range group.GetSubGroups() { subPlan := PlanFilter(sub) if subPlan.Mode != PlanModeOrUnion { continue } return Plan{ Mode: PlanModeAnd, Hints: subPlan.Hints, Residual: removeSubGroupAt(group, i), } }") &&
		f.Contains(or.Body, "for _, leg := range group.GetFilters() { hint, ok := indexableHint(leg) if !ok { return Plan{Mode: PlanModeBypass} } hints = append(hints, hint) }") &&
		f.Contains(or.Body, "if len(hints) == 0 { return Plan{Mode: PlanModeBypass} } return Plan{Mode: PlanModeOrUnion, Hints: hints, Residual: nil}")
	shape = shape && c08ResidualCarriesAll(f)
	if shape {
		fs.Tri("planShape", Yes, c08At(c08Planner, f, pf))
	}
}

// The route logic exists twice in the gateway: GetByIndexStream and (per query, inside a function
// literal) GetByIndexStreamFromMany.  The facts are read off each copy; a fact is set only when both
// copies give the same value.
func c08StreamFactsOf(src, maxVar string) map[string]Tri {
	out := map[string]Tri{}
	steps := "candidates := collectBucketCandidates(swampInterface, plan.Hints) candidates = applyTimeRange(candidates, beaconType, fromTime, toTime) sortCandidates(candidates, beaconType, order) treasures = applyFromLimit(candidates, in.GetFrom(), in.GetLimit()) residualFilters = plan.Residual"
	gateOld := "if plan.Mode != PlanModeBypass && bucketExecPreconditions(beaconType) { "
	gateNew := "if plan.Mode != PlanModeBypass && bucketExecPreconditions(beaconType) && in.GetFrom() == 0 && in.GetLimit() == 0 { "
	relabel := " if hasAnyLabels(filters) { residualFilters = filters }"
	scan := "treasures, err = swampInterface.GetTreasuresByBeacon( beaconType, order, in.GetFrom(), in.GetLimit(), fromTime, toTime)"
	if !strings.Contains(src, "plan := PlanFilter(filters)") || !strings.Contains(src, "filters := in.GetFilters()") ||
		!strings.Contains(src, "fromTime, toTime := parseOptionalTimestamps(in.GetFromTime(), in.GetToTime())") ||
		!strings.Contains(src, "beaconType := inputIndexTypeToBeaconType(in.GetIndexType()) order := inputOrderTypeToBeaconOrderType(in.GetOrderType())") {
		return out
	}
	gated := strings.Contains(src, gateNew+steps)
	if gated || strings.Contains(src, gateOld+steps) {
		out["bucketPagingAfterFilter"] = No
		out["pagedQueriesBypass"] = TriOf(gated)
		out["bucketChecksAttr"] = No // refined by c08ExecFacts
	}
	if strings.Contains(src, scan) && strings.Contains(src, "residualFilters = filters } "+maxVar+" := in.GetMaxResults()") {
		out["scanPagingAfterFilter"] = No
	}
	if strings.Contains(src, "needsMeta := hasAnyLabels(residualFilters)") &&
		strings.Contains(src, "matched, meta = evaluateNativeFilterGroupWithMeta(treasureInterface, residualFilters)") &&
		strings.Contains(src, "matched = evaluateNativeFilterGroup(treasureInterface, residualFilters)") &&
		!strings.Contains(src, "plan.Hints[") && strings.Count(src, "MatchedLabels") == 1 {
		switch {
		case strings.Contains(src, steps+relabel+" } else {"):
			out["labelReattach"] = Yes
		case strings.Contains(src, steps+" } else {"):
			out["labelReattach"] = No
		}
	}
	return out
}

func c08Stream(fs *Facts, f0 *File) {
	if f0.Func("Gateway", "GetByIndexStream") == nil || f0.Func("Gateway", "GetByIndexStreamFromMany") == nil {
		return
	}
	where0 := c08At(c08Gateway, f0, f0.Func("Gateway", "GetByIndexStream"))
	whereM := c08At(c08Gateway, f0, f0.Func("Gateway", "GetByIndexStreamFromMany"))
	// one level of helper calls resolved (a `residualFor(plan, filters)` in place of the two statements is the same code)
	f, fd := c07Inlined(f0, "Gateway", "GetByIndexStream", c08StreamVocabulary...)
	f2, fm := c07Inlined(f0, "Gateway", "GetByIndexStreamFromMany", c08StreamVocabulary...)
	if fd == nil || fm == nil {
		return
	}
	c07Canon(fd, []string{"g", "in", "stream", "swampName", "err", "hydraInterface", "swampInterface", "fromTime", "toTime", "beaconType",
		"order", "filters", "plan", "treasures", "residualFilters", "candidates", "err", "maxResults", "includeMap", "excludeMap",
		"needsMeta", "matchCount", "treasureInterface", "key", "included", "excluded", "matched", "meta", "resp", "t", "err"})
	where := where0
	one := c08StreamFactsOf(f.Str(fd.Body), "maxResults")
	// the per-query copy: the request is `query` there
	many := c08StreamFactsOf(strings.ReplaceAll(strings.ReplaceAll(f2.Str(fm.Body), "query.", "in."), "var err error ", ""), "queryMax")
	oneSrc := strings.ReplaceAll(f.Str(fd.Body), "var err error ", "")
	if len(one) > 0 && len(c08StreamFactsOf(oneSrc, "maxResults")) > 0 {
		one = c08StreamFactsOf(oneSrc, "maxResults")
	}
	for k, v := range one {
		if mv, ok := many[k]; ok && mv == v {
			fs.Tri(k, v, where)
		} else {
			fs.Tri(k, Unknown, whereM)
		}
	}
}

func c08ExecFacts(fs *Facts, f *File) {
	pre := f.Func("", "bucketExecPreconditions")
	if pre != nil && f.Contains(pre.Body, "case hydra.BeaconTypeKey, hydra.BeaconTypeCreationTime, hydra.BeaconTypeUpdateTime, hydra.BeaconTypeExpirationTime: return true") {
		fs.Tri("execPreconditions", Yes, c08At(c08Exec, f, pre))
	}
	col := f.Func("", "collectBucketCandidates")
	c07Canon(col, []string{"sw", "hints", "h", "seen", "out", "h", "hits", "t", "k", "dup"})
	c07Canon(f.Func("", "applyTimeRange"), []string{"candidates", "beaconType", "fromTime", "toTime", "fromNs", "toNs", "out", "t", "ts"})
	c07Canon(f.Func("", "applyTimeRange"), []string{"candidates", "beaconType", "fromTime", "toTime", "fromNs", "toNs", "hasFrom", "hasTo", "empty", "out", "t", "ts"})
	c07Canon(f.Func("", "beaconTimeOf"), []string{"t", "beaconType"})
	c07Canon(pre, []string{"beaconType"})
	if col != nil {
		src := f.Str(col.Body)
		if strings.Contains(src, "if len(hints) == 1 {") && strings.Contains(src, "return sw.LookupByBucketEqual(h.FieldPath, h.Values[0])") &&
			strings.Contains(src, "return sw.LookupByBucketIn(h.FieldPath, h.Values)") {
			if strings.Contains(src, "if _, dup := seen[k]; dup { continue } seen[k] = struct{}{} out = append(out, t)") {
				fs.Tri("unionDedupes", Yes, c08At(c08Exec, f, col))
			} else if !strings.Contains(src, "seen[") {
				fs.Tri("unionDedupes", No, c08At(c08Exec, f, col))
			}
		}
	}
	// applyTimeRange: which candidates it lets through without looking at a window, and whether it
	// drops candidates without the timestamp
	tr := f.Func("", "applyTimeRange")
	sc := f.Func("", "sortCandidates")
	bt := f.Func("", "beaconTimeOf")
	if tr != nil && sc != nil && bt != nil && strings.HasSuffix(f.Str(bt.Body), "} return 0 }") && !strings.Contains(f.Str(sc.Body), "== 0") {
		src := f.Str(tr.Body)
		// the conversion of the two bounds: as they are (UnixNano wraps outside 1677…2262) or through
		// beacon.WindowNanos — it has to be the one the index read of the scan route uses
		const rawConv = "var fromNs, toNs int64 if fromTime != nil { fromNs = fromTime.UnixNano() } if toTime != nil { toNs = toTime.UnixNano() }"
		const chkConv = "fromNs, toNs, hasFrom, hasTo, empty := beacon.WindowNanos(fromTime, toTime) if empty { return candidates[:0] } if !hasFrom { fromTime = nil } if !hasTo { toTime = nil }"
		bucketChecked := strings.Contains(src, chkConv) && !strings.Contains(src, "UnixNano()")
		bucketRaw := strings.Contains(src, rawConv)
		src = strings.Replace(strings.Replace(src, rawConv, "var fromNs", 1), chkConv, "var fromNs", 1)
		if fb, err := Load(c08BeaconGo); err == nil {
			if ft := fb.Func("beacon", "findTimeRangeBounds"); ft != nil {
				c07Canon(ft, []string{"b", "fromTime", "toTime", "n", "fromNano", "toNano", "isAscending", "startIdx", "endIdx",
					"l", "r", "m", "l", "r", "m", "l", "r", "m", "l", "r", "m"})
				c07Canon(ft, []string{"b", "fromTime", "toTime", "n", "fromNano", "toNano", "hasFrom", "hasTo", "empty", "isAscending", "startIdx", "endIdx",
					"l", "r", "m", "l", "r", "m", "l", "r", "m", "l", "r", "m"})
				scanRaw := fb.Contains(ft.Body, "if fromTime != nil { fromNano = fromTime.UTC().UnixNano() } if toTime != nil { toNano = toTime.UTC().UnixNano() }")
				scanChecked := fb.Contains(ft.Body, "fromNano, toNano, hasFrom, hasTo, empty := WindowNanos(fromTime, toTime) if empty { return 0, -1 } if !hasFrom { fromTime = nil } if !hasTo { toTime = nil }") &&
					!fb.Contains(ft.Body, "UnixNano()")
				if (bucketRaw && scanRaw && !bucketChecked && !scanChecked) || (bucketChecked && scanChecked && !bucketRaw && !scanRaw) {
					fs.Tri("windowConversionAlike", Yes, c08At(c08Exec, f, tr))
				}
			}
		}
		loop := strings.Contains(src, "if fromTime != nil && ts < fromNs { continue } if toTime != nil && ts >= toNs { continue }")
		where := c08At(c08Exec, f, tr)
		switch {
		case loop && strings.HasPrefix(src, "{ if fromTime == nil && toTime == nil { return candidates } var fromNs") && !strings.Contains(src, "ts == 0"):
			// old shape: no window → everything; window → every beacon type, the key index with timestamp 0
			fs.Tri("bucketChecksAttr", No, where)
			fs.Tri("bucketWindowTimeOnly", No, where)
		case loop && strings.HasPrefix(src, "{ if beaconType == hydra.BeaconTypeKey { return candidates } var fromNs") &&
			strings.Contains(src, "ts := beaconTimeOf(t, beaconType) if ts == 0 { continue }"):
			fs.Tri("bucketChecksAttr", Yes, where)
			fs.Tri("bucketWindowTimeOnly", Yes, where)
		case loop && strings.HasPrefix(src, "{ if (fromTime == nil && toTime == nil) || beaconType == hydra.BeaconTypeKey { return candidates } var fromNs") && !strings.Contains(src, "ts == 0"):
			fs.Tri("bucketChecksAttr", No, where)
			fs.Tri("bucketWindowTimeOnly", Yes, where)
		case loop && strings.HasPrefix(src, "{ var fromNs") && strings.Contains(src, "ts := beaconTimeOf(t, beaconType) if ts == 0 { continue }"):
			// zero check for every beacon type would also empty key-ordered queries: not a modelled shape
			fs.Tri("bucketChecksAttr", Unknown, where)
		default:
			fs.Tri("bucketChecksAttr", Unknown, where)
			fs.Tri("bucketWindowTimeOnly", Unknown, where)
		}
	}
}

func c08Scan(fs *Facts, f *File) {
	fd := f.Func("", "evaluateBytesFieldFilterAgainstMap")
	if fd == nil {
		return
	}
	c07Canon(fd, []string{"decoded", "filter", "op", "fieldVal", "ams", "ok", "isEmpty", "s", "ok", "mapVal", "ok", "cv", "exists", "cv",
		"v", "ok", "v", "ok", "v", "ok", "v", "ok", "v", "ok", "v", "ok", "v", "ok", "v", "ok", "v", "ok", "v", "ok", "v", "ok", "v", "ok", "ref"})
	where := c08At(c08Native, f, fd)
	src := f.Str(fd.Body)
	std := strings.Contains(src, "fieldVal := extractFieldByPath(decoded, *filter.BytesFieldPath)") &&
		strings.Contains(src, "if ams, ok := fieldVal.(anyMatchSlice); ok { return evaluateAnyMatch(ams, op, filter) }") &&
		strings.Contains(src, "if op == hydrapb.Relational_STRING_IN { return evaluateStringIn(fieldVal, filter.StringInVals) }") &&
		strings.Contains(src, "case *hydrapb.TreasureFilter_Int64Val: if v, ok := toInt64(fieldVal); ok { return compareOrdered(v, op, cv.Int64Val) }") &&
		strings.Contains(src, "case *hydrapb.TreasureFilter_Uint64Val: if v, ok := toUint64(fieldVal); ok { return compareOrdered(v, op, cv.Uint64Val) }") &&
		strings.Contains(src, "case *hydrapb.TreasureFilter_Float64Val: if v, ok := toFloat64(fieldVal); ok { return compareOrdered(v, op, cv.Float64Val) }")
	if strings.Contains(src, "valuecanon.") {
		// some canonical comparison is present: the model does not know its extent
		return
	}
	if std {
		fs.Tri("scanEqCanonical", No, where)
		fs.Tri("scanLeafStandard", Yes, where)
	}
}

func c08BucketFacts(fs *Facts, f *File) {
	fd := f.Func("bucket", "LookupIn")
	if fd == nil {
		return
	}
	c07Canon(fd, []string{"b", "values", "seen", "out", "v", "want", "t", "k", "dup"})
	src := f.Str(fd.Body)
	if strings.Contains(src, "for _, t := range collectMatchingLocked(b, want) {") {
		if strings.Contains(src, "if _, dup := seen[k]; dup { continue } seen[k] = struct{}{} out = append(out, t)") {
			fs.Tri("lookupInDedupes", Yes, c08At(c08Bucket, f, fd))
		} else if !strings.Contains(src, "seen[k]") {
			fs.Tri("lookupInDedupes", No, c08At(c08Bucket, f, fd))
		}
	}
}

// shapes the model relies on without parametrising them: both path extractors and valuecanon
func c08Shapes(fs *Facts) {
	okExt := false
	if fb, err := Load(c08Bucket); err == nil {
		if fg, err := Load(c08Filter); err == nil {
			b := fb.Func("", "extractFieldByPath")
			g := fg.Func("", "extractFieldByPath")
			ek := fb.Func("", "extractKey")
			if b != nil && g != nil && ek != nil {
				bs, gs := fb.Str(b.Body), fg.Str(g.Body)
				okExt = !strings.Contains(bs, "#len") && !strings.Contains(bs, "[*]") &&
					strings.Contains(bs, "cm, ok := current.(map[string]any) if !ok { return nil } current, ok = cm[part] if !ok { return nil }") &&
					strings.Contains(gs, "if part == \"#len\" {") && strings.Contains(gs, "if strings.HasSuffix(part, \"[*]\") {") &&
					strings.Contains(gs, "return anyMatchSlice{values: values}") &&
					strings.Contains(fb.Str(ek.Body), "v := extractFieldByPath(m, fieldPath) return valuecanon.Canonicalize(v), true") &&
					strings.Contains(fb.Str(ek.Body), "if err != nil || len(body) == 0 { return valuecanon.NullKey, true }")
				if okExt {
					fs.Tri("extractorsStandard", Yes, c08At(c08Filter, fg, g))
				}
			}
		}
	}
	if fc, err := Load(c08Canon); err == nil {
		eq := fc.Func("", "Equal")
		cn := fc.Func("", "Canonicalize")
		ll := fc.Func("", "toFloat64Lossless")
		if eq != nil && cn != nil && ll != nil {
			es, cs := fc.Str(eq.Body), fc.Str(cn.Body)
			c07Canon(eq, []string{"a", "b", "af", "ok", "bf"})
			es = fc.Str(eq.Body)
			same := true
			for _, c := range []string{"case KindNull: return true", "case KindBool: return a.B == b.B", "case KindInt64: return a.I == b.I",
				"case KindUint64: return a.U == b.U", "case KindFloat64: return a.F == b.F", "case KindString: return a.S == b.S"} {
				same = same && strings.Contains(es, c)
			}
			ok := same && strings.HasPrefix(es, "{ if a.Kind == b.Kind { switch a.Kind {") &&
				strings.Contains(es, "if a.Kind == KindInt64 && b.Kind == KindUint64 { return a.I >= 0 && uint64(a.I) == b.U }") &&
				strings.Contains(es, "if a.Kind == KindUint64 && b.Kind == KindInt64 { return b.I >= 0 && uint64(b.I) == a.U }") &&
				strings.Contains(es, "bf, ok := toFloat64Lossless(b) if !ok { return false } return af == bf") &&
				strings.Contains(fc.Str(ll.Body), "f := float64(k.U) if uint64(f) != k.U { return 0, false }") &&
				strings.Contains(es, "if a.Kind == KindFloat64 || b.Kind == KindFloat64 { af, ok := toFloat64Lossless(a)") &&
				strings.Contains(es, "if !isNumeric(a.Kind) || !isNumeric(b.Kind) { return false }") &&
				strings.Contains(cs, "case time.Time: return Key{Kind: KindInt64, I: n.UTC().Unix()}") &&
				strings.Contains(cs, "case float32: return Key{Kind: KindFloat64, F: float64(n)}") &&
				strings.Contains(cs, "case uint64: return Key{Kind: KindUint64, U: n}") &&
				strings.Contains(fc.Str(ll.Body), "f := float64(k.I) if int64(f) != k.I { return 0, false }")
			if ok {
				fs.Tri("canonStandard", Yes, c08At(c08Canon, fc, eq))
			}
		}
	}
}

// the functions the shapes of the two stream handlers name
var c08StreamVocabulary = []string{"collectBucketCandidates", "applyTimeRange", "sortCandidates", "applyFromLimit", "hasAnyLabels", "PlanFilter",
	"bucketExecPreconditions", "parseOptionalTimestamps", "buildKeySet", "evaluateNativeFilterGroup", "evaluateNativeFilterGroupWithMeta",
	"inputIndexTypeToBeaconType", "inputOrderTypeToBeaconOrderType", "checkSwampName", "treasureToKeyValuePair", "handlePanic"}

// The residual is the group minus the hinted leg: cloneGroupHeader copies EVERY field of
// hydrapb.FilterGroup (the list is read off the generated struct, so a new kind of leg is noticed),
// removeFilterAt / removeSubGroupAt start from that copy and drop exactly position i.
func c08ResidualCarriesAll(f *File) bool {
	ch := f.Func("", "cloneGroupHeader")
	rf := f.Func("", "removeFilterAt")
	rs := f.Func("", "removeSubGroupAt")
	if ch == nil || rf == nil || rs == nil {
		return false
	}
	c07Canon(ch, []string{"g"})
	c07Canon(rf, []string{"group", "i", "src", "out"})
	c07Canon(rs, []string{"group", "i", "src", "out"})
	pb, err := Load("sdk/go/hydraidego/hydraidepbgo/hydraide.pb.go")
	if err != nil {
		return false
	}
	var fields []string
	ast.Inspect(pb.AST, func(x ast.Node) bool {
		ts, ok := x.(*ast.TypeSpec)
		if !ok || ts.Name.Name != "FilterGroup" {
			return true
		}
		if st, ok := ts.Type.(*ast.StructType); ok {
			for _, fl := range st.Fields.List {
				for _, n := range fl.Names {
					if n.IsExported() {
						fields = append(fields, n.Name)
					}
				}
			}
		}
		return false
	})
	if len(fields) < 3 {
		return false
	}
	body := f.Str(ch.Body)
	for _, fld := range fields {
		if !strings.Contains(body, fld+": g.Get"+fld+"(),") {
			return false
		}
	}
	if strings.Count(body, ": g.Get") != len(fields) || !strings.HasPrefix(body, "{ return &hydrapb.FilterGroup{") {
		return false
	}
	drop := func(fd *ast.FuncDecl, getter, field, elem string) bool {
		return f.Str(fd.Body) == "{ src := group."+getter+"() if i < 0 || i >= len(src) { return cloneGroupHeader(group) } out := cloneGroupHeader(group) if len(src) <= 1 { out."+field+" = nil } else { out."+field+" = make([]*hydrapb."+elem+", 0, len(src)-1) out."+field+" = append(out."+field+", src[:i]...) out."+field+" = append(out."+field+", src[i+1:]...) } return out }"
	}
	return drop(rf, "GetFilters", "Filters", "TreasureFilter") && drop(rs, "GetSubGroups", "SubGroups", "FilterGroup")
}
