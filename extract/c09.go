package main

import (
	"go/ast"
	"strings"
)

// C09 facts.
//
//	resetsIdOnEmpty             as C15 (guard.go)
//	releasesGuardWhenImmediate  SaveFunction calls ReleaseTreasureGuard under `wi == 0`
//	bodyShape                   every listed read-modify-write body touches its treasure only between
//	                            StartTreasureGuard and the (deferred or explicit) ReleaseTreasureGuard
//	createSingleFlight          CreateTreasure runs under createMu and consults/fills creatingTreasures
//	rechecksObjectUnderGuard    the Increment bodies compare beaconKey.Get(key) with their object after
//	                            taking the guard
//	setTestsExistenceUnderGuard gateway Set: for both conditional forms (Overwrite=false, CreateIfNotExist=false) a
//	                            TreasureExists test guards a return/continue AFTER StartTreasureGuard in the same
//	                            function literal (tests before the guard may remain as a fast path)
func init() {
	Register("C09", Extractor{Import: "Hv.Props.C09", Type: "Hv.C09.Facts", Run: c09Run})
}

const (
	c09Swamp   = "app/core/hydra/swamp/swamp.go"
	c09Patch   = "app/core/hydra/swamp/swamp_patch.go"
	c09Gateway = "app/server/gateway/gateway.go"
)

var c09Increments = []string{"IncrementUint8", "IncrementUint16", "IncrementUint32", "IncrementUint64", "IncrementInt8",
	"IncrementInt16", "IncrementInt32", "IncrementInt64", "IncrementFloat32", "IncrementFloat64"}

func c09Run(fs *Facts) {
	// guard fact: same extractor as C15
	tmp := NewFacts("C15")
	registry["C15"].Run(tmp)
	switch tmp.Show["resetsIdOnEmpty"] {
	case "yes":
		fs.Tri("resetsIdOnEmpty", Yes, tmp.Where["resetsIdOnEmpty"])
	case "no":
		fs.Tri("resetsIdOnEmpty", No, tmp.Where["resetsIdOnEmpty"])
	default:
		fs.Tri("resetsIdOnEmpty", Unknown, tmp.Where["resetsIdOnEmpty"])
	}

	c09SetTests(fs)
	sw, err := Load(c09Swamp)
	if err != nil {
		fs.Err("%v", err)
		for _, n := range []string{"releasesGuardWhenImmediate", "createSingleFlight", "rechecksObjectUnderGuard", "gatewayWritesRecheckObject", "shiftByKeysOneSession", "deleteTrustsHandlerResult"} {
			fs.Tri(n, Unknown, c09Swamp)
		}
		fs.Enum("bodyShape", "unknown", c09Swamp)
		return
	}
	c09InSave(fs, sw)
	c09Create(fs, sw)
	c09Recheck(fs, sw)
	c09Shape(fs, sw)
	c09DeletePaths(fs, sw)
}

func c09InSave(fs *Facts, f *File) {
	save := f.Func("swamp", "SaveFunction")
	if save == nil {
		fs.Tri("releasesGuardWhenImmediate", Unknown, c09Swamp)
		return
	}
	under, outside := 0, 0
	where := c09Swamp + ":" + itoa(f.Line(save))
	var walk func(n ast.Node, imm bool)
	walk = func(n ast.Node, imm bool) {
		ast.Inspect(n, func(x ast.Node) bool {
			switch s := x.(type) {
			case *ast.IfStmt:
				if x == n {
					return true
				}
				c := f.Str(s.Cond)
				in := imm || strings.Contains(c, "wi == 0") || strings.Contains(c, "writeInterval == 0")
				walk(s.Body, in)
				if s.Else != nil {
					walk(s.Else, imm)
				}
				return false
			case *ast.CallExpr:
				if strings.HasSuffix(f.Str(s.Fun), ".ReleaseTreasureGuard") {
					if imm {
						under++
						where = c09Swamp + ":" + itoa(f.Line(s))
					} else {
						outside++
					}
				}
			}
			return true
		})
	}
	walk(save.Body, false)
	switch {
	case outside > 0:
		fs.Tri("releasesGuardWhenImmediate", Unknown, where)
	case under > 0:
		fs.Tri("releasesGuardWhenImmediate", Yes, where)
	default:
		fs.Tri("releasesGuardWhenImmediate", No, where)
	}
}

func c09Create(fs *Facts, f *File) {
	cr := f.Func("swamp", "CreateTreasure")
	save := f.Func("swamp", "SaveFunction")
	if cr == nil || save == nil {
		fs.Tri("createSingleFlight", Unknown, c09Swamp)
		return
	}
	where := c09Swamp + ":" + itoa(f.Line(cr))
	lock := len(f.Calls(cr, "s.createMu.Lock")) == 1
	unlock := false
	ast.Inspect(cr, func(x ast.Node) bool {
		if d, ok := x.(*ast.DeferStmt); ok && f.Str(d.Call.Fun) == "s.createMu.Unlock" {
			unlock = true
		}
		return true
	})
	load := len(f.Calls(cr, "s.creatingTreasures.Load")) >= 1
	store := len(f.Calls(cr, "s.creatingTreasures.Store")) >= 1
	get := len(f.Calls(cr, "s.beaconKey.Get")) >= 1
	del := len(f.Calls(save, "s.creatingTreasures.Delete")) >= 1
	// the tracker entry may go only once the record is visible under its key: in SaveFunction no
	// creatingTreasures.Delete in front of the first beaconKey.Add (audit7 mutant 09c) ...
	if adds := f.Calls(save, "s.beaconKey.Add"); len(adds) > 0 {
		for _, d := range f.Calls(save, "s.creatingTreasures.Delete") {
			if d.Pos() < adds[0].Pos() {
				fs.Tri("createSingleFlight", No, c09Swamp+":"+itoa(f.Line(d)))
				return
			}
		}
	}
	// ... and a body that drops the entry of a record it created and did not save (PatchFields) must do so while it
	// still holds the guard: the deferred cleanup is registered AFTER the deferred release (audit7 mutant 09b)
	if pf, err := Load(c09Patch); err == nil {
		if fn := pf.Func("swamp", "PatchFields"); fn != nil {
			var rel, cleanup ast.Node
			ast.Inspect(fn, func(x ast.Node) bool {
				if d, ok := x.(*ast.DeferStmt); ok {
					src := pf.Str(d)
					switch {
					case strings.Contains(src, "creatingTreasures.Delete"):
						if cleanup == nil {
							cleanup = d
						}
					case strings.Contains(src, ".ReleaseTreasureGuard"):
						if rel == nil {
							rel = d
						}
					}
				}
				return true
			})
			if cleanup != nil && (rel == nil || cleanup.Pos() < rel.Pos()) {
				fs.Tri("createSingleFlight", No, c09Patch+":"+itoa(pf.Line(cleanup)))
				return
			}
		}
	}
	switch {
	case lock && unlock && load && store && get && del:
		fs.Tri("createSingleFlight", Yes, where)
	case !lock || !load || !store:
		fs.Tri("createSingleFlight", No, where)
	default:
		fs.Tri("createSingleFlight", Unknown, where)
	}
}

func c09Recheck(fs *Facts, f *File) {
	// repaired shape: every Increment body (and PatchFields) obtains object + guard from a helper that, after
	// StartTreasureGuard, compares beaconKey.Get(key) with its object inside a retry loop and releases on mismatch
	helper := f.Func("swamp", "lockCurrentTreasure")
	helperOK := c09LockHelperOK(f, helper)
	yes, no := 0, 0
	where := c09Swamp
	for _, n := range c09Increments {
		fn := f.Func("swamp", n)
		if fn == nil {
			fs.Tri("rechecksObjectUnderGuard", Unknown, c09Swamp)
			return
		}
		viaHelper := len(f.Calls(fn, "s.lockCurrentTreasure")) == 1 && len(f.CallsSuffix(fn, ".StartTreasureGuard")) == 0
		starts := f.CallsSuffix(fn, ".StartTreasureGuard")
		found := viaHelper && helperOK
		if !viaHelper && len(starts) == 1 {
			ast.Inspect(fn, func(x ast.Node) bool {
				if b, ok := x.(*ast.BinaryExpr); ok && b.Pos() > starts[0].End() {
					t := f.Str(b)
					if strings.Contains(t, "s.beaconKey.Get(") && strings.Contains(t, "treasureObj") && (b.Op.String() == "!=" || b.Op.String() == "==") {
						found = true
					}
				}
				return true
			})
		} else if !viaHelper {
			fs.Tri("rechecksObjectUnderGuard", Unknown, c09Swamp+":"+itoa(f.Line(fn)))
			return
		}
		if found {
			yes++
		} else {
			no++
			where = c09Swamp + ":" + itoa(f.Line(fn))
		}
	}
	// PatchFields must follow the same route
	if pf, err := Load(c09Patch); err == nil {
		if fn := pf.Func("swamp", "PatchFields"); fn != nil {
			if len(pf.Calls(fn, "s.lockCurrentTreasure")) == 1 && helperOK {
				yes++
			} else {
				no++
				where = c09Patch + ":" + itoa(pf.Line(fn))
			}
		}
	}
	// the gateway bodies that write a record (Set, Uint32SlicePush, Uint32SliceDelete) must take object + guard from the
	// exported forms of the helper, not from CreateTreasure / GetTreasure followed by StartTreasureGuard
	if gw, err := Load(c09Gateway); err == nil {
		exported := func(n string) bool {
			fn := f.Func("swamp", n)
			if fn == nil {
				return false
			}
			if len(f.Calls(fn, "s.lockCurrentTreasure")) == 1 && len(fn.Body.List) == 1 {
				return helperOK
			}
			return c09LockHelperOK(f, fn)
		}
		okLock, okExisting := exported("LockTreasure"), exported("LockExistingTreasure")
		gwYes, gwNo, gwWhere := 0, 0, c09Gateway
		defer func() {
			switch {
			case gwNo > 0:
				fs.Tri("gatewayWritesRecheckObject", No, gwWhere)
			case gwYes > 0:
				fs.Tri("gatewayWritesRecheckObject", Yes, gwWhere)
			default:
				fs.Tri("gatewayWritesRecheckObject", Unknown, gwWhere)
			}
		}()
		for _, n := range []string{"Set", "Uint32SlicePush", "Uint32SliceDelete"} {
			fn := gw.Func("Gateway", n)
			if fn == nil {
				continue
			}
			direct := len(gw.CallsSuffix(fn, ".StartTreasureGuard")) > 0
			viaLock := len(gw.CallsSuffix(fn, ".LockTreasure")) > 0 || strings.Contains(gw.Str(fn), ".LockTreasure\n") || strings.Contains(gw.Str(fn), ".LockTreasure")
			viaExisting := strings.Contains(gw.Str(fn), ".LockExistingTreasure")
			good := !direct && (viaLock || viaExisting) && (!viaLock || okLock) && (!viaExisting || okExisting)
			if good {
				gwYes++
			} else {
				gwNo++
				gwWhere = c09Gateway + ":" + itoa(gw.Line(fn)) + " (" + n + ")"
			}
		}
	} else {
		fs.Tri("gatewayWritesRecheckObject", Unknown, c09Gateway)
	}
	switch {
	case no == 0:
		fs.Tri("rechecksObjectUnderGuard", Yes, c09Swamp+":"+itoa(f.Line(helper)))
	case yes == 0:
		fs.Tri("rechecksObjectUnderGuard", No, where)
	default:
		// some bodies re-check, the one at `where` does not
		fs.Tri("rechecksObjectUnderGuard", No, where)
	}
}

// methods of a treasure that read or write the record (everything except identity and the guard itself)
func c09IsAccess(name string) bool {
	switch name {
	case "GetKey", "StartTreasureGuard", "ReleaseTreasureGuard", "CanExecute":
		return false
	}
	for _, p := range []string{"Get", "Set", "Save", "Clone", "Body", "Uint32Slice", "Reset", "LoadFrom", "Is", "Check"} {
		if strings.HasPrefix(name, p) {
			return true
		}
	}
	return false
}

// c09Scope returns the innermost function literal / declaration of root that contains pos.
func c09Scope(root ast.Node, n ast.Node) ast.Node {
	var best ast.Node = root
	ast.Inspect(root, func(x ast.Node) bool {
		if x == nil {
			return false
		}
		if fl, ok := x.(*ast.FuncLit); ok && fl.Pos() <= n.Pos() && n.End() <= fl.End() {
			best = fl
		}
		return true
	})
	return best
}

// returns "guarded", "readBeforeAcquire", "writeAfterRelease" or "unknown" and a position
func c09BodyShape(f *File, fn *ast.FuncDecl) (string, int) {
	if fn == nil {
		return "unknown", 0
	}
	starts := f.CallsSuffix(fn, ".StartTreasureGuard")
	// object + guard obtained from the re-checking helper: `obj, id, _ := s.lockCurrentTreasure(key)`
	viaHelper := map[*ast.CallExpr]*ast.Ident{}
	ast.Inspect(fn, func(x ast.Node) bool {
		if as, ok := x.(*ast.AssignStmt); ok && len(as.Rhs) == 1 && len(as.Lhs) >= 2 {
			if c, ok := as.Rhs[0].(*ast.CallExpr); ok && (f.Str(c.Fun) == "s.lockCurrentTreasure" || strings.HasSuffix(f.Str(c.Fun), ".LockTreasure") ||
				strings.HasSuffix(f.Str(c.Fun), ".LockExistingTreasure") || f.Str(c.Fun) == "lock") {
				// object + guard from the re-checking helper (its exported forms in the gateway; `lock` is the local
				// variable that holds one of the two)
				if id, ok := as.Lhs[0].(*ast.Ident); ok {
					viaHelper[c] = id
					starts = append(starts, c)
				}
			}
		}
		return true
	})
	if len(starts) == 0 {
		return "unknown", f.Line(fn)
	}
	// the helper's third result ("the key had no record when I fetched it") is a read made BEFORE the guard: it may
	// only steer the deferred clean-up of the in-flight tracker, never what the body does with the record
	var flags []*ast.Ident
	ast.Inspect(fn, func(x ast.Node) bool {
		if as, ok := x.(*ast.AssignStmt); ok && len(as.Rhs) == 1 && len(as.Lhs) == 3 {
			if c, ok := as.Rhs[0].(*ast.CallExpr); ok && f.Str(c.Fun) == "s.lockCurrentTreasure" {
				if id, ok := as.Lhs[2].(*ast.Ident); ok && id.Name != "_" {
					flags = append(flags, id)
				}
			}
		}
		return true
	})
	if len(flags) > 0 {
		var defers []*ast.DeferStmt
		ast.Inspect(fn, func(x ast.Node) bool {
			if d, ok := x.(*ast.DeferStmt); ok {
				defers = append(defers, d)
			}
			return true
		})
		bad := 0
		ast.Inspect(fn, func(x ast.Node) bool {
			id, ok := x.(*ast.Ident)
			if !ok {
				return true
			}
			for _, fl := range flags {
				if id.Name == fl.Name && id.Pos() != fl.Pos() {
					in := false
					for _, d := range defers {
						if id.Pos() > d.Pos() && id.End() < d.End() {
							in = true
						}
					}
					if !in && bad == 0 {
						bad = f.Line(id)
					}
				}
			}
			return true
		})
		if bad != 0 {
			return "readBeforeAcquire", bad
		}
	}
	res, line := "guarded", f.Line(fn)
	for _, st := range starts {
		var obj *ast.Ident
		if id, ok := viaHelper[st]; ok {
			obj = id
		} else {
			se, ok := st.Fun.(*ast.SelectorExpr)
			if !ok {
				return "unknown", f.Line(st)
			}
			obj, ok = se.X.(*ast.Ident)
			if !ok {
				return "unknown", f.Line(st)
			}
		}
		scope := c09Scope(fn, st)
		var accesses []*ast.CallExpr
		var plainRel []*ast.CallExpr
		deferred := false
		ast.Inspect(scope, func(x ast.Node) bool {
			switch s := x.(type) {
			case *ast.FuncLit:
				if ast.Node(s) != scope {
					// a nested literal is its own scope unless it only wraps the deferred release
					return true
				}
			case *ast.DeferStmt:
				if f.Str(s.Call.Fun) == obj.Name+".ReleaseTreasureGuard" {
					deferred = true
					return false
				}
			case *ast.CallExpr:
				if sel, ok := s.Fun.(*ast.SelectorExpr); ok {
					if id, ok := sel.X.(*ast.Ident); ok && id.Name == obj.Name {
						if sel.Sel.Name == "ReleaseTreasureGuard" {
							plainRel = append(plainRel, s)
						} else if c09IsAccess(sel.Sel.Name) {
							accesses = append(accesses, s)
						}
					}
				}
			}
			return true
		})
		if !deferred && len(plainRel) == 0 {
			return "unknown", f.Line(st)
		}
		for _, a := range accesses {
			if a.Pos() < st.Pos() {
				return "readBeforeAcquire", f.Line(a)
			}
		}
		// uses of the object behind obj.Save(id): in immediate-write mode SaveFunction has released the guard by then
		if saves := f.Calls(scope, obj.Name+".Save"); len(saves) > 0 {
			last := saves[len(saves)-1]
			late, lateLine := "", 0
			ast.Inspect(scope, func(x ast.Node) bool {
				c, ok := x.(*ast.CallExpr)
				if !ok || c.Pos() <= last.End() {
					return true
				}
				if sel, ok := c.Fun.(*ast.SelectorExpr); ok {
					if id, ok := sel.X.(*ast.Ident); ok && id.Name == obj.Name {
						if sel.Sel.Name == "ReleaseTreasureGuard" || !c09IsAccess(sel.Sel.Name) {
							return true
						}
						if strings.HasPrefix(sel.Sel.Name, "Set") || strings.HasPrefix(sel.Sel.Name, "Reset") || strings.HasPrefix(sel.Sel.Name, "Body") ||
							strings.HasPrefix(sel.Sel.Name, "LoadFrom") || sel.Sel.Name == "Save" {
							late, lateLine = "writeAfterRelease", f.Line(c)
						} else if late == "" {
							late, lateLine = "respAfterSave", f.Line(c)
						}
						return true
					}
				}
				for _, a := range c.Args {
					if id, ok := a.(*ast.Ident); ok && id.Name == obj.Name && late == "" {
						late, lateLine = "respAfterSave", f.Line(c)
					}
				}
				return true
			})
			if late == "writeAfterRelease" {
				return late, lateLine
			}
			if late == "respAfterSave" && res == "guarded" {
				res, line = late, lateLine
			}
		}
		if !deferred {
			first := plainRel[0]
			for _, r := range plainRel {
				if r.Pos() < first.Pos() {
					first = r
				}
			}
			for _, a := range accesses {
				if a.Pos() > first.End() {
					res, line = "writeAfterRelease", f.Line(a)
				}
			}
		}
	}
	return res, line
}

func c09Shape(fs *Facts, sw *File) {
	type item struct {
		file *File
		path string
		recv string
		name string
	}
	var items []item
	for _, n := range c09Increments {
		items = append(items, item{sw, c09Swamp, "swamp", n})
	}
	items = append(items, item{sw, c09Swamp, "swamp", ccDeleteHandlerName(sw)}, item{sw, c09Swamp, "swamp", "CloneAndDeleteTreasuresByKeys"})
	if pf, err := Load(c09Patch); err == nil {
		items = append(items, item{pf, c09Patch, "swamp", "PatchFields"})
	} else {
		fs.Enum("bodyShape", "unknown", c09Patch)
		return
	}
	if gw, err := Load(c09Gateway); err == nil {
		items = append(items, item{gw, c09Gateway, "Gateway", "Set"}, item{gw, c09Gateway, "Gateway", "Uint32SlicePush"},
			item{gw, c09Gateway, "Gateway", "Uint32SliceDelete"})
	} else {
		fs.Enum("bodyShape", "unknown", c09Gateway)
		return
	}
	result, where := "guarded", c09Swamp
	for _, it := range items {
		r, line := c09BodyShape(it.file, it.file.Func(it.recv, it.name))
		w := it.path + ":" + itoa(line) + " (" + it.name + ")"
		switch r {
		case "unknown":
			if fd := it.file.Func(it.recv, it.name); fd != nil && len(it.file.CallsSuffix(fd, ".StartTreasureGuard")) == 0 &&
				len(it.file.Calls(fd, "s.deleteHandlerIf")) > 0 {
				continue // no guard session of its own: everything it does with the record happens inside deleteHandlerIf
			}
			fs.Enum("bodyShape", "unknown", w)
			return
		case "readBeforeAcquire":
			result, where = r, w
		case "writeAfterRelease":
			if result == "guarded" || result == "respAfterSave" {
				result, where = r, w
			}
		case "respAfterSave":
			if result == "guarded" {
				result, where = r, w
			}
		}
	}
	fs.Enum("bodyShape", result, where)
}

// c09SetTests decides setTestsExistenceUnderGuard.
func c09SetTests(fs *Facts) {
	const name = "setTestsExistenceUnderGuard"
	gw, err := Load(c09Gateway)
	if err != nil {
		fs.Err("%v", err)
		fs.Tri(name, Unknown, c09Gateway)
		return
	}
	set := gw.Func("Gateway", "Set")
	if set == nil {
		fs.Tri(name, Unknown, c09Gateway)
		return
	}
	// which request flags make the outcome depend on existence at all
	usesOverwrite, usesCreate := gw.Contains(set, "Overwrite"), gw.Contains(set, "GetCreateIfNotExist")
	if !usesOverwrite && !usesCreate {
		fs.Tri(name, Yes, c09Gateway+":"+itoa(gw.Line(set)))
		return
	}
	guards := gw.CallsSuffix(set, ".StartTreasureGuard")
	if len(guards) == 0 {
		// object + guard from the re-checking helper: the call through which the guard is taken
		ast.Inspect(set, func(x ast.Node) bool {
			if as, ok := x.(*ast.AssignStmt); ok && len(as.Rhs) == 1 && len(as.Lhs) == 3 {
				if c, ok := as.Rhs[0].(*ast.CallExpr); ok {
					fn := gw.Str(c.Fun)
					if fn == "lock" || strings.HasSuffix(fn, ".LockTreasure") || strings.HasSuffix(fn, ".LockExistingTreasure") {
						guards = append(guards, c)
					}
				}
			}
			return true
		})
	}
	if len(guards) != 1 {
		fs.Tri(name, Unknown, c09Gateway+":"+itoa(gw.Line(set)))
		return
	}
	// the function literal that holds the guard
	var lit *ast.FuncLit
	ast.Inspect(set, func(x ast.Node) bool {
		if fl, ok := x.(*ast.FuncLit); ok && fl.Pos() < guards[0].Pos() && guards[0].End() < fl.End() {
			lit = fl // innermost wins (Inspect goes outside-in)
		}
		return true
	})
	if lit == nil {
		fs.Tri(name, Unknown, c09Gateway+":"+itoa(gw.Line(guards[0])))
		return
	}
	// variables assigned from TreasureExists after the guard
	existVars := map[string]bool{}
	ast.Inspect(lit, func(x ast.Node) bool {
		if as, ok := x.(*ast.AssignStmt); ok && as.Pos() > guards[0].End() && len(as.Lhs) == 1 && len(as.Rhs) == 1 &&
			strings.Contains(gw.Str(as.Rhs[0]), ".TreasureExists(") {
			existVars[gw.Str(as.Lhs[0])] = true
		}
		return true
	})
	okOverwrite, okCreate := !usesOverwrite, !usesCreate
	ast.Inspect(lit, func(x ast.Node) bool {
		ifs, ok := x.(*ast.IfStmt)
		if !ok || ifs.Pos() < guards[0].End() {
			return true
		}
		cond := gw.Str(ifs.Cond)
		tests := strings.Contains(cond, ".TreasureExists(")
		for v := range existVars {
			if strings.Contains(cond, v) {
				tests = true
			}
		}
		leaves := false
		if n := len(ifs.Body.List); n > 0 {
			switch ifs.Body.List[n-1].(type) {
			case *ast.ReturnStmt:
				leaves = true
			case *ast.BranchStmt:
				leaves = true
			}
		}
		if tests && leaves {
			if strings.Contains(cond, "Overwrite") {
				okOverwrite = true
			}
			if strings.Contains(cond, "CreateIfNotExist") {
				okCreate = true
			}
		}
		return true
	})
	where := c09Gateway + ":" + itoa(gw.Line(guards[0]))
	fs.Tri(name, TriOf(okOverwrite && okCreate), where)
}

// c09LockHelperOK: fn fetches an object, takes its guard and, inside a retry loop, compares the object with what
// beaconKey.Get returns afterwards, releasing the guard on a mismatch.  Identifier names do not matter: the object is
// whatever StartTreasureGuard is called on.
func c09LockHelperOK(f *File, fn *ast.FuncDecl) bool {
	if fn == nil {
		return false
	}
	starts := f.CallsSuffix(fn, ".StartTreasureGuard")
	rels := f.CallsSuffix(fn, ".ReleaseTreasureGuard")
	if len(starts) != 1 || len(rels) < 1 {
		return false
	}
	se, ok := starts[0].Fun.(*ast.SelectorExpr)
	if !ok {
		return false
	}
	objID, ok := se.X.(*ast.Ident)
	if !ok {
		return false
	}
	// identifiers that hold a beaconKey.Get result assigned after the guard
	fromGet := map[string]bool{}
	ast.Inspect(fn, func(x ast.Node) bool {
		if as, ok := x.(*ast.AssignStmt); ok && as.Pos() > starts[0].End() && len(as.Lhs) == 1 && len(as.Rhs) == 1 && strings.Contains(f.Str(as.Rhs[0]), "beaconKey.Get(") {
			if id, ok := as.Lhs[0].(*ast.Ident); ok {
				fromGet[id.Name] = true
			}
		}
		return true
	})
	loop, cmp := false, false
	isObj := func(e ast.Expr) bool { id, ok := e.(*ast.Ident); return ok && id.Name == objID.Name }
	isGet := func(e ast.Expr) bool {
		if id, ok := e.(*ast.Ident); ok && fromGet[id.Name] {
			return true
		}
		return strings.Contains(f.Str(e), "beaconKey.Get(")
	}
	ast.Inspect(fn, func(x ast.Node) bool {
		switch v := x.(type) {
		case *ast.ForStmt:
			loop = true
		case *ast.BinaryExpr:
			if v.Pos() > starts[0].End() && (v.Op.String() == "==" || v.Op.String() == "!=") &&
				((isObj(v.X) && isGet(v.Y)) || (isObj(v.Y) && isGet(v.X))) {
				cmp = true
			}
		}
		return true
	})
	return loop && cmp
}

// ccDelegate resolves one level of delegation: for `func (s *T) A(...) R { return s.B(...) }` it answers B's declaration,
// otherwise fn itself.
func ccDelegate(f *File, fn *ast.FuncDecl, recv string) *ast.FuncDecl {
	if fn == nil || fn.Body == nil || len(fn.Body.List) != 1 {
		return fn
	}
	ret, ok := fn.Body.List[0].(*ast.ReturnStmt)
	if !ok || len(ret.Results) != 1 {
		return fn
	}
	call, ok := ret.Results[0].(*ast.CallExpr)
	if !ok {
		return fn
	}
	if sel, ok := call.Fun.(*ast.SelectorExpr); ok && f.Str(sel.X) == "s" {
		if inner := f.Func(recv, sel.Sel.Name); inner != nil {
			return inner
		}
	}
	return fn
}

// c09DeletePaths decides shiftByKeysOneSession and deleteTrustsHandlerResult.
func c09DeletePaths(fs *Facts, f *File) {
	// ShiftByKeys: no guard session of its own around a Clone; what it hands out is deleteHandlerIf's second result
	if fn := f.Func("swamp", "CloneAndDeleteTreasuresByKeys"); fn == nil {
		fs.Tri("shiftByKeysOneSession", Unknown, c09Swamp)
	} else {
		w := c09Swamp + ":" + itoa(f.Line(fn))
		own := len(f.CallsSuffix(fn, ".StartTreasureGuard")) > 0
		viaIf := len(f.Calls(fn, "s.deleteHandlerIf")) > 0
		plain := len(f.Calls(fn, "s.deleteHandler")) > 0
		switch {
		case own && (plain || viaIf):
			fs.Tri("shiftByKeysOneSession", No, w)
		case !own && viaIf && !plain:
			fs.Tri("shiftByKeysOneSession", Yes, w)
		default:
			fs.Tri("shiftByKeysOneSession", Unknown, w)
		}
	}
	// DeleteTreasure: the result of deleteHandler(If) is looked at (compared with nil) and leads to a return
	if fn := f.Func("swamp", "DeleteTreasure"); fn == nil {
		fs.Tri("deleteTrustsHandlerResult", Unknown, c09Swamp)
	} else {
		fn = ccDelegate(f, fn, "swamp")
		w := c09Swamp + ":" + itoa(f.Line(fn))
		calls := append(f.Calls(fn, "s.deleteHandler"), f.Calls(fn, "s.deleteHandlerIf")...)
		if len(calls) != 1 {
			fs.Tri("deleteTrustsHandlerResult", Unknown, w)
			return
		}
		res := No
		ast.Inspect(fn, func(x ast.Node) bool {
			ifs, ok := x.(*ast.IfStmt)
			if !ok {
				return true
			}
			// `if s.deleteHandler(...) == nil { return err }` or `if d := …; d == nil { return … }`
			inCond := ifs.Cond.Pos() <= calls[0].Pos() && calls[0].End() <= ifs.Cond.End()
			inInit := ifs.Init != nil && ifs.Init.Pos() <= calls[0].Pos() && calls[0].End() <= ifs.Init.End()
			if (inCond || inInit) && strings.Contains(f.Str(ifs.Cond), "nil") {
				if n := len(ifs.Body.List); n > 0 {
					if _, isRet := ifs.Body.List[n-1].(*ast.ReturnStmt); isRet {
						res = Yes
					}
				}
			}
			return true
		})
		if res == No {
			// assigned to a variable that is tested later?
			ast.Inspect(fn, func(x ast.Node) bool {
				if as, ok := x.(*ast.AssignStmt); ok && len(as.Rhs) == 1 && as.Rhs[0] == ast.Expr(calls[0]) {
					res = Unknown
				}
				return true
			})
		}
		fs.Tri("deleteTrustsHandlerResult", res, w)
	}
}
