package main

import (
	"go/ast"
	"go/token"
	"os"
	"path/filepath"
	"strings"
)

// C07 facts: the operators of the four binary searches of findTimeRangeBounds, the page
// arithmetic of GetManyFromOrderPosition, the comparators of the SortBy… family, which SortBy…
// each incremental addTo…Beacon calls, the cold-build filters, the guards of
// addTreasureToBeacons, what SaveFunction re-files on an update, the flag handling of the
// treasure setters, and GetBeacon's type mapping.
func init() {
	Register("C07", Extractor{Import: "Hv.Props.C07", Type: "Hv.C07.Facts", Run: c07Run})
}

const (
	c07Beacon   = "app/core/hydra/swamp/beacon/beacon.go"
	c07Swamp    = "app/core/hydra/swamp/swamp.go"
	c07Treasure = "app/core/hydra/swamp/treasure/treasure.go"
)

var c07Enums = []string{"bsAscFrom", "bsAscTo", "bsDescTo", "bsDescFrom",
	"resortKey", "resortCreated", "resortUpdated", "resortExpire", "resortValue"}
var c07Tris = []string{"timestampsFullPrecision", "pageArith", "limitZeroAll", "comparatorsStandard", "windowOnTimeIndexesOnly",
	"coldFilterCreated", "coldFilterUpdated", "coldFilterExpire", "coldFilterValueType",
	"addGuardCreated", "addGuardUpdated", "addGuardExpire", "addGuardValueType",
	"updRefreshCreated", "updRefreshUpdated", "updRefreshValue", "updRefreshExpireOnFlag",
	"typeChangeDetected", "valueShared", "flagsSticky", "setVoidClearsTyped", "initialisedAfterFill",
	"refileGuardExpire", "patchExpiredReindexesAll", "claimPathsStandard", "windowBoundsChecked", "claimLoserRefiled",
	"getBeaconServesAllValueTypes", "getBeaconBuildsRequestedType"}

func c07Run(fs *Facts) {
	// defaults: everything unknown, in a fixed order
	for _, n := range c07Enums {
		fs.Enum(n, "unknown", "")
	}
	for _, n := range c07Tris {
		fs.Tri(n, Unknown, "")
	}
	if f, err := Load(c07Beacon); err != nil {
		fs.Err("%v", err)
	} else {
		c07Bounds(fs, f)
		c07Page(fs, f)
		c07Comparators(fs, f)
	}
	if f, err := Load(c07Swamp); err != nil {
		fs.Err("%v", err)
	} else {
		c07Incremental(fs, f)
		c07Cold(fs, f)
		c07Guards(fs, f)
		c07Save(fs, f)
		c07Shared(fs, f)
		c07LimitZero(fs, f)
		c07Window(fs, f)
		c07GetBeacon(fs, f)
		c07BuildOrder(fs, f)
	}
	c07Claim(fs)
	if f, err := Load("app/server/gateway/gateway.go"); err != nil {
		fs.Err("%v", err)
	} else {
		c07Timestamps(fs, f)
	}
	if f, err := Load(c07Treasure); err != nil {
		fs.Err("%v", err)
	} else {
		c07Flags(fs, f)
	}
}

func c07At(path string, f *File, n ast.Node) string { return path + ":" + itoa(f.Line(n)) }

// ---- findTimeRangeBounds ------------------------------------------------------------------

// c07Loop recognises
//
//	if <guard> != nil { l, r := 0, n; for l < r { m := l + (r-l)/2; if TS ◇ <bound> { A } else { B } }; <idx> = <res> }
//
// and returns the operator when (A,B) = (thenStmt, elseStmt) and <idx> = <res> are as expected.
func c07Loop(f *File, st ast.Stmt, guard, bound, thenStmt, elseStmt, assign string) (string, ast.Node) {
	ifs, ok := st.(*ast.IfStmt)
	if !ok || f.Str(ifs.Cond) != guard+" != nil" || ifs.Else != nil || len(ifs.Body.List) != 3 {
		return "unknown", st
	}
	if f.Str(ifs.Body.List[0]) != "l, r := 0, n" || f.Str(ifs.Body.List[2]) != assign {
		return "unknown", st
	}
	loop, ok := ifs.Body.List[1].(*ast.ForStmt)
	if !ok || loop.Init != nil || loop.Post != nil || f.Str(loop.Cond) != "l < r" || len(loop.Body.List) != 2 {
		return "unknown", st
	}
	if f.Str(loop.Body.List[0]) != "m := l + (r-l)/2" {
		return "unknown", loop
	}
	inner, ok := loop.Body.List[1].(*ast.IfStmt)
	if !ok || inner.Init != nil {
		return "unknown", loop
	}
	cond, ok := inner.Cond.(*ast.BinaryExpr)
	if !ok || f.Str(cond.X) != "b.getTimestampFromTreasure(b.treasuresByOrder[m])" || f.Str(cond.Y) != bound {
		return "unknown", inner
	}
	els, ok := inner.Else.(*ast.BlockStmt)
	if !ok || len(inner.Body.List) != 1 || len(els.List) != 1 ||
		f.Str(inner.Body.List[0]) != thenStmt || f.Str(els.List[0]) != elseStmt {
		return "unknown", inner
	}
	switch cond.Op {
	case token.LSS:
		return "lt", cond
	case token.LEQ:
		return "le", cond
	}
	return "unknown", cond
}

func c07Bounds(fs *Facts, f *File) {
	fd := f.Func("beacon", "findTimeRangeBounds")
	if fd == nil {
		return
	}
	c07Canon(fd, []string{"b", "fromTime", "toTime", "n", "fromNano", "toNano", "isAscending", "startIdx", "endIdx",
		"l", "r", "m", "l", "r", "m", "l", "r", "m", "l", "r", "m"})
	c07Canon(fd, []string{"b", "fromTime", "toTime", "n", "fromNano", "toNano", "hasFrom", "hasTo", "empty", "isAscending", "startIdx", "endIdx",
		"l", "r", "m", "l", "r", "m", "l", "r", "m", "l", "r", "m"})
	var split *ast.IfStmt
	for _, st := range fd.Body.List {
		if ifs, ok := st.(*ast.IfStmt); ok && f.Str(ifs.Cond) == "isAscending" {
			split = ifs
		}
	}
	if split == nil {
		return
	}
	// isAscending must be the three …Asc sort orders
	if !f.Contains(fd.Body, "isAscending := b.sortOrder == SortByExpirationTimeAsc || b.sortOrder == SortByCreatedAtAsc || b.sortOrder == SortByModifiedAtAsc") {
		return
	}
	// the normalisation tail and the initial bounds must be the known ones
	for _, want := range []string{"startIdx := 0", "endIdx := n - 1", "if n == 0 { return 0, -1 }",
		"if startIdx > endIdx || startIdx >= n || endIdx < 0 { return 0, -1 }", "return startIdx, endIdx"} {
		if !f.Contains(fd.Body, want) {
			return
		}
	}
	// how the two bounds become int64 nanoseconds: converted as they are (UnixNano wraps outside
	// 1677…2262), or through WindowNanos, which recognises bounds that cannot be represented
	raw := f.Contains(fd.Body, "if fromTime != nil { fromNano = fromTime.UTC().UnixNano() } if toTime != nil { toNano = toTime.UTC().UnixNano() }")
	checked := f.Contains(fd.Body, "fromNano, toNano, hasFrom, hasTo, empty := WindowNanos(fromTime, toTime) if empty { return 0, -1 } if !hasFrom { fromTime = nil } if !hasTo { toTime = nil }") &&
		!f.Contains(fd.Body, "UnixNano()") && c07WindowNanosShape(f)
	if raw == checked {
		return
	}
	c07WindowFact(fs, f, fd, checked)
	desc, ok := split.Else.(*ast.BlockStmt)
	if !ok || len(split.Body.List) != 2 || len(desc.List) != 2 {
		return
	}
	up, down := "l = m + 1", "r = m"
	v, n := c07Loop(f, split.Body.List[0], "fromTime", "fromNano", up, down, "startIdx = l")
	fs.Enum("bsAscFrom", v, c07At(c07Beacon, f, n))
	v, n = c07Loop(f, split.Body.List[1], "toTime", "toNano", up, down, "endIdx = l - 1")
	fs.Enum("bsAscTo", v, c07At(c07Beacon, f, n))
	v, n = c07Loop(f, desc.List[0], "toTime", "toNano", down, up, "startIdx = l")
	fs.Enum("bsDescTo", v, c07At(c07Beacon, f, n))
	v, n = c07Loop(f, desc.List[1], "fromTime", "fromNano", down, up, "endIdx = l - 1")
	fs.Enum("bsDescFrom", v, c07At(c07Beacon, f, n))
}

// ---- GetManyFromOrderPosition ----------------------------------------------------------------

func c07Page(fs *Facts, f *File) {
	fd := f.Func("beacon", "GetManyFromOrderPosition")
	if fd == nil {
		return
	}
	c07Canon(fd, []string{"b", "orderPosition", "startIdx", "endIdx", "actualStart", "actualEnd", "resultSize", "result", "i"})
	want := []string{
		"startIdx := 0",
		"endIdx := len(b.treasuresByOrder) - 1",
		"if orderPosition.FromTime != nil || orderPosition.ToTime != nil { startIdx, endIdx = b.findTimeRangeBounds(orderPosition.FromTime, orderPosition.ToTime) if endIdx < startIdx || startIdx < 0 { return []treasure.Treasure{}, nil } }",
		"actualStart := startIdx + orderPosition.From",
		"if actualStart > endIdx { return []treasure.Treasure{}, nil }",
		"if orderPosition.Limit == 0 { actualEnd = endIdx } else { actualEnd = actualStart + orderPosition.Limit - 1 if actualEnd > endIdx { actualEnd = endIdx } }",
		"resultSize := actualEnd - actualStart + 1",
		"if resultSize <= 0 { return []treasure.Treasure{}, nil }",
		"for i := 0; i < resultSize; i++ { result[i] = b.treasuresByOrder[actualStart+i] }",
	}
	for _, w := range want {
		if !f.Contains(fd.Body, w) {
			fs.Tri("pageArith", Unknown, c07At(c07Beacon, f, fd))
			return
		}
	}
	fs.Tri("pageArith", Yes, c07At(c07Beacon, f, fd))
}

// ---- SortBy… comparators ---------------------------------------------------------------------

func c07Comparators(fs *Facts, f *File) {
	type cmp struct{ fn, getter, op, order string }
	var list []cmp
	for _, t := range []struct{ name, getter, ord string }{
		{"CreationTime", "GetCreatedAt", "SortByCreatedAt"}, {"ExpirationTime", "GetExpirationTime", "SortByExpirationTime"},
		{"UpdateTime", "GetModifiedAt", "SortByModifiedAt"}, {"Key", "GetKey", ""}} {
		list = append(list, cmp{"SortBy" + t.name + "Asc", t.getter, "<", t.ord + "Asc"}, cmp{"SortBy" + t.name + "Desc", t.getter, ">", t.ord + "Desc"})
	}
	ok := true
	where := c07Beacon
	for _, c := range list {
		fd := f.Func("beacon", c.fn)
		if fd == nil {
			ok = false
			break
		}
		c07Canon(fd, []string{"b", "k", "l"})
		less := "return b.treasuresByOrder[k]." + c.getter + "() " + c.op + " b.treasuresByOrder[l]." + c.getter + "()"
		if len(f.Calls(fd.Body, "sort.Slice")) != 1 || !f.Contains(fd.Body, less) {
			ok, where = false, c07At(c07Beacon, f, fd)
			break
		}
		if c.getter != "GetKey" && !f.Contains(fd.Body, "b.sortOrder = "+c.order) {
			ok, where = false, c07At(c07Beacon, f, fd)
			break
		}
		if c.getter == "GetKey" && f.Contains(fd.Body, "b.sortOrder =") {
			ok, where = false, c07At(c07Beacon, f, fd)
			break
		}
	}
	// typed value comparators: `if err != nil { return false }` twice, then kVal ◇ lVal
	for _, t := range []string{"Float32", "Float64", "Uint8", "Uint16", "Uint32", "Uint64", "Int8", "Int16", "Int32", "String"} {
		for _, d := range []struct{ suf, op string }{{"ASC", "<"}, {"DESC", ">"}} {
			fd := f.Func("beacon", "SortByValue"+t+d.suf)
			if !ok {
				break
			}
			if fd == nil {
				ok = false
				break
			}
			c07Canon(fd, []string{"b", "k", "l", "kVal", "err", "lVal"})
			src := f.Str(fd.Body)
			if len(f.Calls(fd.Body, "sort.Slice")) != 1 || strings.Count(src, "if err != nil { return false }") != 2 ||
				!strings.Contains(src, "kVal, err := b.treasuresByOrder[k].GetContent"+t+"()") ||
				!strings.Contains(src, "lVal, err := b.treasuresByOrder[l].GetContent"+t+"()") ||
				!strings.Contains(src, "return kVal "+d.op+" lVal") || strings.Contains(src, "b.sortOrder =") {
				ok, where = false, c07At(c07Beacon, f, fd)
			}
		}
	}
	// int64: all-or-nothing with an error return
	for _, d := range []struct{ suf, op string }{{"ASC", "<"}, {"DESC", ">"}} {
		fd := f.Func("beacon", "SortByValueInt64"+d.suf)
		if !ok {
			break
		}
		if fd == nil {
			ok = false
			break
		}
		c07Canon(fd, []string{"b", "value", "t", "items", "i", "t", "v", "err", "i", "j", "i", "it"})
		src := f.Str(fd.Body)
		if !strings.Contains(src, "v, err := t.GetContentInt64() if err != nil { return fmt.Errorf(") ||
			len(f.Calls(fd.Body, "sort.SliceStable")) != 1 || !strings.Contains(src, "return items[i].value "+d.op+" items[j].value") ||
			!strings.Contains(src, "b.treasuresByOrder[i] = it.t") || strings.Contains(src, "b.sortOrder =") {
			ok, where = false, c07At(c07Beacon, f, fd)
		}
	}
	if ok {
		fs.Tri("comparatorsStandard", Yes, c07Beacon)
	} else {
		fs.Tri("comparatorsStandard", Unknown, where)
	}
}

// ---- incremental maintenance -------------------------------------------------------------------

func c07Incremental(fs *Facts, f *File) {
	sites := []struct{ fact, fn, field, ownAsc, ownDesc string }{
		{"resortKey", "addToKeyBeacon", "keyBeacon", "SortByKeyAsc", "SortByKeyDesc"},
		{"resortCreated", "addToCreationTimeBeacon", "creationTimeBeacon", "SortByCreationTimeAsc", "SortByCreationTimeDesc"},
		{"resortUpdated", "addToUpdateTimeBeacon", "updateTimeBeacon", "SortByUpdateTimeAsc", "SortByUpdateTimeDesc"},
		{"resortExpire", "addToExpirationTimeBeacon", "expirationTimeBeacon", "SortByExpirationTimeAsc", "SortByExpirationTimeDesc"},
		{"resortValue", "addToValueBeacon", "valueBeacon", "", ""},
	}
	for _, s := range sites {
		fd := f.Func("swamp", s.fn)
		if fd == nil || len(fd.Type.Params.List) != 1 || len(fd.Type.Params.List[0].Names) != 1 {
			continue
		}
		c07Canon(fd, []string{"s", "treasureInterface", "err"})
		c07Canon(fd, []string{"s", "treasureInterface"})
		arg := fd.Type.Params.List[0].Names[0].Name
		where := c07At(c07Swamp, f, fd)
		asc, desc := "s."+s.field+"ASC", "s."+s.field+"DESC"
		// guard + Reset of both beacons, nothing else: the pair is dropped and rebuilt by the next read
		if len(fd.Body.List) == 3 && f.Str(fd.Body.List[0]) == "if !"+asc+".IsInitialized() && !"+desc+".IsInitialized() { return }" &&
			f.Str(fd.Body.List[1]) == asc+".Reset()" && f.Str(fd.Body.List[2]) == desc+".Reset()" {
			fs.Enum(s.fact, "invalidate", where)
			continue
		}
		// guard + both Adds
		if !f.Contains(fd.Body, "if !"+asc+".IsInitialized() { return }") ||
			len(f.Calls(fd.Body, asc+".Add")) != 1 || len(f.Calls(fd.Body, desc+".Add")) != 1 ||
			!f.Contains(fd.Body, asc+".Add("+arg+")") || !f.Contains(fd.Body, desc+".Add("+arg+")") {
			fs.Enum(s.fact, "unknown", where)
			continue
		}
		var sorts []string
		for _, c := range f.CallsSuffix(fd.Body, "") {
			fn := f.Str(c.Fun)
			if strings.Contains(fn, ".SortBy") {
				sorts = append(sorts, fn)
			}
		}
		switch {
		case len(sorts) == 0:
			fs.Enum(s.fact, "none", where)
		case len(sorts) == 2 && sorts[0] == asc+".SortByValueInt64ASC" && sorts[1] == desc+".SortByValueInt64DESC":
			fs.Enum(s.fact, "int64", where)
		case len(sorts) == 2 && s.ownAsc != "" && sorts[0] == asc+"."+s.ownAsc && sorts[1] == desc+"."+s.ownDesc:
			fs.Enum(s.fact, "own", where)
		default:
			fs.Enum(s.fact, "unknown", where)
		}
	}
}

func c07Cold(fs *Facts, f *File) {
	fd := f.Func("swamp", "treasuresForBeacon")
	if fd == nil {
		return
	}
	c07Canon(fd, []string{"s", "bc", "all", "filtered", "k", "t", "filtered", "k", "t", "filtered", "k", "t"})
	var sw *ast.SwitchStmt
	ast.Inspect(fd.Body, func(n ast.Node) bool {
		if s, ok := n.(*ast.SwitchStmt); ok && sw == nil {
			sw = s
		}
		return true
	})
	if sw == nil || f.Str(sw.Tag) != "bc" || !f.Contains(fd.Body, "all := s.beaconKey.GetAll()") {
		return
	}
	seen := map[string]bool{}
	valueCase, defaultAll := false, false
	for _, st := range sw.Body.List {
		cc := st.(*ast.CaseClause)
		if cc.List == nil {
			defaultAll = len(cc.Body) == 1 && f.Str(cc.Body[0]) == "return all"
			continue
		}
		for _, e := range cc.List {
			name := f.Str(e)
			if strings.HasPrefix(name, "BeaconTypeValue") {
				valueCase = true
			}
			getter := map[string]string{"BeaconTypeCreationTime": "GetCreatedAt", "BeaconTypeUpdateTime": "GetModifiedAt",
				"BeaconTypeExpirationTime": "GetExpirationTime"}[name]
			if getter == "" || len(cc.List) != 1 {
				continue
			}
			body := &ast.BlockStmt{List: cc.Body}
			if f.Contains(body, "for k, t := range all { if t."+getter+"() != 0 { filtered[k] = t } }") && f.Contains(body, "return filtered") {
				seen[name] = true
			}
		}
	}
	where := c07At(c07Swamp, f, fd)
	if !defaultAll {
		return
	}
	has := func(name string) bool {
		for _, st := range sw.Body.List {
			for _, e := range st.(*ast.CaseClause).List {
				if f.Str(e) == name {
					return true
				}
			}
		}
		return false
	}
	tri := func(name string) Tri {
		if seen[name] {
			return Yes
		}
		if !has(name) {
			return No // falls to `default: return all`
		}
		return Unknown
	}
	fs.Tri("coldFilterCreated", tri("BeaconTypeCreationTime"), where)
	fs.Tri("coldFilterUpdated", tri("BeaconTypeUpdateTime"), where)
	fs.Tri("coldFilterExpire", tri("BeaconTypeExpirationTime"), where)
	if valueCase {
		fs.Tri("coldFilterValueType", Unknown, where)
	} else {
		fs.Tri("coldFilterValueType", No, where)
	}
}

func c07Guards(fs *Facts, f *File) {
	fd := f.Func("swamp", "addTreasureToBeacons")
	if fd == nil || len(fd.Type.Params.List) != 1 || len(fd.Type.Params.List[0].Names) != 1 {
		return
	}
	c07Canon(fd, []string{"s", "d"})
	arg := fd.Type.Params.List[0].Names[0].Name
	where := c07At(c07Swamp, f, fd)
	if len(fd.Body.List) != 5 || f.Str(fd.Body.List[0]) != "s.addToKeyBeacon("+arg+")" {
		return
	}
	site := func(st ast.Stmt, getter, call string) Tri {
		if f.Str(st) == "s."+call+"("+arg+")" {
			return No
		}
		if f.Str(st) == "if "+arg+"."+getter+"() != 0 { s."+call+"("+arg+") }" {
			return Yes
		}
		return Unknown
	}
	fs.Tri("addGuardCreated", site(fd.Body.List[1], "GetCreatedAt", "addToCreationTimeBeacon"), where)
	fs.Tri("addGuardUpdated", site(fd.Body.List[2], "GetModifiedAt", "addToUpdateTimeBeacon"), where)
	fs.Tri("addGuardExpire", site(fd.Body.List[3], "GetExpirationTime", "addToExpirationTimeBeacon"), where)
	if f.Str(fd.Body.List[4]) == "s.addToValueBeacon("+arg+")" {
		fs.Tri("addGuardValueType", No, where)
	}
}

// SaveFunction, existing key: the only beacon maintenance is
//
//	if t.IsContentTypeChanged() { deleteTreasureFromBeacons; if type != void { addTreasureToBeacons } }
//	else if t.IsExpirationTimeChanged() { delete from both expiration beacons; if exp != 0 { addToExpirationTimeBeacon } }
func c07Save(fs *Facts, f0 *File) {
	fd0 := f0.Func("swamp", "SaveFunction")
	// (one level of helper calls resolved: a `dropFromPair(asc, desc, key)` in place of the two deletes is the same code)
	f, fd := c07Inlined(f0, "swamp", "SaveFunction", c07SaveVocabulary...)
	if fd == nil || fd0 == nil {
		return
	}
	c07Canon(fd, []string{"s", "t", "guardID", "existedTreasureObj", "wi", "inMem", "wi", "inMem"})
	var modified *ast.IfStmt
	for _, st := range fd.Body.List {
		if ifs, ok := st.(*ast.IfStmt); ok && strings.HasPrefix(f.Str(ifs.Cond), "t.IsContentChanged() || t.IsContentTypeChanged() || t.IsExpirationTimeChanged()") {
			modified = ifs
		}
	}
	if modified == nil || len(modified.Body.List) == 0 {
		return
	}
	where := c07At(c07Swamp, f0, fd0)
	first, ok := modified.Body.List[0].(*ast.IfStmt)
	if !ok || f.Str(first.Cond) != "t.IsContentTypeChanged()" {
		return
	}
	if f.Str(first.Body) != "{ s.deleteTreasureFromBeacons(t.GetKey()) if t.GetContentType() != treasure.ContentTypeVoid { s.addTreasureToBeacons(t) } }" {
		return
	}
	second, ok := first.Else.(*ast.IfStmt)
	const expDrop = "{ s.deleteTreasureIfBeaconInitialized(s.expirationTimeBeaconASC, t.GetKey()) s.deleteTreasureIfBeaconInitialized(s.expirationTimeBeaconDESC, t.GetKey()) "
	expGuarded := ok && f.Str(second.Cond) == "t.IsExpirationTimeChanged()" && second.Else == nil &&
		f.Str(second.Body) == expDrop+"if t.GetExpirationTime() != 0 { s.addToExpirationTimeBeacon(t) } }"
	expBare := ok && f.Str(second.Cond) == "t.IsExpirationTimeChanged()" && second.Else == nil &&
		f.Str(second.Body) == expDrop+"s.addToExpirationTimeBeacon(t) }"
	expOK := expGuarded || expBare
	guardFact := Unknown
	if expGuarded || first.Else == nil {
		guardFact = Yes // (no expiration branch at all: nothing is re-added)
	} else if expBare {
		guardFact = No
	}
	expFact := TriOf(expOK)
	if first.Else != nil && !expOK {
		expFact = Unknown // an else-branch of another shape: only this fact is lost
	}
	// after the chain: optional re-filing blocks, each of the known shape; anything else that
	// touches a beacon makes the facts unknown
	refile := func(flag, field, getter, add string) string {
		return "if !t.IsContentTypeChanged() && t." + flag + "() { s.deleteTreasureIfBeaconInitialized(s." + field + "ASC, t.GetKey()) s.deleteTreasureIfBeaconInitialized(s." + field + "DESC, t.GetKey()) if t." + getter + "() != 0 { s." + add + "(t) } }"
	}
	upd, crt, val := No, No, No
	other := 0
	for _, st := range modified.Body.List[1:] {
		switch f.Str(st) {
		case refile("IsModifiedAtChanged", "updateTimeBeacon", "GetModifiedAt", "addToUpdateTimeBeacon"):
			upd = Yes
			continue
		case refile("IsCreatedAtChanged", "creationTimeBeacon", "GetCreatedAt", "addToCreationTimeBeacon"):
			crt = Yes
			continue
		case "if !t.IsContentTypeChanged() && t.IsContentChanged() { s.addToValueBeacon(t) }":
			val = Yes
			continue
		}
		for _, c := range f.CallsSuffix(st, "") {
			fn := f.Str(c.Fun)
			if strings.HasPrefix(fn, "s.addTo") || strings.HasPrefix(fn, "s.deleteTreasure") || strings.HasPrefix(fn, "s.addTreasureToBeacons") ||
				strings.Contains(fn, ".SortBy") || strings.HasPrefix(fn, "s.buildBeacon") || strings.HasSuffix(fn, "Beacon.Reset") ||
				strings.HasSuffix(fn, "BeaconASC.Reset") || strings.HasSuffix(fn, "BeaconDESC.Reset") {
				other++
			} else if strings.HasPrefix(fn, "s.") && strings.Count(fn, ".") == 1 && !c07SaveHarmless[strings.TrimPrefix(fn, "s.")] {
				other++ // a method of the swamp this extractor does not know: it may touch an index ("no" needs a closed world)
			}
		}
	}
	if other > 0 {
		return
	}
	fs.Tri("updRefreshExpireOnFlag", expFact, where)
	fs.Tri("refileGuardExpire", guardFact, where)
	fs.Tri("updRefreshCreated", crt, where)
	fs.Tri("updRefreshUpdated", upd, where)
	fs.Tri("updRefreshValue", val, where)
}

func c07Shared(fs *Facts, f *File) {
	// the swamp struct has exactly one value beacon pair and findInValueBeacon serves every type from it
	n := 0
	var at ast.Node
	ast.Inspect(f.AST, func(x ast.Node) bool {
		if fl, ok := x.(*ast.Field); ok && f.Str(fl.Type) == "beacon.Beacon" {
			for _, nm := range fl.Names {
				if strings.HasPrefix(strings.ToLower(nm.Name), "value") {
					n++
					at = fl
				}
			}
		}
		return true
	})
	fd := f.Func("swamp", "findInValueBeacon")
	if fd == nil || at == nil {
		return
	}
	c07Canon(fd, []string{"s", "order", "bc", "from", "limit"})
	if n == 2 && f.Contains(fd.Body, "s.buildBeacon(s.valueBeaconASC, s.valueBeaconDESC, bc)") &&
		f.Contains(fd.Body, "return s.valueBeaconASC.GetManyFromOrderPosition(") && f.Contains(fd.Body, "return s.valueBeaconDESC.GetManyFromOrderPosition(") {
		fs.Tri("valueShared", Yes, c07At(c07Swamp, f, at))
	}
}

func c07LimitZero(fs *Facts, f *File) {
	fd := f.Func("swamp", "GetTreasuresByBeacon")
	if fd == nil {
		return
	}
	c07Canon(fd, []string{"s", "beaconType", "beaconOrderType", "from", "limit", "fromTime", "toTime", "selectedTreasures", "err", "returningTreasures", "d"})
	// the statement LIST of the function is pinned: anything between these statements (a cap on the limit, a second
	// offset …) is a different function
	want := []string{
		"atomic.StoreInt64(&s.lastInteractionTime, time.Now().UnixNano())",
		"if from < 0 { from = 0 }", // a negative offset reads from the start (the model's `from_.toNat`)
		"if limit == 0 { limit = int32(s.beaconKey.Count()) }",
		"var selectedTreasures []treasure.Treasure",
		"var err error",
		"switch beaconType { case BeaconTypeKey: selectedTreasures, err = s.findInKeyBeacon(beaconOrderType, from, limit) case BeaconTypeExpirationTime: selectedTreasures, err = s.findInExpirationTimeBeacon(beaconOrderType, from, limit, fromTime, toTime) case BeaconTypeCreationTime: selectedTreasures, err = s.findInCreationTimeBeacon(beaconOrderType, from, limit, fromTime, toTime) case BeaconTypeUpdateTime: selectedTreasures, err = s.findInUpdateTimeBeacon(beaconOrderType, from, limit, fromTime, toTime) default: selectedTreasures, err = s.findInValueBeacon(beaconOrderType, beaconType, from, limit) }",
		"if err != nil { return nil, err }",
		"var returningTreasures []treasure.Treasure",
		"for _, d := range selectedTreasures { returningTreasures = append(returningTreasures, d) }",
		"return returningTreasures, nil",
	}
	var got []string
	for _, st := range fd.Body.List {
		got = append(got, c07StripHooks(f.Str(st)))
	}
	match := func(w []string) bool {
		if len(w) != len(got) {
			return false
		}
		for i := range w {
			if w[i] != got[i] {
				return false
			}
		}
		return true
	}
	if match(want) {
		fs.Tri("limitZeroAll", Yes, c07At(c07Swamp, f, fd))
	}
}

func c07Window(fs *Facts, f *File) {
	ok := true
	var at ast.Node
	for _, fn := range []string{"findInCreationTimeBeacon", "findInUpdateTimeBeacon", "findInExpirationTimeBeacon"} {
		fd := f.Func("swamp", fn)
		c07Canon(fd, []string{"s", "order", "from", "limit", "fromTime", "toTime"})
		if fd == nil || strings.Count(f.Str(fd.Body), "FromTime: fromTime, ToTime: toTime,") != 2 ||
			strings.Count(f.Str(fd.Body), "From: int(from), Limit: int(limit),") != 2 {
			ok = false
		}
		at = fd
	}
	for _, fn := range []string{"findInKeyBeacon", "findInValueBeacon"} {
		fd := f.Func("swamp", fn)
		c07Canon(fd, []string{"s", "order", "from", "limit"})
		c07Canon(fd, []string{"s", "order", "bc", "from", "limit"})
		if fd == nil || strings.Contains(f.Str(fd.Body), "FromTime") || strings.Count(f.Str(fd.Body), "From: int(from), Limit: int(limit),") != 2 {
			ok = false
		}
	}
	if ok && at != nil {
		fs.Tri("windowOnTimeIndexesOnly", Yes, c07At(c07Swamp, f, at))
	}
}

func c07GetBeacon(fs *Facts, f *File) {
	fd := f.Func("swamp", "GetBeacon")
	if fd == nil {
		return
	}
	c07Canon(fd, []string{"s", "beaconType", "order"})
	served := map[string]bool{}
	requested := true
	any := false
	ast.Inspect(fd.Body, func(x ast.Node) bool {
		cc, ok := x.(*ast.CaseClause)
		if !ok {
			return true
		}
		isValue := false
		for _, e := range cc.List {
			if strings.HasPrefix(f.Str(e), "BeaconTypeValue") {
				served[f.Str(e)] = true
				isValue = true
			}
		}
		if isValue {
			any = true
			for _, c := range f.Calls(&ast.BlockStmt{List: cc.Body}, "s.buildBeacon") {
				if len(c.Args) != 3 || f.Str(c.Args[2]) != "beaconType" {
					requested = false
				}
			}
		}
		return true
	})
	where := c07At(c07Swamp, f, fd)
	all := true
	for _, t := range []string{"Uint8", "Uint16", "Uint32", "Uint64", "Int8", "Int16", "Int32", "Int64", "Float32", "Float64", "String"} {
		if !served["BeaconTypeValue"+t] {
			all = false
		}
	}
	fs.Tri("getBeaconServesAllValueTypes", TriOf(all), where)
	if any {
		fs.Tri("getBeaconBuildsRequestedType", TriOf(requested), where)
	}
}

// ---- treasure flags -----------------------------------------------------------------------------

func c07Flags(fs *Facts, f *File) {
	setInSetter, cleared := 0, 0
	var firstSetter ast.Node
	for _, d := range f.AST.Decls {
		fd, ok := d.(*ast.FuncDecl)
		if !ok || fd.Body == nil {
			continue
		}
		ast.Inspect(fd.Body, func(x ast.Node) bool {
			as, ok := x.(*ast.AssignStmt)
			if !ok || len(as.Lhs) != 1 || len(as.Rhs) != 1 {
				return true
			}
			lhs, rhs := f.Str(as.Lhs[0]), f.Str(as.Rhs[0])
			if lhs == "t.contentTypeChanged" && rhs == "true" && strings.HasPrefix(fd.Name.Name, "SetContent") {
				setInSetter++
			}
			if (lhs == "t.expirationTimeChanged" || lhs == "t.contentTypeChanged") && rhs != "true" {
				cleared++
			}
			return true
		})
		if strings.HasPrefix(fd.Name.Name, "SetContent") && firstSetter == nil {
			firstSetter = fd
		}
	}
	if firstSetter == nil || f.Func("treasure", "SetExpirationTime") == nil ||
		!f.Contains(f.Func("treasure", "SetExpirationTime").Body, "t.expirationTimeChanged = true") {
		return
	}
	// "no" only in a closed world: no SetContent… setter mentions the flag, nor calls another method of the treasure
	// (through which it could be raised)
	tcd := TriOf(setInSetter > 0)
	if setInSetter == 0 {
		for _, d := range f.AST.Decls {
			fd, ok := d.(*ast.FuncDecl)
			if !ok || fd.Body == nil || !strings.HasPrefix(fd.Name.Name, "SetContent") {
				continue
			}
			if f.Contains(fd.Body, "contentTypeChanged =") || f.Contains(fd.Body, "&t.contentTypeChanged") {
				tcd = Unknown
			}
			for _, c := range f.CallsSuffix(fd.Body, "") {
				if fn := f.Str(c.Fun); strings.HasPrefix(fn, "t.") && fn != "t.Guard.CanExecute" && !strings.HasPrefix(fn, "t.mu.") {
					tcd = Unknown
				}
			}
		}
	}
	fs.Tri("typeChangeDetected", tcd, c07At(c07Treasure, f, firstSetter))
	if sv := f.Func("treasure", "SetContentVoid"); sv != nil {
		c07Canon(sv, []string{"t", "guardID"})
		src := f.Str(sv.Body)
		early := strings.Contains(src, "if t.treasure.Content != nil && t.treasure.Content.Void { return }")
		switch {
		case early && strings.HasSuffix(src, "t.contentChanged = true t.treasure.Content = &Content{ Void: true, } }"):
			fs.Tri("setVoidClearsTyped", Yes, c07At(c07Treasure, f, sv))
		case early && strings.Contains(src, "if t.treasure.Content == nil { t.treasure.Content = &Content{ Void: true, } }") &&
			strings.Contains(src, "if t.treasure.Content.Void != false { t.treasure.Content.Void = true }"):
			fs.Tri("setVoidClearsTyped", No, c07At(c07Treasure, f, sv))
		}
	}
	// the flags are cleared nowhere in the package
	sticky := TriOf(cleared == 0)
	if ents, err := os.ReadDir(filepath.Join(repoRoot, filepath.Dir(c07Treasure))); err != nil {
		sticky = Unknown
	} else if cleared == 0 {
		for _, e := range ents {
			nm := e.Name()
			if e.IsDir() || !strings.HasSuffix(nm, ".go") || strings.HasSuffix(nm, "_test.go") || nm == filepath.Base(c07Treasure) {
				continue
			}
			src, err := os.ReadFile(filepath.Join(repoRoot, filepath.Dir(c07Treasure), nm))
			if err != nil || strings.Contains(string(src), "expirationTimeChanged") || strings.Contains(string(src), "contentTypeChanged") || strings.Contains(string(src), "contentChanged") {
				sticky = Unknown
			}
		}
	}
	fs.Tri("flagsSticky", sticky, c07At(c07Treasure, f, f.Func("treasure", "SetExpirationTime")))
}

// the gateway hands the window and the three record timestamps on with their nanosecond part
func c07Timestamps(fs *Facts, f *File) {
	po := f.Func("", "parseOptionalTimestamps")
	kv := f.Func("", "keyValuesToTreasure")
	tk := f.Func("", "treasureToKeyValuePair")
	if po == nil || kv == nil || tk == nil || len(po.Type.Params.List) == 0 || len(kv.Type.Params.List) < 3 {
		return
	}
	// parameter names as they are in the source (tolerates renames)
	var pn []string
	for _, fl := range po.Type.Params.List {
		for _, n := range fl.Names {
			pn = append(pn, n.Name)
		}
	}
	if len(pn) != 2 {
		return
	}
	ps := f.Str(po.Body)
	pair := kv.Type.Params.List[0].Names[0].Name
	ks := f.Str(kv.Body)
	ok := strings.Contains(ps, ":= "+pn[0]+".AsTime()") && strings.Contains(ps, ":= "+pn[1]+".AsTime()") &&
		strings.Contains(ks, "SetCreatedAt(guardID, "+pair+".GetCreatedAt().AsTime())") &&
		strings.Contains(ks, "SetModifiedAt(guardID, "+pair+".GetUpdatedAt().AsTime())") &&
		strings.Contains(ks, "SetExpirationTime(guardID, "+pair+".GetExpiredAt().AsTime())")
	where := "app/server/gateway/gateway.go:" + itoa(f.Line(po))
	// every handler (GetByIndex, GetByIndexStream, GetByIndexStreamFromMany, ShiftMatching) hands BOTH bounds of
	// its own request to parseOptionalTimestamps
	for _, rel := range []string{"app/server/gateway/gateway.go", "app/server/gateway/gateway_shift_matching.go"} {
		g, err := Load(rel)
		if err != nil {
			ok = false
			continue
		}
		for _, c := range g.Calls(g.AST, "parseOptionalTimestamps") {
			if len(c.Args) != 2 {
				ok = false
				continue
			}
			a0, a1 := g.Str(c.Args[0]), g.Str(c.Args[1])
			if !strings.HasSuffix(a0, ".GetFromTime()") || !strings.HasSuffix(a1, ".GetToTime()") ||
				strings.TrimSuffix(a0, ".GetFromTime()") != strings.TrimSuffix(a1, ".GetToTime()") {
				ok = false
				where = rel + ":" + itoa(g.Line(c))
			}
		}
	}
	if ok {
		fs.Tri("timestampsFullPrecision", Yes, where)
	}
}

// buildBeacon: is `initialized` raised before the slice is filled (old), or published after the
// sort under the build lock (new)?
func c07BuildOrder(fs *Facts, f *File) {
	fd := f.Func("swamp", "buildBeacon")
	if fd == nil {
		return
	}
	c07Canon(fd, []string{"s", "beaconASC", "beaconDESC", "bc", "err", "err"})
	src := f.Str(fd.Body)
	where := c07At(c07Swamp, f, fd)
	fill := func(b string) int { return strings.Index(src, b+".PushManyFromMap(s.treasuresForBeacon(bc))") }
	flagFirst := func(b string) bool {
		i := strings.Index(src, "if !"+b+".IsInitialized() { "+b+".SetInitialized(true)")
		return i >= 0 && i < fill(b)
	}
	flagLast := func(b string) bool {
		return !strings.Contains(src, "if !"+b+".IsInitialized() { "+b+".SetInitialized(true)") &&
			strings.Contains(src, "} else { "+b+".SetInitialized(true) }") && fill(b) >= 0
	}
	locked := strings.Contains(src, "s.beaconBuildMu.Lock() defer s.beaconBuildMu.Unlock() if !beaconASC.IsInitialized() {")
	switch {
	case flagFirst("beaconASC") && flagFirst("beaconDESC") && !locked:
		fs.Tri("initialisedAfterFill", No, where)
	case flagLast("beaconASC") && flagLast("beaconDESC") && locked:
		fs.Tri("initialisedAfterFill", Yes, where)
	}
}

// WindowNanos: a lower bound above the representable range or an upper bound below it makes the window
// empty; a lower bound below / an upper bound above is dropped; everything else is UnixNano()
func c07WindowNanosShape(f *File) bool {
	fd := f.Func("", "WindowNanos")
	if fd == nil {
		return false
	}
	body := f.Str(fd.Body)
	return c07InOrder(body,
		"if from != nil { switch { case from.After(maxNanoTime): return 0, 0, false, false, true case !from.Before(minNanoTime): fromNano, hasFrom = from.UnixNano(), true } }",
		"if to != nil { switch { case to.Before(minNanoTime): return 0, 0, false, false, true case !to.After(maxNanoTime): toNano, hasTo = to.UnixNano(), true } }",
		"return") &&
		strings.Contains(string(f.Src), "minNanoTime = time.Unix(0, math.MinInt64)") && strings.Contains(string(f.Src), "maxNanoTime = time.Unix(0, math.MaxInt64)")
}

// the shift path converts its bounds in timeBoundsNanos (gateway): it must do it the way the index read does
func c07WindowFact(fs *Facts, f *File, fd *ast.FuncDecl, checked bool) {
	const shiftGo = "app/server/gateway/gateway_shift_matching.go"
	g, err := Load(shiftGo)
	if err != nil {
		return
	}
	tb := g.Func("", "timeBoundsNanos")
	if tb == nil {
		return
	}
	body := g.Str(tb.Body)
	rawS := strings.Contains(body, "if from != nil { fromNano = from.UTC().UnixNano() } if to != nil { toNano = to.UTC().UnixNano() }")
	checkedS := strings.Contains(body, "fn, tn, hasFrom, hasTo, empty := beacon.WindowNanos(from, to) if empty { return maxInt64, minInt64 } if hasFrom { fromNano = fn } if hasTo { toNano = tn }") &&
		!strings.Contains(body, "UnixNano()")
	switch {
	case checked && checkedS:
		fs.Tri("windowBoundsChecked", Yes, c07At(c07Beacon, f, fd))
	case !checked && rawS:
		fs.Tri("windowBoundsChecked", No, c07At(c07Beacon, f, fd))
	}
}

// the functions the shapes of SaveFunction name
var c07SaveVocabulary = []string{"addTreasureToBeacons", "deleteTreasureFromBeacons", "deleteTreasureIfBeaconInitialized",
	"addToKeyBeacon", "addToExpirationTimeBeacon", "addToUpdateTimeBeacon", "addToCreationTimeBeacon", "addToValueBeacon",
	"notifyBucketsInsert", "notifyBucketsUpdate", "notifyBucketsDelete", "sendEventToHydra", "sendSwampInfo", "fileWriterHandler", "buildBeacon"}

// methods of the swamp that SaveFunction's modified branch calls and that do not touch an ordered index
var c07SaveHarmless = map[string]bool{"notifyBucketsUpdate": true, "sendEventToHydra": true, "fileWriterHandler": true, "sendSwampInfo": true}
