package main

import (
	"go/ast"
	"strings"
)

// StorFlushOrder is the ONE pattern for "in which order does FileWriter.flushLocked write"
// (shared by C01 and C02 so that the two facts cannot disagree):
//
//	"blockHeaderDataFileHeader"  header.Serialize(), compressed, fw.header.Serialize() — through
//	                              fw.file.Write / fw.file.WriteAt — with (header, compressed, _) := fw.buffer.Flush()
//	"other"                       the three writes are recognisable but in another order / number
//	"unknown"                     flushLocked or the Flush() assignment was not found
func StorFlushOrder(f *File) (string, int) {
	if f == nil {
		return "unknown", 0
	}
	fd := f.Func("FileWriter", "flushLocked")
	if fd == nil || fd.Body == nil {
		return "unknown", 0
	}
	var args []string
	for _, c := range f.Calls(fd.Body, "fw.file.Write", "fw.file.WriteAt") {
		if len(c.Args) >= 1 {
			args = append(args, strings.ReplaceAll(f.Str(c.Args[0]), " ", ""))
		}
	}
	hdrFromFlush := false
	// second accepted shape (rollback-capable writer): `entries := fw.buffer.GetEntriesAndClear()` followed by
	// `header, compressed, err := CompressEntries(entries)` — the same bytes as fw.buffer.Flush()
	takes := false
	for _, st := range f.Stmts(fd.Body) {
		if as, ok := st.(*ast.AssignStmt); ok && len(as.Lhs) == 1 && len(as.Rhs) == 1 &&
			f.Str(as.Lhs[0]) == "entries" && f.Str(as.Rhs[0]) == "fw.buffer.GetEntriesAndClear()" {
			takes = true
		}
		if as, ok := st.(*ast.AssignStmt); ok && takes && len(as.Lhs) == 3 && len(as.Rhs) == 1 &&
			f.Str(as.Rhs[0]) == "CompressEntries(entries)" && f.Str(as.Lhs[0]) == "header" && f.Str(as.Lhs[1]) == "compressed" {
			hdrFromFlush = true
		}
	}
	for _, st := range f.Stmts(fd.Body) {
		if as, ok := st.(*ast.AssignStmt); ok && len(as.Lhs) == 3 && len(as.Rhs) == 1 &&
			f.Str(as.Rhs[0]) == "fw.buffer.Flush()" && f.Str(as.Lhs[0]) == "header" && f.Str(as.Lhs[1]) == "compressed" {
			hdrFromFlush = true
		}
		// rollback-capable writer: `taken := fw.buffer.entries` before Flush (kept for Restore on failure)
		// does not change which bytes are written, nor their order
	}
	line := f.Line(fd)
	switch {
	case !hdrFromFlush || len(args) == 0:
		return "unknown", line
	case len(args) == 3 && args[0] == "header.Serialize()" && args[1] == "compressed" && args[2] == "fw.header.Serialize()":
		return "blockHeaderDataFileHeader", line
	}
	return "other", line
}

// Tri3: a fact is `yes` when its pattern matched, `no` only when the code positively lacks the thing
// (absent), and `unknown` for everything in between — an unrecognised shape is never reported as a defect.
func Tri3(matched, absent bool) Tri {
	switch {
	case matched:
		return Yes
	case absent:
		return No
	}
	return Unknown
}

// ShapeTri: for facts that only describe the shape the model hard-wires: matched or unknown.
func ShapeTri(matched bool) Tri { return Tri3(matched, false) }
