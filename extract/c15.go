package main

import (
	"go/ast"
	"strings"
)

// C15: does ReleaseTreasureGuard reset largestGuardID when the queue empties?
// Any write to largestGuardID other than the `AddInt64(&g.largestGuardID, 1)` in
// StartTreasureGuard and the recognised reset makes the fact unknown.
func init() {
	Register("C15", Extractor{Import: "Hv.Props.C15", Type: "Hv.C15.Facts", Run: func(fs *Facts) {
		const path = "app/core/hydra/swamp/treasure/guard/guard.go"
		f, err := Load(path)
		if err != nil {
			fs.Err("%v", err)
			fs.Tri("resetsIdOnEmpty", Unknown, path)
			return
		}
		rel := f.Func("guard", "ReleaseTreasureGuard")
		start := f.Func("guard", "StartTreasureGuard")
		if rel == nil || start == nil {
			fs.Tri("resetsIdOnEmpty", Unknown, path)
			return
		}
		resets, other := 0, 0
		where := path
		ast.Inspect(f.AST, func(n ast.Node) bool {
			switch x := n.(type) {
			case *ast.CallExpr:
				fn := f.Str(x.Fun)
				if strings.HasPrefix(fn, "atomic.") && len(x.Args) > 0 && strings.Contains(f.Str(x.Args[0]), "largestGuardID") {
					switch {
					case fn == "atomic.AddInt64" && len(x.Args) == 2 && f.Str(x.Args[1]) == "1":
					case fn == "atomic.LoadInt64":
					case fn == "atomic.StoreInt64" && len(x.Args) == 2 && f.Str(x.Args[1]) == "0" &&
						x.Pos() >= rel.Pos() && x.End() <= rel.End():
						resets++
						where = path + ":" + itoa(f.Line(x))
					default:
						other++
					}
				}
			case *ast.AssignStmt:
				for _, l := range x.Lhs {
					if strings.Contains(f.Str(l), "largestGuardID") {
						other++
					}
				}
			case *ast.IncDecStmt:
				if strings.Contains(f.Str(x.X), "largestGuardID") {
					other++
				}
			}
			return true
		})
		switch {
		case other > 0:
			fs.Tri("resetsIdOnEmpty", Unknown, where)
		case resets > 0:
			fs.Tri("resetsIdOnEmpty", Yes, where)
		default:
			fs.Tri("resetsIdOnEmpty", No, path+":"+itoa(f.Line(rel)))
		}
	}})
}

func itoa(i int) string { return strings.TrimSpace(strings.Replace(" "+fmtInt(i), " ", "", 1)) }
