package main

import (
	"go/ast"
	"go/token"
	"strings"
)

// C01 facts: field widths of the entry / block-header encoders, the validation WriteEntry performs
// before buffer.Add, the flush comparison in WriteBuffer.Add, the order of the three writes in
// flushLocked, and the OpDelete / OpMetadata cases of LoadIndex.
const (
	c01Types  = "app/core/hydra/swamp/chronicler/v2/types.go"
	c01Block  = "app/core/hydra/swamp/chronicler/v2/block.go"
	c01Writer = "app/core/hydra/swamp/chronicler/v2/writer.go"
	c01Reader = "app/core/hydra/swamp/chronicler/v2/reader.go"
)

func init() {
	Register("C01", Extractor{Import: "Hv.Props.C01", Type: "Hv.C01.Facts", Run: func(fs *Facts) {
		ty, e1 := Load(c01Types)
		bl, e2 := Load(c01Block)
		wr, e3 := Load(c01Writer)
		rd, e4 := Load(c01Reader)
		for _, e := range []error{e1, e2, e3, e4} {
			if e != nil {
				fs.Err("%v", e)
			}
		}
		// ---- widths
		c01Width(fs, ty, "keyLenBytes", "Entry", "Serialize", "Deserialize", "keyLen")
		c01Width(fs, ty, "dataLenBytes", "Entry", "Serialize", "Deserialize", "dataLen")
		c01Width(fs, ty, "entryCountBytes", "BlockHeader", "Serialize", "Deserialize", "EntryCount")
		c01Width(fs, ty, "blockSizeFieldBytes", "BlockHeader", "Serialize", "Deserialize", "CompressedSize")
		// ---- WriteEntry validation
		c01Guards(fs, wr)
		// ---- WriteBuffer.Add
		c01Add(fs, bl)
		// ---- flushLocked write order
		c01FlushOrder(fs, wr)
		// ---- LoadIndex cases
		c01LoadIndex(fs, rd)
		// ---- the chronicler's choice of operation and its handling of a refused entry
		c01Chronicler(fs)
		c01ApiValidation(fs)
		c01OpenExisting(fs, wr)
		// the writer-side name bound (C29's pattern, one implementation)
		scratch := NewFacts("C29")
		c29Writer(scratch, wr, ty)
		fs.set("writerRejectsLongName", scratch.Lean["rejectsLongName"], scratch.Show["rejectsLongName"], scratch.Where["rejectsLongName"])
		// ---- every path that buffers entries obeys the per-entry flush rule
		c01BatchPaths(fs, wr, rd)
	}})
}

// c01Width: the width N/8 of the PutUintN call in `ser` whose value argument mentions `field`,
// provided the UintN read in `de` that is assigned to / converted for the same field has the same N.
func c01Width(fs *Facts, f *File, name, recv, ser, de, field string) {
	if f == nil {
		fs.OptNat(name, 0, false, c01Types)
		return
	}
	sfn, dfn := f.Func(recv, ser), f.Func(recv, de)
	if sfn == nil || dfn == nil {
		fs.OptNat(name, 0, false, c01Types)
		return
	}
	w, line := 0, 0
	for _, c := range f.CallsPrefix(sfn.Body, "binary.LittleEndian.PutUint") {
		if len(c.Args) == 2 && c01Mentions(f.Str(c.Args[1]), field) {
			n := c01Bits(strings.TrimPrefix(f.Str(c.Fun), "binary.LittleEndian.PutUint"))
			if w != 0 && n != w {
				w = -1
			} else if w == 0 {
				w, line = n, f.Line(c)
			}
		}
	}
	// reader side: a statement that mentions the field and calls binary.LittleEndian.UintN
	r := 0
	for _, st := range f.Stmts(dfn.Body) {
		as, ok := st.(*ast.AssignStmt)
		if !ok || len(as.Lhs) != 1 || !c01Mentions(f.Str(as.Lhs[0]), field) {
			continue
		}
		for _, c := range f.CallsPrefix(as, "binary.LittleEndian.Uint") {
			n := c01Bits(strings.TrimPrefix(f.Str(c.Fun), "binary.LittleEndian.Uint"))
			if r != 0 && n != r {
				r = -1
			} else if r == 0 {
				r = n
			}
		}
	}
	if w <= 0 || r != w {
		fs.OptNat(name, 0, false, c01Types)
		return
	}
	fs.OptNat(name, w/8, true, c01Types+":"+itoa(line))
}

func c01Mentions(s, field string) bool {
	// whole-identifier match
	for i := 0; i+len(field) <= len(s); i++ {
		if s[i:i+len(field)] == field {
			before := i == 0 || !c01IdentCh(s[i-1])
			after := i+len(field) == len(s) || !c01IdentCh(s[i+len(field)])
			if before && after {
				return true
			}
		}
	}
	return false
}
func c01IdentCh(b byte) bool {
	return b == '_' || (b >= 'a' && b <= 'z') || (b >= 'A' && b <= 'Z') || (b >= '0' && b <= '9')
}
func c01Bits(s string) int {
	switch s {
	case "16":
		return 16
	case "32":
		return 32
	case "64":
		return 64
	}
	return 0
}

// CallsPrefix: call expressions whose callee text starts with prefix.
func (f *File) CallsPrefix(n ast.Node, prefix string) []*ast.CallExpr {
	var out []*ast.CallExpr
	if n == nil {
		return out
	}
	ast.Inspect(n, func(x ast.Node) bool {
		if c, ok := x.(*ast.CallExpr); ok && strings.HasPrefix(f.Str(c.Fun), prefix) {
			out = append(out, c)
		}
		return true
	})
	return out
}

// c01Guards: statements of WriteEntry that precede the first buffer.Add call (plus the bodies of
// same-file helper functions they call) are searched for `if <key empty> { return <err> }` and
// `if len(<key>) > 65535|math.MaxUint16 { return <err> }`.  WriteEntries must show the same.
func c01Guards(fs *Facts, f *File) {
	if f == nil {
		fs.Tri("rejectsEmptyKey", Unknown, c01Writer)
		fs.Tri("rejectsLongKey", Unknown, c01Writer)
		return
	}
	e1, l1, ok1 := c01GuardsIn(f, "WriteEntry")
	e2, l2, ok2 := c01GuardsIn(f, "WriteEntries")
	if !ok1 || !ok2 {
		fs.Tri("rejectsEmptyKey", Unknown, c01Writer)
		fs.Tri("rejectsLongKey", Unknown, c01Writer)
		return
	}
	fs.Tri("rejectsEmptyKey", TriOf(e1 && e2), c01Writer+":"+itoa(f.Line(f.Func("FileWriter", "WriteEntry"))))
	fs.Tri("rejectsLongKey", TriOf(l1 && l2), c01Writer+":"+itoa(f.Line(f.Func("FileWriter", "WriteEntry"))))
}

func c01GuardsIn(f *File, fn string) (empty, long, ok bool) {
	fd := f.Func("FileWriter", fn)
	if fd == nil || fd.Body == nil {
		return false, false, false
	}
	adds := f.CallsSuffix(fd.Body, "buffer.Add")
	if len(adds) != 1 {
		return false, false, false
	}
	addPos := adds[0].Pos()
	var scope []ast.Node
	var before func(list []ast.Stmt)
	before = func(list []ast.Stmt) {
		for _, st := range list {
			if st.Pos() > addPos {
				return
			}
			if st.End() < addPos {
				scope = append(scope, st)
				continue
			}
			// the statement contains the Add call: descend (loop / block / if init)
			switch x := st.(type) {
			case *ast.RangeStmt:
				before(x.Body.List)
			case *ast.ForStmt:
				before(x.Body.List)
			case *ast.BlockStmt:
				before(x.List)
			case *ast.IfStmt:
				before(x.Body.List)
			}
		}
	}
	before(fd.Body.List)
	// one level of same-file helpers
	var helpers []ast.Node
	for _, n := range scope {
		ast.Inspect(n, func(x ast.Node) bool {
			if c, ok := x.(*ast.CallExpr); ok {
				if id, ok := c.Fun.(*ast.Ident); ok {
					if h := f.Func("", id.Name); h != nil && h.Body != nil {
						helpers = append(helpers, h.Body)
					}
				}
			}
			return true
		})
	}
	for _, n := range append(scope, helpers...) {
		ast.Inspect(n, func(x ast.Node) bool {
			is, ok := x.(*ast.IfStmt)
			if !ok || !c01Returns(is.Body) {
				return true
			}
			for _, cond := range c01Disjuncts(is.Cond) {
				c := strings.ReplaceAll(f.Str(cond), " ", "")
				if strings.Contains(c, "Key") || strings.Contains(c, "key") {
					switch {
					case strings.HasSuffix(c, `==""`) || (strings.HasPrefix(c, "len(") && strings.HasSuffix(c, ")==0")):
						empty = true
					case strings.HasPrefix(c, "len(") && (strings.HasSuffix(c, ")>math.MaxUint16") || strings.HasSuffix(c, ")>65535") ||
						strings.HasSuffix(c, ")>=65536") || strings.HasSuffix(c, ")>0xFFFF") || strings.HasSuffix(c, ")>0xffff")):
						long = true
					}
				}
			}
			return true
		})
	}
	return empty, long, true
}

func c01Disjuncts(e ast.Expr) []ast.Expr {
	if b, ok := e.(*ast.BinaryExpr); ok && b.Op == token.LOR {
		return append(c01Disjuncts(b.X), c01Disjuncts(b.Y)...)
	}
	if p, ok := e.(*ast.ParenExpr); ok {
		return c01Disjuncts(p.X)
	}
	return []ast.Expr{e}
}

// c01Returns: the block ends by returning (a non-nil last result is not checked syntactically
// beyond "is not the literal nil").
func c01Returns(b *ast.BlockStmt) bool {
	if b == nil || len(b.List) == 0 {
		return false
	}
	r, ok := b.List[len(b.List)-1].(*ast.ReturnStmt)
	if !ok || len(r.Results) == 0 {
		return false
	}
	if id, ok := r.Results[len(r.Results)-1].(*ast.Ident); ok && id.Name == "nil" {
		return false
	}
	return true
}

func c01Add(fs *Facts, f *File) {
	if f == nil {
		fs.Enum("flushCmp", "unknown", c01Block)
		fs.Tri("flushAtCount", Unknown, c01Block)
		return
	}
	fd := f.Func("WriteBuffer", "Add")
	if fd == nil || fd.Body == nil || len(fd.Body.List) == 0 {
		fs.Enum("flushCmp", "unknown", c01Block)
		fs.Tri("flushAtCount", Unknown, c01Block)
		return
	}
	ret, ok := fd.Body.List[len(fd.Body.List)-1].(*ast.ReturnStmt)
	if !ok || len(ret.Results) != 1 {
		fs.Enum("flushCmp", "unknown", c01Block)
		fs.Tri("flushAtCount", Unknown, c01Block)
		return
	}
	cmp, count, bad := "unknown", false, false
	for _, d := range c01Disjuncts(ret.Results[0]) {
		c := strings.ReplaceAll(f.Str(d), " ", "")
		switch {
		case c == "wb.currentSize>=wb.maxSize":
			cmp = "ge"
		case c == "wb.currentSize>wb.maxSize":
			cmp = "gt"
		case c == "len(wb.entries)>=math.MaxUint16" || c == "len(wb.entries)>=65535" || c == "len(wb.entries)>65534" ||
			c == "len(wb.entries)>=maxEntriesPerBlock":
			count = true
		default:
			bad = true
		}
	}
	where := c01Block + ":" + itoa(f.Line(ret))
	if bad {
		fs.Enum("flushCmp", "unknown", where)
		fs.Tri("flushAtCount", Unknown, where)
		return
	}
	if count && strings.Contains(f.Str(ret.Results[0]), "maxEntriesPerBlock") && !c01ConstIs(f, "maxEntriesPerBlock", "math.MaxUint16", "65535") {
		fs.Tri("flushAtCount", Unknown, where)
	} else {
		fs.Tri("flushAtCount", TriOf(count), where)
	}
	fs.Enum("flushCmp", cmp, where)
}

// c01ConstIs: a package-level constant `name` whose value renders as one of vals.
func c01ConstIs(f *File, name string, vals ...string) bool {
	for _, d := range f.AST.Decls {
		gd, ok := d.(*ast.GenDecl)
		if !ok || gd.Tok != token.CONST {
			continue
		}
		for _, sp := range gd.Specs {
			vs := sp.(*ast.ValueSpec)
			for i, n := range vs.Names {
				if n.Name == name && i < len(vs.Values) {
					v := strings.ReplaceAll(f.Str(vs.Values[i]), " ", "")
					for _, w := range vals {
						if v == w {
							return true
						}
					}
				}
			}
		}
	}
	return false
}

func c01FlushOrder(fs *Facts, f *File) {
	order, line := StorFlushOrder(f)
	fs.Enum("flushOrder", order, c01Writer+":"+itoa(line))
}

func c01LoadIndex(fs *Facts, f *File) {
	if f == nil {
		fs.Tri("deleteRemoves", Unknown, c01Reader)
		fs.Tri("metadataIgnored", Unknown, c01Reader)
		return
	}
	fd := f.Func("FileReader", "LoadIndex")
	if fd == nil {
		fs.Tri("deleteRemoves", Unknown, c01Reader)
		fs.Tri("metadataIgnored", Unknown, c01Reader)
		return
	}
	var sw *ast.SwitchStmt
	ast.Inspect(fd.Body, func(x ast.Node) bool {
		if s, ok := x.(*ast.SwitchStmt); ok && sw == nil && s.Tag != nil && f.Str(s.Tag) == "entry.Operation" {
			sw = s
		}
		return true
	})
	if sw == nil {
		fs.Tri("deleteRemoves", Unknown, c01Reader)
		fs.Tri("metadataIgnored", Unknown, c01Reader)
		return
	}
	del, putOK, metaClean, hasDefault := false, false, true, false
	for _, st := range sw.Body.List {
		cc := st.(*ast.CaseClause)
		if cc.List == nil {
			hasDefault = len(cc.Body) > 0
			continue
		}
		var labels []string
		for _, l := range cc.List {
			labels = append(labels, f.Str(l))
		}
		body := &ast.BlockStmt{List: cc.Body}
		lab := strings.Join(labels, ",")
		switch {
		case lab == "OpDelete":
			for _, c := range f.Calls(body, "delete") {
				if len(c.Args) == 2 && f.Str(c.Args[0]) == "index" && f.Str(c.Args[1]) == "entry.Key" {
					del = true
				}
			}
		case lab == "OpInsert,OpUpdate" || lab == "OpUpdate,OpInsert":
			putOK = f.Contains(body, "index[entry.Key] =")
		case lab == "OpMetadata":
			if f.Contains(body, "index[") || len(f.Calls(body, "delete")) > 0 {
				metaClean = false
			}
		default:
			metaClean = false // an unexpected case label: not the modelled switch
			putOK = false
		}
	}
	where := c01Reader + ":" + itoa(f.Line(sw))
	if !putOK || hasDefault {
		fs.Tri("deleteRemoves", Unknown, where)
		fs.Tri("metadataIgnored", Unknown, where)
		return
	}
	fs.Tri("deleteRemoves", TriOf(del), where)
	fs.Tri("metadataIgnored", ShapeTri(metaClean), where)
}

// c01BatchPaths: WriteEntries must ask for a flush after every Add (flushLocked inside the range
// loop), the compaction paths must write entry by entry through WriteEntry, and ReadAllEntries /
// ReadAllBlocks must scan until EOF (an unconditional `for {` around readNextBlock), not up to a
// header counter.
func c01BatchPaths(fs *Facts, wr *File, rd *File) {
	const comp = "app/core/hydra/swamp/chronicler/v2/compactor.go"
	per := Unknown
	if wr != nil {
		if fd := wr.Func("FileWriter", "WriteEntries"); fd != nil {
			per = No
			ast.Inspect(fd.Body, func(x ast.Node) bool {
				if r, ok := x.(*ast.RangeStmt); ok {
					if len(wr.CallsSuffix(r.Body, "buffer.Add")) == 1 && len(wr.Calls(r.Body, "fw.flushLocked")) == 1 {
						per = Yes
					}
				}
				return true
			})
		}
	}
	fs.Tri("writeEntriesFlushesPerEntry", per, c01Writer)
	cp := Unknown
	if cf, err := Load(comp); err == nil {
		okAll := true
		for _, fn := range []struct{ recv, name string }{{"Compactor", "Compact"}, {"", "CompactFromIndex"}} {
			fd := cf.Func(fn.recv, fn.name)
			if fd == nil {
				okAll = false
				continue
			}
			found := false
			ast.Inspect(fd.Body, func(x ast.Node) bool {
				if r, ok := x.(*ast.RangeStmt); ok && cf.Str(r.X) == "index" && len(cf.Calls(r.Body, "writer.WriteEntry")) == 1 {
					found = true
				}
				return true
			})
			if !found || len(cf.Calls(fd.Body, "writer.WriteEntries")) > 0 {
				okAll = false
			}
		}
		cp = TriOf(okAll)
	} else {
		fs.Err("%v", err)
	}
	fs.Tri("compactionWritesPerEntry", cp, comp)
	scan := Unknown
	if rd != nil {
		okAll := true
		for _, name := range []string{"ReadAllEntries", "ReadAllBlocks"} {
			fd := rd.Func("FileReader", name)
			if fd == nil {
				okAll = false
				continue
			}
			found := false
			ast.Inspect(fd.Body, func(x ast.Node) bool {
				if fr, ok := x.(*ast.ForStmt); ok && fr.Cond == nil && fr.Init == nil && fr.Post == nil && len(rd.Calls(fr.Body, "fr.readNextBlock")) == 1 {
					found = true
				}
				return true
			})
			if !found {
				okAll = false
			}
		}
		scan = TriOf(okAll)
	}
	fs.Tri("readerScansToEOF", scan, c01Reader)
}

// c01Chronicler: chroniclerV2.Write — DELETE for GetDeletedAt() > 0, INSERT iff GetFileName() == nil else
// UPDATE; after a failed WriteEntry the loop `continue`s; whether the caller can learn about the refusal
// (Write has a result) or it is only logged.
func c01Chronicler(fs *Facts) {
	const path = "app/core/hydra/swamp/chronicler/chronicler_v2.go"
	names := []string{"chronOpChoice", "chronContinuesAfterError", "chronSurfacesError"}
	f, err := Load(path)
	if err != nil {
		fs.Err("%v", err)
		for _, n := range names {
			fs.Tri(n, Unknown, path)
		}
		return
	}
	fd := f.Func("chroniclerV2", "Write")
	if fd == nil || fd.Body == nil {
		for _, n := range names {
			fs.Tri(n, Unknown, path)
		}
		return
	}
	where := path + ":" + itoa(f.Line(fd))
	b := strings.ReplaceAll(f.Str(fd.Body), " ", "")
	choice := strings.Contains(b, "isDeleted:=t.GetDeletedAt()>0") &&
		strings.Contains(b, "ifisDeleted{") && strings.Contains(b, "Operation:v2.OpDelete,Key:key,Data:nil") &&
		strings.Contains(b, "op:=v2.OpUpdateift.GetFileName()==nil{op=v2.OpInsert}") &&
		strings.Contains(b, "Operation:op,Key:key,Data:data")
	fs.Tri("chronOpChoice", ShapeTri(choice), where)
	// the `if err := c.writer.WriteEntry(entry); err != nil { … }` block
	cont, found := false, false
	ast.Inspect(fd.Body, func(x ast.Node) bool {
		is, ok := x.(*ast.IfStmt)
		if !ok || is.Init == nil || !strings.Contains(f.Str(is.Init), "c.writer.WriteEntry(entry)") || len(is.Body.List) == 0 {
			return true
		}
		found = true
		if br, ok := is.Body.List[len(is.Body.List)-1].(*ast.BranchStmt); ok && br.Tok.String() == "continue" {
			cont = true
		}
		return true
	})
	if !found {
		fs.Tri("chronContinuesAfterError", Unknown, where)
	} else {
		fs.Tri("chronContinuesAfterError", TriOf(cont), where)
	}
	// a Write without results cannot report anything; a Write with results is not modelled yet
	if fd.Type.Results == nil || len(fd.Type.Results.List) == 0 {
		fs.Tri("chronSurfacesError", No, where)
	} else {
		fs.Tri("chronSurfacesError", Unknown, where)
	}
}

// c01ApiValidation: the gateway refuses keys the format cannot carry before creating a treasure:
// `func isValidKey(key string) bool { return key != "" && len(key) <= maxKeyLength }` with maxKeyLength =
// 65535 / math.MaxUint16, and EVERY key-creating handler — listed by name — has an `if !isValidKey(…)`
// guard.  One handler without it: `no` (that RPC acknowledges keys the writer will refuse).
var c01KeyHandlers = []string{"Set", "IncrementInt8", "IncrementInt16", "IncrementInt32", "IncrementInt64", "IncrementUint8",
	"IncrementUint16", "IncrementUint32", "IncrementUint64", "IncrementFloat32", "IncrementFloat64", "Uint32SlicePush",
	"patchTreasuresOneSwamp"}

func c01ApiValidation(fs *Facts) {
	const gw = "app/server/gateway/gateway.go"
	f, err := Load(gw)
	if err != nil {
		fs.Err("%v", err)
		fs.Tri("apiValidatesKeys", Unknown, gw)
		fs.Tri("apiBoundsNameLength", Unknown, gw)
		return
	}
	// ---- swamp name length
	if fd := f.Func("", "isValidSwampName"); fd == nil || fd.Body == nil {
		fs.Tri("apiBoundsNameLength", Unknown, gw)
	} else {
		where := gw + ":" + itoa(f.Line(fd))
		bounded, mentions := false, strings.Contains(f.Str(fd.Body), "len(swampName)")
		for _, is := range c04Ifs(f, fd.Body) {
			be, ok := is.Cond.(*ast.BinaryExpr)
			if !ok || be.Op != token.GTR || strings.ReplaceAll(f.Str(be.X), " ", "") != "len(swampName)" || len(is.Body.List) != 1 {
				continue
			}
			lim := f.Str(be.Y)
			limOK := lim == "65535" || lim == "math.MaxUint16" || (lim == "maxSwampNameLength" && c01ConstIs(f, "maxSwampNameLength", "65535", "math.MaxUint16"))
			if r, ok := is.Body.List[0].(*ast.ReturnStmt); ok && len(r.Results) == 1 && f.Str(r.Results[0]) == "false" && limOK {
				bounded = true
			}
		}
		switch {
		case bounded:
			fs.Tri("apiBoundsNameLength", Yes, where)
		case !mentions:
			fs.Tri("apiBoundsNameLength", No, where)
		default:
			fs.Tri("apiBoundsNameLength", Unknown, where)
		}
	}
	// ---- keys
	fd := f.Func("", "isValidKey")
	if fd == nil {
		fs.Tri("apiValidatesKeys", No, gw)
		return
	}
	where := gw + ":" + itoa(f.Line(fd))
	body := strings.ReplaceAll(f.Str(fd.Body), " ", "")
	if !(body == `{returnkey!=""&&len(key)<=maxKeyLength}` && c01ConstIs(f, "maxKeyLength", "65535", "math.MaxUint16")) {
		fs.Tri("apiValidatesKeys", Unknown, where)
		return
	}
	files := []*File{f}
	if g, err := Load("app/server/gateway/gateway_patch.go"); err == nil {
		files = append(files, g)
	}
	var missing []string
	for _, h := range c01KeyHandlers {
		guarded, found := false, false
		for _, g := range files {
			hd := g.Func("", h)
			if hd == nil || hd.Body == nil {
				continue
			}
			found = true
			ast.Inspect(hd.Body, func(x ast.Node) bool {
				if is, ok := x.(*ast.IfStmt); ok && strings.HasPrefix(strings.ReplaceAll(g.Str(is.Cond), " ", ""), "!isValidKey(") {
					guarded = true
				}
				return true
			})
		}
		if !found {
			fs.Tri("apiValidatesKeys", Unknown, where+" (handler "+h+" not found)")
			return
		}
		if !guarded {
			missing = append(missing, h)
		}
	}
	if len(missing) > 0 {
		fs.Tri("apiValidatesKeys", No, where+" (no key check in: "+strings.Join(missing, ",")+")")
		return
	}
	fs.Tri("apiValidatesKeys", Yes, where)
}

// c01OpenExisting: does openExistingFile cut a torn tail?  yes = a `for` loop reading block headers with
// file.ReadAt(bh, end) and advancing by BlockHeaderSize + CompressedSize, followed by
// `if end < info.Size() { … file.Truncate(end) … }`; no = neither ReadAt nor Truncate in the function.
func c01OpenExisting(fs *Facts, f *File) {
	if f == nil || f.Func("FileWriter", "openExistingFile") == nil {
		fs.Tri("openCutsTornTail", Unknown, c01Writer)
		fs.Tri("openStopsAtZeroSize", Unknown, c01Writer)
		fs.Tri("openRestartsZeroHeader", Unknown, c01Writer)
		fs.Tri("openChecksLastBlock", Unknown, c01Writer)
		fs.Tri("openSparesMidDamage", Unknown, c01Writer)
		return
	}
	fd := f.Func("FileWriter", "openExistingFile")
	where := c01Writer + ":" + itoa(f.Line(fd))
	b := strings.ReplaceAll(f.Str(fd.Body), " ", "")
	hasRead, hasTrunc := strings.Contains(b, "file.ReadAt("), strings.Contains(b, "file.Truncate(")
	// canonicalise the local buffer: whatever is passed to ReadAt is the one whose first four bytes are read
	buf := ""
	for _, c := range f.Calls(fd.Body, "file.ReadAt") {
		if len(c.Args) == 2 && f.Str(c.Args[1]) == "end" {
			buf = f.Str(c.Args[0])
		}
	}
	walk := buf != "" &&
		strings.Contains(b, "next:=end+BlockHeaderSize+int64(binary.LittleEndian.Uint32("+buf+"[0:4]))") &&
		strings.Contains(b, "ifnext>info.Size(){break}") && strings.Contains(b, "ifend<info.Size(){iferr:=file.Truncate(end)")
	switch {
	case walk:
		fs.Tri("openCutsTornTail", Yes, where)
	case !hasRead && !hasTrunc:
		fs.Tri("openCutsTornTail", No, where)
	default:
		fs.Tri("openCutsTornTail", Unknown, where)
	}
	// ---- the branches for files the writer alone never leaves behind (each: yes = exactly the
	// recognised shape, helper functions included; no = the function does not mention it; else unknown)
	tri := func(absent bool, present bool) Tri {
		switch {
		case present:
			return Yes
		case absent:
			return No
		}
		return Unknown
	}
	helper := func(name, want string) bool {
		h := f.Func("", name)
		return h != nil && h.Recv == nil && c29Norm(f, h.Body) == want
	}
	fs.Tri("openStopsAtZeroSize",
		tri(!strings.Contains(b, "next==end") && !strings.Contains(b, "[0:4])==0") && !strings.Contains(b, "==0{break}"),
			walk && strings.Contains(b, "ifnext>info.Size(){break}ifnext==end+BlockHeaderSize{break}")), where)
	so := f.Func("FileWriter", "startOver")
	fs.Tri("openRestartsZeroHeader",
		tri(!strings.Contains(b, "startOver") && !strings.Contains(b, "bytes.Count("),
			strings.Contains(b, "ifbytes.Count(headerBuf,[]byte{0})==len(headerBuf){file.Close()returnfw.startOver()}fw.header=&FileHeader{}") &&
				so != nil && c29Norm(f, so.Body) == "{returnfw.createNewFile()}"), where)
	fs.Tri("openChecksLastBlock",
		tri(!strings.Contains(b, "blockIntactAt"),
			walk && strings.Contains(b, "last,end=end,next}iflast>=0&&!blockIntactAt(file,last,end){end=last}") &&
				strings.Contains(b, "end,last,bh:=fw.header.DataStartOffset(),int64(-1),make([]byte,BlockHeaderSize)") &&
				helper("blockIntactAt", "{buf:=make([]byte,end-start)if_,err:=file.ReadAt(buf,start);err!=nil{returnfalse}"+
					"returnValidateChecksum(buf[BlockHeaderSize:],binary.LittleEndian.Uint32(buf[10:14]))}")), where)
	fs.Tri("openSparesMidDamage",
		tri(!strings.Contains(b, "intactBlockBehind"),
			walk && strings.Contains(b, "ifend<info.Size()&&intactBlockBehind(file,end,info.Size()){file.Close()returnfmt.Errorf(") &&
				helper("intactBlockBehind", "{ifsize-from>256<<20{returntrue}tail:=make([]byte,size-from)if_,err:=file.ReadAt(tail,from);err!=nil{returntrue}"+
					"fori:=1;i+BlockHeaderSize<len(tail);i++{n:=int(binary.LittleEndian.Uint32(tail[i:i+4]))ifn==0||n>len(tail)-i-BlockHeaderSize{continue}"+
					"ifValidateChecksum(tail[i+BlockHeaderSize:i+BlockHeaderSize+n],binary.LittleEndian.Uint32(tail[i+10:i+14])){returntrue}}returnfalse}")), where)
}
