package main

import (
	"go/ast"
	"go/token"
	"strconv"
	"strings"
)

// C14: shape of app/core/hydra/lock/lock.go (enqueue/remove under q.mu, which ready channel
// remove closes and under which condition, the three remove call sites) and the gateway's
// TTL floor. Anything not matching the expected syntactic shape is `unknown`.

const c14LockPath = "app/core/hydra/lock/lock.go"
const c14GwPath = "app/server/gateway/gateway.go"

// c14UnderMu: body starts with `q.mu.Lock()` followed by `defer q.mu.Unlock()`.
func c14UnderMu(f *File, fd *ast.FuncDecl) bool {
	if fd == nil || fd.Body == nil || len(fd.Body.List) < 2 {
		return false
	}
	a, ok := fd.Body.List[0].(*ast.ExprStmt)
	if !ok || f.Str(a.X) != "q.mu.Lock()" {
		return false
	}
	d, ok := fd.Body.List[1].(*ast.DeferStmt)
	return ok && f.Str(d.Call) == "q.mu.Unlock()"
}

// c14ReadyCloses returns every `close(X.ready)` call under n.
func c14ReadyCloses(f *File, n ast.Node) []*ast.CallExpr {
	var out []*ast.CallExpr
	for _, c := range f.Calls(n, "close") {
		if len(c.Args) == 1 && strings.HasSuffix(f.Str(c.Args[0]), ".ready") {
			out = append(out, c)
		}
	}
	return out
}

func c14Where(f *File, n ast.Node) string { return f.Path + ":" + strconv.Itoa(f.Line(n)) }

func init() {
	Register("C14", Extractor{Import: "Hv.Props.C14", Type: "Hv.C14.Facts", Run: func(fs *Facts) {
		names := []string{"enqueueUnderMu", "removeUnderMu", "enqueueGrantsWhenEmpty", "wakeOnlyIfHead",
			"wasHeadIsIndexZero", "cancelRemoves", "ttlRemoves", "unlockRemoves"}
		unknownAll := func(where string) {
			for _, n := range names {
				fs.Tri(n, Unknown, where)
			}
			fs.Raw("readyCloseSites", "none", "unknown", where)
			fs.Raw("wake", "none", "unknown", where)
			fs.Raw("idSource", "none", "unknown", where)
		}
		f, err := Load(c14LockPath)
		if err != nil {
			fs.Err("%v", err)
			unknownAll(c14LockPath)
		} else {
			c14Lock(fs, f, unknownAll)
		}
		c14Gateway(fs)
	}})
}

func c14Lock(fs *Facts, f *File, unknownAll func(string)) {
	enq, rem := f.Func("queue", "enqueue"), f.Func("queue", "remove")
	lockFn, unlockFn := f.Func("lock", "Lock"), f.Func("lock", "Unlock")
	if enq == nil || rem == nil || lockFn == nil || unlockFn == nil {
		unknownAll(c14LockPath)
		return
	}
	fs.Tri("enqueueUnderMu", TriOf(c14UnderMu(f, enq)), c14Where(f, enq))
	fs.Tri("removeUnderMu", TriOf(c14UnderMu(f, rem)), c14Where(f, rem))
	n := len(c14ReadyCloses(f, f.AST))
	fs.Raw("readyCloseSites", "(some "+strconv.Itoa(n)+")", strconv.Itoa(n), c14LockPath)

	// enqueue: wasEmpty := len(q.callers) == 0 ; q.callers = append(q.callers, c) ; if wasEmpty { close(c.ready) }
	grants := Unknown
	{
		posEmpty, posAppend, okIf := -1, -1, false
		for i, st := range enq.Body.List {
			switch x := st.(type) {
			case *ast.AssignStmt:
				s := f.Str(x)
				if s == "wasEmpty := len(q.callers) == 0" {
					posEmpty = i
				}
				if s == "q.callers = append(q.callers, c)" {
					posAppend = i
				}
			case *ast.IfStmt:
				if f.Str(x.Cond) == "wasEmpty" && x.Else == nil && len(x.Body.List) == 1 &&
					f.Str(x.Body.List[0]) == "close(c.ready)" {
					okIf = true
				}
			}
		}
		cl := c14ReadyCloses(f, enq)
		if posEmpty >= 0 && posAppend > posEmpty && okIf && len(cl) == 1 {
			grants = Yes
		} else if len(cl) == 0 {
			grants = No
		}
	}
	fs.Tri("enqueueGrantsWhenEmpty", grants, c14Where(f, enq))

	// remove: for i, c := range q.callers { if c.id != id { continue }; wasHead := i == 0; delete; close(done); if COND { close(TARGET.ready) }; return true }
	wake, wakeShow, onlyHead, idx0 := "none", "unknown", Unknown, Unknown
	whereWake := c14Where(f, rem)
	var loop *ast.RangeStmt
	for _, st := range rem.Body.List {
		if r, ok := st.(*ast.RangeStmt); ok && f.Str(r.X) == "q.callers" && f.Str(r.Key) == "i" {
			loop = r
		}
	}
	if loop != nil {
		sawSkip, sawHead, sawDelete := false, false, false
		for _, st := range loop.Body.List {
			s := f.Str(st)
			switch {
			case strings.HasPrefix(s, "if c.id != id { continue }"):
				sawSkip = true
			case s == "wasHead := i == 0":
				sawHead = sawSkip
			case s == "q.callers = append(q.callers[:i], q.callers[i+1:]...)":
				sawDelete = sawHead
			}
		}
		idx0 = TriOf(sawSkip && sawHead && sawDelete)
		cl := c14ReadyCloses(f, rem)
		switch len(cl) {
		case 0:
			wake, wakeShow, onlyHead = "(some .none)", "none", Yes
		case 1:
			whereWake = c14Where(f, cl[0])
			switch f.Str(cl[0].Args[0]) {
			case "q.callers[0].ready":
				wake, wakeShow = "(some .next)", "next"
			case "q.callers[len(q.callers)-1].ready":
				wake, wakeShow = "(some .last)", "last"
			}
			// the enclosing if statement inside the loop body
			for _, st := range loop.Body.List {
				if is, ok := st.(*ast.IfStmt); ok && is.Pos() <= cl[0].Pos() && cl[0].End() <= is.End() {
					switch f.Str(is.Cond) {
					case "wasHead && len(q.callers) > 0":
						onlyHead = Yes
					case "len(q.callers) > 0":
						onlyHead = No
					}
					if len(is.Body.List) != 1 || is.Else != nil {
						onlyHead = Unknown
					}
				}
			}
		}
	}
	fs.Raw("wake", wake, wakeShow, whereWake)
	fs.Tri("wakeOnlyIfHead", onlyHead, whereWake)
	fs.Tri("wasHeadIsIndexZero", idx0, c14Where(f, rem))

	// Lock: select { case <-c.ready: …watchdog… ; case <-ctx.Done(): q.remove(lockID) }
	cancel, ttl := Unknown, Unknown
	ast.Inspect(lockFn, func(n ast.Node) bool {
		cc, ok := n.(*ast.CommClause)
		if !ok || cc.Comm == nil {
			return true
		}
		has := false
		for _, st := range cc.Body {
			if es, ok := st.(*ast.ExprStmt); ok && f.Str(es.X) == "q.remove(lockID)" {
				has = true
			}
		}
		switch f.Str(cc.Comm) {
		case "<-ctx.Done()":
			cancel = TriOf(has)
		case "<-t.C":
			ttl = TriOf(has)
		}
		return true
	})
	fs.Tri("cancelRemoves", cancel, c14Where(f, lockFn))
	fs.Tri("ttlRemoves", ttl, c14Where(f, lockFn))
	unl := Unknown
	for _, st := range unlockFn.Body.List {
		if is, ok := st.(*ast.IfStmt); ok && f.Str(is.Cond) == "!q.remove(lockID)" {
			unl = Yes
		}
	}
	if unl == Unknown && len(f.Calls(unlockFn, "q.remove")) == 0 {
		unl = No
	}
	fs.Tri("unlockRemoves", unl, c14Where(f, unlockFn))

	// where caller ids come from: uuid.NewString() in Lock (globally unique) or a per-queue counter
	idAssigns, counterAssign := 0, false
	ast.Inspect(f.AST, func(n ast.Node) bool {
		as, ok := n.(*ast.AssignStmt)
		if !ok {
			return true
		}
		for i, l := range as.Lhs {
			if sel, ok := l.(*ast.SelectorExpr); ok && sel.Sel.Name == "id" {
				idAssigns++
				if i < len(as.Rhs) && strings.HasPrefix(f.Str(as.Rhs[i]), "strconv.Format") {
					counterAssign = true
				}
			}
		}
		return true
	})
	uuids := f.Calls(lockFn, "uuid.NewString")
	litOK := false
	ast.Inspect(lockFn, func(n ast.Node) bool {
		if cl, ok := n.(*ast.CompositeLit); ok && f.Str(cl.Type) == "caller" {
			for _, e := range cl.Elts {
				if f.Str(e) == "id: lockID" {
					litOK = true
				}
			}
		}
		return true
	})
	uuidAssigned := f.Contains(lockFn, "lockID = uuid.NewString()") || f.Contains(lockFn, "lockID := uuid.NewString()")
	switch {
	case len(uuids) == 1 && uuidAssigned && litOK && idAssigns == 0 && len(f.Calls(f.AST, "uuid.NewString")) == 1:
		fs.Raw("idSource", "(some true)", "uuid", c14Where(f, uuids[0]))
	case len(uuids) == 0 && counterAssign && idAssigns == 1:
		fs.Raw("idSource", "(some false)", "perQueueCounter", c14Where(f, enq))
	default:
		fs.Raw("idSource", "none", "unknown", c14Where(f, lockFn))
	}
}

func c14Gateway(fs *Facts) {
	g, err := Load(c14GwPath)
	if err != nil {
		fs.Err("%v", err)
		fs.Raw("ttlThresh", "none", "unknown", c14GwPath)
		fs.Raw("ttlFloor", "none", "unknown", c14GwPath)
		fs.Raw("ttlCap", "none", "unknown", c14GwPath)
		fs.Tri("gwWithoutCancel", Unknown, c14GwPath)
		return
	}
	th, fl, where := "none", "none", c14GwPath
	thS, flS := "unknown", "unknown"
	capV, capS, capWhere := "none", "unknown", c14GwPath
	if fn := g.Func("Gateway", "Lock"); fn != nil {
		where = c14Where(g, fn)
		found := 0
		ast.Inspect(fn, func(n ast.Node) bool {
			is, ok := n.(*ast.IfStmt)
			if !ok {
				return true
			}
			c := g.Str(is.Cond)
			if !strings.HasPrefix(c, "in.GetTTL() <= ") || len(is.Body.List) != 1 || is.Else != nil {
				return true
			}
			b := g.Str(is.Body.List[0])
			if !strings.HasPrefix(b, "in.TTL = ") {
				return true
			}
			t, e1 := strconv.ParseInt(strings.TrimPrefix(c, "in.GetTTL() <= "), 10, 64)
			v, e2 := strconv.ParseInt(strings.TrimPrefix(b, "in.TTL = "), 10, 64)
			if e1 == nil && e2 == nil {
				found++
				th, thS = "(some "+c14Int(t)+")", strconv.FormatInt(t, 10)
				fl, flS = "(some "+c14Int(v)+")", strconv.FormatInt(v, 10)
				where = c14Where(g, is)
			}
			return true
		})
		// any other write to in.TTL makes the floor unknown
		writes := 0
		ast.Inspect(fn, func(n ast.Node) bool {
			if as, ok := n.(*ast.AssignStmt); ok {
				for _, l := range as.Lhs {
					if g.Str(l) == "in.TTL" {
						writes++
					}
				}
			}
			return true
		})
		// upper clamp: `if in.GetTTL() > C { in.TTL = C }`, C an integer literal or a package-level
		// constant with an integer literal value
		caps := 0
		ast.Inspect(fn, func(n ast.Node) bool {
			is, ok := n.(*ast.IfStmt)
			if !ok {
				return true
			}
			c := g.Str(is.Cond)
			if !strings.HasPrefix(c, "in.GetTTL() > ") || len(is.Body.List) != 1 || is.Else != nil || is.Init != nil {
				return true
			}
			b := g.Str(is.Body.List[0])
			if !strings.HasPrefix(b, "in.TTL = ") {
				return true
			}
			lhs, rhs := strings.TrimPrefix(c, "in.GetTTL() > "), strings.TrimPrefix(b, "in.TTL = ")
			if lhs != rhs {
				return true
			}
			if v, ok := c14IntConst(g, lhs); ok {
				caps++
				capV, capS = "(some (some "+c14Int(v)+"))", strconv.FormatInt(v, 10)
				capWhere = c14Where(g, is)
			}
			return true
		})
		switch {
		case found != 1 || writes != 1+caps || caps > 1:
			th, fl, thS, flS = "none", "none", "unknown", "unknown"
			capV, capS = "none", "unknown"
		case caps == 0:
			capV, capS, capWhere = "(some none)", "none", where
		}
		// the duration handed to the locker is exactly time.Duration(in.GetTTL())*time.Millisecond
		if !g.Contains(fn, "time.Duration(in.GetTTL())*time.Millisecond") && !g.Contains(fn, "time.Duration(in.GetTTL()) * time.Millisecond") {
			capV, capS = "none", "unknown"
		}
	}
	fs.Raw("ttlThresh", th, thS, where)
	fs.Raw("ttlFloor", fl, flS, where)
	fs.Raw("ttlCap", capV, capS, capWhere)
	// the locker is called with context.WithoutCancel(ctx): a waiting Lock RPC is not abandoned
	woc := Unknown
	if fn := g.Func("Gateway", "Lock"); fn != nil {
		ctxVar := ""
		ast.Inspect(fn, func(n ast.Node) bool {
			if as, ok := n.(*ast.AssignStmt); ok && len(as.Lhs) == 1 && len(as.Rhs) == 1 &&
				g.Str(as.Rhs[0]) == "context.WithoutCancel(ctx)" {
				ctxVar = g.Str(as.Lhs[0])
			}
			return true
		})
		for _, c := range g.CallsSuffix(fn, ".Lock") {
			if len(c.Args) == 3 {
				woc = TriOf(ctxVar != "" && g.Str(c.Args[0]) == ctxVar)
			}
		}
	}
	fs.Tri("gwWithoutCancel", woc, where)
}

func c14Int(v int64) string {
	if v < 0 {
		return "(" + strconv.FormatInt(v, 10) + ")"
	}
	return strconv.FormatInt(v, 10)
}

// c14IntConst evaluates an integer literal, or a package-level constant declared with one.
func c14IntConst(g *File, e string) (int64, bool) {
	if v, err := strconv.ParseInt(e, 10, 64); err == nil {
		return v, true
	}
	var val int64
	found := 0
	for _, d := range g.AST.Decls {
		gd, ok := d.(*ast.GenDecl)
		if !ok || gd.Tok != token.CONST {
			continue
		}
		for _, sp := range gd.Specs {
			vs, ok := sp.(*ast.ValueSpec)
			if !ok {
				continue
			}
			for i, n := range vs.Names {
				if n.Name != e || i >= len(vs.Values) {
					continue
				}
				if bl, ok := vs.Values[i].(*ast.BasicLit); ok && bl.Kind == token.INT {
					if v, err := strconv.ParseInt(strings.ReplaceAll(bl.Value, "_", ""), 10, 64); err == nil {
						val = v
						found++
					}
				}
			}
		}
	}
	return val, found == 1
}
