package main

import (
	"go/ast"
)

// c07Locals lists the variables a function declares (receiver, parameters, results, then every
// local in order of declaration).  go/parser resolves identifiers inside a file, so every use
// of a local points at the object of its declaration.
func c07Locals(fd *ast.FuncDecl) []*ast.Object {
	var out []*ast.Object
	seen := map[*ast.Object]bool{}
	ast.Inspect(fd, func(n ast.Node) bool {
		id, ok := n.(*ast.Ident)
		if !ok || id.Obj == nil || id.Obj.Kind != ast.Var || id.Name == "_" {
			return true
		}
		if id.Obj.Pos() == id.Pos() && !seen[id.Obj] { // the declaring occurrence
			seen[id.Obj] = true
			out = append(out, id.Obj)
		}
		return true
	})
	return out
}

// c07Canon renames the locals of fd to the reference names (the names the patterns of this
// package are written with), position by position, so that a pattern keeps matching when a
// variable, parameter or receiver is merely renamed.  When the function declares a different
// number of variables nothing is renamed and the patterns decide.
func c07Canon(fd *ast.FuncDecl, ref []string) {
	if fd == nil {
		return
	}
	objs := c07Locals(fd)
	if len(objs) != len(ref) {
		return
	}
	to := map[*ast.Object]string{}
	for i, o := range objs {
		to[o] = ref[i]
	}
	ast.Inspect(fd, func(n ast.Node) bool {
		if id, ok := n.(*ast.Ident); ok && id.Obj != nil {
			if nm, ok := to[id.Obj]; ok {
				id.Name = nm
			}
		}
		return true
	})
}

func c07LocalNames(fd *ast.FuncDecl) []string {
	var out []string
	for _, o := range c07Locals(fd) {
		out = append(out, o.Name)
	}
	return out
}
