package main

import (
	"go/ast"
	"go/token"
	"strings"
)

// C04 facts: which checks the reader performs, and in which order, on untrusted bytes.
func init() {
	Register("C04", Extractor{Import: "Hv.Props.C04", Type: "Hv.C04.Facts", Run: func(fs *Facts) {
		ty, e1 := Load(c01Types)
		bl, e2 := Load(c01Block)
		rd, e3 := Load(c01Reader)
		for _, e := range []error{e1, e2, e3} {
			if e != nil {
				fs.Err("%v", e)
			}
		}
		c04Header(fs, ty)
		c04Entry(fs, ty)
		c04ParseBlock(fs, bl, ty)
		c04ReadNextBlock(fs, rd)
	}})
}

// c04IfReturns: the if statements directly in a function body (any depth) whose body ends in a return.
func c04Ifs(f *File, body ast.Node) []*ast.IfStmt {
	var out []*ast.IfStmt
	ast.Inspect(body, func(x ast.Node) bool {
		if is, ok := x.(*ast.IfStmt); ok {
			out = append(out, is)
		}
		return true
	})
	return out
}

func c04Cond(f *File, is *ast.IfStmt) string { return strings.ReplaceAll(f.Str(is.Cond), " ", "") }

func c04RetMentions(f *File, is *ast.IfStmt, what string) bool {
	if is.Body == nil || len(is.Body.List) == 0 {
		return false
	}
	r, ok := is.Body.List[len(is.Body.List)-1].(*ast.ReturnStmt)
	return ok && strings.Contains(f.Str(r), what)
}

func c04Header(fs *Facts, f *File) {
	if f == nil || f.Func("FileHeader", "Deserialize") == nil {
		fs.Tri("checksMagic", Unknown, c01Types)
		fs.Tri("checksVersion", Unknown, c01Types)
		return
	}
	fd := f.Func("FileHeader", "Deserialize")
	magic, ver := false, false
	for _, is := range c04Ifs(f, fd.Body) {
		c := c04Cond(f, is)
		if c == "string(h.Magic[:])!=MagicBytes" && c04RetMentions(f, is, "ErrInvalidMagic") {
			magic = true
		}
		if (c == "h.Version!=Version2&&h.Version!=Version3" || c == "h.Version!=Version3&&h.Version!=Version2") && c04RetMentions(f, is, "ErrUnsupportedVer") {
			ver = true
		}
	}
	where := c01Types + ":" + itoa(f.Line(fd))
	fs.Tri("checksMagic", Tri3(magic, !f.Contains(fd.Body, "MagicBytes")), where)
	fs.Tri("checksVersion", Tri3(ver, !f.Contains(fd.Body, "ErrUnsupportedVer")), where)
}

func c04Entry(fs *Facts, f *File) {
	if f == nil || f.Func("Entry", "Deserialize") == nil {
		fs.OptNat("entryBoundsChecks", 0, false, c01Types)
		fs.Tri("rejectsEmptyKeyOnRead", Unknown, c01Types)
		return
	}
	fd := f.Func("Entry", "Deserialize")
	want := map[string]bool{"len(buf)<7": false, "len(buf)<offset+keyLen+4": false, "len(buf)<offset+dataLen": false}
	empty := false
	for _, is := range c04Ifs(f, fd.Body) {
		c := c04Cond(f, is)
		if _, ok := want[c]; ok && c04RetMentions(f, is, "ErrCorruptedEntry") {
			want[c] = true
		}
		if (c == `e.Key==""` || c == "len(e.Key)==0" || c == "keyLen==0") && c04RetMentions(f, is, "ErrEmptyKey") {
			empty = true
		}
	}
	n := 0
	for _, v := range want {
		if v {
			n++
		}
	}
	where := c01Types + ":" + itoa(f.Line(fd))
	fs.OptNat("entryBoundsChecks", n, true, where)
	fs.Tri("rejectsEmptyKeyOnRead", Tri3(empty, !f.Contains(fd.Body, "ErrEmptyKey")), where)
}

func c04ParseBlock(fs *Facts, f *File, ty *File) {
	names := []string{"validatesCrc", "crcBeforeDecompress", "validatesULen", "boundsDecodedLen", "parseConsumesAll"}
	unk := func() {
		for _, n := range names {
			fs.Tri(n, Unknown, c01Block)
		}
	}
	if f == nil || ty == nil {
		unk()
		return
	}
	fd := f.Func("", "ParseBlock")
	if fd == nil {
		unk()
		return
	}
	// ValidateChecksum / CalculateChecksum must be the CRC-32 IEEE comparison
	vc, cc := ty.Func("", "ValidateChecksum"), ty.Func("", "CalculateChecksum")
	crcFn := vc != nil && cc != nil && ty.Contains(vc.Body, "CalculateChecksum(data) == expected") && ty.Contains(cc.Body, "crc32.ChecksumIEEE(data)")
	dec := f.Calls(fd.Body, "snappyCompressor.Decompress")
	if len(dec) != 1 {
		unk()
		return
	}
	decPos := dec[0].Pos()
	crc, crcBefore, ulen, dlen, all := false, false, false, false, false
	dlenSeen := false
	var loop token.Pos
	ast.Inspect(fd.Body, func(x ast.Node) bool {
		switch fr := x.(type) { // the entry loop: classic three-clause form or `for range header.EntryCount`
		case *ast.ForStmt:
			if loop == token.NoPos {
				loop = fr.End()
			}
		case *ast.RangeStmt:
			if loop == token.NoPos && strings.Contains(f.Str(fr.X), "EntryCount") {
				loop = fr.End()
			}
		}
		return true
	})
	for _, is := range c04Ifs(f, fd.Body) {
		c := c04Cond(f, is)
		bad := c04RetMentions(f, is, "ErrCorruptedBlock")
		switch {
		case c == "!ValidateChecksum(compressedData,header.Checksum)" && bad:
			crc = crcFn
			crcBefore = is.Pos() < decPos
		case c == "uint32(len(uncompressed))!=header.UncompressedSize" && bad && is.Pos() > decPos:
			ulen = true
		case is.Pos() < decPos && strings.Contains(c, "len(compressedData)") && is.Init != nil && strings.Contains(f.Str(is.Init), "snappy.DecodedLen"):
			// the WHOLE condition must be `<err> == nil && <dLen> > 32*len(compressedData)+64`, with <dLen>, <err>
			// the results of snappy.DecodedLen(compressedData) in the if's init; anything else is not the modelled guard
			dlenSeen = true
			as, okA := is.Init.(*ast.AssignStmt)
			be, okB := is.Cond.(*ast.BinaryExpr)
			if okA && okB && bad && len(as.Lhs) == 2 && len(as.Rhs) == 1 && strings.ReplaceAll(f.Str(as.Rhs[0]), " ", "") == "snappy.DecodedLen(compressedData)" && be.Op == token.LAND {
				lv, ev := f.Str(as.Lhs[0]), f.Str(as.Lhs[1])
				l, okL := be.X.(*ast.BinaryExpr)
				r, okR := be.Y.(*ast.BinaryExpr)
				if okL && okR && l.Op == token.EQL && f.Str(l.X) == ev && f.Str(l.Y) == "nil" &&
					r.Op == token.GTR && f.Str(r.X) == lv && strings.ReplaceAll(f.Str(r.Y), " ", "") == "32*len(compressedData)+64" {
					dlen = true
				}
			}
		case bad && loop != token.NoPos && is.Pos() > loop && (c == "offset!=len(uncompressed)" || c == "len(uncompressed)!=offset"):
			all = true
		}
	}
	where := c01Block + ":" + itoa(f.Line(fd))
	fs.Tri("validatesCrc", Tri3(crc, !f.Contains(fd.Body, "Checksum")), where)
	fs.Tri("crcBeforeDecompress", ShapeTri(crcBefore), where)
	fs.Tri("validatesULen", Tri3(ulen, !f.Contains(fd.Body, "UncompressedSize")), where)
	if dlenSeen && !dlen {
		fs.Tri("boundsDecodedLen", Unknown, where) // a guard of another shape: not the one alloc_bounded is proved for
	} else {
		fs.Tri("boundsDecodedLen", TriOf(dlen), where) // no DecodedLen guard at all: positively absent
	}
	// absent = nothing after the entry loop compares the consumed offset with the payload length
	fs.Tri("parseConsumesAll", Tri3(all, !strings.Contains(strings.ReplaceAll(f.Str(fd.Body), " ", ""), "!=len(uncompressed)")), where)
}

func c04ReadNextBlock(fs *Facts, f *File) {
	if f == nil || f.Func("FileReader", "readNextBlock") == nil {
		fs.Tri("shortHeaderIsEOF", Unknown, c01Reader)
		fs.Tri("boundsCompressedSize", Unknown, c01Reader)
		fs.Tri("shortPayloadIsEOF", Unknown, c01Reader)
		fs.Tri("zeroSizeIsEOF", Unknown, c01Reader)
		fs.Tri("zeroTailIsEOF", Unknown, c01Reader)
		return
	}
	fd := f.Func("FileReader", "readNextBlock")
	var mk *ast.CallExpr
	for _, c := range f.Calls(fd.Body, "make") {
		if len(c.Args) == 2 && f.Str(c.Args[0]) == "[]byte" && strings.Contains(f.Str(c.Args[1]), "CompressedSize") {
			mk = c
		}
	}
	short, bound := false, false
	for _, is := range c04Ifs(f, fd.Body) {
		c := c04Cond(f, is)
		if strings.HasSuffix(c, "<BlockHeaderSize") && c04RetMentions(f, is, "io.EOF") {
			// the compared variable must be the byte count returned by fr.file.Read(headerBuf)
			v := strings.TrimSuffix(c, "<BlockHeaderSize")
			for _, st := range f.Stmts(fd.Body) {
				if as, ok := st.(*ast.AssignStmt); ok && len(as.Lhs) == 2 && len(as.Rhs) == 1 && f.Str(as.Lhs[0]) == v &&
					strings.HasPrefix(strings.ReplaceAll(f.Str(as.Rhs[0]), " ", ""), "fr.file.Read(") {
					short = true
				}
			}
		}
		be, isCmp := is.Cond.(*ast.BinaryExpr)
		if mk != nil && isCmp && be.Op == token.GTR && is.Pos() < mk.Pos() && strings.Contains(f.Str(be.X), "blockHeader.CompressedSize") &&
			(strings.Contains(f.Str(be.Y), "remaining") || strings.Contains(f.Str(be.Y), "Size()")) && len(is.Body.List) > 0 {
			// every path of the body must return
			if _, ok := is.Body.List[len(is.Body.List)-1].(*ast.ReturnStmt); ok {
				bound = true
			}
		}
	}
	where := c01Reader + ":" + itoa(f.Line(fd))
	fs.Tri("shortHeaderIsEOF", ShapeTri(short), where)
	// ---- what a cut-short payload means, at both sites
	// site 1: the size pre-check (if present): its body either returns io.EOF unconditionally, or
	//         io.EOF only for remaining <= 0 and io.ErrUnexpectedEOF otherwise
	// site 2: the error of io.ReadFull: mapped (`errors.Is(err, io.ErrUnexpectedEOF)` → io.EOF) or returned as is
	site1, site2 := "absent", "unknown"
	for _, is := range c04Ifs(f, fd.Body) {
		be, isCmp := is.Cond.(*ast.BinaryExpr)
		if mk != nil && isCmp && be.Op == token.GTR && is.Pos() < mk.Pos() && strings.Contains(f.Str(be.X), "blockHeader.CompressedSize") {
			b := c29Norm(f, is.Body)
			switch {
			case b == "{returnnil,io.EOF}":
				site1 = "eof"
			case strings.Contains(b, "ifremaining<=0{returnnil,io.EOF}") && strings.HasSuffix(b, "returnnil,io.ErrUnexpectedEOF}"):
				site1 = "ueof"
			default:
				site1 = "unknown"
			}
		}
		if is.Init != nil && strings.Contains(c29Norm(f, is.Init), "io.ReadFull(fr.file,compressedData)") {
			b := c29Norm(f, is.Body)
			switch {
			case b == "{returnnil,err}":
				site2 = "ueof"
			case strings.Contains(b, "iferrors.Is(err,io.ErrUnexpectedEOF){returnnil,io.EOF}") && strings.HasSuffix(b, "returnnil,err}"):
				site2 = "eof"
			}
		}
	}
	switch {
	case site2 == "unknown" || site1 == "unknown":
		fs.Tri("shortPayloadIsEOF", Unknown, where)
	case site1 != "absent" && site1 != site2:
		fs.Tri("shortPayloadIsEOF", Unknown, where) // the two sites disagree
	default:
		fs.Tri("shortPayloadIsEOF", TriOf(site2 == "eof"), where)
	}
	if mk == nil {
		fs.Tri("boundsCompressedSize", Unknown, where)
	} else {
		fs.Tri("boundsCompressedSize", TriOf(bound), where)
	}
	c04ZeroRules(fs, f, fd, mk, where)
}

// c04ZeroRules reads the two end-of-data rules for a zero-filled tail.
//
//	zeroSizeIsEOF  yes = `if blockHeader.CompressedSize == 0 { return nil, io.EOF }` as a statement of the
//	               function body before the payload buffer is made; no = the function never compares
//	               CompressedSize with 0; anything else unknown.
//	zeroTailIsEOF  yes = the `if err != nil` that follows `block, err := ParseBlock(blockHeader, compressedData)`
//	               starts with `if fr.zeroFilledTail(compressedData) { return nil, io.EOF }` and zeroFilledTail is
//	               the function the model describes (last payload byte 0, every byte up to io.EOF is 0);
//	               no = readNextBlock does not mention zeroFilledTail; anything else unknown.
func c04ZeroRules(fs *Facts, f *File, fd *ast.FuncDecl, mk *ast.CallExpr, where string) {
	body := c29Norm(f, fd.Body)
	zs := Unknown
	switch {
	case !strings.Contains(body, "CompressedSize==0") && !strings.Contains(body, "0==blockHeader.CompressedSize") &&
		!strings.Contains(body, "CompressedSize<1") && !strings.Contains(body, "CompressedSize<=0"):
		zs = No
	default:
		for _, st := range fd.Body.List {
			is, ok := st.(*ast.IfStmt)
			if ok && is.Init == nil && is.Else == nil && mk != nil && is.Pos() < mk.Pos() &&
				c29Norm(f, is.Cond) == "blockHeader.CompressedSize==0" && c29Norm(f, is.Body) == "{returnnil,io.EOF}" {
				zs = Yes
			}
		}
	}
	fs.Tri("zeroSizeIsEOF", zs, where)

	zt := Unknown
	const want = "{iflen(payload)==0||payload[len(payload)-1]!=0{returnfalse}buf:=make([]byte,64*1024)" +
		"for{n,err:=fr.file.Read(buf)for_,b:=rangebuf[:n]{ifb!=0{returnfalse}}iferr!=nil{returnerrors.Is(err,io.EOF)}}}"
	switch {
	case !strings.Contains(body, "zeroFilledTail"):
		zt = No
	default:
		zf := f.Func("FileReader", "zeroFilledTail")
		site := false
		for i, st := range fd.Body.List {
			as, ok := st.(*ast.AssignStmt)
			if !ok || c29Norm(f, as) != "block,err:=ParseBlock(blockHeader,compressedData)" || i+1 >= len(fd.Body.List) {
				continue
			}
			is, ok := fd.Body.List[i+1].(*ast.IfStmt)
			if ok && is.Init == nil && c29Norm(f, is.Cond) == "err!=nil" &&
				c29Norm(f, is.Body) == "{iffr.zeroFilledTail(compressedData){returnnil,io.EOF}returnnil,err}" {
				site = true
			}
		}
		if site && zf != nil && len(zf.Type.Params.List) == 1 && len(zf.Type.Params.List[0].Names) == 1 &&
			zf.Type.Params.List[0].Names[0].Name == "payload" && c29Norm(f, zf.Type.Params.List[0].Type) == "[]byte" &&
			c29Norm(f, zf.Body) == want {
			zt = Yes
		}
	}
	fs.Tri("zeroTailIsEOF", zt, where)
}
