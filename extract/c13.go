package main

import (
	"go/ast"
	"go/token"
	"strconv"
	"strings"
)

// C13 facts (msgpackpatch + swamp_patch.go):
//
//	validatesValues  yes: applySet / applyAppend / applyInc check op.Value with Parse (directly or
//	                 through a helper whose body calls Parse) before path.Resolve, AND
//	                 extractTopLevelFields checks every field value the same way and rejects
//	                 trailing bytes;  no: none of these;  unknown: anything in between.
//	nanCompare       equal: cmpFloat64 is `a<b → -1, a>b → 1, else 0` and compareLeafBytes calls it
//	                 unguarded (NaN compares 0);  neverEqual: the classFloat case returns an error
//	                 when an operand is NaN before calling it.
//	incFixint        widen64: encodeIntWithCode / encodeUintWithCode keep int8..int64 / uint8..uint64
//	                 and send every other code (the fixints) to EncodeInt64 / EncodeUint64.
//	dupKey           first: findField returns inside its range loop on the first equal key.
//	magic0, magic1   the two prefix constants of swamp_patch.go.
const c13Dir = "app/core/hydra/swamp/treasure/msgpackpatch/"

func init() {
	Register("C13", Extractor{Import: "Hv.Props.C13", Type: "Hv.C13.Facts", Run: func(fs *Facts) {
		c13Validates(fs)
		c13Nan(fs)
		c13IncRule(fs)
		c13Dup(fs)
		c13Rmval(fs)
		c13Magic(fs)
		c13StatusMap(fs)
		c13Wire(fs)
		c13SeedMap(fs)
	}})
}

// does fd contain, before its first `path.Resolve(` call, an if-statement whose init/cond calls
// one of `validators` on `arg` and whose body returns?
func c13GuardBefore(f *File, fd *ast.FuncDecl, validators map[string]bool, arg string, limit token.Pos) (bool, int) {
	found, line := false, 0
	ast.Inspect(fd.Body, func(n ast.Node) bool {
		is, ok := n.(*ast.IfStmt)
		if !ok || (limit.IsValid() && is.Pos() > limit) {
			return true
		}
		var calls []*ast.CallExpr
		for v := range validators {
			if is.Init != nil {
				calls = append(calls, f.Calls(is.Init, v)...)
			}
			calls = append(calls, f.Calls(is.Cond, v)...)
		}
		for _, c := range calls {
			if len(c.Args) == 1 && f.Str(c.Args[0]) == arg && c13Returns(is.Body) {
				found, line = true, f.Line(is)
			}
		}
		return true
	})
	return found, line
}

func c13Returns(b *ast.BlockStmt) bool {
	for _, s := range b.List {
		if _, ok := s.(*ast.ReturnStmt); ok {
			return true
		}
	}
	return false
}

func c13FirstCall(f *File, fd *ast.FuncDecl, name string) token.Pos {
	cs := f.Calls(fd.Body, name)
	if len(cs) == 0 {
		return token.NoPos
	}
	p := cs[0].Pos()
	for _, c := range cs {
		if c.Pos() < p {
			p = c.Pos()
		}
	}
	return p
}

func c13Validates(fs *Facts) {
	const name = "validatesValues"
	files := map[string]*File{}
	for _, n := range []string{"apply.go", "append.go", "inc.go", "merge.go"} {
		f, err := Load(c13Dir + n)
		if err != nil {
			fs.Err("%v", err)
			fs.Tri(name, Unknown, c13Dir+n)
			return
		}
		files[n] = f
	}
	// validators: Parse itself, plus any package-level helper `func h(x []byte) error` whose body calls Parse
	validators := map[string]bool{"Parse": true}
	for _, f := range files {
		for _, d := range f.AST.Decls {
			fd, ok := d.(*ast.FuncDecl)
			if !ok || fd.Recv != nil || fd.Body == nil || fd.Type.Params == nil || len(fd.Type.Params.List) != 1 {
				continue
			}
			if f.Str(fd.Type.Params.List[0].Type) != "[]byte" || fd.Type.Results == nil || len(fd.Type.Results.List) != 1 ||
				f.Str(fd.Type.Results.List[0].Type) != "error" {
				continue
			}
			if len(f.Calls(fd.Body, "Parse")) > 0 {
				validators[fd.Name.Name] = true
			}
		}
	}
	type site struct{ file, fn string }
	sites := []site{{"apply.go", "applySet"}, {"append.go", "applyAppend"}, {"inc.go", "applyInc"}}
	yes, no := 0, 0
	where := ""
	for _, s := range sites {
		f := files[s.file]
		fd := f.Func("", s.fn)
		if fd == nil || fd.Body == nil {
			fs.Tri(name, Unknown, c13Dir+s.file)
			return
		}
		res := c13FirstCall(f, fd, "path.Resolve")
		if !res.IsValid() {
			fs.Tri(name, Unknown, c13Dir+s.file+":"+itoa(f.Line(fd)))
			return
		}
		ok, line := c13GuardBefore(f, fd, validators, "op.Value", res)
		if ok {
			yes++
			where = c13Dir + s.file + ":" + itoa(line)
		} else {
			no++
			if where == "" {
				where = c13Dir + s.file + ":" + itoa(f.Line(fd))
			}
		}
	}
	// MERGE: per-field validation inside the loop of extractTopLevelFields + trailing-bytes check after it
	mf := files["merge.go"]
	ex := mf.Func("", "extractTopLevelFields")
	if ex == nil || ex.Body == nil || len(mf.Calls(ex.Body, "dec.Skip")) == 0 {
		fs.Tri(name, Unknown, c13Dir+"merge.go")
		return
	}
	perField, trailing := false, false
	ast.Inspect(ex.Body, func(n ast.Node) bool {
		switch x := n.(type) {
		case *ast.ForStmt:
			for v := range validators {
				for _, c := range mf.Calls(x.Body, v) {
					if len(c.Args) == 1 && strings.HasPrefix(mf.Str(c.Args[0]), "blob[") {
						perField = true
					}
				}
			}
		case *ast.IfStmt:
			if mf.Str(x.Cond) == "r.Len() != 0" && c13Returns(x.Body) {
				trailing = true
			}
		}
		return true
	})
	if perField && trailing {
		yes++
	} else if !perField && !trailing {
		no++
	} else {
		fs.Tri(name, Unknown, c13Dir+"merge.go:"+itoa(mf.Line(ex)))
		return
	}
	switch {
	case no == 0:
		fs.Tri(name, Yes, where)
	case yes == 0:
		fs.Tri(name, No, where)
	default:
		fs.Tri(name, Unknown, where)
	}
}

func c13Nan(fs *Facts) {
	const name = "nanCompare"
	const path = c13Dir + "condition.go"
	f, err := Load(path)
	if err != nil {
		fs.Err("%v", err)
		fs.Enum(name, "unknown", path)
		return
	}
	cmp := f.Func("", "cmpFloat64")
	cl := f.Func("", "compareLeafBytes")
	if cmp == nil || cl == nil || cmp.Body == nil || cl.Body == nil {
		fs.Enum(name, "unknown", path)
		return
	}
	// cmpFloat64: `switch { case a < b: return -1; case a > b: return 1 }; return 0`
	shape := strings.Join(strings.Fields(f.Str(cmp.Body)), " ")
	plain := strings.Contains(shape, "case a < b: return -1") && strings.Contains(shape, "case a > b: return 1") &&
		strings.HasSuffix(strings.TrimSuffix(strings.TrimSpace(shape), "}"), "return 0 ") &&
		!strings.Contains(shape, "NaN") && !strings.Contains(shape, "!=")
	// compareLeafBytes: the `case classFloat:` clause
	var clause *ast.CaseClause
	ast.Inspect(cl.Body, func(n ast.Node) bool {
		if cc, ok := n.(*ast.CaseClause); ok && len(cc.List) == 1 && f.Str(cc.List[0]) == "classFloat" {
			clause = cc
		}
		return true
	})
	if clause == nil || len(clause.Body) == 0 {
		fs.Enum(name, "unknown", path+":"+itoa(f.Line(cl)))
		return
	}
	where := path + ":" + itoa(f.Line(clause))
	// structural reading of the clause: [bool definitions | NaN guards]* ; return cmpFloat64(X, Y), …
	last, ok := clause.Body[len(clause.Body)-1].(*ast.ReturnStmt)
	if !ok || len(last.Results) != 2 {
		fs.Enum(name, "unknown", where)
		return
	}
	call, ok := last.Results[0].(*ast.CallExpr)
	if !ok || len(call.Args) != 2 || f.Str(call.Fun) != "cmpFloat64" {
		fs.Enum(name, "unknown", where)
		return
	}
	xa, okA := call.Args[0].(*ast.Ident)
	xb, okB := call.Args[1].(*ast.Ident)
	if !okA || !okB {
		fs.Enum(name, "unknown", where)
		return
	}
	env := map[string]ast.Expr{}
	define := func(st ast.Stmt) bool {
		as, ok := st.(*ast.AssignStmt)
		if !ok || as.Tok != token.DEFINE || len(as.Lhs) != 1 || len(as.Rhs) != 1 {
			return false
		}
		id, ok := as.Lhs[0].(*ast.Ident)
		if !ok || id.Name == xa.Name || id.Name == xb.Name {
			return false
		}
		env[id.Name] = as.Rhs[0]
		return true
	}
	guarded := map[string]bool{}
	guardLine := 0
	for _, st := range clause.Body[:len(clause.Body)-1] {
		if define(st) {
			continue
		}
		is, ok := st.(*ast.IfStmt)
		if !ok || is.Else != nil {
			fs.Enum(name, "unknown", where)
			return
		}
		if is.Init != nil && !define(is.Init) {
			fs.Enum(name, "unknown", where)
			return
		}
		ops, pure := c13NanOperands(is.Cond, env, 0)
		errRet := false
		if len(is.Body.List) == 1 {
			if rr, ok := is.Body.List[0].(*ast.ReturnStmt); ok && len(rr.Results) == 2 {
				if id, isId := rr.Results[1].(*ast.Ident); !isId || id.Name != "nil" {
					errRet = true
				}
			}
		}
		if !pure || !errRet {
			fs.Enum(name, "unknown", where)
			return
		}
		for o := range ops {
			guarded[o] = true
		}
		guardLine = f.Line(is)
	}
	switch {
	case guarded[xa.Name] && guarded[xb.Name]:
		fs.Enum(name, "neverEqual", path+":"+itoa(guardLine))
	case len(guarded) == 0 && len(clause.Body) == 1 && plain:
		fs.Enum(name, "equal", where)
	default:
		fs.Enum(name, "unknown", where)
	}
}

// c13NanOperands reads a boolean expression that is true iff one of a set of float variables is
// NaN: `math.IsNaN(v)`, `v != v`, `||` of such, parentheses, and locally defined names for them.
// pure = false: the expression is anything else.
func c13NanOperands(e ast.Expr, env map[string]ast.Expr, depth int) (map[string]bool, bool) {
	if depth > 8 {
		return nil, false
	}
	switch x := e.(type) {
	case *ast.ParenExpr:
		return c13NanOperands(x.X, env, depth+1)
	case *ast.Ident:
		if d, ok := env[x.Name]; ok {
			return c13NanOperands(d, env, depth+1)
		}
	case *ast.BinaryExpr:
		if x.Op == token.LOR {
			l, ok1 := c13NanOperands(x.X, env, depth+1)
			r, ok2 := c13NanOperands(x.Y, env, depth+1)
			if !ok1 || !ok2 {
				return nil, false
			}
			for k := range r {
				l[k] = true
			}
			return l, true
		}
		if x.Op == token.NEQ {
			a, ok1 := x.X.(*ast.Ident)
			b, ok2 := x.Y.(*ast.Ident)
			if ok1 && ok2 && a.Name == b.Name {
				return map[string]bool{a.Name: true}, true
			}
		}
	case *ast.CallExpr:
		if sel, ok := x.Fun.(*ast.SelectorExpr); ok && len(x.Args) == 1 {
			if pk, ok := sel.X.(*ast.Ident); ok && pk.Name == "math" && sel.Sel.Name == "IsNaN" {
				if v, ok := x.Args[0].(*ast.Ident); ok {
					return map[string]bool{v.Name: true}, true
				}
			}
		}
	}
	return nil, false
}

func c13IncRule(fs *Facts) {
	const name = "incFixint"
	const path = c13Dir + "numeric.go"
	f, err := Load(path)
	if err != nil {
		fs.Err("%v", err)
		fs.Enum(name, "unknown", path)
		return
	}
	check := func(fn string, want map[string]string, def string) bool {
		fd := f.Func("", fn)
		if fd == nil || fd.Body == nil {
			return false
		}
		var sw *ast.SwitchStmt
		ast.Inspect(fd.Body, func(n ast.Node) bool {
			if s, ok := n.(*ast.SwitchStmt); ok && sw == nil && s.Tag != nil && f.Str(s.Tag) == "code" {
				sw = s
			}
			return true
		})
		if sw == nil {
			return false
		}
		seen := 0
		okDef := false
		for _, st := range sw.Body.List {
			cc := st.(*ast.CaseClause)
			body := strings.Join(strings.Fields(f.Str(&ast.BlockStmt{List: cc.Body})), " ")
			if cc.List == nil {
				okDef = strings.Contains(body, def)
				continue
			}
			if len(cc.List) != 1 {
				return false
			}
			w, ok := want[f.Str(cc.List[0])]
			if !ok || !strings.Contains(body, w) {
				return false
			}
			seen++
		}
		return seen == len(want) && okDef
	}
	okI := check("encodeIntWithCode", map[string]string{"codeInt8": "enc.EncodeInt8(int8(n))", "codeInt16": "enc.EncodeInt16(int16(n))",
		"codeInt32": "enc.EncodeInt32(int32(n))", "codeInt64": "enc.EncodeInt64(n)"}, "enc.EncodeInt64(n)")
	okU := check("encodeUintWithCode", map[string]string{"codeUint8": "enc.EncodeUint8(uint8(n))", "codeUint16": "enc.EncodeUint16(uint16(n))",
		"codeUint32": "enc.EncodeUint32(uint32(n))", "codeUint64": "enc.EncodeUint64(n)"}, "enc.EncodeUint64(n)")
	fl := f.Func("", "encodeFloatWithCode")
	okF := fl != nil && fl.Body != nil && f.Contains(fl.Body, "code == codeFloat32") && f.Contains(fl.Body, "enc.EncodeFloat32(float32(n))") &&
		f.Contains(fl.Body, "enc.EncodeFloat64(n)")
	if okI && okU && okF {
		fs.Enum(name, "widen64", path)
	} else {
		fs.Enum(name, "unknown", path)
	}
}

func c13Dup(fs *Facts) {
	const name = "dupKey"
	const path = c13Dir + "path.go"
	f, err := Load(path)
	if err != nil {
		fs.Err("%v", err)
		fs.Enum(name, "unknown", path)
		return
	}
	fd := f.Func("", "findField")
	if fd == nil || fd.Body == nil || len(fd.Body.List) != 2 {
		fs.Enum(name, "unknown", path)
		return
	}
	rg, ok := fd.Body.List[0].(*ast.RangeStmt)
	if !ok || f.Str(rg.X) != "m.MapFields" || rg.Key == nil || len(rg.Body.List) != 1 {
		fs.Enum(name, "unknown", path+":"+itoa(f.Line(fd)))
		return
	}
	is, ok := rg.Body.List[0].(*ast.IfStmt)
	if !ok || f.Str(is.Cond) != "f.Key == name" || len(is.Body.List) != 1 {
		fs.Enum(name, "unknown", path+":"+itoa(f.Line(rg)))
		return
	}
	if r, ok := is.Body.List[0].(*ast.ReturnStmt); ok && len(r.Results) == 1 && f.Str(r.Results[0]) == f.Str(rg.Key) {
		fs.Enum(name, "first", path+":"+itoa(f.Line(r)))
		return
	}
	fs.Enum(name, "unknown", path+":"+itoa(f.Line(is)))
}

// removeValCompare: scalarBytes — the loop of applyRemoveVal skips every non-leaf element
// (`if item.Kind != KindLeaf { continue }`) and compares leafBytes with op.Value;
// canonical — it compares elementBytes(item, orig) with canonicalValue(op.Value), where
// elementBytes serialises containers and canonicalValue is Parse + Serialize for map/array codes.
func c13Rmval(fs *Facts) {
	const name = "removeValCompare"
	const path = c13Dir + "remove.go"
	f, err := Load(path)
	if err != nil {
		fs.Err("%v", err)
		fs.Enum(name, "unknown", path)
		return
	}
	fd := f.Func("", "applyRemoveVal")
	if fd == nil || fd.Body == nil {
		fs.Enum(name, "unknown", path)
		return
	}
	var loop *ast.RangeStmt
	ast.Inspect(fd.Body, func(n ast.Node) bool {
		if r, ok := n.(*ast.RangeStmt); ok && f.Str(r.X) == "cur.Target.ArrayItems" {
			loop = r
		}
		return true
	})
	if loop == nil {
		fs.Enum(name, "unknown", path+":"+itoa(f.Line(fd)))
		return
	}
	body := strings.Join(strings.Fields(f.Str(loop.Body)), " ")
	where := path + ":" + itoa(f.Line(loop))
	skips := strings.Contains(body, "if item.Kind != KindLeaf { continue }")
	rawCmp := strings.Contains(body, "bytes.Equal(raw, op.Value)") && strings.Contains(body, "raw := leafBytes(item, orig)")
	canonCmp := strings.Contains(body, "elementBytes(item, orig)") && strings.Contains(body, "bytes.Equal(have, want)") &&
		f.Contains(fd.Body, "want := canonicalValue(op.Value)")
	eb, cv := f.Func("", "elementBytes"), f.Func("", "canonicalValue")
	helpers := eb != nil && cv != nil && f.Contains(eb.Body, "item.Serialize(orig)") && f.Contains(eb.Body, "canonicalValue(") &&
		f.Contains(cv.Body, "Parse(raw)") && f.Contains(cv.Body, "skel.Serialize(raw)") && f.Contains(cv.Body, "isMapCode(raw[0]) || isArrayCode(raw[0])")
	// first match only: the loop holds `if bytes.Equal(·, ·) { cur.Target.ArrayItems = append(…[:i], …[i+1:]...); return nil }`
	// (read from the syntax tree: the condition is the call itself, not a negation; the body removes index i and returns)
	first := false
	for _, st := range loop.Body.List {
		is, ok := st.(*ast.IfStmt)
		if !ok || is.Init != nil || is.Else != nil || len(is.Body.List) != 2 {
			continue
		}
		call, ok := is.Cond.(*ast.CallExpr)
		if !ok || f.Str(call.Fun) != "bytes.Equal" {
			continue
		}
		as, ok1 := is.Body.List[0].(*ast.AssignStmt)
		ret, ok2 := is.Body.List[1].(*ast.ReturnStmt)
		key, ok3 := loop.Key.(*ast.Ident)
		if !ok1 || !ok2 || !ok3 || len(as.Lhs) != 1 || len(as.Rhs) != 1 || len(ret.Results) != 1 || f.Str(ret.Results[0]) != "nil" {
			continue
		}
		i := key.Name
		if f.Str(as.Lhs[0]) == "cur.Target.ArrayItems" && as.Tok == token.ASSIGN &&
			strings.Join(strings.Fields(f.Str(as.Rhs[0])), "") == "append(cur.Target.ArrayItems[:"+i+"],cur.Target.ArrayItems["+i+"+1:]...)" {
			first = true
		}
	}
	// nothing else in the function touches the item list
	assigns := 0
	ast.Inspect(fd.Body, func(n ast.Node) bool {
		if as, ok := n.(*ast.AssignStmt); ok {
			for _, l := range as.Lhs {
				if f.Str(l) == "cur.Target.ArrayItems" {
					assigns++
				}
			}
		}
		return true
	})
	if !first || assigns != 1 {
		fs.Enum(name, "unknown", where)
		return
	}
	switch {
	case skips && rawCmp && !canonCmp:
		fs.Enum(name, "scalarBytes", where)
	case canonCmp && helpers && !skips:
		fs.Enum(name, "canonical", where)
	default:
		fs.Enum(name, "unknown", where)
	}
}

// stCond … stNonstr: the PatchFieldsStatus (its iota value) classifyPatchError returns for each
// msgpackpatch sentinel; seedDefault: the single byte of emptyMapMsgpack.
func c13StatusMap(fs *Facts) {
	const path = "app/core/hydra/swamp/swamp_patch.go"
	names := map[string]string{"ErrConditionNotMet": "stCond", "ErrTypeMismatch": "stType", "ErrPathInvalid": "stPath",
		"ErrInvalidOp": "stOp", "ErrInvalidMsgpack": "stMsgpack", "ErrNonStringKey": "stNonstr"}
	order := []string{"stCond", "stType", "stPath", "stOp", "stMsgpack", "stNonstr"}
	unknown := func() {
		for _, n := range order {
			fs.OptNat(n, 0, false, path)
		}
		fs.OptNat("seedDefault", 0, false, path)
	}
	f, err := Load(path)
	if err != nil {
		fs.Err("%v", err)
		unknown()
		return
	}
	// iota values of the PatchFieldsStatus constants
	codes := map[string]int{}
	for _, d := range f.AST.Decls {
		gd, ok := d.(*ast.GenDecl)
		if !ok || gd.Tok != token.CONST {
			continue
		}
		isStatus := false
		for i, sp := range gd.Specs {
			vs := sp.(*ast.ValueSpec)
			if i == 0 && vs.Type != nil && f.Str(vs.Type) == "PatchFieldsStatus" && len(vs.Values) == 1 && f.Str(vs.Values[0]) == "iota" {
				isStatus = true
			}
			if isStatus && len(vs.Names) == 1 && (i == 0 || (vs.Type == nil && len(vs.Values) == 0)) {
				codes[vs.Names[0].Name] = i
			}
		}
	}
	fd := f.Func("", "classifyPatchError")
	if fd == nil || fd.Body == nil || len(codes) == 0 {
		unknown()
		return
	}
	found := map[string]int{}
	lines := map[string]int{}
	seenDup := false
	ast.Inspect(fd.Body, func(n ast.Node) bool {
		cc, ok := n.(*ast.CaseClause)
		if !ok || len(cc.Body) != 1 {
			return true
		}
		ret, ok := cc.Body[0].(*ast.ReturnStmt)
		if !ok || len(ret.Results) != 1 {
			return true
		}
		code, ok := codes[f.Str(ret.Results[0])]
		if !ok {
			return true
		}
		for _, e := range cc.List {
			txt := f.Str(e)
			const pre = "errors.Is(err, msgpackpatch."
			if strings.HasPrefix(txt, pre) && strings.HasSuffix(txt, ")") {
				sentinel := txt[len(pre) : len(txt)-1]
				if fact, ok := names[sentinel]; ok {
					if _, dup := found[fact]; dup {
						seenDup = true
					}
					found[fact] = code
					lines[fact] = f.Line(cc)
				}
			}
		}
		return true
	})
	for _, fact := range order {
		c, ok := found[fact]
		fs.OptNat(fact, c, ok && !seenDup, path+":"+itoa(lines[fact]))
	}
	// emptyMapMsgpack = []byte{0x80}
	seedOK, seed, line := false, 0, 0
	ast.Inspect(f.AST, func(n ast.Node) bool {
		vs, ok := n.(*ast.ValueSpec)
		if !ok || len(vs.Names) != 1 || vs.Names[0].Name != "emptyMapMsgpack" || len(vs.Values) != 1 {
			return true
		}
		if cl, ok := vs.Values[0].(*ast.CompositeLit); ok && f.Str(cl.Type) == "[]byte" && len(cl.Elts) == 1 {
			if bl, ok := cl.Elts[0].(*ast.BasicLit); ok {
				if v, err := strconv.ParseInt(bl.Value, 0, 64); err == nil && v >= 0 && v < 256 {
					seedOK, seed, line = true, int(v), f.Line(vs)
				}
			}
		}
		return true
	})
	fs.OptNat("seedDefault", seed, seedOK, path+":"+itoa(line))
}

func c13Magic(fs *Facts) {
	const path = "app/core/hydra/swamp/swamp_patch.go"
	f, err := Load(path)
	if err != nil {
		fs.Err("%v", err)
		fs.OptNat("magic0", 0, false, path)
		fs.OptNat("magic1", 0, false, path)
		return
	}
	vals := map[string]int{}
	lines := map[string]int{}
	ast.Inspect(f.AST, func(n ast.Node) bool {
		vs, ok := n.(*ast.ValueSpec)
		if !ok {
			return true
		}
		for i, nm := range vs.Names {
			if (nm.Name == "patchMsgpackMagic0" || nm.Name == "patchMsgpackMagic1") && i < len(vs.Values) {
				if bl, ok := vs.Values[i].(*ast.BasicLit); ok && bl.Kind == token.INT {
					if v, err := strconv.ParseInt(bl.Value, 0, 64); err == nil && v >= 0 && v < 256 {
						vals[nm.Name] = int(v)
						lines[nm.Name] = f.Line(vs)
					}
				}
			}
		}
		return true
	})
	// both must also be what PatchFields compares against and what wrapMsgpackBody writes
	pf := f.Func("swamp", "PatchFields")
	wr := f.Func("", "wrapMsgpackBody")
	used := pf != nil && wr != nil && f.Contains(pf.Body, "raw[0] != patchMsgpackMagic0") && f.Contains(pf.Body, "raw[1] != patchMsgpackMagic1") &&
		f.Contains(wr.Body, "out[0] = patchMsgpackMagic0") && f.Contains(wr.Body, "out[1] = patchMsgpackMagic1")
	for _, nm := range []string{"patchMsgpackMagic0", "patchMsgpackMagic1"} {
		v, ok := vals[nm]
		fact := "magic" + nm[len(nm)-1:]
		fs.OptNat(fact, v, ok && used, path+":"+itoa(lines[nm]))
	}
}
