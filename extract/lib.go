// Fact translator: parses the anchored Go sources of /repo as they are on disk
// and emits one Lean file per property (lean/Hv/Generated/FactsCxx.lean).
// Every fact is a local syntactic pattern; when a pattern is not found the fact
// is `unknown` and the property's verdict becomes `undetermined`.
package main

import (
	"bytes"
	"fmt"
	"go/ast"
	"go/parser"
	"go/printer"
	"go/token"
	"os"
	"path/filepath"
	"sort"
	"strings"
)

var repoRoot = "/repo"

type File struct {
	Fset *token.FileSet
	AST  *ast.File
	Path string
	Src  []byte
}

func Load(rel string) (*File, error) {
	p := filepath.Join(repoRoot, rel)
	src, err := os.ReadFile(p)
	if err != nil {
		return nil, err
	}
	fset := token.NewFileSet()
	f, err := parser.ParseFile(fset, p, src, parser.ParseComments)
	if err != nil {
		return nil, err
	}
	return &File{Fset: fset, AST: f, Path: rel, Src: src}, nil
}

// Func finds a function or method by name; recv "" matches plain functions and any receiver.
func (f *File) Func(recv, name string) *ast.FuncDecl {
	for _, d := range f.AST.Decls {
		fd, ok := d.(*ast.FuncDecl)
		if !ok || fd.Name.Name != name {
			continue
		}
		if recv == "" {
			return fd
		}
		if fd.Recv != nil && len(fd.Recv.List) == 1 {
			t := fd.Recv.List[0].Type
			if s, ok := t.(*ast.StarExpr); ok {
				t = s.X
			}
			if id, ok := t.(*ast.Ident); ok && id.Name == recv {
				return fd
			}
			if ix, ok := t.(*ast.IndexExpr); ok {
				if id, ok := ix.X.(*ast.Ident); ok && id.Name == recv {
					return fd
				}
			}
		}
	}
	return nil
}

// Str renders a node as canonical source text (single line, gofmt spacing).
func (f *File) Str(n ast.Node) string {
	var b bytes.Buffer
	cfg := printer.Config{Mode: printer.RawFormat}
	_ = cfg.Fprint(&b, f.Fset, n)
	s := b.String()
	s = strings.Join(strings.Fields(s), " ")
	return s
}

func (f *File) Line(n ast.Node) int { return f.Fset.Position(n.Pos()).Line }

// Calls returns every call expression under n whose callee renders as one of names.
func (f *File) Calls(n ast.Node, names ...string) []*ast.CallExpr {
	var out []*ast.CallExpr
	if n == nil {
		return out
	}
	ast.Inspect(n, func(x ast.Node) bool {
		if c, ok := x.(*ast.CallExpr); ok {
			fn := f.Str(c.Fun)
			for _, nm := range names {
				if fn == nm {
					out = append(out, c)
				}
			}
		}
		return true
	})
	return out
}

// CallsSuffix: callee's rendered text ends with suffix (e.g. ".Lock").
func (f *File) CallsSuffix(n ast.Node, suffix string) []*ast.CallExpr {
	var out []*ast.CallExpr
	if n == nil {
		return out
	}
	ast.Inspect(n, func(x ast.Node) bool {
		if c, ok := x.(*ast.CallExpr); ok {
			if strings.HasSuffix(f.Str(c.Fun), suffix) {
				out = append(out, c)
			}
		}
		return true
	})
	return out
}

// Contains reports whether the rendered text of n contains sub.
func (f *File) Contains(n ast.Node, sub string) bool {
	if n == nil {
		return false
	}
	return strings.Contains(f.Str(n), sub)
}

// Stmts flattens all statements under n in source order.
func (f *File) Stmts(n ast.Node) []ast.Stmt {
	var out []ast.Stmt
	ast.Inspect(n, func(x ast.Node) bool {
		if s, ok := x.(ast.Stmt); ok {
			if _, isBlock := s.(*ast.BlockStmt); !isBlock {
				out = append(out, s)
			}
		}
		return true
	})
	return out
}

// ---- fact records -------------------------------------------------------

type Tri int

const (
	Unknown Tri = iota
	Yes
	No
)

func (t Tri) Lean() string {
	switch t {
	case Yes:
		return ".yes"
	case No:
		return ".no"
	}
	return ".unknown"
}
func (t Tri) String() string { return strings.TrimPrefix(t.Lean(), ".") }

func TriOf(b bool) Tri {
	if b {
		return Yes
	}
	return No
}

// Facts is an ordered set of named facts with Lean renderings.
type Facts struct {
	PID    string
	Names  []string
	Lean   map[string]string // Lean term
	Show   map[string]string // human/json rendering
	Where  map[string]string // file:line the fact was read from
	Errors []string
}

func NewFacts(pid string) *Facts {
	return &Facts{PID: pid, Lean: map[string]string{}, Show: map[string]string{}, Where: map[string]string{}}
}

func (fs *Facts) set(name, lean, show, where string) {
	if _, ok := fs.Lean[name]; !ok {
		fs.Names = append(fs.Names, name)
	}
	fs.Lean[name] = lean
	fs.Show[name] = show
	fs.Where[name] = where
}
func (fs *Facts) Tri(name string, t Tri, where string)  { fs.set(name, t.Lean(), t.String(), where) }
func (fs *Facts) Nat(name string, n int, where string)  { fs.set(name, fmt.Sprint(n), fmt.Sprint(n), where) }
func (fs *Facts) OptNat(name string, n int, ok bool, where string) {
	if ok {
		fs.set(name, fmt.Sprintf("(some %d)", n), fmt.Sprint(n), where)
	} else {
		fs.set(name, "none", "unknown", where)
	}
}

// Enum sets a fact whose Lean type is an inductive with constructors named by `val`
// ("unknown" must be one of them).
func (fs *Facts) Enum(name, val, where string) { fs.set(name, "."+val, val, where) }
func (fs *Facts) Raw(name, lean, show, where string) { fs.set(name, lean, show, where) }
func (fs *Facts) Err(format string, a ...any)  { fs.Errors = append(fs.Errors, fmt.Sprintf(format, a...)) }

// RenderLean writes `def Hv.Generated.factsCxx : Hv.Cxx.Facts := { … }`.
func (fs *Facts) RenderLean(importMod, typeName string) string {
	var b strings.Builder
	fmt.Fprintf(&b, "-- GENERATED by /verif/extract from /repo on every run; do not edit.\n")
	fmt.Fprintf(&b, "import %s\n\nnamespace Hv.Generated\n\n", importMod)
	fmt.Fprintf(&b, "def facts%s : %s where\n", fs.PID, typeName)
	for _, n := range fs.Names {
		fmt.Fprintf(&b, "  %s := %s", n, fs.Lean[n])
		if w := fs.Where[n]; w != "" {
			fmt.Fprintf(&b, "  -- %s", w)
		}
		b.WriteString("\n")
	}
	b.WriteString("\nend Hv.Generated\n")
	return b.String()
}

func (fs *Facts) JSON() string {
	var b strings.Builder
	b.WriteString("{")
	names := append([]string(nil), fs.Names...)
	sort.Strings(names)
	for i, n := range names {
		if i > 0 {
			b.WriteString(",")
		}
		fmt.Fprintf(&b, "%q:{\"value\":%q,\"where\":%q}", n, fs.Show[n], fs.Where[n])
	}
	b.WriteString("}")
	return b.String()
}

type Extractor struct {
	// Lean module that declares the Facts structure, and the structure's name.
	Import, Type string
	Run          func(fs *Facts)
}

var registry = map[string]Extractor{}

func Register(pid string, e Extractor) { registry[pid] = e }
