package main

import (
	"go/ast"
	"strings"
)

// C30: the comparison operator and the zero guard of every path that looks at a record's
// expiry, the index-membership guards, the patch-meta order, the wire output test.
// (The request-handler facts of C05/C06 are included for the correspondence run.)

const (
	c30Beacon     = "app/core/hydra/swamp/beacon/beacon.go"
	c30SwampPatch = "app/core/hydra/swamp/swamp_patch.go"
	c30PatchExp   = "app/core/hydra/swamp/swamp_patch_expired.go"
	c30Filter     = "app/server/gateway/filter_native.go"
)

func init() {
	Register("C30", Extractor{Import: "Hv.Props.C30", Type: "Hv.C30.Facts", Run: c30Run})
}

// c30Conj flattens `a && b && c` into its conjuncts (parentheses removed).
func c30Conj(e ast.Expr, out *[]ast.Expr) {
	for {
		p, ok := e.(*ast.ParenExpr)
		if !ok {
			break
		}
		e = p.X
	}
	if b, ok := e.(*ast.BinaryExpr); ok && b.Op.String() == "&&" {
		c30Conj(b.X, out)
		c30Conj(b.Y, out)
		return
	}
	*out = append(*out, e)
}

// site facts from the WHOLE condition: it must be exactly the conjunction of the allowed
// extra conjuncts (e.g. `counter < howMany`), at most one `v != 0` and exactly one comparison
// `v < now` / `v <= now` between the two bare identifiers.  Anything else that mentions v or
// now (`v < now-int64(time.Second)`, `v+1 < now`, `now > v` …) makes both facts unknown.
func c30Site(f *File, cond ast.Expr, v, now string, extra ...string) (Tri, Tri) {
	var cs []ast.Expr
	c30Conj(cond, &cs)
	guard, strict := No, Unknown
	cmp := 0
	for _, c := range cs {
		t := f.Str(c)
		switch {
		case t == v+" != 0":
			guard = Yes
		case t == v+" < "+now:
			strict = Yes
			cmp++
		case t == v+" <= "+now:
			strict = No
			cmp++
		default:
			ok := false
			for _, e := range extra {
				if t == e {
					ok = true
				}
			}
			if !ok {
				return Unknown, Unknown
			}
		}
	}
	if cmp != 1 {
		return Unknown, Unknown
	}
	return guard, strict
}

// c30NowExp: inside fd exactly one local is assigned (once) from time.Now().UTC().UnixNano() (or without
// UTC) and exactly one (once) from <x>.GetExpirationTime(); their names, whatever they are
func c30NowExp(f *File, fd *ast.FuncDecl) (nowName, expName string, ok bool) {
	nowN, expN := 0, 0
	assigned := map[string]int{}
	ast.Inspect(fd.Body, func(n ast.Node) bool {
		if as, isAs := n.(*ast.AssignStmt); isAs && len(as.Lhs) == 1 && len(as.Rhs) == 1 {
			id, isId := as.Lhs[0].(*ast.Ident)
			if !isId {
				return true
			}
			assigned[id.Name]++
			r := f.Str(as.Rhs[0])
			if r == "time.Now().UTC().UnixNano()" || r == "time.Now().UnixNano()" {
				nowN++
				nowName = id.Name
			}
			if strings.HasSuffix(r, ".GetExpirationTime()") {
				expN++
				expName = id.Name
			}
		}
		return true
	})
	ok = nowN == 1 && expN == 1 && assigned[nowName] == 1 && assigned[expName] == 1 && nowName != expName
	return
}

func c30Run(fs *Facts) {
	names := []string{"isExpiredGuard0", "isExpiredStrict", "shiftGuard0", "shiftStrict",
		"selectCapGuard0", "selectCapStrict", "coldBuildNe0", "addBeaconsNe0", "saveBranchNe0", "reindexNe0", "patchReaddNe0",
		"filterGuard0", "isEmptyEq0", "setZeroNone", "clearWins"}
	tr, e1 := Load(c06Treasure)
	bc, e2 := Load(c30Beacon)
	sw, e3 := Load(c06Swamp)
	sp, e4 := Load(c30SwampPatch)
	pe, e5 := Load(c30PatchExp)
	fl, e6 := Load(c30Filter)
	gw, e7 := Load(c06Gateway)
	if e1 != nil || e2 != nil || e3 != nil || e4 != nil || e5 != nil || e6 != nil || e7 != nil {
		fs.Err("cannot load anchors")
		for _, n := range names {
			fs.Tri(n, Unknown, "")
		}
		fs.Enum("wireGet", "unknown", "")
		fs.Raw("kv.encoding", ".unknown", "unknown", "")
		for _, n := range c06Names {
			fs.Raw("kv."+n, ".unknown", "unknown", "")
		}
		return
	}
	set := func(n string, t Tri, f *File, at ast.Node) {
		w := f.Path
		if at != nil {
			w = c06At(f, at)
		}
		fs.Tri(n, t, w)
	}

	// IsExpired: `if ExpirationTime == 0 { return false }` then `return ExpirationTime < now`
	{
		g, st := Unknown, Unknown
		var at ast.Node
		if fd := tr.Func("treasure", "IsExpired"); fd != nil {
			g = No
			at = fd
			for _, s := range tr.Stmts(fd.Body) {
				switch x := s.(type) {
				case *ast.IfStmt:
					if tr.Str(x.Cond) == "t.treasure.ExpirationTime == 0" && tr.Contains(x.Body, "return false") {
						g = Yes
					}
				case *ast.ReturnStmt:
					if len(x.Results) == 1 {
						r := tr.Str(x.Results[0])
						switch r {
						case "t.treasure.ExpirationTime < time.Now().UTC().UnixNano()", "t.treasure.ExpirationTime < time.Now().UnixNano()":
							st = Yes
						case "t.treasure.ExpirationTime <= time.Now().UTC().UnixNano()", "t.treasure.ExpirationTime <= time.Now().UnixNano()":
							st = No
						}
					}
				}
			}
		}
		set("isExpiredGuard0", g, tr, at)
		set("isExpiredStrict", st, tr, at)
	}
	// ShiftExpired / SelectExpiredForPatch: the if condition; SelectExpiredForPatchWithCap: `isExpired := …`
	siteIn := func(fn string, viaAssign bool) (Tri, Tri, ast.Node) {
		fd := bc.Func("beacon", fn)
		if fd == nil {
			return Unknown, Unknown, nil
		}
		var g, st Tri = Unknown, Unknown
		var at ast.Node = fd
		now, exp, ok := c30NowExp(bc, fd)
		if !ok {
			return Unknown, Unknown, at
		}
		ast.Inspect(fd.Body, func(n ast.Node) bool {
			switch x := n.(type) {
			case *ast.IfStmt:
				if !viaAssign && strings.Contains(bc.Str(x.Cond), "counter < howMany") && strings.Contains(bc.Str(x.Cond), exp) {
					g, st = c30Site(bc, x.Cond, exp, now, "counter < howMany")
					at = x
				}
			case *ast.AssignStmt:
				if viaAssign && len(x.Lhs) == 1 && bc.Str(x.Lhs[0]) == "isExpired" {
					g, st = c30Site(bc, x.Rhs[0], exp, now)
					at = x
				}
			}
			return true
		})
		return g, st, at
	}
	for _, s := range []struct {
		name, fn string
		assign   bool
	}{{"shift", "ShiftExpired", false}, {"selectCap", "SelectExpiredForPatchWithCap", true}} {
		g, st, at := siteIn(s.fn, s.assign)
		set(s.name+"Guard0", g, bc, at)
		set(s.name+"Strict", st, bc, at)
	}
	// membership guards
	guardIf := func(f *File, fd *ast.FuncDecl, cond string, bodyHas string) (Tri, ast.Node) {
		if fd == nil {
			return Unknown, nil
		}
		t := No
		var at ast.Node = fd
		ast.Inspect(fd.Body, func(n ast.Node) bool {
			if is, ok := n.(*ast.IfStmt); ok && f.Str(is.Cond) == cond && f.Contains(is.Body, bodyHas) {
				t = Yes
				at = is
			}
			return true
		})
		return t, at
	}
	{
		// cold build: the case clause of BeaconTypeExpirationTime filters on `!= 0`
		t := Unknown
		var at ast.Node
		if fd := sw.Func("swamp", "treasuresForBeacon"); fd != nil {
			ast.Inspect(fd.Body, func(n ast.Node) bool {
				if cc, ok := n.(*ast.CaseClause); ok && len(cc.List) == 1 && sw.Str(cc.List[0]) == "BeaconTypeExpirationTime" {
					t = No
					at = cc
					for _, s := range cc.Body {
						if sw.Contains(s, "if t.GetExpirationTime() != 0 { filtered[k] = t }") {
							t = Yes
						}
					}
				}
				return true
			})
		}
		set("coldBuildNe0", t, sw, at)
	}
	{
		t, at := guardIf(sw, sw.Func("swamp", "addTreasureToBeacons"), "d.GetExpirationTime() != 0", "s.addToExpirationTimeBeacon(d)")
		set("addBeaconsNe0", t, sw, at)
		t, at = guardIf(sw, sw.Func("swamp", "SaveFunction"), "t.GetExpirationTime() != 0", "s.addToExpirationTimeBeacon(t)")
		set("saveBranchNe0", t, sw, at)
		t, at = guardIf(bc, bc.Func("beacon", "ReindexExpiration"), "t.GetExpirationTime() == 0", "continue")
		set("reindexNe0", t, bc, at)
		t, at = guardIf(pe, pe.Func("swamp", "PatchExpired"), "t.GetExpirationTime() == 0", "continue")
		set("patchReaddNe0", t, pe, at)
		t, at = guardIf(fl, fl.Func("", "compareNativeTimestamp"), "nanos == 0 || ref == nil", "return false")
		set("filterGuard0", t, fl, at)
	}
	{
		t := Unknown
		var at ast.Node
		if fd := fl.Func("", "nativeFieldIsEmpty"); fd != nil {
			ast.Inspect(fd.Body, func(n ast.Node) bool {
				if cc, ok := n.(*ast.CaseClause); ok && len(cc.List) == 1 && fl.Str(cc.List[0]) == "*hydrapb.TreasureFilter_ExpiredAtVal" {
					t = No
					at = cc
					if len(cc.Body) == 1 && fl.Str(cc.Body[0]) == "return t.GetExpirationTime() == 0" {
						t = Yes
					}
				}
				return true
			})
		}
		set("isEmptyEq0", t, fl, at)
	}
	{
		t, at := guardIf(tr, tr.Func("treasure", "SetExpirationTime"), "expirationTime.IsZero()", "t.treasure.ExpirationTime = 0")
		set("setZeroNone", t, tr, at)
	}
	{
		// applyPatchMeta: `if meta.ClearExpiredAt { … } else if !meta.SetExpiredAt.IsZero() { … }`
		t := Unknown
		var at ast.Node
		if fd := sp.Func("", "applyPatchMeta"); fd != nil {
			ast.Inspect(fd.Body, func(n ast.Node) bool {
				if is, ok := n.(*ast.IfStmt); ok {
					c := sp.Str(is.Cond)
					if c == "meta.ClearExpiredAt" {
						if el, ok := is.Else.(*ast.IfStmt); ok && strings.Contains(sp.Str(el.Cond), "meta.SetExpiredAt") {
							t = Yes
							at = is
						}
					} else if strings.Contains(c, "meta.SetExpiredAt") && t == Unknown {
						if el, ok := is.Else.(*ast.IfStmt); ok && sp.Str(el.Cond) == "meta.ClearExpiredAt" {
							t = No
							at = is
						}
					}
				}
				return true
			})
		}
		set("clearWins", t, sp, at)
	}
	{
		v, where := "unknown", gw.Path
		if fd := gw.Func("", "treasureToKeyValuePair"); fd != nil {
			ast.Inspect(fd.Body, func(n ast.Node) bool {
				if is, ok := n.(*ast.IfStmt); ok && gw.Contains(is.Body, "t.ExpiredAt =") {
					switch gw.Str(is.Cond) {
					case "treasureInterface.GetExpirationTime() > 0":
						v, where = "gt0", c06At(gw, is)
					case "treasureInterface.GetExpirationTime() != 0":
						v, where = "ne0", c06At(gw, is)
					}
				}
				return true
			})
		}
		fs.Enum("wireGet", v, where)
	}
	// nested record of the shared request-handler facts
	sub := NewFacts("C05")
	sub.Enum("encoding", c05Encoding(), c06Treasure)
	c06Run(sub, c06Names)
	for _, n := range sub.Names {
		fs.Raw("kv."+n, sub.Lean[n], sub.Show[n], sub.Where[n])
	}
}
