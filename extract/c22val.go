package main

import (
	"fmt"
	"go/ast"
	"go/token"
	"sort"
	"strings"
)

// C22 value facts.
//
//	valEnc    convertFieldToKvPair (sdk hydraidego.go): `case reflect.K…:` → the kvPair field every assignment of the case targets
//	valStore  keyValuesToTreasure (gateway.go): `case keyValuePair.F != nil:` → the SetContentC it calls
//	valRead   treasureToKeyValuePair (gateway.go): `case treasure.ContentTypeC:` → the t.F it assigns
//	valDec    setProtoTreasureToModel: `if treasure.F != nil { switch field.Kind() { case reflect.K…: <sets the field> } }`
//	timeAsUnixSeconds   the Struct case of convertFieldToKvPair writes `timeValue.UTC().Unix()` into Int64Val
//	structValueEncoded  no: that case does nothing for a struct other than time.Time
//	bodySkipsNil        decodeMapBodyInto has `if len(raw) == 0 { continue }` before unmarshalling an entry
//	emptyLenZero / emptyNegZero   isFieldEmpty tests `value.Len() == 0` for slices and maps / `value.Float() == 0`

var c22vKinds = map[string]string{"String": "str", "Bool": "bool", "Uint8": "u8", "Uint16": "u16", "Uint32": "u32", "Uint64": "u64",
	"Uint": "uint", "Int8": "i8", "Int16": "i16", "Int32": "i32", "Int64": "i64", "Int": "int", "Float32": "f32", "Float64": "f64",
	"Map": "map", "Ptr": "ptr"}

var c22vFields = map[string]string{"StringVal": "stringVal", "BoolVal": "boolVal", "Uint8Val": "uint8Val", "Uint16Val": "uint16Val",
	"Uint32Val": "uint32Val", "Uint64Val": "uint64Val", "Int8Val": "int8Val", "Int16Val": "int16Val", "Int32Val": "int32Val",
	"Int64Val": "int64Val", "Float32Val": "float32Val", "Float64Val": "float64Val", "BytesVal": "bytesVal"}

var c22vContents = map[string]string{"String": "cString", "Bool": "cBool", "Boolean": "cBool", "Uint8": "cUint8", "Uint16": "cUint16",
	"Uint32": "cUint32", "Uint64": "cUint64", "Int8": "cInt8", "Int16": "cInt16", "Int32": "cInt32", "Int64": "cInt64",
	"Float32": "cFloat32", "Float64": "cFloat64", "ByteArray": "cBytes"}

type c22vPairs [][2]string

func (p c22vPairs) lean() string {
	var b []string
	for _, x := range p {
		b = append(b, "(."+x[0]+", ."+x[1]+")")
	}
	return "[" + strings.Join(b, ", ") + "]"
}
func (p c22vPairs) show() string {
	var b []string
	for _, x := range p {
		b = append(b, x[0]+">"+x[1])
	}
	return strings.Join(b, ",")
}

func c22Values(fs *Facts) {
	const sdk = "sdk/go/hydraidego/hydraidego.go"
	const gw = "app/server/gateway/gateway.go"
	const mapb = "sdk/go/hydraidego/conversions_mapbody.go"
	fs.Raw("valEnc", "[]", "", sdk)
	fs.Raw("valStore", "[]", "", gw)
	fs.Raw("valRead", "[]", "", gw)
	fs.Raw("valDec", "[]", "", sdk)
	for _, n := range []string{"valTablesRecognised", "timeAsUnixSeconds", "structValueEncoded", "bodySkipsNil", "emptyLenZero", "emptyNegZero", "voidClearsContent", "bodySkipsUnexported", "profileSkipsUnexported", "dashIsSkip"} {
		fs.Tri(n, Unknown, sdk)
	}
	fh, err1 := Load(sdk)
	fg, err2 := Load(gw)
	fm, err3 := Load(mapb)
	if err1 != nil || err2 != nil || err3 != nil {
		fs.Err("%v %v %v", err1, err2, err3)
		return
	}
	ok := true
	// ---- (a) encoder
	var enc c22vPairs
	if fd := fh.Func("", "convertFieldToKvPair"); fd != nil && fd.Body != nil {
		var sw *ast.SwitchStmt
		ast.Inspect(fd.Body, func(n ast.Node) bool {
			if s, is := n.(*ast.SwitchStmt); is && sw == nil && fh.Str(s.Tag) == "value.Kind()" {
				sw = s
			}
			return true
		})
		if sw == nil {
			ok = false
		} else {
			for _, st := range sw.Body.List {
				cc := st.(*ast.CaseClause)
				if cc.List == nil {
					continue // default: error
				}
				targets := map[string]bool{}
				for _, s := range cc.Body {
					ast.Inspect(s, func(n ast.Node) bool {
						if as, is := n.(*ast.AssignStmt); is {
							for _, l := range as.Lhs {
								if t := fh.Str(l); strings.HasPrefix(t, "kvPair.") {
									targets[strings.TrimPrefix(t, "kvPair.")] = true
								}
							}
						}
						return true
					})
				}
				for _, e := range cc.List {
					k := strings.TrimPrefix(fh.Str(e), "reflect.")
					field := ""
					if len(targets) == 1 {
						for t := range targets {
							field = c22vFields[t]
						}
					}
					switch {
					case k == "Struct":
						body := ""
						for _, s := range cc.Body {
							body += fh.Str(s) + " "
						}
						isTime := strings.Contains(body, "if value.Type() == reflect.TypeOf(time.Time{})")
						if isTime && field == "int64Val" {
							enc = append(enc, [2]string{"time", field})
							fs.Tri("timeAsUnixSeconds", TriOf(strings.Contains(body, "intVal := timeValue.UTC().Unix()")), sdk+":"+itoa(fh.Line(cc)))
						} else {
							ok = false
						}
						// anything for non-time structs? only when the `if` has an else branch
						hasElse := false
						for _, s := range cc.Body {
							if is, isIf := s.(*ast.IfStmt); isIf && is.Else != nil {
								hasElse = true
							}
						}
						fs.Tri("structValueEncoded", TriOf(hasElse || len(cc.Body) > 1), sdk+":"+itoa(fh.Line(cc)))
					case k == "Slice" && field == "bytesVal":
						enc = append(enc, [2]string{"bytes", field}, [2]string{"slice", field})
					case c22vKinds[k] != "" && field != "":
						enc = append(enc, [2]string{c22vKinds[k], field})
					default:
						ok = false
					}
				}
			}
		}
	} else {
		ok = false
	}
	// ---- (b) server store
	var store c22vPairs
	if fd := fg.Func("", "keyValuesToTreasure"); fd != nil && fd.Body != nil {
		ast.Inspect(fd.Body, func(n ast.Node) bool {
			cc, is := n.(*ast.CaseClause)
			if !is || len(cc.List) != 1 {
				return true
			}
			cond := fg.Str(cc.List[0])
			if !strings.HasPrefix(cond, "keyValuePair.") || !strings.HasSuffix(cond, " != nil") {
				return true
			}
			f := strings.TrimSuffix(strings.TrimPrefix(cond, "keyValuePair."), " != nil")
			if c22vFields[f] == "" {
				return true // Uint32Slice etc.: outside the model
			}
			var calls []string
			for _, s := range cc.Body {
				for _, c := range fg.CallsSuffix(s, "") {
					if fn := fg.Str(c.Fun); strings.HasPrefix(fn, "treasureInterface.SetContent") {
						calls = append(calls, strings.TrimPrefix(fn, "treasureInterface.SetContent"))
					}
				}
			}
			if len(calls) == 1 && c22vContents[calls[0]] != "" {
				store = append(store, [2]string{c22vFields[f], c22vContents[calls[0]]})
			} else {
				ok = false
			}
			return true
		})
	} else {
		ok = false
	}
	// ---- (c) server read
	var read c22vPairs
	if fd := fg.Func("", "treasureToKeyValuePair"); fd != nil && fd.Body != nil {
		ast.Inspect(fd.Body, func(n ast.Node) bool {
			cc, is := n.(*ast.CaseClause)
			if !is || len(cc.List) != 1 || !strings.HasPrefix(fg.Str(cc.List[0]), "treasure.ContentType") {
				return true
			}
			c := strings.TrimPrefix(fg.Str(cc.List[0]), "treasure.ContentType")
			if c22vContents[c] == "" {
				return true // Uint32Slice
			}
			targets := map[string]bool{}
			for _, s := range cc.Body {
				ast.Inspect(s, func(m ast.Node) bool {
					if as, is := m.(*ast.AssignStmt); is {
						for _, l := range as.Lhs {
							if t := fg.Str(l); strings.HasPrefix(t, "t.") {
								targets[strings.TrimPrefix(t, "t.")] = true
							}
						}
					}
					return true
				})
			}
			if len(targets) == 1 {
				for t := range targets {
					if c22vFields[t] != "" {
						read = append(read, [2]string{c22vContents[c], c22vFields[t]})
						return true
					}
				}
			}
			ok = false
			return true
		})
	} else {
		ok = false
	}
	// ---- (d) decoder
	type decRow struct {
		f  string
		ks []string
	}
	var dec []decRow
	if fd := fh.Func("", "setProtoTreasureToModel"); fd != nil && fd.Body != nil {
		for _, st := range fd.Body.List {
			is, isIf := st.(*ast.IfStmt)
			if !isIf {
				continue
			}
			cond := fh.Str(is.Cond)
			if !strings.HasPrefix(cond, "treasure.") || !strings.HasSuffix(cond, " != nil") {
				continue
			}
			f := strings.TrimSuffix(strings.TrimPrefix(cond, "treasure."), " != nil")
			if c22vFields[f] == "" {
				continue
			}
			var ks []string
			for _, s := range is.Body.List {
				sw, isSw := s.(*ast.SwitchStmt)
				if !isSw || fh.Str(sw.Tag) != "field.Kind()" {
					continue
				}
				for _, c := range sw.Body.List {
					cc := c.(*ast.CaseClause)
					body := ""
					for _, b := range cc.Body {
						body += fh.Str(b) + " "
					}
					if cc.List == nil || !strings.Contains(body, "field.Set") {
						continue
					}
					for _, e := range cc.List {
						k := strings.TrimPrefix(fh.Str(e), "reflect.")
						switch {
						case k == "Struct" && strings.Contains(body, "if field.Type() == reflect.TypeOf(time.Time{})") && strings.Contains(body, "time.Unix(treasure.GetInt64Val(), 0)"):
							ks = append(ks, "time")
						case k == "Slice" && f == "BytesVal":
							ks = append(ks, "bytes", "slice")
						case c22vKinds[k] != "":
							ks = append(ks, c22vKinds[k])
						default:
							ok = false
						}
					}
				}
			}
			dec = append(dec, decRow{c22vFields[f], ks})
		}
	} else {
		ok = false
	}
	var dl, ds []string
	for _, r := range dec {
		var kk []string
		for _, k := range r.ks {
			kk = append(kk, "."+k)
		}
		dl = append(dl, fmt.Sprintf("(.%s, [%s])", r.f, strings.Join(kk, ", ")))
		ds = append(ds, r.f+">"+strings.Join(r.ks, "+"))
	}
	sort.SliceStable(store, func(i, j int) bool { return false })
	fs.Raw("valEnc", enc.lean(), enc.show(), sdk)
	fs.Raw("valStore", store.lean(), store.show(), gw)
	fs.Raw("valRead", read.lean(), read.show(), gw)
	fs.Raw("valDec", "["+strings.Join(dl, ", ")+"]", strings.Join(ds, ","), sdk)
	fs.Tri("valTablesRecognised", TriOf(ok && len(enc) > 0 && len(store) > 0 && len(read) > 0 && len(dec) > 0), sdk)
	// ---- flags
	if fd := miscFunc(fm, "", "decodeMapBodyInto"); fd != nil {
		src := fm.Str(fd)
		if strings.Contains(src, "raw, ok := raws[f.Name]") && strings.Contains(src, "msgpack.Unmarshal(raw, fv.Addr().Interface())") {
			skips := false
			if i, j := strings.Index(src, "if len(raw) == 0 { continue }"), strings.Index(src, "msgpack.Unmarshal(raw,"); i >= 0 && i < j {
				skips = true
			}
			fs.Tri("bodySkipsNil", TriOf(skips), mapb+":"+itoa(fm.Line(fd)))
		}
	}
	if fd := fh.Func("", "isFieldEmpty"); fd != nil {
		src := fh.Str(fd)
		if strings.Contains(src, "value.Kind() == reflect.Slice") && strings.Contains(src, "value.Kind() == reflect.Float64") {
			fs.Tri("emptyLenZero", TriOf(strings.Contains(src, "(value.Kind() == reflect.Slice && (value.IsNil() || value.Len() == 0))")), sdk+":"+itoa(fh.Line(fd)))
			fs.Tri("emptyNegZero", TriOf(strings.Contains(src, "(value.Kind() == reflect.Float64 && value.Float() == 0)")), sdk+":"+itoa(fh.Line(fd)))
		}
	}
	// server: does SetContentVoid replace a typed content?
	if ft, err := Load("app/core/hydra/swamp/treasure/treasure.go"); err == nil {
		if fd := ft.Func("treasure", "SetContentVoid"); fd != nil && fd.Body != nil {
			clears := false
			for _, st := range fd.Body.List { // an unconditional, top-level replacement of the content
				if as, ok := st.(*ast.AssignStmt); ok && len(as.Lhs) == 1 && ft.Str(as.Lhs[0]) == "t.treasure.Content" &&
					strings.HasPrefix(ft.Str(as.Rhs[0]), "&Content{ Void: true") {
					clears = true
				}
			}
			fs.Tri("voidClearsContent", TriOf(clears), "app/core/hydra/swamp/treasure/treasure.go:"+itoa(ft.Line(fd)))
		}
	}
	// structural shapes
	if fd := miscFunc(fm, "", "inspectCatalogModel"); fd != nil {
		src := fm.Str(fd)
		fs.Tri("bodySkipsUnexported", TriOf(strings.Contains(src, "if !t.Field(i).IsExported() { continue }")), mapb+":"+itoa(fm.Line(fd)))
		fs.Tri("dashIsSkip", TriOf(strings.Contains(src, `if head == "" || head == "-" {`)), mapb+":"+itoa(fm.Line(fd)))
	}
	p1, p2, p3 := fh.Func("", "convertProfileModelToKeyValuePair"), fh.Func("", "setTreasureValueToProfileModel"), fh.Func("", "getKeyFromProfileModel")
	if p1 != nil && p2 != nil && p3 != nil {
		all := fh.Contains(p1, "if !field.IsExported() { continue }") && fh.Contains(p2, "t.Field(i).IsExported()") && fh.Contains(p3, "IsExported()")
		fs.Tri("profileSkipsUnexported", TriOf(all), sdk+":"+itoa(fh.Line(p1)))
	}
	_ = token.NoPos
}

func c22ValueDefaults(fs *Facts) {
	fs.Raw("valEnc", "[]", "", "")
	fs.Raw("valStore", "[]", "", "")
	fs.Raw("valRead", "[]", "", "")
	fs.Raw("valDec", "[]", "", "")
	for _, n := range []string{"valTablesRecognised", "timeAsUnixSeconds", "structValueEncoded", "bodySkipsNil", "emptyLenZero", "emptyNegZero", "voidClearsContent", "bodySkipsUnexported", "profileSkipsUnexported", "dashIsSkip"} {
		fs.Tri(n, Unknown, "")
	}
}
