package main

// C23: facts about the V1→V2 migrator (order of write / verify / delete, the dedupe rule, what
// verification compares, cleanup on failure, where the swamp name comes from) and about the
// legacy loader (does `Load` range over a Go map of file contents?).

import (
	"fmt"
	"go/ast"
	"go/token"
	"regexp"
	"strings"
)

// c23EqualFn: targetEqualsLegacy compares the name, the number of keys and every entry's bytes
func c23EqualFn(f *File) bool {
	fd := f.Func("Migrator", "targetEqualsLegacy")
	if fd == nil {
		return false
	}
	t := strings.Join(strings.Fields(f.Str(fd.Body)), " ")
	return strings.Contains(t, "index, name, err := reader.LoadIndex()") &&
		strings.Contains(t, "if err != nil || name != swampName || len(index) != len(entries) { return false }") &&
		strings.Contains(t, "for _, entry := range entries { data, exists := index[entry.Key] if !exists || !bytes.Equal(data, entry.Data) { return false } } return true")
}

func init() {
	Register("C23", Extractor{Import: "Hv.Props.C23", Type: "Hv.C23.Facts", Run: func(fs *Facts) {
		const mp = "app/core/hydra/swamp/chronicler/v2/migrator/migrator.go"
		const cp = "app/core/hydra/swamp/chronicler/chronicler.go"
		names := []string{"dedupeLast", "writeBeforeDelete", "verifyBeforeDelete", "removeOnVerifyFail", "removeOnWriteFail", "removeOnOpenFail",
			"emptyKeyIsError", "metaErrorAborts", "verifyValues", "refusesExisting", "acceptsEqualTarget", "syncsBeforeDelete", "skipsZeroLength", "nameFromMeta", "v1LoadIteratesMap"}
		set := map[string]bool{}
		put := func(n string, t Tri, where string) { fs.Tri(n, t, where); set[n] = true }
		defer func() {
			for _, n := range names {
				if !set[n] {
					fs.Tri(n, Unknown, mp)
				}
			}
		}()
		f, err := Load(mp)
		if err != nil {
			fs.Err("%v", err)
			return
		}
		at := func(n ast.Node) string { return fmt.Sprintf("%s:%d", mp, f.Line(n)) }

		// --- migrateSwamp: order of the three effects on the non-empty, non-dry-run path
		if fd := f.Func("Migrator", "migrateSwamp"); fd != nil {
			var wr, vf, del *ast.CallExpr
			var vfIf *ast.IfStmt
			// only statements at the top level of the function body after the `if len(entries) == 0` block
			for _, st := range fd.Body.List {
				if ifs, ok := st.(*ast.IfStmt); ok && strings.Contains(f.Str(ifs.Cond), "len(entries) == 0") {
					continue
				}
				// the target-exists block (its own delete step belongs to the already-migrated branch, see below)
				if ifs, ok := st.(*ast.IfStmt); ok && ifs.Init != nil && strings.Contains(f.Str(ifs.Init), "os.Stat(") && len(f.Calls(ifs, "m.writeV2File")) == 0 {
					continue
				}
				for _, c := range f.Calls(st, "m.writeV2File") {
					if wr == nil {
						wr = c
					}
				}
				for _, c := range f.Calls(st, "m.verifyMigration") {
					if vf == nil {
						vf = c
						if ifs, ok := st.(*ast.IfStmt); ok {
							vfIf = ifs
						}
					}
				}
				for _, c := range f.Calls(st, "m.deleteV1Files") {
					if del == nil {
						del = c
					}
				}
			}
			if wr != nil && vf != nil && del != nil {
				put("writeBeforeDelete", TriOf(wr.Pos() < del.Pos()), at(wr))
				put("verifyBeforeDelete", TriOf(vf.Pos() < del.Pos()), at(vf))
			}
			// a target path that is not free: a top-level
			//   `if _, statErr := os.Stat(<target>); !errors.Is(statErr, os.ErrNotExist) { m.recordFailure(…); return }`
			// before the writeV2File call, on the very expression handed to writeV2File.  No os.Stat of the target before the
			// call at all = the writer opens whatever is there for appending.
			if wr != nil && len(wr.Args) == 3 {
				target := f.Str(wr.Args[0])
				guard, other := false, false
				equal := Unknown
				var where ast.Node = wr
				for _, st := range fd.Body.List {
					if st.Pos() >= wr.Pos() {
						break
					}
					ifs, ok := st.(*ast.IfStmt)
					if !ok || ifs.Init == nil || !strings.Contains(f.Str(ifs.Init), "os.Stat("+target+")") {
						if f.Contains(st, "os.Stat("+target+")") || f.Contains(st, "os.Lstat("+target+")") {
							other = true
						}
						continue
					}
					as, ok := ifs.Init.(*ast.AssignStmt)
					if !ok || len(as.Lhs) != 2 || f.Str(as.Lhs[0]) != "_" {
						other = true
						continue
					}
					ev := f.Str(as.Lhs[1])
					cond := f.Str(ifs.Cond)
					k := len(ifs.Body.List)
					_, returns := ifs.Body.List[k-1].(*ast.ReturnStmt)
					condOk := (cond == "!errors.Is("+ev+", os.ErrNotExist)" || cond == "!os.IsNotExist("+ev+")") && ifs.Else == nil && returns
					refuseOnly := func(b *ast.BlockStmt) bool {
						n := len(b.List)
						if n == 0 {
							return false
						}
						_, r := b.List[n-1].(*ast.ReturnStmt)
						return r && len(f.Calls(b, "m.recordFailure")) == 1 && len(f.Calls(b, "os.Remove")) == 0 && len(f.Calls(b, "m.deleteV1Files")) == 0 &&
							len(f.Calls(b, "m.writeV2File")) == 0
					}
					switch {
					case condOk && refuseOnly(ifs.Body):
						guard, where = true, ifs
						equal = No
					case condOk && k >= 3:
						// `if statErr != nil || !m.targetEqualsLegacy(target, entries, name) { recordFailure; return }`, then the
						// already-migrated branch: optional DeleteOld step, success counter, return — no write, no remove
						inner, ok := ifs.Body.List[0].(*ast.IfStmt)
						wantCond := ev + " != nil || !m.targetEqualsLegacy(" + target + ", " + f.Str(wr.Args[1]) + ", " + f.Str(wr.Args[2]) + ")"
						rest := &ast.BlockStmt{List: ifs.Body.List[1:]}
						delGuarded := true
						for _, c := range f.Calls(rest, "m.deleteV1Files") {
							_ = c
						}
						for _, st2 := range rest.List {
							if len(f.Calls(st2, "m.deleteV1Files")) > 0 {
								i2, ok2 := st2.(*ast.IfStmt)
								if !ok2 || f.Str(i2.Cond) != "m.config.DeleteOld" {
									delGuarded = false
								}
							}
						}
						if ok && inner.Init == nil && inner.Else == nil && f.Str(inner.Cond) == wantCond && refuseOnly(inner.Body) &&
							len(f.Calls(rest, "m.writeV2File")) == 0 && len(f.Calls(rest, "os.Remove")) == 0 && len(f.Calls(rest, "m.recordFailure")) == 0 &&
							len(f.Calls(rest, "m.deleteV1Files")) == 1 && delGuarded && f.Contains(rest, "&m.result.SuccessfulSwamps") && c23EqualFn(f) {
							guard, where = true, ifs
							equal = Yes
						} else {
							other = true
						}
					default:
						other = true
					}
				}
				switch {
				case guard && !other:
					put("refusesExisting", Yes, at(where))
					if equal != Unknown {
						put("acceptsEqualTarget", equal, at(where))
					}
				case !guard && !other:
					put("refusesExisting", No, at(where))
					put("acceptsEqualTarget", No, at(where))
				}
			}
			// `if m.config.Verify { if err := m.verifyMigration(…); err != nil { os.Remove(hydFilePath) …; return } }`
			if vfIf != nil {
				found, returns := false, false
				ast.Inspect(vfIf, func(n ast.Node) bool {
					if inner, ok := n.(*ast.IfStmt); ok && inner.Init != nil && strings.Contains(f.Str(inner.Init), "m.verifyMigration(") {
						for _, c := range f.Calls(inner.Body, "os.Remove") {
							if len(c.Args) == 1 && f.Str(c.Args[0]) == "hydFilePath" {
								found = true
							}
						}
						if n := len(inner.Body.List); n > 0 {
							if _, ok := inner.Body.List[n-1].(*ast.ReturnStmt); ok {
								returns = true
							}
						}
					}
					return true
				})
				if returns {
					put("removeOnVerifyFail", TriOf(found), at(vfIf))
				}
			}
			// `swampName, err := m.loadSwampNameFromMeta(folderPath)`: does the error branch leave the function
			// (for anything but a missing meta file), or does it only log?
			for i, st := range fd.Body.List {
				as, ok := st.(*ast.AssignStmt)
				if !ok || !f.Contains(as, "m.loadSwampNameFromMeta(") || i+1 >= len(fd.Body.List) {
					continue
				}
				ifs, ok := fd.Body.List[i+1].(*ast.IfStmt)
				if !ok || f.Str(ifs.Cond) != "err != nil" {
					break
				}
				aborts := false
				ast.Inspect(ifs.Body, func(n ast.Node) bool {
					if inner, ok := n.(*ast.IfStmt); ok && strings.Contains(f.Str(inner.Cond), "os.ErrNotExist") && strings.HasPrefix(f.Str(inner.Cond), "!") {
						if k := len(inner.Body.List); k > 0 {
							if _, ok := inner.Body.List[k-1].(*ast.ReturnStmt); ok && len(f.Calls(inner.Body, "m.recordFailure")) == 1 {
								aborts = true
							}
						}
					}
					return true
				})
				onlyLogs := len(ifs.Body.List) == 1 && f.Contains(ifs.Body.List[0], "slog.Warn(")
				switch {
				case aborts:
					put("metaErrorAborts", Yes, at(ifs))
				case onlyLogs:
					put("metaErrorAborts", No, at(ifs))
				}
			}
			// the name handed to writeV2File: the variable assigned from loadSwampNameFromMeta
			if wr != nil && len(wr.Args) == 3 {
				nameVar := f.Str(wr.Args[2])
				fromMeta := false
				ast.Inspect(fd.Body, func(n ast.Node) bool {
					if as, ok := n.(*ast.AssignStmt); ok && len(as.Rhs) == 1 && len(as.Lhs) >= 1 {
						if c, ok := as.Rhs[0].(*ast.CallExpr); ok && f.Str(c.Fun) == "m.loadSwampNameFromMeta" && f.Str(as.Lhs[0]) == nameVar {
							fromMeta = true
						}
					}
					return true
				})
				reassigned := 0
				ast.Inspect(fd.Body, func(n ast.Node) bool {
					if as, ok := n.(*ast.AssignStmt); ok {
						for _, l := range as.Lhs {
							if f.Str(l) == nameVar {
								reassigned++
							}
						}
					}
					return true
				})
				if fromMeta && reassigned == 1 {
					put("nameFromMeta", Yes, at(wr))
				} else if !fromMeta {
					put("nameFromMeta", No, at(wr))
				}
			}
		}

		// --- durability before DeleteOld: FileWriter.Close fsyncs before it reports success, and writeV2File fails on its error
		if wf, err := Load("app/core/hydra/swamp/chronicler/v2/writer.go"); err == nil {
			if cd := wf.Func("FileWriter", "Close"); cd != nil {
				closeErr := false
				if wd := f.Func("Migrator", "writeV2File"); wd != nil {
					wt := strings.Join(strings.Fields(f.Str(wd.Body)), " ")
					closeErr = strings.Contains(wt, "if err := writer.Close(); err != nil { os.Remove(filePath) return err }")
				}
				// structurally, over the top-level statements of Close: an `if err := fw.file.Sync(); err != nil { …; return err }`
				// comes before `fw.closed = true` and before the only success return (`return fw.file.Close()`, the last statement);
				// whatever else the error branch does (seek back, keep the file open) does not matter here
				syncAt, closedAt, earlyOk := -1, -1, false
				for i, st := range cd.Body.List {
					switch v := st.(type) {
					case *ast.IfStmt:
						if v.Init != nil && wf.Str(v.Init) == "err := fw.file.Sync()" && wf.Str(v.Cond) == "err != nil" && v.Else == nil && len(v.Body.List) > 0 {
							if r, ok := v.Body.List[len(v.Body.List)-1].(*ast.ReturnStmt); ok && len(r.Results) == 1 && wf.Str(r.Results[0]) == "err" && syncAt < 0 {
								syncAt = i
							}
						}
					case *ast.AssignStmt:
						if wf.Str(v) == "fw.closed = true" && closedAt < 0 {
							closedAt = i
						}
					case *ast.ReturnStmt:
						if i != len(cd.Body.List)-1 {
							earlyOk = true // a success return before the end
						}
					}
				}
				last, _ := cd.Body.List[len(cd.Body.List)-1].(*ast.ReturnStmt)
				endsWithClose := last != nil && len(last.Results) == 1 && wf.Str(last.Results[0]) == "fw.file.Close()"
				switch {
				case syncAt >= 0 && closedAt > syncAt && endsWithClose && !earlyOk && closeErr:
					put("syncsBeforeDelete", Yes, fmt.Sprintf("%s:%d", wf.Path, wf.Line(cd)))
				case !strings.Contains(wf.Str(cd.Body), "Sync()") && closeErr:
					put("syncsBeforeDelete", No, fmt.Sprintf("%s:%d", wf.Path, wf.Line(cd)))
				}
			}
		}

		// --- loadV1Swamp: `entryMap[entry.Key] = entry` directly in the loop body (last wins),
		//     or guarded by an existence test (first wins)
		if fd := f.Func("Migrator", "loadV1Swamp"); fd != nil {
			ast.Inspect(fd.Body, func(n ast.Node) bool {
				rs, ok := n.(*ast.RangeStmt)
				if !ok || f.Str(rs.X) != "fileEntries" {
					return true
				}
				for _, st := range rs.Body.List {
					if as, ok := st.(*ast.AssignStmt); ok && len(as.Lhs) == 1 && f.Str(as.Lhs[0]) == "entryMap[entry.Key]" && f.Str(as.Rhs[0]) == "entry" {
						put("dedupeLast", Yes, at(as))
					}
					if ifs, ok := st.(*ast.IfStmt); ok && strings.Contains(f.Str(ifs), "entryMap[entry.Key]") {
						txt := f.Str(ifs)
						if strings.Contains(txt, "; !") && strings.Contains(txt, "entryMap[entry.Key] = entry") {
							put("dedupeLast", No, at(ifs))
						}
					}
				}
				return false
			})
		}

		// --- writeV2File: the error branches after the writer exists remove the file (removeOnWriteFail);
		//     the branch right after NewFileWriterWithName — which has already created the file when the
		//     header or the name cannot be written — is a fact of its own (removeOnOpenFail)
		if fd := f.Func("Migrator", "writeV2File"); fd != nil {
			okLater, nLater, odd := true, 0, false
			openRemoves, seenOpen := false, false
			for i, st := range fd.Body.List {
				if as, ok := st.(*ast.AssignStmt); ok && f.Contains(as, "NewFileWriterWithName(") && i+1 < len(fd.Body.List) {
					if ifs, ok := fd.Body.List[i+1].(*ast.IfStmt); ok && f.Str(ifs.Cond) == "err != nil" {
						seenOpen = true
						openRemoves = len(f.Calls(ifs.Body, "os.Remove")) > 0
					}
				}
			}
			ast.Inspect(fd.Body, func(x ast.Node) bool {
				ifs, ok := x.(*ast.IfStmt)
				if !ok || ifs.Init == nil || !strings.Contains(f.Str(ifs.Cond), "err != nil") {
					return true
				}
				nLater++
				if f.Str(ifs.Cond) != "err != nil" || ifs.Else != nil {
					odd = true // an error branch that is taken only sometimes: not a shape the model knows
				}
				if len(f.Calls(ifs.Body, "os.Remove")) == 0 {
					okLater = false
				}
				if n := len(ifs.Body.List); n == 0 || !strings.HasPrefix(f.Str(ifs.Body.List[n-1]), "return err") {
					odd = true
				}
				return true
			})
			if nLater >= 2 && !odd {
				put("removeOnWriteFail", TriOf(okLater), at(fd))
			}
			// the writer itself may clean up
			if wf, err := Load("app/core/hydra/swamp/chronicler/v2/writer.go"); err == nil {
				if cf := wf.Func("FileWriter", "createNewFile"); cf != nil {
					all, n := true, 0
					ast.Inspect(cf.Body, func(x ast.Node) bool {
						if ifs, ok := x.(*ast.IfStmt); ok && ifs.Init != nil && strings.Contains(wf.Str(ifs.Init), "file.Write(") {
							n++
							if len(wf.Calls(ifs.Body, "os.Remove")) == 0 {
								all = false
							}
						}
						return true
					})
					if n >= 1 && all {
						openRemoves = true
					}
				}
			}
			if seenOpen {
				put("removeOnOpenFail", TriOf(openRemoves), at(fd))
			}
		}

		// --- extractKeyFromTreasure: `if model.Key == "" { return "", errors.New(…) }`
		if fd := f.Func("Migrator", "extractKeyFromTreasure"); fd != nil {
			// No only when the key is never tested at all; any other test than the recognised one is unknown
			t := Unknown
			if !regexp.MustCompile(`(model\.Key\s*(==|!=)|len\(model\.Key\))`).MatchString(f.Str(fd.Body)) {
				t = No
			}
			for _, st := range fd.Body.List {
				if ifs, ok := st.(*ast.IfStmt); ok && f.Str(ifs.Cond) == `model.Key == ""` && ifs.Else == nil && strings.Contains(f.Str(ifs.Body), "return \"\", errors.New") {
					t = Yes
				}
			}
			put("emptyKeyIsError", t, at(fd))
		}

		// --- verifyMigration: does it look at entry data?
		if fd := f.Func("Migrator", "verifyMigration"); fd != nil {
			txt := f.Str(fd.Body)
			switch {
			case strings.Contains(txt, "LoadIndex()") && !strings.Contains(txt, ".Data") && !strings.Contains(txt, "ReadEntry") && !strings.Contains(txt, "bytes.Equal"):
				put("verifyValues", No, at(fd))
			case strings.Contains(txt, ".Data") && strings.Contains(txt, "bytes.Equal"):
				put("verifyValues", Yes, at(fd))
			}
		}

		// --- parseV1Segments: `if length == 0 { continue }`
		if fd := f.Func("Migrator", "parseV1Segments"); fd != nil {
			t, seenRead := Unknown, false
			if !regexp.MustCompile(`length\s*(==|<=|<|!=|>)\s*[01]\b`).MatchString(f.Str(fd.Body)) {
				t = No // the length is never compared with zero
			}
			ast.Inspect(fd.Body, func(x ast.Node) bool {
				if c, ok := x.(*ast.CallExpr); ok && f.Str(c.Fun) == "reader.ReadUint32" {
					seenRead = true
				}
				if ifs, ok := x.(*ast.IfStmt); ok && f.Str(ifs.Cond) == "length == 0" && len(ifs.Body.List) == 1 {
					if b, ok := ifs.Body.List[0].(*ast.BranchStmt); ok && b.Tok == token.CONTINUE {
						t = Yes
					}
				}
				return true
			})
			if seenRead {
				put("skipsZeroLength", t, at(fd))
			}
		}

		// --- legacy Load: `for fileName, byteTreasures := range contents` with contents from GetAllFileContents (a map)
		if cf, err := Load(cp); err == nil {
			if fd := cf.Func("chronicler", "Load"); fd != nil {
				fromMap := false
				ast.Inspect(fd.Body, func(x ast.Node) bool {
					if as, ok := x.(*ast.AssignStmt); ok && len(as.Rhs) == 1 && cf.Contains(as.Rhs[0], "GetAllFileContents(") && len(as.Lhs) == 2 && cf.Str(as.Lhs[0]) == "contents" {
						fromMap = true
					}
					return true
				})
				t := Unknown
				ast.Inspect(fd.Body, func(x ast.Node) bool {
					if rs, ok := x.(*ast.RangeStmt); ok && cf.Str(rs.X) == "contents" && fromMap {
						t = Yes
					}
					return true
				})
				// GetAllFileContents must really return a map
				if ff, err := Load("app/core/filesystem/filesystem.go"); err == nil {
					if g := ff.Func("filesystem", "GetAllFileContents"); g != nil && g.Type.Results != nil {
						if !strings.HasPrefix(ff.Str(g.Type.Results.List[0].Type), "map[") && t == Yes {
							t = No
						}
					}
				}
				fs.Tri("v1LoadIteratesMap", t, fmt.Sprintf("%s:%d", cp, cf.Line(fd)))
				set["v1LoadIteratesMap"] = true
			}
		} else {
			fs.Err("%v", err)
		}
	}})
}
