package main

import "strconv"

func fmtInt(i int) string { return strconv.Itoa(i) }
