package main

import (
	"fmt"
	"os"
	"regexp"
	"strings"
)

// The claim paths that reach the ordered indexes besides Set / Delete / read:
//
//	swamp.PatchExpired                      build, select (ASC slice), delete from DESC, patch + save each,
//	                                        ReindexExpiration(<which>), re-add to DESC, sort DESC
//	beacon.SelectExpiredForPatchWithCap     walks treasuresByOrder in order, takes the expired ones out
//	beacon.ReindexExpiration                drop by key, append those with an expiry, sort ascending
//	swamp.applyPatchMeta                    ClearExpiredAt → zero time, else SetExpiredAt when not zero
//	swamp.CloneAndDeleteMatchingTreasures   build, GetBeacon, ShiftMatching, deleteHandler each
//	beacon.ShiftMatching                    walks treasuresByOrder in order, first howMany matches
//
// c07StripHooks removes every `if verifhook.Enabled { … }` block (balanced braces) from rendered source.
func c07StripHooks(s string) string {
	const open = "if verifhook.Enabled {"
	for {
		i := strings.Index(s, open)
		if i < 0 {
			return s
		}
		depth, j := 0, i+len(open)-1
		for ; j < len(s); j++ {
			if s[j] == '{' {
				depth++
			} else if s[j] == '}' {
				depth--
				if depth == 0 {
					break
				}
			}
		}
		if j >= len(s) {
			return s
		}
		s = s[:i] + s[j+1:]
	}
}

func c07Body(f *File, recv, fn string) string {
	fd := f.Func(recv, fn)
	if fd == nil {
		return ""
	}
	return strings.Join(strings.Fields(c07StripHooks(f.Str(fd.Body))), " ")
}

// inOrder: every part occurs in s, each after the previous one
func c07InOrder(s string, parts ...string) bool {
	at := 0
	for _, p := range parts {
		i := strings.Index(s[at:], p)
		if i < 0 {
			if os.Getenv("EXTRACT_WHY") != "" {
				fmt.Fprintf(os.Stderr, "shape: part not found (in order): %s\n   in: %.300s\n", p, s)
			}
			return false
		}
		at += i + len(p)
	}
	return true
}

var c07ReindexRe = regexp.MustCompile(`s\.expirationTimeBeaconASC\.ReindexExpiration\((\w+)\)`)

func c07Claim(fs *Facts) {
	const pexp = "app/core/hydra/swamp/swamp_patch_expired.go"
	const patch = "app/core/hydra/swamp/swamp_patch.go"
	std := true
	fpe, err := Load(pexp)
	if err != nil {
		fs.Err("%v", err)
		return
	}
	body := c07Body(fpe, "swamp", "PatchExpired")
	shape := c07InOrder(body,
		"s.buildBeacon(s.expirationTimeBeaconASC, s.expirationTimeBeaconDESC, BeaconTypeExpirationTime)",
		"selected, capReached := s.expirationTimeBeaconASC.SelectExpiredForPatchWithCap(int(howMany), selectionPredicate, capPredicate, ",
		"for _, t := range selected { s.deleteTreasureIfBeaconInitialized(s.expirationTimeBeaconDESC, t.GetKey()) }",
		"for _, treasureObj := range selected { entry := s.applyPatchExpiredOne(treasureObj, ops, condition, meta) results = append(results, entry) }",
		"s.expirationTimeBeaconASC.ReindexExpiration(",
		"for _, t := range selected { if t.GetExpirationTime() == 0 { continue } if s.expirationTimeBeaconDESC.IsInitialized() { s.expirationTimeBeaconDESC.Add(t) } }",
		"if s.expirationTimeBeaconDESC.IsInitialized() { _ = s.expirationTimeBeaconDESC.SortByExpirationTimeDesc() }",
		"return results, capReached, nil")
	where := pexp
	if fd := fpe.Func("swamp", "PatchExpired"); fd != nil {
		where = c07At(pexp, fpe, fd)
	}
	m := c07ReindexRe.FindAllStringSubmatch(body, -1)
	if shape && len(m) == 1 {
		fs.Tri("patchExpiredReindexesAll", TriOf(m[0][1] == "selected"), where)
	}
	one := c07Body(fpe, "swamp", "applyPatchExpiredOne")
	std = std && c07InOrder(one,
		"switch treasureObj.GetContentType() { case treasure.ContentTypeByteArray:",
		"case treasure.ContentTypeVoid: entry.Status = PatchStatusKeyNotFound",
		"default: entry.Status = PatchStatusTypeMismatch",
		"treasureObj.SetContentByteArray(guardID, wrapMsgpackBody(",
		"applyPatchMeta(treasureObj, guardID, meta, false)",
		"treasureObj.Save(guardID)")
	if fp, err := Load(patch); err != nil {
		std = false
	} else {
		std = std && c07InOrder(c07Body(fp, "", "applyPatchMeta"),
			"if meta.ClearExpiredAt { treasureObj.SetExpirationTime(guardID, time.Time{}) } else if !meta.SetExpiredAt.IsZero() { treasureObj.SetExpirationTime(guardID, meta.SetExpiredAt) }")
		std = std && c07InOrder(c07Body(fp, "swamp", "PatchFields"),
			"if !opts.CreateIfNotExist && s.beaconKey.Get(key) == nil { return PatchFieldsResult{Status: PatchStatusKeyNotFound}, nil }",
			"treasureObj.SetContentByteArray(guardID, wrapMsgpackBody(out)) applyPatchMeta(treasureObj, guardID, opts.Meta, isCreate) treasureObj.Save(guardID)")
	}
	if fb, err := Load(c07Beacon); err != nil {
		std = false
	} else {
		std = std && c07InOrder(c07Body(fb, "beacon", "SelectExpiredForPatchWithCap"),
			"for _, treasureObj := range b.treasuresByOrder { exp := treasureObj.GetExpirationTime() isExpired := exp != 0 && exp < now isCandidate := isExpired && (selectionPredicate == nil || selectionPredicate(treasureObj)) if isCandidate && counter < effectiveHowMany { selected = append(selected, treasureObj) counter++ } else {",
			"remainingTreasures = append(remainingTreasures, treasureObj) } } b.treasuresByOrder = remainingTreasures")
		std = std && c07InOrder(c07Body(fb, "beacon", "ReindexExpiration"),
			"for _, t := range b.treasuresByOrder { if _, drop := incomingKeys[t.GetKey()]; drop { continue } filtered = append(filtered, t) } b.treasuresByOrder = filtered",
			"for _, t := range treasures { if t.GetExpirationTime() == 0 { continue } b.treasuresByOrder = append(b.treasuresByOrder, t) }",
			"sort.Slice(b.treasuresByOrder, func(k, l int) bool { return b.treasuresByOrder[k].GetExpirationTime() < b.treasuresByOrder[l].GetExpirationTime() })")
		std = std && c07InOrder(c07Body(fb, "beacon", "ShiftMatching"),
			"for _, treasureObj := range b.treasuresByOrder {", "matched := predicate(treasureObj) if matched && counter < effectiveHowMany {",
			"shiftedTreasures = append(shiftedTreasures, clonedTreasure) delete(b.treasuresByKeys, treasureObj.GetKey()) counter++ } else {",
			"remainingTreasures = append(remainingTreasures, treasureObj) }", "b.treasuresByOrder = remainingTreasures")
	}
	if fsw, err := Load(c07Swamp); err != nil {
		std = false
	} else {
		cdm := c07Body(fsw, "swamp", "CloneAndDeleteMatchingTreasures")
		// every shifted record is deleted: directly, or re-validated with the same predicate under its guard
		// (sequentially the record is unchanged, so the claim goes through)
		std = std && (strings.Contains(cdm, "for _, d := range shiftedTreasures { s.deleteHandler(d.GetKey(), false) }") ||
			strings.Contains(cdm, "for _, d := range shiftedTreasures { if _, fresh := s.deleteHandlerIf(d.GetKey(), false, predicate); fresh != nil { claimedTreasures = append(claimedTreasures, fresh) } }"))
		std = std && c07InOrder(cdm,
			"case BeaconTypeCreationTime: s.buildBeacon(s.creationTimeBeaconASC, s.creationTimeBeaconDESC, BeaconTypeCreationTime)",
			"case BeaconTypeExpirationTime: s.buildBeacon(s.expirationTimeBeaconASC, s.expirationTimeBeaconDESC, BeaconTypeExpirationTime)",
			"case BeaconTypeUpdateTime: s.buildBeacon(s.updateTimeBeaconASC, s.updateTimeBeaconDESC, BeaconTypeUpdateTime)",
			"case BeaconTypeKey: s.buildBeacon(s.keyBeaconASC, s.keyBeaconDESC, BeaconTypeKey)",
			"bcn := s.GetBeacon(beaconType, order)",
			"shiftedTreasures, capReached := bcn.ShiftMatching(int(howMany), predicate, capPredicate, int(capMax))")
	}
	// deleteHandlerIf: a record that is not wanted any more goes back into the indexes the selection pass took it out of
	if fsw, err := Load(c07Swamp); err == nil {
		if dh := fsw.Func("swamp", "deleteHandlerIf"); dh != nil {
			body := c07Body(fsw, "swamp", "deleteHandlerIf")
			switch {
			case strings.Contains(body, "if stillWanted != nil && !stillWanted(treasureObj) { s.addTreasureToBeacons(treasureObj) return nil, nil }"):
				fs.Tri("claimLoserRefiled", Yes, c07At(c07Swamp, fsw, dh))
			case strings.Contains(body, "if stillWanted != nil && !stillWanted(treasureObj) { return nil, nil }"):
				fs.Tri("claimLoserRefiled", No, c07At(c07Swamp, fsw, dh))
			}
		}
	}
	if std && shape { // (a shape that is not found is "unknown", never "no")
		fs.Tri("claimPathsStandard", Yes, where)
	}
}
