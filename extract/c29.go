package main

import (
	"go/ast"
	"strings"
)

// C29 facts: how the name area is written and found again (writer.go, types.go, reader.go, explorer/scanner.go).
const c29Scanner = "app/server/explorer/scanner.go"

func init() {
	Register("C29", Extractor{Import: "Hv.Props.C29", Type: "Hv.C29.Facts", Run: func(fs *Facts) {
		ty, e1 := Load(c01Types)
		wr, e2 := Load(c01Writer)
		rd, e3 := Load(c01Reader)
		sc, e4 := Load(c29Scanner)
		for _, e := range []error{e1, e2, e3, e4} {
			if e != nil {
				fs.Err("%v", e)
			}
		}
		c29Writer(fs, wr, ty)
		c29Types(fs, ty)
		c29Reader(fs, rd)
		c29Scan(fs, sc)
		c29OpenAndRescan(fs, wr)
	}})
}

func c29Norm(f *File, n ast.Node) string { return strings.ReplaceAll(f.Str(n), " ", "") }

func c29Writer(fs *Facts, f *File, ty *File) {
	if f == nil || ty == nil || f.Func("FileWriter", "createNewFile") == nil || ty.Func("FileHeader", "Serialize") == nil {
		fs.OptNat("nameLenBytes", 0, false, c01Writer)
		fs.Tri("writesNameAfterHeader", Unknown, c01Writer)
		fs.Tri("rejectsLongName", Unknown, c01Writer)
		return
	}
	fd := f.Func("FileWriter", "createNewFile")
	where := c01Writer + ":" + itoa(f.Line(fd))
	// width: header field written with PutUint16(…, h.NameLength) and set from uint16(len(nameBytes))
	w := 0
	for _, c := range ty.CallsPrefix(ty.Func("FileHeader", "Serialize").Body, "binary.LittleEndian.PutUint") {
		if len(c.Args) == 2 && ty.Str(c.Args[1]) == "h.NameLength" {
			w = c01Bits(strings.TrimPrefix(ty.Str(c.Fun), "binary.LittleEndian.PutUint"))
		}
	}
	set := false
	for _, st := range f.Stmts(fd.Body) {
		if as, ok := st.(*ast.AssignStmt); ok && len(as.Lhs) == 1 && f.Str(as.Lhs[0]) == "fw.header.NameLength" && c29Norm(f, as.Rhs[0]) == "uint16(len(nameBytes))" {
			set = true
		}
	}
	fs.OptNat("nameLenBytes", w/8, w == 16 && set, where)
	// order: header write, then name bytes
	var writes []string
	var createPos = fd.End()
	for _, c := range f.Calls(fd.Body, "os.Create") {
		createPos = c.Pos()
	}
	for _, c := range f.Calls(fd.Body, "file.Write") {
		if len(c.Args) == 1 {
			writes = append(writes, c29Norm(f, c.Args[0]))
		}
	}
	// the name bytes directly behind the 64 header bytes: two writes, or one write of header ++ name
	switch {
	case len(writes) == 2 && writes[0] == "fw.header.Serialize()" && writes[1] == "nameBytes",
		len(writes) == 1 && writes[0] == "append(fw.header.Serialize(),nameBytes...)":
		fs.Tri("writesNameAfterHeader", Yes, where)
	default:
		fs.Tri("writesNameAfterHeader", Unknown, where) // another layout: not recognised (never "no")
	}
	// guard before os.Create
	guard := false
	for _, is := range c04Ifs(f, fd.Body) {
		c := c04Cond(f, is)
		if is.Pos() < createPos && c01Returns(is.Body) &&
			(c == "len(nameBytes)>math.MaxUint16" || c == "len(nameBytes)>65535" || c == "len(fw.swampName)>math.MaxUint16" || c == "len(fw.swampName)>65535") {
			guard = true
		}
	}
	fs.Tri("rejectsLongName", TriOf(guard), where)
}

func c29Types(fs *Facts, f *File) {
	if f == nil || f.Func("FileHeader", "Deserialize") == nil || f.Func("FileHeader", "DataStartOffset") == nil {
		fs.Tri("v2ZeroesNameLength", Unknown, c01Types)
		fs.Tri("dataStartUsesNameLength", Unknown, c01Types)
		return
	}
	de := f.Func("FileHeader", "Deserialize")
	zero := false
	for _, is := range c04Ifs(f, de.Body) {
		if c04Cond(f, is) == "h.Version==Version3" && is.Else != nil &&
			strings.Contains(c29Norm(f, is.Body), "h.NameLength=binary.LittleEndian.Uint16(buf[44:46])") &&
			strings.Contains(c29Norm(f, is.Else), "h.NameLength=0") {
			zero = true
		}
	}
	fs.Tri("v2ZeroesNameLength", ShapeTri(zero), c01Types+":"+itoa(f.Line(de)))
	ds := f.Func("FileHeader", "DataStartOffset")
	body := c29Norm(f, ds.Body)
	ok := strings.Contains(body, "ifh.Version==Version3{returnint64(FileHeaderSize)+int64(h.NameLength)}") &&
		strings.HasSuffix(strings.TrimSuffix(body, "}"), "returnint64(FileHeaderSize)")
	fs.Tri("dataStartUsesNameLength", ShapeTri(ok), c01Types+":"+itoa(f.Line(ds)))
}

func c29Reader(fs *Facts, f *File) {
	names := []string{"nameReadGuardedByV3", "v2Fallback", "loadIndexMetaFallback"}
	if f == nil || f.Func("", "NewFileReader") == nil || f.Func("", "ReadSwampName") == nil || f.Func("FileReader", "LoadIndex") == nil {
		for _, n := range names {
			fs.Tri(n, Unknown, c01Reader)
		}
		return
	}
	nr := f.Func("", "NewFileReader")
	guard := false
	for _, is := range c04Ifs(f, nr.Body) {
		if c04Cond(f, is) == "header.IsV3()&&header.NameLength>0" && strings.Contains(c29Norm(f, is.Body), "make([]byte,header.NameLength)") &&
			strings.Contains(c29Norm(f, is.Body), "fr.swampName=string(nameBuf)") {
			guard = true
		}
	}
	fs.Tri("nameReadGuardedByV3", ShapeTri(guard), c01Reader+":"+itoa(f.Line(nr)))
	rs := f.Func("", "ReadSwampName")
	body := c29Norm(f, rs.Body)
	v3ret := strings.Contains(body, "iffr.header.IsV3(){returnfr.swampName,nil}")
	fallback := strings.Contains(body, "_,swampName,err:=fr.LoadIndex()") && strings.Contains(body, "returnswampName,nil")
	switch {
	case !v3ret:
		fs.Tri("v2Fallback", Unknown, c01Reader+":"+itoa(f.Line(rs)))
	default:
		fs.Tri("v2Fallback", Tri3(fallback, !strings.Contains(body, "LoadIndex")), c01Reader+":"+itoa(f.Line(rs)))
	}
	li := f.Func("FileReader", "LoadIndex")
	lb := c29Norm(f, li.Body)
	meta := strings.Contains(lb, "swampName:=fr.swampName") &&
		strings.Contains(lb, `ifswampName==""&&entry.Key==MetadataEntryKey&&len(entry.Data)>0{swampName=string(entry.Data)}`)
	key := false
	ast.Inspect(f.AST, func(x ast.Node) bool {
		if vs, ok := x.(*ast.ValueSpec); ok && len(vs.Names) == 1 && vs.Names[0].Name == "MetadataEntryKey" && len(vs.Values) == 1 && f.Str(vs.Values[0]) == `"__swamp_meta__"` {
			key = true
		}
		return true
	})
	fs.Tri("loadIndexMetaFallback", ShapeTri(meta && key), c01Reader+":"+itoa(f.Line(li)))
}

func c29Scan(fs *Facts, f *File) {
	if f == nil || f.Func("Explorer", "scanFile") == nil {
		fs.Tri("scanFallback", Unknown, c29Scanner)
		fs.Tri("scanSplits3", Unknown, c29Scanner)
		return
	}
	fd := f.Func("Explorer", "scanFile")
	b := c29Norm(f, fd.Body)
	fb := strings.Contains(b, "swampName:=reader.GetSwampName()") && strings.Contains(b, `ifswampName==""{`) &&
		strings.Contains(b, "ifentry.Operation==v2.OpMetadata&&entry.Key==v2.MetadataEntryKey{swampName=string(entry.Data)returnfalse") &&
		strings.Contains(b, `ifswampName==""{`) && strings.Contains(b, "returnnil,nil")
	sp := strings.Contains(b, `parts:=strings.SplitN(swampName,"/",3)`) && (strings.Contains(b, "iflen(parts)!=3{") || strings.Contains(b, "iflen(parts)<3{")) &&
		strings.Contains(b, "Sanctuary:parts[0],Realm:parts[1],Swamp:parts[2]")
	where := c29Scanner + ":" + itoa(f.Line(fd))
	unkIfNot := func(name string, ok bool) {
		if ok {
			fs.Tri(name, Yes, where)
		} else {
			fs.Tri(name, Unknown, where) // unrecognised is unknown, never "no"
		}
	}
	unkIfNot("scanFallback", fb)
	unkIfNot("scanSplits3", sp)
}

// c29OpenAndRescan: openExistingFile re-creates a file shorter than header (+ name); Explorer.Scan
// calls e.idx.clear() before e.scanDirectory.
func c29OpenAndRescan(fs *Facts, wr *File) {
	rec := Unknown
	if wr != nil {
		if fd := wr.Func("FileWriter", "openExistingFile"); fd != nil {
			b := c29Norm(wr, fd.Body)
			rec = ShapeTri(strings.Contains(b, "ifinfo.Size()<FileHeaderSize{file.Close()returnfw.createNewFile()}") &&
				strings.Contains(b, "ifinfo.Size()<fw.header.DataStartOffset(){") &&
				strings.Count(b, "returnfw.createNewFile()") == 2)
		}
	}
	fs.Tri("openRecreatesShortFile", rec, c01Writer)
	const ex = "app/server/explorer/explorer.go"
	clr := Unknown
	if f, err := Load(ex); err == nil {
		if fd := f.Func("Explorer", "Scan"); fd != nil {
			clears, scans := f.Calls(fd.Body, "e.idx.clear"), f.Calls(fd.Body, "e.scanDirectory")
			clr = Tri3(len(clears) == 1 && len(scans) == 1 && clears[0].Pos() < scans[0].Pos(), len(clears) == 0 && len(scans) == 1)
		}
	} else {
		fs.Err("%v", err)
	}
	fs.Tri("scanClearsIndex", clr, ex)
	// the TUI opening a realm: all swamps (ListAllSwamps, or ListSwamps inside a loop that advances Offset),
	// or one ListSwamps call whose Limit the explorer clamps to 1000
	const tui = "app/hydraidectl/cmd/explore/model.go"
	t := Unknown
	if f, err := Load(tui); err == nil {
		if fd := f.Func("Model", "drillDown"); fd != nil {
			inLoop, single := false, 0
			ast.Inspect(fd.Body, func(x ast.Node) bool {
				if fr, ok := x.(*ast.ForStmt); ok {
					if len(f.Calls(fr.Body, "m.explorer.ListSwamps")) == 1 && f.Contains(fr.Body, "Offset") {
						inLoop = true
					}
				}
				return true
			})
			single = len(f.Calls(fd.Body, "m.explorer.ListSwamps"))
			all := len(f.Calls(fd.Body, "m.explorer.ListAllSwamps"))
			switch {
			case inLoop || (all == 1 && single == 0):
				t = Yes
			case single == 1 && all == 0:
				t = No
			}
		}
	} else {
		fs.Err("%v", err)
	}
	fs.Tri("tuiListsAll", t, tui)
}
