package main

import (
	"go/ast"
	"go/token"
	"strconv"
	"strings"
)

// C21 facts, all from app/core/settings/settings.go:
//
//	lookup   iteratesMap : GetBySwampName ranges over the map field `s.patterns` and returns from
//	                       inside the loop body under a ComparePattern test (first match wins)
//	         ranked      : the range body has no return; under the ComparePattern test it compares
//	                       a rank `F(pattern)` with a best-so-far variable initialised to -1 and
//	                       assigns the candidate
//	cmp      gt|ge|lt|le : that comparison, normalised to "candidate OP best"
//	wRealm / wSwamp      : in F, the constant added under `X.GetRealmName() != "*"` / `X.GetSwampName() != "*"`
//	persists{InMem,Idle,Wi,Size} : the field is written into the PatternModel by RegisterPattern,
//	                       has a json tag other than "-", and is read back into the SwampSetting
//	                       literal of loadSettingsFromFilesystem
func init() {
	Register("C21", Extractor{Import: "Hv.Props.C21", Type: "Hv.C21.Facts", Run: func(fs *Facts) {
		const path = "app/core/settings/settings.go"
		unknownAll := func() {
			fs.Enum("lookup", "unknown", path)
			fs.Enum("cmp", "unknown", path)
			fs.OptNat("wRealm", 0, false, path)
			fs.OptNat("wSwamp", 0, false, path)
			for _, n := range []string{"persistsInMem", "persistsIdle", "persistsWi", "persistsSize", "unchangedChecksType", "saveAtomic", "unchangedChecksDisk"} {
				fs.Tri(n, Unknown, path)
			}
			fs.Tri("comparePatternExact", Unknown, "app/name/name.go")
			fs.Tri("summonResolvesFresh", Unknown, "app/core/hydra/hydra.go")
		}
		f, err := Load(path)
		if err != nil {
			fs.Err("%v", err)
			unknownAll()
			return
		}
		unknownAll()
		c21Lookup(fs, f, path)
		c21Persist(fs, f, path)
		c21Unchanged(fs, f, path)
		c21SaveAtomic(fs, f, path)
		c21Glue(fs)
	}})
}

func c21FieldIsMap(f *File, structName, field string) bool {
	ok := false
	ast.Inspect(f.AST, func(n ast.Node) bool {
		ts, is := n.(*ast.TypeSpec)
		if !is || ts.Name.Name != structName {
			return true
		}
		st, is := ts.Type.(*ast.StructType)
		if !is {
			return false
		}
		for _, fl := range st.Fields.List {
			for _, nm := range fl.Names {
				if nm.Name == field {
					_, ok = fl.Type.(*ast.MapType)
				}
			}
		}
		return false
	})
	return ok
}

func c21HasReturn(n ast.Node) bool {
	found := false
	ast.Inspect(n, func(x ast.Node) bool {
		if _, ok := x.(*ast.FuncLit); ok {
			return false
		}
		if _, ok := x.(*ast.ReturnStmt); ok {
			found = true
		}
		return true
	})
	return found
}

func c21Lookup(fs *Facts, f *File, path string) {
	fd := miscFunc(f, "settings", "GetBySwampName")
	if fd == nil || fd.Body == nil || !c21FieldIsMap(f, "settings", "patterns") {
		return
	}
	var loops []*ast.RangeStmt
	ast.Inspect(fd.Body, func(n ast.Node) bool {
		if r, ok := n.(*ast.RangeStmt); ok && f.Str(r.X) == "s.patterns" {
			loops = append(loops, r)
		}
		return true
	})
	if len(loops) != 1 {
		return
	}
	loop := loops[0]
	miscUnContinue(loop.Body)
	where := path + ":" + itoa(f.Line(loop))
	if len(f.CallsSuffix(loop.Body, ".ComparePattern")) != 1 {
		return
	}
	if c21HasReturn(loop.Body) {
		// first match wins: `if swampName.ComparePattern(..) { return pi }` directly in the body
		for _, st := range loop.Body.List {
			if is, ok := st.(*ast.IfStmt); ok && len(f.CallsSuffix(is.Cond, ".ComparePattern")) == 1 && c21HasReturn(is.Body) && !strings.HasPrefix(f.Str(is.Cond), "!") {
				fs.Enum("lookup", "iteratesMap", where)
				return
			}
		}
		return
	}
	// ranked: find the comparison `cand OP best` guarding an assignment of the loop's value variable
	val := ""
	if loop.Value != nil {
		val = f.Str(loop.Value)
	}
	if val == "" || val == "_" {
		return
	}
	// variables initialised to -1 before the loop
	minusOne := map[string]bool{}
	for _, st := range fd.Body.List {
		if st.Pos() >= loop.Pos() {
			break
		}
		ast.Inspect(st, func(n ast.Node) bool {
			if as, ok := n.(*ast.AssignStmt); ok && len(as.Lhs) == len(as.Rhs) {
				for i := range as.Lhs {
					if f.Str(as.Rhs[i]) == "-1" {
						minusOne[f.Str(as.Lhs[i])] = true
					}
				}
			}
			return true
		})
	}
	// candidate rank: a call F(x) used directly, or a variable defined from such a call inside the loop
	rankFn := ""
	candVars := map[string]string{}
	ast.Inspect(loop.Body, func(n ast.Node) bool {
		if as, ok := n.(*ast.AssignStmt); ok && as.Tok == token.DEFINE && len(as.Lhs) == 1 && len(as.Rhs) == 1 {
			if c, ok := as.Rhs[0].(*ast.CallExpr); ok {
				if id, ok := c.Fun.(*ast.Ident); ok {
					candVars[f.Str(as.Lhs[0])] = id.Name
				}
			}
		}
		return true
	})
	type hit struct {
		cmp, fn string
		line    int
	}
	var hits []hit
	ast.Inspect(loop.Body, func(n ast.Node) bool {
		is, ok := n.(*ast.IfStmt)
		if !ok {
			return true
		}
		be, ok := is.Cond.(*ast.BinaryExpr)
		if !ok {
			return true
		}
		// the body must assign the loop value to something and update the best rank
		assignsVal, updatesBest := false, ""
		for _, st := range is.Body.List {
			if as, ok := st.(*ast.AssignStmt); ok && as.Tok == token.ASSIGN {
				for i := range as.Rhs {
					if f.Str(as.Rhs[i]) == val {
						assignsVal = true
					}
					if i < len(as.Lhs) && minusOne[f.Str(as.Lhs[i])] {
						updatesBest = f.Str(as.Lhs[i])
					}
				}
			}
		}
		if !assignsVal || updatesBest == "" {
			return true
		}
		fnOf := func(e ast.Expr) string {
			if c, ok := e.(*ast.CallExpr); ok {
				if id, ok := c.Fun.(*ast.Ident); ok {
					return id.Name
				}
			}
			return candVars[f.Str(e)]
		}
		op := map[token.Token]string{token.GTR: "gt", token.GEQ: "ge", token.LSS: "lt", token.LEQ: "le"}
		flip := map[string]string{"gt": "lt", "ge": "le", "lt": "gt", "le": "ge"}
		o, ok := op[be.Op]
		if !ok {
			return true
		}
		switch {
		case fnOf(be.X) != "" && f.Str(be.Y) == updatesBest:
			hits = append(hits, hit{o, fnOf(be.X), f.Line(is)})
		case fnOf(be.Y) != "" && f.Str(be.X) == updatesBest:
			hits = append(hits, hit{flip[o], fnOf(be.Y), f.Line(is)})
		}
		return true
	})
	if len(hits) != 1 {
		return
	}
	rankFn = hits[0].fn
	// the best entry must be what is returned after the loop when set; we only require that the
	// function has a return mentioning a variable assigned from the loop value
	fs.Enum("lookup", "ranked", where)
	fs.Enum("cmp", hits[0].cmp, path+":"+itoa(hits[0].line))
	// weights
	rf := miscFunc(f, "", rankFn)
	if rf == nil || rf.Body == nil {
		return
	}
	weights := map[string]int{}
	count := map[string]int{}
	okShape := true
	for _, st := range rf.Body.List {
		switch x := st.(type) {
		case *ast.IfStmt:
			be, ok := x.Cond.(*ast.BinaryExpr)
			if !ok || be.Op != token.NEQ || f.Str(be.Y) != `"*"` || len(x.Body.List) != 1 || x.Else != nil {
				okShape = false
				continue
			}
			as, ok := x.Body.List[0].(*ast.AssignStmt)
			if !ok || as.Tok != token.ADD_ASSIGN || len(as.Rhs) != 1 {
				okShape = false
				continue
			}
			k, err := strconv.Atoi(f.Str(as.Rhs[0]))
			if err != nil || k < 0 {
				okShape = false
				continue
			}
			lhs := f.Str(be.X)
			switch {
			case strings.HasSuffix(lhs, ".GetRealmName()"):
				weights["wRealm"] = k
				count["wRealm"]++
			case strings.HasSuffix(lhs, ".GetSwampName()"):
				weights["wSwamp"] = k
				count["wSwamp"]++
			default:
				okShape = false
			}
		case *ast.AssignStmt: // rank := 0
			if !(x.Tok == token.DEFINE && len(x.Rhs) == 1 && f.Str(x.Rhs[0]) == "0") {
				okShape = false
			}
		case *ast.ReturnStmt:
		default:
			okShape = false
		}
	}
	if okShape && count["wRealm"] == 1 && count["wSwamp"] == 1 {
		w := path + ":" + itoa(f.Line(rf))
		fs.OptNat("wRealm", weights["wRealm"], true, w)
		fs.OptNat("wSwamp", weights["wSwamp"], true, w)
	}
}

func c21Persist(fs *Facts, f *File, path string) {
	// (fact, PatternModel field, SwampSetting key)
	fields := []struct{ fact, pm, ss string }{
		{"persistsInMem", "InMemory", "InMemory"},
		{"persistsIdle", "CloseAfterIdleSec", "CloseAfterIdleSec"},
		{"persistsWi", "WriteIntervalSec", "WriteIntervalSec"},
		{"persistsSize", "MaxFileSizeByte", "MaxFileSizeByte"},
	}
	reg := miscFunc(f, "settings", "RegisterPattern")
	ld := miscFunc(f, "settings", "loadSettingsFromFilesystem")
	if reg == nil || ld == nil {
		return
	}
	// json tags of PatternModel
	tags := map[string]string{}
	ast.Inspect(f.AST, func(n ast.Node) bool {
		ts, ok := n.(*ast.TypeSpec)
		if !ok || ts.Name.Name != "PatternModel" {
			return true
		}
		if st, ok := ts.Type.(*ast.StructType); ok {
			for _, fl := range st.Fields.List {
				for _, nm := range fl.Names {
					t := ""
					if fl.Tag != nil {
						t = fl.Tag.Value
					}
					tags[nm.Name] = t
				}
			}
		}
		return false
	})
	if len(tags) == 0 {
		return
	}
	// the range variable of `for _, pattern := range s.model.Patterns` in the loader
	var loadLit *ast.CompositeLit
	loadVar := ""
	ast.Inspect(ld.Body, func(n ast.Node) bool {
		if r, ok := n.(*ast.RangeStmt); ok && strings.HasSuffix(f.Str(r.X), ".Patterns") && r.Value != nil {
			loadVar = f.Str(r.Value)
			ast.Inspect(r.Body, func(m ast.Node) bool {
				if cl, ok := m.(*ast.CompositeLit); ok && strings.HasSuffix(f.Str(cl.Type), "SwampSetting") {
					loadLit = cl
				}
				return true
			})
		}
		return true
	})
	if loadLit == nil || loadVar == "" {
		return
	}
	// the PatternModel literal and `pm.X = …` assignments in RegisterPattern — or, one level down, in a helper of this
	// file that RegisterPattern calls
	saved := map[string]bool{}
	scan := func(body ast.Node) {
		ast.Inspect(body, func(n ast.Node) bool {
			switch x := n.(type) {
			case *ast.CompositeLit:
				if f.Str(x.Type) == "PatternModel" {
					for _, el := range x.Elts {
						if kv, ok := el.(*ast.KeyValueExpr); ok {
							saved[f.Str(kv.Key)] = true
						}
					}
				}
			case *ast.AssignStmt:
				for _, l := range x.Lhs {
					if se, ok := l.(*ast.SelectorExpr); ok {
						if _, isPM := tags[se.Sel.Name]; isPM {
							saved[se.Sel.Name] = true
						}
					}
				}
			}
			return true
		})
	}
	scan(reg.Body)
	if !saved["NameCanonicalForm"] {
		ast.Inspect(reg.Body, func(n ast.Node) bool {
			if c, ok := n.(*ast.CallExpr); ok {
				callee := ""
				switch fn := c.Fun.(type) {
				case *ast.Ident:
					callee = fn.Name
				case *ast.SelectorExpr:
					callee = fn.Sel.Name
				}
				if h := f.Func("", callee); h != nil && h.Body != nil && h != reg {
					scan(h.Body)
				}
			}
			return true
		})
	}
	if !saved["NameCanonicalForm"] {
		return // the place where the model entry is built was not found: every persists* fact stays unknown
	}
	loaded := map[string]bool{}
	for _, el := range loadLit.Elts {
		if kv, ok := el.(*ast.KeyValueExpr); ok {
			loaded[f.Str(kv.Key)+"<-"+c21SelOf(f, kv.Value, loadVar)] = true
		}
	}
	where := path + ":" + itoa(f.Line(loadLit))
	for _, fl := range fields {
		tag, has := tags[fl.pm]
		ok := has && !strings.Contains(tag, `json:"-"`) && saved[fl.pm] && loaded[fl.ss+"<-"+fl.pm]
		fs.Tri(fl.fact, TriOf(ok), where)
	}
}

// c21SelOf returns X when the expression mentions exactly one selector `v.X` of variable v.
func c21SelOf(f *File, e ast.Expr, v string) string {
	out := ""
	n := 0
	ast.Inspect(e, func(x ast.Node) bool {
		if s, ok := x.(*ast.SelectorExpr); ok && f.Str(s.X) == v {
			out = s.Sel.Name
			n++
		}
		return true
	})
	if n == 1 {
		return out
	}
	return ""
}

// c21Unchanged: the "already registered and not changed" early return of RegisterPattern.
//
//	recognised shape: inside `if !inMemorySwamp {`, `if _, ok := s.patterns[pattern.Get()]; ok { if <cond> { return } }` where <cond>
//	compares GetCloseAfterIdle / GetWriteInterval / GetMaxFileSizeByte of the stored entry with the new values;
//	unchangedChecksType = yes when <cond> also requires `…GetSwampType() == setting.PermanentSwamp`, no when it does not.
func c21Unchanged(fs *Facts, f *File, path string) {
	fd := miscFunc(f, "settings", "RegisterPattern")
	if fd == nil || fd.Body == nil {
		return
	}
	var outer *ast.IfStmt
	for _, st := range fd.Body.List {
		if is, ok := st.(*ast.IfStmt); ok && f.Str(is.Cond) == "!inMemorySwamp" {
			outer = is
		}
	}
	if outer == nil {
		return
	}
	// no other return may precede the registration
	returns := 0
	ast.Inspect(fd.Body, func(n ast.Node) bool {
		if _, ok := n.(*ast.FuncLit); ok {
			return false
		}
		if _, ok := n.(*ast.ReturnStmt); ok {
			returns++
		}
		return true
	})
	if returns != 1 || len(outer.Body.List) == 0 {
		return
	}
	ex, ok := outer.Body.List[0].(*ast.IfStmt)
	if !ok || ex.Init == nil || f.Str(ex.Init) != "_, ok := s.patterns[pattern.Get()]" || f.Str(ex.Cond) != "ok" || len(ex.Body.List) != 1 {
		return
	}
	inner, ok := ex.Body.List[0].(*ast.IfStmt)
	if !ok || !c21HasReturn(inner.Body) {
		return
	}
	cond := f.Str(inner.Cond)
	base := strings.Contains(cond, "GetCloseAfterIdle() == time.Duration(closeAfterIdleSec)*time.Second") &&
		strings.Contains(cond, "GetWriteInterval() == time.Duration(filesystemSettings.WriteIntervalSec)*time.Second") &&
		strings.Contains(cond, "GetMaxFileSizeByte() == filesystemSettings.MaxFileSizeByte") && !strings.Contains(cond, "||")
	if !base {
		return
	}
	fs.Tri("unchangedChecksType", TriOf(strings.Contains(cond, "s.patterns[pattern.Get()].GetSwampType() == setting.PermanentSwamp &&")), path+":"+itoa(f.Line(inner)))
	// is the early return taken only while the file is up to date?  `!s.unsaved.Load() &&` must be a conjunct and
	// SaveSettingsToFilesystem must record its outcome: `defer func() { s.unsaved.Store(err != nil) }()`
	disk := No
	if strings.Contains(cond, "!s.unsaved.Load() &&") {
		disk = Unknown
		if sv := miscFunc(f, "settings", "SaveSettingsToFilesystem"); sv != nil && f.Contains(sv, "defer func() { s.unsaved.Store(err != nil) }()") &&
			sv.Type.Results != nil && len(sv.Type.Results.List) == 1 && len(sv.Type.Results.List[0].Names) == 1 && sv.Type.Results.List[0].Names[0].Name == "err" {
			disk = Yes
		}
	}
	fs.Tri("unchangedChecksDisk", disk, path+":"+itoa(f.Line(inner)))
}

// c21SaveAtomic: SaveSettingsToFilesystem.
//
//	no : the marshalled model goes straight to the final path with os.WriteFile(filePath, …)
//	yes: it is written to a temporary path and moved over the final one with os.Rename(<tmp>, filePath)
func c21SaveAtomic(fs *Facts, f *File, path string) {
	fd := miscFunc(f, "settings", "SaveSettingsToFilesystem")
	if fd == nil || fd.Body == nil || !f.Contains(fd, "filePath := path.Join(hydraSettingsFolderPath, fileName)") {
		return
	}
	writes := f.Calls(fd, "os.WriteFile")
	renames := f.Calls(fd, "os.Rename")
	where := path + ":" + itoa(f.Line(fd))
	switch {
	case len(writes) == 1 && len(renames) == 0 && f.Str(writes[0].Args[0]) == "filePath":
		fs.Tri("saveAtomic", No, where)
	case len(writes) == 1 && len(renames) == 1 && f.Str(writes[0].Args[0]) != "filePath" &&
		f.Str(renames[0].Args[0]) == f.Str(writes[0].Args[0]) && f.Str(renames[0].Args[1]) == "filePath":
		fs.Tri("saveAtomic", Yes, where)
	}
}

// c21Glue: the two places outside settings.go the resolution depends on.
//
//	comparePatternExact  yes: name.ComparePattern is exactly
//	                          if n.SanctuaryID != p.GetSanctuaryID() { return false }
//	                          if p.GetRealmName() != "*" && n.RealmName != p.GetRealmName() { return false }
//	                          if p.GetSwampName() != "*" && n.SwampName != p.GetSwampName() { return false }
//	                          return true
//	summonResolvesFresh  yes: hydra.createNewSwamp starts with `swampSettings := h.settingsInterface.GetBySwampName(swampName)`,
//	                          and swampSettings is assigned nowhere else in the function
func c21Glue(fs *Facts) {
	const npath = "app/name/name.go"
	if nf, err := Load(npath); err == nil {
		if fd := nf.Func("name", "ComparePattern"); fd != nil && fd.Body != nil && fd.Recv != nil && len(fd.Recv.List[0].Names) == 1 &&
			fd.Type.Params != nil && len(fd.Type.Params.List) == 1 && len(fd.Type.Params.List[0].Names) == 1 {
			c07Canon(fd, append([]string{"n", "p"}, c07LocalNames(fd)[2:]...))
			var got []string
			for _, st := range fd.Body.List {
				got = append(got, nf.Str(st))
			}
			want := []string{
				`if n.SanctuaryID != p.GetSanctuaryID() { return false }`,
				`if p.GetRealmName() != "*" && n.RealmName != p.GetRealmName() { return false }`,
				`if p.GetSwampName() != "*" && n.SwampName != p.GetSwampName() { return false }`,
				`return true`}
			if strings.Join(got, "\n") == strings.Join(want, "\n") {
				fs.Tri("comparePatternExact", Yes, npath+":"+itoa(nf.Line(fd)))
			}
		}
	} else {
		fs.Err("%v", err)
	}
	const hpath = "app/core/hydra/hydra.go"
	if hf, err := Load(hpath); err == nil {
		if fd := hf.Func("hydra", "createNewSwamp"); fd != nil && fd.Body != nil && len(fd.Body.List) > 0 {
			c07Canon(fd, append([]string{"h", "islandID", "swampName"}, c07LocalNames(fd)[3:]...))
			first := hf.Str(fd.Body.List[0]) == "swampSettings := h.settingsInterface.GetBySwampName(swampName)"
			assigns := 0
			ast.Inspect(fd, func(n ast.Node) bool {
				if as, ok := n.(*ast.AssignStmt); ok {
					for _, l := range as.Lhs {
						if hf.Str(l) == "swampSettings" {
							assigns++
						}
					}
				}
				if vs, ok := n.(*ast.ValueSpec); ok {
					for _, nm := range vs.Names {
						if nm.Name == "swampSettings" {
							assigns++
						}
					}
				}
				return true
			})
			if first && assigns == 1 {
				fs.Tri("summonResolvesFresh", Yes, hpath+":"+itoa(hf.Line(fd)))
			}
		}
	} else {
		fs.Err("%v", err)
	}
}
