package main

import (
	"go/ast"
	"go/parser"
	"go/token"
	"os"
	"path/filepath"
	"sort"
	"strings"
)

// One level of same-package helper calls is resolved before a function is matched against the
// shapes of this package, so that moving two statements into a helper does not make facts unknown:
//
//	h(args)             h has no results, no `return` in its body      → the body, parameters replaced
//	x = h(args) / x :=  h is `{ return E }`                            → x = E
//	                    h is `{ if C { return A } return B }`          → x = B; if C { x = A }
//
// The result is parsed again; the caller matches on the new *File / *ast.FuncDecl.

type c07Helper struct {
	file *File
	fd   *ast.FuncDecl
}

// helpers of the package directory of f (non-test files), by name; the same name twice → dropped
func c07Helpers(f *File) map[string]c07Helper {
	out := map[string]c07Helper{}
	dup := map[string]bool{}
	dir := filepath.Dir(f.Path)
	ents, err := os.ReadDir(filepath.Join(repoRoot, dir))
	if err != nil {
		return out
	}
	for _, e := range ents {
		nm := e.Name()
		if e.IsDir() || !strings.HasSuffix(nm, ".go") || strings.HasSuffix(nm, "_test.go") {
			continue
		}
		g := f
		if filepath.Join(dir, nm) != f.Path {
			if g, err = Load(filepath.Join(dir, nm)); err != nil {
				continue
			}
		}
		for _, d := range g.AST.Decls {
			if fd, ok := d.(*ast.FuncDecl); ok && fd.Body != nil {
				if _, seen := out[fd.Name.Name]; seen {
					dup[fd.Name.Name] = true
				}
				out[fd.Name.Name] = c07Helper{g, fd}
			}
		}
	}
	for n := range dup {
		delete(out, n)
	}
	return out
}

// c07Subst renders node n of helper h with its parameters (and receiver) replaced by the call's arguments
func c07Subst(h c07Helper, n ast.Node, args map[*ast.Object]string) string {
	type edit struct {
		from, to int
		text     string
	}
	base := int(n.Pos())
	src := string(h.file.Src[h.file.Fset.Position(n.Pos()).Offset:h.file.Fset.Position(n.End()).Offset])
	var eds []edit
	ast.Inspect(n, func(x ast.Node) bool {
		if id, ok := x.(*ast.Ident); ok && id.Obj != nil {
			if t, ok := args[id.Obj]; ok {
				eds = append(eds, edit{int(id.Pos()) - base, int(id.End()) - base, t})
			}
		}
		return true
	})
	sort.Slice(eds, func(i, j int) bool { return eds[i].from > eds[j].from })
	for _, e := range eds {
		src = src[:e.from] + e.text + src[e.to:]
	}
	return src
}

func c07HasReturn(n ast.Node) bool {
	found := false
	ast.Inspect(n, func(x ast.Node) bool {
		switch x.(type) {
		case *ast.ReturnStmt:
			found = true
		case *ast.FuncLit:
			return false
		}
		return true
	})
	return found
}

// Inlined returns fn of f with one level of helper calls resolved (or f, fd unchanged when nothing applies).
// keep: the functions the shapes themselves name — they are part of the vocabulary, not helpers.
func c07Inlined(f *File, recv, name string, keep ...string) (*File, *ast.FuncDecl) {
	fd := f.Func(recv, name)
	if fd == nil {
		return f, nil
	}
	helpers := c07Helpers(f)
	delete(helpers, name)
	for _, k := range keep {
		delete(helpers, k)
	}
	off := func(p token.Pos) int { return f.Fset.Position(p).Offset }
	type edit struct {
		from, to int
		text     string
	}
	var eds []edit
	bind := func(h c07Helper, call *ast.CallExpr) (map[*ast.Object]string, bool) {
		m := map[*ast.Object]string{}
		var params []*ast.Ident
		for _, fl := range h.fd.Type.Params.List {
			params = append(params, fl.Names...)
		}
		if len(params) != len(call.Args) || call.Ellipsis.IsValid() {
			return nil, false
		}
		for i, p := range params {
			if p.Obj != nil {
				m[p.Obj] = f.Str(call.Args[i])
			}
		}
		if h.fd.Recv != nil && len(h.fd.Recv.List) == 1 && len(h.fd.Recv.List[0].Names) == 1 {
			sel, ok := call.Fun.(*ast.SelectorExpr)
			if !ok {
				return nil, false
			}
			if r := h.fd.Recv.List[0].Names[0]; r.Obj != nil {
				m[r.Obj] = f.Str(sel.X)
			}
		} else if _, ok := call.Fun.(*ast.Ident); !ok {
			return nil, false
		}
		return m, true
	}
	helperOf := func(call *ast.CallExpr) (c07Helper, bool) {
		switch fn := call.Fun.(type) {
		case *ast.Ident:
			h, ok := helpers[fn.Name]
			return h, ok && h.fd.Recv == nil
		case *ast.SelectorExpr:
			if _, isIdent := fn.X.(*ast.Ident); !isIdent {
				return c07Helper{}, false
			}
			h, ok := helpers[fn.Sel.Name]
			return h, ok && h.fd.Recv != nil
		}
		return c07Helper{}, false
	}
	ast.Inspect(fd.Body, func(x ast.Node) bool {
		switch st := x.(type) {
		case *ast.ExprStmt:
			call, ok := st.X.(*ast.CallExpr)
			if !ok {
				return true
			}
			h, ok := helperOf(call)
			if !ok || h.fd.Type.Results != nil || c07HasReturn(h.fd.Body) || len(h.fd.Body.List) == 0 || len(h.fd.Body.List) > 6 {
				return true
			}
			m, ok := bind(h, call)
			if !ok {
				return true
			}
			var parts []string
			for _, s := range h.fd.Body.List {
				parts = append(parts, c07Subst(h, s, m))
			}
			eds = append(eds, edit{off(st.Pos()), off(st.End()), strings.Join(parts, "\n")})
			return false
		case *ast.AssignStmt:
			if len(st.Lhs) != 1 || len(st.Rhs) != 1 {
				return true
			}
			call, ok := st.Rhs[0].(*ast.CallExpr)
			if !ok {
				return true
			}
			h, ok := helperOf(call)
			if !ok || h.fd.Type.Results == nil || len(h.fd.Type.Results.List) != 1 {
				return true
			}
			m, ok := bind(h, call)
			if !ok {
				return true
			}
			lhs := f.Str(st.Lhs[0])
			body := h.fd.Body.List
			if len(body) == 1 {
				if r, ok := body[0].(*ast.ReturnStmt); ok && len(r.Results) == 1 {
					eds = append(eds, edit{off(st.Pos()), off(st.End()), lhs + " " + st.Tok.String() + " " + c07Subst(h, r.Results[0], m)})
					return false
				}
			}
			if len(body) == 2 {
				ifs, ok1 := body[0].(*ast.IfStmt)
				r2, ok2 := body[1].(*ast.ReturnStmt)
				if ok1 && ok2 && ifs.Init == nil && ifs.Else == nil && len(ifs.Body.List) == 1 && len(r2.Results) == 1 {
					if r1, ok := ifs.Body.List[0].(*ast.ReturnStmt); ok && len(r1.Results) == 1 {
						eds = append(eds, edit{off(st.Pos()), off(st.End()),
							lhs + " " + st.Tok.String() + " " + c07Subst(h, r2.Results[0], m) + "\nif " + c07Subst(h, ifs.Cond, m) + " {\n" + lhs + " = " + c07Subst(h, r1.Results[0], m) + "\n}"})
						return false
					}
				}
			}
		}
		return true
	})
	if len(eds) == 0 {
		return f, fd
	}
	sort.Slice(eds, func(i, j int) bool { return eds[i].from > eds[j].from })
	lo, hi := off(fd.Pos()), off(fd.End())
	src := string(f.Src)
	for _, e := range eds {
		src = src[:e.from] + e.text + src[e.to:]
		hi += len(e.text) - (e.to - e.from)
	}
	text := "package p\n" + src[lo:hi] + "\n"
	fset := token.NewFileSet()
	parsed, err := parser.ParseFile(fset, f.Path, text, 0)
	if err != nil || len(parsed.Decls) != 1 {
		return f, fd
	}
	nf := &File{Fset: fset, AST: parsed, Path: f.Path, Src: []byte(text)}
	return nf, parsed.Decls[0].(*ast.FuncDecl)
}
