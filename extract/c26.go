package main

// C26: the validation prefix of every gRPC handler of app/server/gateway as a guard program
// (grammar in lean/Hv/Misc/Request.lean), the defer discipline, checkSwampName and name.Load.
//
// The walker recognises a closed set of statement shapes.  Anything else that precedes the
// first engine call of a handler makes that handler `u` (unrecognised) and the verdict
// undetermined: the extractor never guesses.

import (
	"fmt"
	"go/ast"
	"go/token"
	"os"
	"path/filepath"
	"reflect"
	"regexp"
	"sort"
	"strings"
)

const c26Dir = "app/server/gateway"

type c26Fn struct {
	f  *File
	fd *ast.FuncDecl
}

type c26Ctx struct {
	funcs    map[string]c26Fn
	validFn  bool // isValidSwampName has the expected definition
	validLen bool // … including the length bound (65535 bytes) in front of the structural test
	badKeyFn bool // isValidKey exists but is not the expected definition
	clampsFrom   Tri // swamp.GetTreasuresByBeacon clamps a negative `from`
	writerRefuses Tri // v2.FileWriter.WriteEntry refuses empty / over-long keys
	writerRefusesName Tri // v2.FileWriter.createNewFile refuses a swamp name longer than 65535 bytes
	notes    []string
	respType map[string]int // response message -> number of fields (-1 unknown)
}

// per-scan environment
type c26Env struct {
	f         *File
	entry     map[string]bool   // identifiers denoting the current entry
	strEntry  map[string]bool   // identifiers that ARE the entry's name (string parameters)
	boolLoc   map[string]string // local bool -> condition (prefix notation)
	capVar    map[string]string // capErr variable -> atom
	existVar  map[string]bool   // `isExist` assigned from IsExistSwamp
	singleVar map[string]bool   // `checkExistence := len(in.GetSwamps()) == 1`
	perEntry  bool              // errors become per-entry results (…Many handlers)
	inGo      bool              // inside a goroutine started by the handler
	inExist   bool              // inside `if checkExist {`
	existPar  string            // name of the bool parameter `checkExist`
	errIdx    int               // index of the error result of the enclosing function, -1 if none
	nres      int
	depth     int
	top       bool // scanning the handler's own statement list
	keyVar    string // loop variable ranging over the key-bearing children of the entry (KeyValues, KeySlicePairs, Patches)
	nilIsOk   bool   // the response message has no fields: `return nil, nil` is an ordinary success
	derived   bool   // the entry loop ranges over a local slice the validation loop built (one element per request entry)
}

func (e *c26Env) clone() *c26Env {
	c := *e
	c.entry = map[string]bool{}
	for k, v := range e.entry {
		c.entry[k] = v
	}
	c.strEntry = map[string]bool{}
	for k, v := range e.strEntry {
		c.strEntry[k] = v
	}
	return &c
}

type c26Prog struct {
	steps   []string
	val     []string // first entry loop (no engine call)
	main    []string // entry loop that reaches the engine
	multi   bool
	mayStop bool     // the entry loop can return success before the last entry
	unknown []string // why
	ended   string   // "", "body", "return"
}

func (p *c26Prog) add(s string)        { p.steps = append(p.steps, s) }
func (p *c26Prog) bad(f string, a ...any) { p.unknown = append(p.unknown, fmt.Sprintf(f, a...)); p.steps = append(p.steps, "unknown") }

var c26BodyCall = regexp.MustCompile(`(\.SummonSwamp|lockerInterface\.Lock|lockerInterface\.Unlock|g\.SettingsInterface\.RegisterPattern|g\.SettingsInterface\.DeregisterPattern|g\.TelemetryCollector\.[A-Z]\w*|hydraInterface\.SubscribeTo\w*|stream\.Recv)$`)

var c26Harmless = regexp.MustCompile(`^(len|make|append|new|string|int|int8|int16|int32|int64|uint8|uint16|uint32|uint64|float32|float64|protoStr|buildKeySet|parseOptionalTimestamps)$|\.Get[A-Z]\w*$|^fmt\.Sprintf$|^slog\.\w+$|^status\.(Error|Errorf|FromError)$|^errors\.New$|^context\.\w+$|\.(Store|Load|Add|Enum|Code|Error|Err|Context|AsTime|Done)$|^uuid\.New$|^time\.\w+$|^timestamppb\.\w+$`)

var c26Writes = regexp.MustCompile(`\.(CreateTreasure|DeleteTreasure|CloneAndDelete\w*|Increment\w+|PatchFields|PatchExpired|Destroy|Save|RegisterPattern|DeregisterPattern|ForceCompaction|Uint32SlicePush|Uint32SliceDelete)\(|lockerInterface\.(Lock|Unlock)\(`)

func c26Key(msg string) string {
	if len(msg) > 32 {
		msg = msg[:32]
	}
	var b strings.Builder
	for _, r := range msg {
		if (r >= 'a' && r <= 'z') || (r >= 'A' && r <= 'Z') || (r >= '0' && r <= '9') {
			b.WriteRune(r)
		} else {
			b.WriteByte('_')
		}
	}
	if b.Len() == 0 {
		return "_"
	}
	return b.String()
}

func c26Code(s string) string {
	switch strings.TrimPrefix(s, "codes.") {
	case "InvalidArgument":
		return "IA"
	case "FailedPrecondition":
		return "FP"
	case "NotFound":
		return "NF"
	case "Internal":
		return "INT"
	case "Unavailable":
		return "UNAV"
	case "DeadlineExceeded":
		return "DL"
	}
	return "OTHER"
}

// status.Error(codes.X, MSG) -> "rej:X:key"
func (e *c26Env) statusErr(x ast.Expr) (string, bool) {
	c, ok := x.(*ast.CallExpr)
	if !ok || e.f.Str(c.Fun) != "status.Error" || len(c.Args) != 2 {
		return "", false
	}
	code := c26Code(e.f.Str(c.Args[0]))
	key := "~"
	switch m := c.Args[1].(type) {
	case *ast.BasicLit:
		if m.Kind == token.STRING {
			key = c26Key(strings.Trim(m.Value, "\"`"))
		}
	case *ast.CallExpr:
		if e.f.Str(m.Fun) == "fmt.Sprintf" && len(m.Args) > 0 {
			if l, ok := m.Args[0].(*ast.BasicLit); ok {
				s := strings.Trim(l.Value, "\"`")
				if i := strings.Index(s, "%"); i >= 0 {
					s = s[:i]
				}
				key = c26Key(s)
			}
		}
	}
	return "rej:" + code + ":" + key, true
}

// ---- expressions ---------------------------------------------------------

// entryExpr: does the expression denote a field/getter of the current entry?  returns the suffix
// after the entry variable ("", ".SwampName", ".GetKeys()", …)
func (e *c26Env) entrySuffix(x ast.Expr) (string, bool) {
	s := e.f.Str(x)
	for v := range e.entry {
		if s == v {
			return "", true
		}
		if strings.HasPrefix(s, v+".") {
			return s[len(v):], true
		}
	}
	return "", false
}

func (e *c26Env) isNameExpr(x ast.Expr) bool {
	s := e.f.Str(x)
	if e.strEntry[s] {
		return true
	}
	suf, ok := e.entrySuffix(x)
	if !ok {
		return false
	}
	switch suf {
	case ".SwampName", ".GetSwampName()", ".SwampPattern", ".GetSwampPattern()":
		return true
	}
	return false
}

// things seen that the model does not cover (reported with the facts, they do not change the verdict)
var c26Observations []string

// isValidSwampName includes the length bound (set before any program is scanned)
var c26ValidLen = false

func (e *c26Env) cond(x ast.Expr) (string, bool) {
	switch v := x.(type) {
	case *ast.ParenExpr:
		return e.cond(v.X)
	case *ast.UnaryExpr:
		if v.Op == token.NOT {
			if id, ok := v.X.(*ast.Ident); ok {
				if c, ok := e.boolLoc[id.Name]; ok {
					if strings.HasPrefix(c, "not ") {
						return strings.TrimPrefix(c, "not "), true
					}
					return "not " + c, true
				}
				if e.existVar[id.Name] {
					if e.inExist {
						return "notExistChk", true
					}
					return "notExist", true
				}
			}
			if c, ok := v.X.(*ast.CallExpr); ok && e.f.Str(c.Fun) == "isValidSwampName" && len(c.Args) == 1 && e.isNameExpr(c.Args[0]) {
				if c26ValidLen {
					// Go evaluates the length bound first, then the structure
					return "or nameLong nameInvalid", true
				}
				return "nameInvalid", true
			}
			if c, ok := v.X.(*ast.CallExpr); ok && e.f.Str(c.Fun) == "isValidKey" && len(c.Args) == 1 {
				if suf, ok := e.entrySuffix(c.Args[0]); ok && (suf == ".Key" || suf == ".GetKey()") {
					return "keyInvalid", true
				}
				if e.keyVar != "" && (e.f.Str(c.Args[0]) == e.keyVar+".GetKey()" || e.f.Str(c.Args[0]) == e.keyVar+".Key") {
					return "keyInvalid", true
				}
			}
			c, ok := e.cond(v.X)
			if !ok {
				return "", false
			}
			return "not " + c, true
		}
	case *ast.Ident:
		if c, ok := e.boolLoc[v.Name]; ok {
			return c, true
		}
	case *ast.BinaryExpr:
		if v.Op == token.LOR || v.Op == token.LAND {
			// `err != nil || !isExist` after IsExistSwamp: the error is hydra-internal, not request-dependent
			if v.Op == token.LOR && e.f.Str(v.X) == "err != nil" {
				return e.cond(v.Y)
			}
			if bx, ok := v.X.(*ast.BinaryExpr); ok && v.Op == token.LOR && bx.Op == token.NEQ && e.f.Str(bx.Y) == "nil" {
				if id, ok := bx.X.(*ast.Ident); ok && e.existVar["err:"+id.Name] {
					return e.cond(v.Y)
				}
			}
			l, ok1 := e.cond(v.X)
			r, ok2 := e.cond(v.Y)
			if !ok1 || !ok2 {
				return "", false
			}
			if v.Op == token.LOR {
				return "or " + l + " " + r, true
			}
			return "and " + l + " " + r, true
		}
		txt := e.f.Str(v)
		if txt == "g.TelemetryCollector == nil" {
			return "telemetryOff", true
		}
		if id, ok := v.X.(*ast.Ident); ok && v.Op == token.NEQ && e.f.Str(v.Y) == "nil" {
			if a, ok := e.capVar[id.Name]; ok {
				return a, true
			}
		}
		if e.isNameExpr(v.X) && v.Op == token.EQL && e.f.Str(v.Y) == `""` {
			return "nameEmpty", true
		}
		// len(E.GetX()) == 0
		if c, ok := v.X.(*ast.CallExpr); ok && e.f.Str(c.Fun) == "len" && len(c.Args) == 1 && v.Op == token.EQL && e.f.Str(v.Y) == "0" {
			if suf, ok := e.entrySuffix(c.Args[0]); ok {
				switch suf {
				case ".GetKeys()", ".Keys":
					return "keysLen0", true
				case ".GetPatches()", ".Patches":
					return "patchesEmpty", true
				case ".GetOps()", ".Ops":
					return "opsEmpty", true
				}
			}
		}
		// E.GetKeys()[0] == ""
		if ix, ok := v.X.(*ast.IndexExpr); ok && v.Op == token.EQL && e.f.Str(v.Y) == `""` && e.f.Str(ix.Index) == "0" {
			if suf, ok := e.entrySuffix(ix.X); ok && (suf == ".GetKeys()" || suf == ".Keys") {
				return "key0Empty", true
			}
		}
		if suf, ok := e.entrySuffix(v.X); ok && v.Op == token.EQL {
			y := e.f.Str(v.Y)
			switch {
			case (suf == ".GetKeys()" || suf == ".Keys") && y == "nil":
				return "keysNil", true
			case (suf == ".GetKeyValues()" || suf == ".KeyValues") && y == "nil":
				return "kvNil", true
			case (suf == ".IncrementBy" || suf == ".GetIncrementBy()") && y == "0":
				return "incZero", true
			case (suf == ".GetKey()" || suf == ".Key") && y == `""`:
				return "lockKeyEmpty", true
			case (suf == ".GetLockID()" || suf == ".LockID") && y == `""`:
				return "lockIdEmpty", true
			}
		}
	}
	return "", false
}

// harmless: evaluating the node cannot panic in a request-dependent way and has no control flow
// that leaves the enclosing block
func (e *c26Env) harmless(n ast.Node, guardText string) bool {
	if n == nil || reflect.ValueOf(n).IsNil() {
		return true
	}
	ok := true
	// maps created locally by make(map[…]…): indexing them on the left of an assignment is safe
	localMaps := map[string]bool{}
	ast.Inspect(n, func(x ast.Node) bool {
		if as, is := x.(*ast.AssignStmt); is && len(as.Lhs) == 1 && len(as.Rhs) == 1 {
			if c, is := as.Rhs[0].(*ast.CallExpr); is && e.f.Str(c.Fun) == "make" && len(c.Args) > 0 {
				if _, is := c.Args[0].(*ast.MapType); is {
					localMaps[e.f.Str(as.Lhs[0])] = true
				}
			}
		}
		return true
	})
	var visit func(x ast.Node) bool
	visit = func(x ast.Node) bool {
		if !ok || x == nil {
			return false
		}
		switch v := x.(type) {
		case *ast.FuncLit:
			return false // defining a closure evaluates nothing
		case *ast.ArrayType, *ast.MapType, *ast.ChanType, *ast.FuncType, *ast.StructType, *ast.InterfaceType:
			return false // type expressions
		case *ast.GenDecl:
			for _, sp := range v.Specs {
				if vs, is := sp.(*ast.ValueSpec); is {
					for _, val := range vs.Values {
						ast.Inspect(val, visit)
					}
				}
			}
			return false
		case *ast.CompositeLit:
			for _, el := range v.Elts {
				ast.Inspect(el, visit)
			}
			return false
		case *ast.AssignStmt:
			for _, l := range v.Lhs {
				if ix, is := l.(*ast.IndexExpr); is && localMaps[e.f.Str(ix.X)] {
					ast.Inspect(ix.Index, visit)
					continue
				}
				ast.Inspect(l, visit)
			}
			for _, r := range v.Rhs {
				ast.Inspect(r, visit)
			}
			return false
		case *ast.IfStmt:
			g2 := guardText + " " + e.f.Str(v.Cond)
			if v.Init != nil || !e.harmless(v.Cond, g2) || !e.harmless(v.Body, g2) || !e.harmless(v.Else, guardText) {
				ok = false
			}
			return false
		case *ast.IndexExpr, *ast.SliceExpr, *ast.TypeAssertExpr, *ast.GoStmt, *ast.SendStmt,
			*ast.ReturnStmt, *ast.BranchStmt, *ast.DeferStmt, *ast.SelectStmt:
			ok = false
		case *ast.StarExpr:
			if !strings.Contains(guardText, e.f.Str(v.X)+" != nil") {
				ok = false
			}
		case *ast.UnaryExpr:
			if v.Op == token.ARROW {
				ok = false
			}
		case *ast.BinaryExpr:
			if v.Op == token.QUO || v.Op == token.REM {
				ok = false
			}
		case *ast.CallExpr:
			fn := e.f.Str(v.Fun)
			if _, isLit := v.Fun.(*ast.FuncLit); isLit {
				ok = false
			} else if !c26Harmless.MatchString(fn) {
				ok = false
			} else if fn == "make" || fn == "new" {
				for _, a := range v.Args[1:] {
					ast.Inspect(a, visit)
				}
				return false
			}
		}
		return ok
	}
	ast.Inspect(n, visit)
	return ok
}

func (e *c26Env) hasBodyCall(n ast.Node) bool {
	found := false
	ast.Inspect(n, func(x ast.Node) bool {
		if c, ok := x.(*ast.CallExpr); ok && c26BodyCall.MatchString(e.f.Str(c.Fun)) {
			found = true
		}
		return !found
	})
	return found
}

// ---- returns -------------------------------------------------------------

// classifyReturn: "ok", "oknil", "rej:…", "err" (returns the checkSwampName error variable), "?"
func (e *c26Env) classifyReturn(r *ast.ReturnStmt) string {
	if len(r.Results) != e.nres {
		return "?"
	}
	if e.errIdx < 0 {
		return "ok" // helper that returns a per-entry record
	}
	ex := r.Results[e.errIdx]
	s := e.f.Str(ex)
	if s == "nil" {
		if e.nres == 2 && e.f.Str(r.Results[0]) == "nil" && !e.nilIsOk {
			return "oknil"
		}
		return "ok"
	}
	if rej, ok := e.statusErr(ex); ok {
		return rej
	}
	if s == "err" || s == "swampErr" {
		return "err"
	}
	if s == "stream.Context().Err()" {
		return "ok" // client went away; not a property of the request
	}
	return "?"
}

// ---- the scanner ---------------------------------------------------------

func (cx *c26Ctx) scan(e *c26Env, stmts []ast.Stmt, p *c26Prog) {
	f := e.f
	for i := 0; i < len(stmts) && p.ended == ""; i++ {
		st := stmts[i]
		next := func() ast.Stmt {
			if i+1 < len(stmts) {
				return stmts[i+1]
			}
			return nil
		}
		// goroutine workers that parse names (DestroyBulk)
		if cx.scanGo(e, st, p) {
			return
		}
		switch v := st.(type) {
		case *ast.ReturnStmt:
			switch c := e.classifyReturn(v); {
			case c == "ok" || c == "oknil":
				p.ended = "return"
			default:
				p.bad("%s:%d return not recognised: %s", f.Path, f.Line(v), f.Str(v))
				p.ended = "return"
			}
			return
		case *ast.DeferStmt:
			s := f.Str(v.Call)
			if strings.HasSuffix(s, ".CeaseVigil()") {
				continue
			}
			p.bad("%s:%d defer in the prefix: %s", f.Path, f.Line(v), s)
			return
		case *ast.RangeStmt:
			if e.top && c26EntriesRange.MatchString(f.Str(v.X)) {
				p.multi = true
				sub := e.clone()
				sub.top = false
				sub.boolLoc, sub.capVar, sub.existVar, sub.singleVar = e.boolLoc, e.capVar, e.existVar, e.singleVar
				if id, ok := v.Value.(*ast.Ident); ok {
					sub.entry = map[string]bool{id.Name: true}
				}
				_, sub.derived = v.X.(*ast.Ident)
				lp := &c26Prog{}
				cx.scan(sub, v.Body.List, lp)
				p.unknown = append(p.unknown, lp.unknown...)
				// a stream handler may end the loop early with a success (MaxResults reached)
				for _, st := range v.Body.List {
					ast.Inspect(st, func(n ast.Node) bool {
						if _, ok := n.(*ast.FuncLit); ok {
							return false
						}
						if r, ok := n.(*ast.ReturnStmt); ok && len(r.Results) == 1 && f.Str(r.Results[0]) == "nil" {
							p.mayStop = true
						}
						return true
					})
				}
				if lp.ended == "body" {
					p.main = append(p.main, lp.steps...)
					p.ended = "body"
					return
				}
				if lp.ended == "return" {
					p.bad("%s:%d loop body returns unconditionally", f.Path, f.Line(v))
					return
				}
				if len(p.val) > 0 {
					p.bad("%s:%d second validation loop", f.Path, f.Line(v))
					return
				}
				p.val = append(p.val, lp.steps...)
				continue
			}
			if suf, ok := e.entrySuffix(v.X); ok && c26KeyChildren[suf] {
				if id, ok := v.Value.(*ast.Ident); ok && len(v.Body.List) == 1 {
					if ifs, ok := v.Body.List[0].(*ast.IfStmt); ok {
						sub := e.clone()
						sub.boolLoc, sub.capVar, sub.existVar, sub.singleVar = e.boolLoc, e.capVar, e.existVar, e.singleVar
						sub.top = false
						sub.keyVar = id.Name
						lp := &c26Prog{}
						if cx.scanIf(sub, ifs, lp) && len(lp.steps) == 1 && strings.HasSuffix(lp.steps[0], " keyInvalid") {
							p.add(lp.steps[0])
							continue
						}
					}
				}
			}
			p.bad("%s:%d range not recognised: %s", f.Path, f.Line(v), f.Str(v.X))
			return
		case *ast.AssignStmt:
			if len(v.Rhs) == 1 {
				if call, ok := v.Rhs[0].(*ast.CallExpr); ok {
					fn := f.Str(call.Fun)
					switch {
					case fn == "checkSwampName":
						nx, _ := next().(*ast.IfStmt)
						if !cx.checkNameCall(e, call, f.Str(v.Lhs[len(v.Lhs)-1]), nx, p) {
							return
						}
						i++
						continue
					case fn == "name.Load":
						if len(call.Args) == 1 && e.isNameExpr(call.Args[0]) {
							if e.inGo {
								p.add("loadgo")
							} else {
								p.add("load")
							}
							continue
						}
						p.bad("%s:%d name.Load of %s", f.Path, f.Line(v), f.Str(call.Args[0]))
						return
					case fn == "buildCapPredicate" || fn == "buildBodyCapPredicate":
						if len(v.Lhs) == 3 && len(call.Args) == 1 {
							if suf, ok := e.entrySuffix(call.Args[0]); ok && suf == ".GetCap()" {
								a := "capErr"
								if fn == "buildBodyCapPredicate" {
									a = "bodyCapErr"
								}
								e.capVar[f.Str(v.Lhs[2])] = a
								continue
							}
						}
						p.bad("%s:%d cap predicate call", f.Path, f.Line(v))
						return
					case strings.HasSuffix(fn, ".IsExistSwamp"):
						if len(v.Lhs) == 2 {
							e.existVar[f.Str(v.Lhs[0])] = true
							continue
						}
					default:
						if h, ok := cx.funcs[fn]; ok && cx.isHelperCall(e, call) {
							if !cx.inline(e, h, call, v, next(), p) {
								return
							}
							// everything after a helper that reached the engine is response building
							return
						}
					}
				}
			}
			if e.hasBodyCall(v) {
				p.add("body")
				p.ended = "body"
				return
			}
			// local definitions the guards refer to
			if len(v.Lhs) == 1 && len(v.Rhs) == 1 {
				if id, ok := v.Lhs[0].(*ast.Ident); ok {
					rhs := f.Str(v.Rhs[0])
					if m := regexp.MustCompile(`^len\((\w+)\.GetSwamps\(\)\) == 1$`).FindStringSubmatch(rhs); m != nil && e.entry[m[1]] {
						e.singleVar[id.Name] = true
						continue
					}
					if b, ok := v.Rhs[0].(*ast.BinaryExpr); ok {
						if c, ok := b.X.(*ast.CallExpr); ok && f.Str(c.Fun) == "len" && b.Op == token.GTR && f.Str(b.Y) == "0" && len(c.Args) == 1 {
							if suf, ok := e.entrySuffix(c.Args[0]); ok && suf == ".GetOps()" {
								e.boolLoc[id.Name] = "not opsEmpty"
								continue
							}
						}
						if suf, ok := e.entrySuffix(b.X); ok && suf == ".GetMeta()" && b.Op == token.NEQ && f.Str(b.Y) == "nil" {
							e.boolLoc[id.Name] = "not metaNil"
							continue
						}
					}
				}
			}
			if e.harmless(v, "") {
				continue
			}
			p.bad("%s:%d assignment not recognised: %s", f.Path, f.Line(v), c26Short(f.Str(v)))
			return
		case *ast.DeclStmt:
			if e.harmless(v, "") {
				continue
			}
			p.bad("%s:%d declaration not recognised", f.Path, f.Line(v))
			return
		case *ast.ExprStmt:
			if e.hasBodyCall(v) {
				p.add("body")
				p.ended = "body"
				return
			}
			if e.harmless(v, "") {
				continue
			}
			p.bad("%s:%d statement not recognised: %s", f.Path, f.Line(v), c26Short(f.Str(v)))
			return
		case *ast.IncDecStmt:
			continue
		case *ast.IfStmt:
			if !cx.scanIf(e, v, p) {
				return
			}
		default:
			if e.hasBodyCall(st) {
				p.add("body")
				p.ended = "body"
				return
			}
			p.bad("%s:%d statement kind not recognised (%T)", f.Path, f.Line(st), st)
			return
		}
	}
}

func c26Short(s string) string {
	if len(s) > 90 {
		return s[:90] + "…"
	}
	return s
}

func (cx *c26Ctx) isHelperCall(e *c26Env, call *ast.CallExpr) bool {
	for _, a := range call.Args {
		if id, ok := a.(*ast.Ident); ok && e.entry[id.Name] {
			return true
		}
	}
	return false
}

// scanIf returns false when scanning must stop
func (cx *c26Ctx) scanIf(e *c26Env, v *ast.IfStmt, p *c26Prog) bool {
	f := e.f
	// `if _, err := checkSwampName(...); err != nil { return nil, err }`
	if as, ok := v.Init.(*ast.AssignStmt); ok && len(as.Rhs) == 1 {
		if call, ok := as.Rhs[0].(*ast.CallExpr); ok && f.Str(call.Fun) == "checkSwampName" {
			inner := &ast.IfStmt{If: v.If, Cond: v.Cond, Body: v.Body, Else: v.Else}
			return cx.checkNameCall(e, call, f.Str(as.Lhs[len(as.Lhs)-1]), inner, p)
		}
	}
	// `if !E.GetCreateIfNotExist() { if isExist, existErr := hydra.IsExistSwamp(…); existErr != nil || !isExist { <harmless>; return <ok> } }`
	// (PatchTreasures): without CreateIfNotExist a swamp that does not exist is answered per key instead of being summoned.  An
	// early SUCCESS on a subset of the requests the engine would otherwise see: the model keeps its `body` step for them (its
	// prediction `body, store=any` admits this answer), nothing can panic in the block, and no rejection is added.
	if u, ok := v.Cond.(*ast.UnaryExpr); ok && u.Op == token.NOT && v.Init == nil && v.Else == nil && len(v.Body.List) == 1 {
		if c, ok := u.X.(*ast.CallExpr); ok && len(c.Args) == 0 {
			if suf, ok := e.entrySuffix(c); ok && suf == ".GetCreateIfNotExist()" {
				if inner, ok := v.Body.List[0].(*ast.IfStmt); ok && inner.Else == nil && len(inner.Body.List) > 0 {
					if as, ok := inner.Init.(*ast.AssignStmt); ok && len(as.Rhs) == 1 && len(as.Lhs) == 2 && as.Tok == token.DEFINE {
						if call, ok := as.Rhs[0].(*ast.CallExpr); ok && strings.HasSuffix(f.Str(call.Fun), ".IsExistSwamp") {
							sub := e.clone()
							sub.boolLoc, sub.capVar, sub.singleVar = e.boolLoc, e.capVar, e.singleVar
							sub.existVar = map[string]bool{f.Str(as.Lhs[0]): true, "err:" + f.Str(as.Lhs[1]): true}
							cnd, okc := sub.cond(inner.Cond)
							n := len(inner.Body.List)
							ret, okr := inner.Body.List[n-1].(*ast.ReturnStmt)
							pre := &ast.BlockStmt{List: inner.Body.List[:n-1]}
							if okc && cnd == "notExist" && okr && e.classifyReturn(ret) == "ok" && e.harmless(pre, f.Str(inner.Cond)) {
								return true
							}
						}
					}
				}
			}
		}
	}
	// `if isExist, existErr := hydra.IsExistSwamp(island, name); existErr != nil || !isExist { … }`: the existence test
	// a handler makes itself before it summons (IsExistSwamp only looks, it does not create)
	if as, ok := v.Init.(*ast.AssignStmt); ok && len(as.Rhs) == 1 && len(as.Lhs) == 2 && as.Tok == token.DEFINE {
		if call, ok := as.Rhs[0].(*ast.CallExpr); ok && strings.HasSuffix(f.Str(call.Fun), ".IsExistSwamp") {
			e.existVar[f.Str(as.Lhs[0])] = true
			e.existVar["err:"+f.Str(as.Lhs[1])] = true
			inner := *v
			inner.Init = nil
			return cx.scanIf(e, &inner, p)
		}
	}
	if e.hasBodyCall(v) {
		p.add("body")
		p.ended = "body"
		return false
	}
	condTxt := f.Str(v.Cond)
	// `if checkExist { … }` inside checkSwampName
	if id, ok := v.Cond.(*ast.Ident); ok && e.existPar != "" && id.Name == e.existPar && v.Else == nil && v.Init == nil {
		sub := e.clone()
		sub.boolLoc, sub.capVar, sub.existVar, sub.singleVar = e.boolLoc, e.capVar, e.existVar, e.singleVar
		sub.inExist = true
		cx.scan(sub, v.Body.List, p)
		return p.ended == ""
	}
	// client-cancellation checks of the stream handlers
	if condTxt == "stream.Context().Err() != nil" {
		return true
	}
	// `if req == nil { …; continue }`: repeated message fields never hold nil on the wire
	if b, ok := v.Cond.(*ast.BinaryExpr); ok && b.Op == token.EQL && f.Str(b.Y) == "nil" {
		if id, ok := b.X.(*ast.Ident); ok && e.entry[id.Name] && v.Else == nil {
			return true
		}
	}
	// `if entry.missing != nil { response = append(response, entry.missing); continue }` in the loop over the local slice the
	// validation loop built: the answer an entry got there (its `early` outcome) is delivered at its place in the request order
	if b, ok := v.Cond.(*ast.BinaryExpr); ok && e.derived && b.Op == token.NEQ && f.Str(b.Y) == "nil" && v.Else == nil && v.Init == nil {
		if sel, ok := b.X.(*ast.SelectorExpr); ok {
			if id, ok := sel.X.(*ast.Ident); ok && e.entry[id.Name] && len(v.Body.List) == 2 {
				want := "response = append(response, " + f.Str(b.X) + ")"
				if br, ok := v.Body.List[1].(*ast.BranchStmt); ok && br.Tok == token.CONTINUE && f.Str(v.Body.List[0]) == want {
					return true
				}
			}
		}
	}
	// `if len(requests) == 0 { return &Resp{}, nil }`: same answer as zero loop iterations
	if regexp.MustCompile(`^len\((requests|\w+\.Get(Requests|Swamps|Queries)\(\))\) == 0$`).MatchString(condTxt) && v.Else == nil {
		if n := len(v.Body.List); n == 1 {
			if r, ok := v.Body.List[0].(*ast.ReturnStmt); ok && e.classifyReturn(r) == "ok" {
				return true
			}
		}
	}
	last := func(b *ast.BlockStmt) ast.Stmt {
		if b == nil || len(b.List) == 0 {
			return nil
		}
		return b.List[len(b.List)-1]
	}
	// guard: the block ends with return / continue and is otherwise harmless
	if v.Else == nil && v.Init == nil {
		l := last(v.Body)
		act := ""
		switch t := l.(type) {
		case *ast.ReturnStmt:
			switch c := e.classifyReturn(t); {
			case c == "ok":
				act = "early"
			case strings.HasPrefix(c, "rej:"):
				act = c
				if e.perEntry {
					act = "early"
				}
			case c == "oknil":
				act = ""
			}
		case *ast.BranchStmt:
			if t.Tok == token.CONTINUE {
				act = "early"
			}
		}
		if act != "" {
			c, ok := e.cond(v.Cond)
			pre := &ast.BlockStmt{List: v.Body.List[:len(v.Body.List)-1]}
			if ok && e.harmless(pre, condTxt) && e.condHarmless(v.Cond) {
				p.add("g " + act + " " + c)
				return true
			}
			p.bad("%s:%d guard not recognised: if %s", f.Path, f.Line(v), c26Short(condTxt))
			return false
		}
	}
	// no control flow inside: harmless
	if v.Init == nil && e.harmless(v.Body, condTxt) && e.condHarmless(v.Cond) && (v.Else == nil || e.harmless(v.Else, condTxt)) {
		return true
	}
	p.bad("%s:%d if not recognised: if %s", f.Path, f.Line(v), c26Short(condTxt))
	return false
}

// condHarmless: the condition itself (apart from recognised atoms) evaluates nothing dangerous.
// Index expressions are accepted only as the recognised `keys[0]` atom, which the model makes explicit.
func (e *c26Env) condHarmless(x ast.Expr) bool {
	ok := true
	ast.Inspect(x, func(n ast.Node) bool {
		switch v := n.(type) {
		case *ast.IndexExpr:
			if suf, is := e.entrySuffix(v.X); !(is && (suf == ".GetKeys()" || suf == ".Keys") && e.f.Str(v.Index) == "0") {
				ok = false
			}
			return false
		case *ast.SliceExpr, *ast.TypeAssertExpr:
			ok = false
		case *ast.StarExpr:
			if !strings.Contains(e.f.Str(x), e.f.Str(v.X)+" != nil") {
				ok = false
			}
		case *ast.CallExpr:
			fn := e.f.Str(v.Fun)
			if fn != "isValidSwampName" && fn != "isValidKey" && !c26Harmless.MatchString(fn) {
				ok = false
			}
		}
		return ok
	})
	return ok
}

// checkNameCall handles `x, err := checkSwampName(z, island, NAME, EXIST)` + the following `if err != nil`
func (cx *c26Ctx) checkNameCall(e *c26Env, call *ast.CallExpr, errVar string, nx *ast.IfStmt, p *c26Prog) bool {
	f := e.f
	if len(call.Args) != 4 || !e.isNameExpr(call.Args[2]) || nx == nil || f.Str(nx.Cond) != errVar+" != nil" || nx.Else != nil {
		p.bad("%s:%d checkSwampName call shape", f.Path, f.Line(call))
		return false
	}
	ex := ""
	switch a := f.Str(call.Args[3]); {
	case a == "true":
		ex = "yes"
	case a == "false":
		ex = "no"
	case e.singleVar[a]:
		ex = "single"
	default:
		p.bad("%s:%d checkSwampName exist argument %s", f.Path, f.Line(call), a)
		return false
	}
	body := f.Str(nx.Body)
	mode := ""
	var rets []*ast.ReturnStmt
	hasContinue := false
	ast.Inspect(nx.Body, func(n ast.Node) bool {
		switch t := n.(type) {
		case *ast.FuncLit:
			return false
		case *ast.ReturnStmt:
			rets = append(rets, t)
		case *ast.BranchStmt:
			if t.Tok == token.CONTINUE {
				hasContinue = true
			}
		}
		return true
	})
	retKinds := map[string]int{}
	wrap := ""
	for _, r := range rets {
		k := e.classifyReturn(r)
		if strings.HasPrefix(k, "rej:") {
			// status.Error(codes.X, err.Error())
			if strings.Contains(f.Str(r), errVar+".Error()") {
				wrap = strings.Split(k, ":")[1]
				k = "wrap"
			}
		}
		retKinds[k]++
	}
	only := func(ks ...string) bool {
		n := 0
		for _, k := range ks {
			n += retKinds[k]
		}
		return n == len(rets)
	}
	pre := &ast.BlockStmt{}
	switch {
	case len(rets) == 1 && retKinds["err"] == 1 && len(nx.Body.List) == 1 && !hasContinue:
		mode = "prop"
	case len(rets) == 1 && retKinds["wrap"] == 1 && len(nx.Body.List) == 1:
		mode = "wrap:" + wrap
	case strings.Contains(body, "codes.FailedPrecondition") && retKinds["ok"] >= 1 && retKinds["err"] == 1 && only("ok", "err") && !hasContinue:
		mode = "fp"
	case strings.Contains(body, "codes.NotFound") && retKinds["err"] == 1 && only("err") && hasContinue:
		mode = "nf"
	case strings.Contains(body, "st.Code() == codes.FailedPrecondition") && !strings.Contains(body, "codes.NotFound") && retKinds["err"] == 1 && only("err") && hasContinue:
		// Count: a missing swamp (FailedPrecondition from checkSwampName) is answered per entry, anything else fails the request
		mode = "fp"
	case len(rets) == 0 && hasContinue:
		mode = "all"
		pre.List = nx.Body.List[:len(nx.Body.List)-1]
		if !e.harmless(pre, "") {
			mode = ""
		}
	case e.errIdx < 0 && only("ok") && len(rets) >= 1:
		mode = "all" // helper that returns a per-entry record
	}
	if mode == "" {
		p.bad("%s:%d error handling after checkSwampName not recognised", f.Path, f.Line(nx))
		return false
	}
	if e.perEntry && (mode == "prop" || mode == "fp") {
		mode = "all"
	}
	p.add("cn " + ex + " " + mode)
	return true
}

// inline a helper `xxxOneSwamp(ctx, g, req)`; nx is the statement after the call
func (cx *c26Ctx) inline(e *c26Env, h c26Fn, call *ast.CallExpr, as *ast.AssignStmt, nx ast.Stmt, p *c26Prog) bool {
	f := e.f
	if e.depth > 2 {
		p.bad("%s:%d helper nesting", f.Path, f.Line(call))
		return false
	}
	sub := &c26Env{f: h.f, entry: map[string]bool{}, strEntry: map[string]bool{}, boolLoc: map[string]string{}, capVar: map[string]string{},
		existVar: map[string]bool{}, singleVar: map[string]bool{}, inGo: e.inGo, depth: e.depth + 1}
	// parameter that receives the entry
	idx := 0
	for _, fld := range h.fd.Type.Params.List {
		for _, nm := range fld.Names {
			if idx < len(call.Args) {
				if id, ok := call.Args[idx].(*ast.Ident); ok && e.entry[id.Name] {
					sub.entry[nm.Name] = true
				}
			}
			idx++
		}
	}
	sub.nres, sub.errIdx = c26Results(h.f, h.fd)
	// how does the caller treat the helper's error?
	perEntry := e.perEntry
	if sub.errIdx >= 0 {
		errVar := f.Str(as.Lhs[len(as.Lhs)-1])
		ifs, ok := nx.(*ast.IfStmt)
		if !ok || f.Str(ifs.Cond) != errVar+" != nil" {
			p.bad("%s:%d helper error not checked", f.Path, f.Line(call))
			return false
		}
		hasRet := false
		ast.Inspect(ifs.Body, func(n ast.Node) bool {
			if r, ok := n.(*ast.ReturnStmt); ok {
				hasRet = true
				if e.classifyReturn(r) != "err" {
					hasRet = false
					p.bad("%s:%d helper error is not propagated unchanged", f.Path, f.Line(r))
				}
			}
			return true
		})
		if !hasRet {
			perEntry = true
			if !e.harmless(ifs.Body, "") {
				p.bad("%s:%d per-entry error block", f.Path, f.Line(ifs))
				return false
			}
		}
	} else {
		perEntry = true
	}
	sub.perEntry = perEntry
	cx.scan(sub, h.fd.Body.List, p)
	if p.ended == "return" {
		// helper finished without the engine on the fall-through path: fine, the caller goes on
		p.ended = "body"
		p.bad("%s:%d helper %s never reaches the engine", f.Path, f.Line(call), h.fd.Name.Name)
		return false
	}
	return true
}

// scanGo: `go func() { for target := range ch { … name.Load(target…) … } }()` possibly inside a for loop
func (cx *c26Ctx) scanGo(e *c26Env, st ast.Stmt, p *c26Prog) bool {
	var gos []*ast.GoStmt
	ast.Inspect(st, func(n ast.Node) bool {
		if g, ok := n.(*ast.GoStmt); ok {
			gos = append(gos, g)
			return false
		}
		return true
	})
	if len(gos) == 0 {
		return false
	}
	for _, g := range gos {
		fl, ok := g.Call.Fun.(*ast.FuncLit)
		if !ok {
			p.bad("%s:%d go statement", e.f.Path, e.f.Line(g))
			p.ended = "body"
			return true
		}
		if !strings.Contains(e.f.Str(fl), "name.Load(") && !e.hasBodyCall(fl) {
			continue
		}
		// recover in this goroutine?
		recovers := false
		var rng *ast.RangeStmt
		for _, s := range fl.Body.List {
			if d, ok := s.(*ast.DeferStmt); ok && e.f.Str(d.Call) == "handlePanic()" {
				recovers = true
			}
			if r, ok := s.(*ast.RangeStmt); ok && rng == nil {
				rng = r
			}
		}
		if rng == nil || rng.Value != nil && rng.Key == nil {
			p.bad("%s:%d worker goroutine shape", e.f.Path, e.f.Line(g))
			p.ended = "body"
			return true
		}
		sub := e.clone()
		sub.boolLoc, sub.capVar, sub.existVar, sub.singleVar = map[string]string{}, map[string]string{}, map[string]bool{}, map[string]bool{}
		sub.inGo = !recovers
		sub.perEntry = true
		sub.errIdx, sub.nres = -1, 0
		if id, ok := rng.Key.(*ast.Ident); ok { // `for target := range workCh`
			sub.entry = map[string]bool{id.Name: true}
		}
		lp := &c26Prog{}
		cx.scan(sub, rng.Body.List, lp)
		p.unknown = append(p.unknown, lp.unknown...)
		p.multi = true
		p.main = append(p.main, lp.steps...)
		p.ended = "body"
		return true
	}
	return false
}

func c26Results(f *File, fd *ast.FuncDecl) (n int, errIdx int) {
	errIdx = -1
	if fd.Type.Results == nil {
		return 0, -1
	}
	for _, fld := range fd.Type.Results.List {
		k := len(fld.Names)
		if k == 0 {
			k = 1
		}
		for j := 0; j < k; j++ {
			if f.Str(fld.Type) == "error" {
				errIdx = n
			}
			n++
		}
	}
	return
}

// ---- handlers ------------------------------------------------------------

type c26Handler struct {
	name, flags, defers string
	val, main           []string
	why                 []string
	where               string
}

func (h c26Handler) String() string {
	return h.name + "|" + h.flags + "|" + h.defers + "|" + strings.Join(h.val, ";") + "|" + strings.Join(h.main, ";")
}

// repeated children of an entry that carry a treasure key
var c26KeyChildren = map[string]bool{".GetKeyValues()": true, ".KeyValues": true, ".KeySlicePairs": true, ".GetKeySlicePairs()": true,
	".GetPatches()": true, ".Patches": true}

var c26EntriesRange = regexp.MustCompile(`^(\w+\.Get(Swamps|Requests|Queries|Targets)\(\)|requests|swamps)$`)

func (cx *c26Ctx) handler(fn c26Fn, kind string) c26Handler {
	f, fd := fn.f, fn.fd
	h := c26Handler{name: fd.Name.Name, where: fmt.Sprintf("%s:%d", f.Path, f.Line(fd))}
	flags := map[byte]bool{}
	if kind != "unary" {
		flags['s'] = true
	}
	env := &c26Env{f: f, entry: map[string]bool{}, strEntry: map[string]bool{}, boolLoc: map[string]string{}, capVar: map[string]string{},
		existVar: map[string]bool{}, singleVar: map[string]bool{}}
	env.nres, env.errIdx = c26Results(f, fd)
	if kind == "unary" && fd.Type.Results != nil && len(fd.Type.Results.List) > 0 {
		if nf, ok := cx.respType[strings.TrimPrefix(f.Str(fd.Type.Results.List[0].Type), "*hydrapb.")]; ok && nf == 0 {
			env.nilIsOk = true
		}
	}
	// request parameter
	reqVar := ""
	for _, fld := range fd.Type.Params.List {
		if strings.HasPrefix(f.Str(fld.Type), "*hydrapb.") && len(fld.Names) == 1 {
			reqVar = fld.Names[0].Name
		}
	}
	if reqVar != "" && reqVar != "_" {
		env.entry[reqVar] = true
	}
	stmts := fd.Body.List
	// 1. handler-level lock / defers: a prefix of the body
	i := 0
	for ; i < len(stmts); i++ {
		s := f.Str(stmts[i])
		switch {
		case s == "g.ZeusInterface.GetSafeops().LockSystem()":
			h.defers += "L"
		case s == "defer g.ZeusInterface.GetSafeops().UnlockSystem()":
			h.defers += "U"
		case s == "defer handlePanic()":
			h.defers += "H"
		default:
			goto done
		}
	}
done:
	rest := stmts[i:]
	// a lock / unlock / recover anywhere else is not the shape the model knows
	for _, st := range rest {
		ast.Inspect(st, func(n ast.Node) bool {
			if _, ok := n.(*ast.FuncLit); ok {
				return false
			}
			switch v := n.(type) {
			case *ast.ExprStmt:
				s := f.Str(v)
				if strings.HasSuffix(s, ".LockSystem()") {
					h.why = append(h.why, "LockSystem after the first statements")
					flags['u'] = true
				}
				if strings.HasSuffix(s, ".UnlockSystem()") {
					h.defers += "E"
				}
			case *ast.DeferStmt:
				s := f.Str(v.Call)
				if strings.HasSuffix(s, ".UnlockSystem()") || s == "handlePanic()" {
					h.why = append(h.why, "defer after the first statements: "+s)
					flags['u'] = true
				}
			}
			return true
		})
	}
	// 2. the prefix program
	p := &c26Prog{}
	env.top = true
	cx.scan(env, rest, p)
	if p.mayStop {
		flags['t'] = true
	}
	if p.multi {
		flags['m'] = true
		h.val, h.main = p.val, p.main
		if len(p.steps) > 0 {
			p.unknown = append(p.unknown, "request-dependent statements outside the entry loops: "+strings.Join(p.steps, ";"))
		}
	} else {
		h.main = p.steps
	}
	// engine facts: inputs the engine below is known to mishandle must be excluded before it is entered
	if n := len(h.main); n > 0 && h.main[n-1] == "body" {
		var needs []string
		srcAll := f.Str(fd.Body)
		for name, hf := range cx.funcs {
			if strings.HasSuffix(name, "OneSwamp") && strings.Contains(srcAll, name+"(") {
				srcAll += hf.f.Str(hf.fd.Body)
			}
		}
		if strings.Contains(srcAll, "GetTreasuresByBeacon(") && strings.Contains(srcAll, ".GetFrom()") {
			switch cx.clampsFrom {
			case No:
				needs = append(needs, "need fromNeg negfrom")
			case Unknown:
				needs = append(needs, "unknown")
				h.why = append(h.why, "GetTreasuresByBeacon: treatment of a negative from not recognised")
			}
		}
		// (not when the statement that summons checks `IsExistSwamp` itself first, as Get's per-swamp closure does)
		summonAfterOwnCheck := false
		ast.Inspect(fd.Body, func(n ast.Node) bool {
			if fl, ok := n.(*ast.FuncLit); ok {
				t := f.Str(fl.Body)
				if i, j := strings.Index(t, ".IsExistSwamp("), strings.Index(t, ".SummonSwamp("); i >= 0 && j > i {
					summonAfterOwnCheck = true
				}
			}
			return true
		})
		if strings.Contains(srcAll, ".SummonSwamp(") && !c26Writes.MatchString(srcAll) && !summonAfterOwnCheck {
			// SummonSwamp creates the swamp it is asked for: a reader must know that it exists
			needs = append(needs, "need notExist missingswamp")
		}
		if strings.Contains(srcAll, ".SummonSwamp(") && c26Writes.MatchString(srcAll) {
			// a swamp whose name the V2 file header cannot carry never gets a writer: every acknowledged write is dropped
			switch cx.writerRefusesName {
			case Yes:
				needs = append(needs, "need nameLong name65k")
			case Unknown:
				needs = append(needs, "unknown")
				h.why = append(h.why, "v2 createNewFile: treatment of an over-long swamp name not recognised")
			}
		}
		if regexp.MustCompile(`\.(CreateTreasure|Increment\w+|PatchFields)\(`).MatchString(srcAll) {
			switch cx.writerRefuses {
			case Yes:
				needs = append(needs, "need keyInvalid badkey")
			case Unknown:
				needs = append(needs, "unknown")
				h.why = append(h.why, "v2 WriteEntry: treatment of empty / over-long keys not recognised")
			}
		}
		// Lock: which context does the locker wait on?  The caller's (or one derived from it): the wait ends with the
		// caller's deadline.  One detached from it (context.WithoutCancel / Background / TODO): a request for a held
		// key cannot be ended by its caller.
		if fd.Name.Name == "Lock" {
			ctxPar := ""
			for _, fld := range fd.Type.Params.List {
				if f.Str(fld.Type) == "context.Context" && len(fld.Names) == 1 {
					ctxPar = fld.Names[0].Name
				}
			}
			verdict := Unknown
			var calls []*ast.CallExpr
			ast.Inspect(fd.Body, func(n ast.Node) bool {
				if c, ok := n.(*ast.CallExpr); ok && strings.HasSuffix(f.Str(c.Fun), ".Lock") && len(c.Args) == 3 {
					calls = append(calls, c)
				}
				return true
			})
			if len(calls) == 1 && ctxPar != "" && ctxPar != "_" {
				arg := f.Str(calls[0].Args[0])
				def := ""
				nAssign := 0
				ast.Inspect(fd.Body, func(n ast.Node) bool {
					if as, ok := n.(*ast.AssignStmt); ok {
						for i, l := range as.Lhs {
							if f.Str(l) == arg {
								nAssign++
								if len(as.Rhs) == len(as.Lhs) {
									def = f.Str(as.Rhs[i])
								} else if len(as.Rhs) == 1 {
									def = f.Str(as.Rhs[0])
								}
							}
						}
					}
					return true
				})
				switch {
				case arg == ctxPar && nAssign == 0:
					verdict = Yes
				case nAssign == 1 && def == ctxPar:
					verdict = Yes
				case nAssign == 1 && regexp.MustCompile(`^context\.With(Timeout|Deadline|Cancel|Value)\(`+regexp.QuoteMeta(ctxPar)+`\b`).MatchString(def):
					verdict = Yes
				case nAssign == 1 && (def == "context.WithoutCancel("+ctxPar+")" || def == "context.Background()" || def == "context.TODO()"):
					verdict = No
				}
			}
			switch verdict {
			case No:
				needs = append(needs, "need lockHeld ctxignored")
			case Unknown:
				needs = append(needs, "unknown")
				h.why = append(h.why, "Lock: the context handed to the locker not recognised")
			}
		}
		h.main = append(append(append([]string{}, h.main[:n-1]...), needs...), "body")
	}
	for _, s := range append(append([]string{}, h.val...), h.main...) {
		if s == "unknown" {
			flags['u'] = true
		}
	}
	if len(p.unknown) > 0 {
		flags['u'] = true
		h.why = append(h.why, p.unknown...)
	}
	// 3. whole-handler facts (handler + the helpers it calls)
	src := f.Str(fd.Body)
	bodies := []ast.Node{fd.Body}
	for name, hf := range cx.funcs {
		if strings.HasSuffix(name, "OneSwamp") && strings.Contains(src, name+"(") {
			src += hf.f.Str(hf.fd.Body)
			bodies = append(bodies, hf.fd.Body)
		}
	}
	if c26Writes.MatchString(src) {
		flags['w'] = true
	}
	vigil := true
	var innerPlain []string
	for bi, b := range bodies {
		bf := f
		if bi > 0 {
			for name, hf := range cx.funcs {
				if hf.fd.Body == b {
					bf = hf.f
					_ = name
				}
			}
		}
		ast.Inspect(b, func(n ast.Node) bool {
			blk, ok := n.(*ast.BlockStmt)
			if !ok {
				return true
			}
			for k, s := range blk.List {
				txt := bf.Str(s)
				if strings.HasSuffix(txt, ".BeginVigil()") && !strings.HasPrefix(txt, "defer") {
					v := strings.TrimSuffix(txt, ".BeginVigil()")
					if k+1 < len(blk.List) && bf.Str(blk.List[k+1]) == "defer "+v+".CeaseVigil()" {
						continue
					}
					// a further vigil INSIDE the engine part (the handler already holds its deferred one): `X.BeginVigil(); <one
					// call on X>; X.CeaseVigil()` on an instance summoned a few lines above.  It is below the first engine call,
					// where the model's `body` step stands for everything; recorded as an observation (a panic in that one call
					// would leave the vigil), it does not change the vigil discipline of the handler's own prefix.
					if k+2 < len(blk.List) && bf.Str(blk.List[k+2]) == v+".CeaseVigil()" && strings.Contains(bf.Str(blk.List[k+1]), v+".") &&
						strings.Contains(bf.Str(b), "defer") && strings.Index(bf.Str(b), ".CeaseVigil()") < strings.Index(bf.Str(b), txt) {
						innerPlain = append(innerPlain, fmt.Sprintf("%s:%d %s", bf.Path, bf.Line(s), txt))
						continue
					}
					vigil = false
				}
			}
			return true
		})
	}
	if vigil {
		flags['v'] = true
	}
	for _, ip := range innerPlain {
		c26Observations = append(c26Observations, h.name+": vigil taken and ceased without defer inside the engine part: "+ip)
	}
	// explicit `return nil, nil`
	if kind == "unary" {
		rt := strings.TrimPrefix(f.Str(fd.Type.Results.List[0].Type), "*hydrapb.")
		ast.Inspect(fd.Body, func(n ast.Node) bool {
			if _, ok := n.(*ast.FuncLit); ok {
				return false
			}
			if r, ok := n.(*ast.ReturnStmt); ok && len(r.Results) == 2 && f.Str(r.Results[0]) == "nil" && f.Str(r.Results[1]) == "nil" {
				if nf, ok := cx.respType[rt]; !ok || nf != 0 {
					flags['n'] = true
				}
			}
			return true
		})
	}
	keys := []byte{}
	for k := range flags {
		keys = append(keys, k)
	}
	sort.Slice(keys, func(a, b int) bool { return keys[a] < keys[b] })
	h.flags = string(keys)
	return h
}

func c26Kind(f *File, fd *ast.FuncDecl) string {
	if fd.Recv == nil || len(fd.Recv.List) != 1 || fd.Type.Results == nil {
		return ""
	}
	rt := f.Str(fd.Recv.List[0].Type)
	if rt != "Gateway" && rt != "*Gateway" {
		return ""
	}
	var ps, rs []string
	for _, fld := range fd.Type.Params.List {
		n := len(fld.Names)
		if n == 0 {
			n = 1
		}
		for k := 0; k < n; k++ {
			ps = append(ps, f.Str(fld.Type))
		}
	}
	for _, fld := range fd.Type.Results.List {
		rs = append(rs, f.Str(fld.Type))
	}
	switch {
	case len(ps) == 2 && ps[0] == "context.Context" && strings.HasPrefix(ps[1], "*hydrapb.") && len(rs) == 2 && strings.HasPrefix(rs[0], "*hydrapb.") && rs[1] == "error":
		return "unary"
	case len(ps) == 2 && strings.HasPrefix(ps[0], "*hydrapb.") && strings.HasPrefix(ps[1], "hydrapb.HydraideService_") && len(rs) == 1 && rs[0] == "error":
		return "sstream"
	case len(ps) == 1 && strings.HasPrefix(ps[0], "hydrapb.HydraideService_") && len(rs) == 1 && rs[0] == "error":
		return "cstream"
	}
	return ""
}

func init() {
	Register("C26", Extractor{Import: "Hv.Props.C26", Type: "Hv.C26.Facts", Run: func(fs *Facts) {
		cx := &c26Ctx{funcs: map[string]c26Fn{}, respType: map[string]int{}}
		unknownAll := func(why string) {
			fs.Err("%s", why)
			fs.Enum("loadChecksLen", "unknown", "app/name/name.go")
			fs.Raw("checkName", `""`, "", c26Dir)
			fs.Raw("handlers", "[]", "", c26Dir)
		}
		ents, err := os.ReadDir(filepath.Join(repoRoot, c26Dir))
		if err != nil {
			unknownAll(err.Error())
			return
		}
		var files []*File
		for _, en := range ents {
			n := en.Name()
			if !strings.HasSuffix(n, ".go") || strings.HasSuffix(n, "_test.go") {
				continue
			}
			f, err := Load(c26Dir + "/" + n)
			if err != nil {
				unknownAll(err.Error())
				return
			}
			files = append(files, f)
			for _, d := range f.AST.Decls {
				if fd, ok := d.(*ast.FuncDecl); ok && fd.Body != nil && fd.Recv == nil {
					cx.funcs[fd.Name.Name] = c26Fn{f, fd}
				}
			}
		}
		// response message types: number of fields
		if pb, err := Load("sdk/go/hydraidego/hydraidepbgo/hydraide.pb.go"); err == nil {
			for _, d := range pb.AST.Decls {
				gd, ok := d.(*ast.GenDecl)
				if !ok {
					continue
				}
				for _, sp := range gd.Specs {
					ts, ok := sp.(*ast.TypeSpec)
					if !ok {
						continue
					}
					if st, ok := ts.Type.(*ast.StructType); ok {
						n := 0
						for _, fld := range st.Fields.List {
							for _, nm := range fld.Names {
								if nm.IsExported() {
									n++
								}
							}
						}
						cx.respType[ts.Name.Name] = n
					}
				}
			}
		}

		// name.Load
		{
			const p = "app/name/name.go"
			val, where := "unknown", p
			if nf, err := Load(p); err == nil {
				if fd := nf.Func("", "Load"); fd != nil && fd.Body != nil {
					where = fmt.Sprintf("%s:%d", p, nf.Line(fd))
					indexed, checked := false, false
					firstIdx := token.Pos(0)
					ast.Inspect(fd.Body, func(n ast.Node) bool {
						switch v := n.(type) {
						case *ast.IndexExpr:
							if nf.Str(v.X) == "splitPath" && nf.Str(v.Index) != "0" {
								if !indexed {
									firstIdx = v.Pos()
								}
								indexed = true
							}
						}
						return true
					})
					ast.Inspect(fd.Body, func(n ast.Node) bool {
						if ifs, ok := n.(*ast.IfStmt); ok && strings.Contains(nf.Str(ifs.Cond), "len(splitPath)") && ifs.Pos() < firstIdx {
							// must leave the function (return / panic-free default) when too short
							if len(nf.Calls(ifs.Body, "panic")) == 0 && strings.Contains(nf.Str(ifs.Body), "return") {
								checked = true
							}
						}
						return true
					})
					if indexed && strings.Contains(nf.Str(fd.Body), `strings.Split(path, "/")`) {
						if checked {
							val = "yes"
						} else {
							val = "no"
						}
					}
				}
			}
			fs.Enum("loadChecksLen", val, where)
		}

		// isValidSwampName (present after the repair): accept only the exact definition
		if vf, ok := cx.funcs["isValidSwampName"]; ok {
			b := vf.f.Str(vf.fd.Body)
			want := `{ parts := strings.Split(swampName, "/") return len(parts) == 3 && parts[0] != "" && parts[1] != "" && parts[2] != "" }`
			// with the length bound in front (a name the V2 file header cannot carry is not a valid name)
			wantL := `{ if len(swampName) > maxSwampNameLength { return false } parts := strings.Split(swampName, "/") return len(parts) == 3 && parts[0] != "" && parts[1] != "" && parts[2] != "" }`
			got := strings.Join(strings.Fields(b), " ")
			cx.validFn = got == want
			if got == wantL && strings.Contains(string(vf.f.Src), "const maxSwampNameLength = 65535") {
				cx.validFn, cx.validLen = true, true
				c26ValidLen = true
			}
			if !cx.validFn {
				fs.Err("isValidSwampName has an unexpected definition: %s", c26Short(b))
				delete(cx.funcs, "isValidSwampName")
			}
		}
		if !cx.validFn {
			// make sure calls to it are not treated as the `nameInvalid` test
			c26Harmless = regexp.MustCompile(c26Harmless.String())
		}

		// isValidKey (present after the repair): accept only the exact definition
		if kf, ok := cx.funcs["isValidKey"]; ok {
			b := strings.Join(strings.Fields(kf.f.Str(kf.fd.Body)), " ")
			if b != `{ return key != "" && len(key) <= maxKeyLength }` || !strings.Contains(string(kf.f.Src), "const maxKeyLength = 65535") {
				fs.Err("isValidKey has an unexpected definition: %s", c26Short(b))
				cx.badKeyFn = true
			}
		}

		// checkSwampName
		{
			cn, ok := cx.funcs["checkSwampName"]
			if !ok {
				fs.Err("checkSwampName not found")
				fs.Raw("checkName", `""`, "", c26Dir+"/gateway.go")
			} else {
				env := &c26Env{f: cn.f, entry: map[string]bool{}, strEntry: map[string]bool{}, boolLoc: map[string]string{}, capVar: map[string]string{},
					existVar: map[string]bool{}, singleVar: map[string]bool{}}
				env.nres, env.errIdx = c26Results(cn.f, cn.fd)
				var params []string
				for _, fld := range cn.fd.Type.Params.List {
					for _, nm := range fld.Names {
						params = append(params, nm.Name+":"+cn.f.Str(fld.Type))
					}
				}
				if len(params) == 4 && strings.HasSuffix(params[2], ":string") && strings.HasSuffix(params[3], ":bool") {
					env.strEntry[strings.Split(params[2], ":")[0]] = true
					env.existPar = strings.Split(params[3], ":")[0]
				}
				p := &c26Prog{}
				cx.scan(env, cn.fd.Body.List, p)
				s := strings.Join(p.steps, ";")
				if len(p.unknown) > 0 || !cx.validOrAbsent(s) {
					for _, u := range p.unknown {
						fs.Err("checkSwampName: %s", u)
					}
					s += ";unknown"
				}
				fs.Raw("checkName", fmt.Sprintf("%q", s), s, fmt.Sprintf("%s:%d", cn.f.Path, cn.f.Line(cn.fd)))
			}
		}

		// engine facts
		if sf, err := Load("app/core/hydra/swamp/swamp.go"); err == nil {
			if fd := sf.Func("swamp", "GetTreasuresByBeacon"); fd != nil {
				// No only when the function never looks at the sign of `from`; any other treatment than the clamp is not recognised
				if !regexp.MustCompile(`\bfrom\s*(<|<=|>=|>)\s*-?[01]\b`).MatchString(sf.Str(fd.Body)) {
					cx.clampsFrom = No
				}
				for _, st := range fd.Body.List {
					if ifs, ok := st.(*ast.IfStmt); ok && sf.Str(ifs.Cond) == "from < 0" && len(ifs.Body.List) == 1 && sf.Str(ifs.Body.List[0]) == "from = 0" {
						cx.clampsFrom = Yes
					}
				}
			}
		}
		if wf, err := Load("app/core/hydra/swamp/chronicler/v2/writer.go"); err == nil {
			if fd := wf.Func("FileWriter", "WriteEntry"); fd != nil {
				txt := wf.Str(fd.Body)
				if ve := wf.Func("", "validateEntry"); ve != nil && strings.Contains(txt, "validateEntry(") {
					txt += wf.Str(ve.Body)
				}
				if strings.Contains(txt, "ErrEmptyKey") && strings.Contains(txt, "ErrKeyTooLong") {
					cx.writerRefuses = Yes
				} else if !strings.Contains(txt, "len(entry.Key)") && !strings.Contains(txt, "validateEntry(") {
					cx.writerRefuses = No
				}
			}
		}

		if wf, err := Load("app/core/hydra/swamp/chronicler/v2/writer.go"); err == nil {
			if fd := wf.Func("FileWriter", "createNewFile"); fd != nil {
				txt := wf.Str(fd.Body)
				switch {
				case regexp.MustCompile(`if len\(nameBytes\) > math\.MaxUint16 \{\s*return ErrNameTooLong\s*\}`).MatchString(txt) &&
					strings.Index(txt, "ErrNameTooLong") < strings.Index(txt, "os.Create("):
					cx.writerRefusesName = Yes
				case !strings.Contains(txt, "len(nameBytes) >") && !strings.Contains(txt, "ErrNameTooLong"):
					cx.writerRefusesName = No
				}
			}
		}

		// handlers
		var hs []c26Handler
		for _, f := range files {
			for _, d := range f.AST.Decls {
				fd, ok := d.(*ast.FuncDecl)
				if !ok || fd.Body == nil {
					continue
				}
				if k := c26Kind(f, fd); k != "" {
					hs = append(hs, cx.handler(c26Fn{f, fd}, k))
				}
			}
		}
		sort.Slice(hs, func(a, b int) bool { return hs[a].name < hs[b].name })
		var lean, show []string
		for _, h := range hs {
			if cx.badKeyFn && strings.Contains(h.String(), "keyInvalid") {
				h.flags += "u"
				h.why = append(h.why, "isValidKey used but its definition was not recognised")
			}
			if !cx.validOrAbsent(h.String()) {
				h.flags += "u"
				h.why = append(h.why, "isValidSwampName used but its definition was not recognised")
			}
			lean = append(lean, fmt.Sprintf("%q", h.String()))
			show = append(show, h.String())
			for _, w := range h.why {
				fs.Err("%s: %s", h.name, w)
			}
		}
		fs.Raw("handlers", "[\n    "+strings.Join(lean, ",\n    ")+"]", strings.Join(show, "\n"), fmt.Sprintf("%s (%d methods with a gRPC signature)", c26Dir, len(hs)))
		for _, o := range c26Observations {
			fs.Err("observation (not part of the verdict): %s", o)
		}
	}})
}

func (cx *c26Ctx) validOrAbsent(s string) bool {
	return cx.validFn || !strings.Contains(s, "nameInvalid")
}
