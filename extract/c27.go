package main

import (
	"go/ast"
	"strings"
)

// C27 facts — sdk/go/hydraidego/hydrex/hydrex.go.
//
//	updatesExisting     no : the loop `for key, data := range items` consists of exactly
//	                         `if _, ok := existingCoreData[key]; !ok { … }` — existing keys are skipped whatever their value
//	                    yes: that loop also compares the stored value with data.Value (`.Value != data.Value`) and appends
//	                         the item to itemsForSave
//	saveRemovesStale    yes: `for key := range existingCoreData { if _, ok := items[key]; !ok { … } }` fills itemsForDelete and
//	                         deleteManyFromManyReq, and Save calls CatalogDeleteManyFromMany(ctx, deleteManyFromManyReq, …) and
//	                         CatalogDeleteMany(ctx, coreDataName, itemsForDelete, …)
//	destroyCleansIndex  yes: Destroy collects one CatalogDeleteManyFromManyRequest per stored key (Keys: []string{domain}) inside
//	                         the CatalogReadMany callback, destroys the core swamp and calls CatalogDeleteManyFromMany
func init() {
	Register("C27", Extractor{Import: "Hv.Props.C27", Type: "Hv.C27.Facts", Run: func(fs *Facts) {
		const path = "sdk/go/hydraidego/hydrex/hydrex.go"
		for _, n := range []string{"updatesExisting", "saveRemovesStale", "destroyCleansIndex", "namesVerbatim", "validatesKeys", "validatesNames"} {
			fs.Tri(n, Unknown, path)
		}
		f, err := Load(path)
		if err != nil {
			fs.Err("%v", err)
			return
		}
		// name builders: nothing but Sanctuary(const).Realm(indexName).Swamp(domain | key), two different sanctuaries
		cd, ix := f.Func("hydrex", "createCoreDataName"), f.Func("hydrex", "createIndexName")
		if cd != nil && ix != nil && cd.Body != nil && ix.Body != nil && len(cd.Body.List) == 1 && len(ix.Body.List) == 1 {
			okNames := f.Str(cd.Body.List[0]) == "return name.New().Sanctuary(sanctuaryHydraideCoreData).Realm(indexName).Swamp(domain)" &&
				f.Str(ix.Body.List[0]) == "return name.New().Sanctuary(sanctuaryHydraideIndex).Realm(indexName).Swamp(key)" &&
				c27Const(f, "sanctuaryHydraideIndex") != "" && c27Const(f, "sanctuaryHydraideCoreData") != "" &&
				c27Const(f, "sanctuaryHydraideIndex") != c27Const(f, "sanctuaryHydraideCoreData")
			if okNames {
				fs.Tri("namesVerbatim", Yes, path+":"+itoa(f.Line(cd)))
			}
		}
		// up-front validation.  isNamePart must be `return s != "" && !strings.Contains(s, "/")`.
		//   validatesNames yes: Save AND Destroy start with `if !isNamePart(indexName) || !isNamePart(domain) { …; return }`
		//                  no : both start with the statements of the unvalidated code (the key loop / existingCoreData / coreDataName)
		//   validatesKeys  yes: the next statement of Save is `for key := range items { if <key invalid> { …; return } }`, <key invalid>
		//                       being `!isNamePart(key)` or `key == "" || strings.Contains(key, "/")`
		//                  no : Save goes straight to `existingCoreData := …`
		partOK := false
		if np := f.Func("", "isNamePart"); np != nil && np.Body != nil && len(np.Body.List) == 1 && np.Type.Params != nil && len(np.Type.Params.List) == 1 && len(np.Type.Params.List[0].Names) == 1 {
			a := np.Type.Params.List[0].Names[0].Name
			partOK = f.Str(np.Body.List[0]) == `return `+a+` != "" && !strings.Contains(`+a+`, "/")`
		}
		endsInReturn := func(b *ast.BlockStmt) bool {
			if b == nil || len(b.List) == 0 {
				return false
			}
			_, isRet := b.List[len(b.List)-1].(*ast.ReturnStmt)
			return isRet
		}
		namesGuard := func(st ast.Stmt) bool {
			is, ok := st.(*ast.IfStmt)
			if !ok || is.Init != nil || is.Else != nil || !endsInReturn(is.Body) || !partOK {
				return false
			}
			c := f.Str(is.Cond)
			return c == "!isNamePart(indexName) || !isNamePart(domain)" || c == "!isNamePart(domain) || !isNamePart(indexName)"
		}
		keyGuard := func(st ast.Stmt) bool {
			rs, ok := st.(*ast.RangeStmt)
			if !ok || f.Str(rs.X) != "items" || rs.Key == nil || len(rs.Body.List) != 1 {
				return false
			}
			k := f.Str(rs.Key)
			is, ok := rs.Body.List[0].(*ast.IfStmt)
			if !ok || is.Init != nil || is.Else != nil || !endsInReturn(is.Body) {
				return false
			}
			c := f.Str(is.Cond)
			return c == k+` == "" || strings.Contains(`+k+`, "/")` || (partOK && c == "!isNamePart("+k+")")
		}
		sv, ds := miscFunc(f, "hydrex", "Save"), miscFunc(f, "hydrex", "Destroy")
		if sv != nil && ds != nil && sv.Body != nil && ds.Body != nil && len(sv.Body.List) > 1 && len(ds.Body.List) > 0 {
			rest := sv.Body.List
			sN, dN := namesGuard(rest[0]), namesGuard(ds.Body.List[0])
			if sN {
				rest = rest[1:]
			}
			plainSave := strings.HasPrefix(f.Str(rest[0]), "existingCoreData := ")
			switch {
			case keyGuard(rest[0]):
				fs.Tri("validatesKeys", Yes, path+":"+itoa(f.Line(rest[0])))
				plainSave = len(rest) > 1 && strings.HasPrefix(f.Str(rest[1]), "existingCoreData := ")
			case plainSave:
				fs.Tri("validatesKeys", No, path+":"+itoa(f.Line(rest[0])))
			}
			plainDestroy := f.Str(ds.Body.List[0]) == "coreDataName := h.createCoreDataName(indexName, domain)"
			switch {
			case sN && dN && plainSave:
				fs.Tri("validatesNames", Yes, path+":"+itoa(f.Line(sv)))
			case !sN && !dN && plainSave && plainDestroy:
				fs.Tri("validatesNames", No, path+":"+itoa(f.Line(sv)))
			}
		}
		save := miscFunc(f, "hydrex", "Save")
		destroy := miscFunc(f, "hydrex", "Destroy")
		if save == nil || destroy == nil || save.Body == nil || destroy.Body == nil {
			return
		}
		// Save must read the existing core data first
		if len(f.CallsSuffix(save, ".CatalogReadMany")) != 1 || !f.Contains(save, "existingCoreData[m.Key] = m") {
			return
		}
		for _, st := range save.Body.List {
			rs, ok := st.(*ast.RangeStmt)
			if !ok {
				continue
			}
			switch f.Str(rs.X) {
			case "existingCoreData":
				body := f.Str(rs.Body)
				shape := len(rs.Body.List) == 1 && strings.HasPrefix(body, "{ if _, ok := items[key]; !ok {")
				fills := strings.Contains(body, "itemsForDelete = append(itemsForDelete, key)") &&
					strings.Contains(body, "deleteManyFromManyReq = append(deleteManyFromManyReq") &&
					strings.Contains(body, "SwampName: h.createIndexName(indexName, key)") && strings.Contains(body, "Keys: []string{domain}")
				calls := f.Contains(save, "CatalogDeleteManyFromMany(ctx, deleteManyFromManyReq,") &&
					f.Contains(save, "CatalogDeleteMany(ctx, coreDataName, itemsForDelete,")
				// `no` needs positive evidence: the loop collects the stale keys as modelled, and one of the two delete calls is
				// ABSENT from Save altogether; anything else that does not match stays unknown
				noIdx := len(f.CallsSuffix(save, ".CatalogDeleteManyFromMany")) == 0
				noCore := len(f.CallsSuffix(save, ".CatalogDeleteMany")) == 0
				switch {
				case shape && fills && calls:
					fs.Tri("saveRemovesStale", Yes, path+":"+itoa(f.Line(rs)))
				case shape && fills && (noIdx || noCore):
					fs.Tri("saveRemovesStale", No, path+":"+itoa(f.Line(rs)))
				}
			case "items":
				body := f.Str(rs.Body)
				saves := strings.Contains(body, "itemsForSave = append(itemsForSave") && strings.Contains(body, "saveManyToManyReq = append(saveManyToManyReq") &&
					f.Contains(save, "CatalogSaveMany(ctx, coreDataName, itemsForSave,") && f.Contains(save, "CatalogSaveManyToMany(ctx, saveManyToManyReq,")
				if !saves {
					continue
				}
				onlyNew := len(rs.Body.List) == 1 && strings.HasPrefix(body, "{ if _, ok := existingCoreData[key]; !ok {")
				if is, ok := rs.Body.List[0].(*ast.IfStmt); ok && onlyNew && is.Else == nil {
					fs.Tri("updatesExisting", No, path+":"+itoa(f.Line(rs)))
				} else if strings.Contains(body, ".Value != data.Value") {
					fs.Tri("updatesExisting", Yes, path+":"+itoa(f.Line(rs)))
				}
			}
		}
		// Destroy
		reads := f.CallsSuffix(destroy, ".CatalogReadMany")
		if len(reads) == 1 && len(f.CallsSuffix(destroy, ".Destroy")) == 1 && f.Contains(destroy, "Destroy(ctx, coreDataName)") {
			collects := f.Contains(reads[0], "deleteManyFromManyReq = append(deleteManyFromManyReq") &&
				f.Contains(reads[0], "SwampName: h.createIndexName(indexName, m.Key)") && f.Contains(reads[0], "Keys: []string{domain}")
			calls := f.Contains(destroy, "CatalogDeleteManyFromMany(ctx, deleteManyFromManyReq,")
			switch {
			case collects && calls:
				fs.Tri("destroyCleansIndex", Yes, path+":"+itoa(f.Line(destroy)))
			case len(f.CallsSuffix(destroy, ".CatalogDeleteManyFromMany")) == 0:
				fs.Tri("destroyCleansIndex", No, path+":"+itoa(f.Line(destroy)))
			}
		}
	}})
}

func c27Const(f *File, name string) string {
	out := ""
	ast.Inspect(f.AST, func(n ast.Node) bool {
		if vs, ok := n.(*ast.ValueSpec); ok && len(vs.Names) == len(vs.Values) {
			for i, nm := range vs.Names {
				if nm.Name == name {
					out = f.Str(vs.Values[i])
				}
			}
		}
		return true
	})
	return out
}
