package main

import (
	"go/ast"
	"strings"
)

// C05: how a treasure is turned into bytes (treasure.go ConvertToByte / LoadFromByte).
//   gobOmitZero : encoding/gob over the Model struct whose Content has pointer / slice fields and
//                 no explicit content-type tag — gob omits zero-valued fields, a typed zero comes
//                 back as a nil field
//   typeTagged  : the persisted struct carries an explicit `ContentType` field
//   unknown     : anything else
// plus the request-handler facts of C06 (the driver runs the same model).
func init() {
	Register("C05", Extractor{Import: "Hv.Props.C05", Type: "Hv.C05.Facts", Run: func(fs *Facts) {
		fs.Enum("encoding", c05Encoding(), c06Treasure)
		c06Run(fs, c06Names)
	}})
}

// calls of `name` in fd, or in a function of the same file that fd calls directly (one level: the
// encoding may sit in a small helper)
func c05CallsVia(tr *File, fd *ast.FuncDecl, name string) int {
	n := len(tr.Calls(fd.Body, name))
	seen := map[string]bool{}
	ast.Inspect(fd.Body, func(x ast.Node) bool {
		c, ok := x.(*ast.CallExpr)
		if !ok {
			return true
		}
		id, ok := c.Fun.(*ast.Ident)
		if !ok || seen[id.Name] {
			return true
		}
		seen[id.Name] = true
		if h := tr.Func("", id.Name); h != nil && h.Body != nil {
			n += len(tr.Calls(h.Body, name))
		}
		return true
	})
	return n
}

func c05Encoding() string {
	tr, err := Load(c06Treasure)
	if err != nil {
		return "unknown"
	}
	conv := tr.Func("treasure", "ConvertToByte")
	load := tr.Func("treasure", "LoadFromByte")
	if conv == nil || load == nil {
		return "unknown"
	}
	usesGob := c05CallsVia(tr, conv, "gob.NewEncoder") == 1 && c05CallsVia(tr, load, "gob.NewDecoder") == 1
	// struct Content / Model: pointer fields, and is there a ContentType-typed field?
	ptrFields, tag := 0, false
	ast.Inspect(tr.AST, func(n ast.Node) bool {
		ts, ok := n.(*ast.TypeSpec)
		if !ok || (ts.Name.Name != "Content" && ts.Name.Name != "Model") {
			return true
		}
		st, ok := ts.Type.(*ast.StructType)
		if !ok {
			return true
		}
		for _, f := range st.Fields.List {
			t := tr.Str(f.Type)
			if ts.Name.Name == "Content" && strings.HasPrefix(t, "*") {
				ptrFields++
			}
			if t == "ContentType" {
				tag = true
			}
		}
		return true
	})
	switch {
	case !usesGob:
		return "unknown"
	case tag:
		return "typeTagged"
	case ptrFields >= 10:
		return "gobOmitZero"
	}
	return "unknown"
}
