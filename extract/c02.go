package main

// Facts about the V2 storage writer / reader / compactor shared by C02, C03 and C25
// (helpers prefixed c02), and the C02 extractor itself.

import (
	"go/ast"
	"strings"
)

const (
	c02Writer   = "app/core/hydra/swamp/chronicler/v2/writer.go"
	c02Reader   = "app/core/hydra/swamp/chronicler/v2/reader.go"
	c02Block    = "app/core/hydra/swamp/chronicler/v2/block.go"
	c02Compact  = "app/core/hydra/swamp/chronicler/v2/compactor.go"
	c02Chron    = "app/core/hydra/swamp/chronicler/chronicler_v2.go"
	c02Swamp    = "app/core/hydra/swamp/swamp.go"
	c02CliCompt = "app/hydraidectl/cmd/compact.go"
)

type c02Src struct {
	w, r, b, c, ch, sw, cli *File
}

func c02Load(fs *Facts) *c02Src {
	s := &c02Src{}
	for _, x := range []struct {
		p string
		f **File
	}{{c02Writer, &s.w}, {c02Reader, &s.r}, {c02Block, &s.b}, {c02Compact, &s.c}, {c02Chron, &s.ch}, {c02Swamp, &s.sw}, {c02CliCompt, &s.cli}} {
		f, err := Load(x.p)
		if err != nil {
			fs.Err("%v", err)
			continue
		}
		*x.f = f
	}
	return s
}

func c02Where(f *File, n ast.Node) string {
	if f == nil || n == nil {
		return ""
	}
	return f.Path + ":" + itoa(f.Line(n))
}

// the part of a top-level statement that executes unconditionally when control reaches it
func c02UncondPart(st ast.Stmt) []ast.Node {
	switch x := st.(type) {
	case *ast.ExprStmt, *ast.AssignStmt, *ast.ReturnStmt, *ast.DeclStmt, *ast.IncDecStmt:
		return []ast.Node{x}
	case *ast.IfStmt:
		var out []ast.Node
		if x.Init != nil {
			out = append(out, x.Init)
		}
		out = append(out, x.Cond)
		return out
	}
	return nil
}

func c02HasCall(f *File, nodes []ast.Node, pred func(fn string, c *ast.CallExpr) bool) *ast.CallExpr {
	var hit *ast.CallExpr
	for _, n := range nodes {
		if n == nil {
			continue
		}
		ast.Inspect(n, func(x ast.Node) bool {
			if _, isLit := x.(*ast.FuncLit); isLit {
				return false
			}
			if c, ok := x.(*ast.CallExpr); ok && hit == nil && pred(f.Str(c.Fun), c) {
				hit = c
			}
			return true
		})
	}
	return hit
}

// index of the first top-level statement of fd that unconditionally performs a matching call
func c02UncondIdx(f *File, fd *ast.FuncDecl, pred func(fn string, c *ast.CallExpr) bool) (int, *ast.CallExpr) {
	for i, st := range fd.Body.List {
		if c := c02HasCall(f, c02UncondPart(st), pred); c != nil {
			return i, c
		}
	}
	return -1, nil
}

// index of the first top-level statement that contains a matching call anywhere
func c02AnyIdx(f *File, fd *ast.FuncDecl, pred func(fn string, c *ast.CallExpr) bool) (int, *ast.CallExpr) {
	for i, st := range fd.Body.List {
		if c := c02HasCall(f, []ast.Node{st}, pred); c != nil {
			return i, c
		}
	}
	return -1, nil
}

func c02LastAnyIdx(f *File, fd *ast.FuncDecl, pred func(fn string, c *ast.CallExpr) bool) int {
	last := -1
	for i, st := range fd.Body.List {
		if c := c02HasCall(f, []ast.Node{st}, pred); c != nil {
			last = i
		}
	}
	return last
}

func c02Named(names ...string) func(string, *ast.CallExpr) bool {
	return func(fn string, _ *ast.CallExpr) bool {
		for _, n := range names {
			if fn == n || strings.HasSuffix(fn, "."+n) {
				return true
			}
		}
		return false
	}
}

func c02IsTempRemoval(f *File) func(string, *ast.CallExpr) bool {
	return func(fn string, c *ast.CallExpr) bool {
		if fn == "CleanupCompactionTemp" || strings.HasSuffix(fn, ".CleanupCompactionTemp") {
			return true
		}
		if fn == "os.Remove" && len(c.Args) == 1 {
			a := f.Str(c.Args[0])
			return a == "tempPath" || strings.HasSuffix(a, `+ ".compact"`) || strings.HasPrefix(a, "GetCompactionTempPath(")
		}
		return false
	}
}

// removal of the temp unconditionally before the statement that opens it
func c02RemovesTempBefore(f *File, fd *ast.FuncDecl, opener func(string, *ast.CallExpr) bool) (Tri, string) {
	if f == nil || fd == nil || fd.Body == nil {
		return Unknown, ""
	}
	oi, oc := c02AnyIdx(f, fd, opener)
	if oi < 0 {
		return Unknown, c02Where(f, fd)
	}
	ri, rc := c02UncondIdx(f, fd, c02IsTempRemoval(f))
	if ri >= 0 && ri < oi {
		return Yes, c02Where(f, rc)
	}
	return No, c02Where(f, oc)
}

// ---- individual facts ---------------------------------------------------------------

// flushLocked: fw.file.Write(header.Serialize()); fw.file.Write(compressed); fw.file.Write(fw.header.Serialize())
func c02FlushOrderCanonical(s *c02Src) (Tri, string) {
	// one shared pattern with C01 (extract/storage_shared.go) so that the two facts cannot disagree
	order, line := StorFlushOrder(s.w)
	where := c02Writer
	if line > 0 {
		where = c02Writer + ":" + itoa(line)
	}
	switch order {
	case "blockHeaderDataFileHeader":
		return Yes, where
	case "other":
		return No, where
	}
	return Unknown, where
}

// Sync()/Close(): fw.file.Sync() executed unconditionally; for Close before fw.file.Close() in the final return
func c02WriterFsyncs(s *c02Src, method string) (Tri, string) {
	if s.w == nil {
		return Unknown, ""
	}
	fd := s.w.Func("FileWriter", method)
	if fd == nil || fd.Body == nil {
		return Unknown, c02Writer
	}
	si, sc := c02UncondIdx(s.w, fd, c02Named("fw.file.Sync"))
	// an early success return in front of the fsync (e.g. "nothing buffered: return nil") makes it conditional
	if si >= 0 {
		for _, st := range fd.Body.List[:si] {
			early := false
			switch x := st.(type) {
			case *ast.ReturnStmt:
				early = true
			case *ast.IfStmt:
				if s.w.Str(x.Cond) != "fw.closed" {
					ast.Inspect(x.Body, func(n ast.Node) bool {
						if r, ok := n.(*ast.ReturnStmt); ok && len(r.Results) == 1 && s.w.Str(r.Results[0]) == "nil" {
							early = true
						}
						return true
					})
				}
			}
			if early {
				return Unknown, c02Where(s.w, st)
			}
		}
	}
	if method == "Sync" {
		if si >= 0 {
			return Yes, c02Where(s.w, sc)
		}
		return No, c02Where(s.w, fd)
	}
	// Close: last statement must be `return fw.file.Close()`
	n := len(fd.Body.List)
	if n == 0 {
		return Unknown, c02Where(s.w, fd)
	}
	ret, ok := fd.Body.List[n-1].(*ast.ReturnStmt)
	if !ok || len(ret.Results) != 1 || s.w.Str(ret.Results[0]) != "fw.file.Close()" {
		return Unknown, c02Where(s.w, fd)
	}
	if si >= 0 && si < n-1 {
		return Yes, c02Where(s.w, sc)
	}
	return No, c02Where(s.w, ret)
}

// NewFileWriterWithName / NewFileWriter: existing path → openExistingFile; which opens without
// O_TRUNC, seeks to the end and never truncates
func c02OpensExistingForAppend(s *c02Src) (appendMode Tri, truncates Tri, where string) {
	if s.w == nil {
		return Unknown, Unknown, ""
	}
	oe := s.w.Func("FileWriter", "openExistingFile")
	if oe == nil {
		return Unknown, Unknown, c02Writer
	}
	for _, ctor := range []string{"NewFileWriterWithName", "NewFileWriter"} {
		fd := s.w.Func("", ctor)
		if fd == nil || len(s.w.Calls(fd, "fw.openExistingFile")) != 1 || len(s.w.Calls(fd, "fw.createNewFile")) != 1 ||
			!s.w.Contains(fd, "os.IsNotExist(err)") {
			return Unknown, Unknown, c02Writer
		}
	}
	opens := s.w.Calls(oe, "os.OpenFile")
	if len(opens) != 1 || len(opens[0].Args) < 2 {
		return Unknown, Unknown, c02Where(s.w, oe)
	}
	flags := s.w.Str(opens[0].Args[1])
	truncCalls := s.w.CallsSuffix(oe, ".Truncate")
	seekEnd := false
	for _, c := range s.w.Calls(oe, "file.Seek") {
		if len(c.Args) == 2 && s.w.Str(c.Args[0]) == "0" && s.w.Str(c.Args[1]) == "io.SeekEnd" {
			seekEnd = true
		}
	}
	where = c02Where(s.w, opens[0])
	switch {
	case strings.Contains(flags, "O_TRUNC"):
		return No, No, where
	case len(truncCalls) > 0 || len(s.w.Calls(oe, "fw.createNewFile")) > 0:
		// the repaired open: a file too short for header (and name) is started over — two
		// `return fw.createNewFile()`, a third for a zero header — and a torn tail is cut by walking the block headers
		recreate := len(s.w.Calls(oe, "fw.createNewFile"))
		walks := s.w.Contains(oe, "file.ReadAt(") && s.w.Contains(oe, "BlockHeaderSize")
		if len(truncCalls) == 1 && len(truncCalls[0].Args) == 1 && s.w.Str(truncCalls[0].Args[0]) == "end" && recreate == 2 && walks && seekEnd {
			return Yes, Yes, c02Where(s.w, truncCalls[0])
		}
		return Yes, Unknown, where
	case seekEnd && !strings.Contains(flags, "O_APPEND"):
		return Yes, No, where
	}
	return Unknown, Unknown, where
}

// readNextBlock: short header read → io.EOF; payload ReadFull error returned as is, or
// io.ErrUnexpectedEOF mapped to io.EOF
// readNextBlock: a zero size field is EOF, and a block that does not parse is EOF when zeroFilledTail says so;
// zeroFilledTail: last payload byte zero and nothing but zero bytes up to the end of the file.
func c02ZeroTailIsEOF(s *c02Src) (Tri, string) {
	if s.r == nil {
		return Unknown, ""
	}
	fd := s.r.Func("FileReader", "readNextBlock")
	if fd == nil {
		return Unknown, c02Reader
	}
	where := c02Where(s.r, fd)
	zf := s.r.Func("FileReader", "zeroFilledTail")
	mentions := s.r.Contains(fd, "CompressedSize == 0") || s.r.Contains(fd, "zeroFilledTail") || zf != nil
	if !mentions {
		return No, where
	}
	zeroSize, zeroTail, sizeCheckAt, zeroAt := false, false, -1, -1
	for i, st := range fd.Body.List {
		ifs, ok := st.(*ast.IfStmt)
		if !ok {
			continue
		}
		cond := s.r.Str(ifs.Cond)
		if strings.HasSuffix(cond, ".CompressedSize == 0") && len(ifs.Body.List) == 1 && s.r.Str(ifs.Body.List[0]) == "return nil, io.EOF" {
			zeroSize, zeroAt = true, i
		}
		if strings.Contains(cond, "CompressedSize") && strings.Contains(cond, ">") && sizeCheckAt < 0 {
			sizeCheckAt = i
		}
		if cond == "err != nil" && i > 0 && strings.Contains(s.r.Str(fd.Body.List[i-1]), "ParseBlock(") {
			for _, in := range ifs.Body.List {
				if x, ok := in.(*ast.IfStmt); ok && s.r.Str(x.Cond) == "fr.zeroFilledTail(compressedData)" &&
					len(x.Body.List) == 1 && s.r.Str(x.Body.List[0]) == "return nil, io.EOF" {
					zeroTail = true
				}
			}
		}
	}
	zfOK := zf != nil && s.r.Contains(zf, "payload[len(payload)-1] != 0") && s.r.Contains(zf, "fr.file.Read(buf)") &&
		s.r.Contains(zf, "if b != 0 { return false }") && s.r.Contains(zf, "return errors.Is(err, io.EOF)")
	if zeroSize && zeroTail && zfOK && (sizeCheckAt < 0 || zeroAt < sizeCheckAt) {
		return Yes, where
	}
	return Unknown, where
}

// openExistingFile: the walk stops at a zero size field, the last accepted block is checked against its
// checksum (blockIntactAt), a zero file header restarts the file; and (item: damage in the middle) nothing is cut
// when intactBlockBehind finds a whole block behind the cut point.
func c02OpenZeroFacts(s *c02Src) (cutsZero, spares Tri, where string) {
	if s.w == nil {
		return Unknown, Unknown, ""
	}
	fd := s.w.Func("FileWriter", "openExistingFile")
	if fd == nil {
		return Unknown, Unknown, c02Writer
	}
	where = c02Where(s.w, fd)
	cutsZero, spares = Unknown, Unknown
	bi, ib := s.w.Func("", "blockIntactAt"), s.w.Func("", "intactBlockBehind")
	if !s.w.Contains(fd, "next == end+BlockHeaderSize") && !s.w.Contains(fd, "size == 0") && !s.w.Contains(fd, "blockIntactAt") && bi == nil {
		cutsZero = No
	} else {
		walk := s.w.Contains(fd, "if next == end+BlockHeaderSize { break }") && s.w.Contains(fd, "last, end = end, next")
		last := s.w.Contains(fd, "if last >= 0 && !blockIntactAt(file, last, end) { end = last }")
		so := s.w.Func("FileWriter", "startOver")
		hdr := s.w.Contains(fd, "if bytes.Count(headerBuf, []byte{0}) == len(headerBuf) { file.Close() return fw.startOver() }") &&
			so != nil && s.w.Str(so.Body) == "{ return fw.createNewFile() }"
		biOK := bi != nil && s.w.Contains(bi, "file.ReadAt(buf, start)") &&
			s.w.Contains(bi, "return ValidateChecksum(buf[BlockHeaderSize:], binary.LittleEndian.Uint32(buf[10:14]))")
		if walk && last && hdr && biOK {
			cutsZero = Yes
		}
	}
	if !s.w.Contains(fd, "intactBlockBehind") && ib == nil {
		spares = No
	} else {
		// `if end < info.Size() && intactBlockBehind(...) { file.Close(); return error }` directly in front of the cut
		guard := false
		for k, st := range fd.Body.List {
			g, ok := st.(*ast.IfStmt)
			if !ok || s.w.Str(g.Cond) != "end < info.Size() && intactBlockBehind(file, end, info.Size())" || k+1 >= len(fd.Body.List) {
				continue
			}
			body, next := s.w.Str(g.Body), s.w.Str(fd.Body.List[k+1])
			if strings.Contains(body, "file.Close()") && strings.Contains(body, "return fmt.Errorf(") &&
				strings.HasPrefix(next, "if end < info.Size() { if err := file.Truncate(end); err != nil") {
				guard = true
			}
		}
		ibOK := ib != nil && s.w.Contains(ib, "for i := 1; i+BlockHeaderSize < len(tail); i++") &&
			s.w.Contains(ib, "ValidateChecksum(tail[i+BlockHeaderSize:i+BlockHeaderSize+n], binary.LittleEndian.Uint32(tail[i+10:i+14]))")
		if guard && ibOK {
			spares = Yes
		}
	}
	return
}

func c02ReaderFacts(s *c02Src) (shortHdr, tornData Tri, where string) {
	if s.r == nil {
		return Unknown, Unknown, ""
	}
	fd := s.r.Func("FileReader", "readNextBlock")
	ra := s.r.Func("FileReader", "ReadAllEntries")
	if fd == nil || ra == nil {
		return Unknown, Unknown, c02Reader
	}
	// ReadAllEntries must stop cleanly exactly on io.EOF
	if !s.r.Contains(ra, "errors.Is(err, io.EOF)") {
		return Unknown, Unknown, c02Where(s.r, ra)
	}
	shortHdr, tornData = Unknown, Unknown
	// the variable that receives the byte count of the header read
	nv := ""
	ast.Inspect(fd.Body, func(x ast.Node) bool {
		if as, ok := x.(*ast.AssignStmt); ok && len(as.Lhs) == 2 && len(as.Rhs) == 1 && s.r.Str(as.Rhs[0]) == "fr.file.Read(headerBuf)" && nv == "" {
			nv = s.r.Str(as.Lhs[0])
		}
		return true
	})
	pre := Unknown // the size pre-check (`CompressedSize > remaining`), when there is one
	hasPre := false
	for _, st := range fd.Body.List {
		ifs, ok := st.(*ast.IfStmt)
		if !ok {
			continue
		}
		cond := s.r.Str(ifs.Cond)
		// `<count> < BlockHeaderSize`, <count> being the first result of the header Read (whatever its name)
		if nv != "" && cond == nv+" < BlockHeaderSize" && len(ifs.Body.List) == 1 {
			switch s.r.Str(ifs.Body.List[0]) {
			case "return nil, io.EOF":
				shortHdr = Yes
			case "return nil, io.ErrUnexpectedEOF", "return nil, ErrCorruptedBlock", "return nil, err":
				shortHdr = No
			default:
				shortHdr = Unknown // a shape this extractor does not know: never `no`
			}
		}
		// site 1: a comparison of CompressedSize with what is left of the file, before the allocation
		if ifs.Init == nil && strings.Contains(cond, "CompressedSize") && strings.Contains(cond, ">") &&
			strings.Contains(cond, "remaining") && tornData == Unknown {
			hasPre = true
			if len(ifs.Body.List) == 1 {
				switch s.r.Str(ifs.Body.List[0]) {
				case "return nil, io.EOF":
					pre = Yes
				case "return nil, io.ErrUnexpectedEOF", "return nil, ErrCorruptedBlock", "return nil, err":
					pre = No
				}
			}
		}
		// site 2: the error of the payload ReadFull
		if ifs.Init != nil && strings.Contains(s.r.Str(ifs.Init), "io.ReadFull(fr.file, compressedData)") {
			where = c02Where(s.r, ifs)
			body := s.r.Str(ifs.Body)
			switch {
			case len(ifs.Body.List) == 1 && s.r.Str(ifs.Body.List[0]) == "return nil, err":
				tornData = No
			case strings.Contains(body, "io.ErrUnexpectedEOF") && strings.Contains(body, "return nil, io.EOF"):
				tornData = Yes
			}
		}
	}
	// With a size pre-check in front of the allocation every short payload is reported there (the
	// ReadFull behind it can only fail with a genuine I/O error), so the pre-check alone decides;
	// without one the ReadFull error branch decides.  `yes` iff every short-payload path returns io.EOF.
	if hasPre {
		tornData = pre
	}
	return
}

// Load: any error from NewFileReader / LoadIndex ⇒ log and return (swamp loads empty)
func c02LoadAbortsOnError(s *c02Src) (Tri, string) {
	if s.ch == nil {
		return Unknown, ""
	}
	fd := s.ch.Func("chroniclerV2", "Load")
	if fd == nil {
		return Unknown, c02Chron
	}
	found := 0
	for _, st := range fd.Body.List {
		ifs, ok := st.(*ast.IfStmt)
		if !ok || s.ch.Str(ifs.Cond) != "err != nil" || len(ifs.Body.List) == 0 {
			continue
		}
		if _, isRet := ifs.Body.List[len(ifs.Body.List)-1].(*ast.ReturnStmt); isRet {
			found++
		}
	}
	li, lc := c02AnyIdx(s.ch, fd, c02Named("reader.LoadIndex"))
	if li < 0 {
		return Unknown, c02Where(s.ch, fd)
	}
	if found >= 2 {
		return Yes, c02Where(s.ch, lc)
	}
	return No, c02Where(s.ch, lc)
}

func c02LoadCleansTemp(s *c02Src) (Tri, string) {
	if s.ch == nil {
		return Unknown, ""
	}
	fd := s.ch.Func("chroniclerV2", "Load")
	return c02RemovesTempBefore(s.ch, fd, c02Named("v2.NewFileReader"))
}

// fileWriterHandler: chroniclerInterface.Write(...) followed unconditionally by chroniclerInterface.Sync()
func c02HandlerSyncs(s *c02Src) (Tri, string) {
	if s.sw == nil {
		return Unknown, ""
	}
	fd := s.sw.Func("swamp", "fileWriterHandler")
	if fd == nil {
		return Unknown, c02Swamp
	}
	wi, wc := c02UncondIdx(s.sw, fd, c02Named("s.chroniclerInterface.Write"))
	if wi < 0 {
		return Unknown, c02Where(s.sw, fd)
	}
	si, sc := c02UncondIdx(s.sw, fd, c02Named("s.chroniclerInterface.Sync"))
	if si > wi {
		return Yes, c02Where(s.sw, sc)
	}
	return No, c02Where(s.sw, wc)
}

// chroniclerV2.Sync forwards to c.writer.Sync()
func c02ChronSyncForwards(s *c02Src) (Tri, string) {
	if s.ch == nil {
		return Unknown, ""
	}
	fd := s.ch.Func("chroniclerV2", "Sync")
	if fd == nil {
		return Unknown, c02Chron
	}
	if i, c := c02UncondIdx(s.ch, fd, c02Named("c.writer.Sync")); i >= 0 {
		return Yes, c02Where(s.ch, c)
	}
	return No, c02Where(s.ch, fd)
}

func init() {
	Register("C02", Extractor{Import: "Hv.Props.C02", Type: "Hv.C02.Facts", Run: func(fs *Facts) {
		s := c02Load(fs)
		sh, td, w := c02ReaderFacts(s)
		fs.Tri("shortHeaderIsEOF", sh, w)
		fs.Tri("tornDataIsEOF", td, w)
		t, w := c02FlushOrderCanonical(s)
		fs.Tri("flushOrderCanonical", t, w)
		t, w = c02WriterFsyncs(s, "Sync")
		fs.Tri("syncFsyncs", t, w)
		t, w = c02WriterFsyncs(s, "Close")
		fs.Tri("closeFsyncs", t, w)
		ap, tr, w := c02OpensExistingForAppend(s)
		fs.Tri("opensExistingForAppend", ap, w)
		fs.Tri("truncatesTornTail", tr, w)
		t, w = c02LoadAbortsOnError(s)
		fs.Tri("loadAbortsOnError", t, w)
		t, w = c02HandlerSyncs(s)
		fs.Tri("handlerSyncsAfterWrite", t, w)
		t, w = c02ChronSyncForwards(s)
		fs.Tri("chronSyncForwards", t, w)
		t, w = c25FlushesAtCountBound(s)
		fs.Tri("flushesAtCountBound", t, w)
		t, w = c02ZeroTailIsEOF(s)
		fs.Tri("zeroTailIsEOF", t, w)
		cz, sp, w := c02OpenZeroFacts(s)
		fs.Tri("openCutsZeroTail", cz, w)
		fs.Tri("openSparesMidFileDamage", sp, w)
		c25ReaderAssumptions(fs, s)
	}})
}
