/-
  Model of `SummonSwamp`'s wait-slot protocol (app/core/hydra/hydra.go) for one swamp name.

  Code: `summoningSwamps` maps the name to a `*SwampWaiter{cond, ready, count}`.
    lookup        `LoadOrStore(name, newSwampWaiter())`             (sync.Map, atomic)
    enter         under `waiter.cond.L`: `for ready { count++; Wait() }; ready = true`
    giveUp        in that loop, when ctx is done: `Broadcast(); return` — *before* the defer is registered
    body          `getSwamp` / `createNewSwamp` / `swamps.Store`, or leave at once when ctx is done
    leaveUnready  deferred, under `L`: `ready = false; Broadcast()`
    leaveDec      `atomic.AddInt32(&count, -1)`
    leaveDel      `if atomic.LoadInt32(&count) == 0 { summoningSwamps.Delete(name) }`
    closeInst / staleCallback: `swamps.Delete(name)` from an instance's close callback
  `ready` is refined by the ghost `owner` (which thread set it).  `count` is incremented only by
  waiters and decremented by everyone who ran the body.  Slot objects have identity: a thread
  keeps its pointer after the map entry is gone.

  `cfg.refCounted = true` is the repaired bookkeeping: every entrant counts itself atomically with
  the lookup, every exit (including `giveUp`) decrements, and the decrement deletes the map entry
  atomically (with respect to lookups) when it reaches zero.
-/
import Hv.Basic.LTS

namespace Hv.Summon

structure Cfg where
  refCounted : Bool
  /-- the close callback removes the map entry only if it still is the closing instance
      (`CompareAndDelete(name, inst)`); `false`: `swamps.Delete(name)` — by name, whoever is mapped -/
  callbackCompares : Bool
  deriving DecidableEq, Repr

inductive Pc where
  | idle | looked | waiting | woken | inCS | creating | created (i : Nat) | leaving | left1 | left2 | done
  deriving DecidableEq, Repr

structure Slot where
  owner : Option Nat
  count : Int
  /-- ghost (refCounted): threads that have counted themselves and not left -/
  holders : List Nat
  deriving DecidableEq, Repr

def Slot.fresh : Slot := { owner := none, count := 0, holders := [] }

structure Thread where
  pc : Pc
  slot : Nat
  deriving DecidableEq, Repr

structure St where
  slots : Nat → Slot
  nextSlot : Nat
  slotMap : Option Nat
  thr : Nat → Thread
  swampMap : Option Nat
  live : List Nat
  nextInst : Nat
  /-- instances that have been stored in `swamps` at some point (handles others may hold) -/
  published : List Nat

def init : St :=
  { slots := fun _ => Slot.fresh, nextSlot := 0, slotMap := none, thr := fun _ => ⟨.idle, 0⟩,
    swampMap := none, live := [], nextInst := 0, published := [] }

inductive Act where
  | lookup (t : Nat) | enter (t : Nat) | giveUp (t : Nat)
  | bodyCtxDone (t : Nat) | bodyGet (t : Nat) | bodyCreate (t : Nat) | bodyStore (t : Nat)
  | leaveUnready (t : Nat) | leaveDec (t : Nat) | leaveDel (t : Nat)
  /-- a live, published instance closes itself (idle close, `Close()`, `Destroy()`): its file handle
      goes away and its close callback runs -/
  | closeInst (i : Nat)
  /-- the close callback of an instance that is already gone runs again (`Destroy()` on a stale
      handle after `Close()`: `gateway.Destroy` holds no vigil and `Destroy` always ends in
      `sendClosedEvent`) -/
  | staleCallback (i : Nat)
  deriving DecidableEq, Repr

def setThr (s : St) (t : Nat) (x : Thread) : Nat → Thread := fun y => if y = t then x else s.thr y
def setSlot (s : St) (σ : Nat) (x : Slot) : Nat → Slot := fun y => if y = σ then x else s.slots y

/-- `Broadcast` on slot `σ`: every thread waiting there re-evaluates its loop -/
def wake (thr : Nat → Thread) (σ : Nat) : Nat → Thread :=
  fun y => if (thr y).pc = .waiting ∧ (thr y).slot = σ then ⟨.woken, σ⟩ else thr y

/-- the close callback of instance `i` on the `swamps` map -/
def unmap (cfg : Cfg) (m : Option Nat) (i : Nat) : Option Nat :=
  if cfg.callbackCompares then (if m = some i then none else m) else none

def step (cfg : Cfg) (s : St) : Act → Option St
  | .lookup t =>
    if (s.thr t).pc = .idle then
      match s.slotMap with
      | some σ =>
        let sl := s.slots σ
        some { s with thr := setThr s t ⟨.looked, σ⟩,
                      slots := if cfg.refCounted then setSlot s σ { sl with count := sl.count + 1, holders := sl.holders ++ [t] } else s.slots }
      | none =>
        let σ := s.nextSlot
        some { s with thr := setThr s t ⟨.looked, σ⟩, slotMap := some σ, nextSlot := σ + 1,
                      slots := setSlot s σ (if cfg.refCounted then { owner := none, count := 1, holders := [t] } else Slot.fresh) }
    else none
  | .enter t =>
    let x := s.thr t
    if x.pc = .looked ∨ x.pc = .woken then
      let sl := s.slots x.slot
      match sl.owner with
      | none => some { s with slots := setSlot s x.slot { sl with owner := some t }, thr := setThr s t ⟨.inCS, x.slot⟩ }
      | some _ =>
        some { s with slots := if cfg.refCounted then s.slots else setSlot s x.slot { sl with count := sl.count + 1 },
                      thr := setThr s t ⟨.waiting, x.slot⟩ }
    else none
  | .giveUp t =>
    let x := s.thr t
    if (x.pc = .looked ∨ x.pc = .woken) ∧ (s.slots x.slot).owner ≠ none then
      some { s with thr := setThr { s with thr := wake s.thr x.slot } t ⟨if cfg.refCounted then .left1 else .done, x.slot⟩ }
    else none
  | .bodyCtxDone t =>
    let x := s.thr t
    if x.pc = .inCS then some { s with thr := setThr s t ⟨.leaving, x.slot⟩ } else none
  | .bodyGet t =>
    let x := s.thr t
    if x.pc = .inCS then
      match s.swampMap with
      | some _ => some { s with thr := setThr s t ⟨.leaving, x.slot⟩ }
      | none => some { s with thr := setThr s t ⟨.creating, x.slot⟩ }
    else none
  | .bodyCreate t =>
    let x := s.thr t
    if x.pc = .creating then
      some { s with thr := setThr s t ⟨.created s.nextInst, x.slot⟩, live := s.live ++ [s.nextInst], nextInst := s.nextInst + 1 }
    else none
  | .bodyStore t =>
    let x := s.thr t
    match x.pc with
    | .created i => some { s with thr := setThr s t ⟨.leaving, x.slot⟩, swampMap := some i, published := s.published ++ [i] }
    | _ => none
  | .leaveUnready t =>
    let x := s.thr t
    if x.pc = .leaving then
      let sl := s.slots x.slot
      some { s with slots := setSlot s x.slot { sl with owner := none },
                    thr := setThr { s with thr := wake s.thr x.slot } t ⟨.left1, x.slot⟩ }
    else none
  | .leaveDec t =>
    let x := s.thr t
    if x.pc = .left1 then
      let sl := s.slots x.slot
      if cfg.refCounted then
        let sl' := { sl with count := sl.count - 1, holders := sl.holders.erase t }
        some { s with slots := setSlot s x.slot sl', thr := setThr s t ⟨.done, x.slot⟩,
                      slotMap := if sl'.count = 0 then none else s.slotMap }
      else
        some { s with slots := setSlot s x.slot { sl with count := sl.count - 1 }, thr := setThr s t ⟨.left2, x.slot⟩ }
    else none
  | .leaveDel t =>
    let x := s.thr t
    if x.pc = .left2 then
      some { s with thr := setThr s t ⟨.done, x.slot⟩,
                    slotMap := if (s.slots x.slot).count = 0 then none else s.slotMap }
    else none
  | .closeInst i =>
    if i ∈ s.live ∧ i ∈ s.published then
      some { s with live := s.live.erase i, swampMap := unmap cfg s.swampMap i }
    else none
  | .staleCallback i =>
    if i ∈ s.published ∧ i ∉ s.live then some { s with swampMap := unmap cfg s.swampMap i } else none

abbrev run (cfg : Cfg) := LTS.run (step cfg)

end Hv.Summon
