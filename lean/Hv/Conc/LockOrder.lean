import Hv.Basic.LTS

/-!
  Blocking locks, threads that run straight-line lock programs, and the classical ordering argument:
  if every *waiting* acquisition asks for a lock that ranks above everything the thread already holds,
  no reachable state is a deadlock.

  * `acq l`    waits until `l` is free, then owns it;
  * `try l n`  never waits: takes `l` when it is free, otherwise skips the next `n` operations
               (`StartTreasureGuard(false)` + `continue`);
  * `rel l`    releases.

  A schedule is a list of thread ids; `step s t = none` when thread `t` cannot move (finished, or its
  next operation is an `acq` of an owned lock).
-/
namespace Hv.LockOrder

inductive Op where
  | acq (l : Nat)
  | try (l : Nat) (skip : Nat)
  | rel (l : Nat)
  deriving DecidableEq, Repr

structure St where
  owner : Nat → Option Nat
  held : Nat → List Nat
  prog : Nat → List Op

def upd {β : Type} (f : Nat → β) (i : Nat) (v : β) : Nat → β := fun j => if j = i then v else f j

@[simp] theorem upd_same {β : Type} (f : Nat → β) (i : Nat) (v : β) : upd f i v i = v := by simp [upd]
theorem upd_other {β : Type} (f : Nat → β) (i j : Nat) (v : β) (h : ¬ j = i) : upd f i v j = f j := by simp [upd, h]

def init (progs : Nat → List Op) : St := { owner := fun _ => none, held := fun _ => [], prog := progs }

def step (s : St) (t : Nat) : Option St :=
  match s.prog t with
  | [] => none
  | .acq l :: rest =>
    if (s.owner l).isNone then
      some { owner := upd s.owner l (some t), held := upd s.held t (l :: s.held t), prog := upd s.prog t rest }
    else none
  | .try l n :: rest =>
    if (s.owner l).isNone then
      some { owner := upd s.owner l (some t), held := upd s.held t (l :: s.held t), prog := upd s.prog t rest }
    else some { s with prog := upd s.prog t (rest.drop n) }
  | .rel l :: rest =>
    some { owner := if s.owner l = some t then upd s.owner l none else s.owner,
           held := upd s.held t ((s.held t).filter (· != l)), prog := upd s.prog t rest }

abbrev run := LTS.run step

/-- Somebody still has work to do and nobody can move. -/
def Stuck (s : St) : Prop := (∃ t, s.prog t ≠ []) ∧ ∀ t, step s t = none

/-- The discipline, checked along a program with the set of locks held so far. -/
inductive Ordered (rank : Nat → Nat) : List Nat → List Op → Prop where
  | nil : Ordered rank [] []
  | acq {held l rest} : (∀ h ∈ held, rank h < rank l) → Ordered rank (l :: held) rest → Ordered rank held (.acq l :: rest)
  | try {held l n rest} : Ordered rank (l :: held) rest → Ordered rank held (rest.drop n) → Ordered rank held (.try l n :: rest)
  | rel {held l rest} : l ∈ held → Ordered rank (held.filter (· != l)) rest → Ordered rank held (.rel l :: rest)

theorem ordered_nil {rank held} (h : Ordered rank held []) : held = [] := by cases h; rfl
theorem ordered_acq {rank held l rest} (h : Ordered rank held (.acq l :: rest)) :
    (∀ x ∈ held, rank x < rank l) ∧ Ordered rank (l :: held) rest := by cases h; exact ⟨by assumption, by assumption⟩
theorem ordered_try {rank held l n rest} (h : Ordered rank held (.try l n :: rest)) :
    Ordered rank (l :: held) rest ∧ Ordered rank held (rest.drop n) := by cases h; exact ⟨by assumption, by assumption⟩
theorem ordered_rel {rank held l rest} (h : Ordered rank held (.rel l :: rest)) :
    l ∈ held ∧ Ordered rank (held.filter (· != l)) rest := by cases h; exact ⟨by assumption, by assumption⟩

structure Inv (rank : Nat → Nat) (s : St) : Prop where
  ord : ∀ t, Ordered rank (s.held t) (s.prog t)
  own : ∀ l t, s.owner l = some t ↔ l ∈ s.held t

theorem inv_init (rank : Nat → Nat) (progs : Nat → List Op) (h : ∀ t, Ordered rank [] (progs t)) :
    Inv rank (init progs) :=
  ⟨h, fun l t => by simp [init]⟩

private theorem inv_take (rank : Nat → Nat) (s : St) (t l : Nat) (rest : List Op) (h : Inv rank s)
    (hfree : s.owner l = none) (hord : Ordered rank (l :: s.held t) rest) :
    Inv rank { owner := upd s.owner l (some t), held := upd s.held t (l :: s.held t), prog := upd s.prog t rest } := by
  refine ⟨fun u => ?_, fun l' u => ?_⟩
  · by_cases hu : u = t
    · subst hu; simpa using hord
    · simp only [upd_other _ _ _ _ hu]; exact h.ord u
  · by_cases hl : l' = l
    · subst hl
      by_cases hu : u = t
      · subst hu; simp
      · simp only [upd_same, upd_other _ _ _ _ hu]
        have : ¬ l' ∈ s.held u := fun hm => by have := (h.own l' u).2 hm; rw [hfree] at this; cases this
        simp [this]; exact fun e => hu e.symm
    · simp only [upd_other _ _ _ _ hl]
      by_cases hu : u = t
      · subst hu; simp [hl]; exact h.own l' u
      · simp only [upd_other _ _ _ _ hu]; exact h.own l' u

theorem inv_step (rank : Nat → Nat) (s : St) (t : Nat) (s' : St) (h : Inv rank s) (hs : step s t = some s') :
    Inv rank s' := by
  unfold step at hs
  have hot := h.ord t
  cases hp : s.prog t with
  | nil => simp [hp] at hs
  | cons op rest =>
    rw [hp] at hot
    cases op with
    | acq l =>
      simp only [hp] at hs
      cases ho : s.owner l with
      | some u => simp [ho] at hs
      | none =>
        simp only [ho, Option.isNone_none, if_true] at hs
        cases hs
        exact inv_take rank s t l rest h ho (ordered_acq hot).2
    | «try» l n =>
      simp only [hp] at hs
      cases ho : s.owner l with
      | some u =>
        simp only [ho, Option.isNone_some, Bool.false_eq_true, if_false] at hs
        cases hs
        refine ⟨fun u' => ?_, h.own⟩
        by_cases hu : u' = t
        · subst hu; simpa using (ordered_try hot).2
        · simp only [upd_other _ _ _ _ hu]; exact h.ord u'
      | none =>
        simp only [ho, Option.isNone_none, if_true] at hs
        cases hs
        exact inv_take rank s t l rest h ho (ordered_try hot).1
    | rel l =>
      simp only [hp] at hs
      cases hs
      have hown : s.owner l = some t := (h.own l t).2 (ordered_rel hot).1
      refine ⟨fun u => ?_, fun l' u => ?_⟩
      · by_cases hu : u = t
        · subst hu; simpa using (ordered_rel hot).2
        · simp only [upd_other _ _ _ _ hu]; exact h.ord u
      · simp only [hown, if_true]
        by_cases hl : l' = l
        · subst hl
          simp only [upd_same]
          by_cases hu : u = t
          · subst hu; simp
          · simp only [upd_other _ _ _ _ hu]
            have : ¬ l' ∈ s.held u := fun hm => by
              have := (h.own l' u).2 hm; rw [hown] at this; exact hu (Option.some.inj this).symm
            simp [this]
        · simp only [upd_other _ _ _ _ hl]
          by_cases hu : u = t
          · subst hu; simp [hl]; exact h.own l' u
          · simp only [upd_other _ _ _ _ hu]; exact h.own l' u

/-- In a stuck state every unfinished thread waits at an `acq` of an owned lock. -/
private theorem blocked_of_stuck (s : St) (t : Nat) (hne : s.prog t ≠ []) (hst : step s t = none) :
    ∃ l rest u, s.prog t = .acq l :: rest ∧ s.owner l = some u := by
  unfold step at hst
  cases hp : s.prog t with
  | nil => exact absurd hp hne
  | cons op rest =>
    cases op with
    | acq l =>
      cases ho : s.owner l with
      | none => simp [hp, ho] at hst
      | some u => exact ⟨l, rest, u, rfl, ho⟩
    | «try» l n =>
      simp only [hp] at hst
      cases ho : s.owner l <;> simp [ho] at hst
    | rel l => simp [hp] at hst

/-- **Deadlock freedom from a consistent global lock order.**  `R` bounds the ranks. -/
theorem not_stuck_of_inv (rank : Nat → Nat) (R : Nat) (hR : ∀ l, rank l ≤ R) (s : St) (h : Inv rank s) : ¬ Stuck s := by
  intro ⟨⟨t0, hne0⟩, hall⟩
  -- the awaited lock of some blocked thread ranks at least n, for every n
  have climb : ∀ n, ∃ t l rest, s.prog t = .acq l :: rest ∧ n ≤ rank l := by
    intro n
    induction n with
    | zero =>
      obtain ⟨l, rest, _, hp, _⟩ := blocked_of_stuck s t0 hne0 (hall t0)
      exact ⟨t0, l, rest, hp, Nat.zero_le _⟩
    | succ n ih =>
      obtain ⟨t, l, rest, hp, hn⟩ := ih
      obtain ⟨l1, rest1, u, hp1, hown⟩ := blocked_of_stuck s t (by rw [hp]; simp) (hall t)
      rw [hp] at hp1; cases hp1
      -- the owner holds `l`, so it is unfinished, hence blocked, at a lock above `l`
      have hmem : l ∈ s.held u := (h.own l u).1 hown
      have hou := h.ord u
      have hune : s.prog u ≠ [] := by
        intro he; rw [he] at hou
        have : s.held u = [] := ordered_nil hou
        rw [this] at hmem; cases hmem
      obtain ⟨l2, rest2, _, hp2, _⟩ := blocked_of_stuck s u hune (hall u)
      rw [hp2] at hou
      exact ⟨u, l2, rest2, hp2, Nat.succ_le_of_lt (Nat.lt_of_le_of_lt hn ((ordered_acq hou).1 l hmem))⟩
  obtain ⟨_, l, _, _, hl⟩ := climb (R + 1)
  exact absurd (hR l) (by omega)

theorem no_deadlock (rank : Nat → Nat) (R : Nat) (hR : ∀ l, rank l ≤ R) (progs : Nat → List Op)
    (hwf : ∀ t, Ordered rank [] (progs t)) (sched : List Nat) (s : St) (hr : run (init progs) sched = some s) :
    ¬ Stuck s :=
  not_stuck_of_inv rank R hR s
    (LTS.inv_run step (Inv rank) (fun s a s' hi hs => inv_step rank s a s' hi hs) (init progs) sched s (inv_init rank progs hwf) hr)

end Hv.LockOrder
