/-
  Inductive invariant of the business-lock LTS for the code shape
  `wake = next`, `wakeOnlyIfHead = true`.  Helper lemmas only; the property
  theorems are in `Hv/Props/C14.lean`.
-/
import Hv.Conc.Lock

namespace Hv.Lock

/-- the facts of the unchanged tree -/
def IsGood (cfg : Cfg) : Prop := cfg.wake = .next ∧ cfg.wakeOnlyIfHead = true

/-- queue-level invariant: exactly the head is granted -/
def QInv (q : Q) : Prop := q.ready = q.callers.head?.toList

theorem qinv_empty : QInv Q.empty := by simp [QInv, Q.empty]

theorem enq_eq (q : Q) (h : QInv q) (c : Nat) :
    q.enq c = match q.callers with
      | [] => { q with callers := [c], ready := [c], grants := q.grants ++ [c] }
      | x :: t => { q with callers := x :: t ++ [c] } := by
  unfold QInv at h
  cases hq : q.callers with
  | nil =>
    have hr : q.ready = [] := by simpa [hq] using h
    simp [Q.enq, hq, Q.close, hr]
  | cons x t => simp [Q.enq, hq]

theorem qinv_enq (q : Q) (h : QInv q) (c : Nat) : QInv (q.enq c) := by
  rw [enq_eq q h c]
  cases hq : q.callers with
  | nil => simp [QInv]
  | cons x t =>
    have : q.ready = [x] := by simpa [QInv, hq] using h
    simp [QInv, this]

/-- The four outcomes of `remove` on a queue whose head (only) is granted. -/
theorem rem_cases (cfg : Cfg) (hg : IsGood cfg) (q : Q) (h : QInv q) (id : Nat) :
    (id ∉ q.callers ∧ q.rem cfg id = (q, false)) ∨
    (q.callers = [id] ∧ q.rem cfg id = ({ q with callers := [], ready := [] }, true)) ∨
    (∃ y ys, q.callers = id :: y :: ys ∧
      q.rem cfg id = ({ q with callers := y :: ys, ready := [y], grants := q.grants ++ [y] }, true)) ∨
    (∃ x t, q.callers = x :: t ∧ id ≠ x ∧ id ∈ t ∧
      q.rem cfg id = ({ q with callers := x :: t.erase id, ready := [x] }, true)) := by
  obtain ⟨hw, hh⟩ := hg
  unfold QInv at h
  by_cases hm : id ∈ q.callers
  · right
    cases hq : q.callers with
    | nil => simp [hq] at hm
    | cons x t =>
      have hr : q.ready = [x] := by simpa [hq] using h
      by_cases hx : id = x
      · subst hx
        cases t with
        | nil =>
          left
          refine ⟨rfl, ?_⟩
          simp [Q.rem, hq, hr, wakeTarget, hw]
        | cons y ys =>
          right; left
          refine ⟨y, ys, rfl, ?_⟩
          simp [Q.rem, hq, hr, wakeTarget, hw, Q.close]
      · right; right
        have hx' : x ≠ id := fun e => hx e.symm
        have ht : id ∈ t := by
          rw [hq] at hm
          rcases List.mem_cons.mp hm with e | e
          · exact absurd e hx
          · exact e
        refine ⟨x, t, rfl, hx, ht, ?_⟩
        simp [Q.rem, hq, hr, hh, hx, hx', ht]
  · left
    exact ⟨hm, by simp [Q.rem, hm]⟩

theorem qinv_rem (cfg : Cfg) (hg : IsGood cfg) (q : Q) (h : QInv q) (id : Nat) :
    QInv (q.rem cfg id).1 := by
  rcases rem_cases cfg hg q h id with ⟨_, e⟩ | ⟨_, e⟩ | ⟨y, ys, _, e⟩ | ⟨x, t, _, _, _, e⟩ <;> rw [e]
  · exact h
  · simp [QInv]
  · simp [QInv]
  · simp [QInv]

theorem rem_found (cfg : Cfg) (q : Q) (id : Nat) : (q.rem cfg id).2 = decide (id ∈ q.callers) := by
  unfold Q.rem
  by_cases hm : id ∈ q.callers
  · simp only [hm, if_true]
    split
    · split <;> simp
    · simp
  · simp [hm]

/-- state-level invariant -/
structure Inv (s : St) : Prop where
  qSorted : s.q.callers.Pairwise (· < ·)
  qBound  : ∀ x ∈ s.q.callers, x ≤ s.next
  ready   : QInv s.q
  gSorted : s.q.grants.Pairwise (· < ·)
  gBound  : ∀ g ∈ s.q.grants, g ≤ s.next ∧ ∀ x ∈ s.q.callers, g ≤ x
  readyGranted : ∀ x ∈ s.q.ready, x ∈ s.q.grants
  acqGranted : ∀ x ∈ s.acquired, x ∈ s.q.grants
  noPanic : s.q.panics = 0
  complete : ∀ x ∈ s.issued, x ∈ s.q.grants ∨ x ∈ s.cancelledU ∨ x ∈ s.q.callers
  cancelled : ∀ x ∈ s.cancelledU, x ≤ s.next ∧ x ∉ s.q.callers ∧ x ∉ s.q.grants

theorem inv_init : Inv init := by
  constructor <;> simp [init, Q.empty, QInv]

theorem sorted_nodup {l : List Nat} (h : l.Pairwise (· < ·)) : l.Nodup :=
  List.Pairwise.imp (fun hab => Nat.ne_of_lt hab) h

theorem inv_enqueue (s : St) (h : Inv s) (id : Nat) (hid : s.next < id) :
    Inv { s with q := s.q.enq id, next := id, issued := s.issued ++ [id] } := by
  obtain ⟨qS, qB, hR, gS, gB, rG, aG, nP, cP, cC⟩ := h
  rw [enq_eq s.q hR id]
  cases hq : s.q.callers with
  | nil =>
    have hr : s.q.ready = [] := by simpa [QInv, hq] using hR
    refine ⟨by simp, by simp, by simp [QInv], ?_, ?_, ?_, ?_, nP, ?_, ?_⟩
    · show (s.q.grants ++ [id]).Pairwise (· < ·)
      rw [List.pairwise_append]
      refine ⟨gS, by simp, ?_⟩
      intro a ha b hb
      simp at hb; subst hb
      have := (gB a ha).1; omega
    · intro g hg
      replace hg : g ∈ s.q.grants ++ [id] := hg
      show g ≤ id ∧ ∀ x ∈ [id], g ≤ x
      rcases List.mem_append.mp hg with hg | hg
      · have := (gB g hg).1
        refine ⟨by omega, ?_⟩
        intro x hx; simp at hx; subst hx; omega
      · simp at hg; subst hg; simp
    · intro x hx
      replace hx : x ∈ [id] := hx
      show x ∈ s.q.grants ++ [id]
      simp at hx; subst hx; simp
    · intro x hx
      show x ∈ s.q.grants ++ [id]
      exact List.mem_append_left _ (aG x hx)
    · intro x hx
      show x ∈ s.q.grants ++ [id] ∨ x ∈ s.cancelledU ∨ x ∈ [id]
      replace hx : x ∈ s.issued ++ [id] := hx
      rcases List.mem_append.mp hx with hx | hx
      · rcases cP x hx with c | c | c
        · exact Or.inl (List.mem_append_left _ c)
        · exact Or.inr (Or.inl c)
        · simp [hq] at c
      · simp at hx; subst hx; simp
    · intro x hx
      show x ≤ id ∧ x ∉ [id] ∧ x ∉ s.q.grants ++ [id]
      have := cC x hx
      refine ⟨by omega, ?_, ?_⟩
      · simp; omega
      · simp; exact ⟨this.2.2, by omega⟩
  | cons y t =>
    rw [hq] at qS qB gB cP cC
    have hr : s.q.ready = [y] := by simpa [QInv, hq] using hR
    refine ⟨?_, ?_, ?_, gS, ?_, rG, aG, nP, ?_, ?_⟩
    · show (y :: t ++ [id]).Pairwise (· < ·)
      rw [List.pairwise_append]
      refine ⟨qS, by simp, ?_⟩
      intro a ha b hb
      simp at hb; subst hb
      have := qB a ha; omega
    · intro x hx
      replace hx : x ∈ y :: t ++ [id] := hx
      show x ≤ id
      rcases List.mem_append.mp hx with hx | hx
      · have := qB x hx; omega
      · simp at hx; omega
    · simp [QInv, hr]
    · intro g hg
      show g ≤ id ∧ ∀ x ∈ y :: t ++ [id], g ≤ x
      have := gB g hg
      refine ⟨by omega, ?_⟩
      intro x hx
      rcases List.mem_append.mp hx with hx | hx
      · exact this.2 x hx
      · simp at hx; omega
    · intro x hx
      show x ∈ s.q.grants ∨ x ∈ s.cancelledU ∨ x ∈ y :: t ++ [id]
      replace hx : x ∈ s.issued ++ [id] := hx
      rcases List.mem_append.mp hx with hx | hx
      · rcases cP x hx with c | c | c
        · exact Or.inl c
        · exact Or.inr (Or.inl c)
        · exact Or.inr (Or.inr (List.mem_append_left _ c))
      · simp at hx; subst hx; simp
    · intro x hx
      show x ≤ id ∧ x ∉ y :: t ++ [id] ∧ x ∉ s.q.grants
      have := cC x hx
      refine ⟨by omega, ?_, this.2.2⟩
      intro hm
      rcases List.mem_append.mp hm with hm | hm
      · exact this.2.1 hm
      · simp at hm; omega

/-- `remove` preserves the invariant; `cu'` is the new cancelled-ungranted list: either
    unchanged, or extended by `id` when `id` was a waiting (not granted) member. -/
theorem inv_remove (cfg : Cfg) (hg : IsGood cfg) (s : St) (h : Inv s) (id : Nat) (cu' : List Nat)
    (hcu : (cu' = s.cancelledU ∧ (id ∈ s.q.grants ∨ id ∉ s.q.callers)) ∨
           (cu' = s.cancelledU ++ [id] ∧ id ∈ s.q.callers ∧ id ∉ s.q.ready)) :
    Inv { s with q := (s.q.rem cfg id).1, cancelledU := cu' } := by
  obtain ⟨qS, qB, hR, gS, gB, rG, aG, nP, cP, cC⟩ := h
  rcases rem_cases cfg hg s.q hR id with ⟨hn, e⟩ | ⟨hq, e⟩ | ⟨y, ys, hq, e⟩ | ⟨x, t, hq, hne, hmt, e⟩
  · -- not a member: nothing changes
    have hcu' : cu' = s.cancelledU := by
      rcases hcu with ⟨c, _⟩ | ⟨_, c, _⟩
      · exact c
      · exact absurd c hn
    rw [e, hcu']
    exact ⟨qS, qB, hR, gS, gB, rG, aG, nP, cP, cC⟩
  · -- the only member leaves
    have hr : s.q.ready = [id] := by simpa [QInv, hq] using hR
    have hcu' : cu' = s.cancelledU := by
      rcases hcu with ⟨c, _⟩ | ⟨_, _, c⟩
      · exact c
      · simp [hr] at c
    rw [e, hcu']
    refine ⟨by simp, by simp, by simp [QInv], gS, ?_, by simp, aG, nP, ?_, ?_⟩
    · intro g hg'; exact ⟨(gB g hg').1, by simp⟩
    · intro x hx
      rcases cP x hx with c | c | c
      · exact Or.inl c
      · exact Or.inr (Or.inl c)
      · left
        have : x = id := by simpa [hq] using c
        subst this
        exact rG x (by simp [hr])
    · intro x hx
      have := cC x hx
      exact ⟨this.1, by simp, this.2.2⟩
  · -- the head leaves, the next waiter is granted
    have hr : s.q.ready = [id] := by simpa [QInv, hq] using hR
    have hcu' : cu' = s.cancelledU := by
      rcases hcu with ⟨c, _⟩ | ⟨_, _, c⟩
      · exact c
      · simp [hr] at c
    rw [hq] at qS qB gB cP cC
    rw [e, hcu']
    have qS' := (List.pairwise_cons.mp qS)
    have hidy : id < y := qS'.1 y (by simp)
    refine ⟨qS'.2, ?_, by simp [QInv], ?_, ?_, ?_, ?_, nP, ?_, ?_⟩
    · intro a ha; exact qB a (List.mem_cons_of_mem _ ha)
    · show (s.q.grants ++ [y]).Pairwise (· < ·)
      rw [List.pairwise_append]
      refine ⟨gS, by simp, ?_⟩
      intro a ha b hb
      simp at hb; subst hb
      have := (gB a ha).2 id (by simp); omega
    · intro g hg'
      replace hg' : g ∈ s.q.grants ++ [y] := hg'
      show g ≤ s.next ∧ ∀ a ∈ y :: ys, g ≤ a
      rcases List.mem_append.mp hg' with hg' | hg'
      · exact ⟨(gB g hg').1, fun a ha => (gB g hg').2 a (List.mem_cons_of_mem _ ha)⟩
      · simp at hg'; subst hg'
        refine ⟨qB g (by simp), ?_⟩
        intro a ha
        rcases List.mem_cons.mp ha with ha | ha
        · omega
        · have := (List.pairwise_cons.mp qS'.2).1 a ha; omega
    · intro a ha
      replace ha : a ∈ [y] := ha
      show a ∈ s.q.grants ++ [y]
      simp at ha; subst ha; simp
    · intro a ha
      show a ∈ s.q.grants ++ [y]
      exact List.mem_append_left _ (aG a ha)
    · intro a ha
      show a ∈ s.q.grants ++ [y] ∨ a ∈ s.cancelledU ∨ a ∈ y :: ys
      rcases cP a ha with c | c | c
      · exact Or.inl (List.mem_append_left _ c)
      · exact Or.inr (Or.inl c)
      · rcases List.mem_cons.mp c with c | c
        · subst c
          exact Or.inl (List.mem_append_left _ (rG a (by simp [hr])))
        · exact Or.inr (Or.inr c)
    · intro a ha
      show a ≤ s.next ∧ a ∉ y :: ys ∧ a ∉ s.q.grants ++ [y]
      have := cC a ha
      refine ⟨this.1, fun hm => this.2.1 (List.mem_cons_of_mem _ hm), ?_⟩
      intro hm
      rcases List.mem_append.mp hm with hm | hm
      · exact this.2.2 hm
      · simp at hm; subst hm; exact this.2.1 (by simp)
  · -- a waiter behind the head leaves
    have hr : s.q.ready = [x] := by simpa [QInv, hq] using hR
    rw [hq] at qS qB gB cP cC
    have hnd : (x :: t).Nodup := sorted_nodup qS
    have hndt : t.Nodup := (List.nodup_cons.mp hnd).2
    have hsub : (x :: t.erase id).Sublist (x :: t) := List.Sublist.cons_cons x List.erase_sublist
    have hmem : ∀ a, a ∈ x :: t.erase id → a ∈ x :: t := fun a ha => hsub.subset ha
    have hidn : id ∉ x :: t.erase id := by
      intro hm
      rcases List.mem_cons.mp hm with c | c
      · exact hne c
      · have := (List.Nodup.mem_erase_iff hndt).mp c; exact this.1 rfl
    have hxid : x < id := (List.pairwise_cons.mp qS).1 id hmt
    have hidg : id ∉ s.q.grants := by
      intro hm; have := (gB id hm).2 x (by simp); omega
    rw [e]
    refine ⟨List.Pairwise.sublist hsub qS, fun a ha => qB a (hmem a ha), by simp [QInv], gS, ?_, ?_, aG, nP, ?_, ?_⟩
    · intro g hg'
      exact ⟨(gB g hg').1, fun a ha => (gB g hg').2 a (hmem a ha)⟩
    · intro a ha
      replace ha : a ∈ [x] := ha
      simp at ha; subst ha; exact rG a (by simp [hr])
    · intro a ha
      show a ∈ s.q.grants ∨ a ∈ cu' ∨ a ∈ x :: t.erase id
      rcases cP a ha with c | c | c
      · exact Or.inl c
      · right; left
        rcases hcu with ⟨e', _⟩ | ⟨e', _, _⟩ <;> rw [e']
        · exact c
        · exact List.mem_append_left _ c
      · by_cases hai : a = id
        · subst hai
          rcases hcu with ⟨_, hg' | hg'⟩ | ⟨e', _, _⟩
          · exact absurd hg' hidg
          · exact absurd (by rw [hq]; exact List.mem_cons_of_mem _ hmt) hg'
          · right; left; rw [e']; simp
        · right; right
          rcases List.mem_cons.mp c with c | c
          · subst c; simp
          · exact List.mem_cons_of_mem _ ((List.Nodup.mem_erase_iff hndt).mpr ⟨hai, c⟩)
    · intro a ha
      show a ≤ s.next ∧ a ∉ x :: t.erase id ∧ a ∉ s.q.grants
      rcases hcu with ⟨e', _⟩ | ⟨e', _, _⟩
      · rw [e'] at ha
        have := cC a ha
        exact ⟨this.1, fun hm => this.2.1 (hmem a hm), this.2.2⟩
      · rw [e'] at ha
        rcases List.mem_append.mp ha with ha | ha
        · have := cC a ha
          exact ⟨this.1, fun hm => this.2.1 (hmem a hm), this.2.2⟩
        · simp at ha; subst ha
          exact ⟨qB a (List.mem_cons_of_mem _ hmt), hidn, hidg⟩

/-! ### Liveness as a variant: the number of callers ahead of a waiter -/

theorem close_callers (q : Q) (id : Nat) : (q.close id).callers = q.callers := by
  unfold Q.close; split <;> rfl

/-- whatever the code shape, `remove` takes exactly the first occurrence of the id out of the queue -/
theorem rem_callers_erase (cfg : Cfg) (q : Q) (id : Nat) : (q.rem cfg id).1.callers = q.callers.erase id := by
  unfold Q.rem
  by_cases hm : id ∈ q.callers
  · simp only [hm, if_true]
    split
    · split
      · simp [close_callers]
      · rfl
    · rfl
  · simp only [hm, if_false]
    exact (List.erase_of_not_mem hm).symm

/-- a removal of somebody ahead of `x` moves `x` one place forward; everybody else keeps the order -/
theorem remove_ahead (cfg : Cfg) (q : Q) (pre post : List Nat) (x y : Nat) (hq : q.callers = pre ++ x :: post)
    (hy : y ∈ pre) : (q.rem cfg y).1.callers = pre.erase y ++ x :: post ∧ (pre.erase y).length + 1 = pre.length := by
  rw [rem_callers_erase, hq, List.erase_append_left _ hy]
  exact ⟨rfl, by rw [List.length_erase_of_mem hy]; have := List.length_pos_of_mem hy; omega⟩

/-- a removal of somebody behind `x` (or of a stranger) leaves the callers ahead of `x` as they are -/
theorem remove_behind (cfg : Cfg) (q : Q) (pre post : List Nat) (x z : Nat) (hq : q.callers = pre ++ x :: post)
    (hz : z ∉ pre) (hzx : z ≠ x) : (q.rem cfg z).1.callers = pre ++ x :: post.erase z := by
  rw [rem_callers_erase, hq, List.erase_append_right _ hz]
  have : (x == z) = false := by simp; exact fun e => hzx e.symm
  simp [List.erase_cons, this]

theorem enq_callers' (q : Q) (c : Nat) : (q.enq c).callers = q.callers ++ [c] := by
  unfold Q.enq; split
  · simp [close_callers]
  · rfl

end Hv.Lock
