/-
  Inductive invariant of the Cap batch LTS when the count happens after `capMu` is taken.
-/
import Hv.Conc.Cap

set_option linter.unusedSimpArgs false

namespace Hv.Cap

def good : Cfg := { countAfterLock := true, createPreFalse := true, expiredHoldsCapMu := true }

theorem count_set_le (l : List Bool) (k : Nat) (v : Bool) : (l.set k v).count true ≤ l.count true + 1 := by
  induction l generalizing k with
  | nil => simp
  | cons x xs ih =>
    cases k with
    | zero => cases x <;> cases v <;> simp <;> omega
    | succ n =>
      have := ih n
      simp only [List.set_cons_succ, List.count_cons]
      omega

theorem count_set_false_le (l : List Bool) (k : Nat) : (l.set k false).count true ≤ l.count true := by
  induction l generalizing k with
  | nil => simp
  | cons x xs ih =>
    cases k with
    | zero => cases x <;> simp
    | succ n =>
      have := ih n
      simp only [List.set_cons_succ, List.count_cons]
      omega

theorem set_true_of_getD (l : List Bool) (k : Nat) (h : l.getD k false = true) : l.set k true = l := by
  induction l generalizing k with
  | nil => simp
  | cons x xs ih =>
    cases k with
    | zero => simp at h; simp [h]
    | succ n => simp at h; simp only [List.set_cons_succ]; rw [ih n (by simpa using h)]

/-- one patch keeps the batch's program counter and never lets `matching + budget` grow -/
theorem patchOne_ok (s : St) (x : Batch) (k : Nat) (post : Bool) (rest : List (Nat × Bool)) :
    (patchOne good s x k post rest).2.2.pc = x.pc ∧
    (patchOne good s x k post rest).1.count true + (patchOne good s x k post rest).2.2.budget ≤
      s.recs.count true + x.budget := by
  unfold patchOne
  by_cases hnf : (!(s.present.getD k false) && !x.create) = true
  · simp only [hnf, if_true]; exact ⟨by first | rfl | trivial, Nat.le_refl _⟩
  · simp only [hnf]
    simp only [Bool.false_eq_true, if_false, good, if_true]
    cases hh : s.present.getD k false
    · -- absent: pre = false
      simp only [Bool.false_eq_true, if_false]
      cases post
      · simp only [fourCell, Bool.not_false, Bool.and_false, Bool.false_eq_true, if_false]
        exact ⟨by first | rfl | trivial, by have := count_set_false_le s.recs k; omega⟩
      · by_cases hb0 : x.budget = 0
        · simp [fourCell, hb0]
        · simp only [fourCell, Bool.not_false, Bool.and_true, if_true, hb0, if_false]
          refine ⟨by first | rfl | trivial, ?_⟩
          have := count_set_le s.recs k true
          show (s.recs.set k true).count true + (x.budget - 1) ≤ _
          omega
    · simp only [if_true]
      cases hpre : s.recs.getD k false <;> cases post
      · simp only [fourCell, Bool.not_false, Bool.and_false, Bool.false_eq_true, if_false]
        exact ⟨by first | rfl | trivial, by have := count_set_false_le s.recs k; omega⟩
      · by_cases hb0 : x.budget = 0
        · simp [fourCell, hb0]
        · simp only [fourCell, Bool.not_false, Bool.and_true, if_true, hb0, if_false]
          refine ⟨by first | rfl | trivial, ?_⟩
          have := count_set_le s.recs k true
          show (s.recs.set k true).count true + (x.budget - 1) ≤ _
          omega
      · simp only [fourCell, Bool.not_true, Bool.false_and, Bool.false_eq_true, if_false]
        exact ⟨by first | rfl | trivial, by have := count_set_false_le s.recs k; omega⟩
      · simp only [fourCell, Bool.not_true, Bool.false_and, Bool.false_eq_true, if_false]
        refine ⟨by first | rfl | trivial, ?_⟩
        show (s.recs.set k true).count true + x.budget ≤ _
        rw [set_true_of_getD s.recs k hpre]; omega

/-- the budget of the batch that holds capMu and has counted -/
def slack (s : St) : Nat :=
  match s.capMu with
  | some b => if (s.batch b).pc = .run then (s.batch b).budget else 0
  | none => 0

def inCS (pc : Pc) : Prop := pc = .half ∨ pc = .run

structure Inv (s : St) : Prop where
  holder : ∀ b, s.capMu = some b ↔ inCS (s.batch b).pc
  bound : matching s + slack s ≤ s.max

theorem setBatch_self (s : St) (b : Nat) (x : Batch) : setBatch s b x b = x := by simp [setBatch]
theorem setBatch_ne (s : St) (b y : Nat) (x : Batch) (h : y ≠ b) : setBatch s b x y = s.batch y := by simp [setBatch, h]

theorem inv_initE (recs present expiring : List Bool) (max : Nat) (h : recs.count true ≤ max) :
    Inv (initE recs present expiring max) := by
  refine ⟨?_, ?_⟩
  · intro b; simp [initE, Batch.empty, inCS]
  · simp [initE, matching, slack]; exact h

theorem inv_initP (recs present : List Bool) (max : Nat) (h : recs.count true ≤ max) : Inv (initP recs present max) :=
  inv_initE _ _ _ _ h

theorem inv_init (recs : List Bool) (max : Nat) (h : recs.count true ≤ max) : Inv (init recs max) := by
  refine ⟨?_, ?_⟩
  · intro b; simp [init, initP, initE, Batch.empty, inCS]
  · simp [init, initP, initE, matching, slack]; exact h

theorem slack_le_of_not_holder_run (s : St) (h : ∀ b, s.capMu = some b → (s.batch b).pc ≠ .run) : slack s = 0 := by
  unfold slack
  cases hc : s.capMu with
  | none => rfl
  | some b => simp [h b hc]

/-- a new batch in state `ready` -/
theorem inv_submit (s : St) (h : Inv s) (b : Nat) (x : Batch) (hidle : (s.batch b).pc = .idle) (hx : x.pc = .ready) :
    Inv { s with batch := setBatch s b x } := by
  obtain ⟨hH, hB⟩ := h
  have hnb : s.capMu ≠ some b := by
    intro e; have := (hH b).mp e; rw [hidle] at this; simp [inCS] at this
  refine ⟨?_, ?_⟩
  · intro y
    dsimp only
    by_cases hy : y = b
    · subst hy; rw [setBatch_self]
      constructor
      · intro e; exact absurd e hnb
      · intro e; rw [hx] at e; simp [inCS] at e
    · rw [setBatch_ne s b y _ hy]; exact hH y
  · have : slack { s with batch := setBatch s b x } = slack s := by
      unfold slack
      dsimp only
      cases hcm : s.capMu with
      | none => rfl
      | some c =>
        have hcb : c ≠ b := by intro e; subst e; exact hnb hcm
        simp only [setBatch_ne s b c _ hcb]
    show matching s + _ ≤ s.max
    rw [this]; exact hB

theorem inv_step (s : St) (a : Act) (s' : St) (h : Inv s) (hs : step good s a = some s') : Inv s' := by
  obtain ⟨hH, hB⟩ := h
  cases a with
  | submit b ps =>
    simp only [step] at hs
    split at hs
    · rename_i hc; simp at hs; subst hs
      exact inv_submit s ⟨hH, hB⟩ b _ hc.1 rfl
    · simp at hs
  | first b =>
    simp only [step, good, Bool.true_or, if_true] at hs
    split at hs
    · rename_i hpc
      split at hs
      · rename_i hfree; simp at hs; subst hs
        refine ⟨?_, ?_⟩
        · intro y
          dsimp only
          by_cases hy : y = b
          · subst hy; rw [setBatch_self]; simp [inCS]
          · rw [setBatch_ne s b y _ hy]
            constructor
            · intro e; simp at e; exact absurd e.symm hy
            · intro e; have := (hH y).mpr e; rw [hfree] at this; simp at this
        · have hsl : slack s = 0 := by simp [slack, hfree]
          have : slack { s with capMu := some b, batch := setBatch s b { s.batch b with pc := .half } } = 0 := by
            simp [slack, setBatch_self]
          show matching s + _ ≤ s.max
          rw [this]; omega
      · simp at hs
    · simp at hs
  | second b =>
    simp only [step, good, Bool.true_or, if_true] at hs
    split at hs
    · rename_i hpc
      simp at hs; subst hs
      have hhold : s.capMu = some b := (hH b).mpr (Or.inl hpc)
      have hsl : slack s = 0 := by simp [slack, hhold, hpc]
      refine ⟨?_, ?_⟩
      · intro y
        dsimp only
        by_cases hy : y = b
        · subst hy; rw [setBatch_self]; simp [inCS, hhold]
        · rw [setBatch_ne s b y _ hy]; exact hH y
      · simp only [slack, matching, hhold, setBatch_self, if_true]
        rw [hsl] at hB; unfold matching at hB; omega
    · simp at hs
  | patch b =>
    simp only [step] at hs
    split at hs
    · rename_i hpc
      have hhold : s.capMu = some b := (hH b).mpr (Or.inr hpc)
      have hsl : slack s = (s.batch b).budget := by simp [slack, hhold, hpc]
      cases htodo : (s.batch b).todo with
      | nil => simp [htodo] at hs
      | cons p rest =>
        obtain ⟨k, post⟩ := p
        simp only [htodo] at hs
        simp at hs; subst hs
        obtain ⟨hkeep, hbnd⟩ := patchOne_ok s (s.batch b) k post rest
        refine ⟨?_, ?_⟩
        · intro y
          dsimp only
          by_cases hy : y = b
          · subst hy; rw [setBatch_self, hkeep]; simp [inCS, hpc, hhold]
          · rw [setBatch_ne s b y _ hy]; exact hH y
        · have hs' : slack { s with recs := (patchOne good s (s.batch b) k post rest).1,
                                    present := (patchOne good s (s.batch b) k post rest).2.1,
                                    batch := setBatch s b (patchOne good s (s.batch b) k post rest).2.2 }
              = (patchOne good s (s.batch b) k post rest).2.2.budget := by
            simp [slack, hhold, setBatch_self, hkeep, hpc]
          show (patchOne good s (s.batch b) k post rest).1.count true + _ ≤ s.max
          rw [hs']
          unfold matching at hB
          omega
    · simp at hs
  | unlock b =>
    simp only [step] at hs
    split at hs
    · rename_i hc; simp at hs; subst hs
      obtain ⟨hpc, _⟩ := hc
      have hhold : s.capMu = some b := (hH b).mpr (Or.inr hpc)
      simp only [hhold, if_true]
      refine ⟨?_, ?_⟩
      · intro y
        dsimp only
        by_cases hy : y = b
        · subst hy; rw [setBatch_self]; simp [inCS]
        · rw [setBatch_ne s b y _ hy]
          constructor
          · intro e; simp at e
          · intro e; have := (hH y).mpr e; rw [hhold] at this; simp at this; exact absurd this.symm hy
      · have : slack { s with capMu := none, batch := setBatch s b { s.batch b with pc := .done } } = 0 := by simp [slack]
        show matching s + _ ≤ s.max
        rw [this]; omega
    · simp at hs
  | submitCreate b ps sm =>
    simp only [step] at hs
    split at hs
    · rename_i hc; simp at hs; subst hs
      exact inv_submit s ⟨hH, hB⟩ b _ hc.1 rfl
    · simp at hs
  | submitExpired b ks =>
    simp only [step] at hs
    split at hs
    · rename_i hc; simp at hs; subst hs
      exact inv_submit s ⟨hH, hB⟩ b _ hc.1 rfl
    · simp at hs
  | unlockEarly b =>
    simp [step, good] at hs
  | delete k =>
    simp [step] at hs; subst hs
    refine ⟨hH, ?_⟩
    have : slack { s with recs := s.recs.set k false, present := s.present.set k false, expiring := s.expiring.set k false } = slack s := rfl
    show (s.recs.set k false).count true + _ ≤ s.max
    rw [this]
    have := count_set_false_le s.recs k
    unfold matching at hB; omega
  | shrink k =>
    simp [step] at hs; subst hs
    refine ⟨hH, ?_⟩
    have : slack { s with recs := s.recs.set k false } = slack s := rfl
    show (s.recs.set k false).count true + _ ≤ s.max
    rw [this]
    have := count_set_false_le s.recs k
    unfold matching at hB; omega

end Hv.Cap
