/-
  Inductive invariant of the vigil / sync.Cond LTS when the decrement happens under the
  condition variable's mutex, and the defer-balance lemma.  Property theorems: `Hv/Props/C17.lean`.
-/
import Hv.Conc.Vigil

namespace Hv.Vigil

def good : Cfg := { decUnderLock := true, checkStrict := true }

def holdsL (pc : WPc) : Prop := pc = .locked ∨ pc = .checked ∨ pc = .added

structure Inv (s : St) : Prop where
  lockW : ∀ w, s.lock = .waiter w ↔ holdsL (s.wpc w)
  holdPos : ∀ w, (s.wpc w = .checked ∨ s.wpc w = .added) → 0 < s.vigils
  notif : ∀ w ∈ s.notify, (s.wpc w = .added ∨ s.wpc w = .parked) ∧ (0 < s.vigils ∨ 0 < s.pendingB)
  ceaserPos : s.lock = .ceaser false → 0 < s.vigils
  ceaserPend : s.lock = .ceaser true → 0 < s.pendingB
  parkedIn : ∀ w, s.wpc w = .parked → w ∈ s.notify

theorem inv_init : Inv init := by
  constructor <;> simp [init, holdsL]

theorem setPc_self (s : St) (w : Nat) (pc : WPc) : setPc s w pc w = pc := by simp [setPc]
theorem setPc_ne (s : St) (w x : Nat) (pc : WPc) (h : x ≠ w) : setPc s w pc x = s.wpc x := by simp [setPc, h]

/-- nobody but the lock holder is inside the critical section -/
theorem no_holder_of_not_waiter (s : St) (h : Inv s) (hl : ∀ w, s.lock ≠ .waiter w) (w : Nat) :
    ¬ holdsL (s.wpc w) := fun hh => hl w ((h.lockW w).mpr hh)

theorem inv_step (s : St) (a : Act) (s' : St) (h : Inv s) (hs : step good s a = some s') : Inv s' := by
  obtain ⟨hLW, hHP, hN, hCP, hCQ, hPI⟩ := h
  have hI : Inv s := ⟨hLW, hHP, hN, hCP, hCQ, hPI⟩
  cases a with
  | begin =>
    simp [step] at hs; subst hs
    refine ⟨hLW, ?_, ?_, ?_, hCQ, hPI⟩
    all_goals (try dsimp only)
    · intro w hw; have := hHP w hw; show 0 < s.vigils + 1; omega
    · intro w hw; have := hN w hw
      refine ⟨this.1, ?_⟩
      all_goals (try dsimp only)
      show 0 < s.vigils + 1 ∨ 0 < s.pendingB
      omega
    · intro _; show 0 < s.vigils + 1; omega
  | cLock =>
    simp only [step] at hs
    split at hs
    · rename_i hc; simp at hs; subst hs
      have hfree := hc.2.1
      have nob := no_holder_of_not_waiter s hI (by intro w; rw [hfree]; simp)
      refine ⟨?_, hHP, hN, fun _ => hc.2.2, by intro h; simp at h, hPI⟩
      all_goals (try dsimp only)
      intro w; constructor
      · intro h; simp at h
      · intro h; exact absurd h (nob w)
    · simp at hs
  | cDec =>
    simp only [step, good] at hs
    simp only [if_true] at hs
    split at hs
    · rename_i hc; simp at hs; subst hs
      have nob := no_holder_of_not_waiter s hI (by intro w; rw [hc.1]; simp)
      refine ⟨?_, ?_, ?_, by intro h; simp at h, ?_, hPI⟩
      all_goals (try dsimp only)
      · intro w; constructor
        · intro h; simp at h
        · intro h; exact absurd h (nob w)
      · intro w hw
        exact absurd (show holdsL (s.wpc w) from Or.inr hw) (nob w)
      · intro w hw
        exact ⟨(hN w hw).1, Or.inr (by show 0 < s.pendingB + 1; omega)⟩
      · intro _; show 0 < s.pendingB + 1; omega
    · simp at hs
  | cUnlock =>
    simp only [step] at hs
    split at hs
    · rename_i hc; simp at hs; subst hs
      have nob := no_holder_of_not_waiter s hI (by intro w; rw [hc]; simp)
      refine ⟨?_, hHP, hN, by intro h; simp at h, by intro h; simp at h, hPI⟩
      all_goals (try dsimp only)
      intro w; constructor
      · intro h; simp at h
      · intro h; exact absurd h (nob w)
    · simp at hs
  | bcast =>
    simp only [step] at hs
    by_cases hc : (if s.lock = .ceaser true then 1 else 0) < s.pendingB
    · simp only [hc, if_true] at hs
      simp at hs; subst hs
      have pcOld : ∀ w, (if w ∈ s.notify ∧ s.wpc w = .parked then WPc.woken else s.wpc w) ≠ .parked := by
        intro w
        by_cases hw : w ∈ s.notify ∧ s.wpc w = .parked
        · simp [hw]
        · simp only [hw, if_false]
          intro hp; exact hw ⟨hPI w hp, hp⟩
      have pcKeep : ∀ w pc, pc ≠ .woken →
          ((if w ∈ s.notify ∧ s.wpc w = .parked then WPc.woken else s.wpc w) = pc ↔ s.wpc w = pc ∧ pc ≠ .parked) := by
        intro w pc hne
        by_cases hw : w ∈ s.notify ∧ s.wpc w = .parked
        · simp only [hw, and_self, if_true]
          constructor
          · intro e; exact absurd e.symm hne
          · intro e; exact absurd e.1.symm e.2
        · simp only [hw, if_false]
          constructor
          · intro e; refine ⟨e, ?_⟩
            intro ep; rw [ep] at e; exact hw ⟨hPI w e, e⟩
          · intro e; exact e.1
      refine ⟨?_, ?_, by intro w hw; simp at hw, hCP, ?_, ?_⟩
      all_goals (try dsimp only)
      · intro w
        rw [hLW w]
        show holdsL (s.wpc w) ↔ holdsL (if w ∈ s.notify ∧ s.wpc w = .parked then WPc.woken else s.wpc w)
        unfold holdsL
        rw [pcKeep w .locked (by simp), pcKeep w .checked (by simp), pcKeep w .added (by simp)]
        simp
      · intro w hw
        apply hHP w
        replace hw : (if w ∈ s.notify ∧ s.wpc w = .parked then WPc.woken else s.wpc w) = .checked ∨
            (if w ∈ s.notify ∧ s.wpc w = .parked then WPc.woken else s.wpc w) = .added := hw
        rw [pcKeep w .checked (by simp), pcKeep w .added (by simp)] at hw
        rcases hw with hw | hw
        · exact Or.inl hw.1
        · exact Or.inr hw.1
      · intro hl
        have hl' : s.lock = .ceaser true := hl
        have := hCQ hl'
        simp [hl'] at hc
        show 0 < s.pendingB - 1
        omega
      · intro w hw; exact absurd hw (pcOld w)
    · simp only [hc, if_false] at hs; simp at hs
  | wLock w =>
    simp only [step] at hs
    split at hs
    · rename_i hc; simp at hs; subst hs
      obtain ⟨hpc, hfree⟩ := hc
      have nob := no_holder_of_not_waiter s hI (by intro x; rw [hfree]; simp)
      refine ⟨?_, ?_, ?_, by intro h; simp at h, by intro h; simp at h, ?_⟩
      all_goals (try dsimp only)
      · intro x
        by_cases hx : x = w
        · subst hx; simp [setPc_self, holdsL]
        · rw [setPc_ne s w x _ hx]
          constructor
          · intro e; simp at e; exact absurd e.symm hx
          · intro e; exact absurd e (nob x)
      · intro x hx
        by_cases hxw : x = w
        · subst hxw; simp [setPc_self] at hx
        · rw [setPc_ne s w x _ hxw] at hx; exact hHP x hx
      · intro x hx
        have := hN x hx
        by_cases hxw : x = w
        · subst hxw
          rcases hpc with e | e <;> rw [e] at this <;> simp at this
        · rw [setPc_ne s w x _ hxw]; exact this
      · intro x hx
        by_cases hxw : x = w
        · subst hxw; simp [setPc_self] at hx
        · rw [setPc_ne s w x _ hxw] at hx; exact hPI x hx
    · simp at hs
  | wCheck w =>
    simp only [step] at hs
    split at hs
    · rename_i hpc
      have hlw : s.lock = .waiter w := (hLW w).mpr (Or.inl hpc)
      have others : ∀ x, x ≠ w → ¬ holdsL (s.wpc x) := by
        intro x hx hh
        have := (hLW x).mpr hh
        rw [hlw] at this; simp at this; exact hx this.symm
      split at hs
      · rename_i hpos
        have hpos' : 0 < s.vigils := by
          rcases hpos with h | h
          · exact h
          · simp [good] at h
        simp at hs; subst hs
        refine ⟨?_, ?_, ?_, hCP, hCQ, ?_⟩
        all_goals (try dsimp only)
        · intro x
          by_cases hx : x = w
          · subst hx; simp [setPc_self, holdsL, hlw]
          · rw [setPc_ne s w x _ hx]; exact hLW x
        · intro x _; exact hpos'
        · intro x hx
          have := hN x hx
          by_cases hxw : x = w
          · subst hxw; rw [hpc] at this; simp at this
          · rw [setPc_ne s w x _ hxw]; exact this
        · intro x hx
          by_cases hxw : x = w
          · subst hxw; simp [setPc_self] at hx
          · rw [setPc_ne s w x _ hxw] at hx; exact hPI x hx
      · simp at hs; subst hs
        refine ⟨?_, ?_, ?_, by intro h; simp at h, by intro h; simp at h, ?_⟩
        all_goals (try dsimp only)
        · intro x
          by_cases hx : x = w
          · subst hx; simp [setPc_self, holdsL]
          · rw [setPc_ne s w x _ hx]
            constructor
            · intro e; simp at e
            · intro e; exact absurd e (others x hx)
        · intro x hx
          by_cases hxw : x = w
          · subst hxw; simp [setPc_self] at hx
          · rw [setPc_ne s w x _ hxw] at hx; exact hHP x hx
        · intro x hx
          have := hN x hx
          by_cases hxw : x = w
          · subst hxw; rw [hpc] at this; simp at this
          · rw [setPc_ne s w x _ hxw]; exact this
        · intro x hx
          by_cases hxw : x = w
          · subst hxw; simp [setPc_self] at hx
          · rw [setPc_ne s w x _ hxw] at hx; exact hPI x hx
    · simp at hs
  | wAdd w =>
    simp only [step] at hs
    split at hs
    · rename_i hpc; simp at hs; subst hs
      have hlw : s.lock = .waiter w := (hLW w).mpr (Or.inr (Or.inl hpc))
      have hpos := hHP w (Or.inl hpc)
      refine ⟨?_, ?_, ?_, hCP, hCQ, ?_⟩
      all_goals (try dsimp only)
      · intro x
        by_cases hx : x = w
        · subst hx; simp [setPc_self, holdsL, hlw]
        · rw [setPc_ne s w x _ hx]; exact hLW x
      · intro x _; exact hpos
      · intro x hx
        by_cases hxw : x = w
        · subst hxw; exact ⟨Or.inl (setPc_self s x _), Or.inl hpos⟩
        · rw [setPc_ne s w x _ hxw]
          rcases List.mem_append.mp hx with hx | hx
          · exact hN x hx
          · simp at hx; exact absurd hx hxw
      · intro x hx
        by_cases hxw : x = w
        · subst hxw; simp [setPc_self] at hx
        · rw [setPc_ne s w x _ hxw] at hx
          exact List.mem_append_left _ (hPI x hx)
    · simp at hs
  | wPark w =>
    simp only [step] at hs
    split at hs
    · rename_i hpc; simp at hs; subst hs
      have hlw : s.lock = .waiter w := (hLW w).mpr (Or.inr (Or.inr hpc))
      have others : ∀ x, x ≠ w → ¬ holdsL (s.wpc x) := by
        intro x hx hh
        have := (hLW x).mpr hh
        rw [hlw] at this; simp at this; exact hx this.symm
      refine ⟨?_, ?_, ?_, by intro h; simp at h, by intro h; simp at h, ?_⟩
      all_goals (try dsimp only)
      · intro x
        by_cases hx : x = w
        · subst hx
          rw [setPc_self]
          constructor
          · intro e; simp at e
          · intro e; unfold holdsL at e; split at e <;> simp at e
        · rw [setPc_ne s w x _ hx]
          constructor
          · intro e; simp at e
          · intro e; exact absurd e (others x hx)
      · intro x hx
        by_cases hxw : x = w
        · subst hxw; rw [setPc_self] at hx; split at hx <;> simp at hx
        · rw [setPc_ne s w x _ hxw] at hx; exact hHP x hx
      · intro x hx
        have := hN x hx
        by_cases hxw : x = w
        · subst hxw; rw [setPc_self]; simp [hx]; exact this.2
        · rw [setPc_ne s w x _ hxw]; exact this
      · intro x hx
        by_cases hxw : x = w
        · subst hxw; rw [setPc_self] at hx
          by_cases hm : x ∈ s.notify
          · exact hm
          · simp [hm] at hx
        · rw [setPc_ne s w x _ hxw] at hx; exact hPI x hx
    · simp at hs
  | wCancel w =>
    simp only [step] at hs
    split at hs
    · simp at hs; subst hs; exact ⟨hLW, hHP, hN, hCP, hCQ, hPI⟩
    · simp at hs
  | gReturn =>
    simp only [step] at hs
    split at hs
    · simp at hs; subst hs; exact ⟨hLW, hHP, hN, hCP, hCQ, hPI⟩
    · simp at hs

/-! ### defer balance -/

theorem counters_ext (a b : Counters) (h1 : a.sys = b.sys) (h2 : a.vig = b.vig) : a = b := by
  cases a; cases b; simp at h1 h2; simp [h1, h2]

theorem exec_paired (fires : Fires) (ts : List Tok) (hp : Paired ts = true) (c : Counters) (ds : List Deferred) :
    execShape fires c ds ts =
      ds.foldl runDeferred { c with vig := c.vig - (if fires then (ts.count .autoDestroy : Int) else 0) } := by
  induction ts generalizing c ds with
  | nil => simp [execShape]
  | cons t ts ih =>
    simp only [Paired, List.all_cons, Bool.and_eq_true] at hp
    have hts : Paired ts = true := hp.2
    have ht := hp.1
    simp only [execShape]
    rw [ih hts]
    cases t <;> simp at ht
    · simp only [execTok, List.foldl_cons, runDeferred]
      congr 1; apply counters_ext <;> simp <;> omega
    · simp only [execTok, List.foldl_cons, runDeferred]
      congr 1; apply counters_ext <;> simp <;> omega
    · simp only [execTok, List.foldl_cons, runDeferred]
      first
        | rfl
        | (congr 1; first | rfl | (apply counters_ext <;> simp))
    · simp only [execTok]
      congr 1; apply counters_ext
      · cases fires <;> simp
      · cases fires <;> simp <;> omega

theorem paired_take (ts : List Tok) (hp : Paired ts = true) (n : Nat) : Paired (ts.take n) = true := by
  simp only [Paired, List.all_eq_true] at hp ⊢
  intro t ht
  exact hp t (List.mem_of_mem_take ht)

end Hv.Vigil
