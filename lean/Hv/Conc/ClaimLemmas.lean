/-
  Inductive invariant of the claim LTS for the repaired fact values (helper lemmas; the property
  theorems are in `Hv/Props/C11.lean`).
-/
import Hv.Conc.Claim

namespace Hv.Claim

def good : Cfg :=
  { selectAtomic := true, counterLe := false, checksExpNonZero := true, rechecksIndexedLeg := true,
    reindexChecksExists := true, patchChecksExists := true, emptyCandMeansAll := false, deleteRevalidates := true }

/-! ### the selection pass -/

theorem walk_mem (p : Nat → Bool) (le : Bool) (n : Nat) (l : List Nat) (c k : Nat) :
    k ∈ l ↔ k ∈ (walk p le n l c).1 ∨ k ∈ (walk p le n l c).2 := by
  induction l generalizing c with
  | nil => simp [walk]
  | cons x xs ih =>
    simp only [walk]
    split
    · simp only [List.mem_cons]; rw [ih (c + 1)]; constructor
      · rintro (h | h | h)
        · exact Or.inl (Or.inl h)
        · exact Or.inl (Or.inr h)
        · exact Or.inr h
      · rintro ((h | h) | h)
        · exact Or.inl h
        · exact Or.inr (Or.inl h)
        · exact Or.inr (Or.inr h)
    · simp only [List.mem_cons]; rw [ih c]; constructor
      · rintro (h | h | h)
        · exact Or.inr (Or.inl h)
        · exact Or.inl h
        · exact Or.inr (Or.inr h)
      · rintro (h | h | h)
        · exact Or.inr (Or.inl h)
        · exact Or.inl h
        · exact Or.inr (Or.inr h)

theorem walk_sub1 (p : Nat → Bool) (le : Bool) (n : Nat) (l : List Nat) (c : Nat) :
    (walk p le n l c).1.Sublist l := by
  induction l generalizing c with
  | nil => simp [walk]
  | cons x xs ih =>
    simp only [walk]
    split
    · exact (ih (c + 1)).cons_cons x
    · exact (ih c).cons x

theorem walk_sub2 (p : Nat → Bool) (le : Bool) (n : Nat) (l : List Nat) (c : Nat) :
    (walk p le n l c).2.Sublist l := by
  induction l generalizing c with
  | nil => simp [walk]
  | cons x xs ih =>
    simp only [walk]
    split
    · exact (ih (c + 1)).cons x
    · exact (ih c).cons_cons x

theorem walk_pred (p : Nat → Bool) (le : Bool) (n : Nat) (l : List Nat) (c : Nat) :
    ∀ k ∈ (walk p le n l c).1, p k = true := by
  induction l generalizing c with
  | nil => simp [walk]
  | cons x xs ih =>
    simp only [walk]
    split
    · rename_i h
      intro k hk
      simp only [List.mem_cons] at hk
      rcases hk with rfl | hk
      · simp at h; exact h.1
      · exact ih (c + 1) k hk
    · exact ih c

theorem walk_len (p : Nat → Bool) (n : Nat) (l : List Nat) (c : Nat) :
    (walk p false n l c).1.length ≤ n - c := by
  induction l generalizing c with
  | nil => simp [walk]
  | cons x xs ih =>
    simp only [walk]
    split
    · rename_i h
      simp [room] at h
      have := ih (c + 1)
      simp only [List.length_cons]; omega
    · exact ih c

theorem walk_disj (p : Nat → Bool) (le : Bool) (n : Nat) (l : List Nat) (c : Nat) (hnd : l.Nodup) :
    ∀ k ∈ (walk p le n l c).1, k ∉ (walk p le n l c).2 := by
  induction l generalizing c with
  | nil => simp [walk]
  | cons x xs ih =>
    rw [List.nodup_cons] at hnd
    simp only [walk]
    split
    · intro k hk
      simp only [List.mem_cons] at hk
      rcases hk with rfl | hk
      · intro h2; exact hnd.1 ((walk_sub2 p le n xs (c + 1)).subset h2)
      · exact ih (c + 1) hnd.2 k hk
    · intro k hk h2
      simp only [List.mem_cons] at h2
      rcases h2 with rfl | h2
      · exact hnd.1 ((walk_sub1 p le n xs c).subset hk)
      · exact ih c hnd.2 k hk h2

/-! ### sorted insertion -/

theorem mem_ins (exp : Nat → Int) (k x : Nat) (l : List Nat) : x ∈ ins exp k l ↔ x = k ∨ x ∈ l := by
  induction l with
  | nil => simp [ins]
  | cons y ys ih =>
    simp only [ins]
    split
    · simp
    · simp only [List.mem_cons, ih]
      constructor
      · rintro (h | h | h)
        · exact Or.inr (Or.inl h)
        · exact Or.inl h
        · exact Or.inr (Or.inr h)
      · rintro (h | h | h)
        · exact Or.inr (Or.inl h)
        · exact Or.inl h
        · exact Or.inr (Or.inr h)

theorem nodup_ins (exp : Nat → Int) (k : Nat) (l : List Nat) (hk : k ∉ l) (hnd : l.Nodup) : (ins exp k l).Nodup := by
  induction l with
  | nil => simp [ins]
  | cons y ys ih =>
    rw [List.nodup_cons] at hnd
    simp only [List.mem_cons, not_or] at hk
    simp only [ins]
    split
    · rw [List.nodup_cons]; exact ⟨by simp [hk.1, hk.2], by rw [List.nodup_cons]; exact hnd⟩
    · rw [List.nodup_cons]
      refine ⟨?_, ih hk.2 hnd.2⟩
      rw [mem_ins]; intro h
      rcases h with h | h
      · exact hk.1 h.symm
      · exact hnd.1 h

theorem mem_insAll (exp : Nat → Int) (ks l : List Nat) (x : Nat) : x ∈ insAll exp ks l ↔ x ∈ ks ∨ x ∈ l := by
  induction ks generalizing l with
  | nil => simp [insAll]
  | cons k ks ih =>
    simp only [insAll, List.foldl_cons]
    have := ih (ins exp k l)
    simp only [insAll] at this
    rw [this, mem_ins]; simp only [List.mem_cons]
    constructor
    · rintro (h | h | h)
      · exact Or.inl (Or.inr h)
      · exact Or.inl (Or.inl h)
      · exact Or.inr h
    · rintro ((h | h) | h)
      · exact Or.inr (Or.inl h)
      · exact Or.inl h
      · exact Or.inr (Or.inr h)

theorem nodup_insAll (exp : Nat → Int) (ks l : List Nat) (hks : ks.Nodup) (hd : ∀ k ∈ ks, k ∉ l) (hl : l.Nodup) :
    (insAll exp ks l).Nodup := by
  induction ks generalizing l with
  | nil => simpa [insAll] using hl
  | cons k ks ih =>
    rw [List.nodup_cons] at hks
    simp only [insAll, List.foldl_cons]
    have := ih (ins exp k l) hks.2 ?_ (nodup_ins exp k l (hd k (by simp)) hl)
    · simpa [insAll] using this
    · intro x hx hm
      rw [mem_ins] at hm
      rcases hm with rfl | hm
      · exact hks.1 hx
      · exact hd x (by simp [hx]) hm

theorem nodup_ite_ins {c : Prop} [Decidable c] (exp : Nat → Int) (k : Nat) (l : List Nat) (hk : k ∉ l) (hl : l.Nodup) :
    (if c then l else ins exp k l).Nodup := by
  split
  · exact hl
  · exact nodup_ins exp k l hk hl

theorem mem_ite_ins {c : Prop} [Decidable c] (exp : Nat → Int) (k x : Nat) (l : List Nat)
    (h : x ∈ (if c then l else ins exp k l)) : x = k ∨ x ∈ l := by
  split at h
  · exact Or.inr h
  · exact (mem_ins exp k x l).mp h

/-! ### the invariant -/

/-- `pred = true`: the selection predicates are the repaired ones, so the ghost `ok` flags are claimed too -/
structure Inv (pred : Bool) (sp : St × Bool) : Prop where
  nodup : sp.1.index.Nodup
  live : ∀ k ∈ sp.1.index, (sp.1.recs k).present = true
  gone : ∀ cl ∈ sp.1.claimed, cl.key ∈ sp.1.born ∧ (sp.1.recs cl.key).present = false
  once : sp.1.claimed.Pairwise (fun a b => a.key ≠ b.key)
  ok : pred = true → ∀ cl ∈ sp.1.claimed, cl.ok = true
  pok : pred = true → ∀ cl ∈ sp.1.pclaimed, cl.ok = true
  bat : ∀ b ∈ sp.1.batches, b.got.length ≤ b.howMany ∧ b.got.Sublist b.before
  dead : ∀ k ∈ sp.1.deleted, k ∈ sp.1.born ∧ (sp.1.recs k).present = false
  bornP : ∀ k, (sp.1.recs k).present = true → k ∈ sp.1.born
  selnd : ∀ p, (sp.1.sel p).Nodup

theorem inv_init (pred : Bool) (persisted : Bool) : Inv pred (init persisted) := by
  refine ⟨?_, ?_, ?_, ?_, ?_, ?_, ?_, ?_, ?_, ?_⟩ <;> simp [init]

theorem upd_same {α : Type} (f : Nat → α) (k : Nat) (v : α) : upd f k v k = v := by simp [upd]
theorem upd_other {α : Type} (f : Nat → α) (k k' : Nat) (v : α) (h : k' ≠ k) : upd f k v k' = f k' := by simp [upd, h]

/-- steps that rewrite one record without changing its presence and leave everything else alone -/
theorem inv_touch (pred : Bool) (sp : St × Bool) (k : Nat) (r : Rec) (h : Inv pred sp) (hp : r.present = (sp.1.recs k).present) :
    Inv pred ({ sp.1 with recs := upd sp.1.recs k r }, sp.2) := by
  have hpres : ∀ x, (upd sp.1.recs k r x).present = (sp.1.recs x).present := by
    intro x; by_cases hx : x = k
    · subst hx; rw [upd_same]; exact hp
    · rw [upd_other _ _ _ _ hx]
  refine ⟨h.nodup, ?_, ?_, h.once, h.ok, h.pok, h.bat, ?_, ?_, h.selnd⟩
  · intro x hx; show (upd sp.1.recs k r x).present = true; rw [hpres]; exact h.live x hx
  · intro cl hcl; refine ⟨(h.gone cl hcl).1, ?_⟩
    show (upd sp.1.recs k r cl.key).present = false; rw [hpres]; exact (h.gone cl hcl).2
  · intro x hx; refine ⟨(h.dead x hx).1, ?_⟩
    show (upd sp.1.recs k r x).present = false; rw [hpres]; exact (h.dead x hx).2
  · intro x hx
    have : (upd sp.1.recs k r x).present = true := hx
    rw [hpres] at this; exact h.bornP x this

theorem filter_ne_nodup (l : List Nat) (k : Nat) (h : l.Nodup) : (l.filter (· != k)).Nodup :=
  h.sublist List.filter_sublist

theorem not_mem_filter_ne (l : List Nat) (k : Nat) : k ∉ l.filter (· != k) := by
  simp [List.mem_filter]

theorem delRec_present (persisted : Bool) (r : Rec) : (delRec persisted r).present = false := by
  simp only [delRec]; split <;> rfl

theorem delAll_present (persisted : Bool) (recs : Nat → Rec) (ks : List Nat) (k : Nat) :
    (delAll persisted recs ks k).present = ((recs k).present && !ks.contains k) := by
  simp only [delAll]
  split
  · rename_i h
    rw [delRec_present]; simp at h; simp [h.1]
  · rename_i h
    cases hp : (recs k).present with
    | false => simp
    | true => simp [hp] at h; simp [h]

/-- the three predicate facts at their repaired values -/
def PredGood (cfg : Cfg) : Prop :=
  cfg.checksExpNonZero = true ∧ cfg.rechecksIndexedLeg = true ∧ cfg.emptyCandMeansAll = false

theorem shift_ok_good (cfg : Cfg) (hg : PredGood cfg) (s : St) (c : Nat) (want : Option Nat) (k : Nat)
    (hp : shiftPred cfg s c want k = true) (hpres : (s.recs k).present = true) : shiftOk s want k = true := by
  obtain ⟨h1, h2, h3⟩ := hg
  cases want with
  | none =>
    simp only [shiftPred, expiredCode, h1, if_true] at hp
    simp only [shiftOk, expired, hpres, Bool.true_and]
    exact hp
  | some w =>
    simp only [shiftPred, h2, h3, if_true, Bool.false_and, Bool.or_false] at hp
    simp only [shiftOk, hpres, Bool.true_and]
    simp at hp ⊢
    exact ⟨hp.2.1, hp.2.2⟩

theorem psel_ok_good (cfg : Cfg) (hg : PredGood cfg) (s : St) (p : Nat) (useCand : Bool) (k : Nat)
    (hp : pselPred cfg s p useCand k = true) (hpres : (s.recs k).present = true) : pselOk s p useCand k = true := by
  obtain ⟨h1, h2, _⟩ := hg
  simp only [pselPred, expiredCode, h1, h2, if_true] at hp
  simp only [pselOk, expired, hpres, Bool.true_and]
  cases useCand with
  | false => simp at hp ⊢; exact hp
  | true =>
    simp at hp ⊢
    refine ⟨hp.1, ?_⟩
    cases hw : wantOf s p with
    | none => simp [hw] at hp
    | some w => simp [hw] at hp ⊢; exact hp.2.2

/-- actions of the PatchExpired tail (patch under the guard, ReindexExpiration) -/
def Act.isTail : Act → Bool
  | .ppatch _ _ _ _ => true
  | .preindex _ => true
  | _ => false

theorem inv_step (cfg : Cfg) (pred : Bool) (hsa : cfg.selectAtomic = true) (hle : cfg.counterLe = false)
    (hdr : cfg.deleteRevalidates = true)
    (hpd : pred = true → PredGood cfg)
    (sp : St × Bool) (a : Act) (sp' : St × Bool)
    (htail : a.isTail = true → cfg.reindexChecksExists = true ∧ cfg.patchChecksExists = true)
    (h : Inv pred sp) (hs : step cfg sp a = some sp') : Inv pred sp' := by
  cases a with
  | seed k status e =>
    simp only [step] at hs
    split at hs
    · simp at hs
    · rename_i hb
      have hnb : k ∉ sp.1.born := by simpa using hb
      simp at hs; subst hs
      have hkidx : k ∉ sp.1.index := fun hin => hnb (h.bornP k (h.live k hin))
      have hne : ∀ x ∈ sp.1.born, x ≠ k := fun x hx he => hnb (he ▸ hx)
      refine ⟨?_, ?_, ?_, h.once, h.ok, h.pok, h.bat, ?_, ?_, h.selnd⟩
      · exact nodup_ite_ins _ k _ hkidx h.nodup
      · intro x hx
        have hx' := mem_ite_ins _ k x _ hx
        show (upd sp.1.recs k _ x).present = true
        by_cases hxk : x = k
        · subst hxk; rw [upd_same]
        · rw [upd_other _ _ _ _ hxk]
          rcases hx' with h1 | h1
          · exact absurd h1 hxk
          · exact h.live x h1
      · intro cl hcl
        have := h.gone cl hcl
        refine ⟨List.mem_append_left _ this.1, ?_⟩
        show (upd sp.1.recs k _ cl.key).present = false
        rw [upd_other _ _ _ _ (hne _ this.1)]; exact this.2
      · intro x hx
        have := h.dead x hx
        refine ⟨List.mem_append_left _ this.1, ?_⟩
        show (upd sp.1.recs k _ x).present = false
        rw [upd_other _ _ _ _ (hne _ this.1)]; exact this.2
      · intro x hx
        show x ∈ sp.1.born ++ [k]
        by_cases hxk : x = k
        · subst hxk; simp
        · have hx' : (upd sp.1.recs k { exp := e, status := status, present := true, void := false } x).present = true := hx
          rw [upd_other _ _ _ _ hxk] at hx'
          exact List.mem_append_left _ (h.bornP x hx')
  | setStatus k v =>
    simp only [step] at hs
    split at hs
    · simp at hs; subst hs; exact inv_touch pred sp k _ h rfl
    · simp at hs
  | expWrite k e =>
    simp only [step] at hs
    split at hs
    · simp at hs; subst hs; exact inv_touch pred sp k _ h rfl
    · simp at hs
  | expIndex k =>
    simp only [step] at hs
    split at hs
    · rename_i hp
      simp at hs; subst hs
      refine ⟨?_, ?_, h.gone, h.once, h.ok, h.pok, h.bat, h.dead, h.bornP, h.selnd⟩
      · exact nodup_ite_ins _ k _ (not_mem_filter_ne _ k) (filter_ne_nodup _ k h.nodup)
      · intro x hx
        rcases mem_ite_ins _ k x _ hx with rfl | h1
        · exact hp
        · exact h.live x ((List.mem_filter.mp h1).1)
    · simp at hs
  | delete k =>
    simp only [step] at hs
    split at hs
    · rename_i hp
      simp at hs; subst hs
      have hdel : (delRec sp.2 (sp.1.recs k)).present = false := by simp only [delRec]; split <;> rfl
      have hpres : ∀ x, (upd sp.1.recs k (delRec sp.2 (sp.1.recs k)) x).present = ((sp.1.recs x).present && (x != k)) := by
        intro x; by_cases hx : x = k
        · subst hx; rw [upd_same, hdel]; simp
        · rw [upd_other _ _ _ _ hx]; simp [hx]
      refine ⟨filter_ne_nodup _ k h.nodup, ?_, ?_, h.once, h.ok, h.pok, h.bat, ?_, ?_, h.selnd⟩
      · intro x hx
        have hx' : x ∈ sp.1.index.filter (· != k) := hx
        rw [List.mem_filter] at hx'
        show (upd sp.1.recs k _ x).present = true
        rw [hpres]; simp [h.live x hx'.1]; simpa using hx'.2
      · intro cl hcl
        refine ⟨(h.gone cl hcl).1, ?_⟩
        show (upd sp.1.recs k _ cl.key).present = false
        rw [hpres]; simp [(h.gone cl hcl).2]
      · intro x hx
        have hx' : x ∈ sp.1.deleted ++ [k] := hx
        show x ∈ sp.1.born ∧ (upd sp.1.recs k _ x).present = false
        rw [hpres]
        rcases List.mem_append.mp hx' with h1 | h1
        · exact ⟨(h.dead x h1).1, by simp [(h.dead x h1).2]⟩
        · simp at h1; subst h1; exact ⟨h.bornP x hp, by simp⟩
      · intro x hx
        have : (upd sp.1.recs k (delRec sp.2 (sp.1.recs k)) x).present = true := hx
        rw [hpres] at this; simp at this; exact h.bornP x this.1
    · simp at hs
  | snapshot c want =>
    simp only [step] at hs; simp at hs; subst hs
    exact ⟨h.nodup, h.live, h.gone, h.once, h.ok, h.pok, h.bat, h.dead, h.bornP, h.selnd⟩
  | shift c n want =>
    simp only [step, hsa, hle] at hs
    cases hse : (sp.1.shsel c).isEmpty with
    | false => simp [hse] at hs
    | true =>
      simp [hse] at hs; subst hs
      let pr := shiftPred cfg sp.1 c want
      have hsub1 := walk_sub1 pr false n sp.1.index 0
      have hsub2 := walk_sub2 pr false n sp.1.index 0
      refine ⟨h.nodup.sublist hsub2, fun k hk => h.live k (hsub2.subset hk), h.gone, h.once, h.ok, h.pok, ?_, h.dead, h.bornP, h.selnd⟩
      intro b hb
      have hb' : b ∈ sp.1.batches ++ [({ claimer := c, howMany := n, got := (walk pr false n sp.1.index 0).1, before := sp.1.index } : Batch)] := hb
      rcases List.mem_append.mp hb' with hb1 | hb1
      · exact h.bat b hb1
      · simp at hb1; subst hb1
        exact ⟨by simpa using walk_len pr n sp.1.index 0, hsub1⟩
  | shiftDel c k =>
    simp only [step] at hs
    cases hf : (sp.1.shsel c).find? (fun e => e.1 == k) with
    | none => simp [hf] at hs
    | some e =>
      simp only [hf, hdr, if_true] at hs
      cases hc : ((sp.1.recs k).present && shiftPred cfg sp.1 c (sp.1.shwant c) k) with
      | true =>
        simp only [hc, if_true] at hs
        cases hs
        have hc' := hc
        simp only [Bool.and_eq_true] at hc'
        obtain ⟨hp, hprd⟩ := hc'
        have hdel : (delRec sp.2 (sp.1.recs k)).present = false := delRec_present _ _
        have hpres : ∀ x, (upd sp.1.recs k (delRec sp.2 (sp.1.recs k)) x).present = ((sp.1.recs x).present && (x != k)) := by
          intro x; by_cases hx : x = k
          · subst hx; rw [upd_same, hdel]; simp
          · rw [upd_other _ _ _ _ hx]; simp [hx]
        refine ⟨filter_ne_nodup _ k h.nodup, ?_, ?_, ?_, ?_, h.pok, h.bat, ?_, ?_, h.selnd⟩
        · intro x hx
          have hx' : x ∈ sp.1.index.filter (· != k) := hx
          rw [List.mem_filter] at hx'
          show (upd sp.1.recs k _ x).present = true
          rw [hpres]; simp [h.live x hx'.1]; simpa using hx'.2
        · intro cl hcl
          have hcl' : cl ∈ sp.1.claimed ++ [({ claimer := c, key := k, ok := shiftOk sp.1 (sp.1.shwant c) k } : Claim)] := hcl
          rcases List.mem_append.mp hcl' with h1 | h1
          · refine ⟨(h.gone cl h1).1, ?_⟩
            show (upd sp.1.recs k _ cl.key).present = false
            rw [hpres]; simp [(h.gone cl h1).2]
          · simp at h1; subst h1
            refine ⟨h.bornP k hp, ?_⟩
            show (upd sp.1.recs k _ k).present = false
            rw [hpres]; simp
        · show (sp.1.claimed ++ [({ claimer := c, key := k, ok := shiftOk sp.1 (sp.1.shwant c) k } : Claim)]).Pairwise _
          rw [List.pairwise_append]
          refine ⟨h.once, by simp, ?_⟩
          intro a ha b hb
          simp at hb; subst hb
          intro he
          have h1 := (h.gone a ha).2
          simp only at he; rw [he, hp] at h1; exact absurd h1 (by simp)
        · intro hp0 cl hcl
          have hcl' : cl ∈ sp.1.claimed ++ [({ claimer := c, key := k, ok := shiftOk sp.1 (sp.1.shwant c) k } : Claim)] := hcl
          rcases List.mem_append.mp hcl' with h1 | h1
          · exact h.ok hp0 cl h1
          · simp at h1; subst h1
            exact shift_ok_good cfg (hpd hp0) sp.1 c (sp.1.shwant c) k hprd hp
        · intro x hx
          refine ⟨(h.dead x hx).1, ?_⟩
          show (upd sp.1.recs k _ x).present = false
          rw [hpres]; simp [(h.dead x hx).2]
        · intro x hx
          have : (upd sp.1.recs k (delRec sp.2 (sp.1.recs k)) x).present = true := hx
          rw [hpres] at this; simp at this; exact h.bornP x this.1
      | false =>
        simp only [hc, Bool.false_eq_true, if_false] at hs
        cases hs
        refine ⟨?_, ?_, h.gone, h.once, h.ok, h.pok, h.bat, h.dead, h.bornP, h.selnd⟩
        · cases hcond : ((sp.1.recs k).present && (sp.1.recs k).exp != 0) with
          | true =>
            simp only [if_true]
            exact nodup_ins _ k _ (not_mem_filter_ne _ k) (filter_ne_nodup _ k h.nodup)
          | false =>
            simp only [Bool.false_eq_true, if_false]
            exact filter_ne_nodup _ k h.nodup
        · intro x hx
          cases hcond : ((sp.1.recs k).present && (sp.1.recs k).exp != 0) with
          | true =>
            have hx' : x ∈ ins (fun y => (sp.1.recs y).exp) k (sp.1.index.filter (· != k)) := by
              simpa only [hcond, if_true] using hx
            rcases (mem_ins _ k x _).mp hx' with rfl | h1
            · simp only [Bool.and_eq_true] at hcond; exact hcond.1
            · exact h.live x ((List.mem_filter.mp h1).1)
          | false =>
            have hx' : x ∈ sp.1.index.filter (· != k) := by
              simpa only [hcond, Bool.false_eq_true, if_false] using hx
            exact h.live x ((List.mem_filter.mp hx').1)
  | shiftRead c n want => simp [step, hsa] at hs
  | shiftWrite c => simp [step, hsa] at hs
  | pselect p n useCand =>
    simp only [step] at hs
    split at hs
    · simp at hs
    · simp at hs; subst hs
      simp only [hle]
      let pr := pselPred cfg sp.1 p useCand
      have hsub1 := walk_sub1 pr false n sp.1.index 0
      have hsub2 := walk_sub2 pr false n sp.1.index 0
      refine ⟨h.nodup.sublist hsub2, fun k hk => h.live k (hsub2.subset hk), h.gone, h.once, h.ok, ?_, ?_, h.dead, h.bornP, ?_⟩
      · intro hp0 cl hcl
        have hcl' : cl ∈ sp.1.pclaimed ++ (walk pr false n sp.1.index 0).1.map (fun k => ({ claimer := p, key := k, ok := pselOk sp.1 p useCand k } : Claim)) := hcl
        rcases List.mem_append.mp hcl' with hc | hc
        · exact h.pok hp0 cl hc
        · simp only [List.mem_map] at hc
          obtain ⟨k, hk, rfl⟩ := hc
          exact psel_ok_good cfg (hpd hp0) sp.1 p useCand k (walk_pred pr false n sp.1.index 0 k hk) (h.live k (hsub1.subset hk))
      · intro b hb
        have hb' : b ∈ sp.1.batches ++ [({ claimer := p, howMany := n, got := (walk pr false n sp.1.index 0).1, before := sp.1.index } : Batch)] := hb
        rcases List.mem_append.mp hb' with hb1 | hb1
        · exact h.bat b hb1
        · simp at hb1; subst hb1
          exact ⟨by simpa using walk_len pr n sp.1.index 0, hsub1⟩
      · intro q
        show (upd sp.1.sel p (walk pr false n sp.1.index 0).1 q).Nodup
        by_cases hq : q = p
        · subst hq; rw [upd_same]; exact h.nodup.sublist hsub1
        · rw [upd_other _ _ _ _ hq]; exact h.selnd q
  | ppatch p k ns ne =>
    simp only [step] at hs
    split at hs
    · simp at hs
    · split at hs
      · simp at hs; subst hs; exact h
      · rename_i hcond
        have hpc := (htail rfl).2
        simp [hpc] at hcond
        simp at hs; subst hs
        have hp : (sp.1.recs k).present = true := hcond.2
        have hpres : ∀ x, (upd sp.1.recs k { sp.1.recs k with status := ns, exp := ne, present := true, ver := (sp.1.recs k).ver + 1 } x).present = (sp.1.recs x).present := by
          intro x; by_cases hx : x = k
          · subst hx; rw [upd_same]; exact hp.symm
          · rw [upd_other _ _ _ _ hx]
        refine ⟨?_, ?_, ?_, h.once, h.ok, h.pok, h.bat, ?_, ?_, h.selnd⟩
        · exact nodup_ite_ins _ k _ (not_mem_filter_ne _ k) (filter_ne_nodup _ k h.nodup)
        · intro x hx
          show (upd sp.1.recs k _ x).present = true
          rw [hpres]
          rcases mem_ite_ins _ k x _ hx with rfl | h1
          · exact hp
          · exact h.live x ((List.mem_filter.mp h1).1)
        · intro cl hcl; refine ⟨(h.gone cl hcl).1, ?_⟩
          show (upd sp.1.recs k _ cl.key).present = false; rw [hpres]; exact (h.gone cl hcl).2
        · intro x hx; refine ⟨(h.dead x hx).1, ?_⟩
          show (upd sp.1.recs k _ x).present = false; rw [hpres]; exact (h.dead x hx).2
        · intro x hx
          have : (upd sp.1.recs k { sp.1.recs k with status := ns, exp := ne, present := true, ver := (sp.1.recs k).ver + 1 } x).present = true := hx
          rw [hpres] at this; exact h.bornP x this
  | preindex p =>
    have hrc := (htail rfl).1
    simp only [step, hrc, if_true] at hs
    simp at hs; subst hs
    refine ⟨?_, ?_, h.gone, h.once, h.ok, h.pok, h.bat, h.dead, h.bornP, ?_⟩
    · apply nodup_insAll
      · exact (h.selnd p).sublist List.filter_sublist
      · intro k hk hm
        rw [List.mem_filter] at hk hm
        simp at hm; exact hm.2 hk.1
      · exact h.nodup.sublist List.filter_sublist
    · intro k hk
      rw [mem_insAll] at hk
      rcases hk with hk | hk
      · rw [List.mem_filter] at hk; simp at hk; exact hk.2.2
      · exact h.live k ((List.mem_filter.mp hk).1)
    · intro q
      show (upd sp.1.sel p [] q).Nodup
      by_cases hq : q = p
      · subst hq; rw [upd_same]; simp
      · rw [upd_other _ _ _ _ hq]; exact h.selnd q

end Hv.Claim
