/-
  Inductive invariant of the summon LTS for the reference-counted slot bookkeeping.
-/
import Hv.Conc.Summon

set_option linter.unusedSimpArgs false

namespace Hv.Summon

def rc : Cfg := { refCounted := true, callbackCompares := true }

/-- the thread has counted itself on its slot and not yet given the count back -/
def isA : Pc → Bool
  | .idle | .done | .left2 => false
  | _ => true

/-- the thread is between `ready = true` and the deferred `ready = false` -/
def isCS : Pc → Bool
  | .inCS | .creating | .created _ | .leaving => true
  | _ => false

theorem isA_of_isCS {pc : Pc} (h : isCS pc = true) : isA pc = true := by
  cases pc <;> simp [isCS, isA] at h ⊢

structure Inv (s : St) : Prop where
  ptr : ∀ t, isA (s.thr t).pc = true → s.slotMap = some (s.thr t).slot
  cnt : ∀ σ, s.slotMap = some σ →
    (s.slots σ).holders.Nodup ∧ (s.slots σ).count = ((s.slots σ).holders.length : Int) ∧
    ∀ t, t ∈ (s.slots σ).holders ↔ isA (s.thr t).pc = true
  own : ∀ σ, s.slotMap = some σ → ∀ t, (s.slots σ).owner = some t ↔ isCS (s.thr t).pc = true
  created : ∀ t i, (s.thr t).pc = .created i → s.swampMap = none ∧ s.live = [i]
  mapped : ∀ i, s.swampMap = some i → s.live = [i] ∧ ∀ t j, (s.thr t).pc ≠ .created j
  empty : s.swampMap = none → (∀ t j, (s.thr t).pc ≠ .created j) → s.live = []
  creating : ∀ t, (s.thr t).pc = .creating → s.swampMap = none
  noLeft2 : ∀ t, (s.thr t).pc ≠ .left2

theorem inv_init : Inv init := by
  constructor <;> simp [init, isA, isCS]

theorem setThr_self (s : St) (t : Nat) (x : Thread) : setThr s t x t = x := by simp [setThr]
theorem setThr_ne (s : St) (t y : Nat) (x : Thread) (h : y ≠ t) : setThr s t x y = s.thr y := by simp [setThr, h]
theorem setSlot_self (s : St) (σ : Nat) (x : Slot) : setSlot s σ x σ = x := by simp [setSlot]
theorem setSlot_ne (s : St) (σ y : Nat) (x : Slot) (h : y ≠ σ) : setSlot s σ x y = s.slots y := by simp [setSlot, h]

theorem wake_isA (thr : Nat → Thread) (σ y : Nat) : isA (wake thr σ y).pc = isA (thr y).pc := by
  unfold wake; split
  · rename_i h; rw [h.1]; rfl
  · rfl
theorem wake_isCS (thr : Nat → Thread) (σ y : Nat) : isCS (wake thr σ y).pc = isCS (thr y).pc := by
  unfold wake; split
  · rename_i h; rw [h.1]; rfl
  · rfl
theorem wake_slot (thr : Nat → Thread) (σ y : Nat) : (wake thr σ y).slot = (thr y).slot := by
  unfold wake; split
  · rename_i h; exact h.2.symm
  · rfl
theorem wake_created (thr : Nat → Thread) (σ y i : Nat) : (wake thr σ y).pc = .created i ↔ (thr y).pc = .created i := by
  unfold wake; split
  · rename_i h; rw [h.1]; simp
  · rfl
theorem wake_creating (thr : Nat → Thread) (σ y : Nat) : (wake thr σ y).pc = .creating ↔ (thr y).pc = .creating := by
  unfold wake; split
  · rename_i h; rw [h.1]; simp
  · rfl
theorem wake_left2 (thr : Nat → Thread) (σ y : Nat) : (wake thr σ y).pc = .left2 ↔ (thr y).pc = .left2 := by
  unfold wake; split
  · rename_i h; rw [h.1]; simp
  · rfl

/-- at most one thread is inside the critical section -/
theorem cs_unique (s : St) (h : Inv s) (a b : Nat) (ha : isCS (s.thr a).pc = true) (hb : isCS (s.thr b).pc = true) :
    a = b := by
  have hm := h.ptr a (isA_of_isCS ha)
  have h1 := (h.own _ hm a).mpr ha
  have h2 := (h.own _ hm b).mpr hb
  rw [h1] at h2; simpa using h2

/-- Changing one thread's pc between two values with the same `isA` / `isCS` status, neither of
    them `created`/`creating`/`left2`, with an optional broadcast, keeps the invariant. -/
theorem inv_repc (s : St) (h : Inv s) (t : Nat) (pc' : Pc) (σw : Option Nat)
    (hA : isA pc' = isA (s.thr t).pc) (hC : isCS pc' = isCS (s.thr t).pc)
    (hcr : ∀ i, pc' ≠ .created i) (hcg : pc' = .creating → s.swampMap = none) (hl : pc' ≠ .left2)
    (hold : ∀ i, (s.thr t).pc ≠ .created i) :
    Inv { s with thr := setThr { s with thr := match σw with | some σ => wake s.thr σ | none => s.thr } t ⟨pc', (s.thr t).slot⟩ } := by
  obtain ⟨hP, hN, hO, hCr, hM, hE, hCg, hL⟩ := h
  -- pc / slot of every thread after the step, related to before
  have key : ∀ y, isA ((setThr { s with thr := match σw with | some σ => wake s.thr σ | none => s.thr } t ⟨pc', (s.thr t).slot⟩) y).pc = isA (s.thr y).pc ∧
      isCS ((setThr { s with thr := match σw with | some σ => wake s.thr σ | none => s.thr } t ⟨pc', (s.thr t).slot⟩) y).pc = isCS (s.thr y).pc ∧
      ((setThr { s with thr := match σw with | some σ => wake s.thr σ | none => s.thr } t ⟨pc', (s.thr t).slot⟩) y).slot = (s.thr y).slot ∧
      (∀ i, ((setThr { s with thr := match σw with | some σ => wake s.thr σ | none => s.thr } t ⟨pc', (s.thr t).slot⟩) y).pc = .created i → (s.thr y).pc = .created i) ∧
      (((setThr { s with thr := match σw with | some σ => wake s.thr σ | none => s.thr } t ⟨pc', (s.thr t).slot⟩) y).pc = .creating → (s.thr y).pc = .creating ∨ s.swampMap = none) ∧
      (((setThr { s with thr := match σw with | some σ => wake s.thr σ | none => s.thr } t ⟨pc', (s.thr t).slot⟩) y).pc ≠ .left2) ∧
      (y ≠ t → ∀ i, (s.thr y).pc = .created i → ((setThr { s with thr := match σw with | some σ => wake s.thr σ | none => s.thr } t ⟨pc', (s.thr t).slot⟩) y).pc = .created i) := by
    intro y
    by_cases hy : y = t
    · subst hy
      simp only [setThr, if_true]
      exact ⟨hA, hC, trivial, fun i e => absurd e (hcr i), fun e => Or.inr (hcg e), hl, fun e => absurd rfl e⟩
    · simp only [setThr, hy, if_false]
      cases σw with
      | none => exact ⟨rfl, rfl, rfl, fun _ e => e, fun e => Or.inl e, hL y, fun _ _ e => e⟩
      | some σ =>
        refine ⟨wake_isA _ _ _, wake_isCS _ _ _, wake_slot _ _ _, fun i e => (wake_created _ _ _ i).mp e,
          fun e => Or.inl ((wake_creating _ _ _).mp e), fun e => hL y ((wake_left2 _ _ _).mp e), fun _ i e => (wake_created _ _ _ i).mpr e⟩
  refine ⟨?_, ?_, ?_, ?_, ?_, ?_, ?_, ?_⟩
  · intro y hy
    dsimp only at hy ⊢
    rw [(key y).1] at hy; rw [(key y).2.2.1]; exact hP y hy
  · intro σ hσ
    dsimp only at hσ ⊢
    obtain ⟨a, b, c⟩ := hN σ hσ
    exact ⟨a, b, fun y => by rw [(key y).1]; exact c y⟩
  · intro σ hσ y
    dsimp only at hσ ⊢
    rw [(key y).2.1]; exact hO σ hσ y
  · intro y i hy
    exact hCr y i ((key y).2.2.2.1 i hy)
  · intro i hi
    dsimp only at hi ⊢
    refine ⟨(hM i hi).1, ?_⟩
    intro y j hy
    exact (hM i hi).2 y j ((key y).2.2.2.1 j hy)
  · intro hn hall
    dsimp only at hn hall ⊢
    apply hE hn
    intro y j hy
    by_cases hyt : y = t
    · subst hyt; exact absurd hy (hold j)
    · exact hall y j ((key y).2.2.2.2.2.2 hyt j hy)
  · intro y hy
    rcases (key y).2.2.2.2.1 hy with e | e
    · exact hCg y e
    · exact e
  · intro y
    exact (key y).2.2.2.2.2.1

theorem inv_lookup (s : St) (h : Inv s) (t : Nat) (hpc : (s.thr t).pc = .idle) (s' : St)
    (hs : step rc s (.lookup t) = some s') : Inv s' := by
  obtain ⟨hP, hN, hO, hCr, hM, hE, hCg, hL⟩ := h
  have hI : Inv s := ⟨hP, hN, hO, hCr, hM, hE, hCg, hL⟩
  simp only [step, hpc, if_true, rc] at hs
  have pcs : ∀ (σ y : Nat), ((setThr s t ⟨.looked, σ⟩ y).pc = (s.thr y).pc ∧ (setThr s t ⟨.looked, σ⟩ y).slot = (s.thr y).slot) ∨
      (y = t ∧ setThr s t ⟨.looked, σ⟩ y = ⟨.looked, σ⟩) := by
    intro σ y
    by_cases hy : y = t
    · right; subst hy; exact ⟨rfl, setThr_self s y _⟩
    · left; rw [setThr_ne s t y _ hy]; exact ⟨rfl, rfl⟩
  have instPart : ∀ (σ : Nat),
      (∀ y i, (setThr s t ⟨.looked, σ⟩ y).pc = .created i → (s.thr y).pc = .created i) ∧
      (∀ y, (setThr s t ⟨.looked, σ⟩ y).pc = .creating → (s.thr y).pc = .creating) ∧
      (∀ y, (setThr s t ⟨.looked, σ⟩ y).pc ≠ .left2) ∧
      (∀ y i, (s.thr y).pc = .created i → (setThr s t ⟨.looked, σ⟩ y).pc = .created i) := by
    intro σ
    refine ⟨?_, ?_, ?_, ?_⟩
    · intro y i e
      rcases pcs σ y with a | ⟨_, a⟩
      · rw [a.1] at e; exact e
      · rw [a] at e; simp at e
    · intro y e
      rcases pcs σ y with a | ⟨_, a⟩
      · rw [a.1] at e; exact e
      · rw [a] at e; simp at e
    · intro y e
      rcases pcs σ y with a | ⟨_, a⟩
      · rw [a.1] at e; exact hL y e
      · rw [a] at e; simp at e
    · intro y i e
      rcases pcs σ y with a | ⟨hy, _⟩
      · rw [a.1]; exact e
      · subst hy; rw [hpc] at e; simp at e
  cases hm : s.slotMap with
  | some σ =>
    simp only [hm] at hs; simp at hs; subst hs
    obtain ⟨hnd, hcnt, hmem⟩ := hN σ hm
    have htn : t ∉ (s.slots σ).holders := by
      intro e; have := (hmem t).mp e; rw [hpc] at this; simp [isA] at this
    obtain ⟨i1, i2, i3, i4⟩ := instPart σ
    refine ⟨?_, ?_, ?_, ?_, ?_, ?_, ?_, ?_⟩
    · intro y hy
      dsimp only at hy ⊢
      rcases pcs σ y with a | ⟨_, a⟩
      · rw [a.1] at hy; rw [a.2]; rw [← hm]; exact hP y hy
      · rw [a]
    · intro σ' hσ'
      dsimp only at hσ' ⊢
      have : σ' = σ := by simpa using hσ'.symm
      subst this
      rw [setSlot_self]
      refine ⟨?_, ?_, ?_⟩
      · rw [List.nodup_append]
        exact ⟨hnd, by simp, by intro a ha b hb; simp at hb; subst hb; intro e; subst e; exact htn ha⟩
      · simp [hcnt]
      · intro y
        rcases pcs σ' y with a | ⟨hy, a⟩
        · rw [a.1]
          constructor
          · intro e
            rcases List.mem_append.mp e with e | e
            · exact (hmem y).mp e
            · simp at e; subst e; rw [hpc] at a
              -- y = t would make the pcs equal, but `looked ≠ idle`
              have := a.1; rw [setThr_self] at this; simp at this
          · intro e; exact List.mem_append_left _ ((hmem y).mpr e)
        · rw [a]; subst hy; simp [isA]
    · intro σ' hσ' y
      dsimp only at hσ' ⊢
      have : σ' = σ := by simpa using hσ'.symm
      subst this
      rw [setSlot_self]
      rcases pcs σ' y with a | ⟨hy, a⟩
      · rw [a.1]; exact hO σ' hm y
      · rw [a]; subst hy
        have := hO σ' hm y; rw [hpc] at this
        simp [isCS] at this ⊢; exact this
    · intro y i e; exact hCr y i (i1 y i e)
    · intro i hi; exact ⟨(hM i hi).1, fun y j e => (hM i hi).2 y j (i1 y j e)⟩
    · intro hn hall; exact hE hn (fun y j e => hall y j (i4 y j e))
    · intro y e; exact hCg y (i2 y e)
    · exact i3
  | none =>
    simp only [hm] at hs; simp at hs; subst hs
    have noA : ∀ y, isA (s.thr y).pc = false := by
      intro y
      cases hy : isA (s.thr y).pc with
      | false => rfl
      | true => have := hP y hy; rw [hm] at this; simp at this
    obtain ⟨i1, i2, i3, i4⟩ := instPart s.nextSlot
    refine ⟨?_, ?_, ?_, ?_, ?_, ?_, ?_, ?_⟩
    · intro y hy
      dsimp only at hy ⊢
      rcases pcs s.nextSlot y with a | ⟨_, a⟩
      · rw [a.1, noA y] at hy; simp at hy
      · rw [a]
    · intro σ' hσ'
      dsimp only at hσ' ⊢
      have : σ' = s.nextSlot := by simpa using hσ'.symm
      subst this
      rw [setSlot_self]
      refine ⟨by simp, by simp, ?_⟩
      intro y
      rcases pcs s.nextSlot y with a | ⟨hy, a⟩
      · rw [a.1, noA y]
        constructor
        · intro e; simp at e; subst e
          have := a.1; rw [setThr_self, hpc] at this; simp at this
        · intro e; simp at e
      · rw [a]; subst hy; simp [isA]
    · intro σ' hσ' y
      dsimp only at hσ' ⊢
      have : σ' = s.nextSlot := by simpa using hσ'.symm
      subst this
      rw [setSlot_self]
      rcases pcs s.nextSlot y with a | ⟨hy, a⟩
      · rw [a.1]
        have : isCS (s.thr y).pc = false := by
          cases hc : isCS (s.thr y).pc with
          | false => rfl
          | true => have := isA_of_isCS hc; rw [noA y] at this; simp at this
        simp [this]
      · rw [a]; simp [isCS]
    · intro y i e; exact hCr y i (i1 y i e)
    · intro i hi; exact ⟨(hM i hi).1, fun y j e => (hM i hi).2 y j (i1 y j e)⟩
    · intro hn hall; exact hE hn (fun y j e => hall y j (i4 y j e))
    · intro y e; exact hCg y (i2 y e)
    · exact i3

theorem inv_enterAcquire (s : St) (h : Inv s) (t : Nat) (hpc : (s.thr t).pc = .looked ∨ (s.thr t).pc = .woken)
    (hown : (s.slots (s.thr t).slot).owner = none) :
    Inv { s with slots := setSlot s (s.thr t).slot { s.slots (s.thr t).slot with owner := some t },
                 thr := setThr s t ⟨.inCS, (s.thr t).slot⟩ } := by
  obtain ⟨hP, hN, hO, hCr, hM, hE, hCg, hL⟩ := h
  have hAt : isA (s.thr t).pc = true := by rcases hpc with e | e <;> rw [e] <;> rfl
  have hm := hP t hAt
  have hnoCS : ∀ y, isCS (s.thr y).pc = false := by
    intro y
    cases hc : isCS (s.thr y).pc with
    | false => rfl
    | true => have := (hO _ hm y).mpr hc; rw [hown] at this; simp at this
  have pcs : ∀ y, (y ≠ t ∧ setThr s t ⟨.inCS, (s.thr t).slot⟩ y = s.thr y) ∨ (y = t ∧ setThr s t ⟨.inCS, (s.thr t).slot⟩ y = ⟨.inCS, (s.thr t).slot⟩) := by
    intro y
    by_cases hy : y = t
    · right; subst hy; exact ⟨rfl, setThr_self s y _⟩
    · left; exact ⟨hy, setThr_ne s t y _ hy⟩
  have notCreated : ∀ y i, (s.thr y).pc ≠ .created i := by
    intro y i e; have := hnoCS y; rw [e] at this; simp [isCS] at this
  refine ⟨?_, ?_, ?_, ?_, ?_, ?_, ?_, ?_⟩
  · intro y hy
    dsimp only at hy ⊢
    rcases pcs y with ⟨_, a⟩ | ⟨_, a⟩
    · rw [a] at hy ⊢; exact hP y hy
    · rw [a]; exact hm
  · intro σ hσ
    dsimp only at hσ ⊢
    have : σ = (s.thr t).slot := by rw [hm] at hσ; simpa using hσ.symm
    subst this
    rw [setSlot_self]
    obtain ⟨a, b, c⟩ := hN _ hm
    refine ⟨a, b, ?_⟩
    intro y
    rcases pcs y with ⟨_, e⟩ | ⟨hy, e⟩
    · rw [e]; exact c y
    · rw [e]; subst hy; rw [c y, hAt]; simp [isA]
  · intro σ hσ y
    dsimp only at hσ ⊢
    have : σ = (s.thr t).slot := by rw [hm] at hσ; simpa using hσ.symm
    subst this
    rw [setSlot_self]
    rcases pcs y with ⟨hy, e⟩ | ⟨hy, e⟩
    · rw [e, hnoCS y]
      simp; exact fun e' => hy e'.symm
    · rw [e]; subst hy; simp [isCS]
  · intro y i e
    try dsimp only at e
    rcases pcs y with ⟨_, a⟩ | ⟨_, a⟩
    · rw [a] at e; exact hCr y i e
    · rw [a] at e; simp at e
  · intro i hi
    refine ⟨(hM i hi).1, ?_⟩
    intro y j e
    try dsimp only at e
    rcases pcs y with ⟨_, a⟩ | ⟨_, a⟩
    · rw [a] at e; exact (hM i hi).2 y j e
    · rw [a] at e; simp at e
  · intro hn _
    exact hE hn notCreated
  · intro y e
    try dsimp only at e
    rcases pcs y with ⟨_, a⟩ | ⟨_, a⟩
    · rw [a] at e; exact hCg y e
    · rw [a] at e; simp at e
  · intro y e
    try dsimp only at e
    rcases pcs y with ⟨_, a⟩ | ⟨_, a⟩
    · rw [a] at e; exact hL y e
    · rw [a] at e; simp at e

theorem inv_bodyCreate (s : St) (h : Inv s) (t : Nat) (hpc : (s.thr t).pc = .creating) :
    Inv { s with thr := setThr s t ⟨.created s.nextInst, (s.thr t).slot⟩, live := s.live ++ [s.nextInst],
                 nextInst := s.nextInst + 1 } := by
  have hI := h
  obtain ⟨hP, hN, hO, hCr, hM, hE, hCg, hL⟩ := h
  have hcs : isCS (s.thr t).pc = true := by rw [hpc]; rfl
  have hnone := hCg t hpc
  have others : ∀ y, y ≠ t → isCS (s.thr y).pc = false := by
    intro y hy
    cases hc : isCS (s.thr y).pc with
    | false => rfl
    | true => exact absurd (cs_unique s hI y t hc hcs) hy
  have notCreated : ∀ y i, (s.thr y).pc ≠ .created i := by
    intro y i e
    try dsimp only at e
    by_cases hy : y = t
    · subst hy; rw [hpc] at e; simp at e
    · have := others y hy; rw [e] at this; simp [isCS] at this
  have hlive : s.live = [] := hE hnone notCreated
  have pcs : ∀ y, (y ≠ t ∧ setThr s t ⟨.created s.nextInst, (s.thr t).slot⟩ y = s.thr y) ∨
      (y = t ∧ setThr s t ⟨.created s.nextInst, (s.thr t).slot⟩ y = ⟨.created s.nextInst, (s.thr t).slot⟩) := by
    intro y
    by_cases hy : y = t
    · right; subst hy; exact ⟨rfl, setThr_self s y _⟩
    · left; exact ⟨hy, setThr_ne s t y _ hy⟩
  refine ⟨?_, ?_, ?_, ?_, ?_, ?_, ?_, ?_⟩
  · intro y hy
    dsimp only at hy ⊢
    rcases pcs y with ⟨_, a⟩ | ⟨hyt, a⟩
    · rw [a] at hy ⊢; exact hP y hy
    · rw [a]; subst hyt; exact hP y (isA_of_isCS hcs)
  · intro σ hσ
    dsimp only at hσ ⊢
    obtain ⟨a, b, c⟩ := hN σ hσ
    refine ⟨a, b, ?_⟩
    intro y
    rcases pcs y with ⟨_, e⟩ | ⟨hy, e⟩
    · rw [e]; exact c y
    · rw [e]; subst hy; rw [c y, isA_of_isCS hcs]; simp [isA]
  · intro σ hσ y
    dsimp only at hσ ⊢
    rcases pcs y with ⟨_, e⟩ | ⟨hy, e⟩
    · rw [e]; exact hO σ hσ y
    · rw [e]; subst hy; rw [hO σ hσ y, hcs]; simp [isCS]
  · intro y i e
    try dsimp only at e
    dsimp only
    rcases pcs y with ⟨_, a⟩ | ⟨_, a⟩
    · rw [a] at e; exact absurd e (notCreated y i)
    · rw [a] at e; simp at e; subst e; exact ⟨hnone, by simp [hlive]⟩
  · intro i hi
    dsimp only at hi
    rw [hnone] at hi; simp at hi
  · intro _ hall
    have := hall t s.nextInst
    dsimp only at this
    rw [setThr_self] at this; simp at this
  · intro y e
    try dsimp only at e
    dsimp only
    rcases pcs y with ⟨_, a⟩ | ⟨_, a⟩
    · rw [a] at e; exact hCg y e
    · rw [a] at e; simp at e
  · intro y e
    try dsimp only at e
    rcases pcs y with ⟨_, a⟩ | ⟨_, a⟩
    · rw [a] at e; exact hL y e
    · rw [a] at e; simp at e

theorem inv_bodyStore (s : St) (h : Inv s) (t i : Nat) (hpc : (s.thr t).pc = .created i) :
    Inv { s with thr := setThr s t ⟨.leaving, (s.thr t).slot⟩, swampMap := some i, published := s.published ++ [i] } := by
  have hI := h
  obtain ⟨hP, hN, hO, hCr, hM, hE, hCg, hL⟩ := h
  have hcs : isCS (s.thr t).pc = true := by rw [hpc]; rfl
  have others : ∀ y, y ≠ t → isCS (s.thr y).pc = false := by
    intro y hy
    cases hc : isCS (s.thr y).pc with
    | false => rfl
    | true => exact absurd (cs_unique s hI y t hc hcs) hy
  have pcs : ∀ y, (y ≠ t ∧ setThr s t ⟨.leaving, (s.thr t).slot⟩ y = s.thr y) ∨
      (y = t ∧ setThr s t ⟨.leaving, (s.thr t).slot⟩ y = ⟨.leaving, (s.thr t).slot⟩) := by
    intro y
    by_cases hy : y = t
    · right; subst hy; exact ⟨rfl, setThr_self s y _⟩
    · left; exact ⟨hy, setThr_ne s t y _ hy⟩
  have notCreated : ∀ y j, (setThr s t ⟨.leaving, (s.thr t).slot⟩ y).pc ≠ .created j := by
    intro y j e
    try dsimp only at e
    rcases pcs y with ⟨hy, a⟩ | ⟨_, a⟩
    · rw [a] at e; have := others y hy; rw [e] at this; simp [isCS] at this
    · rw [a] at e; simp at e
  refine ⟨?_, ?_, ?_, ?_, ?_, ?_, ?_, ?_⟩
  · intro y hy
    dsimp only at hy ⊢
    rcases pcs y with ⟨_, a⟩ | ⟨hyt, a⟩
    · rw [a] at hy ⊢; exact hP y hy
    · rw [a]; subst hyt; exact hP y (isA_of_isCS hcs)
  · intro σ hσ
    dsimp only at hσ ⊢
    obtain ⟨a, b, c⟩ := hN σ hσ
    refine ⟨a, b, ?_⟩
    intro y
    rcases pcs y with ⟨_, e⟩ | ⟨hy, e⟩
    · rw [e]; exact c y
    · rw [e]; subst hy; rw [c y, isA_of_isCS hcs]; simp [isA]
  · intro σ hσ y
    dsimp only at hσ ⊢
    rcases pcs y with ⟨_, e⟩ | ⟨hy, e⟩
    · rw [e]; exact hO σ hσ y
    · rw [e]; subst hy; rw [hO σ hσ y, hcs]; simp [isCS]
  · intro y j e
    try dsimp only at e
    exact absurd e (notCreated y j)
  · intro j hj
    dsimp only at hj ⊢
    have : j = i := by simpa using hj.symm
    subst this
    exact ⟨(hCr t j hpc).2, notCreated⟩
  · intro hn; dsimp only at hn; simp at hn
  · intro y e
    try dsimp only at e
    rcases pcs y with ⟨hy, a⟩ | ⟨_, a⟩
    · rw [a] at e; have := others y hy; rw [e] at this; simp [isCS] at this
    · rw [a] at e; simp at e
  · intro y e
    try dsimp only at e
    rcases pcs y with ⟨_, a⟩ | ⟨_, a⟩
    · rw [a] at e; exact hL y e
    · rw [a] at e; simp at e

theorem inv_close (s : St) (h : Inv s) (i : Nat) (hm : s.swampMap = some i) :
    Inv { s with live := s.live.erase i, swampMap := none } := by
  obtain ⟨hP, hN, hO, hCr, hM, hE, hCg, hL⟩ := h
  refine ⟨hP, hN, hO, ?_, ?_, ?_, ?_, hL⟩
  · intro y j e; exact absurd e ((hM i hm).2 y j)
  · intro j hj; simp at hj
  · intro _ _; show s.live.erase i = []; rw [(hM i hm).1]; simp
  · intro _ _; rfl

/-- published instances: a live one is the mapped one; ids are below the allocation counter -/
structure PubInv (s : St) : Prop where
  liveMapped : ∀ i ∈ s.published, i ∈ s.live → s.swampMap = some i
  below : ∀ i ∈ s.published, i < s.nextInst
  createdBelow : ∀ t j, (s.thr t).pc = .created j → j < s.nextInst

theorem pub_init : PubInv init := by
  constructor <;> simp [init]

theorem inv_leaveUnready (s : St) (h : Inv s) (t : Nat) (hpc : (s.thr t).pc = .leaving) :
    Inv { s with slots := setSlot s (s.thr t).slot { s.slots (s.thr t).slot with owner := none },
                 thr := setThr { s with thr := wake s.thr (s.thr t).slot } t ⟨.left1, (s.thr t).slot⟩ } := by
  have hI := h
  obtain ⟨hP, hN, hO, hCr, hM, hE, hCg, hL⟩ := h
  have hcs : isCS (s.thr t).pc = true := by rw [hpc]; rfl
  have hm := hP t (isA_of_isCS hcs)
  have others : ∀ y, y ≠ t → isCS (s.thr y).pc = false := by
    intro y hy
    cases hc : isCS (s.thr y).pc with
    | false => rfl
    | true => exact absurd (cs_unique s hI y t hc hcs) hy
  have pcs : ∀ y, (y ≠ t ∧ setThr { s with thr := wake s.thr (s.thr t).slot } t ⟨.left1, (s.thr t).slot⟩ y = wake s.thr (s.thr t).slot y) ∨
      (y = t ∧ setThr { s with thr := wake s.thr (s.thr t).slot } t ⟨.left1, (s.thr t).slot⟩ y = ⟨.left1, (s.thr t).slot⟩) := by
    intro y
    by_cases hy : y = t
    · right; subst hy; exact ⟨rfl, by simp [setThr]⟩
    · left; exact ⟨hy, by simp [setThr, hy]⟩
  refine ⟨?_, ?_, ?_, ?_, ?_, ?_, ?_, ?_⟩
  · intro y hy
    dsimp only at hy ⊢
    rcases pcs y with ⟨_, a⟩ | ⟨_, a⟩
    · rw [a] at hy ⊢; rw [wake_isA] at hy; rw [wake_slot]; exact hP y hy
    · rw [a]; exact hm
  · intro σ hσ
    dsimp only at hσ ⊢
    have : σ = (s.thr t).slot := by rw [hm] at hσ; simpa using hσ.symm
    subst this
    rw [setSlot_self]
    obtain ⟨a, b, c⟩ := hN _ hm
    refine ⟨a, b, ?_⟩
    intro y
    rcases pcs y with ⟨_, e⟩ | ⟨hy, e⟩
    · rw [e, wake_isA]; exact c y
    · rw [e]; subst hy; rw [c y, isA_of_isCS hcs]; simp [isA]
  · intro σ hσ y
    dsimp only at hσ ⊢
    have : σ = (s.thr t).slot := by rw [hm] at hσ; simpa using hσ.symm
    subst this
    rw [setSlot_self]
    rcases pcs y with ⟨hy, e⟩ | ⟨hy, e⟩
    · rw [e, wake_isCS, others y hy]; simp
    · rw [e]; simp [isCS]
  · intro y i e
    try dsimp only at e
    rcases pcs y with ⟨_, a⟩ | ⟨_, a⟩
    · rw [a] at e; exact hCr y i ((wake_created _ _ _ i).mp e)
    · rw [a] at e; simp at e
  · intro i hi
    refine ⟨(hM i hi).1, ?_⟩
    intro y j e
    try dsimp only at e
    rcases pcs y with ⟨_, a⟩ | ⟨_, a⟩
    · rw [a] at e; exact (hM i hi).2 y j ((wake_created _ _ _ j).mp e)
    · rw [a] at e; simp at e
  · intro hn hall
    apply hE hn
    intro y j e
    by_cases hy : y = t
    · subst hy; rw [hpc] at e; simp at e
    · have := hall y j
      dsimp only at this
      rcases pcs y with ⟨_, a⟩ | ⟨hyt, _⟩
      · rw [a] at this; exact this ((wake_created _ _ _ j).mpr e)
      · exact hy hyt
  · intro y e
    try dsimp only at e
    rcases pcs y with ⟨_, a⟩ | ⟨_, a⟩
    · rw [a] at e; exact hCg y ((wake_creating _ _ _).mp e)
    · rw [a] at e; simp at e
  · intro y e
    try dsimp only at e
    rcases pcs y with ⟨_, a⟩ | ⟨_, a⟩
    · rw [a] at e; exact hL y ((wake_left2 _ _ _).mp e)
    · rw [a] at e; simp at e

theorem inv_leaveDec (s : St) (h : Inv s) (t : Nat) (hpc : (s.thr t).pc = .left1) :
    Inv { s with slots := setSlot s (s.thr t).slot { s.slots (s.thr t).slot with
                    count := (s.slots (s.thr t).slot).count - 1, holders := (s.slots (s.thr t).slot).holders.erase t },
                 thr := setThr s t ⟨.done, (s.thr t).slot⟩,
                 slotMap := if (s.slots (s.thr t).slot).count - 1 = 0 then none else s.slotMap } := by
  obtain ⟨hP, hN, hO, hCr, hM, hE, hCg, hL⟩ := h
  have hAt : isA (s.thr t).pc = true := by rw [hpc]; rfl
  have hm := hP t hAt
  obtain ⟨hnd, hcnt, hmem⟩ := hN _ hm
  have htin : t ∈ (s.slots (s.thr t).slot).holders := (hmem t).mpr hAt
  have hlen : ((s.slots (s.thr t).slot).holders.erase t).length = (s.slots (s.thr t).slot).holders.length - 1 :=
    List.length_erase_of_mem htin
  have hpos : 0 < (s.slots (s.thr t).slot).holders.length := List.length_pos_of_mem htin
  have pcs : ∀ y, (y ≠ t ∧ setThr s t ⟨.done, (s.thr t).slot⟩ y = s.thr y) ∨
      (y = t ∧ setThr s t ⟨.done, (s.thr t).slot⟩ y = ⟨.done, (s.thr t).slot⟩) := by
    intro y
    by_cases hy : y = t
    · right; subst hy; exact ⟨rfl, setThr_self s y _⟩
    · left; exact ⟨hy, setThr_ne s t y _ hy⟩
  have memErase : ∀ y, y ∈ (s.slots (s.thr t).slot).holders.erase t ↔ (y ≠ t ∧ isA (s.thr y).pc = true) := by
    intro y
    rw [List.Nodup.mem_erase_iff hnd, hmem y]
  have instPart :
      (∀ y i, (setThr s t ⟨.done, (s.thr t).slot⟩ y).pc = .created i → (s.thr y).pc = .created i) ∧
      (∀ y, (setThr s t ⟨.done, (s.thr t).slot⟩ y).pc = .creating → (s.thr y).pc = .creating) ∧
      (∀ y, (setThr s t ⟨.done, (s.thr t).slot⟩ y).pc ≠ .left2) ∧
      (∀ y i, (s.thr y).pc = .created i → (setThr s t ⟨.done, (s.thr t).slot⟩ y).pc = .created i) := by
    refine ⟨?_, ?_, ?_, ?_⟩
    · intro y i e
      rcases pcs y with ⟨_, a⟩ | ⟨_, a⟩
      · rw [a] at e; exact e
      · rw [a] at e; simp at e
    · intro y e
      rcases pcs y with ⟨_, a⟩ | ⟨_, a⟩
      · rw [a] at e; exact e
      · rw [a] at e; simp at e
    · intro y e
      rcases pcs y with ⟨_, a⟩ | ⟨_, a⟩
      · rw [a] at e; exact hL y e
      · rw [a] at e; simp at e
    · intro y i e
      rcases pcs y with ⟨_, a⟩ | ⟨hy, _⟩
      · rw [a]; exact e
      · subst hy; rw [hpc] at e; simp at e
  obtain ⟨i1, i2, i3, i4⟩ := instPart
  by_cases hz : (s.slots (s.thr t).slot).count - 1 = 0
  · -- last holder: the map entry goes away, nobody else points at the slot
    have hone : (s.slots (s.thr t).slot).holders.length = 1 := by omega
    have hempty : (s.slots (s.thr t).slot).holders.erase t = [] := by
      apply List.eq_nil_of_length_eq_zero; omega
    have noOther : ∀ y, y ≠ t → isA (s.thr y).pc = false := by
      intro y hy
      cases ha : isA (s.thr y).pc with
      | false => rfl
      | true => have := (memErase y).mpr ⟨hy, ha⟩; rw [hempty] at this; simp at this
    simp only [hz, if_true]
    refine ⟨?_, ?_, ?_, ?_, ?_, ?_, ?_, ?_⟩
    · intro y hy
      dsimp only at hy
      rcases pcs y with ⟨hyt, a⟩ | ⟨_, a⟩
      · rw [a, noOther y hyt] at hy; simp at hy
      · rw [a] at hy; simp [isA] at hy
    · intro σ hσ; simp at hσ
    · intro σ hσ; simp at hσ
    · intro y i e; exact hCr y i (i1 y i e)
    · intro i hi; exact ⟨(hM i hi).1, fun y j e => (hM i hi).2 y j (i1 y j e)⟩
    · intro hn hall; exact hE hn (fun y j e => hall y j (i4 y j e))
    · intro y e; exact hCg y (i2 y e)
    · exact i3
  · simp only [hz, if_false]
    refine ⟨?_, ?_, ?_, ?_, ?_, ?_, ?_, ?_⟩
    · intro y hy
      dsimp only at hy ⊢
      rcases pcs y with ⟨_, a⟩ | ⟨_, a⟩
      · rw [a] at hy ⊢; exact hP y hy
      · rw [a] at hy; simp [isA] at hy
    · intro σ hσ
      dsimp only at hσ ⊢
      have : σ = (s.thr t).slot := by rw [hm] at hσ; simpa using hσ.symm
      subst this
      rw [setSlot_self]
      refine ⟨List.Nodup.erase t hnd, ?_, ?_⟩
      · show (s.slots (s.thr t).slot).count - 1 = _
        rw [hlen, hcnt]; omega
      · intro y
        show y ∈ (s.slots (s.thr t).slot).holders.erase t ↔ _
        rw [memErase y]
        rcases pcs y with ⟨hy, e⟩ | ⟨hy, e⟩
        · rw [e]; simp [hy]
        · rw [e]; simp [isA, hy]
    · intro σ hσ y
      dsimp only at hσ ⊢
      have : σ = (s.thr t).slot := by rw [hm] at hσ; simpa using hσ.symm
      subst this
      rw [setSlot_self]
      show (s.slots (s.thr t).slot).owner = some y ↔ _
      rcases pcs y with ⟨_, e⟩ | ⟨hy, e⟩
      · rw [e]; exact hO _ hm y
      · rw [e]; subst hy
        have := hO _ hm y; rw [hpc] at this
        simp [isCS] at this ⊢; exact this
    · intro y i e; exact hCr y i (i1 y i e)
    · intro i hi; exact ⟨(hM i hi).1, fun y j e => (hM i hi).2 y j (i1 y j e)⟩
    · intro hn hall; exact hE hn (fun y j e => hall y j (i4 y j e))
    · intro y e; exact hCg y (i2 y e)
    · exact i3

end Hv.Summon
