/-
  The hand-out at the end of `SummonSwamp` (app/core/hydra/hydra.go, the deferred exit).

  Between leaving the body (the instance to return is fixed) and the return, the summoner unlocks
  the wait slot and gives its count back under `summonMu`; on a starved process this can take
  longer than the instance's idle limit, and the instance's idle listener then closes it (`idleClose`).
  `cfg.exitRechecks`: the last statement of the deferred exit is
      if err == nil && swampObj != nil && swampObj.IsClosing() { … swampObj, err = h.SummonSwamp(…) }
  `IsClosing()` also restarts the idle time of a live instance, so between a negative check and the
  return (and the caller's BeginVigil) no idle close can fall: check and hand-out are one step here.
  The re-summon is an ordinary entrant of the wait-slot protocol (`Hv.Summon`: another thread id).
-/
import Hv.Basic.LTS

namespace Hv.SummonExit

structure Cfg where
  exitRechecks : Bool
  deriving DecidableEq, Repr

inductive Pc where
  | body | exiting | out
  deriving DecidableEq, Repr

structure St where
  pc : Pc
  /-- the instance the summoner is about to hand out has been closed -/
  closed : Bool
  /-- ghost: the instance was closed at the moment it was handed out -/
  handedClosed : Bool
  /-- ghost: number of re-summons -/
  resummons : Nat
  deriving DecidableEq, Repr

def init : St := { pc := .body, closed := false, handedClosed := false, resummons := 0 }

inductive Act where
  /-- the body is left with an instance (found or created): the deferred exit begins -/
  | leaveBody
  /-- the idle listener (or anybody else) closes that instance while the exit is under way -/
  | idleClose
  /-- the end of the deferred exit: (re-check and) return -/
  | handOut
  deriving DecidableEq, Repr

def step (cfg : Cfg) (s : St) : Act → Option St
  | .leaveBody => if s.pc = .body then some { s with pc := .exiting } else none
  | .idleClose => if s.pc = .exiting ∧ s.closed = false then some { s with closed := true } else none
  | .handOut =>
    if s.pc = .exiting then
      if cfg.exitRechecks && s.closed then
        -- summon again: back into the protocol, with a live instance to come
        some { s with pc := .body, closed := false, resummons := s.resummons + 1 }
      else some { s with pc := .out, handedClosed := s.closed }
    else none

abbrev run (cfg : Cfg) := LTS.run (step cfg)

/-- with the re-check nothing closed is ever handed out -/
theorem hands_out_live (as : List Act) (s : St) (h : run ⟨true⟩ init as = some s) : s.handedClosed = false := by
  refine LTS.inv_run (step ⟨true⟩) (fun s => s.handedClosed = false) ?_ init as s rfl h
  intro s a s' hi hs
  cases a <;> simp only [step] at hs
  · split at hs <;> simp at hs; subst hs; exact hi
  · split at hs <;> simp at hs; subst hs; exact hi
  · split at hs
    · cases hc : s.closed <;> simp [hc] at hs <;> subst hs <;> simp [hi, hc]
    · simp at hs

/-- without it: leave the body, the idle listener closes the instance, the exit returns it -/
def witness : List Act := [.leaveBody, .idleClose, .handOut]

theorem witness_hands_out_closed :
    (run ⟨false⟩ init witness).map (fun s => (s.pc, s.handedClosed)) = some (.out, true) := by decide

end Hv.SummonExit
