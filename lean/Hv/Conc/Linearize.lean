/-
  Read-modify-write bodies on one record, on top of the guard LTS (C09).

  Code shape (swamp.go IncrementXxx / PatchFields / deleteHandler, gateway.go Set …):

      obj := beaconKey.Get(key) or CreateTreasure(key)      -- one live object per key
      id  := obj.StartTreasureGuard(true)                    -- pc 0 → 1   (Guard.enqueue)
      defer obj.ReleaseTreasureGuard(id)
      v   := obj.GetContent…()                               -- pc 1 → 2   (needs the grant)
      obj.SetContent…(f v)                                   -- pc 2 → 3   (linearization point)
      obj.Save(id)        -- SaveFunction; with write interval 0 it calls
                          -- t.ReleaseTreasureGuard(id) itself before writing the file   pc 3 → 4
      return              -- the deferred (second) release                               pc 4 → 5

  Every thread id is one call; any number of threads; a schedule is a list of actions: `th t`
  (the named call performs its next action, if enabled), or an *environment* action: some other
  client of the same guard enqueues / releases (chronicler `Write` takes the guard of every
  treasure it encodes — which is why `SaveFunction` releases it first in immediate-write mode —
  and so do readers such as `Clone`); environment sessions never touch the value.  `Cfg.shape` also describes two
  defective body shapes (read before the acquire / write after the release) used for
  counterexamples when the fact extractor reports them.
-/
import Hv.Conc.Guard

namespace Hv.Lin
open Hv.Guard

inductive Shape where
  /-- reads and writes lie between the acquire and the (first) release -/
  | guarded
  /-- the value is read before `StartTreasureGuard` -/
  | readBeforeAcquire
  /-- the write / `Save` happens after `ReleaseTreasureGuard` -/
  | writeAfterRelease
  /-- (part of) the response is read from the object after `Save` — i.e., with `releaseInSave`, after the guard
      was released (`createMetaForIncrementResponse(obj)` behind `obj.Save(id)`) -/
  | respAfterSave
  deriving DecidableEq, Repr

structure Cfg where
  guard : Guard.Cfg
  /-- `SaveFunction` releases the guard itself (write interval 0 on a persistent swamp) -/
  releaseInSave : Bool
  shape : Shape
  deriving DecidableEq, Repr

structure TSt where
  pc : Nat
  sid : Nat
  loc : Int
  /-- ghost: clock values of the invocation and of the acknowledgement -/
  inv : Nat
  ack : Nat
  deriving DecidableEq, Repr

structure Entry where
  tid : Nat
  sid : Nat
  resp : Int
  /-- ghost: clock value of the write (the linearization point) -/
  ts : Nat
  deriving DecidableEq, Repr

structure St where
  g : Guard.St
  /-- the record's value in memory -/
  val : Int
  th : Nat → TSt
  /-- ghost: one entry per committed write, in commit order -/
  log : List Entry
  clock : Nat
  /-- ghost: sessions opened by environment clients -/
  env : List Nat

inductive Act where
  | th (t : Nat)
  /-- another client calls `StartTreasureGuard(true)` -/
  | envStart
  /-- an environment session calls `ReleaseTreasureGuard` with the ID it was given (any number of times) -/
  | envRelease (sid : Nat)
  deriving DecidableEq, Repr

def init (v : Int) : St :=
  { g := Guard.init, val := v, th := fun _ => { pc := 0, sid := 0, loc := 0, inv := 0, ack := 0 }, log := [], clock := 0,
    env := [] }

def setT (f : Nat → TSt) (t : Nat) (v : TSt) : Nat → TSt := fun u => if u = t then v else f u

/-- the guard call `ReleaseTreasureGuard(id)` made by the session `sid` -/
def release (cfg : Cfg) (g : Guard.St) (sid : Nat) : Option Guard.St := Guard.step cfg.guard g (.release sid)

/-- the well-formed body -/
def stepGuarded (cfg : Cfg) (op : Nat → Int → Int) (s : St) (t : Nat) : Option St :=
  let ts := s.th t
  let tick := s.clock + 1
  match ts.pc with
  | 0 =>
    let g' := enqueue s.g
    some { s with g := g', th := setT s.th t { ts with pc := 1, sid := g'.nextSid, inv := tick }, clock := tick }
  | 1 =>
    if s.g.grants.contains ts.sid then
      some { s with th := setT s.th t { ts with pc := 2, loc := s.val }, clock := tick }
    else none
  | 2 =>
    let v := op t ts.loc
    some { s with val := v, th := setT s.th t { ts with pc := 3 },
                  log := s.log ++ [{ tid := t, sid := ts.sid, resp := v, ts := tick }], clock := tick }
  | 3 =>
    if cfg.releaseInSave then
      match release cfg s.g ts.sid with
      | some g' => some { s with g := g', th := setT s.th t { ts with pc := 4 }, clock := tick }
      | none => none
    else some { s with th := setT s.th t { ts with pc := 4 }, clock := tick }
  | 4 =>
    match release cfg s.g ts.sid with
    | some g' => some { s with g := g', th := setT s.th t { ts with pc := 5, ack := tick }, clock := tick }
    | none => none
  | _ => none

/-- defective: `v := obj.GetContent…()` moved in front of `StartTreasureGuard` -/
def stepReadFirst (cfg : Cfg) (op : Nat → Int → Int) (s : St) (t : Nat) : Option St :=
  let ts := s.th t
  let tick := s.clock + 1
  match ts.pc with
  | 0 => some { s with th := setT s.th t { ts with pc := 1, loc := s.val, inv := tick }, clock := tick }
  | 1 =>
    let g' := enqueue s.g
    some { s with g := g', th := setT s.th t { ts with pc := 2, sid := g'.nextSid }, clock := tick }
  | 2 =>
    if s.g.grants.contains ts.sid then
      let v := op t ts.loc
      some { s with val := v, th := setT s.th t { ts with pc := 4 },
                    log := s.log ++ [{ tid := t, sid := ts.sid, resp := v, ts := tick }], clock := tick }
    else none
  | 4 =>
    match release cfg s.g ts.sid with
    | some g' => some { s with g := g', th := setT s.th t { ts with pc := 5, ack := tick }, clock := tick }
    | none => none
  | _ => none

/-- defective: `Save` moved behind `ReleaseTreasureGuard` -/
def stepWriteLate (cfg : Cfg) (op : Nat → Int → Int) (s : St) (t : Nat) : Option St :=
  let ts := s.th t
  let tick := s.clock + 1
  match ts.pc with
  | 0 =>
    let g' := enqueue s.g
    some { s with g := g', th := setT s.th t { ts with pc := 1, sid := g'.nextSid, inv := tick }, clock := tick }
  | 1 =>
    if s.g.grants.contains ts.sid then
      some { s with th := setT s.th t { ts with pc := 2, loc := s.val }, clock := tick }
    else none
  | 2 =>
    match release cfg s.g ts.sid with
    | some g' => some { s with g := g', th := setT s.th t { ts with pc := 3 }, clock := tick }
    | none => none
  | 3 =>
    let v := op t ts.loc
    some { s with val := v, th := setT s.th t { ts with pc := 5, ack := tick },
                  log := s.log ++ [{ tid := t, sid := ts.sid, resp := v, ts := tick }], clock := tick }
  | _ => none

/-- defective: the response is read back from the object after `Save` (pc 4 → 6); the write itself (pc 2 → 3) is
    guarded.  The logged response is whatever the object holds at that moment. -/
def stepRespLate (cfg : Cfg) (op : Nat → Int → Int) (s : St) (t : Nat) : Option St :=
  let ts := s.th t
  let tick := s.clock + 1
  match ts.pc with
  | 0 =>
    let g' := enqueue s.g
    some { s with g := g', th := setT s.th t { ts with pc := 1, sid := g'.nextSid, inv := tick }, clock := tick }
  | 1 =>
    if s.g.grants.contains ts.sid then
      some { s with th := setT s.th t { ts with pc := 2, loc := s.val }, clock := tick }
    else none
  | 2 => some { s with val := op t ts.loc, th := setT s.th t { ts with pc := 3, loc := tick }, clock := tick }
  | 3 =>
    if cfg.releaseInSave then
      match release cfg s.g ts.sid with
      | some g' => some { s with g := g', th := setT s.th t { ts with pc := 4 }, clock := tick }
      | none => none
    else some { s with th := setT s.th t { ts with pc := 4 }, clock := tick }
  | 4 =>
    -- `loc` kept the clock value of the write (the entry's position in commit order)
    some { s with th := setT s.th t { ts with pc := 6 },
                  log := s.log ++ [{ tid := t, sid := ts.sid, resp := s.val, ts := ts.loc.toNat }], clock := tick }
  | 6 =>
    match release cfg s.g ts.sid with
    | some g' => some { s with g := g', th := setT s.th t { ts with pc := 5, ack := tick }, clock := tick }
    | none => none
  | _ => none

def stepTh (cfg : Cfg) (op : Nat → Int → Int) (s : St) (t : Nat) : Option St :=
  match cfg.shape with
  | .guarded => stepGuarded cfg op s t
  | .readBeforeAcquire => stepReadFirst cfg op s t
  | .writeAfterRelease => stepWriteLate cfg op s t
  | .respAfterSave => stepRespLate cfg op s t

def step (cfg : Cfg) (op : Nat → Int → Int) (s : St) : Act → Option St
  | .th t => stepTh cfg op s t
  | .envStart =>
    some { s with g := enqueue s.g, env := s.env ++ [s.g.nextSid + 1], clock := s.clock + 1 }
  | .envRelease sid =>
    if s.env.contains sid then
      match release cfg s.g sid with
      | some g' => some { s with g := g', clock := s.clock + 1 }
      | none => none
    else none

abbrev run (cfg : Cfg) (op : Nat → Int → Int) := LTS.run (step cfg op)

/-- Sequential Spec: replay the log as a sequential history from `v`; `some final` iff every
    logged response is what the operation returns at that point. -/
def replay (op : Nat → Int → Int) : Int → List Entry → Option Int
  | v, [] => some v
  | v, e :: l => if op e.tid v = e.resp then replay op e.resp l else none

end Hv.Lin
