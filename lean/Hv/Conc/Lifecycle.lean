/-
  Lifecycle of one swamp name (C16): summon / vigil / write / delete with auto-destroy / idle
  close listener / periodic flush.

  hydra.go   SummonSwamp      hands out the mapped instance unless `IsClosing()` (which also touches
                              lastInteractionTime); waits for a closing instance to disappear; creates a
                              fresh instance (loading the file) when none is mapped
  gateway.go handlers         SummonSwamp … BeginVigil … work … CeaseVigil     (two separate steps)
  swamp.go   DeleteTreasure / CloneAndDelete…   `Count() == 0` → CeaseVigil; Destroy()
             Destroy          closing := 1; once: WaitForActiveVigilsClosed; chronicler.Destroy (file gone); callback
             startCloseListener   reads lastInteractionTime, *then* takes closeWriteMutex and decides from that value,
                              no active vigil, not closing → Close()
             Close            closing := 1; flush; chronicler.Close; callback (instance leaves the map)

  One instance generation is mapped at a time (`gen`, `live`); request threads remember the generation
  they were handed, so a write into an instance that has been closed or destroyed meanwhile is still
  acknowledged (ghost `acked`) but reaches neither the memory of a live instance nor the file.
  Keys are numbers; `file = []` also stands for "no file".
-/
import Hv.Basic.LTS

namespace Hv.Life

structure Cfg where
  /-- the auto-destroy re-checks emptiness after the vigil drain and closes the swamp instead when a record appeared -/
  destroyRechecks : Bool
  /-- handing out an instance and taking the vigil are one step under the lock that also covers the
      listener's idle decision and the `closing` flip (so the decision sees every touch) -/
  atomicSummon : Bool
  /-- SummonSwamp waits until a closing instance has left the swamp map (it looks at the map again after
      `WaitForGracefulClose`); `false`: once the closing instance has flushed, a fresh instance is created and mapped
      while the old one's close callback — which removes the map entry by name — is still to come -/
  summonWaitsForUnmap : Bool := true
  /-- GracefulStop returns (and the process exits) only when no instance is mapped any more -/
  stopWaitsUntilClosed : Bool := true
  /-- a request gives its vigil back exactly once; `false`: a delete that empties the swamp calls CeaseVigil before
      Destroy and the handler's deferred CeaseVigil runs again — when Destroy returns at once because somebody else
      is already destroying, the instance's counter has lost one vigil that belongs to another request -/
  ceasesOnce : Bool := true
  deriving DecidableEq, Repr

structure TSt where
  pc : Nat          -- 0 idle, 1 holds an instance (no vigil yet), 2 vigil held, 3 done, 4 inside Destroy (draining)
  gen : Nat
  deriving DecidableEq, Repr

structure St where
  gen : Nat
  live : Bool
  closing : Bool
  /-- 0 open, 1 Close has flipped `closing`, 2 Close has flushed -/
  stage : Nat
  destroying : Bool
  holders : List Nat
  mem : List Nat
  file : List Nat
  /-- ghost: keys whose insert was acknowledged and that no acknowledged delete removed since -/
  acked : List Nat
  th : Nat → TSt
  /-- listener: a stale "idle long enough" reading is in hand -/
  armed : Bool
  /-- an interaction (summon's IsClosing touch) happened after that reading -/
  touched : Bool
  /-- the close callback of an instance that is no longer the mapped one is still to come -/
  unmapPending : Bool := false
  /-- the vigil counter is an integer: `holders.length - debt` (a surplus CeaseVigil is a debt) -/
  debt : Nat := 0

inductive Act where
  | summon (t : Nat)
  | begin (t : Nat)
  | write (t k : Nat)
  | del (t k : Nat)
  | cease (t : Nat)
  | destroyFinish (t : Nat)
  | tickRead
  | tickDecide
  | closeFlush
  | closeDone
  | flushTick
  /-- the late close callback of a replaced instance: removes whatever is mapped under the name -/
  | staleUnmap
  /-- GracefulStop has returned and the process exits: whatever is only in memory is gone -/
  | exit
  deriving DecidableEq, Repr

def init (file : List Nat) : St :=
  { gen := 0, live := false, closing := false, stage := 0, destroying := false, holders := [], mem := [], file := file,
    acked := file, th := fun _ => { pc := 0, gen := 0 }, armed := false, touched := false }

def setT (f : Nat → TSt) (t : Nat) (v : TSt) : Nat → TSt := fun u => if u = t then v else f u

/-- the thread still talks to the mapped, not yet flushed instance -/
def current (s : St) (t : Nat) : Bool := s.live && (s.th t).gen == s.gen && s.stage < 2

/-- `HasActiveVigils()` is false: the counter is not positive -/
def quiet (s : St) : Bool := decide (s.holders.length ≤ s.debt)

theorem quiet_zero (s : St) (h : s.debt = 0) : quiet s = s.holders.isEmpty := by
  unfold quiet; rw [h]; cases s.holders <;> simp

def step (cfg : Cfg) (s : St) : Act → Option St
  | .summon t =>
    if (s.th t).pc != 0 then none else
    let npc := if cfg.atomicSummon then 2 else 1
    if s.live then
      if s.closing then
        -- waits for the closing instance to go away; the defective summon only waits for its flush
        if !cfg.summonWaitsForUnmap && s.stage == 2 then
          some { s with gen := s.gen + 1, closing := false, stage := 0, destroying := false,
                        holders := if cfg.atomicSummon then [t] else [], mem := s.file,
                        th := setT s.th t { pc := npc, gen := s.gen + 1 }, touched := true, unmapPending := true }
        else none
      else some { s with th := setT s.th t { pc := npc, gen := s.gen }, touched := true,
                         holders := if cfg.atomicSummon then s.holders ++ [t] else s.holders }
    else
      some { s with gen := s.gen + 1, live := true, closing := false, stage := 0, destroying := false,
                    holders := if cfg.atomicSummon then [t] else [], mem := s.file,
                    th := setT s.th t { pc := npc, gen := s.gen + 1 }, touched := true }
  | .begin t =>
    if (s.th t).pc != 1 then none else
    some { s with th := setT s.th t { s.th t with pc := 2 },
                  holders := if (s.th t).gen == s.gen && s.live then s.holders ++ [t] else s.holders }
  | .write t k =>
    if (s.th t).pc != 2 then none else
    some { s with acked := if s.acked.contains k then s.acked else s.acked ++ [k],
                  mem := if current s t && !s.mem.contains k then s.mem ++ [k] else s.mem }
  | .del t k =>
    if (s.th t).pc != 2 then none else
    if !(current s t) || !s.mem.contains k then some s      -- NOT_FOUND
    else
      let mem' := s.mem.filter (· != k)
      let s1 := { s with mem := mem', acked := s.acked.filter (· != k) }
      if mem'.isEmpty then
        -- last record: CeaseVigil; Destroy()
        if s.destroying then some { s1 with holders := s.holders.filter (· != t), th := setT s.th t { s.th t with pc := 3 },
                                            debt := if cfg.ceasesOnce then s.debt else s.debt + 1 }
        else some { s1 with holders := s.holders.filter (· != t), closing := true, destroying := true,
                            th := setT s.th t { s.th t with pc := 4 } }
      else some s1
  | .cease t =>
    if (s.th t).pc != 2 then none else
    some { s with th := setT s.th t { s.th t with pc := 3 },
                  holders := if (s.th t).gen == s.gen && s.live then s.holders.filter (· != t) else s.holders }
  | .destroyFinish t =>
    if (s.th t).pc != 4 then none else
    if !quiet s then none      -- WaitForActiveVigilsClosed
    else if cfg.destroyRechecks && !s.mem.isEmpty then
      -- not empty any more: close (flush + unmap) instead of deleting; `closing` stays set
      some { s with stage := 1, destroying := false, th := setT s.th t { s.th t with pc := 3 } }
    else
      some { s with file := [], live := false, th := setT s.th t { s.th t with pc := 3 } }
  | .tickRead => some { s with armed := true, touched := false }
  | .tickDecide =>
    if !s.armed then none else
    if s.live && quiet s && !s.closing && (!cfg.atomicSummon || !s.touched) then
      some { s with armed := false, closing := true, stage := 1 }
    else some { s with armed := false }
  | .closeFlush =>
    if s.live && s.stage == 1 then some { s with file := s.mem, stage := 2 } else none
  | .closeDone =>
    if s.live && s.stage == 2 then some { s with live := false } else none
  | .flushTick =>
    if s.live && !s.closing && s.stage == 0 then some { s with file := s.mem } else none
  | .staleUnmap =>
    if s.live && s.unmapPending then some { s with live := false, unmapPending := false } else none
  | .exit =>
    if cfg.stopWaitsUntilClosed && s.live then none else some { s with live := false }

abbrev run (cfg : Cfg) := LTS.run (step cfg)

/-- every acknowledged, not deleted write is where a re-open will find it: in the memory of the
    mapped instance that still has its flush ahead, or in the file -/
def Durable (s : St) : Prop :=
  (s.live = true ∧ s.stage < 2 → ∀ k ∈ s.acked, k ∈ s.mem) ∧
  (¬ (s.live = true ∧ s.stage < 2) → ∀ k ∈ s.acked, k ∈ s.file)

end Hv.Life
