/-
  Invariants of the read-modify-write LTS (well-formed body shape), for an arbitrary guard
  configuration: the ghost bookkeeping `KInv` holds for every guard; the value invariant
  `VInv` is inductive as soon as the guard is exclusive (at most one believing holder in every
  reachable guard state).  Property theorems are in `Hv/Props/C09.lean`.
-/
import Hv.Conc.Linearize
import Hv.Conc.GuardLemmas

namespace Hv.Lin
open Hv.Guard

/-! ### shape of the two guard operations, for any guard configuration -/

theorem enqueue_nextSid (g : Guard.St) : (enqueue g).nextSid = g.nextSid + 1 := rfl

theorem enqueue_queue (g : Guard.St) : (enqueue g).queue = g.queue ++ [(g.counter + 1, g.nextSid + 1)] := rfl

theorem enqueue_grants (g : Guard.St) :
    (enqueue g).grants = if g.queue.isEmpty then g.grants ++ [g.nextSid + 1] else g.grants := rfl

theorem enqueue_holders (g : Guard.St) :
    (enqueue g).holders = if g.queue.isEmpty then g.holders ++ [g.nextSid + 1] else g.holders := rfl

/-- what a session's release can do to the ghost state: drop the caller from `holders`, and
    possibly grant the next queued session -/
theorem releaseId_shape (gc : Guard.Cfg) (g : Guard.St) (id sid : Nat) :
    (releaseId gc g id (some sid)).nextSid = g.nextSid ∧
    (∀ p ∈ (releaseId gc g id (some sid)).queue, p ∈ g.queue) ∧
    (((releaseId gc g id (some sid)).grants = g.grants ∧
      (releaseId gc g id (some sid)).holders = g.holders.filter (· != sid)) ∨
     (∃ p ∈ g.queue, (releaseId gc g id (some sid)).grants = g.grants ++ [p.2] ∧
      (releaseId gc g id (some sid)).holders = g.holders.filter (· != sid) ++ [p.2])) := by
  cases hq : g.queue with
  | nil => simp [releaseId, hq]
  | cons x rest =>
    obtain ⟨h0, hs0⟩ := x
    by_cases heq : h0 = id
    · cases hr : rest with
      | nil => simp [releaseId, hq, heq, hr]
      | cons y ys =>
        subst hr
        refine ⟨by simp [releaseId, hq, heq], ?_, Or.inr ⟨y, by simp, ?_, ?_⟩⟩
        · intro p hp
          try dsimp only at hp
          have : (releaseId gc g id (some sid)).queue = y :: ys := by simp [releaseId, hq, heq]
          rw [this] at hp; exact List.mem_cons_of_mem _ hp
        · simp [releaseId, hq, heq]
        · simp [releaseId, hq, heq]
    · simp [releaseId, hq, heq]

theorem release_some (cfg : Cfg) (g g' : Guard.St) (sid : Nat) (h : release cfg g sid = some g') :
    ∃ id, g' = releaseId cfg.guard g id (some sid) := by
  simp only [release, Guard.step] at h
  cases hid : idOf g sid with
  | none => simp [hid] at h
  | some id =>
    simp only [hid] at h
    split at h
    · simp at h
    · simp at h; exact ⟨id, h.symm⟩

theorem mem_of_length_le_one {α : Type} (l : List α) (h : l.length ≤ 1) (a b : α) (ha : a ∈ l) (hb : b ∈ l) :
    a = b := by
  cases l with
  | nil => simp at ha
  | cons x xs =>
    cases xs with
    | nil => simp at ha hb; rw [ha, hb]
    | cons y ys => simp at h

/-! ### ghost bookkeeping -/

def wf (gc : Guard.Cfg) (ris : Bool) : Cfg := { guard := gc, releaseInSave := ris, shape := .guarded }

structure KInv (cfg : Cfg) (s : St) : Prop where
  gReach : ∃ gs, Guard.run cfg.guard Guard.init gs = some s.g
  grantsB : ∀ x ∈ s.g.grants, x ≤ s.g.nextSid
  queueB : ∀ p ∈ s.g.queue, p.2 ≤ s.g.nextSid
  sidB : ∀ t, 1 ≤ (s.th t).pc → (s.th t).sid ≤ s.g.nextSid ∧ 1 ≤ (s.th t).sid
  distinct : ∀ t u, 1 ≤ (s.th t).pc → 1 ≤ (s.th u).pc → (s.th t).sid = (s.th u).sid → t = u
  hold : ∀ t, (((s.th t).pc = 1 ∧ (s.th t).sid ∈ s.g.grants) ∨ (s.th t).pc = 2 ∨ (s.th t).pc = 3 ∨
               ((s.th t).pc = 4 ∧ cfg.releaseInSave = false)) → (s.th t).sid ∈ s.g.holders
  envB : ∀ x ∈ s.env, x ≤ s.g.nextSid ∧ ∀ t, 1 ≤ (s.th t).pc → (s.th t).sid ≠ x

theorem kinv_init (cfg : Cfg) (v : Int) : KInv cfg (init v) := by
  refine ⟨⟨[], rfl⟩, ?_, ?_, ?_, ?_, ?_, ?_⟩ <;> simp [init, Guard.init]

theorem greach_step (gc : Guard.Cfg) (g g' : Guard.St) (a : Guard.Act)
    (h : ∃ gs, Guard.run gc Guard.init gs = some g) (hs : Guard.step gc g a = some g') :
    ∃ gs, Guard.run gc Guard.init gs = some g' := by
  obtain ⟨gs, hg⟩ := h
  refine ⟨gs ++ [a], ?_⟩
  show LTS.run (Guard.step gc) Guard.init (gs ++ [a]) = some g'
  rw [LTS.run_append]
  have : LTS.run (Guard.step gc) Guard.init gs = some g := hg
  rw [this]; simp [LTS.run, hs]

/-- the release performed by thread `t` (whose pc becomes `npc`, outside the "holding" range) -/
theorem kinv_release (cfg : Cfg) (s : St) (t : Nat) (g' : Guard.St) (nts : TSt) (clk : Nat)
    (k : KInv cfg s) (hpc : 1 ≤ (s.th t).pc) (hrel : release cfg s.g (s.th t).sid = some g')
    (hsid : nts.sid = (s.th t).sid) (hn1 : 1 ≤ nts.pc)
    (hout : ¬ ((nts.pc = 1 ∧ nts.sid ∈ g'.grants) ∨ nts.pc = 2 ∨ nts.pc = 3 ∨ (nts.pc = 4 ∧ cfg.releaseInSave = false))) :
    KInv cfg { s with g := g', th := setT s.th t nts, clock := clk } := by
  obtain ⟨id, hid⟩ := release_some cfg s.g g' _ hrel
  have hsh := releaseId_shape cfg.guard s.g id (s.th t).sid
  rw [← hid] at hsh
  obtain ⟨hns, hqs, hgh⟩ := hsh
  have hth : ∀ u, u ≠ t → setT s.th t nts u = s.th u := by intro u hu; simp [setT, hu]
  have htt : setT s.th t nts t = nts := by simp [setT]
  refine ⟨?_, ?_, ?_, ?_, ?_, ?_, ?_⟩
  · exact greach_step cfg.guard s.g g' _ k.gReach hrel
  · intro x hx
    try dsimp only at hx
    show x ≤ g'.nextSid
    rw [hns]
    rcases hgh with ⟨hg, _⟩ | ⟨p, hp, hg, _⟩
    · rw [hg] at hx; exact k.grantsB x hx
    · rw [hg] at hx
      rcases List.mem_append.mp hx with hx | hx
      · exact k.grantsB x hx
      · simp at hx; subst hx; exact k.queueB p hp
  · intro p hp
    try dsimp only at hp
    show p.2 ≤ g'.nextSid
    rw [hns]; exact k.queueB p (hqs p hp)
  · intro u hu
    try dsimp only at hu
    show (setT s.th t nts u).sid ≤ g'.nextSid ∧ 1 ≤ (setT s.th t nts u).sid
    rw [hns]
    by_cases hut : u = t
    · subst hut; rw [htt, hsid]; exact k.sidB u hpc
    · rw [hth u hut] at hu ⊢; exact k.sidB u hu
  · intro u w hu hw he
    try dsimp only at hu hw he
    have hu' : 1 ≤ (s.th u).pc := by
      by_cases h : u = t
      · subst h; exact hpc
      · rw [show setT s.th t nts u = s.th u from hth u h] at hu; exact hu
    have hw' : 1 ≤ (s.th w).pc := by
      by_cases h : w = t
      · subst h; exact hpc
      · rw [show setT s.th t nts w = s.th w from hth w h] at hw; exact hw
    have he' : (s.th u).sid = (s.th w).sid := by
      have a : (setT s.th t nts u).sid = (s.th u).sid := by
        by_cases h : u = t
        · subst h; rw [htt, hsid]
        · rw [hth u h]
      have b : (setT s.th t nts w).sid = (s.th w).sid := by
        by_cases h : w = t
        · subst h; rw [htt, hsid]
        · rw [hth w h]
      have he2 : (setT s.th t nts u).sid = (setT s.th t nts w).sid := he
      rw [a, b] at he2; exact he2
    exact k.distinct u w hu' hw' he'
  · intro u hu
    try dsimp only at hu
    by_cases hut : u = t
    · subst hut
      have : setT s.th u nts u = nts := htt
      simp only [this] at hu
      exact absurd hu hout
    · have hth' : setT s.th t nts u = s.th u := hth u hut
      simp only [hth'] at hu ⊢
      show (s.th u).sid ∈ g'.holders
      have hne : (s.th u).sid ≠ (s.th t).sid := by
        intro e
        have hu1 : 1 ≤ (s.th u).pc := by
          rcases hu with ⟨h, _⟩ | h | h | ⟨h, _⟩ <;> omega
        exact hut (k.distinct u t hu1 hpc e)
      have keep : (s.th u).sid ∈ s.g.holders → (s.th u).sid ∈ s.g.holders.filter (· != (s.th t).sid) := by
        intro hm; simp [List.mem_filter, hm, hne]
      rcases hgh with ⟨hg, hh⟩ | ⟨p, hp, hg, hh⟩
      · rw [hh]; apply keep
        apply k.hold u
        rcases hu with ⟨h, hm⟩ | h | h | h
        · exact Or.inl ⟨h, by rw [hg] at hm; exact hm⟩
        · exact Or.inr (Or.inl h)
        · exact Or.inr (Or.inr (Or.inl h))
        · exact Or.inr (Or.inr (Or.inr h))
      · rw [hh]
        rcases hu with ⟨h, hm⟩ | h | h | h
        · rw [hg] at hm
          rcases List.mem_append.mp hm with hm | hm
          · exact List.mem_append_left _ (keep (k.hold u (Or.inl ⟨h, hm⟩)))
          · exact List.mem_append_right _ hm
        · exact List.mem_append_left _ (keep (k.hold u (Or.inr (Or.inl h))))
        · exact List.mem_append_left _ (keep (k.hold u (Or.inr (Or.inr (Or.inl h)))))
        · exact List.mem_append_left _ (keep (k.hold u (Or.inr (Or.inr (Or.inr h)))))
  · intro x hx
    have hx' : x ∈ s.env := hx
    refine ⟨by show x ≤ g'.nextSid; rw [hns]; exact (k.envB x hx').1, ?_⟩
    intro u hu
    show (setT s.th t nts u).sid ≠ x
    by_cases hut : u = t
    · subst hut; rw [htt, hsid]; exact (k.envB x hx').2 u hpc
    · have hu2 : 1 ≤ (setT s.th t nts u).pc := hu
      rw [hth u hut] at hu2 ⊢; exact (k.envB x hx').2 u hu2

/-- a step of thread `t` that leaves the guard alone and keeps its session id -/
theorem kinv_local (cfg : Cfg) (s : St) (t : Nat) (nts : TSt) (clk : Nat) (val : Int) (log : List Entry)
    (k : KInv cfg s) (hpc : 1 ≤ (s.th t).pc) (hsid : nts.sid = (s.th t).sid) (hn1 : 1 ≤ nts.pc)
    (hin : ((nts.pc = 1 ∧ nts.sid ∈ s.g.grants) ∨ nts.pc = 2 ∨ nts.pc = 3 ∨ (nts.pc = 4 ∧ cfg.releaseInSave = false)) →
            (s.th t).sid ∈ s.g.holders) :
    KInv cfg { s with val := val, th := setT s.th t nts, log := log, clock := clk } := by
  have hth : ∀ u, u ≠ t → setT s.th t nts u = s.th u := by intro u hu; simp [setT, hu]
  have htt : setT s.th t nts t = nts := by simp [setT]
  refine ⟨k.gReach, k.grantsB, k.queueB, ?_, ?_, ?_, ?_⟩
  · intro u hu
    try dsimp only at hu
    show (setT s.th t nts u).sid ≤ s.g.nextSid ∧ 1 ≤ (setT s.th t nts u).sid
    by_cases hut : u = t
    · subst hut; rw [htt, hsid]; exact k.sidB u hpc
    · rw [hth u hut] at hu ⊢; exact k.sidB u hu
  · intro u w hu hw he
    try dsimp only at hu hw he
    have hu' : 1 ≤ (s.th u).pc := by
      by_cases h : u = t
      · subst h; exact hpc
      · rw [show setT s.th t nts u = s.th u from hth u h] at hu; exact hu
    have hw' : 1 ≤ (s.th w).pc := by
      by_cases h : w = t
      · subst h; exact hpc
      · rw [show setT s.th t nts w = s.th w from hth w h] at hw; exact hw
    have a : (setT s.th t nts u).sid = (s.th u).sid := by
      by_cases h : u = t
      · subst h; rw [htt, hsid]
      · rw [hth u h]
    have b : (setT s.th t nts w).sid = (s.th w).sid := by
      by_cases h : w = t
      · subst h; rw [htt, hsid]
      · rw [hth w h]
    have he2 : (setT s.th t nts u).sid = (setT s.th t nts w).sid := he
    rw [a, b] at he2
    exact k.distinct u w hu' hw' he2
  · intro u hu
    try dsimp only at hu
    by_cases hut : u = t
    · subst hut
      have : setT s.th u nts u = nts := htt
      simp only [this] at hu ⊢
      rw [hsid]; exact hin hu
    · have hth' : setT s.th t nts u = s.th u := hth u hut
      simp only [hth'] at hu ⊢
      exact k.hold u hu
  · intro x hx
    have hx' : x ∈ s.env := hx
    refine ⟨(k.envB x hx').1, ?_⟩
    intro u hu
    show (setT s.th t nts u).sid ≠ x
    by_cases hut : u = t
    · subst hut; rw [htt, hsid]; exact (k.envB x hx').2 u hpc
    · have hu2 : 1 ≤ (setT s.th t nts u).pc := hu
      rw [hth u hut] at hu2 ⊢; exact (k.envB x hx').2 u hu2

theorem kinv_enqueue (cfg : Cfg) (s : St) (t : Nat) (nts : TSt) (clk : Nat)
    (k : KInv cfg s) (hpc : (s.th t).pc = 0) (hsid : nts.sid = s.g.nextSid + 1) (hn : nts.pc = 1) :
    KInv cfg { s with g := enqueue s.g, th := setT s.th t nts, clock := clk } := by
  have hth : ∀ u, u ≠ t → setT s.th t nts u = s.th u := by intro u hu; simp [setT, hu]
  have htt : setT s.th t nts t = nts := by simp [setT]
  have hold1 : ∀ u, u ≠ t → 1 ≤ (s.th u).pc → (s.th u).sid ≠ s.g.nextSid + 1 := by
    intro u _ hu; have := (k.sidB u hu).1; omega
  refine ⟨?_, ?_, ?_, ?_, ?_, ?_, ?_⟩
  · exact greach_step cfg.guard s.g _ .startWait k.gReach (by simp [Guard.step])
  · intro x hx
    try dsimp only at hx
    show x ≤ (enqueue s.g).nextSid
    rw [enqueue_nextSid]
    have hx' : x ∈ (enqueue s.g).grants := hx
    rw [enqueue_grants] at hx'
    split at hx'
    · rcases List.mem_append.mp hx' with h | h
      · have := k.grantsB x h; omega
      · simp at h; omega
    · have := k.grantsB x hx'; omega
  · intro p hp
    try dsimp only at hp
    show p.2 ≤ (enqueue s.g).nextSid
    rw [enqueue_nextSid]
    have hp' : p ∈ (enqueue s.g).queue := hp
    rw [enqueue_queue] at hp'
    rcases List.mem_append.mp hp' with h | h
    · have := k.queueB p h; omega
    · simp at h; subst h; simp
  · intro u hu
    try dsimp only at hu
    show (setT s.th t nts u).sid ≤ (enqueue s.g).nextSid ∧ 1 ≤ (setT s.th t nts u).sid
    rw [enqueue_nextSid]
    by_cases hut : u = t
    · subst hut; rw [htt, hsid]; omega
    · rw [hth u hut] at hu ⊢; have := k.sidB u hu; omega
  · intro u w hu hw he
    try dsimp only at hu hw he
    have he2 : (setT s.th t nts u).sid = (setT s.th t nts w).sid := he
    by_cases hut : u = t
    · by_cases hwt : w = t
      · rw [hut, hwt]
      · exfalso
        rw [hut, htt, hsid, hth w hwt] at he2
        rw [show setT s.th t nts w = s.th w from hth w hwt] at hw
        exact hold1 w hwt hw he2.symm
    · by_cases hwt : w = t
      · exfalso
        rw [hwt, htt, hsid, hth u hut] at he2
        rw [show setT s.th t nts u = s.th u from hth u hut] at hu
        exact hold1 u hut hu he2
      · rw [hth u hut, hth w hwt] at he2
        rw [show setT s.th t nts u = s.th u from hth u hut] at hu
        rw [show setT s.th t nts w = s.th w from hth w hwt] at hw
        exact k.distinct u w hu hw he2
  · intro u hu
    try dsimp only at hu
    show (setT s.th t nts u).sid ∈ (enqueue s.g).holders
    rw [enqueue_holders]
    by_cases hut : u = t
    · subst hut
      have e : setT s.th u nts u = nts := htt
      simp only [e] at hu ⊢
      rcases hu with ⟨_, hm⟩ | h | h | ⟨h, _⟩
      · have hm' : nts.sid ∈ (enqueue s.g).grants := hm
        rw [enqueue_grants] at hm'
        split at hm'
        · rename_i hemp
          simp [hsid, hemp]
        · exfalso; have := k.grantsB _ hm'; omega
      · omega
      · omega
      · omega
    · have hth' : setT s.th t nts u = s.th u := hth u hut
      simp only [hth'] at hu ⊢
      have hmem : (s.th u).sid ∈ s.g.holders := by
        apply k.hold u
        rcases hu with ⟨h, hm⟩ | h | h | h
        · have hm' : (s.th u).sid ∈ (enqueue s.g).grants := hm
          rw [enqueue_grants] at hm'
          split at hm'
          · rcases List.mem_append.mp hm' with h2 | h2
            · exact Or.inl ⟨h, h2⟩
            · simp at h2; exact absurd h2 (hold1 u hut (by omega))
          · exact Or.inl ⟨h, hm'⟩
        · exact Or.inr (Or.inl h)
        · exact Or.inr (Or.inr (Or.inl h))
        · exact Or.inr (Or.inr (Or.inr h))
      split
      · exact List.mem_append_left _ hmem
      · exact hmem
  · intro x hx
    have hx' : x ∈ s.env := hx
    refine ⟨by show x ≤ (enqueue s.g).nextSid; rw [enqueue_nextSid]; have := (k.envB x hx').1; omega, ?_⟩
    intro u hu
    show (setT s.th t nts u).sid ≠ x
    by_cases hut : u = t
    · subst hut; rw [htt, hsid]; have := (k.envB x hx').1; omega
    · have hu2 : 1 ≤ (setT s.th t nts u).pc := hu
      rw [hth u hut] at hu2 ⊢; exact (k.envB x hx').2 u hu2

/-- an environment client enqueues -/
theorem kinv_env_start (cfg : Cfg) (s : St) (clk : Nat) (k : KInv cfg s) :
    KInv cfg { s with g := enqueue s.g, env := s.env ++ [s.g.nextSid + 1], clock := clk } := by
  have fresh : ∀ u, 1 ≤ (s.th u).pc → (s.th u).sid ≠ s.g.nextSid + 1 := by
    intro u hu; have := (k.sidB u hu).1; omega
  refine ⟨?_, ?_, ?_, ?_, k.distinct, ?_, ?_⟩
  · exact greach_step cfg.guard s.g _ .startWait k.gReach (by simp [Guard.step])
  · intro x hx
    show x ≤ (enqueue s.g).nextSid
    rw [enqueue_nextSid]
    have hx' : x ∈ (enqueue s.g).grants := hx
    rw [enqueue_grants] at hx'
    split at hx'
    · rcases List.mem_append.mp hx' with h | h
      · have := k.grantsB x h; omega
      · simp at h; omega
    · have := k.grantsB x hx'; omega
  · intro p hp
    show p.2 ≤ (enqueue s.g).nextSid
    rw [enqueue_nextSid]
    have hp' : p ∈ (enqueue s.g).queue := hp
    rw [enqueue_queue] at hp'
    rcases List.mem_append.mp hp' with h | h
    · have := k.queueB p h; omega
    · simp at h; subst h; simp
  · intro u hu
    show (s.th u).sid ≤ (enqueue s.g).nextSid ∧ 1 ≤ (s.th u).sid
    rw [enqueue_nextSid]; have := k.sidB u hu; omega
  · intro u hu
    show (s.th u).sid ∈ (enqueue s.g).holders
    rw [enqueue_holders]
    have hu' : (((s.th u).pc = 1 ∧ (s.th u).sid ∈ (enqueue s.g).grants) ∨ (s.th u).pc = 2 ∨ (s.th u).pc = 3 ∨
               ((s.th u).pc = 4 ∧ cfg.releaseInSave = false)) := hu
    have hmem : (s.th u).sid ∈ s.g.holders := by
      apply k.hold u
      rcases hu' with ⟨h, hm⟩ | h | h | h
      · rw [enqueue_grants] at hm
        split at hm
        · rcases List.mem_append.mp hm with h2 | h2
          · exact Or.inl ⟨h, h2⟩
          · simp at h2; exact absurd h2 (fresh u (by omega))
        · exact Or.inl ⟨h, hm⟩
      · exact Or.inr (Or.inl h)
      · exact Or.inr (Or.inr (Or.inl h))
      · exact Or.inr (Or.inr (Or.inr h))
    split
    · exact List.mem_append_left _ hmem
    · exact hmem
  · intro x hx
    have hx' : x ∈ s.env ++ [s.g.nextSid + 1] := hx
    show x ≤ (enqueue s.g).nextSid ∧ ∀ t, 1 ≤ (s.th t).pc → (s.th t).sid ≠ x
    rw [enqueue_nextSid]
    rcases List.mem_append.mp hx' with h | h
    · exact ⟨by have := (k.envB x h).1; omega, (k.envB x h).2⟩
    · simp at h; subst h
      exact ⟨by omega, fresh⟩

/-- an environment session releases -/
theorem kinv_env_release (cfg : Cfg) (s : St) (sid : Nat) (g' : Guard.St) (clk : Nat) (k : KInv cfg s)
    (hin : sid ∈ s.env) (hrel : release cfg s.g sid = some g') :
    KInv cfg { s with g := g', clock := clk } := by
  obtain ⟨id, hid⟩ := release_some cfg s.g g' _ hrel
  have hsh := releaseId_shape cfg.guard s.g id sid
  rw [← hid] at hsh
  obtain ⟨hns, hqs, hgh⟩ := hsh
  have hne : ∀ u, 1 ≤ (s.th u).pc → (s.th u).sid ≠ sid := (k.envB sid hin).2
  refine ⟨?_, ?_, ?_, ?_, k.distinct, ?_, ?_⟩
  · exact greach_step cfg.guard s.g g' _ k.gReach hrel
  · intro x hx
    show x ≤ g'.nextSid
    rw [hns]
    have hx' : x ∈ g'.grants := hx
    rcases hgh with ⟨hg, _⟩ | ⟨p, hp, hg, _⟩
    · rw [hg] at hx'; exact k.grantsB x hx'
    · rw [hg] at hx'
      rcases List.mem_append.mp hx' with hx' | hx'
      · exact k.grantsB x hx'
      · simp at hx'; subst hx'; exact k.queueB p hp
  · intro p hp
    show p.2 ≤ g'.nextSid
    rw [hns]; exact k.queueB p (hqs p hp)
  · intro u hu
    show (s.th u).sid ≤ g'.nextSid ∧ 1 ≤ (s.th u).sid
    rw [hns]; exact k.sidB u hu
  · intro u hu
    show (s.th u).sid ∈ g'.holders
    have hu' : (((s.th u).pc = 1 ∧ (s.th u).sid ∈ g'.grants) ∨ (s.th u).pc = 2 ∨ (s.th u).pc = 3 ∨
               ((s.th u).pc = 4 ∧ cfg.releaseInSave = false)) := hu
    have hu1 : 1 ≤ (s.th u).pc := by rcases hu' with ⟨h, _⟩ | h | h | ⟨h, _⟩ <;> omega
    have keep : (s.th u).sid ∈ s.g.holders → (s.th u).sid ∈ s.g.holders.filter (· != sid) := by
      intro hm; simp [List.mem_filter, hm, hne u hu1]
    rcases hgh with ⟨hg, hh⟩ | ⟨p, hp, hg, hh⟩
    · rw [hh]; apply keep
      apply k.hold u
      rcases hu' with ⟨h, hm⟩ | h | h | h
      · exact Or.inl ⟨h, by rw [hg] at hm; exact hm⟩
      · exact Or.inr (Or.inl h)
      · exact Or.inr (Or.inr (Or.inl h))
      · exact Or.inr (Or.inr (Or.inr h))
    · rw [hh]
      rcases hu' with ⟨h, hm⟩ | h | h | h
      · rw [hg] at hm
        rcases List.mem_append.mp hm with hm | hm
        · exact List.mem_append_left _ (keep (k.hold u (Or.inl ⟨h, hm⟩)))
        · exact List.mem_append_right _ hm
      · exact List.mem_append_left _ (keep (k.hold u (Or.inr (Or.inl h))))
      · exact List.mem_append_left _ (keep (k.hold u (Or.inr (Or.inr (Or.inl h)))))
      · exact List.mem_append_left _ (keep (k.hold u (Or.inr (Or.inr (Or.inr h)))))
  · intro x hx
    have hx' : x ∈ s.env := hx
    exact ⟨by show x ≤ g'.nextSid; rw [hns]; exact (k.envB x hx').1, (k.envB x hx').2⟩

theorem kinv_step_th (cfg : Cfg) (hsh : cfg.shape = .guarded) (op : Nat → Int → Int) (s : St) (t : Nat) (s' : St)
    (k : KInv cfg s) (hs : stepTh cfg op s t = some s') : KInv cfg s' := by
  simp only [stepTh, hsh, stepGuarded] at hs
  split at hs
  · rename_i hpc
    simp at hs; subst hs
    exact kinv_enqueue cfg s t _ _ k hpc rfl rfl
  · rename_i hpc
    split at hs
    · rename_i hgr
      simp at hs; subst hs
      have hm : (s.th t).sid ∈ s.g.grants := by simpa using hgr
      exact kinv_local cfg s t _ _ s.val s.log k (by omega) rfl (by simp)
        (fun _ => k.hold t (Or.inl ⟨hpc, hm⟩))
    · simp at hs
  · rename_i hpc
    simp at hs; subst hs
    exact kinv_local cfg s t _ _ _ _ k (by omega) rfl (by simp)
      (fun _ => k.hold t (Or.inr (Or.inl hpc)))
  · rename_i hpc
    split at hs
    · rename_i hris
      cases hr : release cfg s.g (s.th t).sid with
      | none => simp [hr] at hs
      | some g' =>
        simp [hr] at hs; subst hs
        exact kinv_release cfg s t g' _ _ k (by omega) hr rfl (by simp) (by simp [hris])
    · rename_i hris
      simp at hs; subst hs
      exact kinv_local cfg s t _ _ s.val s.log k (by omega) rfl (by simp)
        (fun _ => k.hold t (Or.inr (Or.inr (Or.inl hpc))))
  · rename_i hpc
    cases hr : release cfg s.g (s.th t).sid with
    | none => simp [hr] at hs
    | some g' =>
      simp [hr] at hs; subst hs
      exact kinv_release cfg s t g' _ _ k (by omega) hr rfl (by simp) (by simp)
  · simp at hs

theorem kinv_step (cfg : Cfg) (hsh : cfg.shape = .guarded) (op : Nat → Int → Int) (s : St) (a : Act) (s' : St)
    (k : KInv cfg s) (hs : step cfg op s a = some s') : KInv cfg s' := by
  cases a with
  | th t => exact kinv_step_th cfg hsh op s t s' k hs
  | envStart =>
    simp only [step] at hs; simp at hs; subst hs
    exact kinv_env_start cfg s _ k
  | envRelease sid =>
    simp only [step] at hs
    split at hs
    · rename_i hin
      cases hr : release cfg s.g sid with
      | none => simp [hr] at hs
      | some g' =>
        simp [hr] at hs; subst hs
        exact kinv_env_release cfg s sid g' _ k (by simpa using hin) hr
    · simp at hs

/-- Mutual exclusion of the critical sections, from an exclusive guard. -/
theorem excl (cfg : Cfg) (s : St) (k : KInv cfg s)
    (hex : ∀ gs g, Guard.run cfg.guard Guard.init gs = some g → g.holders.length ≤ 1)
    (t u : Nat) (ht : (s.th t).pc = 2 ∨ (s.th t).pc = 3) (hu : (s.th u).pc = 2 ∨ (s.th u).pc = 3) : t = u := by
  obtain ⟨gs, hg⟩ := k.gReach
  have hl := hex gs s.g hg
  have h1 : (s.th t).sid ∈ s.g.holders := k.hold t (by rcases ht with h | h <;> simp [h])
  have h2 : (s.th u).sid ∈ s.g.holders := k.hold u (by rcases hu with h | h <;> simp [h])
  have := mem_of_length_le_one _ hl _ _ h1 h2
  exact k.distinct t u (by rcases ht with h | h <;> omega) (by rcases hu with h | h <;> omega) this

/-! ### the value invariant -/

theorem replay_append (op : Nat → Int → Int) (v : Int) (l : List Entry) (e : Entry) :
    replay op v (l ++ [e]) = (replay op v l).bind (fun w => if op e.tid w = e.resp then some e.resp else none) := by
  induction l generalizing v with
  | nil => simp [replay]
  | cons x xs ih =>
    simp only [List.cons_append, replay]
    split
    · exact ih _
    · rfl

structure VInv (op : Nat → Int → Int) (v0 : Int) (s : St) : Prop where
  loc : ∀ t, (s.th t).pc = 2 → (s.th t).loc = s.val
  legal : replay op v0 s.log = some s.val
  logged : ∀ e ∈ s.log, 3 ≤ (s.th e.tid).pc ∧ (s.th e.tid).sid = e.sid ∧ (s.th e.tid).inv < e.ts ∧ e.ts ≤ s.clock ∧
             ((s.th e.tid).pc = 5 → e.ts < (s.th e.tid).ack)
  complete : ∀ t, 3 ≤ (s.th t).pc → ∃ e ∈ s.log, e.tid = t
  sorted : s.log.Pairwise (fun a b => a.ts < b.ts ∧ a.tid ≠ b.tid)
  invB : ∀ t, 1 ≤ (s.th t).pc → (s.th t).inv ≤ s.clock

theorem vinv_init (op : Nat → Int → Int) (v : Int) : VInv op v (init v) := by
  refine ⟨?_, ?_, ?_, ?_, ?_, ?_⟩ <;> simp [init, replay]

/-- a step of `t` that changes neither the value nor the log, nor `t`'s invocation stamp,
    and does not move `t` into / out of the logged range -/
theorem vinv_quiet (op : Nat → Int → Int) (v0 : Int) (s : St) (t : Nat) (nts : TSt) (g' : Guard.St)
    (v : VInv op v0 s)
    (hloc : nts.pc = 2 → nts.loc = s.val)
    (hrange : 3 ≤ nts.pc ↔ 3 ≤ (s.th t).pc)
    (hsid : 3 ≤ (s.th t).pc → nts.sid = (s.th t).sid)
    (hinv : 3 ≤ (s.th t).pc → nts.inv = (s.th t).inv)
    (hack : nts.pc = 5 → (s.th t).pc ≠ 5 ∧ nts.ack = s.clock + 1)
    (hinvb : 1 ≤ nts.pc → nts.inv ≤ s.clock + 1) :
    VInv op v0 { s with g := g', th := setT s.th t nts, clock := s.clock + 1 } := by
  have hth : ∀ u, u ≠ t → setT s.th t nts u = s.th u := by intro u hu; simp [setT, hu]
  have htt : setT s.th t nts t = nts := by simp [setT]
  refine ⟨?_, v.legal, ?_, ?_, v.sorted, ?_⟩
  · intro u hu
    try dsimp only at hu
    show (setT s.th t nts u).loc = s.val
    by_cases hut : u = t
    · subst hut; rw [htt] at hu ⊢; exact hloc hu
    · rw [hth u hut] at hu ⊢; exact v.loc u hu
  · intro e he
    have := v.logged e he
    show 3 ≤ (setT s.th t nts e.tid).pc ∧ (setT s.th t nts e.tid).sid = e.sid ∧ (setT s.th t nts e.tid).inv < e.ts ∧
         e.ts ≤ s.clock + 1 ∧ ((setT s.th t nts e.tid).pc = 5 → e.ts < (setT s.th t nts e.tid).ack)
    by_cases hut : e.tid = t
    · rw [hut, htt]; rw [hut] at this
      obtain ⟨h1, h2, h3, h4, h5⟩ := this
      refine ⟨hrange.mpr h1, by rw [hsid h1]; exact h2, by rw [hinv h1]; exact h3, by omega, ?_⟩
      intro h
      have := hack h
      omega
    · rw [hth _ hut]
      obtain ⟨h1, h2, h3, h4, h5⟩ := this
      exact ⟨h1, h2, h3, by omega, h5⟩
  · intro u hu
    try dsimp only at hu
    have hu' : 3 ≤ (s.th u).pc := by
      by_cases hut : u = t
      · subst hut
        have : 3 ≤ nts.pc := by
          have e : setT s.th u nts u = nts := htt
          rw [e] at hu; exact hu
        exact hrange.mp this
      · rw [show setT s.th t nts u = s.th u from hth u hut] at hu; exact hu
    exact v.complete u hu'
  · intro u hu
    try dsimp only at hu
    show (setT s.th t nts u).inv ≤ s.clock + 1
    by_cases hut : u = t
    · subst hut; rw [htt] at hu ⊢; exact hinvb hu
    · rw [hth u hut] at hu ⊢; have := v.invB u hu; omega

theorem vinv_step_th (cfg : Cfg) (hsh : cfg.shape = .guarded) (op : Nat → Int → Int) (v0 : Int) (s : St) (t : Nat) (s' : St)
    (hex : ∀ gs g, Guard.run cfg.guard Guard.init gs = some g → g.holders.length ≤ 1)
    (k : KInv cfg s) (v : VInv op v0 s) (hs : stepTh cfg op s t = some s') : VInv op v0 s' := by
  simp only [stepTh, hsh, stepGuarded] at hs
  split at hs
  · rename_i hpc
    simp at hs; subst hs
    exact vinv_quiet op v0 s t _ _ v (by simp) (by simp [hpc]) (by omega) (by omega) (by simp) (by simp)
  · rename_i hpc
    split at hs
    · simp at hs; subst hs
      exact vinv_quiet op v0 s t _ s.g v (by simp) (by simp [hpc]) (by omega) (by omega) (by simp)
        (by intro _; have := v.invB t (by omega); simp; omega)
    · simp at hs
  · -- the write: the linearization point
    rename_i hpc
    simp at hs; subst hs
    have hth : ∀ u, u ≠ t → setT s.th t { s.th t with pc := 3 } u = s.th u := by intro u hu; simp [setT, hu]
    have htt : setT s.th t { s.th t with pc := 3 } t = { s.th t with pc := 3 } := by simp [setT]
    have hloc : (s.th t).loc = s.val := v.loc t hpc
    have hnot : ∀ e ∈ s.log, e.tid ≠ t := by
      intro e he h
      have := (v.logged e he).1; rw [h] at this; omega
    refine ⟨?_, ?_, ?_, ?_, ?_, ?_⟩
    · intro u hu
      try dsimp only at hu
      by_cases hut : u = t
      · subst hut
        have : (setT s.th u { s.th u with pc := 3 } u).pc = 3 := by rw [htt]
        have hu2 : (setT s.th u { s.th u with pc := 3 } u).pc = 2 := hu
        omega
      · exfalso
        have hu2 : (setT s.th t { s.th t with pc := 3 } u).pc = 2 := hu
        rw [hth u hut] at hu2
        exact hut (excl cfg s k hex u t (Or.inl hu2) (Or.inl hpc))
    · show replay op v0 (s.log ++ [_]) = some (op t (s.th t).loc)
      rw [replay_append, v.legal]; simp [hloc]
    · intro e he
      show 3 ≤ (setT s.th t { s.th t with pc := 3 } e.tid).pc ∧ (setT s.th t { s.th t with pc := 3 } e.tid).sid = e.sid ∧
        (setT s.th t { s.th t with pc := 3 } e.tid).inv < e.ts ∧ e.ts ≤ s.clock + 1 ∧
        ((setT s.th t { s.th t with pc := 3 } e.tid).pc = 5 → e.ts < (setT s.th t { s.th t with pc := 3 } e.tid).ack)
      have he' : e ∈ s.log ++ [{ tid := t, sid := (s.th t).sid, resp := op t (s.th t).loc, ts := s.clock + 1 }] := he
      rcases List.mem_append.mp he' with h | h
      · rw [hth _ (hnot e h)]
        obtain ⟨h1, h2, h3, h4, h5⟩ := v.logged e h
        exact ⟨h1, h2, h3, by omega, h5⟩
      · simp at h; subst h
        simp only [htt]
        have := v.invB t (by omega)
        refine ⟨by simp, by simp, ?_, by simp, by simp⟩
        show (s.th t).inv < s.clock + 1
        omega
    · intro u hu
      try dsimp only at hu
      by_cases hut : u = t
      · subst hut
        exact ⟨_, List.mem_append_right _ (List.mem_singleton.mpr rfl), rfl⟩
      · have hu2 : 3 ≤ (setT s.th t { s.th t with pc := 3 } u).pc := hu
        rw [hth u hut] at hu2
        obtain ⟨e, he, het⟩ := v.complete u hu2
        exact ⟨e, List.mem_append_left _ he, het⟩
    · show (s.log ++ [_]).Pairwise _
      rw [List.pairwise_append]
      refine ⟨v.sorted, by simp, ?_⟩
      intro a ha b hb
      simp at hb; subst hb
      have := (v.logged a ha).2.2.2.1
      exact ⟨by simp; omega, hnot a ha⟩
    · intro u hu
      try dsimp only at hu
      show (setT s.th t { s.th t with pc := 3 } u).inv ≤ s.clock + 1
      by_cases hut : u = t
      · subst hut; rw [htt]; have := v.invB u (by omega); simp; omega
      · have hu2 : 1 ≤ (setT s.th t { s.th t with pc := 3 } u).pc := hu
        rw [hth u hut] at hu2 ⊢; have := v.invB u hu2; omega
  · rename_i hpc
    split at hs
    · cases hr : release cfg s.g (s.th t).sid with
      | none => simp [hr] at hs
      | some g' =>
        simp [hr] at hs; subst hs
        exact vinv_quiet op v0 s t _ g' v (by simp) (by simp [hpc]) (by simp) (by simp) (by simp)
          (by intro _; have := v.invB t (by omega); simp; omega)
    · simp at hs; subst hs
      exact vinv_quiet op v0 s t _ s.g v (by simp) (by simp [hpc]) (by simp) (by simp) (by simp)
        (by intro _; have := v.invB t (by omega); simp; omega)
  · rename_i hpc
    cases hr : release cfg s.g (s.th t).sid with
    | none => simp [hr] at hs
    | some g' =>
      simp [hr] at hs; subst hs
      exact vinv_quiet op v0 s t _ g' v (by simp) (by simp [hpc]) (by simp) (by simp) (by simp [hpc])
        (by intro _; have := v.invB t (by omega); simp; omega)
  · simp at hs

/-- environment actions touch only the guard (and the clock) -/
theorem vinv_env (op : Nat → Int → Int) (v0 : Int) (s : St) (g' : Guard.St) (env : List Nat) (v : VInv op v0 s) :
    VInv op v0 { s with g := g', env := env, clock := s.clock + 1 } := by
  refine ⟨v.loc, v.legal, ?_, v.complete, v.sorted, ?_⟩
  · intro e he
    obtain ⟨h1, h2, h3, h4, h5⟩ := v.logged e he
    exact ⟨h1, h2, h3, by show e.ts ≤ s.clock + 1; omega, h5⟩
  · intro u hu
    have := v.invB u hu
    show (s.th u).inv ≤ s.clock + 1
    omega

theorem vinv_step (cfg : Cfg) (hsh : cfg.shape = .guarded) (op : Nat → Int → Int) (v0 : Int) (s : St) (a : Act) (s' : St)
    (hex : ∀ gs g, Guard.run cfg.guard Guard.init gs = some g → g.holders.length ≤ 1)
    (k : KInv cfg s) (v : VInv op v0 s) (hs : step cfg op s a = some s') : VInv op v0 s' := by
  cases a with
  | th t => exact vinv_step_th cfg hsh op v0 s t s' hex k v hs
  | envStart =>
    simp only [step] at hs; simp at hs; subst hs
    exact vinv_env op v0 s _ _ v
  | envRelease sid =>
    simp only [step] at hs
    split at hs
    · cases hr : release cfg s.g sid with
      | none => simp [hr] at hs
      | some g' =>
        simp [hr] at hs; subst hs
        exact vinv_env op v0 s g' s.env v
    · simp at hs

end Hv.Lin
