/-
  Claims on one swamp (C11): ShiftExpired / ShiftMatching (claim = take out and delete) and
  PatchExpired (claim in place: select → patch under the record guard → ReindexExpiration),
  interleaved with savers, patchers and deleters.

  beacon.go            ShiftExpired / ShiftMatching / SelectExpiredForPatchWithCap: one pass over the
                       ordered list under `b.mu.Lock()`, per record `counter < howMany && pred` → take
                       ReindexExpiration: under `b.mu.Lock()`: drop by key, append those with exp ≠ 0, sort
  gateway_shift_matching.go / gateway_patch_expired.go
                       build…Predicate: candidate key set from the bucket index *before* the selection;
                       the indexed leg itself is not evaluated again (only the residual is)
  swamp.go             CloneAndDelete…: after the selection pass (index entries removed, copies taken) one
                       deleteHandler call per selected record — a separate step per record (`shiftDel`);
                       other requests run in between
  swamp_patch_expired.go  applyPatchExpiredOne: void → KEY_NOT_FOUND, otherwise patch + Save
                       (Save of an object that is no longer under its key re-inserts it)

  Keys are numbers and are never re-created (`born`).  `index` is the expiration index (ascending
  by `exp`).  `persisted` is a run-time circumstance: deleting a record that has a file pointer
  clears its content and expiry, deleting a never-written record leaves the object untouched.
  `now` is fixed; expired = `exp ≠ 0 ∧ exp < now`.
-/
import Hv.Basic.LTS

namespace Hv.Claim

structure Cfg where
  /-- the selection pass runs under the beacon's write lock (one atomic step) -/
  selectAtomic : Bool
  /-- the pass uses `counter <= howMany` -/
  counterLe : Bool
  /-- the expired test includes `exp != 0` -/
  checksExpNonZero : Bool
  /-- the selection predicate evaluates the indexed filter leg on the record itself -/
  rechecksIndexedLeg : Bool
  /-- ReindexExpiration skips records that are no longer under their key -/
  reindexChecksExists : Bool
  /-- applyPatchExpiredOne skips records that are no longer under their key -/
  patchChecksExists : Bool
  /-- ShiftMatching only: an *empty* candidate set is represented by a nil map and the predicate
      tests `keySet != nil` before consulting it — so "no candidates" lets every record through -/
  emptyCandMeansAll : Bool
  /-- the per-record delete step of a shift claim re-checks, under the record guard, that the record is still
      stored under its key and still passes the selection predicate, and hands out the copy taken there
      (otherwise: deletes whatever is under the key and hands out the copy taken by the selection pass) -/
  deleteRevalidates : Bool
  deriving DecidableEq, Repr

structure Rec where
  exp : Int
  status : Nat
  present : Bool
  void : Bool
  /-- ghost: bumped by every acknowledged write to the record -/
  ver : Nat := 0
  deriving DecidableEq, Repr

structure Claim where
  claimer : Nat
  key : Nat
  /-- ghost: the Spec's criteria evaluated on the state at the claim step -/
  ok : Bool
  deriving DecidableEq, Repr

structure Batch where
  claimer : Nat
  howMany : Nat
  got : List Nat
  before : List Nat
  deriving DecidableEq, Repr

structure St where
  recs : Nat → Rec
  born : List Nat
  index : List Nat
  /-- ghost: records handed out by shift claims, in hand-out order -/
  claimed : List Claim
  /-- ghost: records selected by PatchExpired calls -/
  pclaimed : List Claim
  batches : List Batch
  /-- ghost: keys whose delete was acknowledged -/
  deleted : List Nat
  /-- candidate snapshot per caller: (wanted value of the indexed field, keys) -/
  cand : Nat → Option (Nat × List Nat)
  /-- PatchExpired selections in flight -/
  sel : Nat → List Nat
  /-- non-atomic selection only: (taken, remaining) computed by the read half -/
  pend : Nat → Option (List Nat × List Nat × Option Nat)
  /-- shift claims in flight: records selected (key, version of the copy) whose delete step has not run yet -/
  shsel : Nat → List (Nat × Nat)
  shwant : Nat → Option Nat

inductive Act where
  | seed (k status : Nat) (exp : Int)
  | setStatus (k v : Nat)
  /-- `SetExpirationTime` on the live object (under the record guard) … -/
  | expWrite (k : Nat) (e : Int)
  /-- … and `SaveFunction`'s refresh of the expiration index -/
  | expIndex (k : Nat)
  | delete (k : Nat)
  | snapshot (c want : Nat)
  /-- the selection pass of a shift claim.  `want = none`: ShiftExpired; `some w`: ShiftMatching whose
      indexable leg is `field = w` -/
  | shift (c n : Nat) (want : Option Nat)
  /-- the delete step for one selected record -/
  | shiftDel (c k : Nat)
  | shiftRead (c n : Nat) (want : Option Nat)
  | shiftWrite (c : Nat)
  | pselect (p n : Nat) (useCand : Bool)
  | ppatch (p k newStatus : Nat) (newExp : Int)
  | preindex (p : Nat)
  deriving DecidableEq, Repr

def now : Int := 1000

def init (persisted : Bool) : St × Bool :=
  ({ recs := fun _ => { exp := 0, status := 0, present := false, void := true }, born := [], index := [], claimed := [],
     pclaimed := [], batches := [], deleted := [], cand := fun _ => none, sel := fun _ => [], pend := fun _ => none,
     shsel := fun _ => [], shwant := fun _ => none }, persisted)

def upd {α : Type} (f : Nat → α) (k : Nat) (v : α) : Nat → α := fun k' => if k' = k then v else f k'

/-- insert into the index, ascending by expiry -/
def ins (exp : Nat → Int) (k : Nat) : List Nat → List Nat
  | [] => [k]
  | x :: xs => if exp k < exp x then k :: x :: xs else x :: ins exp k xs

def insAll (exp : Nat → Int) (ks : List Nat) (l : List Nat) : List Nat := ks.foldl (fun acc k => ins exp k acc) l

/-- `counter < howMany` (or `<=` for the mutated comparison) -/
def room (le : Bool) (cnt n : Nat) : Bool := if le then cnt ≤ n else cnt < n

/-- one selection pass: (taken, remaining) -/
def walk (p : Nat → Bool) (le : Bool) (n : Nat) : List Nat → Nat → List Nat × List Nat
  | [], _ => ([], [])
  | k :: ks, cnt =>
    if p k && room le cnt n then
      let r := walk p le n ks (cnt + 1); (k :: r.1, r.2)
    else
      let r := walk p le n ks cnt; (r.1, k :: r.2)

/-- Spec: expired -/
def expired (r : Rec) : Bool := r.exp != 0 && r.exp < now

/-- code: the expired test of ShiftExpired / SelectExpiredForPatch -/
def expiredCode (cfg : Cfg) (r : Rec) : Bool := (if cfg.checksExpNonZero then r.exp != 0 else true) && r.exp < now

def inCand (s : St) (c k : Nat) : Bool := match s.cand c with | some (_, ks) => ks.contains k | none => false

def wantOf (s : St) (c : Nat) : Option Nat := (s.cand c).map (·.1)

def candEmpty (s : St) (c : Nat) : Bool := match s.cand c with | some (_, ks) => ks.isEmpty | none => true

/-- code: selection predicate of a shift claim -/
def shiftPred (cfg : Cfg) (s : St) (c : Nat) (want : Option Nat) (k : Nat) : Bool :=
  match want with
  | none => expiredCode cfg (s.recs k)
  | some w => (inCand s c k || (cfg.emptyCandMeansAll && candEmpty s c)) && (if cfg.rechecksIndexedLeg then (s.recs k).status == w && !(s.recs k).void else true)

/-- Spec: the criteria of a shift claim on the current state -/
def shiftOk (s : St) (want : Option Nat) (k : Nat) : Bool :=
  (s.recs k).present && (match want with
    | none => expired (s.recs k)
    | some w => (s.recs k).status == w && !(s.recs k).void)

/-- deleteHandler on the current key object -/
def delRec (persisted : Bool) (r : Rec) : Rec :=
  if persisted then { r with present := false, void := true, exp := 0 } else { r with present := false }

def delAll (persisted : Bool) (recs : Nat → Rec) (ks : List Nat) : Nat → Rec :=
  fun k => if ks.contains k && (recs k).present then delRec persisted (recs k) else recs k

def pselPred (cfg : Cfg) (s : St) (p : Nat) (useCand : Bool) (k : Nat) : Bool :=
  expiredCode cfg (s.recs k) &&
  (if useCand then inCand s p k &&
     (if cfg.rechecksIndexedLeg then (match wantOf s p with | some w => (s.recs k).status == w | none => false) else true)
   else true)

def pselOk (s : St) (p : Nat) (useCand : Bool) (k : Nat) : Bool :=
  (s.recs k).present && expired (s.recs k) &&
  (if useCand then (match wantOf s p with | some w => (s.recs k).status == w | none => false) else true)

def step (cfg : Cfg) (sp : St × Bool) : Act → Option (St × Bool)
  | .seed k status e =>
    let s := sp.1
    if s.born.contains k then none else
    let recs := upd s.recs k { exp := e, status := status, present := true, void := false }
    some ({ s with recs := recs, born := s.born ++ [k],
                   index := if e != 0 then ins (fun x => (recs x).exp) k s.index else s.index }, sp.2)
  | .setStatus k v =>
    let s := sp.1
    if (s.recs k).present && !(s.recs k).void then
      some ({ s with recs := upd s.recs k { s.recs k with status := v, ver := (s.recs k).ver + 1 } }, sp.2)
    else none
  | .expWrite k e =>
    let s := sp.1
    if (s.recs k).present then some ({ s with recs := upd s.recs k { s.recs k with exp := e, ver := (s.recs k).ver + 1 } }, sp.2) else none
  | .expIndex k =>
    let s := sp.1
    if (s.recs k).present then
      let rest := s.index.filter (· != k)
      some ({ s with index := if (s.recs k).exp != 0 then ins (fun x => (s.recs x).exp) k rest else rest }, sp.2)
    else none
  | .delete k =>
    let s := sp.1
    if (s.recs k).present then
      some ({ s with recs := upd s.recs k (delRec sp.2 (s.recs k)), index := s.index.filter (· != k),
                     deleted := s.deleted ++ [k] }, sp.2)
    else none
  | .snapshot c want =>
    let s := sp.1
    some ({ s with cand := upd s.cand c (some (want, s.born.filter (fun k =>
              (s.recs k).present && !(s.recs k).void && (s.recs k).status == want))) }, sp.2)
  | .shift c n want =>
    let s := sp.1
    if !cfg.selectAtomic then none else
    if !(s.shsel c).isEmpty then none else
    let r := walk (shiftPred cfg s c want) cfg.counterLe n s.index 0
    some ({ s with index := r.2, shsel := upd s.shsel c (r.1.map (fun k => (k, (s.recs k).ver))), shwant := upd s.shwant c want,
                   batches := s.batches ++ [{ claimer := c, howMany := n, got := r.1, before := s.index }] }, sp.2)
  | .shiftDel c k =>
    let s := sp.1
    match (s.shsel c).find? (fun e => e.1 == k) with
    | none => none
    | some e =>
      let want := s.shwant c
      let rest := (s.shsel c).filter (fun e => e.1 != k)
      let r := s.recs k
      let idx := s.index.filter (· != k)
      if cfg.deleteRevalidates then
        if r.present && shiftPred cfg s c want k then
          some ({ s with shsel := upd s.shsel c rest,
                         claimed := s.claimed ++ [{ claimer := c, key := k, ok := shiftOk s want k }],
                         recs := upd s.recs k (delRec sp.2 r), index := idx }, sp.2)
        else
          -- not (or no longer) wanted: nothing is handed out; a record that is still there goes back into the index
          some ({ s with shsel := upd s.shsel c rest,
                         index := if r.present && r.exp != 0 then ins (fun x => (s.recs x).exp) k idx else idx }, sp.2)
      else
        some ({ s with shsel := upd s.shsel c rest,
                       claimed := s.claimed ++ [{ claimer := c, key := k, ok := shiftOk s want k && r.ver == e.2 }],
                       recs := if r.present then upd s.recs k (delRec sp.2 r) else s.recs, index := idx }, sp.2)
  | .shiftRead c n want =>
    let s := sp.1
    if cfg.selectAtomic then none else
    let r := walk (shiftPred cfg s c want) cfg.counterLe n s.index 0
    some ({ s with pend := upd s.pend c (some (r.1, r.2, want)),
                   batches := s.batches ++ [{ claimer := c, howMany := n, got := r.1, before := s.index }] }, sp.2)
  | .shiftWrite c =>
    let s := sp.1
    if cfg.selectAtomic then none else
    match s.pend c with
    | none => none
    | some (taken, remaining, want) =>
      some ({ s with index := remaining, pend := upd s.pend c none,
                     claimed := s.claimed ++ taken.map (fun k => { claimer := c, key := k, ok := shiftOk s want k }),
                     recs := delAll sp.2 s.recs taken }, sp.2)
  | .pselect p n useCand =>
    let s := sp.1
    if !(s.sel p).isEmpty then none else
    let r := walk (pselPred cfg s p useCand) cfg.counterLe n s.index 0
    some ({ s with index := r.2, sel := upd s.sel p r.1,
                   pclaimed := s.pclaimed ++ r.1.map (fun k => { claimer := p, key := k, ok := pselOk s p useCand k }),
                   batches := s.batches ++ [{ claimer := p, howMany := n, got := r.1, before := s.index }] }, sp.2)
  | .ppatch p k ns ne =>
    let s := sp.1
    if !(s.sel p).contains k then none else
    let r := s.recs k
    if r.void || (cfg.patchChecksExists && !r.present) then some sp      -- KEY_NOT_FOUND
    else
      let recs := upd s.recs k { r with status := ns, exp := ne, present := true, ver := r.ver + 1 }
      let rest := s.index.filter (· != k)
      some ({ s with recs := recs, index := if ne != 0 then ins (fun x => (recs x).exp) k rest else rest }, sp.2)
  | .preindex p =>
    let s := sp.1
    let back := (s.sel p).filter (fun k => (s.recs k).exp != 0 && (if cfg.reindexChecksExists then (s.recs k).present else true))
    let rest := s.index.filter (fun k => !(s.sel p).contains k)
    some ({ s with index := insAll (fun x => (s.recs x).exp) back rest, sel := upd s.sel p [] }, sp.2)

abbrev run (cfg : Cfg) := LTS.run (step cfg)

end Hv.Claim
