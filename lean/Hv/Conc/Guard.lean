/-
  Model of app/core/hydra/swamp/treasure/guard/guard.go.

  Code state:  `waitForUnlock : []int64` (queue of guard IDs; the head is the
  holder) and `largestGuardID`.  Every method body runs under `g.cond.L`, so
  each is one atomic action.  Ghost state (not in the code) identifies *sessions*:
  one per successful `StartTreasureGuard`, so that "who believes it holds the
  guard" can be stated even when the code hands the same numeric ID to two
  sessions (which it does when `resets = true`).
-/
import Hv.Basic.LTS

namespace Hv.Guard

/-- Code facts the model is parametrised by. -/
structure Cfg where
  /-- `ReleaseTreasureGuard` stores 0 into `largestGuardID` when the queue empties. -/
  resetsIdOnEmpty : Bool
  deriving DecidableEq, Repr

structure St where
  /-- code: `waitForUnlock`, each entry paired with the ghost session that enqueued it -/
  queue   : List (Nat × Nat)        -- (guardID, sid)
  /-- code: `largestGuardID` -/
  counter : Nat
  /-- ghost: number of sessions created so far (session ids are 1,2,3,…) -/
  nextSid : Nat
  /-- ghost: every session ever created, with the guard ID it was given -/
  issued  : List (Nat × Nat)        -- (sid, guardID)
  /-- ghost: sessions that were granted the guard and have not released it themselves -/
  holders : List Nat
  /-- ghost: order in which sessions were granted -/
  grants  : List Nat
  deriving DecidableEq, Repr

def init : St := { queue := [], counter := 0, nextSid := 0, issued := [], holders := [], grants := [] }

inductive Act where
  /-- `StartTreasureGuard(true)` -/
  | startWait
  /-- `StartTreasureGuard(false)` -/
  | startNoWait
  /-- session `sid` calls `ReleaseTreasureGuard` with the ID it was given.  Enabled only once
      the session has been granted (a waiting `Start` has not returned yet, so the caller
      does not know its ID); may be repeated any number of times (duplicate / stale release). -/
  | release (sid : Nat)
  /-- `ReleaseTreasureGuard(id)` with an ID that is not the current head's (foreign / garbage). -/
  | releaseRaw (id : Nat)
  deriving DecidableEq, Repr

def headId (s : St) : Option Nat := s.queue.head?.map (·.1)
def headSid (s : St) : Option Nat := s.queue.head?.map (·.2)

def idOf (s : St) (sid : Nat) : Option Nat := (s.issued.find? (·.1 == sid)).map (·.2)

/-- the code of `StartTreasureGuard` after the decision to enqueue -/
def enqueue (s : St) : St :=
  let id := s.counter + 1
  let sid := s.nextSid + 1
  let granted := s.queue.isEmpty
  { s with
    queue := s.queue ++ [(id, sid)], counter := id, nextSid := sid,
    issued := s.issued ++ [(sid, id)],
    holders := if granted then s.holders ++ [sid] else s.holders,
    grants := if granted then s.grants ++ [sid] else s.grants }

/-- the code of `ReleaseTreasureGuard(id)`; `who` is the ghost session giving up its hold -/
def releaseId (cfg : Cfg) (s : St) (id : Nat) (who : Option Nat) : St :=
  let holders := match who with
    | some sid => s.holders.filter (· != sid)
    | none => s.holders
  match s.queue with
  | [] => { s with holders := holders }
  | (h, _) :: rest =>
    if h = id then
      let counter := if rest.isEmpty && cfg.resetsIdOnEmpty then 0 else s.counter
      match rest with
      | [] => { s with queue := [], counter := counter, holders := holders }
      | (_, nsid) :: _ =>
        { s with queue := rest, counter := counter,
                 holders := holders ++ [nsid], grants := s.grants ++ [nsid] }
    else { s with holders := holders }

def step (cfg : Cfg) (s : St) : Act → Option St
  | .startWait => some (enqueue s)
  | .startNoWait => if s.queue.isEmpty then some (enqueue s) else some s
  | .release sid =>
    match idOf s sid with
    | none => none
    | some id =>
      -- not enabled while the session is still waiting behind the head
      if (s.queue.drop 1).any (·.2 == sid) then none
      else some (releaseId cfg s id (some sid))
  | .releaseRaw id =>
    if headId s = some id then none else some (releaseId cfg s id none)

abbrev run (cfg : Cfg) := LTS.run (step cfg)

/-- the value `StartTreasureGuard` returns for the action (0 = refused) -/
def startResult (s : St) : Act → Nat
  | .startWait => s.counter + 1
  | .startNoWait => if s.queue.isEmpty then s.counter + 1 else 0
  | _ => 0

end Hv.Guard
