/-
  The swamp mutex `s.mu` against the vigil drain (app/core/hydra/swamp/swamp.go, `destroy`).

  The write path holds a vigil across an `s.mu.RLock()`:
      BeginVigil() → treasure.Save() → swamp.SaveFunction() → s.mu.RLock() … RUnlock() → CeaseVigil()
  `destroy` drains the vigils (`WaitForActiveVigilsClosed`) and takes `s.mu.Lock()` for the teardown.
  In which order is the question: a destroyer that holds the write lock while it waits for the
  vigil count to reach zero blocks the very operations it waits for.

  Operations are anonymous; they are counted by where they are:
      a  begun, `RLock` not yet taken        r  holding the read lock        c  past `RUnlock`, not yet ceased
  so the vigil counter is `a + r + c`.  New operations may begin at any time (handles obtained
  before `closing` was set).  `cfg.lockBeforeDrain` is the order of the two statements in `destroy`.
-/
import Hv.Basic.LTS

namespace Hv.VigilMu

structure Cfg where
  /-- `s.mu.Lock()` precedes `s.Vigil.WaitForActiveVigilsClosed()` in `destroy` -/
  lockBeforeDrain : Bool
  deriving DecidableEq, Repr

inductive DPc where
  | idle | draining | drained | torn | done
  deriving DecidableEq, Repr

structure St where
  a : Nat
  r : Nat
  c : Nat
  /-- `s.mu` is write-locked (by the destroyer: nobody else takes the write lock here) -/
  muW : Bool
  dpc : DPc
  deriving DecidableEq, Repr

def init : St := { a := 0, r := 0, c := 0, muW := false, dpc := .idle }

def vigils (s : St) : Nat := s.a + s.r + s.c

inductive Act where
  | begin | rlock | runlock | cease
  /-- `destroy` starts: (takes the write lock first, in the defective order, and) begins to drain -/
  | dStart
  /-- the drain returns: the vigil counter is zero -/
  | dDrained
  /-- `s.mu.Lock()` after the drain (correct order) and the teardown under it -/
  | dTear
  /-- the deferred `s.mu.Unlock()` -/
  | dUnlock
  deriving DecidableEq, Repr

def step (cfg : Cfg) (s : St) : Act → Option St
  | .begin => some { s with a := s.a + 1 }
  | .rlock => if 0 < s.a ∧ s.muW = false then some { s with a := s.a - 1, r := s.r + 1 } else none
  | .runlock => if 0 < s.r then some { s with r := s.r - 1, c := s.c + 1 } else none
  | .cease => if 0 < s.c then some { s with c := s.c - 1 } else none
  | .dStart =>
    if s.dpc = .idle then
      if cfg.lockBeforeDrain then
        (if s.r = 0 ∧ s.muW = false then some { s with muW := true, dpc := .draining } else none)
      else some { s with dpc := .draining }
    else none
  | .dDrained => if s.dpc = .draining ∧ vigils s = 0 then some { s with dpc := .drained } else none
  | .dTear =>
    if s.dpc = .drained then
      if cfg.lockBeforeDrain then some { s with dpc := .torn }
      else (if s.r = 0 ∧ s.muW = false then some { s with muW := true, dpc := .torn } else none)
    else none
  | .dUnlock => if s.dpc = .torn then some { s with muW := false, dpc := .done } else none

abbrev run (cfg : Cfg) := LTS.run (step cfg)

/-- the destroyer waits for the drain, holds the write lock, and an operation that has begun
    needs the read lock: neither can ever move -/
def Stuck (s : St) : Prop := s.dpc = .draining ∧ s.muW = true ∧ 0 < s.a ∧ s.r = 0 ∧ s.c = 0

/-- the work the in-flight operations still have to do before the drain can return -/
def measure (s : St) : Nat := 3 * s.a + 2 * s.r + s.c

def good : Cfg := { lockBeforeDrain := false }

/-- correct order: the write lock is held only after the drain has returned -/
def Inv (s : St) : Prop := s.muW = true → (s.dpc = .torn)

theorem inv_step (s : St) (a : Act) (s' : St) (h : Inv s) (hs : step good s a = some s') : Inv s' := by
  unfold Inv at *
  cases a <;> simp only [step, good] at hs
  · simp at hs; subst hs; exact h
  · split at hs <;> simp at hs; subst hs; exact h
  · split at hs <;> simp at hs; subst hs; exact h
  · split at hs <;> simp at hs; subst hs; exact h
  · split at hs
    · simp at hs; subst hs
      intro hm
      have := h hm
      rename_i hi
      simp [hi] at this
    · simp at hs
  · split at hs <;> simp at hs
    subst hs
    intro hm
    have := h hm
    rename_i hd
    simp [hd.1] at this
  · split at hs
    · simp at hs
      obtain ⟨_, hs⟩ := hs
      subst hs; intro _; rfl
    · simp at hs
  · split at hs <;> simp at hs
    subst hs; intro hm; simp at hm

theorem reach_inv (as : List Act) (s : St) (h : run good init as = some s) : Inv s :=
  LTS.inv_run (step good) Inv inv_step init as s (by simp [Inv, init]) h

/-- `no_mu_deadlock`: with the drain before `s.mu.Lock()` no schedule reaches the deadlock -/
theorem no_mu_deadlock (as : List Act) (s : St) (h : run good init as = some s) : ¬ Stuck s := by
  intro ⟨hd, hm, _⟩
  have := reach_inv as s h hm
  rw [hd] at this
  cases this

/-- … and while the destroyer drains, either the drain can return or one of the in-flight
    operations can take its next step, which brings the drain strictly closer (`measure`) -/
theorem drain_progress (as : List Act) (s : St) (h : run good init as = some s) (hd : s.dpc = .draining) :
    (step good s .dDrained).isSome ∨
    ∃ a s', (a = .rlock ∨ a = .runlock ∨ a = .cease) ∧ step good s a = some s' ∧ measure s' < measure s := by
  have hm : s.muW = false := by
    cases hmu : s.muW with
    | false => rfl
    | true => have := reach_inv as s h hmu; rw [hd] at this; cases this
  by_cases hv : vigils s = 0
  · left; simp [step, hd, hv]
  · right
    unfold vigils at hv
    by_cases ha : 0 < s.a
    · refine ⟨.rlock, { s with a := s.a - 1, r := s.r + 1 }, Or.inl rfl, by simp [step, ha, hm], ?_⟩
      simp only [measure]; omega
    · by_cases hr : 0 < s.r
      · refine ⟨.runlock, { s with r := s.r - 1, c := s.c + 1 }, Or.inr (Or.inl rfl), by simp [step, hr], ?_⟩
        simp only [measure]; omega
      · have hc : 0 < s.c := by omega
        refine ⟨.cease, { s with c := s.c - 1 }, Or.inr (Or.inr rfl), by simp [step, hc], ?_⟩
        simp only [measure]; omega

/-- defective order: one Save in flight when `destroy` starts -/
def witness : List Act := [.begin, .dStart]

theorem witness_stuck : (run ⟨true⟩ init witness).map (fun s => (s.dpc, s.muW, s.a, s.r, s.c)) = some (.draining, true, 1, 0, 0) := by
  decide

/-- … and the deadlock is permanent: whatever happens next (only new operations can begin), the
    state stays stuck -/
theorem stuck_forever (s : St) (a : Act) (s' : St) (hs : Stuck s) (h : step ⟨true⟩ s a = some s') : Stuck s' := by
  obtain ⟨hd, hm, ha, hr, hc⟩ := hs
  cases a <;> simp only [step] at h
  · simp at h; subst h; exact ⟨hd, hm, by show 0 < s.a + 1; omega, hr, hc⟩
  · simp [hm] at h
  · simp [hr] at h
  · simp [hc] at h
  · simp [hd] at h
  · have : vigils s ≠ 0 := by unfold vigils; omega
    simp [hd, this] at h
  · simp [hd] at h
  · simp [hd] at h

end Hv.VigilMu
