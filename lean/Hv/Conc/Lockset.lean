/-
  Lockset discipline over an LTS with one reader/writer mutex (C10).

  A *row* of the access table says: method `method` of struct `struct` accesses `field`
  (reading or writing it) at a point where it holds the struct's own `mu` in mode `held`
  (`none`, `read` = RLock, `write` = Lock).  Rows are produced by /verif/extract/c10.go from
  the `x.mu.Lock(); defer x.mu.Unlock()` / explicit unlock patterns; a reference that escapes
  (a method returning the internal map) is a row with `held = none` for its callers.

  The LTS: any number of threads take and release the mutex (Go `sync.RWMutex` exclusion
  rules) and execute rows as *intervals* (`begin` … `end`), a row being executable only while
  the thread holds the mutex in exactly the mode the table states.  A data race is two
  in-progress accesses of different threads to the same field, at least one of them a write.
-/
import Hv.Basic.LTS

namespace Hv.Lockset

inductive Mode where | none | read | write
  deriving DecidableEq, Repr

structure Row where
  struct : String
  field : String
  method : String
  isWrite : Bool
  held : Mode
  deriving DecidableEq, Repr

/-- Eraser-style discipline: writers hold the mutex exclusively, readers at least shared -/
def Row.ok (r : Row) : Bool := if r.isWrite then r.held == .write else r.held != .none

def Disciplined (tbl : List Row) : Prop := ∀ r ∈ tbl, r.ok = true

/-- can two different threads hold the mutex in these modes at the same time? -/
def coexist : Mode → Mode → Bool
  | .write, .write => false
  | .write, .read => false
  | .read, .write => false
  | _, _ => true

def conflict (a b : Row) : Bool := a.struct == b.struct && a.field == b.field && (a.isWrite || b.isWrite)

/-- pairs of rows (possibly the same row, run by two threads) that can race -/
def racyPairs (tbl : List Row) : List (Row × Row) :=
  (tbl.flatMap (fun a => tbl.map (fun b => (a, b)))).filter (fun p => conflict p.1 p.2 && coexist p.1.held p.2.held)

structure St where
  writer : Option Nat
  readers : List Nat
  /-- accesses in progress: (thread, row) -/
  prog : List (Nat × Row)

def init : St := { writer := none, readers := [], prog := [] }

inductive Act where
  | lock (t : Nat) | unlock (t : Nat) | rlock (t : Nat) | runlock (t : Nat)
  | begin (t : Nat) (r : Row)
  | finish (t : Nat) (r : Row)
  deriving DecidableEq, Repr

def heldBy (s : St) (t : Nat) : Mode :=
  if s.writer = some t then .write else if s.readers.contains t then .read else .none

def busy (s : St) (t : Nat) : Bool := s.prog.any (·.1 == t)

def step (tbl : List Row) (s : St) : Act → Option St
  | .lock t =>
    if s.writer.isNone && s.readers.isEmpty && !busy s t then some { s with writer := some t } else none
  | .unlock t =>
    if s.writer = some t && !busy s t then some { s with writer := none } else none
  | .rlock t =>
    if s.writer.isNone && !s.readers.contains t && !busy s t then some { s with readers := s.readers ++ [t] } else none
  | .runlock t =>
    if s.readers.contains t && !busy s t then some { s with readers := s.readers.filter (· != t) } else none
  | .begin t r =>
    -- the table describes the program: the row runs exactly where the method holds `r.held`
    if tbl.contains r && heldBy s t == r.held && !busy s t then some { s with prog := s.prog ++ [(t, r)] } else none
  | .finish t r =>
    if s.prog.contains (t, r) then some { s with prog := s.prog.filter (· != (t, r)) } else none

abbrev run (tbl : List Row) := LTS.run (step tbl)

def Race (s : St) : Prop :=
  ∃ a ∈ s.prog, ∃ b ∈ s.prog, a.1 ≠ b.1 ∧ conflict a.2 b.2 = true

end Hv.Lockset
