/-
  Inductive invariant of the guard LTS when guard IDs are never reused
  (`resetsIdOnEmpty = false`).  Helper lemmas only; the property theorems
  are in `Hv/Props/C15.lean`.
-/
import Hv.Conc.Guard

namespace Hv.Guard

def noReset : Cfg := { resetsIdOnEmpty := false }

structure Inv (s : St) : Prop where
  qBound  : ∀ p ∈ s.queue, p.1 ≤ s.counter ∧ p.2 ≤ s.nextSid
  qSorted : s.queue.Pairwise (fun a b => a.1 < b.1 ∧ a.2 < b.2)
  iBound  : ∀ p ∈ s.issued, p.1 ≤ s.nextSid ∧ p.2 ≤ s.counter
  iSorted : s.issued.Pairwise (fun a b => a.1 < b.1 ∧ a.2 < b.2)
  qIssued : ∀ p ∈ s.queue, (p.2, p.1) ∈ s.issued
  holders : s.holders = (headSid s).toList
  gSorted : s.grants.Pairwise (· < ·)
  gBound  : ∀ g ∈ s.grants, g ≤ s.nextSid ∧ ∀ p ∈ s.queue, g ≤ p.2

theorem inv_init : Inv init := by
  constructor <;> simp [init, headSid]

/-- with pairwise-distinct session ids, lookup finds exactly the issued pair -/
theorem find_of_mem (l : List (Nat × Nat)) (h : l.Pairwise (fun a b => a.1 < b.1 ∧ a.2 < b.2))
    (sid id : Nat) (hm : (sid, id) ∈ l) : (l.find? (·.1 == sid)).map (·.2) = some id := by
  induction l with
  | nil => simp at hm
  | cons x xs ih =>
    rw [List.pairwise_cons] at h
    rcases List.mem_cons.mp hm with he | ht
    · subst he; simp
    · have hlt := (h.1 _ ht).1
      have hne : (x.1 == sid) = false := by simp; simp at hlt; omega
      rw [List.find?_cons, hne]; exact ih h.2 ht

theorem mem_of_find (l : List (Nat × Nat)) (sid id : Nat)
    (hf : (l.find? (·.1 == sid)).map (·.2) = some id) : (sid, id) ∈ l := by
  cases hfd : l.find? (·.1 == sid) with
  | none => simp [hfd] at hf
  | some p =>
    have hm := List.mem_of_find?_eq_some hfd
    have hp := List.find?_some hfd
    simp [hfd] at hf
    simp at hp
    have : p = (sid, id) := by cases p; simp_all
    exact this ▸ hm

/-- distinct issued pairs never share an id or a sid -/
theorem issued_inj (l : List (Nat × Nat)) (h : l.Pairwise (fun a b => a.1 < b.1 ∧ a.2 < b.2))
    (a b : Nat × Nat) (ha : a ∈ l) (hb : b ∈ l) : (a.1 = b.1 ↔ a.2 = b.2) := by
  induction l with
  | nil => simp at ha
  | cons x xs ih =>
    rw [List.pairwise_cons] at h
    rcases List.mem_cons.mp ha with ha' | ha' <;> rcases List.mem_cons.mp hb with hb' | hb'
    · simp [ha', hb']
    · rw [ha']; have := h.1 _ hb'; constructor <;> intro <;> omega
    · rw [hb']; have := h.1 _ ha'; constructor <;> intro <;> omega
    · exact ih h.2 ha' hb'

theorem inv_enqueue (s : St) (h : Inv s) : Inv (enqueue s) := by
  obtain ⟨qB, qS, iB, iS, qI, hH, gS, gB⟩ := h
  constructor
  · intro p hp
    simp only [enqueue, List.mem_append, List.mem_singleton] at hp ⊢
    rcases hp with hp | hp
    · have := qB p hp; omega
    · subst hp; simp
  · simp only [enqueue]
    rw [List.pairwise_append]
    refine ⟨qS, by simp, ?_⟩
    intro a ha b hb
    simp at hb; subst hb
    have := qB a ha; simp; omega
  · intro p hp
    simp only [enqueue, List.mem_append, List.mem_singleton] at hp ⊢
    rcases hp with hp | hp
    · have := iB p hp; omega
    · subst hp; simp
  · simp only [enqueue]
    rw [List.pairwise_append]
    refine ⟨iS, by simp, ?_⟩
    intro a ha b hb
    simp at hb; subst hb
    have := iB a ha; simp; omega
  · intro p hp
    simp only [enqueue, List.mem_append, List.mem_singleton] at hp ⊢
    rcases hp with hp | hp
    · exact Or.inl (qI p hp)
    · subst hp; simp
  · simp only [enqueue, headSid]
    cases hq : s.queue with
    | nil => simp [hq, headSid] at hH ⊢; simp [hH]
    | cons x xs => simp [hq, headSid] at hH ⊢; exact hH
  · simp only [enqueue]
    split
    · rw [List.pairwise_append]
      refine ⟨gS, by simp, ?_⟩
      intro a ha b hb
      simp at hb; subst hb
      have := (gB a ha).1; omega
    · exact gS
  · intro g hg
    simp only [enqueue] at hg ⊢
    have key : ∀ g ∈ s.grants, g ≤ s.nextSid + 1 ∧ ∀ p ∈ s.queue ++ [(s.counter + 1, s.nextSid + 1)], g ≤ p.2 := by
      intro g hg
      have := gB g hg
      refine ⟨by omega, ?_⟩
      intro p hp
      rcases List.mem_append.mp hp with hp | hp
      · exact this.2 p hp
      · simp at hp; subst hp; simp; omega
    split at hg
    · rename_i hemp
      rcases List.mem_append.mp hg with hg | hg
      · exact key g hg
      · simp at hg; subst hg
        have : s.queue = [] := by simpa using hemp
        simp [this]
    · exact key g hg

theorem filter_ne_singleton (a b : Nat) : [a].filter (· != b) = if a = b then [] else [a] := by
  by_cases h : a = b <;> simp [h]

theorem inv_release (s : St) (h : Inv s) (sid id : Nat) (hid : idOf s sid = some id) :
    Inv (releaseId noReset s id (some sid)) := by
  obtain ⟨qB, qS, iB, iS, qI, hH, gS, gB⟩ := h
  have hmem : (sid, id) ∈ s.issued := mem_of_find _ _ _ hid
  cases hq : s.queue with
  | nil =>
    have hh : s.holders = [] := by simpa [headSid, hq] using hH
    simp only [releaseId, hq]
    refine ⟨?_, ?_, iB, iS, ?_, ?_, gS, ?_⟩
    · intro p hp; simp at hp
    · simp
    · intro p hp; simp at hp
    · simp [headSid, hh]
    · intro g hg; exact ⟨(gB g hg).1, by intro p hp; simp at hp⟩
  | cons x rest =>
    obtain ⟨h0, hs0⟩ := x
    have hx : (hs0, h0) ∈ s.issued := qI (h0, hs0) (by simp [hq])
    have hiff : h0 = id ↔ hs0 = sid := by
      have := issued_inj _ iS (hs0, h0) (sid, id) hx hmem
      exact this.symm
    rw [hq] at qS qB qI gB
    have hh : s.holders = [hs0] := by simpa [headSid, hq] using hH
    rw [List.pairwise_cons] at qS
    simp only [releaseId, hq]
    by_cases heq : h0 = id
    · have hsid : hs0 = sid := hiff.mp heq
      simp only [heq, if_true]
      cases hr : rest with
      | nil =>
        refine ⟨?_, ?_, ?_, iS, ?_, ?_, gS, ?_⟩
        · intro p hp; simp at hp
        · simp
        · simpa [noReset] using iB
        · intro p hp; simp at hp
        · simp [headSid, hh, hsid]
        · intro g hg; exact ⟨(gB g hg).1, by intro p hp; simp at hp⟩
      | cons y ys =>
        subst hr
        have hy : h0 < y.1 ∧ hs0 < y.2 := qS.1 y (by simp)
        refine ⟨?_, qS.2, ?_, iS, ?_, ?_, ?_, ?_⟩
        · intro p hp
          have := qB p (List.mem_cons_of_mem _ hp)
          simpa [noReset] using this
        · simpa [noReset] using iB
        · intro p hp; exact qI p (List.mem_cons_of_mem _ hp)
        · simp [headSid, hh, hsid]
        · show (s.grants ++ [y.2]).Pairwise (· < ·)
          rw [List.pairwise_append]
          refine ⟨gS, by simp, ?_⟩
          intro a ha b hb
          simp at hb; subst hb
          have := (gB a ha).2 (h0, hs0) (by simp)
          simp at this; omega
        · intro g hg
          show g ≤ s.nextSid ∧ ∀ p ∈ y :: ys, g ≤ p.2
          replace hg : g ∈ s.grants ++ [y.2] := hg
          rcases List.mem_append.mp hg with hg | hg
          · exact ⟨(gB g hg).1, fun p hp => (gB g hg).2 p (List.mem_cons_of_mem _ hp)⟩
          · simp at hg; subst hg
            refine ⟨(qB y (by simp)).2, ?_⟩
            intro p hp
            rcases List.mem_cons.mp hp with hp | hp
            · subst hp; exact Nat.le_refl _
            · have := (List.pairwise_cons.mp qS.2).1 p hp; omega
    · have hsid : hs0 ≠ sid := fun e => heq (hiff.mpr e)
      simp only [heq, if_false]
      refine ⟨qB, ?_, iB, iS, qI, ?_, gS, gB⟩
      · rw [List.pairwise_cons]; exact qS
      · simp [headSid, hh, hsid]

theorem inv_releaseRaw (s : St) (h : Inv s) (id : Nat) (hne : headId s ≠ some id) :
    releaseId noReset s id none = s := by
  cases s with
  | mk queue counter nextSid issued holders grants =>
  cases queue with
  | nil => simp [releaseId]
  | cons x rest =>
    obtain ⟨h0, hs0⟩ := x
    have : h0 ≠ id := by simpa [headId] using hne
    simp [releaseId, this]

theorem inv_step (s : St) (a : Act) (s' : St) (h : Inv s) (hs : step noReset s a = some s') :
    Inv s' := by
  cases a with
  | startWait => simp [step] at hs; exact hs ▸ inv_enqueue s h
  | startNoWait =>
    simp only [step] at hs
    split at hs <;> simp at hs
    · exact hs ▸ inv_enqueue s h
    · exact hs ▸ h
  | release sid =>
    simp only [step] at hs
    cases hid : idOf s sid with
    | none => simp [hid] at hs
    | some id =>
      simp only [hid] at hs
      split at hs
      · simp at hs
      · rename_i hen
        simp at hs
        exact hs ▸ inv_release s h sid id hid
  | releaseRaw id =>
    simp only [step] at hs
    split at hs
    · simp at hs
    · rename_i hne
      simp at hs
      rw [inv_releaseRaw s h id hne] at hs
      exact hs ▸ h

end Hv.Guard
