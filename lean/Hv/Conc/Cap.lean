/-
  Model of the Cap-bearing patch batch of app/server/gateway/gateway_patch.go
  (`patchTreasuresOneSwamp` / `capPreCount`) and `swamp.PatchFields`' four-cell rule.

  Records are abstracted to one bit: does the body match `Cap.Filter`.  A batch is
      [count | lock capMu]  in the order the code has them,
      budget := max − count,
      per key: PatchFields with (pre, post)  — budget decremented iff ¬pre ∧ post, rejected
               (CAP_EXCEEDED, record untouched) when that cell finds the budget at 0,
      unlock capMu (deferred: after the whole loop).
  `count` is one atomic read (`beaconKey.CountMatching` under the beacon's RLock); each
  PatchFields runs under the record's guard; capMu serialises whole batches.
  `PatchExpired` with a Cap (swamp_patch_expired.go) is an `expired` batch: capMu first, then count
  and select at most `budget` expired candidates in one step under the beacon lock, then the
  per-record patches, capMu released at the end (`expiredHoldsCapMu`).  `ShiftMatching` only
  removes records (`delete` / `shrink`).  Creates (`CreateIfNotExist` + seed) are patches on an
  absent record.
-/
import Hv.Basic.LTS

namespace Hv.Cap

structure Cfg where
  /-- `LockCapMu()` precedes `CountMatchingTreasures` in `capPreCount` -/
  countAfterLock : Bool
  /-- `PatchFields`: on a create the pre-state is "not matching" (`if !isCreate { preMatched = … }`);
      `false`: the pre-state is computed from the `InitialMsgpackOnCreate` seed -/
  createPreFalse : Bool
  /-- `PatchExpired` holds `capMu` until its per-treasure patches are done (`defer Unlock`);
      `false`: it releases `capMu` right after the count+select step -/
  expiredHoldsCapMu : Bool
  /-- `PatchExpired`'s count covers every record of the swamp; `false`: it is taken over the
      expiration-time index only (`SelectExpiredForPatchWithCap` on `expirationTimeBeaconASC`), so
      matching records that carry no `ExpiredAt` are not counted -/
  expiredCountsAll : Bool := true
  deriving DecidableEq, Repr

inductive Pc where
  | idle | ready | half | run | done
  deriving DecidableEq, Repr

structure Batch where
  pc : Pc
  counted : Nat
  budget : Nat
  /-- remaining patches: key and whether the patched body matches the filter -/
  todo : List (Nat × Bool)
  /-- ghost: number of CAP_EXCEEDED results -/
  rejected : Nat
  /-- `CreateIfNotExist`, and whether the `InitialMsgpackOnCreate` seed matches the filter -/
  create : Bool
  seedMatches : Bool
  /-- a `PatchExpired` call: lock first, count and select at most `budget` records in one step -/
  expired : Bool
  /-- ghost: KEY_NOT_FOUND results -/
  notFound : Nat
  deriving DecidableEq, Repr

def Batch.empty : Batch :=
  { pc := .idle, counted := 0, budget := 0, todo := [], rejected := 0, create := false, seedMatches := false,
    expired := false, notFound := 0 }

structure St where
  /-- `recs[k]`: record `k` matches the cap's filter -/
  recs : List Bool
  /-- `present[k]`: record `k` exists (an absent record does not match) -/
  present : List Bool
  /-- `expiring[k]`: record `k` carries an `ExpiredAt` (it is in the expiration-time index) -/
  expiring : List Bool
  capMu : Option Nat
  batch : Nat → Batch
  max : Nat

def matching (s : St) : Nat := s.recs.count true

/-- matching records that are in the expiration-time index -/
def matchingExp (s : St) : Nat :=
  ((List.range s.recs.length).filter fun k => s.recs.getD k false && s.expiring.getD k false).length

/-- arbitrary contents: which records match, exist, carry an expiry -/
def initE (recs present expiring : List Bool) (max : Nat) : St :=
  { recs := recs, present := present, expiring := expiring, capMu := none, batch := fun _ => Batch.empty, max := max }

/-- every record carries an expiry -/
def initP (recs present : List Bool) (max : Nat) : St := initE recs present (recs.map fun _ => true) max

/-- every record of the universe exists -/
def init (recs : List Bool) (max : Nat) : St := initP recs (recs.map fun _ => true) max

inductive Act where
  /-- a PatchTreasures RPC with this cap arrives -/
  | submit (b : Nat) (patches : List (Nat × Bool))
  /-- … with `CreateIfNotExist` and a seed that does / does not match the filter -/
  | submitCreate (b : Nat) (patches : List (Nat × Bool)) (seedMatches : Bool)
  /-- a PatchExpired RPC with this cap: the candidate records in selection order (they end up matching) -/
  | submitExpired (b : Nat) (candidates : List Nat)
  /-- PatchExpired releasing capMu right after its select step (only when `expiredHoldsCapMu = false`) -/
  | unlockEarly (b : Nat)
  /-- a record is deleted (shift, delete) -/
  | delete (k : Nat)
  /-- first / second statement of `capPreCount` -/
  | first (b : Nat)
  | second (b : Nat)
  /-- one iteration of the loop: `PatchFields` on the next key -/
  | patch (b : Nat)
  /-- the deferred `UnlockCapMu` -/
  | unlock (b : Nat)
  /-- any operation that can only take a record out of the filter (delete, shift, non-matching write) -/
  | shrink (k : Nat)
  deriving DecidableEq, Repr

def setBatch (s : St) (b : Nat) (x : Batch) : Nat → Batch := fun y => if y = b then x else s.batch y

/-- `PatchFields`' cap rule for one key: new budget, value written (none = rejected) -/
def fourCell (budget : Nat) (pre post : Bool) : Nat × Option Bool :=
  if !pre && post then
    if budget = 0 then (budget, none) else (budget - 1, some post)
  else (budget, some post)

/-- one `PatchFields` call of batch `x` on key `k`: new record bits, new presence bits, new batch -/
def patchOne (cfg : Cfg) (s : St) (x : Batch) (k : Nat) (post : Bool) (rest : List (Nat × Bool)) :
    List Bool × List Bool × Batch :=
  let here := s.present.getD k false
  if !here && !x.create then
    -- KEY_NOT_FOUND: nothing is written
    (s.recs, s.present, { x with todo := rest, notFound := x.notFound + 1 })
  else
    let pre := if here then s.recs.getD k false else (if cfg.createPreFalse then false else x.seedMatches)
    match fourCell x.budget pre post with
    | (bud, some v) => (s.recs.set k v, s.present.set k true, { x with budget := bud, todo := rest })
    | (bud, none) => (s.recs, s.present, { x with budget := bud, todo := rest, rejected := x.rejected + 1 })

def step (cfg : Cfg) (s : St) : Act → Option St
  | .submit b ps =>
    if (s.batch b).pc = .idle ∧ (∀ p ∈ ps, p.1 < s.recs.length) then
      some { s with batch := setBatch s b { Batch.empty with pc := .ready, todo := ps } }
    else none
  | .submitCreate b ps sm =>
    if (s.batch b).pc = .idle ∧ (∀ p ∈ ps, p.1 < s.recs.length) then
      some { s with batch := setBatch s b { Batch.empty with pc := .ready, todo := ps, create := true, seedMatches := sm } }
    else none
  | .submitExpired b ks =>
    if (s.batch b).pc = .idle ∧ (∀ k ∈ ks, k < s.recs.length) then
      some { s with batch := setBatch s b { Batch.empty with pc := .ready, todo := ks.map (·, true), expired := true } }
    else none
  | .unlockEarly b =>
    let x := s.batch b
    if cfg.expiredHoldsCapMu = false ∧ x.expired = true ∧ x.pc = .run ∧ s.capMu = some b then
      some { s with capMu := none }
    else none
  | .delete k => some { s with recs := s.recs.set k false, present := s.present.set k false, expiring := s.expiring.set k false }
  | .first b =>
    let x := s.batch b
    if x.pc = .ready then
      if cfg.countAfterLock || x.expired then
        if s.capMu = none then some { s with capMu := some b, batch := setBatch s b { x with pc := .half } } else none
      else some { s with batch := setBatch s b { x with pc := .half, counted := matching s } }
    else none
  | .second b =>
    let x := s.batch b
    if x.pc = .half then
      if cfg.countAfterLock || x.expired then
        -- (PatchExpired: count and select under one beacon lock — at most `budget` candidates)
        let m := if x.expired && !cfg.expiredCountsAll then matchingExp s else matching s
        some { s with batch := setBatch s b { x with pc := .run, counted := m, budget := s.max - m,
                                                      todo := if x.expired then x.todo.take (s.max - m) else x.todo } }
      else
        if s.capMu = none then
          some { s with capMu := some b, batch := setBatch s b { x with pc := .run, budget := s.max - x.counted } }
        else none
    else none
  | .patch b =>
    let x := s.batch b
    if x.pc = .run then
      match x.todo with
      | [] => none
      | (k, post) :: rest =>
        let r := patchOne cfg s x k post rest
        some { s with recs := r.1, present := r.2.1, batch := setBatch s b r.2.2 }
    else none
  | .unlock b =>
    let x := s.batch b
    if x.pc = .run ∧ x.todo = [] then
      -- (a PatchExpired that released capMu early has nothing to release here)
      some { s with capMu := if s.capMu = some b then none else s.capMu, batch := setBatch s b { x with pc := .done } }
    else none
  | .shrink k => some { s with recs := s.recs.set k false }

abbrev run (cfg : Cfg) := LTS.run (step cfg)

end Hv.Cap
