/-
  Model of the Cap-bearing patch batch of app/server/gateway/gateway_patch.go
  (`patchTreasuresOneSwamp` / `capPreCount`) and `swamp.PatchFields`' four-cell rule.

  Records are abstracted to one bit: does the body match `Cap.Filter`.  A batch is
      [count | lock capMu]  in the order the code has them,
      budget := max − count,
      per key: PatchFields with (pre, post)  — budget decremented iff ¬pre ∧ post, rejected
               (CAP_EXCEEDED, record untouched) when that cell finds the budget at 0,
      unlock capMu (deferred: after the whole loop).
  `count` is one atomic read (`beaconKey.CountMatching` under the beacon's RLock); each
  PatchFields runs under the record's guard; capMu serialises whole batches.
  `PatchExpired` with a Cap has the same shape with the lock taken first
  (swamp_patch_expired.go), `ShiftMatching` only removes records: both are covered by
  `countAfterLock = true` batches and the `shrink` action.
-/
import Hv.Basic.LTS

namespace Hv.Cap

structure Cfg where
  /-- `LockCapMu()` precedes `CountMatchingTreasures` in `capPreCount` -/
  countAfterLock : Bool
  deriving DecidableEq, Repr

inductive Pc where
  | idle | ready | half | run | done
  deriving DecidableEq, Repr

structure Batch where
  pc : Pc
  counted : Nat
  budget : Nat
  /-- remaining patches: key and whether the patched body matches the filter -/
  todo : List (Nat × Bool)
  /-- ghost: number of CAP_EXCEEDED results -/
  rejected : Nat
  deriving DecidableEq, Repr

def Batch.empty : Batch := { pc := .idle, counted := 0, budget := 0, todo := [], rejected := 0 }

structure St where
  /-- `recs[k]`: record `k` matches the cap's filter -/
  recs : List Bool
  capMu : Option Nat
  batch : Nat → Batch
  max : Nat

def matching (s : St) : Nat := s.recs.count true

def init (recs : List Bool) (max : Nat) : St :=
  { recs := recs, capMu := none, batch := fun _ => Batch.empty, max := max }

inductive Act where
  /-- a PatchTreasures RPC with this cap arrives -/
  | submit (b : Nat) (patches : List (Nat × Bool))
  /-- first / second statement of `capPreCount` -/
  | first (b : Nat)
  | second (b : Nat)
  /-- one iteration of the loop: `PatchFields` on the next key -/
  | patch (b : Nat)
  /-- the deferred `UnlockCapMu` -/
  | unlock (b : Nat)
  /-- any operation that can only take a record out of the filter (delete, shift, non-matching write) -/
  | shrink (k : Nat)
  deriving DecidableEq, Repr

def setBatch (s : St) (b : Nat) (x : Batch) : Nat → Batch := fun y => if y = b then x else s.batch y

/-- `PatchFields`' cap rule for one key: new budget, value written (none = rejected) -/
def fourCell (budget : Nat) (pre post : Bool) : Nat × Option Bool :=
  if !pre && post then
    if budget = 0 then (budget, none) else (budget - 1, some post)
  else (budget, some post)

def step (cfg : Cfg) (s : St) : Act → Option St
  | .submit b ps =>
    if (s.batch b).pc = .idle ∧ (∀ p ∈ ps, p.1 < s.recs.length) then
      some { s with batch := setBatch s b { Batch.empty with pc := .ready, todo := ps } }
    else none
  | .first b =>
    let x := s.batch b
    if x.pc = .ready then
      if cfg.countAfterLock then
        if s.capMu = none then some { s with capMu := some b, batch := setBatch s b { x with pc := .half } } else none
      else some { s with batch := setBatch s b { x with pc := .half, counted := matching s } }
    else none
  | .second b =>
    let x := s.batch b
    if x.pc = .half then
      if cfg.countAfterLock then
        some { s with batch := setBatch s b { x with pc := .run, counted := matching s, budget := s.max - matching s } }
      else
        if s.capMu = none then
          some { s with capMu := some b, batch := setBatch s b { x with pc := .run, budget := s.max - x.counted } }
        else none
    else none
  | .patch b =>
    let x := s.batch b
    if x.pc = .run then
      match x.todo with
      | [] => none
      | (k, post) :: rest =>
        let pre := s.recs.getD k false
        match fourCell x.budget pre post with
        | (bud, some v) => some { s with recs := s.recs.set k v, batch := setBatch s b { x with budget := bud, todo := rest } }
        | (bud, none) => some { s with batch := setBatch s b { x with budget := bud, todo := rest, rejected := x.rejected + 1 } }
    else none
  | .unlock b =>
    let x := s.batch b
    if x.pc = .run ∧ x.todo = [] ∧ s.capMu = some b then
      some { s with capMu := none, batch := setBatch s b { x with pc := .done } }
    else none
  | .shrink k => some { s with recs := s.recs.set k false }

abbrev run (cfg : Cfg) := LTS.run (step cfg)

end Hv.Cap
