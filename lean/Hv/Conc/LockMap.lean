/-
  Model of the per-key queue map of app/core/hydra/lock/lock.go (C28), on top of the queue
  object `Hv.Lock.Q` of C14.

  Code: `lock.queues` is a `sync.Map` key ↦ *queue.  `getQueue` is `Load`/`LoadOrStore` (atomic,
  not under any `q.mu`); `enqueue`/`remove` run under the `q.mu` of the queue object the caller
  holds a pointer to.  The current code never deletes from the map.

  `cfg.prune = true` is the repaired variant: `remove` marks a queue it has just emptied `dead`
  (under `q.mu`) and then deletes it from the map (`CompareAndDelete(key, q)`, a separate atomic
  step); `enqueue` on a dead queue gives up and the caller retries `getQueue`.

  Queue objects have identity (callers hold pointers across the deletion), so the state keeps a
  heap `objs` and the map stores indices into it.
-/
import Hv.Conc.Lock

namespace Hv.LockMap
open Hv.Lock

structure Cfg where
  prune : Bool
  /-- caller IDs are globally unique (`uuid.NewString()` in `Lock`); `false`: per-queue ticket
      numbers 1, 2, … (unique within one key only) -/
  uniqueIds : Bool := true
  deriving DecidableEq, Repr

/-- the queue-level code shape (facts of C14) -/
def qcfg : Lock.Cfg := { wake := .next, wakeOnlyIfHead := true }

structure Obj where
  key : Nat
  q : Q
  dead : Bool
  deriving DecidableEq, Repr

/-- a `Lock` call that has not enqueued yet: `ptr` is the queue `getQueue` returned (`none`: must
    call `getQueue`, first time or retry) -/
structure Call where
  id : Nat
  key : Nat
  ptr : Option Nat
  deriving DecidableEq, Repr

structure St where
  objs : List Obj
  map : List (Nat × Nat)
  calls : List Call
  /-- dead queues whose `CompareAndDelete` has not run yet -/
  unmapPending : List Nat
  next : Nat
  /-- ghost: every caller id ever issued, with the key it was issued for -/
  issued : List (Nat × Nat)
  deriving DecidableEq, Repr

def init : St := { objs := [], map := [], calls := [], unmapPending := [], next := 0, issued := [] }

/-- number of `Lock` calls made on a key so far (the per-queue ticket counter of the non-unique variant) -/
def ticket (s : St) (k : Nat) : Nat := (s.issued.filter (·.2 == k)).length

inductive Act where
  /-- `Lock(ctx, key, ttl)` is entered by a caller with fresh id -/
  | call (id key : Nat)
  /-- `getQueue(key)` by the call `⟨id, key, none⟩` -/
  | getQueue (id key : Nat)
  /-- `q.enqueue(c)` by the call `⟨id, key, some i⟩` on queue object `i` -/
  | enqueue (id key i : Nat)
  /-- `q.remove(id)` on queue object `i` (Unlock via the map, or watchdog / cancel via the pointer) -/
  | remove (id i : Nat)
  /-- the `CompareAndDelete(key, q)` that follows marking `i` dead -/
  | unmap (i : Nat)
  deriving DecidableEq, Repr

def step (cfg : Cfg) (s : St) : Act → Option St
  | .call id k =>
    if (if cfg.uniqueIds then s.next < id else id = ticket s k + 1) then
      some { s with calls := s.calls ++ [⟨id, k, none⟩], next := max s.next id, issued := s.issued ++ [(id, k)] }
    else none
  | .getQueue id k =>
    if (⟨id, k, none⟩ : Call) ∈ s.calls then
      match s.map.lookup k with
      | some i => some { s with calls := s.calls.erase ⟨id, k, none⟩ ++ [⟨id, k, some i⟩] }
      | none =>
        some { s with objs := s.objs ++ [⟨k, Q.empty, false⟩], map := s.map ++ [(k, s.objs.length)],
                      calls := s.calls.erase ⟨id, k, none⟩ ++ [⟨id, k, some s.objs.length⟩] }
    else none
  | .enqueue id k i =>
    if (⟨id, k, some i⟩ : Call) ∈ s.calls then
      match s.objs[i]? with
      | some o =>
        if cfg.prune && o.dead then
          some { s with calls := s.calls.erase ⟨id, k, some i⟩ ++ [⟨id, k, none⟩] }
        else
          some { s with objs := s.objs.set i { o with q := o.q.enq id },
                        calls := s.calls.erase ⟨id, k, some i⟩ }
      | none => none
    else none
  | .remove id i =>
    match s.objs[i]? with
    | some o =>
      let r := o.q.rem qcfg id
      if cfg.prune && r.2 && r.1.callers.isEmpty then
        some { s with objs := s.objs.set i { o with q := r.1, dead := true },
                      unmapPending := s.unmapPending ++ [i] }
      else some { s with objs := s.objs.set i { o with q := r.1 } }
    | none => some s
  | .unmap i =>
    if i ∈ s.unmapPending then
      some { s with map := s.map.filter (·.2 != i), unmapPending := s.unmapPending.erase i }
    else none

abbrev run (cfg : Cfg) := LTS.run (step cfg)

/-- nothing is locked, waited on or in flight -/
def Quiescent (s : St) : Prop :=
  s.calls = [] ∧ s.unmapPending = [] ∧ ∀ o ∈ s.objs, o.q.callers = []

/-- total number of queued callers -/
def queued (s : St) : Nat := (s.objs.map (·.q.callers.length)).sum

end Hv.LockMap
