/-
  Model of app/core/hydra/lock/lock.go (one key's queue) and of the gateway's TTL floor.

  Code state per key: `q.callers` (FIFO of callers; each has a `ready` and a `done`
  channel).  `enqueue` and `remove` run entirely under `q.mu`, so each is one atomic
  action.  `Lock` is `enqueue; select {ready → acquired | ctx.Done → remove}`; the
  watchdog and `Unlock` call `remove`.  Caller IDs are UUIDs in the code; the model uses
  strictly increasing naturals (= arrival numbers), which is the "distinct ids"
  assumption of the property.

  `Q` is the queue object itself (shared with the map model of C28, `Hv/Conc/LockMap.lean`).
  Closing an already closed channel panics in Go; the model counts that in `panics`.
-/
import Hv.Basic.LTS

namespace Hv.Lock

/-- which caller's `ready` channel `remove` closes after the head left -/
inductive Wake where
  | next | last | none
  deriving DecidableEq, Repr

/-- Code facts the model is parametrised by. -/
structure Cfg where
  /-- `close(q.callers[0].ready)` (next) / `[len-1]` (last) / no close at all -/
  wake : Wake
  /-- the close in `remove` is guarded by `wasHead` -/
  wakeOnlyIfHead : Bool
  deriving DecidableEq, Repr

/-- gateway `Lock`: `if in.GetTTL() <= ttlThresh { in.TTL = ttlFloor }` (milliseconds), optionally
    followed by `if in.GetTTL() > ttlCap { in.TTL = ttlCap }` -/
structure GwCfg where
  ttlThresh : Int
  ttlFloor : Int
  ttlCap : Option Int := none
  deriving DecidableEq, Repr

structure Q where
  /-- code: ids of `q.callers`, head first -/
  callers : List Nat
  /-- code: members of `callers` whose `ready` channel is closed (= granted) -/
  ready : List Nat
  /-- ghost: the order in which `ready` channels were closed -/
  grants : List Nat
  /-- ghost: number of `close` calls on an already closed channel (each is a Go panic) -/
  panics : Nat
  deriving DecidableEq, Repr

def Q.empty : Q := { callers := [], ready := [], grants := [], panics := 0 }

/-- `close(c.ready)` -/
def Q.close (q : Q) (id : Nat) : Q :=
  if id ∈ q.ready then { q with panics := q.panics + 1 }
  else { q with ready := q.ready ++ [id], grants := q.grants ++ [id] }

/-- `queue.enqueue` -/
def Q.enq (q : Q) (c : Nat) : Q :=
  let q' := { q with callers := q.callers ++ [c] }
  if q.callers.isEmpty then q'.close c else q'

def wakeTarget (cfg : Cfg) (l : List Nat) : Option Nat :=
  match cfg.wake with
  | .next => l.head?
  | .last => l.getLast?
  | .none => none

/-- `queue.remove`: the state after, and the function's boolean result (`found`) -/
def Q.rem (cfg : Cfg) (q : Q) (id : Nat) : Q × Bool :=
  if id ∈ q.callers then
    let wasHead := q.callers.head? == some id
    let rest := q.callers.erase id
    let q1 := { q with callers := rest, ready := q.ready.filter (· != id) }
    if wasHead || !cfg.wakeOnlyIfHead then
      match wakeTarget cfg rest with
      | some t => (q1.close t, true)
      | none => (q1, true)
    else (q1, true)
  else (q, false)

/-- One key.  `q` is code state, the rest is ghost. -/
structure St where
  q : Q
  /-- largest caller id issued so far -/
  next : Nat
  /-- every id issued -/
  issued : List Nat
  /-- ids whose `Lock` call returned successfully (the select took the `ready` branch) -/
  acquired : List Nat
  /-- ids that left through the `ctx.Done` branch without ever having been granted -/
  cancelledU : List Nat
  deriving DecidableEq, Repr

def init : St := { q := Q.empty, next := 0, issued := [], acquired := [], cancelledU := [] }

inductive Act where
  /-- `Lock` reaches `q.enqueue(c)`; `id` is the caller's (fresh) id -/
  | enqueue (id : Nat)
  /-- the select in `Lock` takes `<-c.ready` -/
  | acquire (id : Nat)
  /-- the select in `Lock` takes `<-ctx.Done()` (possible whether or not `ready` is closed too) -/
  | cancel (id : Nat)
  /-- `Unlock(key, id)`: by a caller that was given `id`, any number of times (stale), or with
      an id that names nobody in the queue (foreign) -/
  | unlock (id : Nat)
  /-- the watchdog's timer fires and it calls `remove` -/
  | ttl (id : Nat)
  deriving DecidableEq, Repr

def step (cfg : Cfg) (s : St) : Act → Option St
  | .enqueue id =>
    if s.next < id then
      some { s with q := s.q.enq id, next := id, issued := s.issued ++ [id] }
    else none
  | .acquire id =>
    if id ∈ s.q.ready ∧ id ∉ s.acquired then some { s with acquired := s.acquired ++ [id] } else none
  | .cancel id =>
    if id ∈ s.q.callers ∧ id ∉ s.acquired then
      some { s with q := (s.q.rem cfg id).1,
                    cancelledU := if id ∈ s.q.ready then s.cancelledU else s.cancelledU ++ [id] }
    else none
  | .unlock id =>
    if id ∈ s.acquired ∨ id ∉ s.q.callers then some { s with q := (s.q.rem cfg id).1 } else none
  | .ttl id =>
    if id ∈ s.acquired then some { s with q := (s.q.rem cfg id).1 } else none

abbrev run (cfg : Cfg) := LTS.run (step cfg)

/-- what `Unlock` returns: `true` = nil error, `false` = "caller not found" -/
def unlockOk (s : St) (id : Nat) : Bool := decide (id ∈ s.q.callers)

/-- callers that hold the lock from their own point of view -/
def holders (s : St) : List Nat := s.acquired.filter (· ∈ s.q.callers)

/-- gateway `Lock`: the TTL handed to the locker, in milliseconds -/
def effTTL (gw : GwCfg) (ttl : Int) : Int :=
  let f := if ttl ≤ gw.ttlThresh then gw.ttlFloor else ttl
  match gw.ttlCap with
  | some c => if f > c then c else f
  | none => f

/-- Go's `int64` arithmetic: the value an `int64` holds after a computation whose mathematical
    result is `x` (two's-complement wrap-around) -/
def wrap64 (x : Int) : Int := (x + 9223372036854775808) % 18446744073709551616 - 9223372036854775808

theorem wrap64_id (x : Int) (h0 : -9223372036854775808 ≤ x) (h1 : x < 9223372036854775808) : wrap64 x = x := by
  unfold wrap64
  rw [Int.emod_eq_of_lt (by omega) (by omega)]
  omega

theorem wrap64_over (x : Int) (h0 : 9223372036854775808 ≤ x) (h1 : x < 27670116110564327424) :
    wrap64 x = x - 18446744073709551616 := by
  unfold wrap64
  have : (x + 9223372036854775808) % 18446744073709551616
      = (x + 9223372036854775808 - 18446744073709551616) % 18446744073709551616 := by
    rw [Int.sub_emod_right]
  rw [this, Int.emod_eq_of_lt (by omega) (by omega)]
  omega

/-- gateway `Lock`: `time.Duration(in.GetTTL()) * time.Millisecond` — the duration (nanoseconds) the
    locker's watchdog timer is armed with.  `time.NewTimer(d)` with `d ≤ 0` fires at once. -/
def effDurNs (gw : GwCfg) (ttl : Int) : Int := wrap64 (effTTL gw ttl * 1000000)

/-- the largest TTL (ms) whose duration fits an `int64` of nanoseconds -/
def maxTTLms : Int := 9223372036854

end Hv.Lock
