/-
  Inductive invariant of the lock-map LTS (C28), valid with and without pruning; the parts that
  need the pruning variant are guarded by `cfg.prune = true`.
-/
import Hv.Conc.LockMap
import Hv.Conc.LockLemmas

namespace Hv.LockMap
open Hv.Lock

theorem qcfg_good : IsGood qcfg := ⟨rfl, rfl⟩

theorem lookup_some_mem {k i : Nat} {m : List (Nat × Nat)} (h : m.lookup k = some i) : (k, i) ∈ m := by
  induction m with
  | nil => simp at h
  | cons x xs ih =>
    obtain ⟨a, b⟩ := x
    rw [List.lookup_cons] at h
    by_cases hk : k = a
    · subst hk; simp at h; simp [h]
    · have : (k == a) = false := by simp [hk]
      rw [this] at h
      exact List.mem_cons_of_mem _ (ih h)

theorem lookup_none_not_mem {k : Nat} {m : List (Nat × Nat)} (h : m.lookup k = none) (i : Nat) :
    (k, i) ∉ m := by
  induction m with
  | nil => simp
  | cons x xs ih =>
    obtain ⟨a, b⟩ := x
    rw [List.lookup_cons] at h
    by_cases hk : k = a
    · subst hk; simp at h
    · have : (k == a) = false := by simp [hk]
      rw [this] at h
      intro hm
      rcases List.mem_cons.mp hm with e | e
      · simp at e; exact hk e.1
      · exact ih h e

/-- `remove` that did not find the id leaves the queue untouched -/
theorem rem_not_found (cfg : Lock.Cfg) (q : Q) (id : Nat) (h : (q.rem cfg id).2 = false) :
    (q.rem cfg id).1 = q := by
  unfold Q.rem at h ⊢
  by_cases hm : id ∈ q.callers
  · simp only [hm, if_true] at h
    split at h
    · split at h <;> simp at h
    · simp at h
  · simp [hm]

theorem rem_empty (cfg : Lock.Cfg) (q : Q) (id : Nat) (h : q.callers = []) : q.rem cfg id = (q, false) := by
  simp [Q.rem, h]

theorem enq_callers_ne (q : Q) (h : QInv q) (c : Nat) : (q.enq c).callers ≠ [] := by
  rw [enq_eq q h c]
  cases q.callers <;> simp

structure ObjInv (cfg : Cfg) (s : St) (i : Nat) (o : Obj) : Prop where
  qinv : QInv o.q
  deadEmpty : o.dead = true → o.q.callers = []
  deadPrune : o.dead = true → cfg.prune = true
  liveMapped : o.dead = false → (o.key, i) ∈ s.map
  liveEmptyHeld : cfg.prune = true → o.dead = false → o.q.callers = [] → ∃ c ∈ s.calls, c.ptr = some i

structure Inv (cfg : Cfg) (s : St) : Prop where
  obj : ∀ i o, s.objs[i]? = some o → ObjInv cfg s i o
  mapped : ∀ k i, (k, i) ∈ s.map →
    ∃ o, s.objs[i]? = some o ∧ o.key = k ∧ (o.dead = true → i ∈ s.unmapPending)
  func : ∀ k i j, (k, i) ∈ s.map → (k, j) ∈ s.map → i = j
  pending : ∀ i ∈ s.unmapPending, ∃ o, s.objs[i]? = some o ∧ o.dead = true
  callPtr : ∀ c ∈ s.calls, ∀ i, c.ptr = some i → ∃ o, s.objs[i]? = some o ∧ o.key = c.key

theorem inv_init (cfg : Cfg) : Inv cfg init := by
  constructor <;> simp [init]

theorem inv_call (cfg : Cfg) (s : St) (h : Inv cfg s) (id k : Nat) :
    Inv cfg { s with calls := s.calls ++ [⟨id, k, none⟩], next := max s.next id, issued := s.issued ++ [(id, k)] } := by
  obtain ⟨hO, hM, hF, hP, hC⟩ := h
  refine ⟨?_, hM, hF, hP, ?_⟩
  · intro i o ho
    have := hO i o ho
    refine ⟨this.qinv, this.deadEmpty, this.deadPrune, this.liveMapped, ?_⟩
    intro hp hd he
    obtain ⟨c, hc, hptr⟩ := this.liveEmptyHeld hp hd he
    exact ⟨c, List.mem_append_left _ hc, hptr⟩
  · intro c hc i hi
    rcases List.mem_append.mp hc with hc | hc
    · exact hC c hc i hi
    · simp at hc; subst hc; simp at hi

theorem inv_getQueue_hit (cfg : Cfg) (s : St) (h : Inv cfg s) (id k i : Nat)
    (hl : s.map.lookup k = some i) :
    Inv cfg { s with calls := s.calls.erase ⟨id, k, none⟩ ++ [⟨id, k, some i⟩] } := by
  obtain ⟨hO, hM, hF, hP, hC⟩ := h
  refine ⟨?_, hM, hF, hP, ?_⟩
  · intro j o ho
    have := hO j o ho
    refine ⟨this.qinv, this.deadEmpty, this.deadPrune, this.liveMapped, ?_⟩
    intro hp hd he
    obtain ⟨c, hc, hptr⟩ := this.liveEmptyHeld hp hd he
    have hne : c ≠ ⟨id, k, none⟩ := by intro e; rw [e] at hptr; simp at hptr
    exact ⟨c, List.mem_append_left _ ((List.mem_erase_of_ne hne).mpr hc), hptr⟩
  · intro c hc j hj
    rcases List.mem_append.mp hc with hc | hc
    · exact hC c (List.mem_of_mem_erase hc) j hj
    · simp at hc; subst hc
      simp at hj; subst hj
      obtain ⟨o, ho, hk, _⟩ := hM k i (lookup_some_mem hl)
      exact ⟨o, ho, hk⟩

theorem inv_getQueue_miss (cfg : Cfg) (s : St) (h : Inv cfg s) (id k : Nat)
    (hl : s.map.lookup k = none) :
    Inv cfg { s with objs := s.objs ++ [⟨k, Q.empty, false⟩], map := s.map ++ [(k, s.objs.length)],
                     calls := s.calls.erase ⟨id, k, none⟩ ++ [⟨id, k, some s.objs.length⟩] } := by
  obtain ⟨hO, hM, hF, hP, hC⟩ := h
  have old : ∀ (j : Nat) (o : Obj), s.objs[j]? = some o → (s.objs ++ [(⟨k, Q.empty, false⟩ : Obj)])[j]? = some o := by
    intro j o ho
    have hlt : j < s.objs.length := by
      rcases List.getElem?_eq_some_iff.mp ho with ⟨hj, _⟩; exact hj
    rw [List.getElem?_append_left hlt]; exact ho
  have split : ∀ (j : Nat) (o : Obj), (s.objs ++ [(⟨k, Q.empty, false⟩ : Obj)])[j]? = some o →
      s.objs[j]? = some o ∨ (j = s.objs.length ∧ o = ⟨k, Q.empty, false⟩) := by
    intro j o ho
    rw [List.getElem?_append] at ho
    split at ho
    · exact Or.inl ho
    · rename_i hge
      right
      have hj : j - s.objs.length = 0 := by
        cases hjj : j - s.objs.length with
        | zero => rfl
        | succ n => rw [hjj] at ho; simp at ho
      rw [hj] at ho; simp at ho
      exact ⟨by omega, ho.symm⟩
  refine ⟨?_, ?_, ?_, ?_, ?_⟩
  · intro j o ho
    rcases split j o ho with ho' | ⟨hj, hoe⟩
    · have := hO j o ho'
      refine ⟨this.qinv, this.deadEmpty, this.deadPrune, ?_, ?_⟩
      · intro hd; exact List.mem_append_left _ (this.liveMapped hd)
      · intro hp hd he
        obtain ⟨c, hc, hptr⟩ := this.liveEmptyHeld hp hd he
        have hne : c ≠ ⟨id, k, none⟩ := by intro e; rw [e] at hptr; simp at hptr
        exact ⟨c, List.mem_append_left _ ((List.mem_erase_of_ne hne).mpr hc), hptr⟩
    · subst hoe; subst hj
      refine ⟨qinv_empty, by simp, by simp, ?_, ?_⟩
      · intro _; simp
      · intro _ _ _
        exact ⟨⟨id, k, some s.objs.length⟩, by simp, rfl⟩
  · intro k' i hm
    rcases List.mem_append.mp hm with hm | hm
    · obtain ⟨o, ho, hk, hd⟩ := hM k' i hm
      exact ⟨o, old i o ho, hk, hd⟩
    · simp at hm
      obtain ⟨hk, hi⟩ := hm
      subst hk; subst hi
      refine ⟨⟨k', Q.empty, false⟩, ?_, rfl, by simp⟩
      simp
  · intro k' i j hi hj
    rcases List.mem_append.mp hi with hi | hi <;> rcases List.mem_append.mp hj with hj | hj
    · exact hF k' i j hi hj
    · simp at hj; rw [hj.1] at hi; exact absurd hi (lookup_none_not_mem hl i)
    · simp at hi; rw [hi.1] at hj; exact absurd hj (lookup_none_not_mem hl j)
    · simp at hi hj; omega
  · intro i hi
    obtain ⟨o, ho, hd⟩ := hP i hi
    exact ⟨o, old i o ho, hd⟩
  · intro c hc j hj
    rcases List.mem_append.mp hc with hc | hc
    · obtain ⟨o, ho, hk⟩ := hC c (List.mem_of_mem_erase hc) j hj
      exact ⟨o, old j o ho, hk⟩
    · simp at hc; subst hc
      simp at hj; subst hj
      exact ⟨⟨k, Q.empty, false⟩, by simp, rfl⟩

theorem inv_enqueue_retry (cfg : Cfg) (s : St) (h : Inv cfg s) (id k i : Nat) (o : Obj)
    (ho : s.objs[i]? = some o) (hd : o.dead = true) :
    Inv cfg { s with calls := s.calls.erase ⟨id, k, some i⟩ ++ [⟨id, k, none⟩] } := by
  obtain ⟨hO, hM, hF, hP, hC⟩ := h
  refine ⟨?_, hM, hF, hP, ?_⟩
  · intro j o' ho'
    have := hO j o' ho'
    refine ⟨this.qinv, this.deadEmpty, this.deadPrune, this.liveMapped, ?_⟩
    intro hp hd' he
    obtain ⟨c, hc, hptr⟩ := this.liveEmptyHeld hp hd' he
    have hne : c ≠ ⟨id, k, some i⟩ := by
      intro e; rw [e] at hptr; simp at hptr; subst hptr
      rw [ho] at ho'; simp at ho'; subst ho'; rw [hd] at hd'; simp at hd'
    exact ⟨c, List.mem_append_left _ ((List.mem_erase_of_ne hne).mpr hc), hptr⟩
  · intro c hc j hj
    rcases List.mem_append.mp hc with hc | hc
    · exact hC c (List.mem_of_mem_erase hc) j hj
    · simp at hc; subst hc; simp at hj

/-- replacing the queue of object `i` (same key, same `dead` flag unless stated) -/
theorem get_set (l : List Obj) (i j : Nat) (x o : Obj) (h : (l.set i x)[j]? = some o) :
    (j = i ∧ o = x ∧ i < l.length) ∨ (j ≠ i ∧ l[j]? = some o) := by
  rw [List.getElem?_set] at h
  by_cases hij : i = j
  · subst hij
    simp only [if_true] at h
    split at h
    · rename_i hlt; simp at h; exact Or.inl ⟨rfl, h.symm, hlt⟩
    · simp at h
  · simp only [hij, if_false] at h
    exact Or.inr ⟨fun e => hij e.symm, h⟩

theorem inv_enqueue_do (cfg : Cfg) (s : St) (h : Inv cfg s) (id k i : Nat) (o : Obj)
    (ho : s.objs[i]? = some o) (hnd : (cfg.prune && o.dead) = false) :
    Inv cfg { s with objs := s.objs.set i { o with q := o.q.enq id },
                     calls := s.calls.erase ⟨id, k, some i⟩ } := by
  obtain ⟨hO, hM, hF, hP, hC⟩ := h
  have hio := hO i o ho
  have hlive : o.dead = false := by
    cases hd : o.dead with
    | false => rfl
    | true => have := hio.deadPrune hd; simp [this, hd] at hnd
  have hlt : i < s.objs.length := by
    rcases List.getElem?_eq_some_iff.mp ho with ⟨hj, _⟩; exact hj
  have keep : ∀ (j : Nat) (o' : Obj), s.objs[j]? = some o' → ∃ o'' : Obj, (s.objs.set i { o with q := o.q.enq id })[j]? = some o'' ∧
      o''.key = o'.key ∧ o''.dead = o'.dead := by
    intro j o' ho'
    by_cases hji : j = i
    · subst hji
      rw [ho] at ho'; simp at ho'; subst ho'
      exact ⟨_, List.getElem?_set_self hlt, rfl, rfl⟩
    · refine ⟨o', ?_, rfl, rfl⟩
      rw [List.getElem?_set_ne (fun e => hji e.symm)]; exact ho'
  refine ⟨?_, ?_, hF, ?_, ?_⟩
  · intro j o' ho'
    rcases get_set _ _ _ _ _ ho' with ⟨hj, hx, _⟩ | ⟨hj, hold⟩
    · subst hj; subst hx
      refine ⟨qinv_enq o.q hio.qinv id, ?_, ?_, ?_, ?_⟩
      · intro hd; simp [hlive] at hd
      · intro hd; simp [hlive] at hd
      · intro _; exact hio.liveMapped hlive
      · intro _ _ he
        exact absurd he (enq_callers_ne o.q hio.qinv id)
    · have := hO j o' hold
      refine ⟨this.qinv, this.deadEmpty, this.deadPrune, this.liveMapped, ?_⟩
      intro hp hd he
      obtain ⟨c, hc, hptr⟩ := this.liveEmptyHeld hp hd he
      have hne : c ≠ ⟨id, k, some i⟩ := by
        intro e; rw [e] at hptr; simp at hptr; exact hj hptr.symm
      exact ⟨c, (List.mem_erase_of_ne hne).mpr hc, hptr⟩
  · intro k' j hm
    obtain ⟨o', ho', hk, hd⟩ := hM k' j hm
    obtain ⟨o'', ho'', hk', hd'⟩ := keep j o' ho'
    exact ⟨o'', ho'', by rw [hk', hk], by rw [hd']; exact hd⟩
  · intro j hj
    obtain ⟨o', ho', hd⟩ := hP j hj
    obtain ⟨o'', ho'', _, hd'⟩ := keep j o' ho'
    exact ⟨o'', ho'', by rw [hd']; exact hd⟩
  · intro c hc j hj
    obtain ⟨o', ho', hk⟩ := hC c (List.mem_of_mem_erase hc) j hj
    obtain ⟨o'', ho'', hk', _⟩ := keep j o' ho'
    exact ⟨o'', ho'', by rw [hk', hk]⟩

theorem inv_remove (cfg : Cfg) (s : St) (h : Inv cfg s) (id i : Nat) (o : Obj)
    (ho : s.objs[i]? = some o) :
    Inv cfg (if cfg.prune && (o.q.rem qcfg id).2 && (o.q.rem qcfg id).1.callers.isEmpty then
        { s with objs := s.objs.set i { o with q := (o.q.rem qcfg id).1, dead := true },
                 unmapPending := s.unmapPending ++ [i] }
      else { s with objs := s.objs.set i { o with q := (o.q.rem qcfg id).1 } }) := by
  obtain ⟨hO, hM, hF, hP, hC⟩ := h
  have hio := hO i o ho
  have hlt : i < s.objs.length := by
    rcases List.getElem?_eq_some_iff.mp ho with ⟨hj, _⟩; exact hj
  have hq' : QInv (o.q.rem qcfg id).1 := qinv_rem qcfg qcfg_good o.q hio.qinv id
  split
  · -- the queue was emptied and is marked dead
    rename_i hc
    simp only [Bool.and_eq_true, List.isEmpty_iff] at hc
    obtain ⟨⟨hp, hfound⟩, hemp⟩ := hc
    have hwaslive : o.dead = false := by
      cases hd : o.dead with
      | false => rfl
      | true =>
        have := hio.deadEmpty hd
        rw [rem_empty qcfg o.q id this] at hfound; simp at hfound
    have keep : ∀ (j : Nat) (o' : Obj), j ≠ i → s.objs[j]? = some o' →
        (s.objs.set i { o with q := (o.q.rem qcfg id).1, dead := true })[j]? = some o' := by
      intro j o' hji ho'
      rw [List.getElem?_set_ne (fun e => hji e.symm)]; exact ho'
    refine ⟨?_, ?_, hF, ?_, ?_⟩
    · intro j o' ho'
      rcases get_set _ _ _ _ _ ho' with ⟨hj, hx, _⟩ | ⟨hj, hold⟩
      · subst hj; subst hx
        exact ⟨hq', fun _ => hemp, fun _ => hp, by intro hd; simp at hd, by intro _ hd; simp at hd⟩
      · have := hO j o' hold
        exact ⟨this.qinv, this.deadEmpty, this.deadPrune, this.liveMapped, this.liveEmptyHeld⟩
    · intro k' j hm
      obtain ⟨o', ho', hk, hd⟩ := hM k' j hm
      by_cases hji : j = i
      · subst hji
        rw [ho] at ho'; simp at ho'; subst ho'
        exact ⟨_, List.getElem?_set_self hlt, hk, fun _ => by simp⟩
      · exact ⟨o', keep j o' hji ho', hk, fun hd' => List.mem_append_left _ (hd hd')⟩
    · intro j hj
      rcases List.mem_append.mp hj with hj | hj
      · obtain ⟨o', ho', hd⟩ := hP j hj
        by_cases hji : j = i
        · subst hji; exact ⟨_, List.getElem?_set_self hlt, rfl⟩
        · exact ⟨o', keep j o' hji ho', hd⟩
      · simp at hj; subst hj; exact ⟨_, List.getElem?_set_self hlt, rfl⟩
    · intro c hc j hj
      obtain ⟨o', ho', hk⟩ := hC c hc j hj
      by_cases hji : j = i
      · subst hji
        rw [ho] at ho'; simp at ho'; subst ho'
        exact ⟨_, List.getElem?_set_self hlt, hk⟩
      · exact ⟨o', keep j o' hji ho', hk⟩
  · -- plain removal (or nothing found)
    rename_i hc
    have keep : ∀ (j : Nat) (o' : Obj), s.objs[j]? = some o' → ∃ o'' : Obj, (s.objs.set i { o with q := (o.q.rem qcfg id).1 })[j]? = some o'' ∧
        o''.key = o'.key ∧ o''.dead = o'.dead := by
      intro j o' ho'
      by_cases hji : j = i
      · subst hji
        rw [ho] at ho'; simp at ho'; subst ho'
        exact ⟨_, List.getElem?_set_self hlt, rfl, rfl⟩
      · refine ⟨o', ?_, rfl, rfl⟩
        rw [List.getElem?_set_ne (fun e => hji e.symm)]; exact ho'
    refine ⟨?_, ?_, hF, ?_, ?_⟩
    · intro j o' ho'
      rcases get_set _ _ _ _ _ ho' with ⟨hj, hx, _⟩ | ⟨hj, hold⟩
      · subst hj; subst hx
        refine ⟨hq', ?_, hio.deadPrune, hio.liveMapped, ?_⟩
        · intro hd
          have hd' : o.dead = true := hd
          have := hio.deadEmpty hd'
          rw [rem_empty qcfg o.q id this]; exact this
        · intro hp hd he
          have hd' : o.dead = false := hd
          have he' : (o.q.rem qcfg id).1.callers = [] := he
          -- with pruning on, an emptied queue would have been marked dead: so nothing was found
          have hnf : (o.q.rem qcfg id).2 = false := by
            cases hf : (o.q.rem qcfg id).2 with
            | false => rfl
            | true => simp [hp, hf, he'] at hc
          have hsame := rem_not_found qcfg o.q id hnf
          rw [hsame] at he'
          exact hio.liveEmptyHeld hp hd' he'
      · have := hO j o' hold
        exact ⟨this.qinv, this.deadEmpty, this.deadPrune, this.liveMapped, this.liveEmptyHeld⟩
    · intro k' j hm
      obtain ⟨o', ho', hk, hd⟩ := hM k' j hm
      obtain ⟨o'', ho'', hk', hd'⟩ := keep j o' ho'
      exact ⟨o'', ho'', by rw [hk', hk], by rw [hd']; exact hd⟩
    · intro j hj
      obtain ⟨o', ho', hd⟩ := hP j hj
      obtain ⟨o'', ho'', _, hd'⟩ := keep j o' ho'
      exact ⟨o'', ho'', by rw [hd']; exact hd⟩
    · intro c hc' j hj
      obtain ⟨o', ho', hk⟩ := hC c hc' j hj
      obtain ⟨o'', ho'', hk', _⟩ := keep j o' ho'
      exact ⟨o'', ho'', by rw [hk', hk]⟩

theorem inv_unmap (cfg : Cfg) (s : St) (h : Inv cfg s) (i : Nat) (hi : i ∈ s.unmapPending) :
    Inv cfg { s with map := s.map.filter (·.2 != i), unmapPending := s.unmapPending.erase i } := by
  obtain ⟨hO, hM, hF, hP, hC⟩ := h
  obtain ⟨oi, hoi, hdi⟩ := hP i hi
  refine ⟨?_, ?_, ?_, ?_, hC⟩
  · intro j o ho
    have := hO j o ho
    refine ⟨this.qinv, this.deadEmpty, this.deadPrune, ?_, this.liveEmptyHeld⟩
    intro hd
    have hji : j ≠ i := by
      intro e; subst e; rw [hoi] at ho; simp at ho; subst ho; rw [hdi] at hd; simp at hd
    exact List.mem_filter.mpr ⟨this.liveMapped hd, by simp [hji]⟩
  · intro k j hm
    obtain ⟨hm', hne⟩ := List.mem_filter.mp hm
    have hji : j ≠ i := by simpa using hne
    obtain ⟨o, ho, hk, hd⟩ := hM k j hm'
    exact ⟨o, ho, hk, fun hd' => (List.mem_erase_of_ne hji).mpr (hd hd')⟩
  · intro k a b ha hb
    exact hF k a b (List.mem_filter.mp ha).1 (List.mem_filter.mp hb).1
  · intro j hj
    exact hP j (List.mem_of_mem_erase hj)

theorem inv_step (cfg : Cfg) (s : St) (a : Act) (s' : St) (h : Inv cfg s)
    (hs : step cfg s a = some s') : Inv cfg s' := by
  cases a with
  | call id k =>
    simp only [step] at hs
    by_cases hg : (if cfg.uniqueIds then s.next < id else id = ticket s k + 1)
    · rw [if_pos hg] at hs; simp at hs; exact hs ▸ inv_call cfg s h id k
    · rw [if_neg hg] at hs; simp at hs
  | getQueue id k =>
    simp only [step] at hs
    split at hs
    · cases hl : s.map.lookup k with
      | some i => simp only [hl] at hs; simp at hs; exact hs ▸ inv_getQueue_hit cfg s h id k i hl
      | none => simp only [hl] at hs; simp at hs; exact hs ▸ inv_getQueue_miss cfg s h id k hl
    · simp at hs
  | enqueue id k i =>
    simp only [step] at hs
    split at hs
    · cases ho : s.objs[i]? with
      | none => simp [ho] at hs
      | some o =>
        simp only [ho] at hs
        split at hs
        · rename_i hc
          simp at hs
          simp only [Bool.and_eq_true] at hc
          exact hs ▸ inv_enqueue_retry cfg s h id k i o ho hc.2
        · rename_i hc
          simp at hs
          exact hs ▸ inv_enqueue_do cfg s h id k i o ho (by simpa using hc)
    · simp at hs
  | remove id i =>
    simp only [step] at hs
    cases ho : s.objs[i]? with
    | none => simp [ho] at hs; exact hs ▸ h
    | some o =>
      simp only [ho] at hs
      have := inv_remove cfg s h id i o ho
      split at hs <;> rename_i hc <;> simp at hs <;> subst hs
      · simpa [hc] using this
      · simpa [hc] using this
  | unmap i =>
    simp only [step] at hs
    split at hs
    · rename_i hi; simp at hs; exact hs ▸ inv_unmap cfg s h i hi
    · simp at hs

/-! ### Caller ids belong to the key they were issued for (globally unique ids) -/

theorem rem_callers_subset (q : Q) (h : QInv q) (id x : Nat) (hx : x ∈ (q.rem qcfg id).1.callers) : x ∈ q.callers := by
  rcases rem_cases qcfg qcfg_good q h id with ⟨_, e⟩ | ⟨_, e⟩ | ⟨y, ys, hq, e⟩ | ⟨a, t, hq, _, _, e⟩ <;> rw [e] at hx
  · exact hx
  · simp at hx
  · rw [hq]; exact List.mem_cons_of_mem _ hx
  · rw [hq]
    rcases List.mem_cons.mp hx with e' | e'
    · rw [e']; simp
    · exact List.mem_cons_of_mem _ (List.mem_of_mem_erase e')

theorem enq_callers (q : Q) (h : QInv q) (c : Nat) : (q.enq c).callers = q.callers ++ [c] := by
  rw [enq_eq q h c]
  cases hq : q.callers <;> simp

structure IdInv (s : St) : Prop where
  objIds : ∀ (i : Nat) (o : Obj), s.objs[i]? = some o → ∀ id ∈ o.q.callers, (id, o.key) ∈ s.issued
  callIds : ∀ c ∈ s.calls, (c.id, c.key) ∈ s.issued
  bound : ∀ p ∈ s.issued, p.1 ≤ s.next
  func : ∀ id k k', (id, k) ∈ s.issued → (id, k') ∈ s.issued → k = k'

theorem idinv_init : IdInv init := by
  constructor <;> simp [init]

theorem idinv_step (cfg : Cfg) (hu : cfg.uniqueIds = true) (s : St) (a : Act) (s' : St)
    (hI : Inv cfg s) (hU : IdInv s) (hs : step cfg s a = some s') : IdInv s' := by
  obtain ⟨hO, hC, hB, hF⟩ := hU
  cases a with
  | call id k =>
    simp only [step, hu, if_true] at hs
    split at hs
    · rename_i hlt
      simp at hs; subst hs
      refine ⟨?_, ?_, ?_, ?_⟩
      · intro i o ho x hx; exact List.mem_append_left _ (hO i o ho x hx)
      · intro c hc
        rcases List.mem_append.mp hc with hc | hc
        · exact List.mem_append_left _ (hC c hc)
        · simp at hc; subst hc; simp
      · intro p hp
        show p.1 ≤ max s.next id
        rcases List.mem_append.mp hp with hp | hp
        · have := hB p hp; omega
        · simp at hp; subst hp; simp; omega
      · intro x k1 k2 h1 h2
        rcases List.mem_append.mp h1 with h1 | h1 <;> rcases List.mem_append.mp h2 with h2 | h2
        · exact hF x k1 k2 h1 h2
        · simp at h2; have := hB _ h1; simp at this; omega
        · simp at h1; have := hB _ h2; simp at this; omega
        · simp at h1 h2; rw [h1.2, h2.2]
    · simp at hs
  | getQueue id k =>
    simp only [step] at hs
    split at hs
    · rename_i hm
      have hid := hC _ hm
      cases hl : s.map.lookup k with
      | some i =>
        simp only [hl] at hs; simp at hs; subst hs
        refine ⟨hO, ?_, hB, hF⟩
        intro c hc
        rcases List.mem_append.mp hc with hc | hc
        · exact hC c (List.mem_of_mem_erase hc)
        · simp at hc; subst hc; exact hid
      | none =>
        simp only [hl] at hs; simp at hs; subst hs
        refine ⟨?_, ?_, hB, hF⟩
        · intro i o ho x hx
          dsimp only at ho
          rw [List.getElem?_append] at ho
          split at ho
          · exact hO i o ho x hx
          · cases hj : i - s.objs.length with
            | zero => rw [hj] at ho; simp at ho; subst ho; simp [Q.empty] at hx
            | succ n => rw [hj] at ho; simp at ho
        · intro c hc
          rcases List.mem_append.mp hc with hc | hc
          · exact hC c (List.mem_of_mem_erase hc)
          · simp at hc; subst hc; exact hid
    · simp at hs
  | enqueue id k i =>
    simp only [step] at hs
    split at hs
    · rename_i hm
      have hid := hC _ hm
      cases ho : s.objs[i]? with
      | none => simp [ho] at hs
      | some o =>
        simp only [ho] at hs
        have hkey : o.key = k := by
          obtain ⟨o', ho', hk⟩ := hI.callPtr _ hm i rfl
          rw [ho] at ho'; simp at ho'; subst ho'; exact hk
        split at hs
        · simp at hs; subst hs
          refine ⟨hO, ?_, hB, hF⟩
          intro c hc
          rcases List.mem_append.mp hc with hc | hc
          · exact hC c (List.mem_of_mem_erase hc)
          · simp at hc; subst hc; exact hid
        · simp at hs; subst hs
          refine ⟨?_, ?_, hB, hF⟩
          · intro j o' ho' x hx
            rcases get_set _ _ _ _ _ ho' with ⟨_, he, _⟩ | ⟨_, hold⟩
            · subst he
              rw [enq_callers o.q (hI.obj i o ho).qinv id] at hx
              rcases List.mem_append.mp hx with hx | hx
              · exact hO i o ho x hx
              · simp at hx; subst hx; show (x, o.key) ∈ s.issued; rw [hkey]; exact hid
            · exact hO j o' hold x hx
          · intro c hc; exact hC c (List.mem_of_mem_erase hc)
    · simp at hs
  | remove id i =>
    simp only [step] at hs
    cases ho : s.objs[i]? with
    | none => simp [ho] at hs; subst hs; exact ⟨hO, hC, hB, hF⟩
    | some o =>
      simp only [ho] at hs
      have sub := rem_callers_subset o.q (hI.obj i o ho).qinv id
      split at hs <;> simp at hs <;> subst hs
      · refine ⟨?_, hC, hB, hF⟩
        intro j o' ho' x hx
        rcases get_set _ _ _ _ _ ho' with ⟨_, he, _⟩ | ⟨_, hold⟩
        · subst he; exact hO i o ho x (sub x hx)
        · exact hO j o' hold x hx
      · refine ⟨?_, hC, hB, hF⟩
        intro j o' ho' x hx
        rcases get_set _ _ _ _ _ ho' with ⟨_, he, _⟩ | ⟨_, hold⟩
        · subst he; exact hO i o ho x (sub x hx)
        · exact hO j o' hold x hx
  | unmap i =>
    simp only [step] at hs
    split at hs
    · simp at hs; subst hs; exact ⟨hO, hC, hB, hF⟩
    · simp at hs

end Hv.LockMap
