/-
  Object identity under a key (C09, second witness family).

  `IncrementXxx` / `PatchFields` / `Set` fetch the treasure object of a key *before* they take
  its guard (`beaconKey.Get(key)` or `CreateTreasure(key)`); `deleteHandler` removes the object
  from the key beacon under the object's guard.  An increment that fetched the object, then
  lost the race for the guard against a delete, continues on the orphaned object; its `Save`
  finds no object under the key (`existedTreasureObj == nil`) and re-inserts the orphan.

  One key.  Objects are numbers; `live` is the object in the key beacon; `content o = none` is
  a void record.  `persisted` (a run-time circumstance, not a code fact): `deleteHandler` clears
  the content of a record that has a file pointer (`BodySetForDeletion`), and leaves the content
  of a never-written record alone.  The per-object guard is abstracted to a lock (its
  exclusivity is C15 + `exclusive_with_double_release`).
-/
import Hv.Basic.LTS

namespace Hv.Stale

inductive Kind where
  | inc (d : Int)
  | del
  deriving DecidableEq, Repr

inductive Resp where
  | val (v : Int)
  | deleted
  | notFound
  deriving DecidableEq, Repr

structure Cfg where
  /-- after taking the guard the body checks that its object is still the key's object and
      otherwise starts over -/
  recheck : Bool
  deriving DecidableEq, Repr

structure TSt where
  pc : Nat
  obj : Nat
  loc : Int
  deriving DecidableEq, Repr

structure Entry where
  tid : Nat
  resp : Resp
  deriving DecidableEq, Repr

structure St where
  content : Nat → Option Int
  live : Option Nat
  /-- `creatingTreasures`: object handed out by `CreateTreasure` and not saved yet -/
  inflight : Option Nat
  nextObj : Nat
  lock : Nat → Option Nat
  th : Nat → TSt
  /-- completed operations in completion order -/
  log : List Entry

def init (v0 : Int) : St :=
  { content := fun o => if o = 0 then some v0 else none, live := some 0, inflight := none, nextObj := 1,
    lock := fun _ => none, th := fun _ => { pc := 0, obj := 0, loc := 0 }, log := [] }

def setF {α : Type} (f : Nat → α) (k : Nat) (v : α) : Nat → α := fun k' => if k' = k then v else f k'

def isKeyObj (s : St) (o : Nat) : Bool := s.live == some o || s.inflight == some o

def stepInc (cfg : Cfg) (d : Int) (s : St) (t : Nat) : Option St :=
  let ts := s.th t
  match ts.pc with
  | 0 =>      -- beaconKey.Get(key) / CreateTreasure(key)
    match s.live, s.inflight with
    | some o, _ => some { s with th := setF s.th t { ts with pc := 1, obj := o } }
    | none, some o => some { s with th := setF s.th t { ts with pc := 1, obj := o } }
    | none, none =>
      some { s with th := setF s.th t { ts with pc := 1, obj := s.nextObj }, inflight := some s.nextObj,
                    content := setF s.content s.nextObj none, nextObj := s.nextObj + 1 }
  | 1 =>      -- StartTreasureGuard(true)
    match s.lock ts.obj with
    | some _ => none
    | none =>
      if cfg.recheck && !isKeyObj s ts.obj then some { s with th := setF s.th t { ts with pc := 0 } }
      else some { s with lock := setF s.lock ts.obj (some t), th := setF s.th t { ts with pc := 2 } }
  | 2 =>      -- GetContentType / GetContentInt64: a void record counts from 0
    some { s with th := setF s.th t { ts with pc := 3, loc := (s.content ts.obj).getD 0 } }
  | 3 =>      -- SetContentInt64; Save → SaveFunction
    let v := ts.loc + d
    let s1 := { s with content := setF s.content ts.obj (some v), th := setF s.th t { ts with pc := 4 },
                       log := s.log ++ [{ tid := t, resp := .val v }] }
    match s.live with
    | none => some { s1 with live := some ts.obj, inflight := if s.inflight == some ts.obj then none else s.inflight }
    | some _ => some s1
  | 4 => some { s with lock := setF s.lock ts.obj none, th := setF s.th t { ts with pc := 5 } }
  | _ => none

def stepDel (cfg : Cfg) (persisted : Bool) (s : St) (t : Nat) : Option St :=
  let ts := s.th t
  match ts.pc with
  | 0 =>      -- DeleteTreasure: IsExists / deleteHandler: beaconKey.Get
    match s.live with
    | none => some { s with th := setF s.th t { ts with pc := 5 }, log := s.log ++ [{ tid := t, resp := .notFound }] }
    | some o => some { s with th := setF s.th t { ts with pc := 1, obj := o } }
  | 1 =>
    match s.lock ts.obj with
    | some _ => none
    | none =>
      if cfg.recheck && !(s.live == some ts.obj) then some { s with th := setF s.th t { ts with pc := 0 } }
      else some { s with lock := setF s.lock ts.obj (some t), th := setF s.th t { ts with pc := 2 } }
  | 2 =>      -- beaconKey.Delete; BodySetForDeletion clears the content of a persisted record
    some { s with live := if s.live == some ts.obj then none else s.live,
                  content := if persisted then setF s.content ts.obj none else s.content,
                  th := setF s.th t { ts with pc := 4 }, log := s.log ++ [{ tid := t, resp := .deleted }] }
  | 4 => some { s with lock := setF s.lock ts.obj none, th := setF s.th t { ts with pc := 5 } }
  | _ => none

def step (cfg : Cfg) (persisted : Bool) (kinds : Nat → Kind) (s : St) (t : Nat) : Option St :=
  match kinds t with
  | .inc d => stepInc cfg d s t
  | .del => stepDel cfg persisted s t

abbrev run (cfg : Cfg) (persisted : Bool) (kinds : Nat → Kind) := LTS.run (step cfg persisted kinds)

/-- what a client reads back once everything is quiet -/
def final (s : St) : Option Int := s.live.map (fun o => (s.content o).getD 0)

/-- Sequential Spec of one key: a register that may be absent. -/
def specStep (kinds : Nat → Kind) (v : Option Int) (e : Entry) : Option (Option Int) :=
  match kinds e.tid with
  | .inc d => if e.resp = .val (v.getD 0 + d) then some (some (v.getD 0 + d)) else none
  | .del =>
    match v with
    | some _ => if e.resp = .deleted then some none else none
    | none => if e.resp = .notFound then some none else none

def specReplay (kinds : Nat → Kind) : Option Int → List Entry → Option (Option Int)
  | v, [] => some v
  | v, e :: l => match specStep kinds v e with
    | some v' => specReplay kinds v' l
    | none => none

/-- Some serial order of the completed operations explains every response and the final
    state (real-time order is not even required here: the witness refutes the weaker claim). -/
def Linearizable (kinds : Nat → Kind) (v0 : Int) (s : St) : Prop :=
  ∃ order, order.Perm s.log ∧ specReplay kinds (some v0) order = some (final s)

end Hv.Stale
