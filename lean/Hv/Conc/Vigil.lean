/-
  Model of app/core/hydra/swamp/vigil/vigil.go together with Go's `sync.Cond`.

  `sync.Cond.Wait` is not atomic.  With `L` held it is
      t := notifyListAdd(&c.notify)      -- take a ticket          (action `wAdd`,  L held)
      c.L.Unlock(); notifyListWait(t)    -- release L and sleep     (action `wPark`)
      c.L.Lock()                         -- after a wake-up         (action `wLock` from `woken`)
  and `Broadcast` wakes every ticket taken so far (a waiter that has its ticket but is not
  asleep yet returns from `notifyListWait` at once).  So a broadcast between the waiter's
  *check* and its `wAdd` is lost; one between `wAdd` and `wPark` is not.

  Operations are anonymous: `vigils` = begun and not yet decremented, `pendingB` = decremented
  and not yet broadcast.  `cfg.decUnderLock`: `CeaseVigil` takes `v.mu` around the decrement
  (actions `cLock; cDec; cUnlock; bcast`) — otherwise it is `cDec; bcast` with no lock.

  The same waiter shape is `Destroy`'s drain; after it, `wCancel` is its
  `goRoutineCancelFunction()` and `gReturn` a `WaitForGracefulClose` returning (a context is a
  latch: waiting on a cancelled one never blocks).
-/
import Hv.Basic.LTS

namespace Hv.Vigil

structure Cfg where
  /-- `cond.L.Lock()` dominates the `AddInt64(-1)` in `CeaseVigil` -/
  decUnderLock : Bool
  /-- `HasActiveVigils` is `vigils > 0` (not `>= 0`) -/
  checkStrict : Bool
  deriving DecidableEq, Repr

inductive LockSt where
  | free
  | waiter (w : Nat)
  | ceaser (decDone : Bool)
  deriving DecidableEq, Repr

inductive WPc where
  | idle | locked | checked | added | parked | woken | done
  deriving DecidableEq, Repr

structure St where
  vigils : Nat
  pendingB : Nat
  lock : LockSt
  wpc : Nat → WPc
  notify : List Nat
  /-- the drain's owner has called `goRoutineCancelFunction()` -/
  cancelled : Bool
  /-- number of `WaitForGracefulClose` calls that returned -/
  gReturned : Nat

def init : St :=
  { vigils := 0, pendingB := 0, lock := .free, wpc := fun _ => .idle, notify := [], cancelled := false, gReturned := 0 }

inductive Act where
  | begin
  | cLock | cDec | cUnlock
  | bcast
  | wLock (w : Nat) | wCheck (w : Nat) | wAdd (w : Nat) | wPark (w : Nat)
  | wCancel (w : Nat)
  | gReturn
  deriving DecidableEq, Repr

def setPc (s : St) (w : Nat) (pc : WPc) : Nat → WPc := fun x => if x = w then pc else s.wpc x

def step (cfg : Cfg) (s : St) : Act → Option St
  | .begin => some { s with vigils := s.vigils + 1 }
  | .cLock =>
    if cfg.decUnderLock ∧ s.lock = .free ∧ 0 < s.vigils then some { s with lock := .ceaser false } else none
  | .cDec =>
    if cfg.decUnderLock then
      if s.lock = .ceaser false ∧ 0 < s.vigils then
        some { s with lock := .ceaser true, vigils := s.vigils - 1, pendingB := s.pendingB + 1 }
      else none
    else
      if 0 < s.vigils then some { s with vigils := s.vigils - 1, pendingB := s.pendingB + 1 } else none
  | .cUnlock => if s.lock = .ceaser true then some { s with lock := .free } else none
  | .bcast =>
    -- the broadcasting ceaser has released the mutex already
    if (if s.lock = .ceaser true then 1 else 0) < s.pendingB then
      some { s with pendingB := s.pendingB - 1, notify := [],
                    wpc := fun x => if x ∈ s.notify ∧ s.wpc x = .parked then .woken else s.wpc x }
    else none
  | .wLock w =>
    if (s.wpc w = .idle ∨ s.wpc w = .woken) ∧ s.lock = .free then
      some { s with lock := .waiter w, wpc := setPc s w .locked }
    else none
  | .wCheck w =>
    if s.wpc w = .locked then
      if 0 < s.vigils ∨ cfg.checkStrict = false then some { s with wpc := setPc s w .checked }
      else some { s with wpc := setPc s w .done, lock := .free }
    else none
  | .wAdd w =>
    if s.wpc w = .checked then some { s with wpc := setPc s w .added, notify := s.notify ++ [w] } else none
  | .wPark w =>
    if s.wpc w = .added then
      some { s with lock := .free, wpc := setPc s w (if w ∈ s.notify then .parked else .woken) }
    else none
  | .wCancel w => if s.wpc w = .done then some { s with cancelled := true } else none
  | .gReturn => if s.cancelled then some { s with gReturned := s.gReturned + 1 } else none

abbrev run (cfg : Cfg) := LTS.run (step cfg)

/-- a waiter sleeps, every operation has finished, nobody is going to broadcast -/
def Stuck (s : St) : Prop :=
  ∃ w, s.wpc w = .parked ∧ w ∈ s.notify ∧ s.vigils = 0 ∧ s.pendingB = 0

/-- decidable form for one waiter (used by the driver and the closed witness) -/
def stuckB (s : St) (w : Nat) : Bool :=
  s.wpc w == .parked && s.notify.contains w && s.vigils == 0 && s.pendingB == 0

/-! ### defer balance of the RPC handler shapes -/

/-- the statements of a handler that touch the two counters, in source order -/
inductive Tok where
  /-- `LockSystem()` immediately followed by `defer UnlockSystem()` -/
  | sysPair
  /-- `x.BeginVigil()` immediately followed by `defer x.CeaseVigil()` -/
  | vigPair
  /-- `defer handlePanic()` -/
  | recover
  | sysLock | sysUnlockDefer | sysUnlockNow
  | vigBegin | vigCeaseDefer | vigCeaseNow
  /-- a call into one of the swamp methods that auto-destroy an emptied swamp
      (`DeleteTreasure`, `CloneAndDelete…`): when it fires, the method itself runs
      `s.CeaseVigil(); s.Destroy()` on the caller's vigil — the caller's deferred CeaseVigil then
      runs once more on the destroyed instance -/
  | autoDestroy
  deriving DecidableEq, Repr

structure Counters where
  sys : Int
  vig : Int
  deriving DecidableEq, Repr

/-- a deferred call -/
inductive Deferred where
  | unlockSys | ceaseVig | recover
  deriving DecidableEq, Repr

def runDeferred (c : Counters) : Deferred → Counters
  | .unlockSys => { c with sys := c.sys - 1 }
  | .ceaseVig => { c with vig := c.vig - 1 }
  | .recover => c

/-- does the auto-destroy branch fire in this execution (the swamp became empty) -/
abbrev Fires := Bool

/-- execute one statement: new counters and the defer stack (most recent first) -/
def execTok (fires : Fires) (c : Counters) (ds : List Deferred) : Tok → Counters × List Deferred
  | .autoDestroy => (if fires then { c with vig := c.vig - 1 } else c, ds)
  | .sysPair => ({ c with sys := c.sys + 1 }, .unlockSys :: ds)
  | .vigPair => ({ c with vig := c.vig + 1 }, .ceaseVig :: ds)
  | .recover => (c, .recover :: ds)
  | .sysLock => ({ c with sys := c.sys + 1 }, ds)
  | .sysUnlockDefer => (c, .unlockSys :: ds)
  | .sysUnlockNow => ({ c with sys := c.sys - 1 }, ds)
  | .vigBegin => ({ c with vig := c.vig + 1 }, ds)
  | .vigCeaseDefer => (c, .ceaseVig :: ds)
  | .vigCeaseNow => ({ c with vig := c.vig - 1 }, ds)

/-- run the statements, then unwind the defer stack (a `return` and a panic unwind alike;
    every deferred call runs, LIFO) -/
def execShape (fires : Fires) : Counters → List Deferred → List Tok → Counters
  | c, ds, [] => ds.foldl runDeferred c
  | c, ds, t :: ts => let r := execTok fires c ds t; execShape fires r.1 r.2 ts

/-- the handler leaves at statement boundary `n` (early return, or a panic in the code that
    follows the `n`-th counted statement) -/
def exitAt (shape : List Tok) (n : Nat) (c : Counters) (fires : Fires := false) : Counters :=
  execShape fires c [] (shape.take n)

/-- only paired statements, recovers and calls that may auto-destroy -/
def Paired (shape : List Tok) : Bool :=
  shape.all fun t => t == .sysPair || t == .vigPair || t == .recover || t == .autoDestroy

/-- `Close()` of an idle swamp, followed by a `WaitForGracefulClose` caller: the closer (thread 0;
    `Close` has no drain, the vigil check stands for "nothing in flight") reaches its cancel — or
    returns early without it — and the waiter then tries to return -/
def closeTrace (alwaysCancels : Bool) : List Act :=
  [.wLock 0, .wCheck 0] ++ (if alwaysCancels then [.wCancel 0] else []) ++ [.gReturn]

/-- the auto-destroy code path of one goroutine that holds a vigil on the swamp: (cease its own
    vigil,) then the drain; with no other operation in flight -/
def autoDestroyTrace (cfg : Cfg) (ceaseFirst : Bool) : List Act :=
  [.begin] ++
  (if ceaseFirst then (if cfg.decUnderLock then [.cLock, .cDec, .cUnlock] else [.cDec]) ++ [.bcast] else []) ++
  [.wLock 0, .wCheck 0] ++ (if ceaseFirst then [] else [.wAdd 0, .wPark 0])

end Hv.Vigil
