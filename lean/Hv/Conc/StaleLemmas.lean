/-
  The repaired object protocol (`recheck = true`): after taking the guard of the object it
  fetched, an operation checks that the object is still the key's object (in the key index, or
  the in-flight object of `CreateTreasure`) and otherwise starts over.  Invariant: the log of
  completed operations, in completion order, replays on the register Spec to exactly the state
  a client would read now.  Property theorems are in `Hv/Props/C09.lean`.
-/
import Hv.Conc.Stale

namespace Hv.Stale

def repaired : Cfg := { recheck := true }

theorem setF_same {α : Type} (f : Nat → α) (k : Nat) (v : α) : setF f k v k = v := by simp [setF]
theorem setF_other {α : Type} (f : Nat → α) (k k' : Nat) (v : α) (h : k' ≠ k) : setF f k v k' = f k' := by simp [setF, h]

def InCS (s : St) (t : Nat) : Prop := (s.th t).pc = 2 ∨ (s.th t).pc = 3 ∨ (s.th t).pc = 4

structure Inv (kinds : Nat → Kind) (v0 : Int) (s : St) : Prop where
  replay : specReplay kinds (some v0) s.log = some (final s)
  holdLock : ∀ t, InCS s t → s.lock (s.th t).obj = some t
  lockOwner : ∀ o t, s.lock o = some t → InCS s t ∧ (s.th t).obj = o
  keyInc : ∀ t d, kinds t = .inc d → ((s.th t).pc = 2 ∨ (s.th t).pc = 3) → isKeyObj s (s.th t).obj = true
  keyDel : ∀ t, kinds t = .del → (s.th t).pc = 2 → s.live = some (s.th t).obj
  delPc : ∀ t, kinds t = .del → (s.th t).pc ≠ 3
  liveInfl : ∀ o, s.live = some o → s.inflight = none
  locOk : ∀ t d, kinds t = .inc d → (s.th t).pc = 3 → (s.th t).loc = (s.content (s.th t).obj).getD 0
  inflVoid : ∀ o, s.inflight = some o → s.content o = none
  freshL : ∀ o, s.live = some o → o < s.nextObj
  freshI : ∀ o, s.inflight = some o → o < s.nextObj
  freshT : ∀ t, 1 ≤ (s.th t).pc → (s.th t).pc ≤ 4 → (s.th t).obj < s.nextObj

theorem inv_init (kinds : Nat → Kind) (v0 : Int) : Inv kinds v0 (init v0) := by
  refine ⟨?_, ?_, ?_, ?_, ?_, ?_, ?_, ?_, ?_, ?_, ?_, ?_⟩ <;> simp [init, specReplay, final, InCS]

theorem replay_append (kinds : Nat → Kind) (v : Option Int) (l : List Entry) (e : Entry) :
    specReplay kinds v (l ++ [e]) = (specReplay kinds v l).bind (fun w => specStep kinds w e) := by
  induction l generalizing v with
  | nil => simp [specReplay]; cases specStep kinds v e <;> rfl
  | cons x xs ih =>
    simp only [List.cons_append, specReplay]
    cases specStep kinds v x with
    | none => rfl
    | some v' => exact ih v'

/-- two different threads are never in their critical sections on the same object -/
theorem cs_excl (kinds : Nat → Kind) (v0 : Int) (s : St) (h : Inv kinds v0 s) (t u : Nat) (ht : InCS s t) (hu : InCS s u)
    (ho : (s.th t).obj = (s.th u).obj) : t = u := by
  have h1 := h.holdLock t ht
  have h2 := h.holdLock u hu
  rw [ho, h2] at h1
  exact (Option.some.inj h1).symm

/-- a step that rewrites only thread `t`'s record, `t` being outside its critical section before and after -/
theorem inv_outside (kinds : Nat → Kind) (v0 : Int) (s : St) (t : Nat) (nts : TSt) (h : Inv kinds v0 s)
    (hold : ¬ InCS s t) (hnew : nts.pc = 0 ∨ nts.pc = 1 ∨ nts.pc = 5)
    (hfresh : nts.pc = 1 → nts.obj < s.nextObj) (log' : List Entry)
    (hrep : specReplay kinds (some v0) log' = some (final s)) :
    Inv kinds v0 { s with th := setF s.th t nts, log := log' } := by
  have hth : ∀ u, u ≠ t → setF s.th t nts u = s.th u := fun u hu => setF_other _ _ _ _ hu
  have htt : setF s.th t nts t = nts := setF_same _ _ _
  have hcs : ∀ u, InCS { s with th := setF s.th t nts, log := log' } u → u ≠ t ∧ InCS s u := by
    intro u hu
    by_cases hut : u = t
    · subst hut
      simp only [InCS, htt] at hu
      rcases hnew with h0 | h0 | h0 <;> omega
    · simp only [InCS, hth u hut] at hu; exact ⟨hut, hu⟩
  refine ⟨hrep, ?_, ?_, ?_, ?_, ?_, h.liveInfl, ?_, h.inflVoid, h.freshL, h.freshI, ?_⟩
  · intro u hu
    obtain ⟨hut, hu'⟩ := hcs u hu
    show s.lock (setF s.th t nts u).obj = some u
    rw [hth u hut]; exact h.holdLock u hu'
  · intro o u hl
    have := h.lockOwner o u hl
    have hut : u ≠ t := fun e => hold (e ▸ this.1)
    refine ⟨?_, ?_⟩
    · simp only [InCS, hth u hut]; exact this.1
    · show (setF s.th t nts u).obj = o; rw [hth u hut]; exact this.2
  · intro u d hk hp
    by_cases hut : u = t
    · subst hut; simp only [htt] at hp; rcases hnew with h0 | h0 | h0 <;> omega
    · simp only [hth u hut] at hp ⊢; exact h.keyInc u d hk hp
  · intro u hk hp
    by_cases hut : u = t
    · subst hut; simp only [htt] at hp; rcases hnew with h0 | h0 | h0 <;> omega
    · simp only [hth u hut] at hp ⊢; exact h.keyDel u hk hp
  · intro u hk
    by_cases hut : u = t
    · subst hut; simp only [htt]; rcases hnew with h0 | h0 | h0 <;> omega
    · simp only [hth u hut]; exact h.delPc u hk
  · intro u d hk hp
    by_cases hut : u = t
    · subst hut; simp only [htt] at hp; rcases hnew with h0 | h0 | h0 <;> omega
    · simp only [hth u hut] at hp ⊢; exact h.locOk u d hk hp
  · intro u h1 h4
    by_cases hut : u = t
    · subst hut; simp only [htt] at h1 h4 ⊢
      rcases hnew with h0 | h0 | h0
      · omega
      · exact hfresh h0
      · omega
    · simp only [hth u hut] at h1 h4 ⊢; exact h.freshT u h1 h4

/-- leaving the critical section: release the guard, pc 4 → 5 -/
theorem inv_release (kinds : Nat → Kind) (v0 : Int) (s : St) (t : Nat) (h : Inv kinds v0 s) (hpc : (s.th t).pc = 4) :
    Inv kinds v0 { s with lock := setF s.lock (s.th t).obj none, th := setF s.th t { s.th t with pc := 5 } } := by
  have hth : ∀ u, u ≠ t → setF s.th t { s.th t with pc := 5 } u = s.th u := fun u hu => setF_other _ _ _ _ hu
  have htt : setF s.th t { s.th t with pc := 5 } t = { s.th t with pc := 5 } := setF_same _ _ _
  have htcs : InCS s t := Or.inr (Or.inr hpc)
  have hne : ∀ u, u ≠ t → InCS s u → (s.th u).obj ≠ (s.th t).obj :=
    fun u hut hu ho => hut (cs_excl kinds v0 s h u t hu htcs ho)
  refine ⟨h.replay, ?_, ?_, ?_, ?_, ?_, h.liveInfl, ?_, h.inflVoid, h.freshL, h.freshI, ?_⟩
  · intro u hu
    by_cases hut : u = t
    · subst hut; simp only [InCS, htt] at hu; omega
    · simp only [InCS, hth u hut] at hu
      show setF s.lock (s.th t).obj none (setF s.th t _ u).obj = some u
      rw [hth u hut, setF_other _ _ _ _ (hne u hut hu)]; exact h.holdLock u hu
  · intro o u hl
    have hl' : setF s.lock (s.th t).obj none o = some u := hl
    by_cases ho : o = (s.th t).obj
    · rw [ho, setF_same] at hl'; simp at hl'
    · rw [setF_other _ _ _ _ ho] at hl'
      have := h.lockOwner o u hl'
      have hut : u ≠ t := fun e => ho (by rw [← this.2, e])
      exact ⟨by simp only [InCS, hth u hut]; exact this.1, by show (setF s.th t _ u).obj = o; rw [hth u hut]; exact this.2⟩
  · intro u d hk hp
    by_cases hut : u = t
    · subst hut; simp only [htt] at hp; omega
    · simp only [hth u hut] at hp ⊢; exact h.keyInc u d hk hp
  · intro u hk hp
    by_cases hut : u = t
    · subst hut; simp only [htt] at hp; omega
    · simp only [hth u hut] at hp ⊢; exact h.keyDel u hk hp
  · intro u hk
    by_cases hut : u = t
    · subst hut; simp only [htt]; omega
    · simp only [hth u hut]; exact h.delPc u hk
  · intro u d hk hp
    by_cases hut : u = t
    · subst hut; simp only [htt] at hp; omega
    · simp only [hth u hut] at hp ⊢; exact h.locOk u d hk hp
  · intro u h1 h4
    by_cases hut : u = t
    · subst hut; simp only [htt] at h4; omega
    · simp only [hth u hut] at h1 h4 ⊢; exact h.freshT u h1 h4

/-- entering the critical section: the guard is free, the re-check passed, pc 1 → 2 -/
theorem inv_acquire (kinds : Nat → Kind) (v0 : Int) (s : St) (t : Nat) (h : Inv kinds v0 s) (hpc : (s.th t).pc = 1)
    (hfree : s.lock (s.th t).obj = none)
    (hinc : ∀ d, kinds t = .inc d → isKeyObj s (s.th t).obj = true)
    (hdel : kinds t = .del → s.live = some (s.th t).obj) :
    Inv kinds v0 { s with lock := setF s.lock (s.th t).obj (some t), th := setF s.th t { s.th t with pc := 2 } } := by
  have hth : ∀ u, u ≠ t → setF s.th t { s.th t with pc := 2 } u = s.th u := fun u hu => setF_other _ _ _ _ hu
  have htt : setF s.th t { s.th t with pc := 2 } t = { s.th t with pc := 2 } := setF_same _ _ _
  have hne : ∀ u, InCS s u → (s.th u).obj ≠ (s.th t).obj := by
    intro u hu ho; have := h.holdLock u hu; rw [ho, hfree] at this; simp at this
  refine ⟨h.replay, ?_, ?_, ?_, ?_, ?_, h.liveInfl, ?_, h.inflVoid, h.freshL, h.freshI, ?_⟩
  · intro u hu
    by_cases hut : u = t
    · subst hut
      show setF s.lock (s.th u).obj (some u) (setF s.th u _ u).obj = some u
      rw [htt]; exact setF_same _ _ _
    · simp only [InCS, hth u hut] at hu
      show setF s.lock (s.th t).obj (some t) (setF s.th t _ u).obj = some u
      rw [hth u hut, setF_other _ _ _ _ (hne u hu)]; exact h.holdLock u hu
  · intro o u hl
    have hl' : setF s.lock (s.th t).obj (some t) o = some u := hl
    by_cases ho : o = (s.th t).obj
    · rw [ho, setF_same] at hl'
      have : t = u := Option.some.inj hl'
      subst this
      exact ⟨by simp [InCS, htt], by show (setF s.th t _ t).obj = o; rw [htt, ho]⟩
    · rw [setF_other _ _ _ _ ho] at hl'
      have := h.lockOwner o u hl'
      have hut : u ≠ t := by
        intro e; have h2 := this.1; rw [e] at h2; simp only [InCS] at h2; omega
      exact ⟨by simp only [InCS, hth u hut]; exact this.1, by show (setF s.th t _ u).obj = o; rw [hth u hut]; exact this.2⟩
  · intro u d hk hp
    by_cases hut : u = t
    · subst hut; simp only [htt]; exact hinc d hk
    · simp only [hth u hut] at hp ⊢; exact h.keyInc u d hk hp
  · intro u hk hp
    by_cases hut : u = t
    · subst hut; simp only [htt]; exact hdel hk
    · simp only [hth u hut] at hp ⊢; exact h.keyDel u hk hp
  · intro u hk
    by_cases hut : u = t
    · subst hut; simp only [htt]; simp
    · simp only [hth u hut]; exact h.delPc u hk
  · intro u d hk hp
    by_cases hut : u = t
    · subst hut; simp only [htt] at hp; simp at hp
    · simp only [hth u hut] at hp ⊢; exact h.locOk u d hk hp
  · intro u h1 h4
    by_cases hut : u = t
    · subst hut; simp only [htt]; exact h.freshT u (by omega) (by omega)
    · simp only [hth u hut] at h1 h4 ⊢; exact h.freshT u h1 h4

/-- `CreateTreasure` when the key has neither a live nor an in-flight object -/
theorem inv_create (kinds : Nat → Kind) (v0 : Int) (s : St) (t : Nat) (h : Inv kinds v0 s) (hpc : (s.th t).pc = 0)
    (hl : s.live = none) (hi : s.inflight = none) :
    Inv kinds v0 { s with th := setF s.th t { s.th t with pc := 1, obj := s.nextObj }, inflight := some s.nextObj,
                          content := setF s.content s.nextObj none, nextObj := s.nextObj + 1 } := by
  have hth : ∀ u, u ≠ t → setF s.th t { s.th t with pc := 1, obj := s.nextObj } u = s.th u := fun u hu => setF_other _ _ _ _ hu
  have htt : setF s.th t { s.th t with pc := 1, obj := s.nextObj } t = { s.th t with pc := 1, obj := s.nextObj } := setF_same _ _ _
  have hnokey : ∀ o, isKeyObj s o = false := by intro o; simp [isKeyObj, hl, hi]
  have hno23 : ∀ u d, kinds u = .inc d → ¬ ((s.th u).pc = 2 ∨ (s.th u).pc = 3) := by
    intro u d hk hp; have := h.keyInc u d hk hp; rw [hnokey] at this; simp at this
  have hntcs : ¬ InCS s t := by simp only [InCS]; omega
  refine ⟨?_, ?_, ?_, ?_, ?_, ?_, ?_, ?_, ?_, ?_, ?_, ?_⟩
  · have := h.replay; simp only [final, hl] at this ⊢; exact this
  · intro u hu
    by_cases hut : u = t
    · subst hut; simp only [InCS, htt] at hu; omega
    · simp only [InCS, hth u hut] at hu
      show s.lock (setF s.th t _ u).obj = some u
      rw [hth u hut]; exact h.holdLock u hu
  · intro o u hlk
    have := h.lockOwner o u hlk
    have hut : u ≠ t := fun e => hntcs (e ▸ this.1)
    exact ⟨by simp only [InCS, hth u hut]; exact this.1, by show (setF s.th t _ u).obj = o; rw [hth u hut]; exact this.2⟩
  · intro u d hk hp
    by_cases hut : u = t
    · subst hut; simp only [htt] at hp; omega
    · simp only [hth u hut] at hp; exact absurd hp (hno23 u d hk)
  · intro u hk hp
    by_cases hut : u = t
    · subst hut; simp only [htt] at hp; omega
    · simp only [hth u hut] at hp
      have := h.keyDel u hk hp; rw [hl] at this; simp at this
  · intro u hk
    by_cases hut : u = t
    · subst hut; simp only [htt]; omega
    · simp only [hth u hut]; exact h.delPc u hk
  · intro o ho; have : s.live = some o := ho; rw [hl] at this; simp at this
  · intro u d hk hp
    by_cases hut : u = t
    · subst hut; simp only [htt] at hp; omega
    · simp only [hth u hut] at hp; exact absurd (Or.inr hp) (hno23 u d hk)
  · intro o ho
    have : some s.nextObj = some o := ho
    have e : s.nextObj = o := Option.some.inj this
    show setF s.content s.nextObj none o = none
    rw [← e]; exact setF_same _ _ _
  · intro o ho; have : s.live = some o := ho; rw [hl] at this; simp at this
  · intro o ho
    have : some s.nextObj = some o := ho
    have e : s.nextObj = o := Option.some.inj this
    show o < s.nextObj + 1; omega
  · intro u h1 h4
    show (setF s.th t _ u).obj < s.nextObj + 1
    by_cases hut : u = t
    · subst hut; rw [htt]; simp
    · have h1' : 1 ≤ (setF s.th t { s.th t with pc := 1, obj := s.nextObj } u).pc := h1
      have h4' : (setF s.th t { s.th t with pc := 1, obj := s.nextObj } u).pc ≤ 4 := h4
      rw [hth u hut] at h1' h4' ⊢; have := h.freshT u h1' h4'; omega

/-- the read inside the critical section, pc 2 → 3 -/
theorem inv_read (kinds : Nat → Kind) (v0 : Int) (s : St) (t : Nat) (d : Int) (h : Inv kinds v0 s) (hk : kinds t = .inc d)
    (hpc : (s.th t).pc = 2) :
    Inv kinds v0 { s with th := setF s.th t { s.th t with pc := 3, loc := (s.content (s.th t).obj).getD 0 } } := by
  have hth : ∀ u, u ≠ t → setF s.th t { s.th t with pc := 3, loc := (s.content (s.th t).obj).getD 0 } u = s.th u :=
    fun u hu => setF_other _ _ _ _ hu
  have htt : setF s.th t { s.th t with pc := 3, loc := (s.content (s.th t).obj).getD 0 } t =
      { s.th t with pc := 3, loc := (s.content (s.th t).obj).getD 0 } := setF_same _ _ _
  have htcs : InCS s t := Or.inl hpc
  refine ⟨h.replay, ?_, ?_, ?_, ?_, ?_, h.liveInfl, ?_, h.inflVoid, h.freshL, h.freshI, ?_⟩
  · intro u hu
    by_cases hut : u = t
    · subst hut
      show s.lock (setF s.th u _ u).obj = some u
      rw [htt]; exact h.holdLock u htcs
    · simp only [InCS, hth u hut] at hu
      show s.lock (setF s.th t _ u).obj = some u
      rw [hth u hut]; exact h.holdLock u hu
  · intro o u hlk
    have := h.lockOwner o u hlk
    by_cases hut : u = t
    · subst hut
      exact ⟨by simp [InCS, htt], by show (setF s.th u _ u).obj = o; rw [htt]; exact this.2⟩
    · exact ⟨by simp only [InCS, hth u hut]; exact this.1, by show (setF s.th t _ u).obj = o; rw [hth u hut]; exact this.2⟩
  · intro u d' hk' hp
    by_cases hut : u = t
    · subst hut; simp only [htt]; exact h.keyInc u d hk (Or.inl hpc)
    · simp only [hth u hut] at hp ⊢; exact h.keyInc u d' hk' hp
  · intro u hk' hp
    by_cases hut : u = t
    · subst hut; rw [hk] at hk'; simp at hk'
    · simp only [hth u hut] at hp ⊢; exact h.keyDel u hk' hp
  · intro u hk'
    by_cases hut : u = t
    · subst hut; rw [hk] at hk'; simp at hk'
    · simp only [hth u hut]; exact h.delPc u hk'
  · intro u d' hk' hp
    by_cases hut : u = t
    · subst hut; simp only [htt]
    · simp only [hth u hut] at hp ⊢; exact h.locOk u d' hk' hp
  · intro u h1 h4
    by_cases hut : u = t
    · subst hut; simp only [htt]; exact h.freshT u (by omega) (by omega)
    · simp only [hth u hut] at h1 h4 ⊢; exact h.freshT u h1 h4

/-- what all threads other than `t` keep when `t` (in its critical section, staying there with the same
    object) performs its write / remove step -/
theorem others_keep (kinds : Nat → Kind) (v0 : Int) (s : St) (t : Nat) (h : Inv kinds v0 s) (ht : InCS s t)
    (u : Nat) (hut : u ≠ t) (hu : InCS s u) : (s.th u).obj ≠ (s.th t).obj :=
  fun ho => hut (cs_excl kinds v0 s h u t hu ht ho)

/-- SetContent + Save, pc 3 → 4: the linearization point of an increment -/
theorem inv_save (kinds : Nat → Kind) (v0 : Int) (s : St) (t : Nat) (d : Int) (h : Inv kinds v0 s) (hk : kinds t = .inc d)
    (hpc : (s.th t).pc = 3) (s' : St)
    (hs : s' = (match s.live with
      | none => { s with content := setF s.content (s.th t).obj (some ((s.th t).loc + d)), th := setF s.th t { s.th t with pc := 4 },
                         log := s.log ++ [{ tid := t, resp := .val ((s.th t).loc + d) }], live := some (s.th t).obj,
                         inflight := if s.inflight == some (s.th t).obj then none else s.inflight }
      | some _ => { s with content := setF s.content (s.th t).obj (some ((s.th t).loc + d)), th := setF s.th t { s.th t with pc := 4 },
                           log := s.log ++ [{ tid := t, resp := .val ((s.th t).loc + d) }] })) :
    Inv kinds v0 s' := by
  have hth : ∀ u, u ≠ t → setF s.th t { s.th t with pc := 4 } u = s.th u := fun u hu => setF_other _ _ _ _ hu
  have htt : setF s.th t { s.th t with pc := 4 } t = { s.th t with pc := 4 } := setF_same _ _ _
  have htcs : InCS s t := Or.inr (Or.inl hpc)
  have hkey := h.keyInc t d hk (Or.inr hpc)
  have hloc := h.locOk t d hk hpc
  have hlock := h.holdLock t htcs
  -- facts about the threads, independent of the live / in-flight bookkeeping
  have hHold : ∀ u, InCS { s with th := setF s.th t { s.th t with pc := 4 } } u → s.lock (setF s.th t { s.th t with pc := 4 } u).obj = some u := by
    intro u hu
    by_cases hut : u = t
    · subst hut; rw [htt]; exact hlock
    · simp only [InCS, hth u hut] at hu; rw [hth u hut]; exact h.holdLock u hu
  have hOwn : ∀ o u, s.lock o = some u → InCS { s with th := setF s.th t { s.th t with pc := 4 } } u ∧ (setF s.th t { s.th t with pc := 4 } u).obj = o := by
    intro o u hl
    have := h.lockOwner o u hl
    by_cases hut : u = t
    · subst hut; exact ⟨by simp [InCS, htt], by rw [htt]; exact this.2⟩
    · exact ⟨by simp only [InCS, hth u hut]; exact this.1, by rw [hth u hut]; exact this.2⟩
  have hDelPc : ∀ u, kinds u = .del → (setF s.th t { s.th t with pc := 4 } u).pc ≠ 3 := by
    intro u hku
    by_cases hut : u = t
    · subst hut; rw [htt]; simp
    · rw [hth u hut]; exact h.delPc u hku
  have hLoc : ∀ u d', kinds u = .inc d' → (setF s.th t { s.th t with pc := 4 } u).pc = 3 →
      (setF s.th t { s.th t with pc := 4 } u).loc = (setF s.content (s.th t).obj (some ((s.th t).loc + d)) (setF s.th t { s.th t with pc := 4 } u).obj).getD 0 := by
    intro u d' hku hp
    by_cases hut : u = t
    · subst hut; rw [htt] at hp; simp at hp
    · rw [hth u hut] at hp ⊢
      rw [setF_other _ _ _ _ (others_keep kinds v0 s t h htcs u hut (Or.inr (Or.inl hp)))]
      exact h.locOk u d' hku hp
  have hFreshT : ∀ u, 1 ≤ (setF s.th t { s.th t with pc := 4 } u).pc → (setF s.th t { s.th t with pc := 4 } u).pc ≤ 4 →
      (setF s.th t { s.th t with pc := 4 } u).obj < s.nextObj := by
    intro u h1 h4
    by_cases hut : u = t
    · subst hut; rw [htt]; exact h.freshT u (by omega) (by omega)
    · rw [hth u hut] at h1 h4 ⊢; exact h.freshT u h1 h4
  cases hlv : s.live with
  | some o =>
    simp only [hlv] at hs; subst hs
    have hinf : s.inflight = none := h.liveInfl o hlv
    have hobj : o = (s.th t).obj := by
      simp [isKeyObj, hlv, hinf] at hkey; exact hkey
    refine ⟨?_, hHold, hOwn, ?_, ?_, hDelPc, ?_, hLoc, ?_, ?_, h.freshI, hFreshT⟩
    · show specReplay kinds (some v0) (s.log ++ [_]) = some (final _)
      rw [replay_append, h.replay]
      simp only [final, hlv, Option.map, Option.bind, specStep, hk]
      rw [hobj, setF_same]
      simp [hloc, hobj]
    · intro u d' hku hp
      by_cases hut : u = t
      · subst hut; simp only [htt] at hp; simp at hp
      · simp only [hth u hut] at hp ⊢
        have := h.keyInc u d' hku hp
        simpa [isKeyObj, hlv] using this
    · intro u hku hp
      by_cases hut : u = t
      · subst hut; rw [hk] at hku; simp at hku
      · simp only [hth u hut] at hp ⊢
        have := h.keyDel u hku hp; rw [hlv] at this; exact this
    · intro o' _; exact h.liveInfl o hlv
    · intro o' ho'
      have : s.inflight = some o' := ho'
      rw [hinf] at this; simp at this
    · intro o' ho'
      have : some o = some o' := ho'
      rw [← Option.some.inj this]; exact h.freshL o hlv
  | none =>
    simp only [hlv] at hs; subst hs
    have hinf : s.inflight = some (s.th t).obj := by
      simp [isKeyObj, hlv] at hkey
      cases hi : s.inflight with
      | none => simp [hi] at hkey
      | some o => simp [hi] at hkey; rw [hkey]
    have hvoid := h.inflVoid _ hinf
    have hloc0 : (s.th t).loc = 0 := by rw [hloc, hvoid]; rfl
    -- with nothing live the in-flight object is the only key object, and `t` holds its guard
    have hno23 : ∀ u, u ≠ t → ∀ d', kinds u = .inc d' → ¬ ((s.th u).pc = 2 ∨ (s.th u).pc = 3) := by
      intro u hut d' hku hp
      have := h.keyInc u d' hku hp
      simp [isKeyObj, hlv, hinf] at this
      have hu : InCS s u := by rcases hp with h2 | h2; exact Or.inl h2; exact Or.inr (Or.inl h2)
      exact others_keep kinds v0 s t h htcs u hut hu this.symm
    refine ⟨?_, hHold, hOwn, ?_, ?_, hDelPc, ?_, hLoc, ?_, ?_, ?_, hFreshT⟩
    · show specReplay kinds (some v0) (s.log ++ [_]) = some (final _)
      rw [replay_append, h.replay]
      simp only [final, hlv, Option.map, Option.bind, specStep, hk]
      rw [setF_same]
      simp [hloc0]
    · intro u d' hku hp
      by_cases hut : u = t
      · subst hut; simp only [htt] at hp; simp at hp
      · simp only [hth u hut] at hp; exact absurd hp (hno23 u hut d' hku)
    · intro u hku hp
      by_cases hut : u = t
      · subst hut; rw [hk] at hku; simp at hku
      · simp only [hth u hut] at hp
        have := h.keyDel u hku hp; rw [hlv] at this; simp at this
    · intro o' _
      show (if s.inflight == some (s.th t).obj then none else s.inflight) = none
      simp [hinf]
    · intro o' ho'
      have : (if s.inflight == some (s.th t).obj then none else s.inflight) = some o' := ho'
      simp [hinf] at this
    · intro o' ho'
      have : some (s.th t).obj = some o' := ho'
      rw [← Option.some.inj this]; exact h.freshT t (by omega) (by omega)
    · intro o' ho'
      have : (if s.inflight == some (s.th t).obj then none else s.inflight) = some o' := ho'
      simp [hinf] at this

/-- beaconKey.Delete under the guard, pc 2 → 4: the linearization point of a delete -/
theorem inv_remove (kinds : Nat → Kind) (v0 : Int) (persisted : Bool) (s : St) (t : Nat) (h : Inv kinds v0 s) (hk : kinds t = .del)
    (hpc : (s.th t).pc = 2) :
    Inv kinds v0 { s with live := if s.live == some (s.th t).obj then none else s.live,
                          content := if persisted then setF s.content (s.th t).obj none else s.content,
                          th := setF s.th t { s.th t with pc := 4 }, log := s.log ++ [{ tid := t, resp := .deleted }] } := by
  have hth : ∀ u, u ≠ t → setF s.th t { s.th t with pc := 4 } u = s.th u := fun u hu => setF_other _ _ _ _ hu
  have htt : setF s.th t { s.th t with pc := 4 } t = { s.th t with pc := 4 } := setF_same _ _ _
  have htcs : InCS s t := Or.inl hpc
  have hlv := h.keyDel t hk hpc
  have hinf := h.liveInfl _ hlv
  have hlive' : (if s.live == some (s.th t).obj then none else s.live) = none := by simp [hlv]
  -- nobody else can be working: the only key object is `t`'s
  have hnoInc : ∀ u d', kinds u = .inc d' → ¬ ((s.th u).pc = 2 ∨ (s.th u).pc = 3) := by
    intro u d' hku hp
    have := h.keyInc u d' hku hp
    simp [isKeyObj, hlv, hinf] at this
    have hu : InCS s u := by rcases hp with h2 | h2; exact Or.inl h2; exact Or.inr (Or.inl h2)
    have hut : u ≠ t := by intro e; rw [e, hk] at hku; simp at hku
    exact others_keep kinds v0 s t h htcs u hut hu this.symm
  refine ⟨?_, ?_, ?_, ?_, ?_, ?_, ?_, ?_, ?_, ?_, h.freshI, ?_⟩
  · show specReplay kinds (some v0) (s.log ++ [_]) = some (final _)
    rw [replay_append, h.replay]
    simp only [final, hlive', hlv, Option.map, Option.bind, specStep, hk]
    simp
  · intro u hu
    show s.lock (setF s.th t { s.th t with pc := 4 } u).obj = some u
    by_cases hut : u = t
    · subst hut; rw [htt]; exact h.holdLock u htcs
    · have hu' : InCS s u := by simpa only [InCS, hth u hut] using hu
      rw [hth u hut]; exact h.holdLock u hu'
  · intro o u hl
    have := h.lockOwner o u hl
    by_cases hut : u = t
    · subst hut; exact ⟨by simp [InCS, htt], by show (setF s.th u _ u).obj = o; rw [htt]; exact this.2⟩
    · exact ⟨by simp only [InCS, hth u hut]; exact this.1, by show (setF s.th t _ u).obj = o; rw [hth u hut]; exact this.2⟩
  · intro u d' hku hp
    by_cases hut : u = t
    · subst hut; rw [hk] at hku; simp at hku
    · have hp' : (s.th u).pc = 2 ∨ (s.th u).pc = 3 := by simpa only [hth u hut] using hp
      exact absurd hp' (hnoInc u d' hku)
  · intro u hku hp
    by_cases hut : u = t
    · subst hut
      have : (setF s.th u { s.th u with pc := 4 } u).pc = 2 := hp
      rw [htt] at this; simp at this
    · have hp' : (s.th u).pc = 2 := by simpa only [hth u hut] using hp
      have := h.keyDel u hku hp'
      rw [hlv] at this
      have ho : (s.th t).obj = (s.th u).obj := Option.some.inj this
      exact absurd ho.symm (others_keep kinds v0 s t h htcs u hut (Or.inl hp'))
  · intro u hku
    show (setF s.th t { s.th t with pc := 4 } u).pc ≠ 3
    by_cases hut : u = t
    · subst hut; rw [htt]; simp
    · rw [hth u hut]; exact h.delPc u hku
  · intro o ho
    have : (if s.live == some (s.th t).obj then none else s.live) = some o := ho
    rw [hlive'] at this; simp at this
  · intro u d' hku hp
    by_cases hut : u = t
    · subst hut; rw [hk] at hku; simp at hku
    · have hp' : (s.th u).pc = 3 := by simpa only [hth u hut] using hp
      exact absurd (Or.inr hp') (hnoInc u d' hku)
  · intro o ho
    have : s.inflight = some o := ho
    rw [hinf] at this; simp at this
  · intro o ho
    have : (if s.live == some (s.th t).obj then none else s.live) = some o := ho
    rw [hlive'] at this; simp at this
  · intro u h1 h4
    show (setF s.th t { s.th t with pc := 4 } u).obj < s.nextObj
    by_cases hut : u = t
    · subst hut; rw [htt]; exact h.freshT u (by omega) (by omega)
    · have h1' : 1 ≤ (setF s.th t { s.th t with pc := 4 } u).pc := h1
      have h4' : (setF s.th t { s.th t with pc := 4 } u).pc ≤ 4 := h4
      rw [hth u hut] at h1' h4' ⊢; exact h.freshT u h1' h4'

theorem inv_step (kinds : Nat → Kind) (v0 : Int) (persisted : Bool) (s : St) (t : Nat) (s' : St)
    (h : Inv kinds v0 s) (hs : step repaired persisted kinds s t = some s') : Inv kinds v0 s' := by
  simp only [step] at hs
  cases hk : kinds t with
  | inc d =>
    simp only [hk, stepInc, repaired] at hs
    split at hs
    · -- pc 0: fetch
      rename_i hpc
      have hncs : ¬ InCS s t := by simp only [InCS]; omega
      cases hl : s.live with
      | some o =>
        simp only [hl] at hs; cases hs
        have key := inv_outside kinds v0 s t { s.th t with pc := 1, obj := o } h hncs (Or.inr (Or.inl rfl))
          (fun _ => h.freshL o hl) s.log h.replay
        rw [hl] at key; exact key
      | none =>
        cases hi : s.inflight with
        | some o =>
          simp only [hl, hi] at hs; cases hs
          have key := inv_outside kinds v0 s t { s.th t with pc := 1, obj := o } h hncs (Or.inr (Or.inl rfl))
            (fun _ => h.freshI o hi) s.log h.replay
          rw [hl, hi] at key; exact key
        | none =>
          simp only [hl, hi] at hs; cases hs
          have key := inv_create kinds v0 s t h hpc hl hi
          rw [hl] at key; exact key
    · -- pc 1: guard + re-check
      rename_i hpc
      have hncs : ¬ InCS s t := by simp only [InCS]; omega
      cases hfree : s.lock (s.th t).obj with
      | some w => simp [hfree] at hs
      | none =>
        simp only [hfree] at hs
        cases hkey : isKeyObj s (s.th t).obj with
        | false =>
          simp [hkey] at hs; cases hs
          exact inv_outside kinds v0 s t { s.th t with pc := 0 } h hncs (Or.inl rfl) (fun h1 => by simp at h1) s.log h.replay
        | true =>
          simp [hkey] at hs; cases hs
          exact inv_acquire kinds v0 s t h hpc hfree (fun _ _ => hkey) (fun hd => by rw [hk] at hd; simp at hd)
    · rename_i hpc
      cases hs
      exact inv_read kinds v0 s t d h hk hpc
    · rename_i hpc
      exact inv_save kinds v0 s t d h hk hpc s' (by
        cases hlv : s.live with
        | none => simp only [hlv] at hs ⊢; exact (Option.some.inj hs).symm
        | some o => simp only [hlv] at hs ⊢; exact (Option.some.inj hs).symm)
    · rename_i hpc
      cases hs
      exact inv_release kinds v0 s t h hpc
    · simp at hs
  | del =>
    simp only [hk, stepDel, repaired] at hs
    split at hs
    · rename_i hpc
      have hncs : ¬ InCS s t := by simp only [InCS]; omega
      cases hl : s.live with
      | none =>
        simp only [hl] at hs; cases hs
        have key := inv_outside kinds v0 s t { s.th t with pc := 5 } h hncs (Or.inr (Or.inr rfl)) (fun h1 => by simp at h1)
          (s.log ++ [{ tid := t, resp := .notFound }])
          (by rw [replay_append, h.replay]; simp [final, hl, specStep, hk])
        rw [hl] at key; exact key
      | some o =>
        simp only [hl] at hs; cases hs
        have key := inv_outside kinds v0 s t { s.th t with pc := 1, obj := o } h hncs (Or.inr (Or.inl rfl))
          (fun _ => h.freshL o hl) s.log h.replay
        rw [hl] at key; exact key
    · rename_i hpc
      have hncs : ¬ InCS s t := by simp only [InCS]; omega
      cases hfree : s.lock (s.th t).obj with
      | some w => simp [hfree] at hs
      | none =>
        simp only [hfree] at hs
        cases hb : (s.live == some (s.th t).obj) with
        | false =>
          simp [hb] at hs; cases hs
          exact inv_outside kinds v0 s t { s.th t with pc := 0 } h hncs (Or.inl rfl) (fun h1 => by simp at h1) s.log h.replay
        | true =>
          simp [hb] at hs; cases hs
          have hlv : s.live = some (s.th t).obj := by simpa using hb
          exact inv_acquire kinds v0 s t h hpc hfree (fun d hd => by rw [hk] at hd; simp at hd) (fun _ => hlv)
    · rename_i hpc
      cases hs
      exact inv_remove kinds v0 persisted s t h hk hpc
    · rename_i hpc
      cases hs
      exact inv_release kinds v0 s t h hpc
    · simp at hs

end Hv.Stale
