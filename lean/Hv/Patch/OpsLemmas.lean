/-
  Lemmas about the op layer (`Ops.lean`), part A: every op keeps the tree well-formed when
  the values it splices in are validated (`cfg.validatesValues`).

  `WfB N t` is `WfTree` with the child-count bound made explicit (`≤ N` instead of `< 2^32`), so
  that growth can be tracked: one op adds at most `growth cfg op` children to any container.
-/
import Hv.Patch.Ops
import Hv.Patch.RoundTrip

namespace Hv.Patch

mutual
def WfB (N : Nat) : Node → Prop
  | .leaf raw => ∃ t, parse raw = .ok t
  | .map fs => fs.length ≤ N ∧ WfBF N fs
  | .arr xs => xs.length ≤ N ∧ WfBI N xs
def WfBF (N : Nat) : Fields → Prop
  | [] => True
  | (k, v) :: rest => k.length < 2 ^ 32 ∧ WfB N v ∧ WfBF N rest
def WfBI (N : Nat) : List Node → Prop
  | [] => True
  | v :: rest => WfB N v ∧ WfBI N rest
end

mutual
/-- largest child count of any container in the tree -/
def maxCh : Node → Nat
  | .leaf _ => 0
  | .map fs => max fs.length (maxChF fs)
  | .arr xs => max xs.length (maxChI xs)
def maxChF : Fields → Nat
  | [] => 0
  | (_, v) :: rest => max (maxCh v) (maxChF rest)
def maxChI : List Node → Nat
  | [] => 0
  | v :: rest => max (maxCh v) (maxChI rest)
end

mutual
theorem WfB_mono {N M : Nat} (hNM : N ≤ M) : ∀ (t : Node), WfB N t → WfB M t
  | .leaf raw, h => by rw [WfB] at h ⊢; exact h
  | .map fs, h => by rw [WfB] at h ⊢; exact ⟨by omega, WfBF_mono hNM fs h.2⟩
  | .arr xs, h => by rw [WfB] at h ⊢; exact ⟨by omega, WfBI_mono hNM xs h.2⟩
theorem WfBF_mono {N M : Nat} (hNM : N ≤ M) : ∀ (fs : Fields), WfBF N fs → WfBF M fs
  | [], _ => by rw [WfBF]; trivial
  | (k, v) :: rest, h => by
    rw [WfBF] at h ⊢; exact ⟨h.1, WfB_mono hNM v h.2.1, WfBF_mono hNM rest h.2.2⟩
theorem WfBI_mono {N M : Nat} (hNM : N ≤ M) : ∀ (xs : List Node), WfBI N xs → WfBI M xs
  | [], _ => by rw [WfBI]; trivial
  | v :: rest, h => by rw [WfBI] at h ⊢; exact ⟨WfB_mono hNM v h.1, WfBI_mono hNM rest h.2⟩
end

mutual
theorem WfB_wf {N : Nat} (hN : N < 2 ^ 32) : ∀ (t : Node), WfB N t → WfTree t
  | .leaf raw, h => by rw [WfB] at h; rw [WfTree]; exact h
  | .map fs, h => by rw [WfB] at h; rw [WfTree]; exact ⟨by omega, WfBF_wf hN fs h.2⟩
  | .arr xs, h => by rw [WfB] at h; rw [WfTree]; exact ⟨by omega, WfBI_wf hN xs h.2⟩
theorem WfBF_wf {N : Nat} (hN : N < 2 ^ 32) : ∀ (fs : Fields), WfBF N fs → WfFields fs
  | [], _ => by rw [WfFields]; trivial
  | (k, v) :: rest, h => by
    rw [WfBF] at h; rw [WfFields]; exact ⟨h.1, WfB_wf hN v h.2.1, WfBF_wf hN rest h.2.2⟩
theorem WfBI_wf {N : Nat} (hN : N < 2 ^ 32) : ∀ (xs : List Node), WfBI N xs → WfItems xs
  | [], _ => by rw [WfItems]; trivial
  | v :: rest, h => by rw [WfBI] at h; rw [WfItems]; exact ⟨WfB_wf hN v h.1, WfBI_wf hN rest h.2⟩
end

mutual
theorem wf_WfB : ∀ (t : Node), WfTree t → WfB (maxCh t) t
  | .leaf raw, h => by rw [WfTree] at h; rw [WfB]; exact h
  | .map fs, h => by
    rw [WfTree] at h; rw [WfB, maxCh]
    exact ⟨Nat.le_max_left _ _, WfBF_mono (Nat.le_max_right _ _) fs (wf_WfBF fs h.2)⟩
  | .arr xs, h => by
    rw [WfTree] at h; rw [WfB, maxCh]
    exact ⟨Nat.le_max_left _ _, WfBI_mono (Nat.le_max_right _ _) xs (wf_WfBI xs h.2)⟩
theorem wf_WfBF : ∀ (fs : Fields), WfFields fs → WfBF (maxChF fs) fs
  | [], _ => by rw [WfBF]; trivial
  | (k, v) :: rest, h => by
    rw [WfFields] at h; rw [WfBF, maxChF]
    exact ⟨h.1, WfB_mono (Nat.le_max_left _ _) v (wf_WfB v h.2.1),
      WfBF_mono (Nat.le_max_right _ _) rest (wf_WfBF rest h.2.2)⟩
theorem wf_WfBI : ∀ (xs : List Node), WfItems xs → WfBI (maxChI xs) xs
  | [], _ => by rw [WfBI]; trivial
  | v :: rest, h => by
    rw [WfItems] at h; rw [WfBI, maxChI]
    exact ⟨WfB_mono (Nat.le_max_left _ _) v (wf_WfB v h.1),
      WfBI_mono (Nat.le_max_right _ _) rest (wf_WfBI rest h.2)⟩
end

/-! ### list-level facts -/

theorem WfBF_get {N : Nat} : ∀ (fs : Fields) (i : Nat) (k : Bytes) (c : Node),
    WfBF N fs → fs[i]? = some (k, c) → k.length < 2 ^ 32 ∧ WfB N c
  | [], i, k, c, _, h => by simp at h
  | (k', v) :: rest, 0, k, c, hw, h => by
    rw [WfBF] at hw
    simp at h; obtain ⟨h1, h2⟩ := h; subst h1 h2
    exact ⟨hw.1, hw.2.1⟩
  | (k', v) :: rest, i + 1, k, c, hw, h => by
    rw [WfBF] at hw
    simp at h
    exact WfBF_get rest i k c hw.2.2 h

theorem WfBF_set {N : Nat} : ∀ (fs : Fields) (i : Nat) (k : Bytes) (c : Node),
    WfBF N fs → k.length < 2 ^ 32 → WfB N c → WfBF N (fs.set i (k, c))
  | [], i, k, c, _, _, _ => by simp; rw [WfBF]; trivial
  | (k', v) :: rest, 0, k, c, hw, hk, hc => by
    rw [WfBF] at hw
    simp; rw [WfBF]; exact ⟨hk, hc, hw.2.2⟩
  | (k', v) :: rest, i + 1, k, c, hw, hk, hc => by
    rw [WfBF] at hw
    simp; rw [WfBF]; exact ⟨hw.1, hw.2.1, WfBF_set rest i k c hw.2.2 hk hc⟩

theorem WfBF_append {N : Nat} : ∀ (fs gs : Fields), WfBF N fs → WfBF N gs → WfBF N (fs ++ gs)
  | [], gs, _, hg => by simpa using hg
  | (k, v) :: rest, gs, hf, hg => by
    rw [WfBF] at hf
    simp; rw [WfBF]; exact ⟨hf.1, hf.2.1, WfBF_append rest gs hf.2.2 hg⟩

theorem WfBF_erase {N : Nat} : ∀ (fs : Fields) (i : Nat), WfBF N fs → WfBF N (fs.eraseIdx i)
  | [], i, _ => by simp; rw [WfBF]; trivial
  | (k, v) :: rest, 0, h => by rw [WfBF] at h; simpa using h.2.2
  | (k, v) :: rest, i + 1, h => by
    rw [WfBF] at h
    simp; rw [WfBF]; exact ⟨h.1, h.2.1, WfBF_erase rest i h.2.2⟩

theorem WfBI_get {N : Nat} : ∀ (xs : List Node) (i : Nat) (c : Node),
    WfBI N xs → xs[i]? = some c → WfB N c
  | [], i, c, _, h => by simp at h
  | v :: rest, 0, c, hw, h => by
    rw [WfBI] at hw; simp at h; subst h; exact hw.1
  | v :: rest, i + 1, c, hw, h => by
    rw [WfBI] at hw; simp at h; exact WfBI_get rest i c hw.2 h

theorem WfBI_set {N : Nat} : ∀ (xs : List Node) (i : Nat) (c : Node),
    WfBI N xs → WfB N c → WfBI N (xs.set i c)
  | [], i, c, _, _ => by simp; rw [WfBI]; trivial
  | v :: rest, 0, c, hw, hc => by
    rw [WfBI] at hw; simp; rw [WfBI]; exact ⟨hc, hw.2⟩
  | v :: rest, i + 1, c, hw, hc => by
    rw [WfBI] at hw; simp; rw [WfBI]; exact ⟨hw.1, WfBI_set rest i c hw.2 hc⟩

theorem WfBI_append {N : Nat} : ∀ (xs ys : List Node), WfBI N xs → WfBI N ys → WfBI N (xs ++ ys)
  | [], ys, _, hy => by simpa using hy
  | v :: rest, ys, hx, hy => by
    rw [WfBI] at hx; simp; rw [WfBI]; exact ⟨hx.1, WfBI_append rest ys hx.2 hy⟩

theorem WfBI_erase {N : Nat} : ∀ (xs : List Node) (i : Nat), WfBI N xs → WfBI N (xs.eraseIdx i)
  | [], i, _ => by simp; rw [WfBI]; trivial
  | v :: rest, 0, h => by rw [WfBI] at h; simpa using h.2
  | v :: rest, i + 1, h => by
    rw [WfBI] at h; simp; rw [WfBI]; exact ⟨h.1, WfBI_erase rest i h.2⟩

theorem removeFirst_length (v : Bytes) : ∀ (xs : List Node), (removeFirst v xs).length ≤ xs.length
  | [] => by simp [removeFirst]
  | x :: rest => by
    have ih := removeFirst_length v rest
    cases x with
    | leaf raw =>
      simp only [removeFirst]
      split
      · simp
      · simp; exact ih
    | map fs => simp [removeFirst]; exact ih
    | arr ys => simp [removeFirst]; exact ih

theorem WfBI_removeFirst {N : Nat} (v : Bytes) : ∀ (xs : List Node), WfBI N xs → WfBI N (removeFirst v xs)
  | [], _ => by rw [removeFirst, WfBI]; trivial
  | x :: rest, h => by
    rw [WfBI] at h
    have ih := WfBI_removeFirst v rest h.2
    cases x with
    | leaf raw =>
      simp only [removeFirst]
      split
      · exact h.2
      · rw [WfBI]; exact ⟨h.1, ih⟩
    | map fs => simp only [removeFirst]; rw [WfBI]; exact ⟨h.1, ih⟩
    | arr ys => simp only [removeFirst]; rw [WfBI]; exact ⟨h.1, ih⟩

/-! ### parent-level helpers -/

theorem WfB_getChild {N : Nat} {p c : Node} {i : Nat} (hp : WfB N p) (h : getChild p i = some c) :
    WfB N c := by
  cases p with
  | leaf raw => simp [getChild] at h
  | map fs =>
    rw [WfB] at hp
    simp only [getChild, Option.map_eq_some_iff] at h
    obtain ⟨⟨k, c'⟩, hg, hc⟩ := h
    simp at hc; subst hc
    exact (WfBF_get fs i k c' hp.2 hg).2
  | arr xs =>
    rw [WfB] at hp
    exact WfBI_get xs i c hp.2 h

theorem WfB_setChild {N : Nat} {p c : Node} {i : Nat} (hp : WfB N p) (hc : WfB N c) :
    WfB N (setChild p i c) := by
  cases p with
  | leaf raw => simpa [setChild] using hp
  | map fs =>
    rw [WfB] at hp
    simp only [setChild]
    split
    · rename_i k v hg
      rw [WfB]
      exact ⟨by simpa using hp.1, WfBF_set fs i k c hp.2 (WfBF_get fs i k v hp.2 hg).1 hc⟩
    · rw [WfB]; exact hp
  | arr xs =>
    rw [WfB] at hp
    simp only [setChild]; rw [WfB]
    exact ⟨by simpa using hp.1, WfBI_set xs i c hp.2 hc⟩

theorem WfB_eraseChild {N : Nat} {p : Node} {i : Nat} (hp : WfB N p) : WfB N (eraseChild p i) := by
  cases p with
  | leaf raw => simpa [eraseChild] using hp
  | map fs =>
    rw [WfB] at hp
    simp only [eraseChild]; rw [WfB]
    refine ⟨?_, WfBF_erase fs i hp.2⟩
    have := List.length_eraseIdx_le fs i
    omega
  | arr xs =>
    rw [WfB] at hp
    simp only [eraseChild]; rw [WfB]
    refine ⟨?_, WfBI_erase xs i hp.2⟩
    have := List.length_eraseIdx_le xs i
    omega

/-- path segments whose field names fit a 32-bit length -/
def SegsOk (segs : List Seg) : Prop := ∀ k, Seg.field k ∈ segs → k.length < 2 ^ 32

theorem allKeys_mem : ∀ (segs : List Seg) (ks : List Bytes), allKeys segs = some ks →
    ∀ k ∈ ks, Seg.field k ∈ segs
  | [], ks, h, k, hk => by simp [allKeys] at h; subst h; simp at hk
  | s :: ss, ks, h, k, hk => by
    unfold allKeys at h
    split at h
    · rename_i k0 ks0 hs hss
      injection h with h; subst h
      cases s with
      | field kk =>
        simp [segKey] at hs; subst hs
        simp at hk
        rcases hk with rfl | hk
        · simp
        · exact List.mem_cons_of_mem _ (allKeys_mem ss ks0 hss k hk)
      | index i => simp [segKey] at hs
      | append => simp [segKey] at hs
    · cases h

theorem WfB_chain {N : Nat} (hN : 1 ≤ N) : ∀ (ks : List Bytes) (k : Bytes) (inner : Node),
    (∀ k' ∈ k :: ks, k'.length < 2 ^ 32) → WfB N inner →
    (chain k ks inner).1.length < 2 ^ 32 ∧ WfB N (chain k ks inner).2
  | [], k, inner, hk, hi => by
    rw [chain]; exact ⟨hk k (by simp), hi⟩
  | k' :: ks, k, inner, hk, hi => by
    rw [chain]
    have ih := WfB_chain hN ks k' inner (fun x hx => hk x (List.mem_cons_of_mem _ hx)) hi
    refine ⟨hk k (by simp), ?_⟩
    rw [WfB, WfBF, WfBF]
    exact ⟨by simpa using hN, ih.1, ih.2, trivial⟩

theorem WfB_autoCreate {N M : Nat} (hNM : N + 1 ≤ M) {parent inner p' : Node} {rem : List Seg}
    (hp : WfB N parent) (hrem : SegsOk rem) (hi : WfB M inner)
    (h : autoCreate parent rem inner = .ok p') : WfB M p' := by
  unfold autoCreate at h
  split at h
  · rename_i k ks hak
    injection h with h; subst h
    have hkeys : ∀ k' ∈ k :: ks, k'.length < 2 ^ 32 :=
      fun k' hk' => hrem k' (allKeys_mem rem (k :: ks) hak k' hk')
    have hc := WfB_chain (N := M) (by omega) ks k inner hkeys hi
    cases parent with
    | leaf raw => exact WfB_mono (by omega) _ hp
    | arr xs => exact WfB_mono (by omega) _ hp
    | map fs =>
      rw [WfB] at hp
      simp only [addField]; rw [WfB]
      refine ⟨by simp; omega, WfBF_append fs _ (WfBF_mono (by omega) fs hp.2) ?_⟩
      rw [WfBF, WfBF]
      exact ⟨hc.1, hc.2, trivial⟩
  · cases h

/-! ### `walk` preserves well-formedness when the handler does -/

def HitOk : Hit → Prop
  | .missing rem => SegsOk rem
  | _ => True

theorem SegsOk_tail {s : Seg} {ss : List Seg} (h : SegsOk (s :: ss)) : SegsOk ss :=
  fun k hk => h k (List.mem_cons_of_mem _ hk)

theorem walk_WfB {N M : Nat} (hNM : N ≤ M) (h : Node → Hit → Except Err Node)
    (hh : ∀ p hit p', WfB N p → HitOk hit → h p hit = .ok p' → WfB M p') :
    ∀ (segs : List Seg) (t t' : Node), SegsOk segs → WfB N t → walk h segs t = .ok t' → WfB M t'
  | [], t, t', _, _, hw => by rw [walk] at hw; cases hw
  | seg :: rest, t, t', hs, ht, hw => by
    cases seg with
    | field k =>
      cases t with
      | leaf raw => simp [walk] at hw
      | arr xs => simp [walk] at hw
      | map fs =>
        rw [walk] at hw
        cases hf : findField fs k with
        | none =>
          rw [hf] at hw; simp only at hw
          exact hh _ (.missing (Seg.field k :: rest)) _ ht hs hw
        | some i =>
          rw [hf] at hw; simp only at hw
          by_cases hr : rest.isEmpty = true
          · rw [if_pos hr] at hw
            exact hh _ (.target i) _ ht trivial hw
          · rw [if_neg hr] at hw
            cases hg : fs[i]? with
            | none => rw [hg] at hw; cases hw
            | some kc =>
              obtain ⟨k', c⟩ := kc
              rw [hg] at hw; simp only at hw
              cases hwc : walk h rest c with
              | error e => rw [hwc] at hw; cases hw
              | ok c' =>
                rw [hwc] at hw; simp only at hw
                injection hw with hw; subst hw
                rw [WfB] at ht
                obtain ⟨hk', hc⟩ := WfBF_get fs i k' c ht.2 hg
                have hc' := walk_WfB hNM h hh rest c c' (SegsOk_tail hs) hc hwc
                rw [WfB]
                exact ⟨by simp; omega, WfBF_set fs i k' c' (WfBF_mono hNM fs ht.2) hk' hc'⟩
    | index n =>
      cases t with
      | leaf raw => simp [walk] at hw
      | map fs => simp [walk] at hw
      | arr xs =>
        rw [walk] at hw
        cases hri : resolveIndex n xs.length with
        | error e => rw [hri] at hw; cases hw
        | ok i =>
          rw [hri] at hw; simp only at hw
          by_cases hr : rest.isEmpty = true
          · rw [if_pos hr] at hw
            exact hh _ (.target i) _ ht trivial hw
          · rw [if_neg hr] at hw
            cases hg : xs[i]? with
            | none => rw [hg] at hw; cases hw
            | some c =>
              rw [hg] at hw; simp only at hw
              cases hwc : walk h rest c with
              | error e => rw [hwc] at hw; cases hw
              | ok c' =>
                rw [hwc] at hw; simp only at hw
                injection hw with hw; subst hw
                rw [WfB] at ht
                have hc := WfBI_get xs i c ht.2 hg
                have hc' := walk_WfB hNM h hh rest c c' (SegsOk_tail hs) hc hwc
                rw [WfB]
                exact ⟨by simp; omega, WfBI_set xs i c' (WfBI_mono hNM xs ht.2) hc'⟩
    | append =>
      cases t with
      | leaf raw => simp [walk] at hw; split at hw <;> cases hw
      | map fs => simp [walk] at hw; split at hw <;> cases hw
      | arr xs =>
        rw [walk] at hw
        by_cases hr : (!rest.isEmpty) = true
        · rw [if_pos hr] at hw; cases hw
        · rw [if_neg hr] at hw
          exact hh _ .appendSlot _ ht trivial hw

end Hv.Patch
