/-
  Round-trip lemmas between `parse` and `serialize` on the tree model.

  * `strict_exact`   — a document whose headers are the encoder's is reproduced byte for byte;
  * `strict_lax`     — the strict parser refines the Go parser;
  * `parsed_wf`      — whatever the Go parser returns is a well-formed tree in normal form;
  * `ser_parse_node` — a well-formed tree (leaves may hold spliced, still unparsed container
                       values) serialises to a body the Go parser accepts, and the result is the
                       tree with those leaves expanded (`norm`).
-/
import Hv.Patch.SkeletonLemmas

namespace Hv.Patch

mutual
/-- well-formed tree: every leaf holds exactly one value the parser accepts, every count and
    key length fits its 32-bit header field -/
def WfTree : Node → Prop
  | .leaf raw => ∃ t, parse raw = .ok t
  | .map fs => fs.length < 2 ^ 32 ∧ WfFields fs
  | .arr xs => xs.length < 2 ^ 32 ∧ WfItems xs
def WfFields : Fields → Prop
  | [] => True
  | (k, v) :: rest => k.length < 2 ^ 32 ∧ WfTree v ∧ WfFields rest
def WfItems : List Node → Prop
  | [] => True
  | v :: rest => WfTree v ∧ WfItems rest
end

/-- what a spliced leaf becomes when the body is parsed again -/
def normLeaf (raw : Bytes) : Node :=
  match parse raw with
  | .ok t => t
  | .error _ => .leaf raw

mutual
def norm : Node → Node
  | .leaf raw => normLeaf raw
  | .map fs => .map (normFields fs)
  | .arr xs => .arr (normItems xs)
def normFields : Fields → Fields
  | [] => []
  | (k, v) :: rest => (k, norm v) :: normFields rest
def normItems : List Node → List Node
  | [] => []
  | v :: rest => norm v :: normItems rest
end

theorem parse_eq {b : Bytes} {t : Node} (h : parse b = .ok t) :
    parseNodeG false (2 * b.length - 1) b = .ok (t, []) := by
  unfold parse parseG at h
  split at h
  · cases h
  · rename_i t' heq; injection h with h; subst h; exact heq
  · cases h

theorem parse_of {b : Bytes} {t : Node} (h : parseNodeG false (2 * b.length - 1) b = .ok (t, [])) :
    parse b = .ok t := by
  unfold parse parseG; rw [h]

/-! ### strict parse = exact bytes -/

theorem strict_exact : ∀ f : Nat,
    (∀ b t rest, parseNodeG true f b = .ok (t, rest) → b = serialize t ++ rest) ∧
    (∀ n b fs rest, parseFieldsG true f n b = .ok (fs, rest) → b = serFields fs ++ rest ∧ fs.length = n) ∧
    (∀ n b xs rest, parseItemsG true f n b = .ok (xs, rest) → b = serItems xs ++ rest ∧ xs.length = n) := by
  intro f
  induction f with
  | zero =>
    refine ⟨?_, ?_, ?_⟩
    · intro b t rest h; rw [parseNodeG] at h; cases h
    · intro n b fs rest h
      cases n with
      | zero =>
        rw [parseFieldsG_zero] at h
        injection h with h; injection h with h1 h2; subst h1 h2
        exact ⟨by simp [serFields], rfl⟩
      | succ n => rw [parseFieldsG] at h; cases h
    · intro n b xs rest h
      cases n with
      | zero =>
        rw [parseItemsG_zero] at h
        injection h with h; injection h with h1 h2; subst h1 h2
        exact ⟨by simp [serItems], rfl⟩
      | succ n => rw [parseItemsG] at h; cases h
  | succ f ih =>
    obtain ⟨ihN, ihF, ihI⟩ := ih
    refine ⟨?_, ?_, ?_⟩
    · intro b t rest h
      obtain ⟨f', c, r, hf, hb, hcases⟩ := parseNodeG_inv h
      have hf' : f' = f := by omega
      subst hf' hb
      rcases hcases with ⟨hm, n, r', fs, hc, hs, hp, rfl⟩ | ⟨hm, ha, n, r', xs, hc, hs, hp, rfl⟩ |
        ⟨hm, ha, n, p, hl, hsp, rfl⟩
      · obtain ⟨hb, hlen⟩ := ihF n r' fs rest hp
        have hmin : minimalCount c n = true := by simpa using hs
        rw [mapHeader_strict hm hc hmin, hb, serialize, hlen, List.append_assoc]
      · obtain ⟨hb, hlen⟩ := ihI n r' xs rest hp
        have hmin : minimalCount c n = true := by simpa using hs
        rw [arrHeader_strict ha hc hmin, hb, serialize, hlen, List.append_assoc]
      · obtain ⟨hb, _⟩ := splitN_ok hsp
        rw [hb, serialize]; rfl
    · intro n b fs rest h
      cases n with
      | zero =>
        rw [parseFieldsG_zero] at h
        injection h with h; injection h with h1 h2; subst h1 h2
        exact ⟨by simp [serFields], rfl⟩
      | succ n =>
        obtain ⟨f', c, r, k, r1, v, r2, tl, hf, hb, hsc, hk, hs, hv, ht, rfl⟩ := parseFieldsG_inv h
        have hf' : f' = f := by omega
        subst hf' hb
        have hmin : minimalStr c k.length = true := by simpa using hs
        have h1 := ihN r1 v r2 hv
        obtain ⟨h2, hlen⟩ := ihF n r2 tl rest ht
        refine ⟨?_, by simp [hlen]⟩
        rw [strHeader_strict hsc hk hmin, h1, h2, serFields]
        simp [List.append_assoc]
    · intro n b xs rest h
      cases n with
      | zero =>
        rw [parseItemsG_zero] at h
        injection h with h; injection h with h1 h2; subst h1 h2
        exact ⟨by simp [serItems], rfl⟩
      | succ n =>
        obtain ⟨f', v, r1, tl, hf, hv, ht, rfl⟩ := parseItemsG_inv h
        have hf' : f' = f := by omega
        subst hf'
        have h1 := ihN b v r1 hv
        obtain ⟨h2, hlen⟩ := ihI n r1 tl rest ht
        refine ⟨?_, by simp [hlen]⟩
        rw [h1, h2, serItems]
        simp [List.append_assoc]

/-! ### the strict parser refines the Go parser -/

theorem strict_lax : ∀ f : Nat,
    (∀ b x, parseNodeG true f b = .ok x → parseNodeG false f b = .ok x) ∧
    (∀ n b x, parseFieldsG true f n b = .ok x → parseFieldsG false f n b = .ok x) ∧
    (∀ n b x, parseItemsG true f n b = .ok x → parseItemsG false f n b = .ok x) := by
  intro f
  induction f with
  | zero =>
    refine ⟨?_, ?_, ?_⟩
    · intro b x h; rw [parseNodeG] at h; cases h
    · intro n b x h
      cases n with
      | zero => rw [parseFieldsG_zero] at h ⊢; exact h
      | succ n => rw [parseFieldsG] at h; cases h
    · intro n b x h
      cases n with
      | zero => rw [parseItemsG_zero] at h ⊢; exact h
      | succ n => rw [parseItemsG] at h; cases h
  | succ f ih =>
    obtain ⟨ihN, ihF, ihI⟩ := ih
    refine ⟨?_, ?_, ?_⟩
    · intro b x h
      obtain ⟨t, rest⟩ := x
      obtain ⟨f', c, r, hf, hb, hcases⟩ := parseNodeG_inv h
      have hf' : f' = f := by omega
      subst hf' hb
      rcases hcases with ⟨hm, n, r', fs, hc, _, hp, rfl⟩ | ⟨hm, ha, n, r', xs, hc, _, hp, rfl⟩ |
        ⟨hm, ha, n, p, hl, hsp, rfl⟩
      · exact parseNodeG_map hm hc (by simp) (ihF n r' _ hp)
      · exact parseNodeG_arr hm ha hc (by simp) (ihI n r' _ hp)
      · exact parseNodeG_leaf hm ha hl hsp
    · intro n b x h
      cases n with
      | zero => rw [parseFieldsG_zero] at h ⊢; exact h
      | succ n =>
        obtain ⟨fs, rest⟩ := x
        obtain ⟨f', c, r, k, r1, v, r2, tl, hf, hb, hsc, hk, _, hv, ht, rfl⟩ := parseFieldsG_inv h
        have hf' : f' = f := by omega
        subst hf' hb
        exact parseFieldsG_cons hsc hk (by simp) (ihN r1 _ hv) (ihF n r2 _ ht)
    · intro n b x h
      cases n with
      | zero => rw [parseItemsG_zero] at h ⊢; exact h
      | succ n =>
        obtain ⟨xs, rest⟩ := x
        obtain ⟨f', v, r1, tl, hf, hv, ht, rfl⟩ := parseItemsG_inv h
        have hf' : f' = f := by omega
        subst hf'
        exact parseItemsG_cons (ihN b _ hv) (ihI n r1 _ ht)

/-! ### what the parser returns is well-formed and normal -/

theorem countOf_lt {c : UInt8} {r r' : Bytes} {n : Nat} (hmc : isMapCode c = true ∨ isArrayCode c = true)
    (hc : countOf c r = .ok (n, r')) : n < 2 ^ 32 := by
  rcases hmc with hm | ha
  · rcases isMapCode_cases hm with ⟨h1, h2, hs⟩ | ⟨h, hs⟩ | ⟨h, hs⟩
    · unfold countOf at hc; rw [hs] at hc
      simp only [Except.ok.injEq, Prod.mk.injEq] at hc
      omega
    · unfold countOf at hc; rw [hs] at hc
      have := readBE_lt hc; omega
    · unfold countOf at hc; rw [hs] at hc
      have := readBE_lt hc; omega
  · rcases isArrayCode_cases ha with ⟨h1, h2, hs⟩ | ⟨h, hs⟩ | ⟨h, hs⟩
    · unfold countOf at hc; rw [hs] at hc
      simp only [Except.ok.injEq, Prod.mk.injEq] at hc
      omega
    · unfold countOf at hc; rw [hs] at hc
      have := readBE_lt hc; omega
    · unfold countOf at hc; rw [hs] at hc
      have := readBE_lt hc; omega

theorem strPayload_len_lt {c : UInt8} {r k r1 : Bytes} (hsc : isStringCode c = true)
    (hk : strPayload c r = .ok (k, r1)) : k.length < 2 ^ 32 := by
  rcases isStringCode_cases hsc with ⟨h1, h2, hs⟩ | ⟨h, hs⟩ | ⟨h, hs⟩ | ⟨h, hs⟩
  · unfold strPayload at hk; rw [hs] at hk
    obtain ⟨_, hl⟩ := splitN_ok hk
    omega
  all_goals
    unfold strPayload at hk; rw [hs] at hk
    simp only at hk
    split at hk
    · cases hk
    · rename_i m r' hr
      have := readBE_lt hr
      obtain ⟨_, hl⟩ := splitN_ok hk
      omega

/-- a leaf cut out by the parser is accepted by the parser on its own -/
theorem leaf_reparse {c : UInt8} {r p rest : Bytes} {n : Nat}
    (hm : isMapCode c = false) (ha : isArrayCode c = false) (hl : leafExtent c r = .ok n)
    (hsp : splitN n r = .ok (p, rest)) : parse (c :: p) = .ok (.leaf (c :: p)) := by
  obtain ⟨hb, hlen⟩ := splitN_ok hsp
  subst hb
  have hl' := leafExtent_prefix hl hlen
  have hs' : splitN n p = .ok (p, []) := by
    have := splitN_of_append p []
    rw [List.append_nil, hlen] at this
    exact this
  apply parse_of
  have : 2 * (c :: p).length - 1 = (2 * p.length) + 1 := by simp; omega
  rw [this]
  exact parseNodeG_leaf hm ha hl' hs'

theorem parsed_wf : ∀ f : Nat,
    (∀ b t rest, parseNodeG false f b = .ok (t, rest) → WfTree t ∧ norm t = t) ∧
    (∀ n b fs rest, parseFieldsG false f n b = .ok (fs, rest) →
      WfFields fs ∧ normFields fs = fs ∧ fs.length = n) ∧
    (∀ n b xs rest, parseItemsG false f n b = .ok (xs, rest) →
      WfItems xs ∧ normItems xs = xs ∧ xs.length = n) := by
  intro f
  induction f with
  | zero =>
    refine ⟨?_, ?_, ?_⟩
    · intro b t rest h; rw [parseNodeG] at h; cases h
    · intro n b fs rest h
      cases n with
      | zero =>
        rw [parseFieldsG_zero] at h
        injection h with h; injection h with h1 h2; subst h1 h2
        exact ⟨by simp [WfFields], by simp [normFields], rfl⟩
      | succ n => rw [parseFieldsG] at h; cases h
    · intro n b xs rest h
      cases n with
      | zero =>
        rw [parseItemsG_zero] at h
        injection h with h; injection h with h1 h2; subst h1 h2
        exact ⟨by simp [WfItems], by simp [normItems], rfl⟩
      | succ n => rw [parseItemsG] at h; cases h
  | succ f ih =>
    obtain ⟨ihN, ihF, ihI⟩ := ih
    refine ⟨?_, ?_, ?_⟩
    · intro b t rest h
      obtain ⟨f', c, r, hf, hb, hcases⟩ := parseNodeG_inv h
      have hf' : f' = f := by omega
      subst hf' hb
      rcases hcases with ⟨hm, n, r', fs, hc, _, hp, rfl⟩ | ⟨hm, ha, n, r', xs, hc, _, hp, rfl⟩ |
        ⟨hm, ha, n, p, hl, hsp, rfl⟩
      · obtain ⟨hw, hn, hlen⟩ := ihF n r' fs rest hp
        have := countOf_lt (Or.inl hm) hc
        exact ⟨by rw [WfTree]; exact ⟨by omega, hw⟩, by rw [norm, hn]⟩
      · obtain ⟨hw, hn, hlen⟩ := ihI n r' xs rest hp
        have := countOf_lt (Or.inr ha) hc
        exact ⟨by rw [WfTree]; exact ⟨by omega, hw⟩, by rw [norm, hn]⟩
      · have hre := leaf_reparse hm ha hl hsp
        exact ⟨by rw [WfTree]; exact ⟨_, hre⟩, by rw [norm, normLeaf, hre]⟩
    · intro n b fs rest h
      cases n with
      | zero =>
        rw [parseFieldsG_zero] at h
        injection h with h; injection h with h1 h2; subst h1 h2
        exact ⟨by simp [WfFields], by simp [normFields], rfl⟩
      | succ n =>
        obtain ⟨f', c, r, k, r1, v, r2, tl, hf, hb, hsc, hk, _, hv, ht, rfl⟩ := parseFieldsG_inv h
        have hf' : f' = f := by omega
        subst hf' hb
        obtain ⟨hw1, hn1⟩ := ihN r1 v r2 hv
        obtain ⟨hw2, hn2, hlen⟩ := ihF n r2 tl rest ht
        have := strPayload_len_lt hsc hk
        exact ⟨by rw [WfFields]; exact ⟨this, hw1, hw2⟩, by rw [normFields, hn1, hn2], by simp [hlen]⟩
    · intro n b xs rest h
      cases n with
      | zero =>
        rw [parseItemsG_zero] at h
        injection h with h; injection h with h1 h2; subst h1 h2
        exact ⟨by simp [WfItems], by simp [normItems], rfl⟩
      | succ n =>
        obtain ⟨f', v, r1, tl, hf, hv, ht, rfl⟩ := parseItemsG_inv h
        have hf' : f' = f := by omega
        subst hf'
        obtain ⟨hw1, hn1⟩ := ihN b v r1 hv
        obtain ⟨hw2, hn2, hlen⟩ := ihI n r1 tl rest ht
        exact ⟨by rw [WfItems]; exact ⟨hw1, hw2⟩, by rw [normItems, hn1, hn2], by simp [hlen]⟩

theorem parse_wf {b : Bytes} {t : Node} (h : parse b = .ok t) : WfTree t ∧ norm t = t :=
  (parsed_wf _).1 b t [] (parse_eq h)

/-! ### serialise, then parse -/

theorem parse_nonempty {b : Bytes} {t : Node} (h : parse b = .ok t) : 1 ≤ b.length := by
  cases b with
  | nil =>
    have : parseNodeG false 0 [] = .ok (t, []) := parse_eq h
    rw [parseNodeG] at this; cases this
  | cons c r => simp

mutual
theorem serialize_pos : ∀ (t : Node), WfTree t → 1 ≤ (serialize t).length
  | .leaf raw, h => by
    rw [WfTree] at h
    obtain ⟨t', ht⟩ := h
    rw [serialize]; exact parse_nonempty ht
  | .map fs, _ => by
    rw [serialize, List.length_append]
    have := encMapLen_pos fs.length; omega
  | .arr xs, _ => by
    rw [serialize, List.length_append]
    have := encArrLen_pos xs.length; omega
end

mutual
theorem ser_parse_node : ∀ (t : Node), WfTree t → ∀ (s : Bytes) (f : Nat),
    2 * (serialize t).length ≤ f + 1 → parseNodeG false f (serialize t ++ s) = .ok (norm t, s)
  | .leaf raw, h, s, f, hf => by
    rw [WfTree] at h
    obtain ⟨t', ht⟩ := h
    rw [serialize] at hf ⊢
    have h1 := parse_eq ht
    have h2 := parseNodeG_frame h1 (g := f) (by omega) s
    rw [norm, normLeaf, ht]
    simpa using h2
  | .map fs, h, s, f, hf => by
    rw [WfTree] at h
    obtain ⟨hlen, hw⟩ := h
    rw [serialize, List.length_append] at hf
    have hpos := encMapLen_pos fs.length
    obtain ⟨g, rfl⟩ : ∃ g, f = g + 1 := ⟨f - 1, by omega⟩
    rw [serialize, List.append_assoc]
    obtain ⟨c, r, heq, hm, hc⟩ := mapHeader_read fs.length hlen (serFields fs ++ s)
    rw [heq, norm]
    exact parseNodeG_map hm hc (by simp) (ser_parse_fields fs hw s g (by omega))
  | .arr xs, h, s, f, hf => by
    rw [WfTree] at h
    obtain ⟨hlen, hw⟩ := h
    rw [serialize, List.length_append] at hf
    have hpos := encArrLen_pos xs.length
    obtain ⟨g, rfl⟩ : ∃ g, f = g + 1 := ⟨f - 1, by omega⟩
    rw [serialize, List.append_assoc]
    obtain ⟨c, r, heq, hm, ha, hc⟩ := arrHeader_read xs.length hlen (serItems xs ++ s)
    rw [heq, norm]
    exact parseNodeG_arr hm ha hc (by simp) (ser_parse_items xs hw s g (by omega))
theorem ser_parse_fields : ∀ (fs : Fields), WfFields fs → ∀ (s : Bytes) (f : Nat),
    2 * (serFields fs).length ≤ f →
    parseFieldsG false f fs.length (serFields fs ++ s) = .ok (normFields fs, s)
  | [], _, s, f, _ => by
    rw [serFields, normFields]; exact parseFieldsG_zero _ _ _
  | (k, v) :: rest, h, s, f, hf => by
    rw [WfFields] at h
    obtain ⟨hk, hv, hr⟩ := h
    rw [serFields, List.length_append, List.length_append] at hf
    have hpos := encStr_pos k
    have hvpos := serialize_pos v hv
    obtain ⟨g, rfl⟩ : ∃ g, f = g + 1 := ⟨f - 1, by omega⟩
    rw [serFields, List.append_assoc, List.append_assoc, normFields, List.length_cons]
    obtain ⟨c, r, heq, hsc, hp⟩ := strHeader_read k hk (serialize v ++ (serFields rest ++ s))
    rw [heq]
    exact parseFieldsG_cons hsc hp (by simp)
      (ser_parse_node v hv (serFields rest ++ s) g (by omega))
      (ser_parse_fields rest hr s g (by omega))
theorem ser_parse_items : ∀ (xs : List Node), WfItems xs → ∀ (s : Bytes) (f : Nat),
    2 * (serItems xs).length ≤ f →
    parseItemsG false f xs.length (serItems xs ++ s) = .ok (normItems xs, s)
  | [], _, s, f, _ => by
    rw [serItems, normItems]; exact parseItemsG_zero _ _ _
  | v :: rest, h, s, f, hf => by
    rw [WfItems] at h
    obtain ⟨hv, hr⟩ := h
    rw [serItems, List.length_append] at hf
    have hvpos := serialize_pos v hv
    obtain ⟨g, rfl⟩ : ∃ g, f = g + 1 := ⟨f - 1, by omega⟩
    rw [serItems, List.append_assoc, normItems, List.length_cons]
    exact parseItemsG_cons (ser_parse_node v hv (serItems rest ++ s) g (by omega))
      (ser_parse_items rest hr s g (by omega))
end

/-- a well-formed tree serialises to a body the parser accepts -/
theorem serialize_parse {t : Node} (h : WfTree t) : parse (serialize t) = .ok (norm t) := by
  apply parse_of
  have hpos := serialize_pos t h
  have := ser_parse_node t h [] (2 * (serialize t).length - 1) (by omega)
  simpa using this

end Hv.Patch
