/-
  Lemmas about the wire level (`Msgpack.lean`): big-endian fields round-trip, reads commute
  with appending a suffix, and the encoder's headers are read back by the decoder.
-/
import Hv.Patch.Msgpack

namespace Hv.Patch

theorem beBytes_length (k n : Nat) : (beBytes k n).length = k := by
  induction k with
  | zero => rfl
  | succ k ih => simp [beBytes, ih]

theorem beNat_lt (h : Bytes) : beNat h < 256 ^ h.length := by
  induction h with
  | nil => simp [beNat]
  | cons x xs ih =>
    simp only [beNat, List.length_cons, Nat.pow_succ]
    have hx : x.toNat < 256 := UInt8.toNat_lt x
    have : x.toNat * 256 ^ xs.length ≤ 255 * 256 ^ xs.length := Nat.mul_le_mul_right _ (by omega)
    omega

theorem beNat_beBytes (k n : Nat) : beNat (beBytes k n) = n % 256 ^ k := by
  induction k with
  | zero => simp [beBytes, beNat, Nat.mod_one]
  | succ k ih =>
    simp only [beBytes, beNat, beBytes_length, ih]
    have h1 : (UInt8.ofNat (n / 256 ^ k % 256)).toNat = n / 256 ^ k % 256 := by
      simp [UInt8.toNat_ofNat']
    rw [h1, Nat.pow_succ, Nat.mod_mul, Nat.mul_comm]
    omega

theorem beBytes_beNat (h : Bytes) : beBytes h.length (beNat h) = h := by
  induction h with
  | nil => rfl
  | cons x xs ih =>
    simp only [List.length_cons, beBytes, beNat]
    have hlt := beNat_lt xs
    have hpos : 0 < 256 ^ xs.length := Nat.pow_pos (by omega)
    have hx : x.toNat < 256 := UInt8.toNat_lt x
    have hd : (x.toNat * 256 ^ xs.length + beNat xs) / 256 ^ xs.length = x.toNat := by
      rw [Nat.mul_comm, Nat.mul_add_div hpos, Nat.div_eq_of_lt hlt]; omega
    have hm : x.toNat % 256 = x.toNat := Nat.mod_eq_of_lt hx
    rw [hd, hm]
    have : UInt8.ofNat x.toNat = x := by simp
    rw [this]
    congr 1
    -- the low part: adding a multiple of 256^len does not change the low `len` bytes
    have key : ∀ (k m : Nat) (a : Nat), k ≤ m → beBytes k (a * 256 ^ m + beNat xs) = beBytes k (beNat xs) := by
      intro k
      induction k with
      | zero => intros; rfl
      | succ k ihk =>
        intro m a hkm
        simp only [beBytes]
        have hk : k ≤ m := by omega
        rw [ihk m a hk]
        congr 2
        have hp : 0 < 256 ^ k := Nat.pow_pos (by omega)
        have : a * 256 ^ m = (a * 256 ^ (m - k - 1)) * 256 * 256 ^ k := by
          have : m = (m - k - 1) + 1 + k := by omega
          conv => lhs; rw [this, Nat.pow_add, Nat.pow_add]
          simp [Nat.mul_assoc, Nat.pow_one]
        rw [this, Nat.add_comm, Nat.add_mul_div_right _ _ hp, Nat.add_mul_mod_self_right]
    rw [key xs.length xs.length x.toNat (Nat.le_refl _)]
    exact ih

/-! ### reads and suffixes -/

theorem splitN_ok {n : Nat} {b p r : Bytes} (h : splitN n b = .ok (p, r)) :
    b = p ++ r ∧ p.length = n := by
  unfold splitN at h
  split at h
  · rename_i hle
    injection h with h; injection h with h1 h2
    subst h1 h2
    exact ⟨(List.take_append_drop n b).symm, by simp [List.length_take]; omega⟩
  · cases h

theorem splitN_append {n : Nat} {b p r : Bytes} (h : splitN n b = .ok (p, r)) (s : Bytes) :
    splitN n (b ++ s) = .ok (p, r ++ s) := by
  obtain ⟨hb, hp⟩ := splitN_ok h
  subst hb
  unfold splitN
  have : n ≤ (p ++ r ++ s).length := by simp; omega
  rw [if_pos this]
  subst hp
  simp [List.append_assoc]

theorem splitN_of_append (p r : Bytes) : splitN p.length (p ++ r) = .ok (p, r) := by
  unfold splitN
  rw [if_pos (by simp)]
  simp

theorem readBE_ok {k : Nat} {b r : Bytes} {m : Nat} (h : readBE k b = .ok (m, r)) :
    ∃ hd, b = hd ++ r ∧ hd.length = k ∧ m = beNat hd := by
  unfold readBE at h
  split at h
  · cases h
  · rename_i hd r' hs
    injection h with h; injection h with h1 h2
    subst h1 h2
    obtain ⟨hb, hl⟩ := splitN_ok hs
    exact ⟨hd, hb, hl, rfl⟩

theorem readBE_append {k : Nat} {b r : Bytes} {m : Nat} (h : readBE k b = .ok (m, r)) (s : Bytes) :
    readBE k (b ++ s) = .ok (m, r ++ s) := by
  unfold readBE at h ⊢
  split at h
  · cases h
  · rename_i hd r' hs
    injection h with h; injection h with h1 h2
    subst h1 h2
    rw [splitN_append hs s]

theorem readBE_of_append (hd r : Bytes) : readBE hd.length (hd ++ r) = .ok (beNat hd, r) := by
  unfold readBE
  rw [splitN_of_append]

theorem readBE_lt {k : Nat} {b r : Bytes} {m : Nat} (h : readBE k b = .ok (m, r)) : m < 256 ^ k := by
  obtain ⟨hd, _, hl, hm⟩ := readBE_ok h
  subst hm hl
  exact beNat_lt hd

theorem leafExtent_append {c : UInt8} {r : Bytes} {n : Nat} (h : leafExtent c r = .ok n) (s : Bytes) :
    leafExtent c (r ++ s) = .ok n := by
  unfold leafExtent at h ⊢
  split at h
  · exact h
  · rename_i k e hs
    split at h
    · cases h
    · rename_i m r' hr
      rw [readBE_append hr s]
      exact h
  · cases h

theorem countOf_append {c : UInt8} {r r' : Bytes} {n : Nat} (h : countOf c r = .ok (n, r')) (s : Bytes) :
    countOf c (r ++ s) = .ok (n, r' ++ s) := by
  unfold countOf at h ⊢
  split at h
  · injection h with h; injection h with h1 h2; subst h1 h2; rfl
  · injection h with h; injection h with h1 h2; subst h1 h2; rfl
  · exact readBE_append h s
  · exact readBE_append h s
  · cases h

theorem strPayload_append {c : UInt8} {r k r1 : Bytes} (h : strPayload c r = .ok (k, r1)) (s : Bytes) :
    strPayload c (r ++ s) = .ok (k, r1 ++ s) := by
  unfold strPayload at h ⊢
  split at h
  · exact splitN_append h s
  · split at h
    · cases h
    · rename_i m r' hr
      rw [readBE_append hr s]
      exact splitN_append h s
  · cases h

/-! ### codes -/

theorem u8_eq_of_toNat {c : UInt8} {n : Nat} (hn : n < 256) (h : c.toNat = n) : c = UInt8.ofNat n := by
  apply UInt8.toNat_inj.mp
  simp [UInt8.toNat_ofNat', h]
  omega

theorem u8_ofNat_toNat {n : Nat} (hn : n < 256) : (UInt8.ofNat n).toNat = n := by
  simp [UInt8.toNat_ofNat']
  omega

/-- the three ways a code can be a map code -/
theorem isMapCode_cases {c : UInt8} (h : isMapCode c = true) :
    (0x80 ≤ c.toNat ∧ c.toNat ≤ 0x8f ∧ shape c = .mapFix (c.toNat - 0x80)) ∨
    (c.toNat = 0xde ∧ shape c = .mapLen 2) ∨ (c.toNat = 0xdf ∧ shape c = .mapLen 4) := by
  unfold isMapCode at h
  simp only [Bool.or_eq_true, Bool.and_eq_true, decide_eq_true_eq, beq_iff_eq] at h
  rcases h with (⟨h1, h2⟩ | h) | h
  · left
    refine ⟨h1, h2, ?_⟩
    unfold shape shapeN
    rw [if_neg (by omega), if_pos (by omega)]
  · right; left
    refine ⟨h, ?_⟩
    unfold shape; rw [h]; rfl
  · right; right
    refine ⟨h, ?_⟩
    unfold shape; rw [h]; rfl

theorem isArrayCode_cases {c : UInt8} (h : isArrayCode c = true) :
    (0x90 ≤ c.toNat ∧ c.toNat ≤ 0x9f ∧ shape c = .arrFix (c.toNat - 0x90)) ∨
    (c.toNat = 0xdc ∧ shape c = .arrLen 2) ∨ (c.toNat = 0xdd ∧ shape c = .arrLen 4) := by
  unfold isArrayCode at h
  simp only [Bool.or_eq_true, Bool.and_eq_true, decide_eq_true_eq, beq_iff_eq] at h
  rcases h with (⟨h1, h2⟩ | h) | h
  · left
    refine ⟨h1, h2, ?_⟩
    unfold shape shapeN
    rw [if_neg (by omega), if_neg (by omega), if_pos (by omega)]
  · right; left
    refine ⟨h, ?_⟩
    unfold shape; rw [h]; rfl
  · right; right
    refine ⟨h, ?_⟩
    unfold shape; rw [h]; rfl

theorem isStringCode_cases {c : UInt8} (h : isStringCode c = true) :
    (0xa0 ≤ c.toNat ∧ c.toNat ≤ 0xbf ∧ shape c = .fixed (c.toNat - 0xa0)) ∨
    (c.toNat = 0xd9 ∧ shape c = .lenp 1 0) ∨ (c.toNat = 0xda ∧ shape c = .lenp 2 0) ∨
    (c.toNat = 0xdb ∧ shape c = .lenp 4 0) := by
  unfold isStringCode isFixStr at h
  simp only [Bool.or_eq_true, Bool.and_eq_true, decide_eq_true_eq, beq_iff_eq] at h
  rcases h with ((⟨h1, h2⟩ | h) | h) | h
  · left
    refine ⟨h1, h2, ?_⟩
    unfold shape shapeN
    rw [if_neg (by omega), if_neg (by omega), if_neg (by omega), if_pos (by omega)]
  · right; left
    refine ⟨h, ?_⟩
    unfold shape; rw [h]; rfl
  · right; right; left
    refine ⟨h, ?_⟩
    unfold shape; rw [h]; rfl
  · right; right; right
    refine ⟨h, ?_⟩
    unfold shape; rw [h]; rfl

/-! ### a strict header is the encoder's header -/

theorem mapHeader_strict {c : UInt8} {r r' : Bytes} {n : Nat} (hm : isMapCode c = true)
    (hc : countOf c r = .ok (n, r')) (hmin : minimalCount c n = true) :
    c :: r = encMapLen n ++ r' := by
  rcases isMapCode_cases hm with ⟨h1, h2, hs⟩ | ⟨h, hs⟩ | ⟨h, hs⟩
  · unfold countOf at hc; rw [hs] at hc
    simp only [Except.ok.injEq, Prod.mk.injEq] at hc
    obtain ⟨hn, hr⟩ := hc
    subst hn hr
    unfold encMapLen
    rw [if_pos (by omega)]
    have : c = UInt8.ofNat (0x80 + (c.toNat - 0x80)) := u8_eq_of_toNat (by omega) (by omega)
    rw [← this]; rfl
  · unfold countOf at hc; rw [hs] at hc
    obtain ⟨hd, hb, hl, hn⟩ := readBE_ok hc
    unfold minimalCount at hmin; rw [hs] at hmin
    simp only [decide_eq_true_eq] at hmin
    have hlt := beNat_lt hd
    rw [hl] at hlt
    unfold encMapLen
    rw [if_neg (by omega), if_pos (by omega)]
    have hc' : c = 0xde := by rw [u8_eq_of_toNat (by omega) h]; rfl
    rw [hc', hb, hn, ← hl, beBytes_beNat]; rfl
  · unfold countOf at hc; rw [hs] at hc
    obtain ⟨hd, hb, hl, hn⟩ := readBE_ok hc
    unfold minimalCount at hmin; rw [hs] at hmin
    simp only [decide_eq_true_eq] at hmin
    unfold encMapLen
    rw [if_neg (by omega), if_neg (by omega)]
    have hc' : c = 0xdf := by rw [u8_eq_of_toNat (by omega) h]; rfl
    rw [hc', hb, hn, ← hl, beBytes_beNat]; rfl

theorem arrHeader_strict {c : UInt8} {r r' : Bytes} {n : Nat} (hm : isArrayCode c = true)
    (hc : countOf c r = .ok (n, r')) (hmin : minimalCount c n = true) :
    c :: r = encArrLen n ++ r' := by
  rcases isArrayCode_cases hm with ⟨h1, h2, hs⟩ | ⟨h, hs⟩ | ⟨h, hs⟩
  · unfold countOf at hc; rw [hs] at hc
    simp only [Except.ok.injEq, Prod.mk.injEq] at hc
    obtain ⟨hn, hr⟩ := hc
    subst hn hr
    unfold encArrLen
    rw [if_pos (by omega)]
    have : c = UInt8.ofNat (0x90 + (c.toNat - 0x90)) := u8_eq_of_toNat (by omega) (by omega)
    rw [← this]; rfl
  · unfold countOf at hc; rw [hs] at hc
    obtain ⟨hd, hb, hl, hn⟩ := readBE_ok hc
    unfold minimalCount at hmin; rw [hs] at hmin
    simp only [decide_eq_true_eq] at hmin
    have hlt := beNat_lt hd
    rw [hl] at hlt
    unfold encArrLen
    rw [if_neg (by omega), if_pos (by omega)]
    have hc' : c = 0xdc := by rw [u8_eq_of_toNat (by omega) h]; rfl
    rw [hc', hb, hn, ← hl, beBytes_beNat]; rfl
  · unfold countOf at hc; rw [hs] at hc
    obtain ⟨hd, hb, hl, hn⟩ := readBE_ok hc
    unfold minimalCount at hmin; rw [hs] at hmin
    simp only [decide_eq_true_eq] at hmin
    unfold encArrLen
    rw [if_neg (by omega), if_neg (by omega)]
    have hc' : c = 0xdd := by rw [u8_eq_of_toNat (by omega) h]; rfl
    rw [hc', hb, hn, ← hl, beBytes_beNat]; rfl

theorem strHeader_strict {c : UInt8} {r k r1 : Bytes} (hsc : isStringCode c = true)
    (hk : strPayload c r = .ok (k, r1)) (hmin : minimalStr c k.length = true) :
    c :: r = encStr k ++ r1 := by
  unfold encStr
  rcases isStringCode_cases hsc with ⟨h1, h2, hs⟩ | ⟨h, hs⟩ | ⟨h, hs⟩ | ⟨h, hs⟩
  · unfold strPayload at hk; rw [hs] at hk
    obtain ⟨hb, hl⟩ := splitN_ok hk
    unfold encStrLen
    rw [if_pos (by omega), hl]
    have : c = UInt8.ofNat (0xa0 + (c.toNat - 0xa0)) := u8_eq_of_toNat (by omega) (by omega)
    rw [← this, hb]; rfl
  · unfold strPayload at hk; rw [hs] at hk
    simp only at hk
    cases hr : readBE 1 r with
    | error e => rw [hr] at hk; cases hk
    | ok mr =>
      obtain ⟨m, r'⟩ := mr
      rw [hr] at hk; simp only at hk
      obtain ⟨hd, hb, hl, hn⟩ := readBE_ok hr
      obtain ⟨hb2, hl2⟩ := splitN_ok hk
      unfold minimalStr at hmin; rw [hs] at hmin
      simp only [decide_eq_true_eq] at hmin
      have hlt := beNat_lt hd
      rw [hl] at hlt
      unfold encStrLen
      rw [if_neg (by omega), if_pos (by omega)]
      have hc' : c = 0xd9 := by rw [u8_eq_of_toNat (by omega) h]; rfl
      rw [hc', hb, hb2, hl2, hn, ← hl, beBytes_beNat]; simp
  · unfold strPayload at hk; rw [hs] at hk
    simp only at hk
    cases hr : readBE 2 r with
    | error e => rw [hr] at hk; cases hk
    | ok mr =>
      obtain ⟨m, r'⟩ := mr
      rw [hr] at hk; simp only at hk
      obtain ⟨hd, hb, hl, hn⟩ := readBE_ok hr
      obtain ⟨hb2, hl2⟩ := splitN_ok hk
      unfold minimalStr at hmin; rw [hs] at hmin
      simp only [decide_eq_true_eq] at hmin
      have hlt := beNat_lt hd
      rw [hl] at hlt
      unfold encStrLen
      rw [if_neg (by omega), if_neg (by omega), if_pos (by omega)]
      have hc' : c = 0xda := by rw [u8_eq_of_toNat (by omega) h]; rfl
      rw [hc', hb, hb2, hl2, hn, ← hl, beBytes_beNat]; simp
  · unfold strPayload at hk; rw [hs] at hk
    simp only at hk
    cases hr : readBE 4 r with
    | error e => rw [hr] at hk; cases hk
    | ok mr =>
      obtain ⟨m, r'⟩ := mr
      rw [hr] at hk; simp only at hk
      obtain ⟨hd, hb, hl, hn⟩ := readBE_ok hr
      obtain ⟨hb2, hl2⟩ := splitN_ok hk
      unfold minimalStr at hmin; rw [hs] at hmin
      simp only [decide_eq_true_eq] at hmin
      unfold encStrLen
      rw [if_neg (by omega), if_neg (by omega), if_neg (by omega)]
      have hc' : c = 0xdb := by rw [u8_eq_of_toNat (by omega) h]; rfl
      rw [hc', hb, hb2, hl2, hn, ← hl, beBytes_beNat]; simp

/-! ### the encoder's header is read back -/

theorem readBE_beBytes (k n : Nat) (hn : n < 256 ^ k) (s : Bytes) :
    readBE k (beBytes k n ++ s) = .ok (n, s) := by
  have h := readBE_of_append (beBytes k n) s
  rw [beBytes_length, beNat_beBytes, Nat.mod_eq_of_lt hn] at h
  exact h

theorem mapHeader_read (n : Nat) (hn : n < 2 ^ 32) (s : Bytes) :
    ∃ c r, encMapLen n ++ s = c :: r ∧ isMapCode c = true ∧ countOf c r = .ok (n, s) := by
  unfold encMapLen
  by_cases h1 : n < 16
  · rw [if_pos h1]
    refine ⟨UInt8.ofNat (0x80 + n), s, rfl, ?_, ?_⟩
    · unfold isMapCode; rw [u8_ofNat_toNat (by omega)]; simp; omega
    · unfold countOf shape shapeN; rw [u8_ofNat_toNat (by omega)]
      rw [if_neg (by omega), if_pos (by omega)]
      simp
  · rw [if_neg h1]
    by_cases h2 : n ≤ 65535
    · rw [if_pos h2]
      refine ⟨0xde, beBytes 2 n ++ s, rfl, by decide, ?_⟩
      show readBE 2 (beBytes 2 n ++ s) = _
      exact readBE_beBytes 2 n (by omega) s
    · rw [if_neg h2]
      refine ⟨0xdf, beBytes 4 n ++ s, rfl, by decide, ?_⟩
      show readBE 4 (beBytes 4 n ++ s) = _
      exact readBE_beBytes 4 n (by omega) s

theorem arrHeader_read (n : Nat) (hn : n < 2 ^ 32) (s : Bytes) :
    ∃ c r, encArrLen n ++ s = c :: r ∧ isMapCode c = false ∧ isArrayCode c = true ∧
      countOf c r = .ok (n, s) := by
  unfold encArrLen
  by_cases h1 : n < 16
  · rw [if_pos h1]
    refine ⟨UInt8.ofNat (0x90 + n), s, rfl, ?_, ?_, ?_⟩
    · unfold isMapCode; rw [u8_ofNat_toNat (by omega)]; simp; omega
    · unfold isArrayCode; rw [u8_ofNat_toNat (by omega)]; simp; omega
    · unfold countOf shape shapeN; rw [u8_ofNat_toNat (by omega)]
      rw [if_neg (by omega), if_neg (by omega), if_pos (by omega)]
      simp
  · rw [if_neg h1]
    by_cases h2 : n ≤ 65535
    · rw [if_pos h2]
      refine ⟨0xdc, beBytes 2 n ++ s, rfl, by decide, by decide, ?_⟩
      show readBE 2 (beBytes 2 n ++ s) = _
      exact readBE_beBytes 2 n (by omega) s
    · rw [if_neg h2]
      refine ⟨0xdd, beBytes 4 n ++ s, rfl, by decide, by decide, ?_⟩
      show readBE 4 (beBytes 4 n ++ s) = _
      exact readBE_beBytes 4 n (by omega) s

theorem strPayload_lenp {c : UInt8} {k e m : Nat} {r r' : Bytes} (hs : shape c = .lenp k e)
    (hr : readBE k r = .ok (m, r')) : strPayload c r = splitN m r' := by
  unfold strPayload; rw [hs]; simp only; rw [hr]

theorem strHeader_read (k : Bytes) (hk : k.length < 2 ^ 32) (s : Bytes) :
    ∃ c r, encStr k ++ s = c :: r ∧ isStringCode c = true ∧ strPayload c r = .ok (k, s) := by
  unfold encStr encStrLen
  by_cases h1 : k.length < 32
  · rw [if_pos h1]
    refine ⟨UInt8.ofNat (0xa0 + k.length), k ++ s, by simp, ?_, ?_⟩
    · unfold isStringCode isFixStr; rw [u8_ofNat_toNat (by omega)]; simp; omega
    · unfold strPayload shape shapeN; rw [u8_ofNat_toNat (by omega)]
      rw [if_neg (by omega), if_neg (by omega), if_neg (by omega), if_pos (by omega)]
      simp only
      have : 160 + k.length - 160 = k.length := by omega
      rw [this]
      exact splitN_of_append k s
  · rw [if_neg h1]
    by_cases h2 : k.length < 256
    · rw [if_pos h2]
      refine ⟨0xd9, beBytes 1 k.length ++ (k ++ s), by simp, by decide, ?_⟩
      rw [strPayload_lenp (c := 0xd9) (k := 1) (e := 0) rfl (readBE_beBytes 1 k.length (by omega) _)]
      exact splitN_of_append k s
    · rw [if_neg h2]
      by_cases h3 : k.length ≤ 65535
      · rw [if_pos h3]
        refine ⟨0xda, beBytes 2 k.length ++ (k ++ s), by simp, by decide, ?_⟩
        rw [strPayload_lenp (c := 0xda) (k := 2) (e := 0) rfl (readBE_beBytes 2 k.length (by omega) _)]
        exact splitN_of_append k s
      · rw [if_neg h3]
        refine ⟨0xdb, beBytes 4 k.length ++ (k ++ s), by simp, by decide, ?_⟩
        rw [strPayload_lenp (c := 0xdb) (k := 4) (e := 0) rfl (readBE_beBytes 4 k.length (by omega) _)]
        exact splitN_of_append k s

theorem encMapLen_pos (n : Nat) : 1 ≤ (encMapLen n).length := by
  unfold encMapLen; split <;> (try split) <;> simp
theorem encArrLen_pos (n : Nat) : 1 ≤ (encArrLen n).length := by
  unfold encArrLen; split <;> (try split) <;> simp
theorem encStr_pos (k : Bytes) : 1 ≤ (encStr k).length := by
  unfold encStr encStrLen; split <;> (try split) <;> (try split) <;> simp <;> omega

/-- a leaf's extent only depends on the bytes of the leaf itself -/
theorem leafExtent_prefix {c : UInt8} {p rest : Bytes} {n : Nat}
    (h : leafExtent c (p ++ rest) = .ok n) (hp : p.length = n) : leafExtent c p = .ok n := by
  unfold leafExtent at h ⊢
  split at h
  · exact h
  · rename_i k e hs
    cases hr : readBE k (p ++ rest) with
    | error er => rw [hr] at h; cases h
    | ok mr =>
      obtain ⟨m, r'⟩ := mr
      rw [hr] at h; simp only at h
      injection h with hn
      obtain ⟨hd, hb, hl, hm⟩ := readBE_ok hr
      -- the length field lies inside `p`
      have hk : k ≤ p.length := by omega
      have hp' : p = hd ++ p.drop k := by
        have h1 : hd = (p ++ rest).take k := by rw [hb]; simp [hl]
        have h2 : (p ++ rest).take k = p.take k := by
          rw [List.take_append_of_le_length hk]
        rw [h1, h2, List.take_append_drop]
      have : readBE k p = .ok (m, p.drop k) := by
        have h3 := readBE_of_append hd (p.drop k)
        rw [← hp', hl, ← hm] at h3
        exact h3
      rw [this]; simp only
      rw [hn]
  · cases h

end Hv.Patch
