/-
  Lemmas about the wire level (`Msgpack.lean`): big-endian fields round-trip, reads commute
  with appending a suffix, and the encoder's headers are read back by the decoder.
-/
import Hv.Patch.Msgpack

namespace Hv.Patch

theorem beBytes_length (k n : Nat) : (beBytes k n).length = k := by
  induction k with
  | zero => rfl
  | succ k ih => simp [beBytes, ih]

theorem beNat_lt (h : Bytes) : beNat h < 256 ^ h.length := by
  induction h with
  | nil => simp [beNat]
  | cons x xs ih =>
    simp only [beNat, List.length_cons, Nat.pow_succ]
    have hx : x.toNat < 256 := UInt8.toNat_lt x
    have : x.toNat * 256 ^ xs.length ≤ 255 * 256 ^ xs.length := Nat.mul_le_mul_right _ (by omega)
    omega

theorem beNat_beBytes (k n : Nat) : beNat (beBytes k n) = n % 256 ^ k := by
  induction k with
  | zero => simp [beBytes, beNat, Nat.mod_one]
  | succ k ih =>
    simp only [beBytes, beNat, beBytes_length, ih]
    have h1 : (UInt8.ofNat (n / 256 ^ k % 256)).toNat = n / 256 ^ k % 256 := by
      simp [UInt8.toNat_ofNat']
    rw [h1, Nat.pow_succ, Nat.mod_mul, Nat.mul_comm]
    omega

theorem beBytes_beNat (h : Bytes) : beBytes h.length (beNat h) = h := by
  induction h with
  | nil => rfl
  | cons x xs ih =>
    simp only [List.length_cons, beBytes, beNat]
    have hlt := beNat_lt xs
    have hpos : 0 < 256 ^ xs.length := Nat.pow_pos (by omega)
    have hx : x.toNat < 256 := UInt8.toNat_lt x
    have hd : (x.toNat * 256 ^ xs.length + beNat xs) / 256 ^ xs.length = x.toNat := by
      rw [Nat.mul_comm, Nat.mul_add_div hpos, Nat.div_eq_of_lt hlt]; omega
    have hm : x.toNat % 256 = x.toNat := Nat.mod_eq_of_lt hx
    rw [hd, hm]
    have : UInt8.ofNat x.toNat = x := by simp
    rw [this]
    congr 1
    -- the low part: adding a multiple of 256^len does not change the low `len` bytes
    have key : ∀ (k m : Nat) (a : Nat), k ≤ m → beBytes k (a * 256 ^ m + beNat xs) = beBytes k (beNat xs) := by
      intro k
      induction k with
      | zero => intros; rfl
      | succ k ihk =>
        intro m a hkm
        simp only [beBytes]
        have hk : k ≤ m := by omega
        rw [ihk m a hk]
        congr 2
        have hp : 0 < 256 ^ k := Nat.pow_pos (by omega)
        have : a * 256 ^ m = (a * 256 ^ (m - k - 1)) * 256 * 256 ^ k := by
          have : m = (m - k - 1) + 1 + k := by omega
          conv => lhs; rw [this, Nat.pow_add, Nat.pow_add]
          simp [Nat.mul_assoc, Nat.pow_one]
        rw [this, Nat.add_comm, Nat.add_mul_div_right _ _ hp, Nat.add_mul_mod_self_right]
    rw [key xs.length xs.length x.toNat (Nat.le_refl _)]
    exact ih

/-! ### reads and suffixes -/

theorem splitN_ok {n : Nat} {b p r : Bytes} (h : splitN n b = .ok (p, r)) :
    b = p ++ r ∧ p.length = n := by
  unfold splitN at h
  split at h
  · rename_i hle
    injection h with h; injection h with h1 h2
    subst h1 h2
    exact ⟨(List.take_append_drop n b).symm, by simp [List.length_take]; omega⟩
  · cases h

theorem splitN_append {n : Nat} {b p r : Bytes} (h : splitN n b = .ok (p, r)) (s : Bytes) :
    splitN n (b ++ s) = .ok (p, r ++ s) := by
  obtain ⟨hb, hp⟩ := splitN_ok h
  subst hb
  unfold splitN
  have : n ≤ (p ++ r ++ s).length := by simp; omega
  rw [if_pos this]
  subst hp
  simp [List.append_assoc]

theorem splitN_of_append (p r : Bytes) : splitN p.length (p ++ r) = .ok (p, r) := by
  unfold splitN
  rw [if_pos (by simp)]
  simp

theorem readBE_ok {k : Nat} {b r : Bytes} {m : Nat} (h : readBE k b = .ok (m, r)) :
    ∃ hd, b = hd ++ r ∧ hd.length = k ∧ m = beNat hd := by
  unfold readBE at h
  split at h
  · cases h
  · rename_i hd r' hs
    injection h with h; injection h with h1 h2
    subst h1 h2
    obtain ⟨hb, hl⟩ := splitN_ok hs
    exact ⟨hd, hb, hl, rfl⟩

theorem readBE_append {k : Nat} {b r : Bytes} {m : Nat} (h : readBE k b = .ok (m, r)) (s : Bytes) :
    readBE k (b ++ s) = .ok (m, r ++ s) := by
  unfold readBE at h ⊢
  split at h
  · cases h
  · rename_i hd r' hs
    injection h with h; injection h with h1 h2
    subst h1 h2
    rw [splitN_append hs s]

theorem readBE_of_append (hd r : Bytes) : readBE hd.length (hd ++ r) = .ok (beNat hd, r) := by
  unfold readBE
  rw [splitN_of_append]

theorem readBE_lt {k : Nat} {b r : Bytes} {m : Nat} (h : readBE k b = .ok (m, r)) : m < 256 ^ k := by
  obtain ⟨hd, _, hl, hm⟩ := readBE_ok h
  subst hm hl
  exact beNat_lt hd

theorem leafExtent_append {c : UInt8} {r : Bytes} {n : Nat} (h : leafExtent c r = .ok n) (s : Bytes) :
    leafExtent c (r ++ s) = .ok n := by
  unfold leafExtent at h ⊢
  split at h
  · exact h
  · rename_i k e hs
    split at h
    · cases h
    · rename_i m r' hr
      rw [readBE_append hr s]
      exact h
  · cases h

theorem countOf_append {c : UInt8} {r r' : Bytes} {n : Nat} (h : countOf c r = .ok (n, r')) (s : Bytes) :
    countOf c (r ++ s) = .ok (n, r' ++ s) := by
  unfold countOf at h ⊢
  split at h
  · injection h with h; injection h with h1 h2; subst h1 h2; rfl
  · injection h with h; injection h with h1 h2; subst h1 h2; rfl
  · exact readBE_append h s
  · exact readBE_append h s
  · cases h

theorem strPayload_append {c : UInt8} {r k r1 : Bytes} (h : strPayload c r = .ok (k, r1)) (s : Bytes) :
    strPayload c (r ++ s) = .ok (k, r1 ++ s) := by
  unfold strPayload at h ⊢
  split at h
  · exact splitN_append h s
  · split at h
    · cases h
    · rename_i m r' hr
      rw [readBE_append hr s]
      exact splitN_append h s
  · cases h

end Hv.Patch
