/-
  C13 model, part 5 — `condition.go`: `compareLeafBytes`, `cmp*`, `evaluateCondition`.

  The non-numeric branch of `compareLeafBytes` calls `msgpack.Unmarshal(x, &any)`; the model
  mirrors what that generic decoder accepts (`DecodeInterface`): string-or-bin-or-nil map keys,
  only the registered time extension (id -1, length 4/8/12), 0xc1 rejected, trailing bytes
  ignored.  Only the top-level kind (string / bytes / bool / other) and success matter.
-/
import Hv.Patch.Num
import Hv.Patch.Path

namespace Hv.Patch

/-- How `compareLeafBytes` treats a NaN operand. -/
inductive NanRule where
  | equal        -- `cmpFloat64`: neither `<` nor `>` ⇒ 0: NaN "equals" everything   [bb38e3b]
  | neverEqual   -- NaN is not comparable: the comparison is a type mismatch
  | unknown
  deriving DecidableEq, Repr

structure Cfg where
  validatesValues : Bool      -- op values are checked with `Parse` before they are spliced in
  nan : NanRule
  fixint : FixintRule := .widen64
  /-- REMOVE_VAL compares container elements too (canonical encodings), not only scalar leaves -/
  rmvalCanon : Bool := false
  deriving DecidableEq, Repr

/-! ### generic `Unmarshal` -/

/-- open containers of the generic decoder: `(isMap, tokens left)`; a map of `n` pairs has `2n`
    tokens, a key is expected when the count is even -/
abbrev GStack := List (Bool × Nat)

def gPop : GStack → GStack
  | (_, 0) :: rest => gPop rest
  | s => s

/-- consume one `DecodeString` key token -/
def gKey (c : UInt8) (r : Bytes) : Except Err Bytes :=
  if c.toNat = 0xc0 then .ok r else           -- nil key decodes as ""
  match shape c with
  | .fixed n => if isFixStr c then (match splitN n r with | .error e => .error e | .ok (_, r') => .ok r') else .error .msgpack
  | .lenp k 0 =>
    match readBE k r with
    | .error e => .error e
    | .ok (m, r') => match splitN m r' with | .error e => .error e | .ok (_, r'') => .ok r''
  | _ => .error .msgpack

/-- `DecodeInterface` success, as a token loop (fuel: input length) -/
def gLoop : Nat → GStack → Bytes → Except Err Unit
  | 0, st, _ => (match gPop st with | [] => .ok () | _ :: _ => .error .msgpack)
  | fuel + 1, st, b =>
    match gPop st with
    | [] => .ok ()
    | (isMap, cnt) :: rest =>
      match b with
      | [] => .error .msgpack
      | c :: r =>
        let top := (isMap, cnt - 1)
        if isMap && cnt % 2 = 0 then
          match gKey c r with
          | .error e => .error e
          | .ok r' => gLoop fuel (top :: rest) r'
        else
          match shape c with
          | .invalid => .error .msgpack
          | .fixed k =>
            if 0xd4 ≤ c.toNat ∧ c.toNat ≤ 0xd8 then
              -- fixext: type byte first (an unknown id fails before the payload is read)
              match r with
              | [] => .error .msgpack
              | id :: r1 =>
                if id ≠ 0xff then .error .msgpack else
                match splitN (k - 1) r1 with
                | .error e => .error e
                | .ok (_, r2) =>
                  if k - 1 = 4 ∨ k - 1 = 8 then gLoop fuel (top :: rest) r2 else .error .msgpack
            else
              match splitN k r with
              | .error e => .error e
              | .ok (_, r') => gLoop fuel (top :: rest) r'
          | .lenp k 0 =>
            match readBE k r with
            | .error e => .error e
            | .ok (m, r') =>
              match splitN m r' with
              | .error e => .error e
              | .ok (_, r'') => gLoop fuel (top :: rest) r''
          | .lenp k _ =>
            match readBE k r with
            | .error e => .error e
            | .ok (m, r') =>
              match r' with
              | [] => .error .msgpack
              | id :: r1 =>
                if id ≠ 0xff then .error .msgpack else
                match splitN m r1 with
                | .error e => .error e
                | .ok (_, r2) =>
                  if m = 4 ∨ m = 8 ∨ m = 12 then gLoop fuel (top :: rest) r2 else .error .msgpack
          | .mapFix k => gLoop fuel ((true, 2 * k) :: top :: rest) r
          | .arrFix k => gLoop fuel ((false, k) :: top :: rest) r
          | .mapLen k =>
            match readBE k r with
            | .error e => .error e
            | .ok (m, r') => gLoop fuel ((true, 2 * m) :: top :: rest) r'
          | .arrLen k =>
            match readBE k r with
            | .error e => .error e
            | .ok (m, r') => gLoop fuel ((false, m) :: top :: rest) r'

/-- top-level kind of the decoded `any` -/
inductive GKind where
  | str (s : Bytes) | bin (s : Bytes) | bool (v : Bool) | other
  deriving DecidableEq, Repr

/-- `msgpack.Unmarshal(x, &v)` with `v any` -/
def unmarshal (x : Bytes) : Except Err GKind :=
  match x with
  | [] => .error .msgpack
  | c :: r =>
    if isStringCode c then
      match strPayload c r with
      | .error e => .error e
      | .ok (s, _) => .ok (.str s)
    else if c.toNat = 0xc4 ∨ c.toNat = 0xc5 ∨ c.toNat = 0xc6 then
      match strPayload c r with
      | .error e => .error e
      | .ok (s, _) => .ok (.bin s)
    else if c.toNat = 0xc2 then .ok (.bool false)
    else if c.toNat = 0xc3 then .ok (.bool true)
    else
      match gLoop x.length [(false, 1)] x with
      | .error e => .error e
      | .ok () => .ok .other

/-- `bytes.Compare` -/
def cmpBytes : Bytes → Bytes → Int
  | [], [] => 0
  | [], _ :: _ => -1
  | _ :: _, [] => 1
  | a :: as, b :: bs => if a < b then -1 else if a > b then 1 else cmpBytes as bs

def cmpInt (a b : Int) : Int := if a < b then -1 else if a > b then 1 else 0

/-- `cmpFloat64` on bit patterns (IEEE `<` / `>`: false whenever an operand is NaN) -/
def cmpF64 (a b : Nat) : Int :=
  match (f64Val a).key, (f64Val b).key with
  | some x, some y => cmpInt x y
  | _, _ => 0

/-- `compareLeafBytes` -/
def compareLeaf (cfg : Cfg) (a b : Bytes) : Except Err Int :=
  if a.isEmpty || b.isEmpty then .error .msgpack else
  match readNumeric a with
  | .error e => .error e
  | .ok (ac, av) =>
    match readNumeric b with
    | .error e => .error e
    | .ok (bc, bv) =>
      if ac ≠ .none ∨ bc ≠ .none then
        if ac ≠ bc then .error .type else
        match ac with
        | .int => .ok (cmpInt (toInt64 av) (toInt64 bv))
        | .uint => .ok (cmpInt av bv)
        | .float =>
          if cfg.nan = .neverEqual ∧ (f64IsNaN av ∨ f64IsNaN bv) then .error .type
          else .ok (cmpF64 av bv)
        | .none => .error .type     -- unreachable
      else
        match unmarshal a with
        | .error e => .error e
        | .ok ka =>
          match unmarshal b with
          | .error e => .error e
          | .ok kb =>
            match ka with
            | .str x => (match kb with | .str y => .ok (cmpBytes x y) | _ => .error .type)
            | .bin x => (match kb with | .bin y => .ok (cmpBytes x y) | _ => .error .type)
            | .bool x =>
              (match kb with
               | .bool y => .ok (if x = y then 0 else if !x && y then -1 else 1)
               | _ => .error .type)
            | .other => if a = b then .ok 0 else .error .type

inductive CondOp where
  | eq | ne | gt | ge | lt | le | exists_ | notExists | unknown
  deriving DecidableEq, Repr

structure Condition where
  path : Bytes
  op : CondOp
  threshold : Bytes
  deriving DecidableEq, Repr

def CondOp.met : CondOp → Int → Option Bool
  | .eq, c => some (c = 0) | .ne, c => some (c ≠ 0)
  | .gt, c => some (c > 0) | .ge, c => some (c ≥ 0)
  | .lt, c => some (c < 0) | .le, c => some (c ≤ 0)
  | _, _ => none

/-- `evaluateCondition`: `.ok ()` = met -/
def evalCond (cfg : Cfg) (t : Node) (c : Condition) : Except Err Unit :=
  match parsePath c.path with
  | .error e => .error e
  | .ok segs =>
    let res := lookup segs t
    match res with
    | .error .type =>
      -- a type mismatch on the way only means "does not exist" for Exists / NotExists
      (match c.op with
       | .exists_ => .error .cond
       | .notExists => .ok ()
       | _ => .error .type)
    | .error e => .error e
    | .ok tgt =>
      let leafRaw : Option Bytes := match tgt with | some (.leaf raw) => some raw | _ => none
      match c.op with
      | .exists_ => if leafRaw.isSome then .ok () else .error .cond
      | .notExists => if leafRaw.isSome then .error .cond else .ok ()
      | op =>
        match leafRaw with
        | none => .error .cond
        | some raw =>
          match compareLeaf cfg raw c.threshold with
          | .error e => .error e
          | .ok v =>
            match op.met v with
            | none => .error .op
            | some true => .ok ()
            | some false => .error .cond

end Hv.Patch
