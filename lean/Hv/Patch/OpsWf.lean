/-
  Lemmas about the op layer, part B: each of the eight ops, the op loop and
  `applyWithCondition` keep the body well-formed when op values are validated.
-/
import Hv.Patch.OpsLemmas

namespace Hv.Patch

/-! ### new leaves are parseable -/

theorem parse_fixed_leaf {c : UInt8} {p : Bytes} (hs : shape c = .fixed p.length)
    (hm : isMapCode c = false) (ha : isArrayCode c = false) :
    parse (c :: p) = .ok (.leaf (c :: p)) := by
  apply parse_of
  have : 2 * (c :: p).length - 1 = (2 * p.length) + 1 := by simp; omega
  rw [this]
  have hl : leafExtent c p = .ok p.length := by unfold leafExtent; rw [hs]
  have hsp : splitN p.length p = .ok (p, []) := by
    have := splitN_of_append p []
    rwa [List.append_nil] at this
  exact parseNodeG_leaf hm ha hl hsp

theorem parse_code_be {c : UInt8} {k : Nat} (hs : shape c = .fixed k) (hm : isMapCode c = false)
    (ha : isArrayCode c = false) (s : Nat) :
    parse (c :: beBytes k s) = .ok (.leaf (c :: beBytes k s)) :=
  parse_fixed_leaf (by rw [beBytes_length]; exact hs) hm ha

/-- whatever INC computes is one well-formed numeric leaf -/
theorem computeInc_wf {code : UInt8} {cls : NumClass} {t d : Nat} {nr : Bytes}
    (h : computeInc code cls t d = .ok nr) : parse nr = .ok (.leaf nr) := by
  cases cls with
  | none => simp [computeInc] at h
  | int =>
    rw [computeInc] at h
    split at h
    · rename_i hc
      injection h with h; subst h
      have : code.toNat = 0xd0 ∨ code.toNat = 0xd1 ∨ code.toNat = 0xd2 := by omega
      rcases this with h0 | h0 | h0
      · have : code = 0xd0 := by rw [u8_eq_of_toNat (by omega) h0]; rfl
        subst this; exact parse_code_be (k := 1) rfl (by decide) (by decide) _
      · have : code = 0xd1 := by rw [u8_eq_of_toNat (by omega) h0]; rfl
        subst this; exact parse_code_be (k := 2) rfl (by decide) (by decide) _
      · have : code = 0xd2 := by rw [u8_eq_of_toNat (by omega) h0]; rfl
        subst this; exact parse_code_be (k := 4) rfl (by decide) (by decide) _
    · injection h with h; subst h
      exact parse_code_be (c := 0xd3) (k := 8) rfl (by decide) (by decide) _
  | uint =>
    rw [computeInc] at h
    split at h
    · rename_i hc
      injection h with h; subst h
      have : code.toNat = 0xcc ∨ code.toNat = 0xcd ∨ code.toNat = 0xce := by omega
      rcases this with h0 | h0 | h0
      · have : code = 0xcc := by rw [u8_eq_of_toNat (by omega) h0]; rfl
        subst this; exact parse_code_be (k := 1) rfl (by decide) (by decide) _
      · have : code = 0xcd := by rw [u8_eq_of_toNat (by omega) h0]; rfl
        subst this; exact parse_code_be (k := 2) rfl (by decide) (by decide) _
      · have : code = 0xce := by rw [u8_eq_of_toNat (by omega) h0]; rfl
        subst this; exact parse_code_be (k := 4) rfl (by decide) (by decide) _
    · injection h with h; subst h
      exact parse_code_be (c := 0xcf) (k := 8) rfl (by decide) (by decide) _
  | float =>
    rw [computeInc] at h
    split at h
    · injection h with h; subst h
      exact parse_code_be (c := 0xca) (k := 4) rfl (by decide) (by decide) _
    · injection h with h; subst h
      exact parse_code_be (c := 0xcb) (k := 8) rfl (by decide) (by decide) _

/-! ### MERGE fields of a validated value -/

def PfOk (pf : List (Bytes × Bytes)) : Prop :=
  ∀ kv ∈ pf, kv.1.length < 2 ^ 32 ∧ ∃ t, parse kv.2 = .ok t

theorem extractFields_valid : ∀ (f n : Nat) (b : Bytes) (pf : List (Bytes × Bytes)),
    extractFields true f n b = .ok pf → PfOk pf
  | f, 0, b, pf, h => by
    cases f <;>
    · rw [extractFields] at h
      split at h
      · cases h
      · injection h with h; subst h; intro kv hkv; simp at hkv
  | 0, n + 1, b, pf, h => by rw [extractFields] at h; cases h
  | f + 1, n + 1, [], pf, h => by rw [extractFields] at h; cases h
  | f + 1, n + 1, c :: r, pf, h => by
    rw [extractFields] at h
    by_cases hsc : isStringCode c = true
    · rw [if_neg (by simp [hsc])] at h
      cases hk : strPayload c r with
      | error e => rw [hk] at h; cases h
      | ok kr =>
        obtain ⟨k, r1⟩ := kr
        rw [hk] at h; simp only at h
        cases hsk : skipOne r1 with
        | error e => rw [hsk] at h; cases h
        | ok r2 =>
          rw [hsk] at h; simp only [if_true] at h
          cases hp : parse (List.take (r1.length - r2.length) r1) with
          | error e => rw [hp] at h; cases h
          | ok t =>
            rw [hp] at h; simp only at h
            cases hrest : extractFields true f n r2 with
            | error e => rw [hrest] at h; cases h
            | ok rest =>
              rw [hrest] at h; simp only at h
              injection h with h; subst h
              have ih := extractFields_valid f n r2 rest hrest
              intro kv hkv
              simp at hkv
              rcases hkv with rfl | hkv
              · exact ⟨strPayload_len_lt hsc hk, t, hp⟩
              · exact ih kv hkv
    · rw [if_pos (by simp [hsc])] at h; cases h

theorem extractTop_valid {v : Bytes} {pf : List (Bytes × Bytes)} (h : extractTop true v = .ok pf) :
    PfOk pf := by
  unfold extractTop at h
  split at h
  · cases h
  · split at h
    · cases h
    · split at h
      · cases h
      · exact extractFields_valid _ _ _ _ h

theorem mergeInto_wf {M : Nat} : ∀ (pf : List (Bytes × Bytes)) (fs : Fields), PfOk pf → WfBF M fs →
    WfBF M (mergeInto fs pf) ∧ (mergeInto fs pf).length ≤ fs.length + pf.length
  | [], fs, _, hf => by rw [mergeInto]; exact ⟨hf, by simp⟩
  | (k, raw) :: rest, fs, hp, hf => by
    rw [mergeInto]
    have hk := hp (k, raw) (by simp)
    have hrest : PfOk rest := fun kv hkv => hp kv (List.mem_cons_of_mem _ hkv)
    have hleaf : WfB M (.leaf raw) := by rw [WfB]; exact hk.2
    split
    · rename_i i _
      have := mergeInto_wf rest (fs.set i (k, .leaf raw)) hrest (WfBF_set fs i k _ hf hk.1 hleaf)
      refine ⟨this.1, ?_⟩
      have h2 := this.2
      simp at h2 ⊢; omega
    · have hone : WfBF M [(k, Node.leaf raw)] := by rw [WfBF, WfBF]; exact ⟨hk.1, hleaf, trivial⟩
      have := mergeInto_wf rest (fs ++ [(k, .leaf raw)]) hrest (WfBF_append fs _ hf hone)
      refine ⟨this.1, ?_⟩
      have h2 := this.2
      simp at h2 ⊢; omega

/-! ### path segments -/

theorem splitDot_len : ∀ (s : Bytes), ∀ p ∈ splitDot s, p.length ≤ s.length
  | [], p, hp => by simp [splitDot] at hp; subst hp; simp
  | c :: r, p, hp => by
    rw [splitDot] at hp
    have ih := splitDot_len r
    split at hp
    · simp at hp
      rcases hp with rfl | hp
      · simp
      · have := ih p hp; simp; omega
    · split at hp
      · simp at hp; subst hp; simp
      · rename_i q qs heq
        simp at hp
        rcases hp with rfl | hp
        · have := ih q (by rw [heq]; simp); simp; omega
        · have := ih p (by rw [heq]; simp [hp]); simp; omega

theorem parseBrackets_nofield : ∀ (f : Nat) (b : Bytes) (ss : List Seg),
    parseBrackets f b = .ok ss → ∀ k, Seg.field k ∉ ss
  | f, [], ss, h, k => by
    cases f <;> (rw [parseBrackets] at h; injection h with h; subst h; simp)
  | 0, c :: r, ss, h, k => by rw [parseBrackets] at h; cases h
  | f + 1, c :: r, ss, h, k => by
    rw [parseBrackets] at h
    split at h
    · cases h
    · split at h
      · cases h
      · rename_i e _
        simp only at h
        split at h
        · split at h
          · cases h
          · rename_i ss' hrec
            injection h with h; subst h
            have := parseBrackets_nofield f _ ss' hrec k
            simp [this]
        · split at h
          · cases h
          · split at h
            · cases h
            · rename_i n _
              split at h
              · cases h
              · rename_i ss' hrec
                injection h with h; subst h
                have := parseBrackets_nofield f _ ss' hrec k
                simp [this]

theorem parseSegment_keys {part : Bytes} {ss : List Seg} (h : parseSegment part = .ok ss) :
    ∀ k, Seg.field k ∈ ss → k.length ≤ part.length := by
  intro k hk
  unfold parseSegment at h
  split at h
  · split at h
    · cases h
    · injection h with h; subst h
      simp at hk; subst hk; exact Nat.le_refl _
  · rename_i br _
    simp only at h
    split at h
    · cases h
    · split at h
      · cases h
      · split at h
        · cases h
        · rename_i ss' hb
          injection h with h; subst h
          simp at hk
          rcases hk with rfl | hk
          · simp [List.length_take]; omega
          · exact absurd hk (parseBrackets_nofield _ _ ss' hb k)

theorem parseParts_keys : ∀ (parts : List Bytes) (segs : List Seg), parseParts parts = .ok segs →
    ∀ k, Seg.field k ∈ segs → ∃ p ∈ parts, k.length ≤ p.length
  | [], segs, h, k, hk => by rw [parseParts] at h; injection h with h; subst h; simp at hk
  | p :: ps, segs, h, k, hk => by
    rw [parseParts] at h
    split at h
    · cases h
    · split at h
      · cases h
      · split at h
        · cases h
        · rename_i ss hseg
          split at h
          · cases h
          · rename_i rest hrest
            injection h with h; subst h
            simp at hk
            rcases hk with hk | hk
            · exact ⟨p, by simp, parseSegment_keys hseg k hk⟩
            · obtain ⟨q, hq, hl⟩ := parseParts_keys ps rest hrest k hk
              exact ⟨q, by simp [hq], hl⟩

theorem parsePath_segsOk {p : Bytes} {segs : List Seg} (hp : p.length < 2 ^ 32)
    (h : parsePath p = .ok segs) : SegsOk segs := by
  intro k hk
  unfold parsePath at h
  split at h
  · cases h
  · obtain ⟨q, hq, hl⟩ := parseParts_keys _ _ h k hk
    have := splitDot_len p q hq
    omega

/-! ### the handlers -/

theorem WfB_leaf_of_parse {M : Nat} {v : Bytes} (h : ∃ t, parse v = .ok t) : WfB M (.leaf v) := by
  rw [WfB]; exact h

theorem hSet_WfB {N M : Nat} (hNM : N + 1 ≤ M) {v : Bytes} (hv : ∃ t, parse v = .ok t)
    (p : Node) (hit : Hit) (p' : Node) (hp : WfB N p) (hh : HitOk hit) (h : hSet v p hit = .ok p') :
    WfB M p' := by
  cases hit with
  | target i =>
    rw [hSet] at h; injection h with h; subst h
    exact WfB_setChild (WfB_mono (by omega) p hp) (WfB_leaf_of_parse hv)
  | appendSlot => rw [hSet] at h; cases h
  | missing rem =>
    rw [hSet] at h
    exact WfB_autoCreate hNM hp hh (WfB_leaf_of_parse hv) h

theorem hDelete_WfB {N M : Nat} (hNM : N ≤ M)
    (p : Node) (hit : Hit) (p' : Node) (hp : WfB N p) (_ : HitOk hit) (h : hDelete p hit = .ok p') :
    WfB M p' := by
  cases hit with
  | target i =>
    rw [hDelete] at h; injection h with h; subst h
    exact WfB_mono hNM _ (WfB_eraseChild hp)
  | appendSlot => simp [hDelete] at h; subst h; exact WfB_mono hNM _ hp
  | missing rem => simp [hDelete] at h; subst h; exact WfB_mono hNM _ hp

theorem hInc_WfB {N M : Nat} (hNM : N + 1 ≤ M) {v : Bytes} (hv : ∃ t, parse v = .ok t)
    (dcls : NumClass) (d : Nat)
    (p : Node) (hit : Hit) (p' : Node) (hp : WfB N p) (hh : HitOk hit)
    (h : hInc v dcls d p hit = .ok p') : WfB M p' := by
  cases hit with
  | target i =>
    rw [hInc] at h
    split at h
    · rename_i raw _
      split at h
      · cases h
      · rename_i tcls t _
        split at h
        · cases h
        · split at h
          · cases h
          · rename_i nr hci
            injection h with h; subst h
            exact WfB_setChild (WfB_mono (by omega) p hp) (WfB_leaf_of_parse ⟨_, computeInc_wf hci⟩)
    · cases h
  | appendSlot => rw [hInc] at h; cases h
  | missing rem =>
    rw [hInc] at h
    exact WfB_autoCreate hNM hp hh (WfB_leaf_of_parse hv) h

theorem hAppend_WfB {N M : Nat} (hNM : N + 1 ≤ M) {v : Bytes} (hv : ∃ t, parse v = .ok t)
    (pre : Bool)
    (p : Node) (hit : Hit) (p' : Node) (hp : WfB N p) (hh : HitOk hit)
    (h : hAppend v pre p hit = .ok p') : WfB M p' := by
  cases hit with
  | target i => rw [hAppend] at h; cases h
  | appendSlot =>
    rw [hAppend] at h; injection h with h; subst h
    cases p with
    | leaf raw => simpa [insertItem] using WfB_mono (by omega) _ hp
    | map fs => simpa [insertItem] using WfB_mono (by omega) _ hp
    | arr xs =>
      rw [WfB] at hp
      have hx := WfBI_mono (show N ≤ M by omega) xs hp.2
      have hl : WfB M (.leaf v) := WfB_leaf_of_parse hv
      simp only [insertItem]
      split
      · rw [WfB, WfBI]; exact ⟨by simp; omega, hl, hx⟩
      · rw [WfB]
        refine ⟨by simp; omega, WfBI_append xs _ hx ?_⟩
        rw [WfBI, WfBI]; exact ⟨hl, trivial⟩
  | missing rem =>
    rw [hAppend] at h
    split at h
    · rename_i hlast
      obtain ⟨ys, hys⟩ := List.getLast?_eq_some_iff.mp hlast
      have hrem : SegsOk rem.dropLast := by
        intro k hk
        apply hh k
        rw [hys] at hk ⊢
        simp at hk ⊢
        exact hk
      have hinner : WfB M (.arr [.leaf v]) := by
        rw [WfB, WfBI, WfBI]; exact ⟨by simp; omega, WfB_leaf_of_parse hv, trivial⟩
      exact WfB_autoCreate hNM hp hrem hinner h
    · cases h

theorem hRemoveAt_WfB {N M : Nat} (hNM : N ≤ M)
    (p : Node) (hit : Hit) (p' : Node) (hp : WfB N p) (_ : HitOk hit) (h : hRemoveAt p hit = .ok p') :
    WfB M p' := by
  cases hit with
  | target i =>
    rw [hRemoveAt] at h; injection h with h; subst h
    exact WfB_mono hNM _ (WfB_eraseChild hp)
  | appendSlot => simp [hRemoveAt] at h
  | missing rem => simp [hRemoveAt] at h

theorem removeFirstC_length (w : Bytes) : ∀ (xs : List Node), (removeFirstC w xs).length ≤ xs.length
  | [] => by simp [removeFirstC]
  | x :: rest => by
    have ih := removeFirstC_length w rest
    rw [removeFirstC]; split
    · simp
    · simp; exact ih

theorem WfBI_removeFirstC {N : Nat} (w : Bytes) : ∀ (xs : List Node), WfBI N xs → WfBI N (removeFirstC w xs)
  | [], _ => by rw [removeFirstC, WfBI]; trivial
  | x :: rest, h => by
    rw [WfBI] at h
    rw [removeFirstC]; split
    · exact h.2
    · rw [WfBI]; exact ⟨h.1, WfBI_removeFirstC w rest h.2⟩

theorem rmVal_ok {N : Nat} (c : Bool) (v : Bytes) (xs : List Node) (h : WfBI N xs) :
    WfBI N (rmVal c v xs) ∧ (rmVal c v xs).length ≤ xs.length := by
  unfold rmVal; split
  · exact ⟨WfBI_removeFirstC _ xs h, removeFirstC_length _ xs⟩
  · exact ⟨WfBI_removeFirst v xs h, removeFirst_length v xs⟩

theorem hRemoveVal_WfB {N M : Nat} (hNM : N ≤ M) (rm : List Node → List Node)
    (hrm : ∀ xs, WfBI N xs → WfBI N (rm xs) ∧ (rm xs).length ≤ xs.length)
    (p : Node) (hit : Hit) (p' : Node) (hp : WfB N p) (_ : HitOk hit)
    (h : hRemoveVal rm p hit = .ok p') : WfB M p' := by
  cases hit with
  | target i =>
    rw [hRemoveVal] at h
    split at h
    · rename_i xs hg
      injection h with h; subst h
      have hc := WfB_getChild hp hg
      rw [WfB] at hc
      have hnew : WfB N (.arr (rm xs)) := by
        rw [WfB]
        exact ⟨Nat.le_trans (hrm xs hc.2).2 hc.1, (hrm xs hc.2).1⟩
      exact WfB_mono hNM _ (WfB_setChild hp hnew)
    · cases h
  | appendSlot => simp [hRemoveVal] at h; subst h; exact WfB_mono hNM _ hp
  | missing rem => simp [hRemoveVal] at h; subst h; exact WfB_mono hNM _ hp

theorem hMerge_WfB {N M : Nat} {pf : List (Bytes × Bytes)} (hNM : N + pf.length + 1 ≤ M) (hpf : PfOk pf)
    (p : Node) (hit : Hit) (p' : Node) (hp : WfB N p) (hh : HitOk hit)
    (h : hMerge pf p hit = .ok p') : WfB M p' := by
  cases hit with
  | target i =>
    rw [hMerge] at h
    split at h
    · rename_i fs hg
      injection h with h; subst h
      have hc := WfB_getChild hp hg
      rw [WfB] at hc
      have hm := mergeInto_wf (M := M) pf fs hpf (WfBF_mono (by omega) fs hc.2)
      have hnew : WfB M (.map (mergeInto fs pf)) := by
        rw [WfB]; exact ⟨by have := hm.2; omega, hm.1⟩
      exact WfB_setChild (WfB_mono (by omega) p hp) hnew
    · cases h
  | appendSlot => rw [hMerge] at h; cases h
  | missing rem =>
    rw [hMerge] at h
    have hm := mergeInto_wf (M := M) pf [] hpf (by rw [WfBF]; trivial)
    have hinner : WfB M (.map (mergeInto [] pf)) := by
      rw [WfB]; exact ⟨by have := hm.2; simp at this; omega, hm.1⟩
    exact WfB_autoCreate (by omega) hp hh hinner h

/-! ### ops, the loop, the whole call -/

/-- how many children one op can add to a container -/
def growth (cfg : Cfg) (op : Op) : Nat :=
  match op.kind with
  | .merge =>
    match extractTop cfg.validatesValues op.value with
    | .ok pf => pf.length + 1
    | .error _ => 1
  | _ => 1

def totalGrowth (cfg : Cfg) : List Op → Nat
  | [] => 0
  | op :: rest => growth cfg op + totalGrowth cfg rest

theorem validateValue_ok {cfg : Cfg} (hv : cfg.validatesValues = true) {v : Bytes}
    (h : validateValue cfg v = .ok ()) : ∃ t, parse v = .ok t := by
  unfold validateValue at h
  rw [if_pos hv] at h
  split at h
  · cases h
  · rename_i t ht; exact ⟨t, ht⟩

theorem applyOp_WfB {cfg : Cfg} (hv : cfg.validatesValues = true) {N : Nat} {t t' : Node} {op : Op}
    {segs : List Seg} (ht : WfB N t) (hs : SegsOk segs) (h : applyOp cfg t op segs = .ok t') :
    WfB (N + growth cfg op) t' := by
  unfold applyOp at h
  unfold growth
  cases hk : op.kind with
  | set =>
    rw [hk] at h; simp only at h ⊢
    split at h
    · cases h
    · split at h
      · cases h
      · rename_i hval
        exact walk_WfB (by omega) _ (hSet_WfB (by omega) (validateValue_ok hv hval)) segs t t' hs ht h
  | delete =>
    rw [hk] at h; simp only at h ⊢
    exact walk_WfB (by omega) _ (hDelete_WfB (by omega)) segs t t' hs ht h
  | inc =>
    rw [hk] at h; simp only at h ⊢
    split at h
    · cases h
    · split at h
      · cases h
      · rename_i hval
        split at h
        · cases h
        · rename_i dcls d _
          split at h
          · cases h
          · exact walk_WfB (by omega) _ (hInc_WfB (by omega) (validateValue_ok hv hval) dcls d)
              segs t t' hs ht h
  | append =>
    rw [hk] at h; simp only at h ⊢
    split at h
    · cases h
    · split at h
      · cases h
      · rename_i hval
        exact walk_WfB (by omega) _ (hAppend_WfB (by omega) (validateValue_ok hv hval) false)
          segs t t' hs ht h
  | prepend =>
    rw [hk] at h; simp only at h ⊢
    split at h
    · cases h
    · split at h
      · cases h
      · rename_i hval
        exact walk_WfB (by omega) _ (hAppend_WfB (by omega) (validateValue_ok hv hval) true)
          segs t t' hs ht h
  | removeAt =>
    rw [hk] at h; simp only at h ⊢
    split at h
    · exact walk_WfB (by omega) _ (hRemoveAt_WfB (by omega)) segs t t' hs ht h
    · cases h
  | removeVal =>
    rw [hk] at h; simp only at h ⊢
    split at h
    · cases h
    · exact walk_WfB (by omega) _ (hRemoveVal_WfB (by omega) _ (rmVal_ok _ _)) segs t t' hs ht h
  | merge =>
    rw [hk] at h; simp only at h ⊢
    split at h
    · cases h
    · split at h
      · cases h
      · rename_i pf hpf
        rw [hpf]; simp only
        rw [hv] at hpf
        exact walk_WfB (by omega) _ (hMerge_WfB (by omega) (extractTop_valid hpf)) segs t t' hs ht h
  | unknown => rw [hk] at h; cases h

theorem stepOp_WfB {cfg : Cfg} (hv : cfg.validatesValues = true) {N : Nat} {t t' : Node} {op : Op}
    (hp : op.path.length < 2 ^ 32) (ht : WfB N t) (h : stepOp cfg t op = .ok t') :
    WfB (N + growth cfg op) t' := by
  unfold stepOp at h
  split at h
  · cases h
  · rename_i segs hsegs
    exact applyOp_WfB hv ht (parsePath_segsOk hp hsegs) h

theorem applyOps_WfB {cfg : Cfg} (hv : cfg.validatesValues = true) :
    ∀ (ops : List Op) (N : Nat) (t t' : Node), (∀ op ∈ ops, op.path.length < 2 ^ 32) → WfB N t →
      applyOps cfg t ops = .ok t' → WfB (N + totalGrowth cfg ops) t'
  | [], N, t, t', _, ht, h => by
    rw [applyOps] at h; injection h with h; subst h; simpa [totalGrowth] using ht
  | op :: rest, N, t, t', hp, ht, h => by
    rw [applyOps] at h
    split at h
    · cases h
    · rename_i t1 hstep
      have h1 := stepOp_WfB hv (hp op (by simp)) ht hstep
      have h2 := applyOps_WfB hv rest _ t1 t' (fun o ho => hp o (List.mem_cons_of_mem _ ho)) h1 h
      rw [totalGrowth]
      have : N + (growth cfg op + totalGrowth cfg rest) = N + growth cfg op + totalGrowth cfg rest := by omega
      rw [this]; exact h2

/-- A reported success leaves a body the parser accepts (validated op values). -/
theorem applyWithCondition_wf {cfg : Cfg} (hv : cfg.validatesValues = true)
    {body : Bytes} {ops : List Op} {cond : Option Condition} {out : Bytes} {t : Node}
    (hparse : parse body = .ok t)
    (hpaths : ∀ op ∈ ops, op.path.length < 2 ^ 32)
    (hsize : maxCh t + totalGrowth cfg ops < 2 ^ 32)
    (h : applyWithCondition cfg body ops cond = .ok out) : wf out = true := by
  unfold applyWithCondition at h
  rw [hparse] at h; simp only at h
  split at h
  · cases h
  · split at h
    · cases h
    · rename_i t' hops
      injection h with h; subst h
      have h0 := wf_WfB t (parse_wf hparse).1
      have h1 := applyOps_WfB hv ops _ t t' hpaths h0 hops
      have h2 := serialize_parse (WfB_wf hsize t' h1)
      unfold wf; rw [h2]

end Hv.Patch
